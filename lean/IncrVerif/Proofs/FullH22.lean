import IncrVerif.Proofs.FullH21
/-!
# C01 full fragment: the `didChange` invariant through the linking cascade, part 3 (`became_necessary`, the corollaries)

Port of `MapRef22` and of the whole-state consumers of `MapRef23`.
-/
namespace IncrVerif.Proofs.FullH
open IncrVerif.Engine IncrVerif.Proofs IncrVerif.Proofs.Step IncrVerif.Proofs.Sched IncrVerif.Proofs.Quiet
open IncrVerif.Proofs.MapRefH

theorem bn_stepK (env : Env) (g : Nat → Option Val) (rk : Nat → Nat) (fuel : Nat) (ih : APK env g rk fuel) :
    BNK env g rk (fuel + 1) := by
  intro n s s' F T h hpre
  unfold becameNecessary at h
  obtain ⟨nd, hnd, h⟩ := bind_getNode_inv h
  have hn : n < s.nodes.size := lt_of_some hnd
  obtain ⟨x, s00, hx, h⟩ := bind_ok_inv h
  have e00 : s00 = s := (PresS.scopeIsNecessary _).h _ _ _ hx
  rw [e00] at h
  dsimp only at h
  cases hc : (nd.valid && !x) with
  | true =>
    rw [hc] at h; simp only [if_true] at h
    obtain ⟨_, _, h1, _⟩ := bind_ok_inv h
    rw [run_panic] at h1; cases h1
  | false =>
    rw [hc] at h
    simp only [Bool.false_eq_true, if_false] at h
    obtain ⟨s0, hs0, h⟩ := bind_modify_inv h
    obtain ⟨_, s1, h1, h⟩ := bind_ok_inv h
    obtain ⟨ht, s1', hsh, h⟩ := bind_ok_inv h
    have e1' : s1' = s1 := (Step.Pres.scopeHeight (R := SameC) _).h _ _ _ hsh
    rw [e1'] at h
    obtain ⟨_, s2, h2, h⟩ := bind_ok_inv h
    obtain ⟨nd2, hnd2, h⟩ := bind_getNode_inv h
    rw [run_bind_get] at h
    obtain ⟨b, s3, h3, h⟩ := bind_ok_inv h
    -- the prefix
    have L0 : Lt s s0 := by rw [hs0]; exact Lt.of_nodes rfl rfl rfl rfl
    have L1 : Lt s0 s1 := lt_run h1
    have L2 : Lt s1 s2 := lt_run h2
    have L02 : Lt s s2 := (L0.trans L1).trans L2
    have F2 : CK rk s2 := F.of_cframe L02.fr
    have T2 : Inherit env g s2 := T.of_cframe L02.fr
    have hpre2 : ∀ m, rk m < rk n → s2.isNecessary m = true → KN env g s2 m := fun m hm hnm =>
      KC.lt_kn L02 (hpre m hm (by rw [← L02.nec]; exact hnm))
    -- the loop
    have hloop := forIn_ok_inv _ (s2.children n)
      (fun j (b : Int × Nat) t => b.2 = j ∧ GRk s2 t ∧
        (∀ m, ¬ rk m < rk n → (t.nodeD m).parents = (s2.nodeD m).parents) ∧
        (∀ m, rk m < rk n → t.isNecessary m = true → KN env g t m) ∧
        (∀ pr i, (s2.nodeD n).kind = .mapRef pr i → IsMapRef (s2.nodeD i).kind → Unclean env g s2 i → 0 < j →
          ∀ a, MkV s2 a n → (t.nodeD a).didChange = true))
      (by
        intro j c b t r t' hj ⟨hb2, Gt, hsame, hK, hP⟩ hbody
        obtain ⟨_, t1, ha, hbody⟩ := bind_ok_inv hbody
        obtain ⟨xc, hxc, hbody⟩ := bind_getNode_inv hbody
        have hcmem : c ∈ s2.children n := List.mem_of_getElem? hj
        have hcn : rk c < rk n := F2.kidLt n c hcmem
        have hcv : (t.nodeD c).valid = true := by rw [Gt.fr.toV.valid]; exact F2.kidsValid n c hcmem
        have Ft : CK rk t := Gt.ck F2
        have Tt : Inherit env g t := T2.of_cframe Gt.fr
        obtain ⟨A', B', C', G'⟩ := ih c b.2 n t t1 Ft Tt ha hcn hcv hK
        have hnew : (b.2 + 1 = j + 1) ∧ GRk s2 t1 ∧
            (∀ m, ¬ rk m < rk n → (t1.nodeD m).parents = (s2.nodeD m).parents) ∧
            (∀ m, rk m < rk n → t1.isNecessary m = true → KN env g t1 m) ∧
            (∀ pr i, (s2.nodeD n).kind = .mapRef pr i → IsMapRef (s2.nodeD i).kind → Unclean env g s2 i →
              0 < j + 1 → ∀ a, MkV s2 a n → (t1.nodeD a).didChange = true) := by
          refine ⟨by rw [hb2], Gt.trans G',
            fun m hm => (C' m (by omega) (fun e => by rw [e] at hm; exact hm hcn)).trans (hsame m hm), A', ?_⟩
          intro pr i hk hmi hu _ a ha'
          by_cases hj0 : 0 < j
          · exact G'.fm a (hP pr i hk hmi hu hj0 a ha')
          · have hj0' : j = 0 := by omega
            have hci : c = i := by
              rw [KC.children_mapRef ha'.valid hk, hj0'] at hj
              simpa using hj.symm
            rw [hci] at B'
            exact B' pr (by rw [Gt.fr.kind]; exact hk) (by rw [Gt.fr.kind]; exact hmi)
              ((unclean_vframe Gt.fr.toV i).2 hu) a (Gt.mk_mono ha')
        split at hbody
        · obtain ⟨hr, ht'⟩ := pure_ok_inv hbody
          rw [ht']; exact ⟨_, hr, hnew⟩
        · obtain ⟨hr, ht'⟩ := pure_ok_inv hbody
          rw [ht']; exact ⟨_, hr, hnew⟩)
      (s2.children n) 0 (nd2.height, 0) s2 b s3 (by simp) (Nat.zero_le _)
      ⟨rfl, GRk.refl _, fun _ _ => rfl, hpre2, fun _ _ _ _ _ h0 => absurd h0 (by omega)⟩ h3
    obtain ⟨-, G3, hsame3, hK3, hP3⟩ := hloop
    -- the final height
    obtain ⟨_, s4, h4, h⟩ := bind_ok_inv h
    have L4 : Lt s3 s4 := lt_run h4
    rw [run_bind_get] at h
    replace h := bind_dassert_inv h
    replace h := bind_dassert_inv h
    have G4 : GRk s s4 := ((GRk.of_lt L02).trans G3).trans (GRk.of_lt L4)
    have T4 : Inherit env g s4 := T.of_cframe G4.fr
    have key : Lt s4 s' ∧ (s4.isStale n = true → ∀ a, MkV s4 a n → (s'.nodeD a).didChange = true) := by
      cases hst : s4.isStale n with
      | false =>
        rw [hst] at h
        simp only [Bool.false_eq_true, if_false] at h
        exact ⟨lt_run h, fun e => by cases e⟩
      | true =>
        rw [hst] at h
        simp only [if_true] at h
        obtain ⟨_, s5, h5, h⟩ := bind_ok_inv h
        obtain ⟨_, s6, h6, h⟩ := bind_ok_inv h
        have L5 : Lt s4 s5 := markMapRefUnknown_lt h5
        have L6 : Lt s5 s6 := lt_run h6
        have L7 : Lt s6 s' := lt_run h
        refine ⟨(L5.trans L6).trans L7, fun _ a ha => ?_⟩
        exact (L6.trans L7).fm a (markMapRefUnknown_marksV h5 a ha)
    obtain ⟨L5, hmark⟩ := key
    have L35 : Lt s3 s' := L4.trans L5
    have B : IsMapRef (s.nodeD n).kind → Unclean env g s n → ∀ a, MkV s a n → (s'.nodeD a).didChange = true := by
      intro hmr hu a ha
      cases hst : s4.isStale n with
      | true => exact hmark hst a (G4.mk_mono ha)
      | false =>
        obtain ⟨pr, i, hk⟩ := isMapRef_iff.1 hmr
        have hv4 : (s4.nodeD n).valid = true := by rw [G4.fr.toV.valid]; exact ha.valid
        have hk4 : (s4.nodeD n).kind = .mapRef pr i := by rw [G4.fr.kind]; exact hk
        obtain ⟨hmi4, hui4⟩ := T4 n pr i hv4 hk4 hst ((unclean_vframe G4.fr.toV n).2 hu)
        have G24 : GRk s2 s4 := G3.trans (GRk.of_lt L4)
        have hk2 : (s2.nodeD n).kind = .mapRef pr i := by rw [L02.fr.kind]; exact hk
        have hv2 : (s2.nodeD n).valid = true := by rw [L02.fr.toV.valid]; exact ha.valid
        have hlen : 0 < (s2.children n).length := by rw [KC.children_mapRef hv2 hk2]; simp
        have := hP3 pr i hk2 (by rw [← G24.fr.kind]; exact hmi4) ((unclean_vframe G24.fr.toV i).1 hui4) hlen a
          ((GRk.of_lt L02).mk_mono ha)
        exact L35.fm a this
    refine ⟨fun m hm hnm => ?_, B, fun m hm => ?_, G4.trans (GRk.of_lt L5)⟩
    · by_cases e : m = n
      · rw [e]
        intro hv' hmr' hu'
        have G := G4.trans (GRk.of_lt L5)
        exact B (by rw [← G.fr.kind]; exact hmr') ((unclean_vframe G.fr.toV n).1 hu') n
          (MkV.self (by rw [← G.fr.toV.valid]; exact hv') (by rw [← G.fr.kind]; exact hmr'))
      · rw [L35.nec] at hnm
        exact KC.lt_kn L35 (hK3 m (by rcases hm with hm | hm; exact hm; exact absurd hm e) hnm)
    · rw [L35.pp.1, hsame3 m hm, L02.pp.1]

theorem linkK' (env : Env) (g : Nat → Option Val) (rk : Nat → Nat) (fuel : Nat) :
    BNK env g rk fuel ∧ APK env g rk fuel := by
  induction fuel with
  | zero =>
    constructor
    · intro n s s' _ _ h; unfold becameNecessary at h; cases h
    · intro c idx p s s' _ _ h; unfold addParentWithoutAdjustingHeights at h; cases h
  | succ fuel ih => exact ⟨bn_stepK env g rk fuel ih.2, ap_stepK env g rk fuel ih.1⟩

section
variable {env : Env} {sp : Nat → Val → Val} {g : Nat → Option Val} {rk : Nat → Nat} {fuel : Nat} {s s' : State}

/-- **the linking cascade, `became_necessary`** -/
theorem becameNecessary_keepsK {n : Nat} (F : CFrag env sp g rk s) (T : Inherit env g s)
    (h : (becameNecessary env fuel n).run.run s = (.ok (), s'))
    (hpre : ∀ m, rk m < rk n → s.isNecessary m = true → KN env g s m) :
    (∀ m, (rk m < rk n ∨ m = n) → s'.isNecessary m = true → KN env g s' m) ∧
    (IsMapRef (s.nodeD n).kind → Unclean env g s n → ∀ a, MkV s a n → (s'.nodeD a).didChange = true) ∧
    (∀ m, ¬ rk m < rk n → (s'.nodeD m).parents = (s.nodeD m).parents) ∧
    s'.propagateInvalidity = s.propagateInvalidity ∧ FM s s' ∧ VFrame s s' ∧ GRk s s' := by
  obtain ⟨A, B, C, G⟩ := (linkK' env g rk fuel).1 n s s' F.toCK T h hpre
  exact ⟨A, B, C, G.pinv, G.fm, G.vframe, G⟩

/-- **the linking cascade, `add_parent_without_adjusting_heights`** (the child is valid) -/
theorem addParent_keepsK {c idx p : Nat} (F : CFrag env sp g rk s) (T : Inherit env g s)
    (h : (addParentWithoutAdjustingHeights env fuel c idx p).run.run s = (.ok (), s')) (hcp : rk c < rk p)
    (hcv : (s.nodeD c).valid = true)
    (hpre : ∀ m, rk m < rk p → s.isNecessary m = true → KN env g s m) :
    (∀ m, rk m < rk p → s'.isNecessary m = true → KN env g s' m) ∧
    (∀ pr, (s.nodeD p).kind = .mapRef pr c → IsMapRef (s.nodeD c).kind → Unclean env g s c →
      ∀ a, MkV s a p → (s'.nodeD a).didChange = true) ∧
    (∀ m, ¬ rk m < rk c → m ≠ c → (s'.nodeD m).parents = (s.nodeD m).parents) ∧
    s'.propagateInvalidity = s.propagateInvalidity ∧ FM s s' ∧ VFrame s s' ∧ GRk s s' := by
  obtain ⟨A, B, C, G⟩ := (linkK' env g rk fuel).2 c idx p s s' F.toCK T h hcp hcv hpre
  exact ⟨A, B, C, G.pinv, G.fm, G.vframe, G⟩

/-! ## whole-state corollaries -/

/-- `became_necessary` on a node `n`, when the invariant holds at every other necessary node (with the relation `GRk`, and from `CK`) -/
theorem becameNecessary_keepsK_all' {n : Nat} (F : CK rk s) (T : Inherit env g s)
    (hK : ∀ m, m ≠ n → s.isNecessary m = true → KN env g s m)
    (h : (becameNecessary env fuel n).run.run s = (.ok (), s')) :
    KInv env g s' ∧ GRk s s' ∧ (∀ m, ¬ rk m < rk n → (s'.nodeD m).parents = (s.nodeD m).parents) := by
  obtain ⟨A, -, C, G⟩ := (linkK' env g rk fuel).1 n s s' F T h
    (fun m hm => hK m (fun e => by rw [e] at hm; omega))
  refine ⟨kInv_iff.2 fun m hm => ?_, G, C⟩
  by_cases hmn : rk m < rk n ∨ m = n
  · exact A m hmn hm
  · have e1 : ¬ rk m < rk n := fun x => hmn (Or.inl x)
    have e2 : m ≠ n := fun x => hmn (Or.inr x)
    have hm0 : s.isNecessary m = true := by
      rw [← nec_congr (C m e1) (G.fr.observers m) (G.fr.forceNecessary m)]; exact hm
    exact G.kn (hK m e2 hm0)

/-- **`became_necessary` on a node that has just become necessary** (`add_new_observers`: `n` has just received its first
observer; the invariant is known at every OTHER necessary node) -/
theorem becameNecessary_keepsK_all {n : Nat} (F : CFrag env sp g rk s) (T : Inherit env g s)
    (hK : ∀ m, m ≠ n → s.isNecessary m = true → KN env g s m)
    (h : (becameNecessary env fuel n).run.run s = (.ok (), s')) :
    KInv env g s' ∧ VFrame s s' ∧ FM s s' ∧ s'.propagateInvalidity = s.propagateInvalidity := by
  obtain ⟨K, G, -⟩ := becameNecessary_keepsK_all' F.toCK T hK h
  exact ⟨K, G.vframe, G.fm, G.pinv⟩

/-- `add_parent_without_adjusting_heights c idx p`, `c` valid, below `p` in the rank order, from a state in which the invariant holds
everywhere (with the relation `GRk`, and from `CK`) -/
theorem addParent_keepsK_all' {c idx p : Nat} (F : CK rk s) (T : Inherit env g s) (K : KInv env g s)
    (h : (addParentWithoutAdjustingHeights env fuel c idx p).run.run s = (.ok (), s')) (hcp : rk c < rk p)
    (hcv : (s.nodeD c).valid = true) :
    KInv env g s' ∧ GRk s s' ∧ (∀ m, ¬ rk m < rk c → m ≠ c → (s'.nodeD m).parents = (s.nodeD m).parents) := by
  have K' := kInv_iff.1 K
  obtain ⟨A, -, C, G⟩ := (linkK' env g rk fuel).2 c idx p s s' F T h hcp hcv (fun m _ hm => K' m hm)
  refine ⟨kInv_iff.2 fun m hm => ?_, G, C⟩
  by_cases hmp : rk m < rk p
  · exact A m hmp hm
  · have hm0 : s.isNecessary m = true := by
      rw [← nec_congr (C m (by omega) (fun e => by rw [e] at hmp; exact hmp hcp)) (G.fr.observers m)
        (G.fr.forceNecessary m)]
      exact hm
    exact G.kn (K' m hm0)

/-- **`add_parent_without_adjusting_heights`, whole state** (`state_add_parent rhs 1 main`) -/
theorem addParent_keepsK_all {c idx p : Nat} (F : CFrag env sp g rk s) (T : Inherit env g s) (K : KInv env g s)
    (h : (addParentWithoutAdjustingHeights env fuel c idx p).run.run s = (.ok (), s')) (hcp : rk c < rk p)
    (hcv : (s.nodeD c).valid = true) :
    KInv env g s' ∧ VFrame s s' ∧ FM s s' ∧ s'.propagateInvalidity = s.propagateInvalidity := by
  obtain ⟨K1, G, -⟩ := addParent_keepsK_all' F.toCK T K h hcp hcv
  exact ⟨K1, G.vframe, G.fm, G.pinv⟩

end
end IncrVerif.Proofs.FullH
