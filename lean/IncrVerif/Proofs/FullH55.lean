import IncrVerif.Proofs.FullH54
/-!
# C01 full fragment: the `didChange` invariant through a run of a change detector, part 2
(phase 1: the closure run; phase 3: the invalidation of the old generation; `Inherit` in the state of the drain invariant)
-/
namespace IncrVerif.Proofs.FullH
open IncrVerif.Engine IncrVerif.Proofs IncrVerif.Proofs.Step IncrVerif.Proofs.Sched IncrVerif.Proofs.Quiet
open IncrVerif.Proofs.MapRefH (IsMapRef isMapRef_iff not_isMapRef_iff FM)
open IncrVerif.Proofs.BindH (DInv BGraph Below Edge ConsistentB TargetB)
open IncrVerif.Proofs.NestH (F2Inv GInv2 All2 Dying IRel2 CRel2)
open IncrVerif.Proofs.NestH.NC (Pre2 P1 P2 P3)

namespace KL

section
variable {env : Env} {sp : Nat → Val → Val} {g : Nat → Option Val} {s s1 : State} {t : State}
  {rk rk' : Nat → Nat} {n b rhs : Nat} {br : BindRec} {l : List Nat}

/-! ## phase 1: the closure run -/

theorem vs1 (P : P1 (VE env sp) rk rk' n b rhs br l (virt g s) (virt g s1)) (V : VM s s1) {m : Nat}
    (hm : m < s.nodes.size) : VS g g s s1 m :=
  VS.of_upto (V.kind m hm).1 (P.old_upto (by rw [virt_size]; exact hm))

/-- the children of an old valid map_ref node are old valid nodes -/
theorem kid_old (A : F2Inv (VE env sp) rk (virt g s)) {m p i : Nat} (hm : m < s.nodes.size)
    (hv : (s.nodeD m).valid = true) (hk : (s.nodeD m).kind = .mapRef p i) :
    i < s.nodes.size ∧ (s.nodeD i).valid = true := by
  have hc : i ∈ (virt g s).children m := by rw [virt_children, children_mapRef hv hk]; exact List.mem_singleton.2 rfl
  have N := A.frag.node m (by rw [virt_size]; exact hm)
  have h1 := N.kidsIn i hc
  have h2 := N.kidsValid i hc
  rw [virt_size] at h1
  rw [virt_nodeD, virtNode_valid] at h2
  exact ⟨h1, h2⟩

/-- a new node is not necessary after the closure run -/
theorem new_not_nec (P : P1 (VE env sp) rk rk' n b rhs br l (virt g s) (virt g s1)) {m : Nat}
    (h1 : s.nodes.size ≤ m) (h2 : m < s1.nodes.size) : s1.isNecessary m = false := by
  obtain ⟨-, -, -, -, -, h6, h7, h8, -⟩ := P.new (m := m) (by rw [virt_size]; exact h1) (by rw [virt_size]; exact h2)
  rw [← virt_isNecessary g s1 m]
  unfold State.isNecessary Node.isNecessary
  rw [h6, h7, h8]; rfl

/-- **phase 1 keeps the `didChange` invariant** (same ghost): old nodes are unchanged in the virtual state, new nodes are not necessary -/
theorem phase1_keepsK (F : FFrag env sp g s) (K : KInv env g s) (A : F2Inv (VE env sp) rk (virt g s))
    (P : P1 (VE env sp) rk rk' n b rhs br l (virt g s) (virt g s1)) (V : VM s s1) : KInv env g s1 := by
  have hb := F.back
  have hb' := mapRefsBack_of_vm hb V
  refine KInv.transfer_vs K hb hb' (fun m => m < s.nodes.size ∧ (s.nodeD m).valid = true) (fun m h => h.2) ?_ ?_ ?_ ?_
  · intro m hm; exact vs1 P V hm.1
  · intro m p i hm hk; exact kid_old A hm.1 hm.2 hk
  · intro m hm hd; exact V.flag m hm.1 hd
  · intro m p i hv hn hk
    by_cases hm : m < s.nodes.size
    · refine ⟨hm, ?_⟩
      rw [← (vs1 P V hm).valid']; exact hv
    · exfalso
      rw [new_not_nec P (by omega) (lt_of_mapRef hk)] at hn; cases hn

/-- what the later phases need of the closure run: the old nodes -/
structure Old1 (env : Env) (n : Nat) (s s1 : State) : Prop where
  size : s.nodes.size ≤ s1.nodes.size
  kind : ∀ m, m < s.nodes.size → (s1.nodeD m).kind = (s.nodeD m).kind
  valid : ∀ m, m < s.nodes.size → (s1.nodeD m).valid = (s.nodeD m).valid
  stamps : ∀ m, m < s.nodes.size → m ≠ n →
    (s1.nodeD m).recomputedAt = (s.nodeD m).recomputedAt ∧ (s1.nodeD m).changedAt = (s.nodeD m).changedAt
  new : ∀ m, s.nodes.size ≤ m → m < s1.nodes.size → (s1.nodeD m).recomputedAt = -1
  value : ∀ m, m < s.nodes.size → (s.nodeD m).valid = true → s1.value env m = s.value env m

theorem old1_of (F : FFrag env sp g s) (A : F2Inv (VE env sp) rk (virt g s))
    (P : P1 (VE env sp) rk rk' n b rhs br l (virt g s) (virt g s1)) (V : VM s s1) : Old1 env n s s1 := by
  have hb := F.back
  have hb' := mapRefsBack_of_vm hb V
  refine ⟨V.size, fun m hm => (V.kind m hm).1, fun m hm => (vs1 P V hm).valid', fun m hm e => ?_, fun m h1 h2 => ?_,
    fun m hm hv => ?_⟩
  · have := P.old_other (m := m) (by rw [virt_size]; exact hm) e
    have h1 := congrArg Node.recomputedAt this
    have h2 := congrArg Node.changedAt this
    rw [virt_nodeD, virt_nodeD, virtNode_recomputedAt, virtNode_recomputedAt] at h1
    rw [virt_nodeD, virt_nodeD, virtNode_changedAt, virtNode_changedAt] at h2
    exact ⟨h1, h2⟩
  · have := (P.new (m := m) (by rw [virt_size]; exact h1) (by rw [virt_size]; exact h2)).2.2.1
    rw [virt_nodeD, virtNode_recomputedAt] at this
    exact this
  · exact value_eq_vs (g := g) (g' := g) hb hb' (fun m => m < s.nodes.size ∧ (s.nodeD m).valid = true) (fun m h => h.2)
      (fun m hm => vs1 P V hm.1) (fun m p i hm hk => kid_old A hm.1 hm.2 hk) m ⟨hm, hv⟩

end

/-! ## phase 3: the old generation is invalidated -/

section
variable {env : Env} {sp : Nat → Val → Val} {g2 g3 : Nat → Option Val} {s2 s3 : State} {rk' : Nat → Nat} {br : BindRec}

/-- a node that is valid after phase 3 is not dying: its virtual node is unchanged -/
theorem alive_eq (R3 : P3 (VE env sp) rk' br (virt g2 s2) (virt g3 s3)) {m : Nat} (hv : (s3.nodeD m).valid = true) :
    (virt g3 s3).nodeD m = (virt g2 s2).nodeD m := by
  apply R3.rel.other
  intro hd
  have := (R3.rel.dead m hd).1
  rw [virt_nodeD, virtNode_valid, hv] at this
  cases this

/-- **phase 3 keeps the `didChange` invariant** (the ghost is erased on nodes that die): a node that is valid afterwards is not dying, and
neither are the inputs it reads through -/
theorem phase3_keepsK (K : KInv env g2 s2) (hb : MapRefsBack s2)
    (R3 : P3 (VE env sp) rk' br (virt g2 s2) (virt g3 s3)) (R : GR g2 g3 s2 s3) : KInv env g3 s3 := by
  have hb' := mapRefsBack_of_vm hb R.vm
  have hsz : s3.nodes.size = s2.nodes.size := by have := R3.rel.size; rw [virt_size, virt_size] at this; exact this
  have hvs : ∀ m, m < s3.nodes.size ∧ (s3.nodeD m).valid = true → VS g2 g3 s2 s3 m := fun m hm =>
    VS.of_eq (R.vm.kind m (by rw [← hsz]; exact hm.1)).1 (alive_eq R3 hm.2)
  refine KInv.transfer_vs K hb hb' (fun m => m < s3.nodes.size ∧ (s3.nodeD m).valid = true) ?_ hvs ?_ ?_ ?_
  · intro m hm; rw [← (hvs m hm).valid']; exact hm.2
  · intro m p i hm hk
    have hk3 : (s3.nodeD m).kind = .mapRef p i := by rw [(hvs m hm).kind]; exact hk
    have hc : i ∈ (virt g3 s3).children m := by
      rw [virt_children, children_mapRef hm.2 hk3]; exact List.mem_singleton.2 rfl
    have N := R3.g.frag.node m (by rw [virt_size]; exact hm.1)
    have h1 := N.kidsIn i hc
    have h2 := N.kidsValid i hc
    rw [virt_size] at h1
    rw [virt_nodeD, virtNode_valid] at h2
    exact ⟨h1, h2⟩
  · intro m hm hd; exact R.vm.flag m (by rw [← hsz]; exact hm.1) hd
  · intro m p i hv _ hk; exact ⟨lt_of_mapRef hk, hv⟩

end

/-! ## `Inherit` in the state of the drain invariant -/

section
variable {env : Env} {sp : Nat → Val → Val} {g : Nat → Option Val} {s : State}

/-- a valid map_ref node that is not stale is unclean only through its input: from the consistency of the virtual state
(port of `MapRefH.inherit_of_cons`) -/
theorem inherit_of_cons (F : FFrag env sp g s)
    (hcons : ∀ m, m < (virt g s).nodes.size → ((virt g s).nodeD m).valid = true → (virt g s).isStale m = false →
      ConsistentB (VE env sp) (virt g s) m) : Inherit env g s := by
  intro m pr i hv hk hst hu
  have hlt := F.lt_of_mapRef hk
  obtain ⟨w, hw, hvw⟩ := hcons m (by rw [virt_size]; exact hlt) (by rw [virt_nodeD, virtNode_valid]; exact hv)
    (by rw [virt_isStale]; exact hst)
  have hkv : ((virt g s).nodeD m).kind = .map (pBase + pr) [i] := by
    rw [virt_nodeD, virtNode_kind, hk]; rfl
  unfold TargetB Target at hw
  rw [hkv] at hw
  obtain ⟨vals, hvals, hwv⟩ := hw
  rw [virt_plainVals] at hvals
  simp only [evalArgs] at hvals
  have hgm : g m = tv g s m := (tv_mapRef hk).symm
  have hread : s.value env m = (s.value env i).map (env.proj pr) := value_mapRef F hv hk
  cases hx : tv g s i with
  | none => rw [hx] at hvals; simp at hvals
  | some x =>
    rw [hx] at hvals
    simp at hvals
    subst hvals
    have hgm' : g m = some (env.proj pr x) := by
      rw [hgm]; show ((virt g s).nodeD m).value = _; rw [hvw, hwv, virtEnv_fn_proj _ _ (F.pid hk)]; rfl
    have hne : s.value env i ≠ some x := by
      intro h; apply hu; rw [hgm', hread, h]; rfl
    by_cases hmi : ∀ p j, (s.nodeD i).kind ≠ .mapRef p j
    · exact absurd ((tv_eq_value_of_not_mapRef (g := g) hmi).symm.trans hx) hne
    · have hmr : IsMapRef (s.nodeD i).kind := Classical.byContradiction fun h => hmi (not_isMapRef_iff.1 h)
      refine ⟨hmr, ?_⟩
      obtain ⟨p, j, hki⟩ := isMapRef_iff.1 hmr
      unfold Unclean
      have : g i = some x := by rw [← tv_mapRef (g := g) hki]; exact hx
      rw [this]
      exact fun h => hne h.symm

theorem DInvF.inherit {t : State} {x : Option Nat} (D : DInvF env sp t s g x) : Inherit env g s :=
  inherit_of_cons D.frag D.inv.cons

end
end KL
end IncrVerif.Proofs.FullH
