import IncrVerif.Proofs.NestH53
import IncrVerif.Proofs.NestH19
import IncrVerif.Proofs.BindH92
/-!
# Nested binds (F2), part 4, `stabilise`, part 1: the structural invariant at rest from the drain invariant

Port of `BindH92` (`C2s1`).  `C2s.stabiliseEnd_binds` (`stabiliseEnd` keeps the bind table), `C2s.evalB_congr` are generic and reused.
-/
namespace IncrVerif.Proofs.NestH
open IncrVerif.Engine IncrVerif.Driver IncrVerif.Proofs IncrVerif.Proofs.Step IncrVerif.Proofs.Sched IncrVerif.Proofs.Quiet
open IncrVerif.Proofs.BindH

namespace N4s

/-- the set of excused nodes may shrink to an equivalent one -/
theorem ginv2_ex_congr {env : Env} {rk : Nat → Nat} {s : State} {op : Nat → Op} {ex ex' : Nat → Prop} {dy : List Nat}
    (I : GInv2 env rk s op ex dy) (h : ∀ m, ex m → ex' m) : GInv2 env rk s op ex' dy :=
  { I with queued := fun m ho hn hs hex => I.queued m ho hn hs (fun e => hex (h m e)) }

end N4s

/-- between two runs of a drain the structural invariant holds at rest, with the same rank -/
theorem struct2_of_dinv {env : Env} {rk : Nat → Nat} {s : State} (I : DInv env s none) (A : F2Inv env rk s) :
    Struct2 env rk s :=
  N4s.ginv2_ex_congr (ginv2_of_dinv I A) (fun m e => by cases e)

end IncrVerif.Proofs.NestH
