import IncrVerif.Proofs.NestH4
import IncrVerif.Proofs.NestH1
import IncrVerif.Proofs.BindH14
/-! Boolean checkers: `All2` and the dynamic fields of `GInv2` at rest (dy = []), with a concrete rank (position of the scope path in lexicographic order);
`StepL2` -/
namespace IncrVerif.Proofs.NestH
open IncrVerif.Engine IncrVerif.Proofs IncrVerif.Proofs.Step IncrVerif.Proofs.Sched IncrVerif.Proofs.BindH

/-- the scope path of a node: the change detectors of the enclosing binds, outermost first, then the node -/
def pathOf (s : State) : Nat → Nat → List Nat
  | 0, m => [m]
  | f+1, m => match (s.nodeD m).createdIn with
    | .top => [m]
    | .bind b => match s.binds[b]? with
      | some br => pathOf s f br.lhsChange ++ [m]
      | none => [m]

def lexLt : List Nat → List Nat → Bool
  | [], [] => false
  | [], _ :: _ => true
  | _ :: _, [] => false
  | a :: as, b :: bs => a < b || (a == b && lexLt as bs)

def pathRk (s : State) : Array Nat :=
  let ps := (Array.range s.nodes.size).map fun m => pathOf s (s.nodes.size + 1) m
  ps.map fun p => (ps.filter fun q => lexLt q p).size

def n2Report (s : State) (rk : Array Nat) (n : Nat) : List String :=
  let nd := s.nodeD n
  let ch := s.children n
  let r (m : Nat) := rk[m]?.getD 0
  let checks : List (String × Bool) := [
    ("kind", bkindB nd.kind),
    ("cutoff", decide (nd.cutoff = .eq) || decide (nd.cutoff = .never)),
    ("kidsIn", ch.all fun c => decide (c < s.nodes.size)),
    ("kidsValid", ch.all fun c => (s.nodeD c).valid),
    ("kidLt", ch.all fun c => decide (r c < r n)),
    ("recs", match nd.kind with
      | .bindLhsChange b => (match s.binds[b]? with | some br => decide (br.lhsChange = n) | none => false)
      | .bindMain b lc => (match s.binds[b]? with
          | some br => decide (br.main = n) && decide (br.lhsChange = lc) | none => false)
      | _ => true),
    ("lcChild", ch.all fun c => match (s.nodeD c).kind with
        | .bindLhsChange b => decide (nd.kind = .bindMain b c)
        | _ => true),
    ("top/inScope", match nd.createdIn with
      | .top => nd.valid && ch.all fun c =>
          decide ((s.nodeD c).createdIn = .top) ||
          (match nd.kind with
           | .bindMain b _ => decide ((s.nodeD c).createdIn = .bind b)
           | _ => false)
      | .bind b => (match nd.kind with | .var _ => false | _ => true) &&
          (match s.binds[b]? with
           | none => false
           | some br => decide (br.main < n) && ch.all fun c =>
               decide ((s.nodeD c).createdIn = .top) ||
               decide ((s.nodeD c).createdIn = .bind b) ||
               (match nd.kind with
                | .bindMain b2 _ => decide ((s.nodeD c).createdIn = .bind b2)
                | _ => false))),
    ("scopeRk/scopeValid", match nd.createdIn with
      | .top => true
      | .bind b => match s.binds[b]? with
        | none => false
        | some br => decide (r br.lhsChange < r n) && decide (r n < r br.main) &&
            (!nd.valid || ((s.nodeD br.lhsChange).valid && (s.nodeD br.main).valid)))]
  (checks.filter fun c => !c.2).map fun c => s!"n{n}:{c.1}"

def all2Report (s : State) : List String :=
  let rk := pathRk s
  ((List.range s.nodes.size).flatMap (n2Report s rk)) ++
  ((List.range s.binds.size).flatMap fun b =>
    match s.binds[b]? with
    | none => ["bind?"]
    | some br =>
      let c1 := decide (br.main = br.lhsChange + 1) && decide (br.main < s.nodes.size) &&
        decide ((s.nodeD br.lhsChange).kind = .bindLhsChange b) &&
        decide ((s.nodeD br.main).kind = .bindMain b br.lhsChange) &&
        decide ((s.nodeD br.lhsChange).createdIn = (s.nodeD br.main).createdIn) &&
        decide ((s.nodeD br.lhsChange).valid = (s.nodeD br.main).valid)
      let scopeNodes := (List.range s.nodes.size).filter fun m =>
        (s.nodeD m).valid && decide ((s.nodeD m).createdIn = .bind b)
      let c2 := (br.allNodesCreatedOnRhs.all fun m => scopeNodes.contains m) &&
        (scopeNodes.all fun m => br.allNodesCreatedOnRhs.contains m)
      (if c1 then [] else [s!"b{b}:recs"]) ++ (if c2 then [] else [s!"b{b}:gen {br.allNodesCreatedOnRhs} vs {scopeNodes}"])) ++
  (if (rk.toList.eraseDups.length == rk.size) then [] else ["rkInj"]) ++
  (if s.panicCountdown.isNone then [] else ["pc"]) ++
  (if s.currentScope == .top then [] else ["scope"])

def ginv2RestReport (s : State) : List String :=
  all2Report s ++
  ((List.range s.nodes.size).flatMap fun m =>
    let nd := s.nodeD m
    (if nd.valid || (nd.parents.isEmpty && nd.observers.isEmpty && !nd.forceNecessary && !nd.inRch) then [] else [s!"n{m}:inv"]) ++
    (match nd.createdIn with
     | .top => []
     | .bind b =>
       (if nd.observers.isEmpty then [] else [s!"n{m}:scopeObs"]) ++
       (match s.binds[b]? with
        | none => [s!"n{m}:nobind"]
        | some br => if !(nd.valid && nd.isNecessary) || decide ((s.nodeD br.lhsChange).height < nd.height) then []
            else [s!"n{m}:scopeH"])) ++
    (match nd.kind with
     | .bindLhsChange _ => (if nd.observers.isEmpty then [] else [s!"n{m}:lcObs"]) ++
         (if nd.cutoff == .never then [] else [s!"n{m}:lcCut"])
     | _ => []) ++
    (if nd.parents.eraseDups.length == nd.parents.length then [] else [s!"n{m}:nodup"]) ++
    (if !nd.forceNecessary then [] else [s!"n{m}:force"]))

def stepL2Report (n : Nat) (r : Option Nat) (s s' : State) : List String :=
  match (s.nodeD n).kind with
  | .bindLhsChange b =>
    match s.binds[b]?, s'.binds[b]? with
    | some br, some br' =>
      let below := belowOf s
      let checks : List (String × Bool) := [
        ("lc", decide (br.lhsChange = n) && decide (br'.lhsChange = n) && decide (br'.main = br.main) &&
          decide (br'.lhs = br.lhs) && decide (br'.body = br.body)),
        ("bindsOld", decide (s.binds.size ≤ s'.binds.size) &&
          (List.range s.binds.size).all fun b' => decide (b' = b) ||
            match s.binds[b']?, s'.binds[b']? with
            | some x, some y => decide (x.lhs = y.lhs) && decide (x.body = y.body) &&
                decide (x.lhsChange = y.lhsChange) && decide (x.main = y.main) && decide (x.rhs = y.rhs) &&
                (!(s'.nodeD x.main).valid || decide (x.allNodesCreatedOnRhs = y.allNodesCreatedOnRhs))
            | _, _ => false),
        ("grow", decide (s.nodes.size ≤ s'.nodes.size)),
        ("vars", varsSameB s s'),
        ("stabNum", decide (s'.stabNum = s.stabNum)),
        ("graph'", bgraphB s'),
        ("heap'", heapInvB s'),
        ("stamps'", stampsB s'),
        ("qstale'", allN s' fun m => !(s'.nodeD m).inRch || s'.isStale m),
        ("pending'", pendingB s' r),
        ("self", decide ((s'.nodeD n).recomputedAt = s.stabNum) && decide ((s'.nodeD n).changedAt = s.stabNum) &&
          decide ((s'.nodeD n).value = some .unit) && (s'.nodeD n).valid &&
          decide ((s'.nodeD n).kind = (s.nodeD n).kind) && decide (s'.children n = s.children n) &&
          decide ((s'.nodeD n).createdIn = (s.nodeD n).createdIn)),
        ("old", allN s fun m => decide (m = n) ||
          ((s.nodeD m).valid && !(s'.nodeD m).valid && (below m).contains n) ||
          (decide ((s'.nodeD m).valid = (s.nodeD m).valid) && decide ((s'.nodeD m).kind = (s.nodeD m).kind) &&
            decide ((s'.nodeD m).createdIn = (s.nodeD m).createdIn) &&
            decide ((s'.nodeD m).value = (s.nodeD m).value) &&
            decide ((s'.nodeD m).recomputedAt = (s.nodeD m).recomputedAt) &&
            decide ((s'.nodeD m).changedAt = (s.nodeD m).changedAt) &&
            (decide (m = br.main) || decide (s'.children m = s.children m)))),
        ("new", allN s' fun m => decide (m < s.nodes.size) ||
          (decide ((s'.nodeD m).recomputedAt = -1) && decide ((s'.nodeD m).createdIn = .bind b) &&
            (!(s'.nodeD m).valid || s'.isStale m))),
        ("main", decide (br.main < s.nodes.size) && (s.children br.main).contains n &&
          (s'.children br.main).contains n && decide (br.main ≠ n)),
        ("ret", match r with
          | none => true
          | some p => decide (p = br.main) && !(s'.nodeD p).inRch && s'.isNecessary p &&
              allN s' fun m => !(s'.nodeD m).inRch || decide ((s'.nodeD p).height ≤ (s'.nodeD m).height))]
      (checks.filter fun c => !c.2).map (·.1)
    | _, _ => ["bind"]
  | _ => ["kind"]

end IncrVerif.Proofs.NestH
