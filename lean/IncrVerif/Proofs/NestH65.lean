import IncrVerif.Proofs.NestH64
import IncrVerif.Proofs.NestH48
import IncrVerif.Proofs.NestH49
import IncrVerif.Proofs.NestH50
import IncrVerif.Proofs.BindH107
import IncrVerif.Proofs.BindH109
/-!
# Nested binds (F2), part 4h-1: every API action of the fragment keeps `QI2`; the initial state

Port of `BindH.step_q1` / `BindH.qinv1_init` (`Proofs/BindH108.lean`) to programs with nested binds (fragment F2).  The `stabilise` action is taken from a
hypothesis `STAB`, so that this file does not depend on the files of the `stabilise` proof.
-/
namespace IncrVerif.Proofs.NestH
open IncrVerif.Engine IncrVerif.Driver IncrVerif.Proofs IncrVerif.Proofs.Step IncrVerif.Proofs.Sched IncrVerif.Proofs.Quiet
open IncrVerif.Proofs.BindH

/-- **one action.** Every API action of the fragment that returns keeps the invariant between actions. -/
theorem step_q2 {env : Env}
    (STAB : ∀ {fuel : Nat} {s s' : State}, QI2 env s → (stabilise env fuel).run.run s = (.ok (), s') → QI2 env s')
    {s s' : State} {a : Action} {tokens : Array Nat} {r : String × Array Nat}
    (Q : QI2 env s) (ha : ActionF2 env s.top.size a)
    (h : (stepAction env a tokens).run.run s = (.ok r, s')) : QI2 env s' := by
  cases a <;> try exact ha.elim
  case create i => exact (step_create2 Q ha h).1
  case stabilise => exact STAB Q (Quiet.step_stabilise h)
  all_goals obtain ⟨rk, Q⟩ := Q
  case observe n =>
    cases n <;> try exact ha.elim
    exact ⟨rk, step_observe2 Q h⟩
  case cloneObs o => exact ⟨rk, step_cloneObs2 Q h⟩
  case dropObs o => exact ⟨rk, step_dropObs2 Q h⟩
  case disallow o => exact ⟨rk, step_disallow2 Q h⟩
  case set v x => exact ⟨rk, step_write2 (a := .set v x) Q trivial h⟩
  case modify v d => exact ⟨rk, step_write2 (a := .modify v d) Q trivial h⟩
  case update v d => exact ⟨rk, step_write2 (a := .update v d) Q trivial h⟩
  case replace v x => exact ⟨rk, step_write2 (a := .replace v x) Q trivial h⟩
  case replaceWith v d => exact ⟨rk, step_write2 (a := .replaceWith v d) Q trivial h⟩
  case get v => exact ⟨rk, step_write2 (a := .get v) Q trivial h⟩
  case isStable => exact ⟨rk, step_write2 (a := .isStable) Q trivial h⟩
  case stats => exact ⟨rk, step_write2 (a := .stats) Q trivial h⟩

/-! ## the initial state -/

namespace N4h

theorem all2_init (env : Env) (rk : Nat → Nat) (N : Nat) (d : Bool) : All2 env rk (State.init N d) [] where
  pc := rfl
  scope := rfl
  node n hn := by
    have hsz : (State.init N d).nodes.size = 0 := rfl
    rw [hsz] at hn; omega
  recs b br hb := by rw [C2h.init_binds] at hb; cases hb
  gen b br hb := by rw [C2h.init_binds] at hb; cases hb
  genDy b br hb := by rw [C2h.init_binds] at hb; cases hb
  dyIn m hm := by cases hm
  scopeValid n b br hn := by
    have hsz : (State.init N d).nodes.size = 0 := rfl
    rw [hsz] at hn; omega
  recValid b br hb := by rw [C2h.init_binds] at hb; cases hb
  scopeRk n b br hn := by
    have hsz : (State.init N d).nodes.size = 0 := rfl
    rw [hsz] at hn; omega
  rkInj n m hn := by
    have hsz : (State.init N d).nodes.size = 0 := rfl
    rw [hsz] at hn; omega

end N4h

/-- the initial state satisfies the invariant, for any rank -/
theorem qinv2_init (env : Env) (rk : Nat → Nat) (N : Nat) (d : Bool) : QInv2 env rk (State.init N d) := by
  have hnd := Quiet.init_nodeD N d
  have hnec : ∀ m, (State.init N d).isNecessary m = false := fun m => by
    rw [State.isNecessary, hnd]; rfl
  have hin : ∀ m, ((State.init N d).nodeD m).inRch = false := fun m => by rw [hnd]; rfl
  have hsz : (State.init N d).nodes.size = 0 := rfl
  have hpar : ∀ m, ((State.init N d).nodeD m).parents = [] := fun m => by rw [hnd]; rfl
  have hobs : ∀ m, ((State.init N d).nodeD m).observers = [] := fun m => by rw [hnd]; rfl
  have hval : ∀ m, ((State.init N d).nodeD m).valid = true := fun m => by rw [hnd]; rfl
  have hkind : ∀ m, ((State.init N d).nodeD m).kind = .const .unit := fun m => by rw [hnd]; rfl
  have hsc : ∀ m, ((State.init N d).nodeD m).createdIn = .top := fun m => by rw [hnd]; rfl
  have A := N4h.all2_init env rk N d
  have hnodup : ∀ c, ((State.init N d).nodeD c).parents.Nodup := fun c => by rw [hpar]; exact List.nodup_nil
  have hinv : ∀ m, ((State.init N d).nodeD m).valid = false → False := fun m h => by
    rw [hval] at h; cases h
  refine
    { struct := ?_, f2 := ?_, vars := ?_, obs := ?_, obsTop := ?_, now := Int.le_refl _, stamps := ?_, varStamp := ?_,
      cons := ?_, status := rfl, alive := rfl, setDuringStab := rfl, deadVars := rfl, handleAfterStab := rfl }
  · -- the structural invariant
    refine
      { frag := A, par := ?_, conv := ?_, nodup := hnodup, hlt := ?_, hpos := ?_, lnec := ?_, unec := ?_, heap := ?_, hgt := ?_,
        qnec := ?_, queued := ?_, qstale := ?_, opLt := ?_, scopeH := ?_, inv := ?_, scopeObs := ?_, lcObs := ?_ }
    · intro c p i hm; rw [hpar] at hm; cases hm
    · intro p i c hk hw
      have e : (State.init N d).children p = [] := by
        rw [State.children, hnd]; rfl
      rw [e] at hk; cases hk
    · intro c p i hm; rw [hpar] at hm; cases hm
    · intro n hn; rw [hnec] at hn; cases hn
    · intro p k ho; cases ho
    · intro p k ho; cases ho
    · refine ⟨heapWF_init N d, ?_, ?_⟩
      · intro m hm; rw [hin] at hm; cases hm
      · show (0 : Int) ≤ (N : Int) + 1
        omega
    · intro m hm; rw [hin] at hm; cases hm
    · intro m hm; rw [hin] at hm; cases hm
    · intro m _ hn; rw [hnec] at hn; cases hn
    · intro m hm; rw [hin] at hm; cases hm
    · intro m ho; exact absurd rfl ho
    · intro n b br _ hb; rw [hsc] at hb; cases hb
    · intro m hv; exact (hinv m hv).elim
    · intro m b hb; rw [hsc] at hb; cases hb
    · intro m b hb; rw [hkind] at hb; cases hb
  · -- the auxiliary invariant
    refine
      { frag := A, nodup := hnodup, ahh := ?_, pinv := rfl, noForce := ?_, noHandlers := ?_, inv := ?_, scopeObs := ?_,
        lcObs := ?_, lcCut := ?_, topOK := ?_, closures := ?_, lhsOK := ?_, rhsNone := ?_, deadNone := ?_, rhsOK := ?_ }
    · refine ⟨rfl, ?_, fun m => by rw [hnd]; rfl⟩
      intro i hi
      simp [State.init, mkHeap]
    · intro m; rw [hnd]; rfl
    · intro m; rw [hnd]; rfl
    · intro m hv; exact (hinv m hv).elim
    · intro m b hb; rw [hsc] at hb; cases hb
    · intro m b hb; rw [hkind] at hb; cases hb
    · intro m b hb; rw [hkind] at hb; cases hb
    · intro k r hk; rw [C2h.init_top] at hk; cases hk
    · intro b br hb; rw [C2h.init_binds] at hb; cases hb
    · intro b br hb; rw [C2h.init_binds] at hb; cases hb
    · intro b br hb; rw [C2h.init_binds] at hb; cases hb
    · intro b br hb; rw [C2h.init_binds] at hb; cases hb
    · intro b br o hb; rw [C2h.init_binds] at hb; cases hb
  · refine ⟨fun n c hn => by rw [hsz] at hn; omega, fun c vc hc => ?_⟩
    simp [State.init] at hc
  · refine ⟨fun o ob ho => ?_, fun n o => ?_, fun o ob ho => ?_, fun o ho => ?_, fun o ob ho => ?_,
      fun o ho => ?_, List.nodup_nil⟩
    · simp [State.init] at ho
    · rw [hobs]
      constructor
      · intro h; cases h
      · rintro ⟨ob, ho, -⟩; simp [State.init] at ho
    · simp [State.init] at ho
    · simp [State.init] at ho
    · simp [State.init] at ho
    · simp [State.init] at ho
  · intro o ob ho; simp [State.init] at ho
  · intro m; rw [hnd]; exact ⟨show (-1 : Int) < 0 by decide, show (-1 : Int) < 0 by decide⟩
  · intro c vc hc; simp [State.init] at hc
  · intro m hm; rw [hsz] at hm; omega

theorem qi2_init (env : Env) (N : Nat) (d : Bool) : QI2 env (State.init N d) :=
  ⟨fun m => m, qinv2_init env (fun m => m) N d⟩

end IncrVerif.Proofs.NestH
