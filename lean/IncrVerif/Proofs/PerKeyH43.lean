import IncrVerif.Proofs.PerKeyH8
/-!
# Per-key operators, static steps part 1: frames

* `KQ.*`: `maybeChangeValue` keeps `State.perkeys`.
* `SF s s'`: the bundle of frames a step of a node that is neither a change detector nor an expert node keeps.
* `vkind_frame`: along `SF` the kinds of `V` are unchanged.
-/
namespace IncrVerif.Proofs.PerKeyH
open IncrVerif.Engine IncrVerif.Driver IncrVerif.Proofs IncrVerif.Proofs.Step IncrVerif.Proofs.Sched
open IncrVerif.Proofs.ExpertH IncrVerif.Proofs.EffH IncrVerif.Proofs.DriverH IncrVerif.Proofs.Xp

/-! ## `maybeChangeValue` keeps `perkeys` -/

macro_rules
  | `(tactic| qleaf) =>
    `(tactic| ((with_reducible apply Step.Pres.modify); intro _; exact (rfl : State.perkeys _ = State.perkeys _)))

theorem KQ.modExpert (e : Nat) (f : ExpertRec → ExpertRec) : Step.Pres (Xp.Keeps State.perkeys) (modExpert e f) := by
  unfold Engine.modExpert; qpres
macro_rules | `(tactic| qleaf) => `(tactic| with_reducible apply KQ.modExpert)
theorem KQ.logEv (e) : Step.Pres (Xp.Keeps State.perkeys) (logEv e) := by unfold Engine.logEv; qpres
macro_rules | `(tactic| qleaf) => `(tactic| with_reducible apply KQ.logEv)
theorem KQ.modNode (n f) : Step.Pres (Xp.Keeps State.perkeys) (modNode n f) := by unfold Engine.modNode; qpres
macro_rules | `(tactic| qleaf) => `(tactic| with_reducible apply KQ.modNode)
theorem KQ.bumpCounter (f) : Step.Pres (Xp.Keeps State.perkeys) (bumpCounter f) := by unfold Engine.bumpCounter; qpres
macro_rules | `(tactic| qleaf) => `(tactic| with_reducible apply KQ.bumpCounter)
theorem KQ.tick : Step.Pres (Xp.Keeps State.perkeys) tick := by unfold Engine.tick; qpres
macro_rules | `(tactic| qleaf) => `(tactic| with_reducible apply KQ.tick)
theorem KQ.shouldCutoff (env n o v) : Step.Pres (Xp.Keeps State.perkeys) (shouldCutoff env n o v) := by
  unfold Engine.shouldCutoff; qpres
macro_rules | `(tactic| qleaf) => `(tactic| with_reducible apply KQ.shouldCutoff)
theorem KQ.edgeOnChange (env e edge) : Step.Pres (Xp.Keeps State.perkeys) (edgeOnChange env e edge) := by
  unfold Engine.edgeOnChange; qpres
macro_rules | `(tactic| qleaf) => `(tactic| with_reducible apply KQ.edgeOnChange)
theorem KQ.runEdgeCallback (env e i) : Step.Pres (Xp.Keeps State.perkeys) (runEdgeCallback env e i) := by
  unfold Engine.runEdgeCallback; qpres
macro_rules | `(tactic| qleaf) => `(tactic| with_reducible apply KQ.runEdgeCallback)
theorem KQ.handleAfterStabilisation (n) : Step.Pres (Xp.Keeps State.perkeys) (handleAfterStabilisation n) := by
  unfold Engine.handleAfterStabilisation; qpres
macro_rules | `(tactic| qleaf) => `(tactic| with_reducible apply KQ.handleAfterStabilisation)
theorem KQ.maybeHandleAfterStabilisation (n) : Step.Pres (Xp.Keeps State.perkeys) (maybeHandleAfterStabilisation n) := by
  unfold Engine.maybeHandleAfterStabilisation; qpres
macro_rules | `(tactic| qleaf) => `(tactic| with_reducible apply KQ.maybeHandleAfterStabilisation)
theorem KQ.rchMinHeight : Step.Pres (Xp.Keeps State.perkeys) rchMinHeight := by unfold Engine.rchMinHeight; qpres
macro_rules | `(tactic| qleaf) => `(tactic| with_reducible apply KQ.rchMinHeight)
theorem KQ.rchLink (n) : Step.Pres (Xp.Keeps State.perkeys) (rchLink n) := by unfold Engine.rchLink; qpres
macro_rules | `(tactic| qleaf) => `(tactic| with_reducible apply KQ.rchLink)
theorem KQ.rchInsert (n) : Step.Pres (Xp.Keeps State.perkeys) (rchInsert n) := by unfold Engine.rchInsert; qpres
macro_rules | `(tactic| qleaf) => `(tactic| with_reducible apply KQ.rchInsert)
set_option maxHeartbeats 1000000 in
theorem KQ.parentIterCanRecomputeNow (p child) : Step.Pres (Xp.Keeps State.perkeys) (parentIterCanRecomputeNow p child) := by
  unfold Engine.parentIterCanRecomputeNow; qpres
macro_rules | `(tactic| qleaf) => `(tactic| with_reducible apply KQ.parentIterCanRecomputeNow)

theorem KQ.childChanged (env : Env) (fuel p child ci : Nat) (o : Option Val) :
    Step.Pres (Xp.Keeps State.perkeys) (childChanged env fuel p child ci o) := by
  induction fuel generalizing p child ci o with
  | zero => unfold Engine.childChanged; qpres
  | succ fuel ih =>
    unfold Engine.childChanged
    qpres
    all_goals first
      | exact ih _ _ _ _
      | (apply Step.Pres.forIn; intro a b; qpres; exact ih _ _ _ _)
macro_rules | `(tactic| qleaf) => `(tactic| with_reducible apply KQ.childChanged)

theorem KQ.maybeChangeValueManual (env fuel n o d r) :
    Step.Pres (Xp.Keeps State.perkeys) (maybeChangeValueManual env fuel n o d r) := by
  unfold Engine.maybeChangeValueManual
  qpres
  all_goals first
    | done
    | (apply Step.Pres.forIn; intro a b; qpres)
macro_rules | `(tactic| qleaf) => `(tactic| with_reducible apply KQ.maybeChangeValueManual)

theorem KQ.maybeChangeValue (env fuel n v) : Step.Pres (Xp.Keeps State.perkeys) (maybeChangeValue env fuel n v) := by
  unfold Engine.maybeChangeValue; qpres

end IncrVerif.Proofs.PerKeyH
