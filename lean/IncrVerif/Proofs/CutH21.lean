import IncrVerif.Proofs.CutH15
import IncrVerif.Engine.Run
-- Port of Proofs/Quiet15.lean to ARBITRARY cutoffs (scratch name Q15); overview in Props/C06History.lean
/-!
# Part 14: `stabiliseEnd` when no observer has update handlers
-/
namespace IncrVerif.Proofs.CutH
open IncrVerif.Engine IncrVerif.Driver IncrVerif.Proofs IncrVerif.Proofs.Step IncrVerif.Proofs.Sched
variable {e : Bool}

/-- `s'` is `s` after a `stabiliseEnd` with no deferred writes, no dead vars and no update handlers -/
structure Finished' (s s' : State) : Prop where
  size : s'.nodes.size = s.nodes.size
  node : ∀ m, ∃ b, s'.nodeD m = { s.nodeD m with inHandleAfterStab := b }
  vars : s'.vars = s.vars
  rch : s'.rch = s.rch
  ahh : s'.ahh = s.ahh
  observers : s'.observers = s.observers
  newObservers : s'.newObservers = s.newObservers
  disallowedObservers : s'.disallowedObservers = s.disallowedObservers
  allObservers : s'.allObservers = s.allObservers
  scope : s'.currentScope = s.currentScope
  pc : s'.panicCountdown = s.panicCountdown
  top : s'.top = s.top
  handles : s'.handles = s.handles
  alive : s'.alive = s.alive
  pinv : s'.propagateInvalidity = s.propagateInvalidity
  cfg : s'.cfg = s.cfg
  stabNum : s'.stabNum = s.stabNum + 1
  status : s'.status = .notStabilising
  setDuringStab : s'.setDuringStab = []
  deadVars : s'.deadVars = []
  handleAfterStab : s'.handleAfterStab = []


/-- a loop (with any loop state) keeps a state predicate kept by every successful iteration -/
theorem forIn_ok_keepB {α β} (K : State → Prop) (f : α → β → M (ForInStep β)) (l : List α)
    (hkeep : ∀ a, a ∈ l → ∀ b s r s', K s → (f a b).run.run s = (.ok r, s') → K s') :
    ∀ b s r s', K s → (forIn l b f).run.run s = (.ok r, s') → K s' := by
  induction l with
  | nil => intro b s r s' hk h; rw [List.forIn_nil, run_pure] at h; cases h; exact hk
  | cons a l ih =>
    intro b s r s' hk h
    rw [List.forIn_cons] at h
    obtain ⟨x, s1, hx, hrest⟩ := bind_ok_inv h
    have hk1 := hkeep a (List.mem_cons_self ..) b s x s1 hk hx
    cases x with
    | done b1 => dsimp only at hrest; rw [run_pure] at hrest; cases hrest; exact hk1
    | yield b1 =>
      exact ih (fun a' ha' => hkeep a' (List.mem_cons_of_mem _ ha')) b1 s1 r s' hk1 hrest

theorem getObs_ok_inv14 {o : Nat} {s s' : State} {ob : ObsRec}
    (h : (getObs o).run.run s = (.ok ob, s')) : s' = s ∧ s.observers[o]? = some ob := by
  unfold getObs at h
  rw [run_bind_get] at h
  cases ho : s.observers[o]? with
  | none => rw [ho] at h; cases h
  | some x => rw [ho] at h; cases h; exact ⟨rfl, rfl⟩

theorem runAll_nohandlers {env : Env} {fuel o n : Nat} {nu : NodeUpdate} {now : Int} {s s' : State} {u : Unit}
    (hobs : ∀ (o : Nat) (ob : ObsRec), s.observers[o]? = some ob → ob.handlers = [])
    (h : (runAll env fuel o n nu now).run.run s = (.ok u, s')) : s' = s := by
  unfold runAll at h
  obtain ⟨ob, s1, h1, h⟩ := bind_ok_inv h
  obtain ⟨e1, hob⟩ := getObs_ok_inv14 h1
  rw [e1] at h
  rw [hobs o ob hob] at h
  try dsimp only at h
  rw [List.forIn_nil] at h
  obtain ⟨_, s2, h2, h⟩ := bind_ok_inv h
  obtain ⟨_, e2⟩ := pure_ok_inv h2
  obtain ⟨_, e3⟩ := pure_ok_inv h
  rw [e3, e2]


/-- the part of `Finished'` that holds from the third loop of `stabiliseEnd` on (everything but `status`) -/
structure Mid (s t : State) : Prop where
  size : t.nodes.size = s.nodes.size
  node : ∀ m, ∃ b, t.nodeD m = { s.nodeD m with inHandleAfterStab := b }
  vars : t.vars = s.vars
  rch : t.rch = s.rch
  ahh : t.ahh = s.ahh
  observers : t.observers = s.observers
  newObservers : t.newObservers = s.newObservers
  disallowedObservers : t.disallowedObservers = s.disallowedObservers
  allObservers : t.allObservers = s.allObservers
  scope : t.currentScope = s.currentScope
  pc : t.panicCountdown = s.panicCountdown
  top : t.top = s.top
  handles : t.handles = s.handles
  alive : t.alive = s.alive
  pinv : t.propagateInvalidity = s.propagateInvalidity
  cfg : t.cfg = s.cfg
  stabNum : t.stabNum = s.stabNum + 1
  setDuringStab : t.setDuringStab = []
  deadVars : t.deadVars = []
  handleAfterStab : t.handleAfterStab = []

theorem Mid.modNode {s t : State} (M : Mid s t) (n : Nat) (b : Bool) :
    Mid s { t with nodes := t.nodes.modify n fun x => { x with inHandleAfterStab := b } } := by
  refine ⟨?_, ?_, M.vars, M.rch, M.ahh, M.observers, M.newObservers, M.disallowedObservers, M.allObservers,
    M.scope, M.pc, M.top, M.handles, M.alive, M.pinv, M.cfg, M.stabNum, M.setDuringStab, M.deadVars,
    M.handleAfterStab⟩
  · rw [← M.size]; exact Array.size_modify ..
  · intro m
    obtain ⟨b0, hb0⟩ := M.node m
    rw [nodeD_modify]
    split
    · exact ⟨b, by rw [hb0]⟩
    · exact ⟨b0, hb0⟩

theorem stabiliseEnd_fin {env : Env} {fuel : Nat} {s s' : State} (h1 : s.setDuringStab = [])
    (h2 : s.deadVars = []) (hobs : ∀ (o : Nat) (ob : ObsRec), s.observers[o]? = some ob → ob.handlers = [])
    (h : (stabiliseEnd env fuel).run.run s = (.ok (), s')) : Finished' s s' := by
  unfold stabiliseEnd at h
  obtain ⟨s1, e1, h⟩ := bind_modify_inv h
  rw [run_bind_get] at h
  try dsimp only at h
  obtain ⟨s2, e2, h⟩ := bind_modify_inv h
  have h1' : s1.setDuringStab = [] := by rw [e1]; exact h1
  rw [h1', List.forIn_nil] at h
  obtain ⟨_, s3, hp, h⟩ := bind_ok_inv h
  obtain ⟨_, e3⟩ := pure_ok_inv hp
  rw [e3] at h
  rw [run_bind_get] at h
  try dsimp only at h
  obtain ⟨s4, e4, h⟩ := bind_modify_inv h
  have h2' : s2.deadVars = [] := by rw [e2, e1]; exact h2
  rw [h2', List.forIn_nil] at h
  obtain ⟨_, s5, hp5, h⟩ := bind_ok_inv h
  obtain ⟨_, e5⟩ := pure_ok_inv hp5
  rw [e5] at h
  rw [run_bind_get] at h
  try dsimp only at h
  obtain ⟨s6, e6, h⟩ := bind_modify_inv h
  have M6 : Mid s s6 := by
    rw [e6, e4, e2, e1]
    exact ⟨rfl, fun m => ⟨_, rfl⟩, rfl, rfl, rfl, rfl, rfl, rfl, rfl, rfl, rfl, rfl, rfl, rfl, rfl, rfl, rfl,
      rfl, rfl, rfl⟩
  -- loop 3: only `inHandleAfterStab` flags change
  obtain ⟨q, s7, hl3, h⟩ := bind_ok_inv h
  have M7 : Mid s s7 := by
    refine forIn_ok_keepB (Mid s) _ _ ?_ _ _ _ _ M6 hl3
    intro n _ b t r t' Mt hb
    obtain ⟨t1, et1, hb⟩ := bind_modNode_inv hb
    rw [run_bind_get] at hb
    obtain ⟨_, et'⟩ := pure_ok_inv hb
    rw [et', et1]
    exact Mt.modNode n false
  obtain ⟨s8, e8, h⟩ := bind_modify_inv h
  rw [run_bind_get] at h
  -- loop 4: no handler runs
  obtain ⟨_, s9, hl4, h⟩ := bind_ok_inv h
  have e9 : s9 = s8 := by
    refine forIn_ok_keepB (fun t => t = s8) _ _ ?_ _ _ _ _ rfl hl4
    intro x _ b t r t' et hb
    obtain ⟨nd, _, hb⟩ := bind_getNode_inv hb
    obtain ⟨_, t1, hb1, hb⟩ := bind_ok_inv hb
    obtain ⟨_, et'⟩ := pure_ok_inv hb
    rw [et']
    refine forIn_ok_keepB (fun t => t = s8) _ _ ?_ _ _ _ _ et hb1
    intro o _ b2 u r2 u' eu hr
    obtain ⟨_, u1, hr1, hr⟩ := bind_ok_inv hr
    obtain ⟨_, eu'⟩ := pure_ok_inv hr
    rw [eu']
    have hobs' : ∀ (o : Nat) (ob : ObsRec), u.observers[o]? = some ob → ob.handlers = [] := by
      intro o ob ho
      rw [eu, e8] at ho
      exact hobs o ob (by rw [← M7.observers]; exact ho)
    rw [runAll_nohandlers hobs' hr1]; exact eu
  obtain ⟨s10, e10, h⟩ := bind_modify_inv h
  rw [run_modify] at h
  obtain ⟨_, e11⟩ := Prod.mk.inj h
  rw [← e11, e10, e9, e8]
  exact ⟨M7.size, M7.node, M7.vars, M7.rch, M7.ahh, M7.observers, M7.newObservers, M7.disallowedObservers,
    M7.allObservers, M7.scope, M7.pc, M7.top, M7.handles, M7.alive, M7.pinv, M7.cfg, M7.stabNum, rfl,
    M7.setDuringStab, M7.deadVars, M7.handleAfterStab⟩

end IncrVerif.Proofs.CutH
