import IncrVerif.Proofs.NestH6
import IncrVerif.Proofs.BindH57
/-!
# Nested binds (F2), unlinking side, part 1: rank order, basic facts about `GInv2`, and the core pure step lemma

Port of `BindH54` (`CU1.lean`, `CU.core`) from `GInv1` to `GInv2`: the rank is the ghost parameter `rk` (the same before and
after every step, so the frame lemmas for the rank disappear), scope nodes may be bind nodes.
-/
namespace IncrVerif.Proofs.NestH
open IncrVerif.Engine IncrVerif.Proofs IncrVerif.Proofs.Step IncrVerif.Proofs.Sched IncrVerif.Proofs.Quiet
open IncrVerif.Proofs.BindH

namespace NU

/-! ## `AboveR2` -/

theorem aboveR2_refl (rk : Nat → Nat) (s : State) (n : Nat) : AboveR2 rk s n s := fun _ _ => rfl

/-- a step that only touches node `n` -/
theorem aboveR2_of_other {rk : Nat → Nat} {a b : State} {n : Nat} (h : ∀ m, m ≠ n → b.nodeD m = a.nodeD m) :
    AboveR2 rk a n b :=
  fun m hm => h m (fun e => by rw [e] at hm; exact Nat.lt_irrefl _ hm)

end NU

/-! ## basic facts about `GInv2` -/

namespace GInv2
variable {env : Env} {rk : Nat → Nat} {s : State} {op : Nat → Op} {ex : Nat → Prop} {dy : List Nat}

theorem node (I : GInv2 env rk s op ex dy) {n : Nat} (h : n < s.nodes.size) : N2 env rk s dy n := I.frag.node n h

theorem kid_ne (I : GInv2 env rk s op ex dy) {p i c : Nat} (h : (s.children p)[i]? = some c) : c ≠ p := by
  intro e
  have := I.kid_rk h
  rw [e] at this
  exact Nat.lt_irrefl _ this

theorem kid_in (I : GInv2 env rk s op ex dy) {p i c : Nat} (h : (s.children p)[i]? = some c) :
    c < s.nodes.size :=
  (I.node (children_lt_size h)).kidsIn c (List.mem_of_getElem? h)

/-- necessary nodes are valid -/
theorem valid_of_nec (I : GInv2 env rk s op ex dy) {m : Nat} (h : s.isNecessary m = true) :
    (s.nodeD m).valid = true := by
  cases hv : (s.nodeD m).valid with
  | true => rfl
  | false =>
    obtain ⟨h1, h2, h3, -, -⟩ := I.inv m hv
    simp only [State.isNecessary, Node.isNecessary, h1, h2, h3] at h
    cases h

/-- open nodes are valid -/
theorem valid_of_open (I : GInv2 env rk s op ex dy) {m : Nat} (h : op m ≠ .closed) :
    (s.nodeD m).valid = true := by
  cases hv : (s.nodeD m).valid with
  | true => rfl
  | false => exact absurd (I.inv m hv).2.2.2.2 h

end GInv2

namespace NU

/-- the parents / observers of a closed necessary node `n` shrink; `n` stays closed if it is still necessary and
becomes `unlinking 0` otherwise; closed nodes may open and the labels of open nodes may move (the caller shows the
edge conditions for the nodes that are open afterwards; nodes that are open afterwards are valid) -/
theorem core {env : Env} {rk : Nat → Nat} {s s' : State} {op op' : Nat → Op} {ex : Nat → Prop} {dy : List Nat} {n : Nat}
    (I : GInv2 env rk s op ex dy) (F : BU.Fr s s')
    (hrch : s'.rch = s.rch) (hhr : ∀ m, (s'.nodeD m).heightInRch = (s.nodeD m).heightInRch)
    (hoth : ∀ m, m ≠ n → (s'.nodeD m).parents = (s.nodeD m).parents ∧
      (s'.nodeD m).observers = (s.nodeD m).observers)
    (hsub : ∀ x, x ∈ (s'.nodeD n).parents → x ∈ (s.nodeD n).parents)
    (hnd : (s'.nodeD n).parents.Nodup)
    (hobs : (s.nodeD n).observers = [] → (s'.nodeD n).observers = [])
    (hkeep : ∀ q i, (q, i) ∈ (s.nodeD n).parents → op' q = .closed → (q, i) ∈ (s'.nodeD n).parents)
    (hn : s.isNecessary n = true) (hcl : op n = .closed)
    (hd : (s'.isNecessary n = true ∧ op' n = .closed) ∨ (s'.isNecessary n = false ∧ op' n = .unlinking 0))
    (cl : ∀ m, op' m = .closed → op m = .closed)
    (hln : ∀ m k, m ≠ n → op' m = .linking k → s.isNecessary m = true)
    (hun : ∀ m k, m ≠ n → op' m = .unlinking k → s.isNecessary m = false)
    (hqn : ∀ m, m ≠ n → (∃ k, op m = .unlinking k) → ∃ k, op' m = .unlinking k)
    (hlt : ∀ m, m ≠ n → op' m ≠ .closed → m < s.nodes.size)
    (hval : ∀ m, m ≠ n → op' m ≠ .closed → (s.nodeD m).valid = true)
    (hpar : ∀ c q i, (q, i) ∈ (s'.nodeD c).parents → q ≠ n → op' q ≠ .closed → Wants s' op' q i)
    (hconv : ∀ q i c, (s.children q)[i]? = some c → q ≠ n → op' q ≠ .closed → Wants s' op' q i →
      (q, i) ∈ (s'.nodeD c).parents) :
    GInv2 env rk s' op' ex dy := by
  have B := F.b
  have E := CU.keyEq_of_fr F
  have necO : ∀ m, m ≠ n → s'.isNecessary m = s.isNecessary m := fun m h =>
    U4.nec_congr (hoth m h).1 (hoth m h).2 (B.forceNecessary m)
  have necI : ∀ m, s'.isNecessary m = true → s.isNecessary m = true := by
    intro m h
    by_cases e : m = n
    · rw [e]; exact hn
    · rw [← necO m e]; exact h
  have mem0 : ∀ c x, x ∈ (s'.nodeD c).parents → x ∈ (s.nodeD c).parents := by
    intro c x h
    by_cases e : c = n
    · rw [e] at h ⊢; exact hsub x h
    · rw [← (hoth c e).1]; exact h
  have Wn : ∀ i, Wants s' op' n i := by
    intro i
    rcases hd with ⟨h1, h2⟩ | ⟨h1, h2⟩
    · exact (wants_closed h2).2 h1
    · exact (wants_unlinking h2).2 (Nat.zero_le _)
  have inR : ∀ m, (s'.nodeD m).inRch = (s.nodeD m).inRch := fun m => U4.inRch_of_hir (hhr m)
  have nopen : ∀ k, op' n ≠ .linking k := by
    intro k h
    rcases hd with ⟨_, h2⟩ | ⟨_, h2⟩ <;> rw [h2] at h <;> cases h
  have hch : ∀ m, s'.children m = s.children m := KeyEq2.children2 E I.frag
  have hst : ∀ m, s'.isStale m = s.isStale m := KeyEq2.isStale2 E I.frag
  have hobsAll : ∀ m, (s.nodeD m).observers = [] → (s'.nodeD m).observers = [] := by
    intro m h
    by_cases e : m = n
    · rw [e] at h ⊢; exact hobs h
    · rw [(hoth m e).2]; exact h
  refine { frag := KeyEq2.frag2 E I.frag (by rw [B.pc]; exact I.frag.pc) (by rw [B.scope]; exact I.frag.scope),
           par := ?_, conv := ?_, nodup := ?_, hlt := ?_, hpos := ?_, lnec := ?_,
           unec := ?_, heap := I.heap.congr hrch B.size hhr, hgt := ?_, qnec := ?_, queued := ?_, qstale := ?_,
           opLt := ?_, scopeH := ?_, inv := ?_, scopeObs := ?_, lcObs := ?_ }
  · -- par
    intro c q i hm
    have hm0 := mem0 c _ hm
    refine ⟨by rw [hch]; exact (I.par c q i hm0).1, ?_⟩
    by_cases e : q = n
    · rw [e]; exact Wn i
    · by_cases hq : op' q = .closed
      · rw [wants_closed hq, necO q e]
        exact (wants_closed (cl q hq)).1 (I.par c q i hm0).2
      · exact hpar c q i hm e hq
  · -- conv
    intro q i c hk hw
    rw [hch] at hk
    by_cases e : q = n
    · rw [e] at hk ⊢
      have hm0 := I.conv n i c hk ((wants_closed hcl).2 hn)
      have hc : c ≠ n := I.kid_ne hk
      rw [(hoth c hc).1]; exact hm0
    · by_cases hq : op' q = .closed
      · rw [wants_closed hq] at hw
        have hm0 := I.conv q i c hk ((wants_closed (cl q hq)).2 (necI q hw))
        by_cases hc : c = n
        · rw [hc] at hm0 ⊢; exact hkeep q i hm0 hq
        · rw [(hoth c hc).1]; exact hm0
      · exact hconv q i c hk e hq hw
  · -- nodup
    intro c
    by_cases hc : c = n
    · rw [hc]; exact hnd
    · rw [(hoth c hc).1]; exact I.nodup c
  · -- hlt
    intro c q i hm ho
    rw [B.height, B.height]
    exact I.hlt c q i (mem0 c _ hm) (cl q ho)
  · -- hpos
    intro m hm ho
    rw [B.height]; exact I.hpos m (necI m hm) (cl m ho)
  · -- lnec
    intro q k ho
    have e : q ≠ n := fun e => nopen k (e ▸ ho)
    rw [necO q e]
    exact hln q k e ho
  · -- unec
    intro q k ho
    by_cases e : q = n
    · rw [e] at ho ⊢
      rcases hd with ⟨_, h2⟩ | ⟨h1, _⟩
      · rw [h2] at ho; cases ho
      · exact h1
    · rw [necO q e]; exact hun q k e ho
  · -- hgt
    intro m hq ho
    rw [inR] at hq
    rw [hhr, B.height]; exact I.hgt m hq (cl m ho)
  · -- qnec
    intro m hq
    rw [inR] at hq
    by_cases e : m = n
    · rw [e]
      rcases hd with ⟨h1, _⟩ | ⟨_, h2⟩
      · exact Or.inl h1
      · exact Or.inr ⟨0, h2⟩
    · rcases I.qnec m hq with h | h
      · exact Or.inl (by rw [necO m e]; exact h)
      · exact Or.inr (hqn m e h)
  · -- queued
    intro m ho hm hs hex
    rw [hst] at hs
    rw [inR]; exact I.queued m (cl m ho) (necI m hm) hs hex
  · -- qstale
    intro m hq
    rw [inR] at hq
    rw [hst]; exact I.qstale m hq
  · -- opLt
    intro m ho
    rw [B.size]
    by_cases e : m = n
    · rw [e]; exact nec_lt_size hn
    · exact hlt m e ho
  · -- scopeH
    intro m b br hv hsc hb hnec ho
    rw [B.valid] at hv
    rw [B.createdIn] at hsc
    rw [F.binds] at hb
    rw [B.height, B.height]
    exact I.scopeH m b br hv hsc hb (necI m hnec) (cl m ho)
  · -- inv
    intro m hv
    rw [B.valid] at hv
    obtain ⟨h1, h2, h3, h4, h5⟩ := I.inv m hv
    have e : m ≠ n := by
      intro e
      rw [e] at hv
      rw [I.valid_of_nec hn] at hv; cases hv
    refine ⟨by rw [(hoth m e).1]; exact h1, by rw [(hoth m e).2]; exact h2, by rw [B.forceNecessary]; exact h3,
      by rw [inR]; exact h4, ?_⟩
    cases ho : op' m with
    | closed => rfl
    | linking k =>
      have := hval m e (by rw [ho]; exact Op.linking_ne_closed k)
      rw [hv] at this; cases this
    | unlinking k =>
      have := hval m e (by rw [ho]; exact Op.unlinking_ne_closed k)
      rw [hv] at this; cases this
  · -- scopeObs
    intro m b hsc
    rw [B.createdIn] at hsc
    exact hobsAll m (I.scopeObs m b hsc)
  · -- lcObs
    intro m b hk
    rw [B.kind] at hk
    exact hobsAll m (I.lcObs m b hk)

end NU

end IncrVerif.Proofs.NestH
