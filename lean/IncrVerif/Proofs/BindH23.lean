import IncrVerif.Proofs.BindH19
/-!
# Binds, unlinking side, part 1: frames and the core pure step lemma

Port of the `GInv`-dependent parts of `Proofs/Quiet5.lean` (namespace `U4`) to `GInvB`.
-/
namespace IncrVerif.Proofs.BindH
open IncrVerif.Engine IncrVerif.Proofs IncrVerif.Proofs.Step IncrVerif.Proofs.Sched IncrVerif.Proofs.Quiet

namespace BU

/-- the two states agree on everything the invariant reads except parents, observers, heap markers, heap -/
structure Fr (s s' : State) : Prop where
  b : U4.SameB s s'
  binds : s'.binds = s.binds

theorem Fr.refl (s : State) : Fr s s := ⟨U4.SameB.refl s, rfl⟩

theorem Fr.of_upd {n : Nat} {f : Node → Node} {s s' : State} (U : NodeUpd n f s s') (hf : U4.KeepB f)
    (hb : s'.binds = s.binds) : Fr s s' := ⟨U4.sameB_of_upd U hf, hb⟩

theorem Fr.children {env : Env} {s s' : State} (F : Fr s s') (A : AllB env s) (m : Nat) :
    s'.children m = s.children m := by
  by_cases hm : m < s.nodes.size
  · exact children_congr_B (F.b.kind m) (F.b.valid m) F.binds (A.node m hm).kind
  · rw [children_default s m (by omega), children_default s' m (by rw [F.b.size]; omega)]

theorem Fr.isStale {env : Env} {s s' : State} (F : Fr s s') (A : AllB env s) (m : Nat) :
    s'.isStale m = s.isStale m := by
  by_cases hm : m < s.nodes.size
  · exact isStale_congr_B (A.node m hm).kind (F.b.kind m) (F.b.valid m) (F.b.recomputedAt m) F.b.vars F.binds
      (fun c _ => F.b.changedAt c)
  · have h1 := nodeD_default s m (by omega)
    have h2 := nodeD_default s' m (by rw [F.b.size]; omega)
    have hk : (default : Node).kind? = some (Kind.const default) := rfl
    simp only [State.isStale, h1, h2, hk]

theorem Fr.allB {env : Env} {s s' : State} (F : Fr s s') (A : AllB env s) : AllB env s' := by
  refine ⟨by rw [F.b.pc]; exact A.pc, by rw [F.b.scope]; exact A.scope, fun n hn => ?_⟩
  have sn := A.node n (by rw [← F.b.size]; exact hn)
  refine ⟨by rw [F.b.valid]; exact sn.valid, by rw [F.b.kind]; exact sn.kind, by rw [F.b.cutoff]; exact sn.cutoff,
    by rw [F.b.createdIn]; exact sn.top, ?_, ?_, ?_, ?_⟩
  · rw [F.children A]; exact sn.kidsLt
  · rw [F.b.kind, F.binds]; exact sn.lcRec
  · rw [F.b.kind, F.binds]; exact sn.mainRec
  · intro c b hc hk
    rw [F.children A] at hc
    rw [F.b.kind] at hk ⊢
    exact sn.lcChild c b hc hk

/-- the parents / observers of a closed necessary node `n` shrink; `n` stays closed if it is still necessary and
becomes `unlinking 0` otherwise; closed nodes may open and the labels of open nodes may move (the caller shows the
edge conditions for the nodes that are open afterwards) -/
theorem core {env : Env} {s s' : State} {op op' : Nat → Op} {ex : Nat → Prop} {n : Nat} (I : GInvB env s op ex)
    (F : Fr s s')
    (hrch : s'.rch = s.rch) (hhr : ∀ m, (s'.nodeD m).heightInRch = (s.nodeD m).heightInRch)
    (hoth : ∀ m, m ≠ n → (s'.nodeD m).parents = (s.nodeD m).parents ∧
      (s'.nodeD m).observers = (s.nodeD m).observers)
    (hsub : ∀ x, x ∈ (s'.nodeD n).parents → x ∈ (s.nodeD n).parents)
    (hnd : (s'.nodeD n).parents.Nodup)
    (hkeep : ∀ q i, (q, i) ∈ (s.nodeD n).parents → op' q = .closed → (q, i) ∈ (s'.nodeD n).parents)
    (hn : s.isNecessary n = true) (hcl : op n = .closed)
    (hd : (s'.isNecessary n = true ∧ op' n = .closed) ∨ (s'.isNecessary n = false ∧ op' n = .unlinking 0))
    (cl : ∀ m, op' m = .closed → op m = .closed)
    (hln : ∀ m k, m ≠ n → op' m = .linking k → s.isNecessary m = true)
    (hun : ∀ m k, m ≠ n → op' m = .unlinking k → s.isNecessary m = false)
    (hqn : ∀ m, m ≠ n → (∃ k, op m = .unlinking k) → ∃ k, op' m = .unlinking k)
    (hlt : ∀ m, m ≠ n → op' m ≠ .closed → m < s.nodes.size)
    (hpar : ∀ c q i, (q, i) ∈ (s'.nodeD c).parents → q ≠ n → op' q ≠ .closed → Wants s' op' q i)
    (hconv : ∀ q i c, (s.children q)[i]? = some c → q ≠ n → op' q ≠ .closed → Wants s' op' q i →
      (q, i) ∈ (s'.nodeD c).parents) :
    GInvB env s' op' ex := by
  have B := F.b
  have necO : ∀ m, m ≠ n → s'.isNecessary m = s.isNecessary m := fun m h =>
    U4.nec_congr (hoth m h).1 (hoth m h).2 (B.forceNecessary m)
  have necI : ∀ m, s'.isNecessary m = true → s.isNecessary m = true := by
    intro m h
    by_cases e : m = n
    · rw [e]; exact hn
    · rw [← necO m e]; exact h
  have mem0 : ∀ c x, x ∈ (s'.nodeD c).parents → x ∈ (s.nodeD c).parents := by
    intro c x h
    by_cases e : c = n
    · rw [e] at h ⊢; exact hsub x h
    · rw [← (hoth c e).1]; exact h
  have Wn : ∀ i, Wants s' op' n i := by
    intro i
    rcases hd with ⟨h1, h2⟩ | ⟨h1, h2⟩
    · exact (wants_closed h2).2 h1
    · exact (wants_unlinking h2).2 (Nat.zero_le _)
  have inR : ∀ m, (s'.nodeD m).inRch = (s.nodeD m).inRch := fun m => U4.inRch_of_hir (hhr m)
  have nopen : ∀ k, op' n ≠ .linking k := by
    intro k h
    rcases hd with ⟨_, h2⟩ | ⟨_, h2⟩ <;> rw [h2] at h <;> cases h
  have hch : ∀ m, s'.children m = s.children m := F.children I.frag
  have hst : ∀ m, s'.isStale m = s.isStale m := F.isStale I.frag
  refine { frag := F.allB I.frag, par := ?_, conv := ?_, nodup := ?_, hlt := ?_, hpos := ?_, lnec := ?_,
           unec := ?_, heap := I.heap.congr hrch B.size hhr, hgt := ?_, qnec := ?_, queued := ?_, qstale := ?_,
           opLt := ?_ }
  · -- par
    intro c q i hm
    have hm0 := mem0 c _ hm
    refine ⟨by rw [hch]; exact (I.par c q i hm0).1, ?_⟩
    by_cases e : q = n
    · rw [e]; exact Wn i
    · by_cases hq : op' q = .closed
      · rw [wants_closed hq, necO q e]
        exact (wants_closed (cl q hq)).1 (I.par c q i hm0).2
      · exact hpar c q i hm e hq
  · -- conv
    intro q i c hk hw
    rw [hch] at hk
    by_cases e : q = n
    · rw [e] at hk ⊢
      have hm0 := I.conv n i c hk ((wants_closed hcl).2 hn)
      have hc : c ≠ n := Nat.ne_of_lt (I.kid_lt hk)
      rw [(hoth c hc).1]; exact hm0
    · by_cases hq : op' q = .closed
      · rw [wants_closed hq] at hw
        have hm0 := I.conv q i c hk ((wants_closed (cl q hq)).2 (necI q hw))
        by_cases hc : c = n
        · rw [hc] at hm0 ⊢; exact hkeep q i hm0 hq
        · rw [(hoth c hc).1]; exact hm0
      · exact hconv q i c hk e hq hw
  · -- nodup
    intro c
    by_cases hc : c = n
    · rw [hc]; exact hnd
    · rw [(hoth c hc).1]; exact I.nodup c
  · -- hlt
    intro c q i hm ho
    rw [B.height, B.height]
    exact I.hlt c q i (mem0 c _ hm) (cl q ho)
  · -- hpos
    intro m hm ho
    rw [B.height]; exact I.hpos m (necI m hm) (cl m ho)
  · -- lnec
    intro q k ho
    have e : q ≠ n := fun e => nopen k (e ▸ ho)
    rw [necO q e]
    exact hln q k e ho
  · -- unec
    intro q k ho
    by_cases e : q = n
    · rw [e] at ho ⊢
      rcases hd with ⟨_, h2⟩ | ⟨h1, _⟩
      · rw [h2] at ho; cases ho
      · exact h1
    · rw [necO q e]; exact hun q k e ho
  · -- hgt
    intro m hq ho
    rw [inR] at hq
    rw [hhr, B.height]; exact I.hgt m hq (cl m ho)
  · -- qnec
    intro m hq
    rw [inR] at hq
    by_cases e : m = n
    · rw [e]
      rcases hd with ⟨h1, _⟩ | ⟨_, h2⟩
      · exact Or.inl h1
      · exact Or.inr ⟨0, h2⟩
    · rcases I.qnec m hq with h | h
      · exact Or.inl (by rw [necO m e]; exact h)
      · exact Or.inr (hqn m e h)
  · -- queued
    intro m ho hm hs hex
    rw [hst] at hs
    rw [inR]; exact I.queued m (cl m ho) (necI m hm) hs hex
  · -- qstale
    intro m hq
    rw [inR] at hq
    rw [hst]; exact I.qstale m hq
  · -- opLt
    intro m ho
    rw [B.size]
    by_cases e : m = n
    · rw [e]; exact nec_lt_size hn
    · exact hlt m e ho

end BU

end IncrVerif.Proofs.BindH
