import IncrVerif.Proofs.MapOld27
/-!
# map_with_old fragment: existing nodes keep their kind along a history; the node pattern of a `mapOp` instruction
-/
namespace IncrVerif.Proofs.MapOldH
open IncrVerif IncrVerif.Engine IncrVerif.Driver IncrVerif.Proofs IncrVerif.Proofs.Step IncrVerif.Proofs.Sched IncrVerif.Proofs.Quiet

/-- existing nodes keep their kind; the node table only grows -/
structure KindsKept (s s' : State) : Prop where
  sizeLe : s.nodes.size ≤ s'.nodes.size
  kind : ∀ m, m < s.nodes.size → (s'.nodeD m).kind = (s.nodeD m).kind

theorem KindsKept.refl (s : State) : KindsKept s s := ⟨Nat.le_refl _, fun _ _ => rfl⟩
theorem KindsKept.trans {a b c : State} (h1 : KindsKept a b) (h2 : KindsKept b c) : KindsKept a c :=
  ⟨Nat.le_trans h1.sizeLe h2.sizeLe, fun m hm => (h2.kind m (Nat.lt_of_lt_of_le hm h1.sizeLe)).trans (h1.kind m hm)⟩

theorem KindsKept.of_aframe {s s' : State} (A : MapRefH.AFrame s s') : KindsKept s s' :=
  ⟨A.sizeLe, fun m hm => by
    have := A.node m hm
    simp only [MapRefH.aCore, Prod.mk.injEq] at this
    exact this.1⟩

/-- node creation (every instruction of the fragment, including the composite `mapOp`) only appends nodes -/
theorem PresA_elabInstrW {env : Env} {C : Val → Prop} {sp : Nat → Val → Val} {i : Instr} (h : WInstr env C sp i) :
    Step.Pres MapRefH.AFrame (Engine.elabInstrM env [] .unit i) := by
  have e : Engine.elabInstrM env [] .unit i = Engine.elabInstr [] .unit i := by
    cases i <;> first | rfl | exact absurd h (by simp [WInstr])
  rw [e]
  unfold Engine.elabInstr
  cases i <;> simp only [WInstr] at h <;> try (exact h.elim)
  case mapOp op => cases op <;> qpres
  all_goals qpres

variable {env : Env} {C : Val → Prop} {sp : Nat → Val → Val} {s : State}

/-- **existing nodes keep their kind** through every action of the fragment -/
theorem step_kinds {a : Action} {tk : Array Nat} {r : String × Array Nat} {s' : State} (V : ValOK env C sp)
    (Q : QInvW env C sp s) (ha : WAction env C sp a) (h : (stepAction env a tk).run.run s = (.ok r, s')) :
    KindsKept s s' := by
  cases a
  case create i =>
    have P : Step.Pres MapRefH.AFrame (Engine.stepAction env (.create i) tk) := by
      unfold Engine.stepAction
      refine Step.Pres.bind (PresA_elabInstrW ha) fun r => ?_
      qpres
    exact KindsKept.of_aframe (P.h _ _ _ h)
  case stabilise =>
    have R := stabiliseW V Q (step_stabilise h)
    have hsz : s'.nodes.size = s.nodes.size := by
      have := R.virt.size; rwa [virt_size, virt_size] at this
    refine ⟨by rw [hsz]; exact Nat.le_refl _, fun m hm => ?_⟩
    have h1 := R.virt.kind m
    rw [virt_nodeD, virt_nodeD, virtNode_kind, virtNode_kind] at h1
    exact virtKind_inj (R.inv.frag.kind m (by rw [hsz]; exact hm)) (Q.frag.kind m hm) h1
  all_goals (
    simp only [WAction] at ha
    first
      | (have A : Act.AFr C s s' := (PresAW.stepAction V _ tk ha).h _ _ _ h
         exact ⟨by rw [A.size]; exact Nat.le_refl _, fun m _ => wKey_kind (A.node m)⟩)
      | (simp only [WPlain] at ha))

theorem runActions_kinds {acts : List Action} {s s' : State} {tk tk' : Array Nat} (V : ValOK env C sp)
    (Q : QInvW env C sp s) (ha : ∀ a, a ∈ acts → WAction env C sp a)
    (h : runActions env acts s tk = .ok (s', tk')) : KindsKept s s' := by
  induction acts generalizing s tk with
  | nil => simp only [runActions] at h; cases h; exact KindsKept.refl _
  | cons a as ih =>
    simp only [runActions] at h
    rcases hx : (stepAction env a tk).run.run s with ⟨_ | r, s1⟩
    · rw [hx] at h; cases h
    · rw [hx] at h
      have ha1 := ha a (List.mem_cons_self ..)
      exact (step_kinds V Q ha1 hx).trans
        (ih (stepW V Q ha1 hx) (fun b hb => ha b (List.mem_cons_of_mem _ hb)) h)

theorem UnaryOp.kept {s s' : State} {out g x : Nat} (U : UnaryOp s out g x) (K : KindsKept s s')
    (hlt : out < s.nodes.size) (hback : ∀ n, n < s.nodes.size → ∀ c, c ∈ kidsW (s.nodeD n).kind → c < n) :
    UnaryOp s' out g x := by
  obtain ⟨o, ho, a, hoa, ha⟩ := U.conv2
  have hol : o < out := hback out hlt o (by rw [ho]; simp [kidsW])
  have hal : a < o := hback o (by omega) a (by rw [hoa]; simp [kidsW])
  exact ⟨o, by rw [K.kind out hlt]; exact ho, a, by rw [K.kind o (by omega)]; exact hoa,
    by rw [K.kind a (by omega)]; exact ha⟩

theorem MergeOp.kept {s s' : State} {out g x y : Nat} (U : MergeOp s out g x y) (K : KindsKept s s')
    (hlt : out < s.nodes.size) (hback : ∀ n, n < s.nodes.size → ∀ c, c ∈ kidsW (s.nodeD n).kind → c < n) :
    MergeOp s' out g x y := by
  obtain ⟨o, ho, z, hoz, a, b, hz, ha, hb⟩ := U.pat
  have hol : o < out := hback out hlt o (by rw [ho]; simp [kidsW])
  have hzl : z < o := hback o (by omega) z (by rw [hoz]; simp [kidsW])
  have hal : a < z := hback z (by omega) a (by rw [hz]; simp [kidsW])
  have hbl : b < z := hback z (by omega) b (by rw [hz]; simp [kidsW])
  exact ⟨o, by rw [K.kind out hlt]; exact ho, z, by rw [K.kind o (by omega)]; exact hoz, a, b,
    by rw [K.kind z (by omega)]; exact hz, by rw [K.kind a (by omega)]; exact ha,
    by rw [K.kind b (by omega)]; exact hb⟩

end IncrVerif.Proofs.MapOldH
