import IncrVerif.Proofs.BindH41
import IncrVerif.Proofs.BindH35
import IncrVerif.Proofs.BindH43
/-!
# Binds, part 2g: fragment F0 end to end — the hypothesis `LcStepsOK` of the scheduling theorem is discharged

F0: closures create no nodes and return an older top-level node.  `F0Inv env s` (B2f) is the auxiliary invariant.
-/
namespace IncrVerif.Proofs.BindH
open IncrVerif.Engine IncrVerif.Proofs IncrVerif.Proofs.Step IncrVerif.Proofs.Sched IncrVerif.Proofs.Quiet

/-- **In fragment F0 every step of a drain is described by the step relations** and keeps `F0Inv`. -/
theorem lcStepsOK_F0 (env : Env) : LcStepsOK env (F0Inv env) where
  lc _ _ _ _ _ _ I A hk h := recomputeOne_lcF0 (relink_specB env) I A hk h
  other _ _ _ _ _ I A hk h :=
    recomputeOne_stepB_F0 I.graph I.heap I.cur_facts.1 hk I.kids_values h A
  pop _ _ _ I A h := pop_F0 I.heap h A

/-- **The drain in fragment F0** (no hypothesis about the runs of change detectors): from the drain invariant and `F0Inv`, a successful `drainHeap` ends
with both again, an empty heap, the cells and the round number unchanged, and every necessary node valid, non-stale and equal (stored value and observer read)
to its from-scratch value `evalB` in the FINAL graph. -/
theorem drainHeap_F0 {env : Env} {fuel : Nat} {s s' : State} (I : DInv env s none) (A : F0Inv env s)
    (h : (drainHeap env fuel).run.run s = (.ok (), s')) :
    DInv env s' none ∧ F0Inv env s' ∧ s'.rch.length = 0 ∧ s'.vars = s.vars ∧ s'.stabNum = s.stabNum ∧
    ∀ n, s'.isNecessary n = true → ∀ k, (s'.nodeD n).height.toNat < k →
      (s'.nodeD n).valid = true ∧ s'.isStale n = false ∧
        (s'.nodeD n).value = evalB env s' k n ∧ s'.value env n = evalB env s' k n ∧
        (evalB env s' k n).isSome = true :=
  drainHeap_valuesB (lcStepsOK_F0 env) I A h

/-- **No node runs twice in a drain of fragment F0.** -/
theorem drain_once_F0 {env : Env} (fuel : Nat) (s s' : State) (I : DInv env s none) (A : F0Inv env s)
    (h : (drainHeap env fuel).run.run s = (.ok (), s')) :
    (drainTrace env fuel s).Nodup ∧ ∀ m, m ∈ drainTrace env fuel s → RanOnceB s s' m :=
  drain_onceB (lcStepsOK_F0 env) fuel s s' I A h

end IncrVerif.Proofs.BindH
