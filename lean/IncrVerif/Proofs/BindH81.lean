import IncrVerif.Proofs.BindH80
/-!
# Binds, part 4c-1 (B4): top-level node creation — the extension relation `Ext` and what old nodes keep

`Ext s s1`: `s1` is `s` plus some pristine top-level nodes at the end of the node table, possibly one more variable cell, possibly more bind
records; everything else (heaps, observers, stamps, status …) is unchanged.  Old nodes keep their child lists, staleness, defining equations and static facts.
-/
namespace IncrVerif.Proofs.BindH
open IncrVerif.Engine IncrVerif.Proofs IncrVerif.Proofs.Step IncrVerif.Proofs.Sched IncrVerif.Proofs.Quiet

namespace C2c

/-- a pristine top-level node -/
def Fresh (nd : Node) : Prop := ∃ k c, nd = { kind := k, createdIn := .top, cutoff := c }

theorem fresh_default : Fresh (default : Node) := ⟨.const .unit, .eq, rfl⟩

namespace Fresh
variable {nd : Node}
theorem createdIn (h : Fresh nd) : nd.createdIn = .top := by obtain ⟨k, c, e⟩ := h; rw [e]
theorem valid (h : Fresh nd) : nd.valid = true := by obtain ⟨k, c, e⟩ := h; rw [e]
theorem parents (h : Fresh nd) : nd.parents = [] := by obtain ⟨k, c, e⟩ := h; rw [e]
theorem observers (h : Fresh nd) : nd.observers = [] := by obtain ⟨k, c, e⟩ := h; rw [e]
theorem force (h : Fresh nd) : nd.forceNecessary = false := by obtain ⟨k, c, e⟩ := h; rw [e]
theorem handlers (h : Fresh nd) : nd.numOnUpdateHandlers = 0 := by obtain ⟨k, c, e⟩ := h; rw [e]
theorem recomputedAt (h : Fresh nd) : nd.recomputedAt = -1 := by obtain ⟨k, c, e⟩ := h; rw [e]
theorem changedAt (h : Fresh nd) : nd.changedAt = -1 := by obtain ⟨k, c, e⟩ := h; rw [e]
theorem heightInRch (h : Fresh nd) : nd.heightInRch = -1 := by obtain ⟨k, c, e⟩ := h; rw [e]
theorem heightInAhh (h : Fresh nd) : nd.heightInAhh = -1 := by obtain ⟨k, c, e⟩ := h; rw [e]
theorem inRch (h : Fresh nd) : nd.inRch = false := by obtain ⟨k, c, e⟩ := h; rw [e]; rfl
theorem nec (h : Fresh nd) : nd.isNecessary = false := by obtain ⟨k, c, e⟩ := h; rw [e]; rfl
end Fresh

/-- `s1` is `s` plus pristine top-level nodes (and possibly a variable cell and bind records) -/
structure Ext (s s1 : State) : Prop where
  grow : s.nodes.size ≤ s1.nodes.size
  old : ∀ m, m < s.nodes.size → s1.nodeD m = s.nodeD m
  new : ∀ m, s.nodes.size ≤ m → Fresh (s1.nodeD m)
  bgrow : s.binds.size ≤ s1.binds.size
  bold : ∀ b, b < s.binds.size → s1.binds[b]? = s.binds[b]?
  vars : s1.vars = s.vars ∨
    ∃ v, s1.vars = s.vars.push { value := v, setAt := s.stabNum, node := s.nodes.size }
  rch : s1.rch = s.rch
  ahh : s1.ahh = s.ahh
  pc : s1.panicCountdown = s.panicCountdown
  scope : s1.currentScope = s.currentScope
  stabNum : s1.stabNum = s.stabNum
  status : s1.status = s.status
  alive : s1.alive = s.alive
  setDuringStab : s1.setDuringStab = s.setDuringStab
  deadVars : s1.deadVars = s.deadVars
  handleAfterStab : s1.handleAfterStab = s.handleAfterStab
  pinv : s1.propagateInvalidity = s.propagateInvalidity
  observers : s1.observers = s.observers
  newObservers : s1.newObservers = s.newObservers
  disallowedObservers : s1.disallowedObservers = s.disallowedObservers

namespace Ext
variable {env : Env} {s s1 : State} {dy : List Nat}

theorem nec_old (E : Ext s s1) {m : Nat} (h : m < s.nodes.size) : s1.isNecessary m = s.isNecessary m := by
  rw [State.isNecessary, State.isNecessary, E.old m h]

theorem nec_new (E : Ext s s1) {m : Nat} (h : s.nodes.size ≤ m) : s1.isNecessary m = false :=
  (E.new m h).nec

theorem lt_of_nec (E : Ext s s1) {m : Nat} (h : s1.isNecessary m = true) : m < s.nodes.size := by
  by_cases hm : m < s.nodes.size
  · exact hm
  · rw [E.nec_new (by omega)] at h; cases h

theorem lt_of_par (E : Ext s s1) {m : Nat} {x : Nat × Nat} (h : x ∈ (s1.nodeD m).parents) :
    m < s.nodes.size := by
  by_cases hm : m < s.nodes.size
  · exact hm
  · rw [(E.new m (by omega)).parents] at h; cases h

theorem lt_of_inRch (E : Ext s s1) {m : Nat} (h : (s1.nodeD m).inRch = true) : m < s.nodes.size := by
  by_cases hm : m < s.nodes.size
  · exact hm
  · rw [(E.new m (by omega)).inRch] at h; cases h

theorem lt_of_invalid (E : Ext s s1) {m : Nat} (h : (s1.nodeD m).valid = false) : m < s.nodes.size := by
  by_cases hm : m < s.nodes.size
  · exact hm
  · rw [(E.new m (by omega)).valid] at h; cases h

theorem lt_of_scope (E : Ext s s1) {m b : Nat} (h : (s1.nodeD m).createdIn = .bind b) : m < s.nodes.size := by
  by_cases hm : m < s.nodes.size
  · exact hm
  · rw [(E.new m (by omega)).createdIn] at h; cases h

theorem vars_old (E : Ext s s1) {c : Nat} {vc : VarCell} (h : s.vars[c]? = some vc) :
    s1.vars[c]? = some vc := by
  rcases E.vars with e | ⟨v, e⟩
  · rw [e]; exact h
  · have hc : c < s.vars.size := (Array.getElem?_eq_some_iff.1 h).1
    rw [e, Array.getElem?_push, if_neg (by omega)]; exact h

theorem bind_lt {b : Nat} {br : BindRec} (h : s.binds[b]? = some br) : b < s.binds.size :=
  (Array.getElem?_eq_some_iff.1 h).1

theorem bind_old (E : Ext s s1) {b : Nat} {br : BindRec} (h : s.binds[b]? = some br) :
    s1.binds[b]? = some br := by
  rw [E.bold b (bind_lt h)]; exact h

/-- old nodes keep their child lists -/
theorem children_old (E : Ext s s1) (A : All1 env s dy) {m : Nat} (hm : m < s.nodes.size) :
    s1.children m = s.children m := by
  have N := A.node m hm
  unfold State.children Node.kind?
  rw [E.old m hm]
  cases hv : (s.nodeD m).valid
  · rfl
  · simp only [if_true]
    cases hk : (s.nodeD m).kind with
    | bindLhsChange b =>
      obtain ⟨br, hb, -⟩ := N.lcRec b hk
      simp only [E.bind_old hb, hb]
    | bindMain b lc =>
      obtain ⟨br, hb, -⟩ := N.mainRec b lc hk
      simp only [E.bind_old hb, hb]
    | expert e => have := N.kind; rw [hk] at this; exact this.elim
    | _ => rfl

/-- old nodes keep their staleness -/
theorem isStale_old (E : Ext s s1) (A : All1 env s dy) (V : VarsOK s) {m : Nat} (hm : m < s.nodes.size) :
    s1.isStale m = s.isStale m := by
  have N := A.node m hm
  have hch := E.children_old A hm
  have hany : ((s.children m).any fun c => decide ((s1.nodeD c).changedAt > (s.nodeD m).recomputedAt)) =
      ((s.children m).any fun c => decide ((s.nodeD c).changedAt > (s.nodeD m).recomputedAt)) := by
    apply any_congr'
    intro a ha
    rw [E.old a (N.kidsIn a ha)]
  unfold State.isStale
  simp only [hch, E.old m hm, hany, Node.kind?]
  cases hv : (s.nodeD m).valid
  · rfl
  · simp only [if_true]
    cases hk : (s.nodeD m).kind with
    | var c =>
      obtain ⟨vc, hvc, -⟩ := V.node m c hm hk
      simp only [hvc, E.vars_old hvc]
    | expert e => have := N.kind; rw [hk] at this; exact this.elim
    | _ => rfl

theorem plainVals_old (E : Ext s s1) (l : List Nat) (h : ∀ c, c ∈ l → c < s.nodes.size) :
    plainVals s1 l = plainVals s l := by
  unfold plainVals
  exact evalArgs_congr _ _ _ (fun a ha => by rw [E.old a (h a ha)])

/-- old valid nodes keep their defining equation -/
theorem consistent_old (E : Ext s s1) (A : All1 env s dy) {m : Nat} (hm : m < s.nodes.size)
    (hv : (s.nodeD m).valid = true) (h : ConsistentB env s m) : ConsistentB env s1 m := by
  have N := A.node m hm
  obtain ⟨v, ht, hval⟩ := h
  refine ⟨v, ?_, by rw [E.old m hm]; exact hval⟩
  have hkids : ∀ k, (s.nodeD m).kind = k → ∀ c, c ∈ kids k → c ∈ s.children m := by
    intro k hk c hc
    unfold State.children Node.kind?
    rw [hv, hk]
    cases k <;> first | exact hc | cases hc
  unfold TargetB at ht ⊢
  rw [E.old m hm]
  cases hk : (s.nodeD m).kind with
  | bindLhsChange b => rw [hk] at ht; exact ht
  | bindMain b lc =>
    rw [hk] at ht
    obtain ⟨br, r, hb, hr, hrv⟩ := ht
    refine ⟨br, r, E.bind_old hb, hr, ?_⟩
    have hrl : r < s.nodes.size := by
      by_cases hrl : r < s.nodes.size
      · exact hrl
      · rw [nodeD_default s r (by omega)] at hrv; cases hrv
    rw [E.old r hrl]; exact hrv
  | var c =>
    rw [hk] at ht
    simp only at ht ⊢
    unfold Target at ht ⊢
    rw [E.old m hm]
    rw [hk] at ht ⊢
    obtain ⟨vc, hvc, e⟩ := ht
    exact ⟨vc, E.vars_old hvc, e⟩
  | const w =>
    rw [hk] at ht
    simp only at ht ⊢
    unfold Target at ht ⊢
    rw [E.old m hm]
    rw [hk] at ht ⊢
    exact ht
  | map f args =>
    have hk' := hkids _ hk
    rw [hk] at ht
    simp only at ht ⊢
    unfold Target at ht ⊢
    rw [E.old m hm]
    rw [hk] at ht ⊢
    simp only at ht ⊢
    rw [E.plainVals_old args (fun c hc => N.kidsIn c (hk' c hc))]; exact ht
  | fold f init cs =>
    have hk' := hkids _ hk
    rw [hk] at ht
    simp only at ht ⊢
    unfold Target at ht ⊢
    rw [E.old m hm]
    rw [hk] at ht ⊢
    simp only at ht ⊢
    rw [E.plainVals_old cs (fun c hc => N.kidsIn c (hk' c hc))]; exact ht
  | _ =>
    rw [hk] at ht
    simp only at ht
    unfold Target at ht
    rw [hk] at ht
    exact ht.elim

/-- old nodes keep their static facts -/
theorem n1_old (E : Ext s s1) (A : All1 env s dy) {m : Nat} (hm : m < s.nodes.size) : N1 env s1 dy m := by
  have N := A.node m hm
  have hch := E.children_old A hm
  have kid : ∀ c, c ∈ s.children m → s1.nodeD c = s.nodeD c := fun c hc => E.old c (N.kidsIn c hc)
  refine ⟨?_, ?_, ?_, ?_, ?_, ?_, ?_, ?_, ?_⟩
  · rw [E.old m hm]; exact N.kind
  · rw [E.old m hm]; exact N.cutoff
  · intro c hc
    rw [hch] at hc
    have := N.kidsIn c hc
    have := E.grow
    omega
  · intro c hc
    rw [hch] at hc
    rw [kid c hc]; exact N.kidsValid c hc
  · intro b hk
    rw [E.old m hm] at hk
    obtain ⟨br, hb, e⟩ := N.lcRec b hk
    exact ⟨br, E.bind_old hb, e⟩
  · intro b lc hk
    rw [E.old m hm] at hk
    obtain ⟨br, hb, e⟩ := N.mainRec b lc hk
    exact ⟨br, E.bind_old hb, e⟩
  · intro c b hc hk
    rw [hch] at hc
    rw [kid c hc] at hk
    rw [E.old m hm]
    exact N.lcChild c b hc hk
  · intro h
    rw [E.old m hm] at h ⊢
    obtain ⟨h1, h2⟩ := N.top h
    refine ⟨h1, fun c hc => ?_⟩
    rw [hch] at hc
    rw [kid c hc]
    exact h2 c hc
  · intro b h
    rw [E.old m hm] at h ⊢
    obtain ⟨h1, h2, br, hb, h3, h4⟩ := N.inScope b h
    refine ⟨h1, h2, br, E.bind_old hb, h3, fun c hc => ?_⟩
    rw [hch] at hc
    rw [kid c hc]
    exact h4 c hc

end Ext
end C2c
end IncrVerif.Proofs.BindH
