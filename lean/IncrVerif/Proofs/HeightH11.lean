import IncrVerif.Proofs.HeightH7
import IncrVerif.Proofs.HeightH8
import IncrVerif.Proofs.HeightH9
import IncrVerif.Proofs.HeightH10
/-!
# C19 for whole histories, part 6: every action, and whole histories, with the exact height condition
-/
namespace IncrVerif.Proofs.HeightH
open IncrVerif.Engine IncrVerif.Driver IncrVerif.Proofs IncrVerif.Proofs.Step IncrVerif.Proofs.Sched
open IncrVerif.Proofs.Quiet

/-- the configured limit of the engine: number of buckets of the adjust-heights heap − 1 -/
def limit (s : State) : Nat := s.ahh.queues.size - 1

theorem TInvH.limit_eq {N : Nat} {s : State} (T : TInvH N s) : limit s = N := by
  have := T.room.ahh
  simp only [Heap.maxAllowed] at this
  unfold limit; omega

/-- the static fragment extended by `setMaxHeight` -/
def StaticActionH (env : Env) (a : Action) : Prop := StaticAction env a ∨ ∃ k, a = .setMaxHeight k

/-- the action is refused because of the height limit -/
def Refused (s : State) : Action → Prop
  | .stabilise => limit s < pendingNeed s
  | .setMaxHeight k => (k : Int) < s.maxHeightSeen
  | _ => False

/-- the diagnostic of a refused action -/
def refusal : Action → Panic
  | .setMaxHeight _ => .site "adjust_heights_heap:set_max_height_allowed:below-max-seen"
  | _ => heightPanic

/-- the limit after an action -/
def limitAfter (a : Action) (N : Nat) : Nat := match a with | .setMaxHeight k => k | _ => N

/-- the largest height seen after an action that returns -/
def seenAfter (a : Action) (s : State) : Int :=
  match a with | .stabilise => max s.maxHeightSeen (pendingNeed s : Int) | _ => s.maxHeightSeen

theorem actionOKH_of {M : Nat} {s : State} {a : Action} (h : ActionOK M s a) : ActionOKH s a := by
  cases a <;> first | exact h | exact h.1 | trivial

/-- **Every action of the extended fragment, exactly.**  If it is not refused it returns, keeps `QInv` and the
exact-height invariant (with the new limit after `setMaxHeight`), and `maxHeightSeen` becomes `seenAfter`.  If it is
refused (`stabilise`: a pending observer's node needs a height above the limit; `setMaxHeight k`: `k` is below the
largest height seen) it panics with the corresponding diagnostic: `stabilise` leaves `maxHeightSeen = N + 1` and
the status `stabilising`; `setMaxHeight` changes nothing. -/
theorem step_exact {env : Env} {N : Nat} {s : State} {a : Action} {tk : Array Nat}
    (Q : QInv env s) (T : TInvH N s) (ha : StaticActionH env a) (hok : ActionOKH s a) :
    (¬ Refused s a → ∃ r s', (stepAction env a tk).run.run s = (.ok r, s') ∧ r.2 = tk ∧ QInv env s' ∧
        TInvH (limitAfter a N) s' ∧ Grown a s s' ∧ s'.maxHeightSeen = seenAfter a s ∧
        (∀ m, m < s.nodes.size → (s'.nodeD m).kind = (s.nodeD m).kind)) ∧
    (Refused s a → ∃ s', (stepAction env a tk).run.run s = (.error (refusal a), s') ∧
        (a = .stabilise → s'.maxHeightSeen = (N : Int) + 1 ∧ s'.status = .stabilising) ∧
        (∀ k, a = .setMaxHeight k → s' = s)) := by
  rcases ha with ha | ⟨k, rfl⟩
  · have simple : SimpleAction a → (¬ Refused s a → ∃ r s', (stepAction env a tk).run.run s = (.ok r, s') ∧
        r.2 = tk ∧ QInv env s' ∧ TInvH (limitAfter a N) s' ∧ Grown a s s' ∧ s'.maxHeightSeen = seenAfter a s ∧
        (∀ m, m < s.nodes.size → (s'.nodeD m).kind = (s.nodeD m).kind)) ∧
        (Refused s a → ∃ s', (stepAction env a tk).run.run s = (.error (refusal a), s') ∧
          (a = .stabilise → s'.maxHeightSeen = (N : Int) + 1 ∧ s'.status = .stabilising) ∧
          (∀ k, a = .setMaxHeight k → s' = s)) := by
      intro hs
      obtain ⟨r, s', h, h1, h2, h3, h4, h5, h6⟩ := simple_totalH (env := env) (tk := tk) Q T hs hok
      have hl : limitAfter a N = N := by cases a <;> first | rfl | exact hs.elim
      have hsn : seenAfter a s = s.maxHeightSeen := by cases a <;> first | rfl | exact hs.elim
      have hnr : ¬ Refused s a := by cases a <;> first | exact fun h => h | exact hs.elim
      refine ⟨fun _ => ⟨r, s', h, h1, step_q Q ha h, by rw [hl]; exact h2, h3, by rw [hsn]; exact h4,
        fun m _ => h6 m⟩, fun hr => (hnr hr).elim⟩
    cases a <;> try exact ha.elim
    case create i =>
      obtain ⟨r, s', h, h1, h2, h3, h4, h5⟩ := create_totalH (tk := tk) Q T ha hok
      exact ⟨fun _ => ⟨r, s', h, h1, step_q Q ha h, h2, h3, h4, h5⟩, fun hr => hr.elim⟩
    case observe n => exact simple ha
    case cloneObs o => exact simple trivial
    case dropObs o => exact simple trivial
    case disallow o => exact simple trivial
    case set v x => exact simple trivial
    case modify v d => exact simple trivial
    case update v d => exact simple trivial
    case replace v x => exact simple trivial
    case replaceWith v d => exact simple trivial
    case get v => exact simple trivial
    case isStable => exact simple trivial
    case stats => exact simple trivial
    case stabilise =>
      have O := stabilise_out (env := env) Q T hok
      have hlim := T.limit_eq
      constructor
      · intro hnr
        have hle : pendingNeed s ≤ N := by
          have : ¬ limit s < pendingNeed s := hnr
          omega
        obtain ⟨_, s', h, -, T', hseen, -, hk⟩ := O.tot (fun t ⟨p1, _⟩ => by omega)
        have R := stabilise_q Q h
        exact ⟨_, s', step_stabilise_run h, rfl, R.inv, T', ⟨R.size, by rw [R.vars]; rfl, R.obs.1⟩, hseen,
          fun m _ => hk m⟩
      · intro hr
        have hlt : N < pendingNeed s := by
          have : limit s < pendingNeed s := hr
          omega
        obtain ⟨s', h, -, p2, p3⟩ := O.panics (fun _ t ⟨q1, _⟩ => by omega)
        refine ⟨s', ?_, fun _ => ⟨p2, p3⟩, fun k e => (by cases e)⟩
        unfold stepAction
        dsimp only
        exact run_bind_err h
  · obtain ⟨h1, h2⟩ := setMaxHeight_step (env := env) (k := k) (tk := tk) Q T
    constructor
    · intro hnr
      have hle : s.maxHeightSeen ≤ (k : Int) := by
        have : ¬ (k : Int) < s.maxHeightSeen := hnr
        omega
      obtain ⟨hrun, Q', T'⟩ := h1 hle
      exact ⟨_, _, hrun, rfl, Q', T', ⟨rfl, rfl, rfl⟩, rfl, fun _ _ => rfl⟩
    · intro hr
      exact ⟨s, h2 hr, fun e => (by cases e), fun _ _ => rfl⟩

/-! ## whole histories -/

theorem hinv_init (N : Nat) (d : Bool) : TInvH N (State.init N d) := by
  have hnec : ∀ m, (State.init N d).isNecessary m = false := fun m => by
    rw [State.isNecessary, init_nodeD]; rfl
  refine ⟨?_, ⟨(init_limits N d).2.1, (init_limits N d).1, ?_, ?_⟩, (init_limits N d).2.2.2.2, ?_, rfl,
    List.nodup_nil, ?_⟩
  · intro m hm; rw [hnec] at hm; cases hm
  · rw [(init_limits N d).2.2.1]; omega
  · rw [(init_limits N d).2.2.1]; exact Int.le_refl _
  · intro c vc hc; simp [State.init] at hc
  · intro o ob ho; cases ho

theorem actionOKH_of_c {M : Nat} {s : State} {a : Action} (ht : s.top.size = s.nodes.size)
    (h : ActionOKc M s.nodes.size s.vars.size s.observers.size a) : ActionOKH s a :=
  actionOKH_of (actionOK_of ht h)

/-- **Partial form.**  Every state reached by a history of the extended fragment (whose actions name existing
things) satisfies `QInv` and the exact-height invariant for the limit the engine then has; the largest height seen
never decreases. -/
theorem runActions_inv {env : Env} {N M : Nat} {acts : List Action} {s s' : State} {tk tk' : Array Nat}
    (Q : QInv env s) (T : TInvH N s) (ha : ∀ a, a ∈ acts → StaticActionH env a)
    (hv : ValidHist M s.nodes.size s.vars.size s.observers.size acts)
    (h : runActions env acts s tk = .ok (s', tk')) :
    QInv env s' ∧ TInvH (limit s') s' ∧ tk' = tk ∧ s.maxHeightSeen ≤ s'.maxHeightSeen ∧
      s.nodes.size ≤ s'.nodes.size ∧ (∀ m, m < s.nodes.size → (s'.nodeD m).kind = (s.nodeD m).kind) := by
  induction acts generalizing s N with
  | nil =>
    simp only [runActions] at h
    cases h
    exact ⟨Q, by rw [T.limit_eq]; exact T, rfl, Int.le_refl _, Nat.le_refl _, fun _ _ => rfl⟩
  | cons a as ih =>
    obtain ⟨hok, hrest⟩ := hv
    obtain ⟨E1, E2⟩ := step_exact (tk := tk) Q T (ha a (List.mem_cons_self ..)) (actionOKH_of_c T.topSize hok)
    by_cases hr : Refused s a
    · obtain ⟨s1, h1, -⟩ := E2 hr
      simp only [runActions] at h
      rw [h1] at h
      cases h
    · obtain ⟨r, s1, h1, htk, Q1, T1, hg, hseen, hkind⟩ := E1 hr
      obtain ⟨g1, g2, g3⟩ := hg
      rw [← g1, ← g2, ← g3] at hrest
      simp only [runActions] at h
      rw [h1] at h
      simp only [htk] at h
      obtain ⟨Q', T', e, hs', hsz', hk'⟩ := ih Q1 T1 (fun b hb => ha b (List.mem_cons_of_mem _ hb)) hrest h
      refine ⟨Q', T', e, ?_, by omega, fun m hm => ?_⟩
      · have : s.maxHeightSeen ≤ s1.maxHeightSeen := by
          rw [hseen]; unfold seenAfter; split <;> omega
        omega
      · rw [hk' m (by omega), hkind m hm]

/-- **Total form (H2).**  A history of the extended fragment whose actions name existing things and none of whose
actions is refused in the state in which it is issued (`stabilise`: `pendingNeed ≤ limit`; `setMaxHeight k`:
`maxHeightSeen ≤ k`) never panics. -/
theorem runActions_exact {env : Env} {N M : Nat} {acts : List Action} {s : State} {tk : Array Nat}
    (Q : QInv env s) (T : TInvH N s) (ha : ∀ a, a ∈ acts → StaticActionH env a)
    (hv : ValidHist M s.nodes.size s.vars.size s.observers.size acts)
    (hneed : ∀ as a bs s1 tk1, acts = as ++ a :: bs → runActions env as s tk = .ok (s1, tk1) → ¬ Refused s1 a) :
    ∃ s', runActions env acts s tk = .ok (s', tk) ∧ QInv env s' ∧ TInvH (limit s') s' := by
  induction acts generalizing s N with
  | nil => exact ⟨s, rfl, Q, by rw [T.limit_eq]; exact T⟩
  | cons a as ih =>
    obtain ⟨hok, hrest⟩ := hv
    obtain ⟨E1, -⟩ := step_exact (tk := tk) Q T (ha a (List.mem_cons_self ..)) (actionOKH_of_c T.topSize hok)
    obtain ⟨r, s1, h1, htk, Q1, T1, hg, -, -⟩ := E1 (hneed [] a as s tk rfl rfl)
    obtain ⟨g1, g2, g3⟩ := hg
    rw [← g1, ← g2, ← g3] at hrest
    obtain ⟨s', h2, Q', T'⟩ := ih Q1 T1 (fun b hb => ha b (List.mem_cons_of_mem _ hb)) hrest
      (fun as' a' bs' s2 tk2 e hrun => hneed (a :: as') a' bs' s2 tk2 (by rw [e]; rfl) (by
        simp only [runActions]
        rw [h1]
        simp only [htk]
        exact hrun))
    refine ⟨s', ?_, Q', T'⟩
    simp only [runActions]
    rw [h1]
    simp only [htk]
    exact h2

theorem validHist_prefix {M : Nat} {as bs : List Action} {nn nv no : Nat}
    (hv : ValidHist M nn nv no (as ++ bs)) : ValidHist M nn nv no as := by
  induction as generalizing nn nv no with
  | nil => trivial
  | cons x xs ih => exact ⟨hv.1, ih hv.2⟩

/-- the counts of `ValidHist` follow the run -/
theorem validHist_after {env : Env} {N M : Nat} {l rest : List Action} {t t' : State} {k k' : Array Nat}
    (Qt : QInv env t) (Tt : TInvH N t) (hx : ∀ x, x ∈ l → StaticActionH env x)
    (hv : ValidHist M t.nodes.size t.vars.size t.observers.size (l ++ rest))
    (h : runActions env l t k = .ok (t', k')) :
    ValidHist M t'.nodes.size t'.vars.size t'.observers.size rest := by
  induction l generalizing t N k with
  | nil => simp only [runActions] at h; cases h; exact hv
  | cons x xs ih =>
    obtain ⟨hok, hrest⟩ := hv
    obtain ⟨E1, E2⟩ := step_exact (tk := k) Qt Tt (hx x (List.mem_cons_self ..))
      (actionOKH_of_c Tt.topSize hok)
    by_cases hrf : Refused t x
    · obtain ⟨t1, e1, -⟩ := E2 hrf
      simp only [runActions] at h; rw [e1] at h; cases h
    · obtain ⟨r, t1, e1, htk, Qt1, Tt1, hg, -, -⟩ := E1 hrf
      obtain ⟨g1, g2, g3⟩ := hg
      rw [← g1, ← g2, ← g3] at hrest
      simp only [runActions] at h; rw [e1] at h
      exact ih Qt1 Tt1 (fun y hy => hx y (List.mem_cons_of_mem _ hy)) hrest h

/-- **Converse (H2).**  If the history has run up to a state in which the next action is refused, that action — and
so the whole history — panics with the corresponding diagnostic (`"height-limit"` for a `stabilise`), and with no
other panic; after a refused `stabilise` the largest height seen is `limit + 1` and the status is still
`stabilising` (the engine is poisoned). -/
theorem runActions_refused {env : Env} {N M : Nat} {as bs : List Action} {a : Action} {s s1 : State}
    {tk tk1 : Array Nat} (Q : QInv env s) (T : TInvH N s) (ha : ∀ x, x ∈ as ++ [a] → StaticActionH env x)
    (hv : ValidHist M s.nodes.size s.vars.size s.observers.size (as ++ [a]))
    (h1 : runActions env as s tk = .ok (s1, tk1)) (hr : Refused s1 a) :
    runActions env (as ++ a :: bs) s tk = .error (refusal a) ∧
    ∃ s2, (stepAction env a tk1).run.run s1 = (.error (refusal a), s2) ∧
      (a = .stabilise → s2.maxHeightSeen = (limit s1 : Int) + 1 ∧ s2.status = .stabilising) ∧
      (∀ k, a = .setMaxHeight k → s2 = s1) := by
  have hvas : ValidHist M s.nodes.size s.vars.size s.observers.size as := validHist_prefix hv
  obtain ⟨Q1, T1, -, -, -, -⟩ := runActions_inv Q T (fun x hx => ha x (List.mem_append_left _ hx)) hvas h1
  have hv1 := validHist_after Q T (fun x hx => ha x (List.mem_append_left _ hx)) hv h1
  obtain ⟨-, E2⟩ := step_exact (tk := tk1) Q1 T1 (ha a (List.mem_append_right _ (List.mem_singleton.2 rfl)))
    (actionOKH_of_c T1.topSize hv1.1)
  obtain ⟨s2, h2, p1, p2⟩ := E2 hr
  refine ⟨?_, s2, h2, p1, p2⟩
  rw [runActions_append, h1]
  simp only [runActions]
  rw [h2]

/-- a history without `setMaxHeight` keeps the limit -/
theorem runActions_static_limit {env : Env} {N M : Nat} {acts : List Action} {s s' : State} {tk tk' : Array Nat}
    (Q : QInv env s) (T : TInvH N s) (ha : ∀ a, a ∈ acts → StaticAction env a)
    (hv : ValidHist M s.nodes.size s.vars.size s.observers.size acts)
    (h : runActions env acts s tk = .ok (s', tk')) : TInvH N s' := by
  induction acts generalizing s tk with
  | nil => simp only [runActions] at h; cases h; exact T
  | cons x xs ih =>
    obtain ⟨hok, hrest⟩ := hv
    obtain ⟨E1, E2⟩ := step_exact (tk := tk) Q T (Or.inl (ha x (List.mem_cons_self ..)))
      (actionOKH_of_c T.topSize hok)
    by_cases hrf : Refused s x
    · obtain ⟨t1, e1, -⟩ := E2 hrf
      simp only [runActions] at h; rw [e1] at h; cases h
    · obtain ⟨r, t1, e1, htk, Q1, T1, hg, -, -⟩ := E1 hrf
      obtain ⟨g1, g2, g3⟩ := hg
      rw [← g1, ← g2, ← g3] at hrest
      simp only [runActions] at h; rw [e1] at h
      have hl : limitAfter x N = N := by
        have := ha x (List.mem_cons_self ..)
        cases x <;> first | rfl | exact this.elim
      rw [hl] at T1
      exact ih Q1 T1 (fun y hy => ha y (List.mem_cons_of_mem _ hy)) hrest h

end IncrVerif.Proofs.HeightH
