import IncrVerif.Proofs.NestH76
import IncrVerif.Proofs.NestH35
/-!
# Total correctness for nested binds (F2), phase 3 of the run of a change detector: `lhsInvalidateOld` never panics

`invalidateNode fuel r` on a dying subtree recurses through the main nodes of the dying inner binds: main node `r` of bind `b2` → a registered node `r'` of
`b2` (a node of scope `b2`, so `rk r' < rk r`: `NI.Sub.below`) → … .  The recursion depth is therefore bounded by the POSITION `cnt rk s.nodes.size r` of `r` in
the rank order (`cnt_lt_cnt`; invalidation creates no node): `T2c.inv_tot`: `cnt rk s.nodes.size r + 1 ≤ fuel` suffices.  As `cnt rk N r < N` for a node of the
state, `s.nodes.size ≤ fuel` suffices for the loop of `lhsInvalidateOld`, and `1 ≤ fuel` for `propagateInvalidity` on the empty stack.

The partial-correctness result `NI.inv_run` (the exact description `NI.Mid2` of the state after every call) is reused to know the state in which the next
call starts; nothing of NI1–NI5 is re-proved.
-/
namespace IncrVerif.Proofs.NestH
open IncrVerif.Engine IncrVerif.Proofs IncrVerif.Proofs.Step IncrVerif.Proofs.Sched IncrVerif.Proofs.Quiet
open IncrVerif.Proofs.BindH

namespace T2c

/-- `invalidateNode fuel r` returns: from a state `t` that is the reference state `s` with the (closed) set `D` dead, when the fuel exceeds the position of
`r` in the rank order -/
def InvTot (rk : Nat → Nat) (fuel : Nat) : Prop :=
  ∀ (s t : State) (D : Nat → Prop) (r : Nat),
    NI.Mid2 s D t → NI.Closed s D → NI.RecsK s → NI.Sub rk s r → cnt rk s.nodes.size r + 1 ≤ fuel →
    ∃ t', (invalidateNode fuel r).run.run t = (.ok (), t')

/-- the loop over a list of roots of dying subtrees returns -/
theorem inv_loop_tot {rk : Nat → Nat} {fuel : Nat} (ih : InvTot rk fuel) (s : State) (l : List Nat) :
    ∀ (D : Nat → Prop) (t : State), (∀ a, a ∈ l → NI.Sub rk s a) → (∀ a, a ∈ l → cnt rk s.nodes.size a + 1 ≤ fuel) →
      NI.Mid2 s D t → NI.Closed s D → NI.RecsK s →
      ∃ (u : PUnit) (t' : State),
        (forIn l PUnit.unit fun (r : Nat) (_ : PUnit) => do
            invalidateNode fuel r
            pure (ForInStep.yield PUnit.unit) : M PUnit).run.run t = (.ok u, t') := by
  induction l with
  | nil =>
    intro D t _ _ _ _ _
    exact ⟨PUnit.unit, t, by rw [List.forIn_nil, run_pure]⟩
  | cons a l ihl =>
    intro D t hl hfu Mi hC hR
    obtain ⟨t1, h1⟩ := ih s t D a Mi hC hR (hl a (List.mem_cons_self ..)) (hfu a (List.mem_cons_self ..))
    have M1 := NI.inv_run rk fuel s t t1 D a () Mi hC hR (hl a (List.mem_cons_self ..)) h1
    obtain ⟨u, t', h2⟩ := ihl _ t1 (fun x hx => hl x (List.mem_cons_of_mem _ hx))
      (fun x hx => hfu x (List.mem_cons_of_mem _ hx)) M1 (NI.closed_or hC) hR
    have hy : (do invalidateNode fuel a
                  pure (ForInStep.yield PUnit.unit) : M (ForInStep PUnit)).run.run t =
        (.ok (ForInStep.yield PUnit.unit), t1) := by
      rw [run_bind_ok h1, run_pure]
    refine ⟨u, t', ?_⟩
    rw [List.forIn_cons, run_bind_ok hy]
    exact h2

/-- a main node of a dying inner bind -/
theorem inv_main_tot {rk : Nat → Nat} {fuel : Nat} (ih : InvTot rk fuel) {s t : State} {D : Nat → Prop}
    {r b2 lc2 : Nat} (M : NI.Mid2 s D t) (hC : NI.Closed s D) (hR : NI.RecsK s) (S : NI.Sub rk s r) (hD : ¬ D r)
    (hk : (s.nodeD r).kind = .bindMain b2 lc2) (hf : cnt rk s.nodes.size r + 1 ≤ fuel + 1) :
    ∃ t', (invalidateNode (fuel + 1) r).run.run t = (.ok (), t') := by
  obtain ⟨hlt, hv, hnec, hq, hnoh⟩ := S.leaf r (NI.dying_self s r)
  obtain ⟨br2, hb2, hmain, hlist, hrk⟩ := S.main r b2 lc2 (NI.dying_self s r) hk
  have ha : t.nodeD r = s.nodeD r := M.other r hD
  have hbt : t.binds[b2]? = some br2 := (M.binds b2 br2 hb2).2 (by rw [hmain]; exact hD)
  have hltt : r < t.nodes.size := by rw [M.size]; exact hlt
  have hnect : t.isNecessary r = false := by
    unfold State.isNecessary at hnec ⊢
    rw [ha]; exact hnec
  have hsk := NI.opened_sameSk r b2 s
  -- the loop over the registered nodes of the inner bind returns
  have hfu : ∀ a, a ∈ br2.allNodesCreatedOnRhs → cnt rk (NI.opened r b2 s).nodes.size a + 1 ≤ fuel := by
    intro a hx
    rw [hsk.size]
    have h1 := (hlist a).1 hx
    have h2 := (S.below hk hb2 hx (NI.dying_self s a)).2
    have := cnt_lt_cnt (rk := rk) h1.1 h2
    omega
  obtain ⟨a, t2, hloop⟩ := inv_loop_tot ih (NI.opened r b2 s) br2.allNodesCreatedOnRhs D (NI.openedT r b2 t)
    (fun x hx => NI.sub_child S hk hb2 hx) hfu (NI.mid2_opened M hD hb2 hmain) (NI.closed_congr hsk hC)
    (NI.recsK_opened hR)
  have M2 := NI.loop_run (NI.inv_run rk fuel) (NI.opened r b2 s) br2.allNodesCreatedOnRhs D _ t2 a
    (fun x hx => NI.sub_child S hk hb2 hx) (NI.mid2_opened M hD hb2 hmain) (NI.closed_congr hsk hC)
    (NI.recsK_opened hR) hloop
  -- `r` itself is untouched by the loop
  have hnr : ¬ (D r ∨ Dying (NI.opened r b2 s) br2.allNodesCreatedOnRhs r) := by
    rintro (h | h)
    · exact hD h
    · obtain ⟨r', hr', hd⟩ := NI.dying_split ((NI.dying_congr hsk _ r).1 h)
      exact Nat.lt_irrefl _ (S.below hk hb2 hr' hd).2
  have hr2 : t2.nodeD r = NI.stamp s.stabNum (s.nodeD r) := by
    rw [M2.other r hnr, NI.opened_nodeD, if_pos ⟨rfl, hlt⟩]
  have hlt2 : r < t2.nodes.size := by rw [M2.size, hsk.size]; exact hlt
  have hq' : ¬ (s.nodeD r).heightInRch ≥ 0 := by simpa [Node.inRch] using hq
  -- the four parts
  rw [Inval.invalidateNode_run fuel r t (t.nodeD r) (some_of_lt hltt) (by rw [ha]; exact hv),
    NI.handled_noh r t (by rw [ha]; exact hnoh)]
  have hD1 : (Inval.invStamped r t).nodeD r = NI.stamp t.stabNum (t.nodeD r) := by
    rw [Inval.nodeD_of_modify (t := Inval.invStamped r t) (s := t) (n := r) (f := NI.stamp t.stabNum) rfl,
      if_pos ⟨rfl, hltt⟩]
  have hnec1 : (Inval.invStamped r t).isNecessary r = false := by
    unfold State.isNecessary at hnect ⊢
    rw [hD1]
    exact hnect
  have hdet : (Inval.invDetach fuel r (t.nodeD r).createdIn).run.run (Inval.invStamped r t) =
      (.ok (), Inval.invStamped r t) := by
    unfold Inval.invDetach
    rw [run_bind_get]
    simp only [hnec1, Bool.false_eq_true, if_false]
    rfl
  have hb' : (Inval.invStamped r t).binds[b2]? = some br2 := hbt
  have hcas : (Inval.invCascade fuel (t.nodeD r).kind).run.run (Inval.invStamped r t) = (.ok a, t2) := by
    rw [ha, hk, NI.invCascade_main_run fuel b2 lc2 (Inval.invStamped r t) br2 hb']
    exact hloop
  have hfin : (Inval.invFinish r).run.run t2 =
      (.ok (), Inval.pushParents (t2.nodeD r).parents (Inval.markedInvalid r t2)) := by
    rw [Inval.invFinish_run r t2 _ (some_of_lt hlt2), if_neg]
    rw [hr2]
    exact hq'
  exact ⟨_, by rw [run_bind_ok hdet, run_bind_ok hcas]; exact hfin⟩

/-- **`invalidateNode` on a dying subtree returns** when the fuel exceeds the position of its root in the rank order -/
theorem inv_tot (rk : Nat → Nat) : ∀ fuel, InvTot rk fuel := by
  intro fuel
  induction fuel with
  | zero =>
    intro s t D r _ _ _ _ hf
    omega
  | succ fuel ih =>
    intro s t D r M hC hR S hf
    obtain ⟨hlt0, hv, hnec0, hq, -⟩ := S.leaf r (NI.dying_self s r)
    have hlt : r < t.nodes.size := by rw [M.size]; exact hlt0
    by_cases hD : D r
    · -- dead already: nothing happens
      have hvd : (t.nodeD r).valid = false := by rw [M.dead r hD]; rfl
      exact ⟨t, Inval.invalidateNode_invalid fuel r t _ (some_of_lt hlt) hvd⟩
    · by_cases hk : ∃ b lc, (s.nodeD r).kind = .bindMain b lc
      · obtain ⟨b2, lc2, hk⟩ := hk
        exact inv_main_tot ih M hC hR S hD hk hf
      · have ha : t.nodeD r = s.nodeD r := M.other r hD
        have hnec : t.isNecessary r = false := by
          unfold State.isNecessary at hnec0 ⊢
          rw [ha]; exact hnec0
        exact ⟨_, CI.invalidateNode_dying_run fuel r t hlt (by rw [ha]; exact hv) hnec
          (by rw [ha]; exact fun b lc hc => hk ⟨b, lc, hc⟩) (by rw [ha]; exact hq)⟩

/-- the phase, from what the run needs to know about the dying subtrees; `s.nodes.size + 1 ≤ fuel` suffices -/
theorem lhsInvalidateOld_tot_sub {rk : Nat → Nat} {fuel : Nat} {br : BindRec} {s : State}
    (hl : ∀ a, a ∈ br.allNodesCreatedOnRhs → NI.Sub rk s a) (hR : NI.RecsK s) (hp : s.propagateInvalidity = [])
    (hf : s.nodes.size + 1 ≤ fuel) :
    Tot (Inval.lhsInvalidateOld fuel br) s (fun _ _ => True) := by
  unfold Inval.lhsInvalidateOld
  cases hr : br.rhs with
  | none =>
    simp only [Option.isSome_none, Bool.false_eq_true, if_false]
    exact Tot.pure trivial
  | some o =>
    simp only [Option.isSome_some, if_true]
    have hfu : ∀ a, a ∈ br.allNodesCreatedOnRhs → cnt rk s.nodes.size a + 1 ≤ fuel := by
      intro a ha
      have := cnt_lt_size (rk := rk) ((hl a ha).leaf a (NI.dying_self s a)).1
      omega
    obtain ⟨u, t, hloop⟩ := inv_loop_tot (inv_tot rk fuel) s br.allNodesCreatedOnRhs (fun _ => False) s hl hfu
      (NI.Mid2.refl s) (NI.closed_false s) hR
    have M := NI.loop_run (NI.inv_run rk fuel) s br.allNodesCreatedOnRhs _ s t u hl (NI.Mid2.refl s)
      (NI.closed_false s) hR hloop
    obtain ⟨f, rfl⟩ : ∃ f, fuel = f + 1 := ⟨fuel - 1, by omega⟩
    refine Tot.bind_ok hloop ?_
    exact Tot.of_ok (Inval.propagateInvalidity_nil f t (by rw [M.pinv]; exact hp)) trivial

end T2c

/-- **Phase 3 of the run of a change detector never panics** (fragment F2), under the hypotheses of `InvalSpec2`: invalidating the previous generation of a
bind, with the scopes of its inner binds, returns when the fuel exceeds the number of nodes.  (The recursion depth of `invalidateNode` is the nesting depth of
the dying inner binds; it is bounded by the position `cnt rk s.nodes.size r` of the root in the rank order — `T2c.inv_tot` —, hence by the node count.) -/
theorem lhsInvalidateOld_total2 {env : Env} {rk : Nat → Nat} {fuel b : Nat} {br : BindRec} {s : State} {ex : Nat → Prop}
    (I : GInv2 env rk s allClosed ex br.allNodesCreatedOnRhs)
    (_hnone : br.rhs = none → br.allNodesCreatedOnRhs = [])
    (hdy : ∀ m, m ∈ br.allNodesCreatedOnRhs → (s.nodeD m).createdIn = .bind b ∧ (s.nodeD m).parents = [] ∧
      (s.nodeD m).valid = true)
    (_hrhs : ∀ br1 r, s.binds[b]? = some br1 → br1.rhs = some r → r ∉ br.allNodesCreatedOnRhs)
    (hnf : ∀ m, (s.nodeD m).forceNecessary = false) (hnh : ∀ m, (s.nodeD m).numOnUpdateHandlers = 0)
    (hp : s.propagateInvalidity = [])
    (_hrn : ∀ (b' : Nat) (br' : BindRec), s.binds[b']? = some br' → br'.rhs = none → br'.allNodesCreatedOnRhs = [])
    (hf : s.nodes.size + 2 ≤ fuel) :
    Tot (Inval.lhsInvalidateOld fuel br) s (fun _ _ => True) :=
  T2c.lhsInvalidateOld_tot_sub (rk := rk) (fun _ ha => NI.sub_of_dying I hdy hnf hnh ha) (NI.recsK_of I.frag) hp
    (by omega)

end IncrVerif.Proofs.NestH
