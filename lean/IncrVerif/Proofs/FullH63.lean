import IncrVerif.Proofs.FullH62
import IncrVerif.Proofs.BindH110
/-!
# C01 full fragment: NON-VACUITY, part 2 — the example history runs; what the observers read (kernel-checked)
-/
namespace IncrVerif.Proofs.FullH
open IncrVerif.Engine IncrVerif.Driver IncrVerif.Proofs IncrVerif.Proofs.Step IncrVerif.Proofs.Sched IncrVerif.Proofs.Quiet
open IncrVerif.Proofs.BindH

/-- a fact about the state a history of `fEnv` ends in -/
def EX.factF {α} (acts : List Action) (f : State → α) : Option α := (C2h.stateB fEnv acts).map f

set_option maxRecDepth 100000 in
/-- the example history runs without panic -/
theorem exHistF_runs : ∃ s tk, Quiet.runActions fEnv exHistF (State.init 128 true) #[] = .ok (s, tk) :=
  C2h.ranB_iff (by decide +kernel)

set_option maxRecDepth 100000 in
/-- the reads of the first observer after the first four `stabilise`s: `(5+4)+7 = 16`; only `c` changed: `(5+4)+70 = 79`; `a` changed: `(9+4)+70 = 83`;
the lhs `n1` became odd: `1` -/
theorem exHistF_reads : C2h.readB fEnv (exHistF.take 6) 0 = some (.int 16) ∧
    C2h.readB fEnv (exHistF.take 8) 0 = some (.int 79) ∧
    C2h.readB fEnv (exHistF.take 10) 0 = some (.int 83) ∧
    C2h.readB fEnv (exHistF.take 12) 0 = some (.int 1) :=
  ⟨by decide +kernel, by decide +kernel, by decide +kernel, by decide +kernel⟩

end IncrVerif.Proofs.FullH
