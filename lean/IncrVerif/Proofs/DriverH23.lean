import IncrVerif.Proofs.DriverH4
/-!
# Drivers, bridges part 1: general lemmas

* `SameR s s'`: the two states differ only in the stamps `recomputedAt` of their nodes (and in state fields no
  structural invariant reads); `BGraph`, `HeapInv`, `AllStatic`, `VarsOK` are congruent for it
  (`sameR_started`, `sameR_unstamp`: the two instances).
* `bgraph_of_struct`: the structural invariant at rest of the rank port gives the bind-fragment graph invariant.
* `struct_of_bgraph`: the converse, given the fragment, `Nodup` parent lists and the two heap/staleness clauses.
-/
namespace IncrVerif.Proofs.DriverH
open IncrVerif.Engine IncrVerif.Driver IncrVerif.Proofs IncrVerif.Proofs.Step IncrVerif.Proofs.Sched
open IncrVerif.Proofs.ExpertH IncrVerif.Proofs.ExpertH.QR

/-! ## states that differ only in stamps -/

/-- a node with its own stamp erased -/
def noStamp (nd : Node) : Node := { nd with recomputedAt := 0 }

structure SameR (s s' : State) : Prop where
  pc : s'.panicCountdown = s.panicCountdown
  scope : s'.currentScope = s.currentScope
  size : s'.nodes.size = s.nodes.size
  rch : s'.rch = s.rch
  vars : s'.vars = s.vars
  binds : s'.binds = s.binds
  experts : s'.experts = s.experts
  stabNum : s'.stabNum = s.stabNum
  node : ∀ m, noStamp (s'.nodeD m) = noStamp (s.nodeD m)

section
variable {s s' : State}

theorem SameR.valid (h : SameR s s') (m : Nat) : (s'.nodeD m).valid = (s.nodeD m).valid := by
  have := congrArg Node.valid (h.node m); exact this
theorem SameR.kind (h : SameR s s') (m : Nat) : (s'.nodeD m).kind = (s.nodeD m).kind := by
  have := congrArg Node.kind (h.node m); exact this
theorem SameR.cutoff (h : SameR s s') (m : Nat) : (s'.nodeD m).cutoff = (s.nodeD m).cutoff := by
  have := congrArg Node.cutoff (h.node m); exact this
theorem SameR.createdIn (h : SameR s s') (m : Nat) : (s'.nodeD m).createdIn = (s.nodeD m).createdIn := by
  have := congrArg Node.createdIn (h.node m); exact this
theorem SameR.value (h : SameR s s') (m : Nat) : (s'.nodeD m).value = (s.nodeD m).value := by
  have := congrArg Node.value (h.node m); exact this
theorem SameR.changedAt (h : SameR s s') (m : Nat) : (s'.nodeD m).changedAt = (s.nodeD m).changedAt := by
  have := congrArg Node.changedAt (h.node m); exact this
theorem SameR.height (h : SameR s s') (m : Nat) : (s'.nodeD m).height = (s.nodeD m).height := by
  have := congrArg Node.height (h.node m); exact this
theorem SameR.heightInRch (h : SameR s s') (m : Nat) : (s'.nodeD m).heightInRch = (s.nodeD m).heightInRch := by
  have := congrArg Node.heightInRch (h.node m); exact this
theorem SameR.parents (h : SameR s s') (m : Nat) : (s'.nodeD m).parents = (s.nodeD m).parents := by
  have := congrArg Node.parents (h.node m); exact this
theorem SameR.observers (h : SameR s s') (m : Nat) : (s'.nodeD m).observers = (s.nodeD m).observers := by
  have := congrArg Node.observers (h.node m); exact this
theorem SameR.forceNecessary (h : SameR s s') (m : Nat) :
    (s'.nodeD m).forceNecessary = (s.nodeD m).forceNecessary := by
  have := congrArg Node.forceNecessary (h.node m); exact this

theorem SameR.inRch (h : SameR s s') (m : Nat) : (s'.nodeD m).inRch = (s.nodeD m).inRch := by
  simp only [Node.inRch, h.heightInRch]

theorem SameR.nec (h : SameR s s') (m : Nat) : s'.isNecessary m = s.isNecessary m := by
  simp only [State.isNecessary, Node.isNecessary, h.parents, h.observers, h.forceNecessary]

theorem SameR.children (h : SameR s s') (m : Nat) : s'.children m = s.children m := by
  unfold State.children Node.kind?
  rw [h.kind, h.valid, h.binds, h.experts]

theorem SameR.symm (h : SameR s s') : SameR s' s :=
  ⟨h.pc.symm, h.scope.symm, h.size.symm, h.rch.symm, h.vars.symm, h.binds.symm, h.experts.symm, h.stabNum.symm,
    fun m => (h.node m).symm⟩

/-- staleness of a node whose own stamp is the same -/
theorem SameR.isStale (h : SameR s s') {m : Nat} (hr : (s'.nodeD m).recomputedAt = (s.nodeD m).recomputedAt) :
    s'.isStale m = s.isStale m := by
  unfold State.isStale
  simp only [h.children, Node.kind?, h.kind, h.valid, hr, h.changedAt, h.vars, h.experts]

theorem SameR.staleOf (h : SameR s s') {m : Nat} (hr : (s'.nodeD m).recomputedAt = (s.nodeD m).recomputedAt) :
    staleOf s' m = staleOf s m :=
  staleOf_congr (h.kind m) hr h.vars (fun c _ => h.changedAt c)

theorem SameR.edge (h : SameR s s') {a c : Nat} (he : BindH.Edge s' a c) : BindH.Edge s a c := by
  cases he with
  | child hc => rw [h.children] at hc; exact BindH.Edge.child hc
  | scope hv hsc hb =>
    rw [h.valid] at hv; rw [h.createdIn] at hsc; rw [h.binds] at hb
    exact BindH.Edge.scope hv hsc hb

end

/-- restamping one node -/
theorem sameR_modify (s : State) (n : Nat) (r : Int) :
    SameR s { s with nodes := s.nodes.modify n fun x => { x with recomputedAt := r } } := by
  refine ⟨rfl, rfl, by simp, rfl, rfl, rfl, rfl, rfl, fun m => ?_⟩
  rw [nodeD_modify]
  split <;> rfl

theorem sameR_started (n : Nat) (s : State) : SameR s (started n s) := by
  refine ⟨rfl, rfl, by simp [started], rfl, rfl, rfl, rfl, rfl, fun m => ?_⟩
  rw [started_nodeD]
  split <;> rfl

theorem sameR_unstamp (n : Nat) (r : Int) (S : State) : SameR S (unstamp n r S) := sameR_modify S n r

theorem unstamp_nodeD (n : Nat) (r : Int) (S : State) (m : Nat) :
    (unstamp n r S).nodeD m = if n = m ∧ m < S.nodes.size then { S.nodeD m with recomputedAt := r } else S.nodeD m :=
  nodeD_modify S n m _

theorem unstamp_other (n : Nat) (r : Int) (S : State) {m : Nat} (h : m ≠ n) : (unstamp n r S).nodeD m = S.nodeD m := by
  rw [unstamp_nodeD, if_neg (fun hh => h hh.1.symm)]

theorem unstamp_self (n : Nat) (r : Int) (S : State) (h : n < S.nodes.size) :
    ((unstamp n r S).nodeD n).recomputedAt = r := by
  rw [unstamp_nodeD, if_pos ⟨rfl, h⟩]

theorem started_other' (n : Nat) (s : State) {m : Nat} (h : m ≠ n) : (started n s).nodeD m = s.nodeD m := by
  rw [started_nodeD, if_neg (fun hh => h hh.1.symm)]

theorem started_self' (n : Nat) (s : State) (h : n < s.nodes.size) :
    ((started n s).nodeD n).recomputedAt = s.stabNum := by
  rw [started_nodeD, if_pos ⟨rfl, h⟩]

/-! ## congruences -/

section
variable {env : Env} {s s' : State}

theorem bgraph_congrR (g : BindH.BGraph env s) (h : SameR s s') : BindH.BGraph env s' where
  pc := by rw [h.pc]; exact g.pc
  node n hn hv := by
    rw [h.size] at hn; rw [h.valid] at hv
    obtain ⟨h1, h2, h3⟩ := g.node n hn hv
    rw [h.kind, h.cutoff, h.children]
    refine ⟨h1, h2, fun c hc => ?_⟩
    rw [h.size, h.valid]; exact h3 c hc
  nec n hn := by
    rw [h.nec] at hn; rw [h.valid, h.height]; exact g.nec n hn
  var n c hn hv hk := by
    rw [h.size] at hn; rw [h.valid] at hv; rw [h.kind] at hk
    rw [h.vars]; exact g.var n c hn hv hk
  child n hn i c hc := by
    rw [h.nec] at hn; rw [h.children] at hc
    rw [h.nec, h.parents, h.height, h.height]; exact g.child n hn i c hc
  parent c p i hm := by
    rw [h.parents] at hm
    rw [h.nec, h.children]; exact g.parent c p i hm
  scope n b hn hv hsc := by
    rw [h.size] at hn; rw [h.valid] at hv; rw [h.createdIn] at hsc
    obtain ⟨br, h1, h2, h3, h4⟩ := g.scope n b hn hv hsc
    refine ⟨br, by rw [h.binds]; exact h1, by rw [h.size]; exact h2, by rw [h.valid]; exact h3, ?_⟩
    rw [h.nec, h.nec, h.height, h.height]; exact h4
  lcRec n b hn hv hk := by
    rw [h.size] at hn; rw [h.valid] at hv; rw [h.kind] at hk
    rw [h.binds]; exact g.lcRec n b hn hv hk
  mainRec n b lc hn hv hk := by
    rw [h.size] at hn; rw [h.valid] at hv; rw [h.kind] at hk
    rw [h.binds, h.createdIn, h.createdIn]; exact g.mainRec n b lc hn hv hk
  lcChild m c b hm hv hc hk := by
    rw [h.size] at hm; rw [h.valid] at hv; rw [h.children] at hc; rw [h.kind] at hk
    rw [h.kind]; exact g.lcChild m c b hm hv hc hk
  acyc := by
    obtain ⟨rk, hrk⟩ := g.acyc
    exact ⟨rk, fun a c he => hrk a c (h.edge he)⟩

theorem heapInv_congrR (H : HeapInv s) (h : SameR s s') : HeapInv s' :=
  H.congr h.rch h.size (fun m => ⟨h.heightInRch m, h.height m, h.nec m⟩)

theorem allStatic_congrR {rk : Nat → Nat} (A : AllStatic env rk s) (h : SameR s s') : AllStatic env rk s' := by
  refine ⟨by rw [h.pc]; exact A.pc, by rw [h.scope]; exact A.scope, fun n hn => ?_, A.inj,
    by rw [h.size]; exact A.top⟩
  have sn := A.node n (by rw [← h.size]; exact hn)
  exact ⟨by rw [h.valid]; exact sn.valid, by rw [h.kind]; exact sn.kind, by rw [h.cutoff]; exact sn.cutoff,
    by rw [h.createdIn]; exact sn.top, by rw [h.forceNecessary]; exact sn.force,
    by rw [h.kind]; exact sn.kidsLt, by rw [h.kind, h.size]; exact sn.kidsIn⟩

end

/-! ## `Struct` and `BGraph` -/

theorem bkind_of_static {env : Env} {k : Kind} (h : StaticKind env k) : BindH.BKind env k := by
  cases k <;> first | exact h | exact h.elim

/-- the structural invariant at rest of the rank port gives the graph invariant of the bind fragment -/
theorem bgraph_of_struct {env : Env} {rk : Nat → Nat} {S : State} (I : Struct env rk S) (V : VarsOK S) :
    BindH.BGraph env S where
  pc := I.static.pc
  node n hn hv := by
    have sn := I.node hn
    refine ⟨bkind_of_static sn.kind, Or.inl sn.cutoff, fun c hc => ?_⟩
    rw [GInv.children I hn] at hc
    have hc' := sn.kidsIn c hc
    exact ⟨hc', (I.node hc').valid⟩
  nec n hn := ⟨(I.node (nec_lt_size hn)).valid, I.hpos n hn rfl⟩
  var n c hn _ hk := by
    obtain ⟨vc, h, -⟩ := V.node n c hn hk
    exact ⟨vc, h⟩
  child n hn i c hk := by
    rw [GInv.children I (nec_lt_size hn)] at hk
    have hm := I.conv n i c hk ((wants_closed rfl).2 hn)
    exact ⟨nec_of_mem_parents hm, hm, I.hlt c n i hm rfl⟩
  parent c p i h := by
    obtain ⟨h1, h2⟩ := I.par c p i h
    have hp := (wants_closed rfl).1 h2
    rw [GInv.children I (nec_lt_size hp)]
    exact ⟨hp, h1⟩
  scope n b hn _ hsc := by
    rw [(I.node hn).top] at hsc; cases hsc
  lcRec n b hn _ hk := by
    have := (I.node hn).kind; rw [hk] at this; exact this.elim
  mainRec n b lc hn _ hk := by
    have := (I.node hn).kind; rw [hk] at this; exact this.elim
  lcChild m c b hm _ hc hk := by
    rw [GInv.children I hm] at hc
    have hc' := (I.node hm).kidsIn c hc
    have := (I.node hc').kind; rw [hk] at this; exact this.elim
  acyc := by
    refine ⟨rk, fun a c he => ?_⟩
    have ha := he.lt_size
    cases he with
    | child hc =>
      rw [GInv.children I ha] at hc
      exact (I.node ha).kidsLt c hc
    | scope _ hsc _ => rw [(I.node ha).top] at hsc; cases hsc

/-- the converse: from the graph invariant of the bind fragment, in the static fragment -/
theorem struct_of_bgraph {env : Env} {rk : Nat → Nat} {S : State} (A : AllStatic env rk S)
    (g : BindH.BGraph env S) (H : HeapInv S) (nd : ∀ c, (S.nodeD c).parents.Nodup)
    (q : ∀ m, S.isNecessary m = true → staleOf S m = true → (S.nodeD m).inRch = true)
    (qs : ∀ m, (S.nodeD m).inRch = true → staleOf S m = true) : Struct env rk S := by
  have hch : ∀ p, S.isNecessary p = true → S.children p = kids (S.nodeD p).kind := fun p hp =>
    children_eq_kids S p (A.node p (nec_lt_size hp)).valid (A.node p (nec_lt_size hp)).kind
  exact {
    static := A
    par := fun c p i hm => by
      obtain ⟨h1, h2⟩ := g.parent c p i hm
      rw [hch p h1] at h2
      exact ⟨h2, (wants_closed rfl).2 h1⟩
    conv := fun p i c hk hw => by
      have hn := (wants_closed rfl).1 hw
      rw [← hch p hn] at hk
      exact (g.child p hn i c hk).2.1
    nodup := nd
    hlt := fun c p i hm _ => by
      obtain ⟨h1, h2⟩ := g.parent c p i hm
      exact (g.child p h1 i c h2).2.2
    hpos := fun n hn _ => (g.nec n hn).2
    lnec := fun p k ho => by simp [allClosed] at ho
    unec := fun p k ho => by simp [allClosed] at ho
    heap := ⟨H.wf, fun m hm => by rw [H.hgt m hm]; exact H.lb m hm, H.lb0⟩
    hgt := fun m hm _ => H.hgt m hm
    qnec := fun m hm => Or.inl (H.nec m hm)
    queued := fun m _ hn hs => q m hn hs
    qstale := qs
    opLt := fun m ho => absurd rfl ho }

end IncrVerif.Proofs.DriverH
