import IncrVerif.Proofs.MapOld12
import IncrVerif.Proofs.MapOld6
/-!
# map_with_old fragment: the drain invariant `DInvW` through `recomputeOne`, `recompute`, a pop and `drainHeap` (M1)
-/
namespace IncrVerif.Proofs.MapOldH
open IncrVerif.Engine IncrVerif.Proofs IncrVerif.Proofs.Step IncrVerif.Proofs.Sched IncrVerif.Proofs.Quiet

variable {env : Env} {C : Val → Prop} {sp : Nat → Val → Val} {s : State}

/-- what the drain keeps, read in the virtual states -/
structure DStep (env : Env) (sp : Nat → Val → Val) (s s' : State) : Prop where
  frame : Frame (virt s) (virt s')
  calm : Calm (virt s) (virt s')
  keyD : KeyD (virt s) (virt s')
  unnec : UnnecOK (virtEnv env sp) (virt s) → UnnecOK (virtEnv env sp) (virt s')

theorem DStep.refl (env : Env) (sp : Nat → Val → Val) (s : State) : DStep env sp s s :=
  ⟨Frame.refl _, Calm.refl _, KeyD.refl _, id⟩

theorem DStep.trans {a b c : State} (h1 : DStep env sp a b) (h2 : DStep env sp b c) : DStep env sp a c :=
  ⟨h1.frame.trans h2.frame, h1.calm.trans h2.calm, KeyD.trans h1.keyD h2.keyD, fun h => h2.unnec (h1.unnec h)⟩

/-- **M1, one `recomputeOne`.** On the current node of the invariant a successful `recomputeOne` re-establishes the
invariant, the handed-over parent being the new current node. -/
theorem recomputeOneW_inv {fuel n : Nat} {s' : State} {r : Option Nat} (V : ValOK env C sp)
    (D : DInvW env C sp s (some n)) (h : (recomputeOne env fuel n).run.run s = (.ok r, s')) :
    DInvW env C sp s' r ∧ DStep env sp s s' ∧ ((virt s').nodeD n).recomputedAt = s.stabNum := by
  by_cases hk : ∀ g i, (s.nodeD n).kind ≠ .mapWithOld g i
  · obtain ⟨hsim, F', M', hp'⟩ := step_static_node V D hk h
    obtain ⟨I', fr, hrec⟩ := recomputeOne_inv D.inv hsim
    have hc := recomputeOne_calm D.inv.graph (D.inv.cur n rfl).1 D.inv.kids_values hsim
    have hkd := recomputeOne_keyD D.inv.graph (D.inv.cur n rfl).1 D.inv.kids_values hsim
    exact ⟨⟨F', I', M', hp'⟩, ⟨fr, hc, hkd, fun hU => recomputeOne_unnec D.inv hU hsim⟩, hrec⟩
  · have : ∃ g i, (s.nodeD n).kind = .mapWithOld g i := by
      cases hkd : (s.nodeD n).kind <;>
        first | exact ⟨_, _, rfl⟩ | (exfalso; apply hk; intro g i; rw [hkd]; intro h; cases h)
    obtain ⟨g, i, hkk⟩ := this
    have O := step_mwo_node V D hkk h
    exact ⟨⟨O.frag, O.inv, O.m, O.pinv⟩, ⟨O.frame, O.calm, O.keyD, O.unnec⟩, O.ran⟩

/-- **M1, the direct-recompute chain.** -/
theorem recomputeW_inv (V : ValOK env C sp) : ∀ (fuel n : Nat) (s s' : State), DInvW env C sp s (some n) →
    (recompute env fuel n).run.run s = (.ok (), s') → DInvW env C sp s' none ∧ DStep env sp s s' := by
  intro fuel
  induction fuel with
  | zero => intro n s s' _ h; unfold recompute at h; cases h
  | succ fuel ih =>
    intro n s s' D h
    unfold recompute at h
    obtain ⟨r, s1, h1, h2⟩ := bind_ok_inv h
    obtain ⟨D1, f1, -⟩ := recomputeOneW_inv V D h1
    cases r with
    | none =>
      obtain ⟨-, rfl⟩ := pure_ok_inv h2
      exact ⟨D1, f1⟩
    | some p =>
      obtain ⟨D2, f2⟩ := ih p s1 s' D1 h2
      exact ⟨D2, f1.trans f2⟩

theorem heapInv_of_virt (h : HeapInv (virt s)) : HeapInv s :=
  h.congr rfl (virt_size s).symm fun m => by
    rw [virt_nodeD]
    exact ⟨(virtNode_heightInRch _).symm, (virtNode_height _).symm, (virt_isNecessary s m).symm⟩

/-- taking a node out of the heap, in the actual and in the virtual state -/
theorem popW {s1 : State} {r : Option Nat} (D : DInvW env C sp s none)
    (h : rchRemoveMin.run.run s = (.ok r, s1)) :
    rchRemoveMin.run.run (virt s) = (.ok r, virt s1) ∧ WFrag env (Good env C sp) s1 ∧ MInv env C s1 ∧
      s1.propagateInvalidity = [] := by
  obtain ⟨hv, hfr⟩ := Sim.rchRemoveMin s (D.frag.fr D.pinv) r s1 h
  refine ⟨hv, ?_⟩
  have hi := heapInv_of_virt D.inv.heap
  have hinv := rchRemoveMin_inv hi h
  cases r with
  | none =>
    obtain ⟨rfl, -⟩ := hinv
    exact ⟨D.frag, D.m, D.pinv⟩
  | some n =>
    obtain ⟨-, -, -, hs1, -⟩ := hinv
    have hnd : ∀ m, s1.nodeD m =
        if n = m ∧ m < s.nodes.size then { s.nodeD m with heightInRch := -1 } else s.nodeD m := by
      intro m; rw [hs1]; exact nodeD_modify s n m _
    have hsz : s1.nodes.size = s.nodes.size := by rw [hs1]; simp
    have hkind : ∀ m, (s1.nodeD m).kind = (s.nodeD m).kind := by intro m; rw [hnd]; split <;> rfl
    have hvalid : ∀ m, (s1.nodeD m).valid = (s.nodeD m).valid := by intro m; rw [hnd]; split <;> rfl
    have hval : ∀ m, (s1.nodeD m).value = (s.nodeD m).value := by intro m; rw [hnd]; split <;> rfl
    have hold : ∀ m, (s1.nodeD m).oldState = (s.nodeD m).oldState := by intro m; rw [hnd]; split <;> rfl
    have hvars : s1.vars = s.vars := by rw [hs1]
    refine ⟨⟨by rw [hs1]; exact D.frag.pc, fun m hm => by rw [hkind]; exact D.frag.kind m (by rw [← hsz]; exact hm),
        fun m hm => by rw [hvalid]; exact D.frag.valid m (by rw [← hsz]; exact hm),
        fun m hm => by rw [hkind]; exact D.frag.back m (by rw [← hsz]; exact hm)⟩, ?_, hfr.pinv⟩
    refine ⟨fun m w hw => ?_, fun m hm => ?_, ?_, fun m g i hk => ?_⟩
    · rw [hval] at hw; exact D.m.vals m w hw
    · rw [hkind]; exact D.m.lits m (by rw [← hsz]; exact hm)
    · rw [hvars]; exact D.m.vars
    · rw [hkind] at hk; rw [hval, hold]; exact D.m.mach m g i hk

/-- **M1, one pop of `drainHeap`.** -/
theorem popW_recompute {fuel n : Nat} {s1 s' : State} (V : ValOK env C sp) (D : DInvW env C sp s none)
    (hpop : rchRemoveMin.run.run s = (.ok (some n), s1))
    (hrec : (recompute env fuel n).run.run s1 = (.ok (), s')) :
    DInvW env C sp s' none ∧ DStep env sp s s' := by
  obtain ⟨hv, F1, M1, hp1⟩ := popW D hpop
  obtain ⟨I1, f1⟩ := pop_inv D.inv hv
  have D1 : DInvW env C sp s1 (some n) := ⟨F1, I1, M1, hp1⟩
  obtain ⟨D', f2⟩ := recomputeW_inv V fuel n s1 s' D1 hrec
  exact ⟨D', DStep.trans ⟨f1, pop_calm D.inv.heap hv, pop_keyD D.inv.heap hv,
    fun hU => pop_unnec D.inv.heap hU hv⟩ f2⟩

/-- **M1, the loop.** A successful `drainHeap` from the drain invariant ends with the drain invariant and an empty
heap. -/
theorem drainHeapW_inv (V : ValOK env C sp) : ∀ (fuel : Nat) (s s' : State), DInvW env C sp s none →
    (drainHeap env fuel).run.run s = (.ok (), s') →
    DInvW env C sp s' none ∧ s'.rch.length = 0 ∧ DStep env sp s s' := by
  intro fuel
  induction fuel with
  | zero => intro s s' _ h; unfold drainHeap at h; cases h
  | succ fuel ih =>
    intro s s' D h
    unfold drainHeap at h
    obtain ⟨r, s1, h1, h2⟩ := bind_ok_inv h
    cases r with
    | none =>
      obtain ⟨-, rfl⟩ := pure_ok_inv h2
      obtain ⟨rfl, he⟩ := rchRemoveMin_inv (heapInv_of_virt D.inv.heap) h1
      exact ⟨D, he, DStep.refl env sp _⟩
    | some n =>
      obtain ⟨u, s2, h3, h4⟩ := bind_ok_inv h2
      obtain ⟨D2, f2⟩ := popW_recompute V D h1 h3
      obtain ⟨D3, he, f3⟩ := ih s2 s' D2 h4
      exact ⟨D3, he, f2.trans f3⟩

end IncrVerif.Proofs.MapOldH
