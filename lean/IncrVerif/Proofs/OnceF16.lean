import IncrVerif.Proofs.OnceF15
/-!
# C02, combined fragment, part 16: the value frame `VR` (end) — notifications, `maybeChangeValue` (`VR n`), `recomputeOne env fuel n` (`VR n`), `rchRemoveMin`
-/
open IncrVerif.Engine IncrVerif.Proofs IncrVerif.Proofs.Step
namespace IncrVerif.Proofs.OnceF

/-! ### notifications, `maybeChangeValue`, `recomputeOne` -/
theorem PresV.childChanged (n0 : Nat) (env fuel p c ci o) : Step.Pres (VR n0) (childChanged env fuel p c ci o) := by
  induction fuel generalizing p c ci o with
  | zero => unfold Engine.childChanged; qpres
  | succ fuel ih => unfold Engine.childChanged; qpres; all_goals exact ih _ _ _ _
v_leaf PresV.childChanged
theorem PresV.parentIterCanRecomputeNow (n0 : Nat) (p c) : Step.Pres (VR n0) (parentIterCanRecomputeNow p c) := by
  unfold Engine.parentIterCanRecomputeNow; qpres
v_leaf PresV.parentIterCanRecomputeNow
theorem PresV.maybeChangeValueManual (n0 : Nat) (env fuel n o d b) :
    Step.Pres (VR n0) (maybeChangeValueManual env fuel n o d b) := by
  unfold Engine.maybeChangeValueManual; qpres
v_leaf PresV.maybeChangeValueManual
theorem PresV.maybeChangeValue (env fuel n v) : Step.Pres (VR n) (maybeChangeValue env fuel n v) := by
  unfold Engine.maybeChangeValue; qpres
v_leaf PresV.maybeChangeValue


set_option maxHeartbeats 1000000 in
theorem PresV.recomputeOne (env fuel n) : Step.Pres (VR n) (recomputeOne env fuel n) := by
  unfold Engine.recomputeOne; qpres
v_leaf PresV.recomputeOne

theorem PresV.rchRemoveMin (n0 : Nat) : Step.Pres (VR n0) rchRemoveMin := by unfold Engine.rchRemoveMin; qpres
v_leaf PresV.rchRemoveMin

end IncrVerif.Proofs.OnceF
