import IncrVerif.Proofs.ExpertH56
/-!
# Expert nodes, E2: `maybeChangeValue` keeps the callback discipline

`Pre env c T`: what is needed of the state `T` in which `maybeChangeValue env fuel c v` starts (the closure of `c` has
run): the fragment, the edge symmetry around `c`, and the callback discipline up to `c` itself.
`mcv_slots`: from `Pre`, a successful `maybeChangeValue` ends in a state satisfying `SlotInv`.
-/
namespace IncrVerif.Proofs.ExpertH
open IncrVerif.Engine IncrVerif.Driver IncrVerif.Proofs IncrVerif.Proofs.Step IncrVerif.Proofs.Sched
open IncrVerif.Proofs.ExpertH.QR IncrVerif.Proofs.Xp

/-! ## small facts -/

theorem dep_inj {l : List ExpertEdge} (h : (l.map (·.dep)).Nodup) {a b : ExpertEdge} (ha : a ∈ l) (hb : b ∈ l)
    (hd : a.dep = b.dep) : a = b := by
  induction l with
  | nil => cases ha
  | cons x xs ih =>
    rw [List.map_cons, List.nodup_cons] at h
    rcases List.mem_cons.1 ha with rfl | ha' <;> rcases List.mem_cons.1 hb with rfl | hb'
    · rfl
    · exact absurd (List.mem_map.2 ⟨b, hb', hd.symm⟩) h.1
    · exact absurd (List.mem_map.2 ⟨a, ha', hd⟩) h.1
    · exact ih h.2 ha' hb'

theorem any_congr_mem {α} {l : List α} {f g : α → Bool} (h : ∀ x, x ∈ l → f x = g x) : l.any f = l.any g := by
  induction l with
  | nil => rfl
  | cons x xs ih =>
    simp only [List.any_cons]
    rw [h x (List.mem_cons_self ..), ih fun y hy => h y (List.mem_cons_of_mem _ hy)]

/-- staleness of a valid expert node, read off its record -/
theorem isStale_expert {s : State} {q e : Nat} {er : ExpertRec} (hv : (s.nodeD q).valid = true)
    (hk : (s.nodeD q).kind = .expert e) (he : s.experts[e]? = some er) :
    s.isStale q = (er.forceStale || (s.nodeD q).recomputedAt == -1 ||
      (er.children.map (·.child)).any fun ch => decide ((s.nodeD ch).changedAt > (s.nodeD q).recomputedAt)) := by
  unfold State.isStale State.children
  simp [Node.kind?, hv, hk, he]

theorem SlotsRel.refl (v : Val) (T : State) (e : Nat) (er : ExpertRec) : SlotsRel v T (fun _ => False) e er er :=
  ⟨fun _ _ h => by obtain ⟨_, _, _, hD, _⟩ := h; exact hD.elim, fun _ => Or.inl rfl, fun _ hx => Or.inl hx⟩

theorem SlotsRel.congr {v : Val} {R T : State} {D D' : Nat × Nat → Prop} {e : Nat} {er er' : ExpertRec}
    (h : SlotsRel v R D e er er') (hk : ∀ m, (R.nodeD m).kind = (T.nodeD m).kind) (hD : ∀ a, D a ↔ D' a) :
    SlotsRel v T D' e er er' := by
  have key : ∀ d, Hit R D e er d ↔ Hit T D' e er d := by
    intro d
    constructor
    · rintro ⟨p, ci, ed, h1, h2, h3⟩; exact ⟨p, ci, ed, (hD _).1 h1, by rw [← hk]; exact h2, h3⟩
    · rintro ⟨p, ci, ed, h1, h2, h3⟩; exact ⟨p, ci, ed, (hD _).2 h1, by rw [hk]; exact h2, h3⟩
  exact ⟨fun d hw hh => h.hit d hw ((key d).2 hh), fun d => (h.keep d).imp id fun ⟨hw, hh⟩ => ⟨hw, (key d).1 hh⟩,
    h.keys⟩

/-! ## the precondition -/

structure Pre (env : Env) (c : Nat) (T : State) : Prop where
  frag : XFrag env T
  lt : c < T.nodes.size
  cut : (T.nodeD c).cutoff = .eq ∨ (T.nodeD c).cutoff = .never
  /-- a parent entry of `c` names an edge on `c` -/
  par : ∀ (p ci e : Nat) (er : ExpertRec) (ed : ExpertEdge), (p, ci) ∈ (T.nodeD c).parents →
    (T.nodeD p).kind = .expert e → T.experts[e]? = some er → er.children[ci]? = some ed → ed.child = c
  /-- an edge on `c` of a necessary expert is recorded in the parent entries of `c` -/
  child : ∀ (q e : Nat) (er : ExpertRec) (j : Nat) (ed : ExpertEdge), (T.nodeD q).kind = .expert e →
    T.experts[e]? = some er → T.isNecessary q = true → er.children[j]? = some ed → ed.child = c →
    (q, j) ∈ (T.nodeD c).parents
  deps : ∀ (e : Nat) (er : ExpertRec), T.experts[e]? = some er →
    (er.children.map (·.dep)).Nodup ∧ (∀ ed, ed ∈ er.children → ed.dep < T.nextDep) ∧
      (∀ p, p ∈ er.slots → p.1 < T.nextDep)
  flag : ∀ (n e : Nat) (er : ExpertRec), (T.nodeD n).kind = .expert e → T.experts[e]? = some er →
    er.willFireAllCallbacks = false → T.isNecessary n = true
  good : ∀ (n e : Nat) (er : ExpertRec), (T.nodeD n).kind = .expert e → T.experts[e]? = some er →
    (er.willFireAllCallbacks = false ∨ (n ≠ c ∧ T.isStale n = false)) → Good env T er
  /-- an expert with the flag up that has `c` as a child has not been recomputed in this round -/
  old : ∀ (q e : Nat) (er : ExpertRec), (T.nodeD q).kind = .expert e → T.experts[e]? = some er →
    er.willFireAllCallbacks = true → c ∈ er.children.map (·.child) →
    er.forceStale = true ∨ (T.nodeD q).recomputedAt < T.stabNum
  /-- the flag of `c` itself is down -/
  cflag : ∀ (e : Nat) (er : ExpertRec), (T.nodeD c).kind = .expert e → T.experts[e]? = some er →
    er.willFireAllCallbacks = false

/-! ## the assembly -/

theorem slotInv_post {env : Env} {c : Nat} {v : Val} {T s' : State} {D : Nat × Nat → Prop} (P : Pre env c T)
    (fr : StepFrame c T s') (hnd : s'.nextDep = T.nextDep)
    (hvalc : (s'.nodeD c).value = some v) (hrecc : (s'.nodeD c).recomputedAt = (T.nodeD c).recomputedAt)
    (hslots : ∀ (e : Nat) (er : ExpertRec), T.experts[e]? = some er →
      ∃ er', s'.experts[e]? = some er' ∧ stripSlots er' = stripSlots er ∧ SlotsRel v T D e er er')
    (hback : ∀ (e : Nat) (er' : ExpertRec), s'.experts[e]? = some er' → ∃ er, T.experts[e]? = some er)
    (hch : ((∀ a, ¬ D a) ∧ (T.nodeD c).value = some v ∧ (s'.nodeD c).changedAt = (T.nodeD c).changedAt) ∨
      ((∀ a, D a ↔ a ∈ (T.nodeD c).parents) ∧ (s'.nodeD c).changedAt = T.stabNum)) :
    SlotInv env s' := by
  have F := P.frag
  have hnec : ∀ m, s'.isNecessary m = T.isNecessary m := by
    intro m
    simp only [State.isNecessary, Node.isNecessary, fr.parents, fr.observers, fr.forceNecessary]
  have hrec : ∀ m, (s'.nodeD m).recomputedAt = (T.nodeD m).recomputedAt := by
    intro m
    by_cases hm : m = c
    · rw [hm]; exact hrecc
    · exact fr.recomputedAt m hm
  have vT : ∀ m, T.value env m = (T.nodeD m).value := fun m => value_plain env T m (F.noMapRef m)
  have vS : ∀ m, s'.value env m = (s'.nodeD m).value := fun m =>
    value_plain env s' m (by rw [fr.kind]; exact F.noMapRef m)
  have vOther : ∀ m, m ≠ c → s'.value env m = T.value env m := by
    intro m hm; rw [vS, vT, fr.value m hm]
  have vSelf : s'.value env c = some v := by rw [vS, hvalc]
  -- the record of `s'` and the record of `T`
  have recs : ∀ (e : Nat) (er' : ExpertRec), s'.experts[e]? = some er' →
      ∃ er, T.experts[e]? = some er ∧ stripSlots er' = stripSlots er ∧ SlotsRel v T D e er er' := by
    intro e er' he'
    obtain ⟨er, he⟩ := hback e er' he'
    obtain ⟨er2, he2, hs, rel⟩ := hslots e er he
    rw [he'] at he2; cases he2
    exact ⟨er, he, hs, rel⟩
  refine ⟨fun e er' he' => ?_, fun n e er' hk he' hw => ?_, fun n e er' hk he' hcond => ?_⟩
  · obtain ⟨er, he, hs, rel⟩ := recs e er' he'
    obtain ⟨hc, -⟩ := strip_fields hs
    obtain ⟨d1, d2, d3⟩ := P.deps e er he
    rw [hc, hnd]
    refine ⟨d1, d2, fun x hx => ?_⟩
    rcases rel.keys x hx with hx | ⟨ed, hed, hxe⟩
    · exact d3 x hx
    · rw [hxe]; exact d2 ed hed
  · obtain ⟨er, he, hs, rel⟩ := recs e er' he'
    obtain ⟨-, hwf, -⟩ := strip_fields hs
    rw [hnec]
    exact P.flag n e er (by rw [← fr.kind]; exact hk) he (by rw [← hwf]; exact hw)
  · obtain ⟨er, he, hs, rel⟩ := recs e er' he'
    obtain ⟨hc, hwf, -, hfs, -⟩ := strip_fields hs
    have hkT : (T.nodeD n).kind = .expert e := by rw [← fr.kind]; exact hk
    obtain ⟨d1, -, -⟩ := P.deps e er he
    have hvalidT : (T.nodeD n).valid = true := F.validD n
    have hvalidS : (s'.nodeD n).valid = true := by rw [fr.valid]; exact hvalidT
    have stS := isStale_expert hvalidS hk he'
    have stT := isStale_expert hvalidT hkT he
    rw [hc, hfs, hrec] at stS
    intro ed hed hcb
    rw [hc] at hed
    rcases hch with ⟨hD, hold, hchg⟩ | ⟨hD, hchg⟩
    · -- the value of `c` did not change: nothing was delivered, nothing became stale
      have hlook : er'.slots.lookup ed.dep = er.slots.lookup ed.dep := by
        rcases rel.keep ed.dep with h | ⟨-, p, ci, ed2, h2, -⟩
        · exact h
        · exact absurd h2 (hD _)
      have hval : s'.value env ed.child = T.value env ed.child := by
        by_cases hcc : ed.child = c
        · rw [hcc, vSelf, vT, hold]
        · exact vOther _ hcc
      have hstale : s'.isStale n = T.isStale n := by
        rw [stS, stT]
        congr 1
        apply any_congr_mem
        intro x _
        by_cases hx : x = c
        · rw [hx, hchg]
        · rw [fr.changedAt x hx]
      have G : Good env T er := by
        refine P.good n e er hkT he ?_
        rcases hcond with h | h
        · exact Or.inl (by rw [← hwf]; exact h)
        · by_cases hw : er.willFireAllCallbacks = false
          · exact Or.inl hw
          · refine Or.inr ⟨fun hn => hw ?_, by rw [← hstale]; exact h⟩
            subst hn; exact P.cflag e er hkT he
      rw [hlook, hval]; exact G ed hed hcb
    · -- the value of `c` changed: the callbacks of all its parent entries were delivered
      by_cases hw : er.willFireAllCallbacks = false
      · have G : Good env T er := P.good n e er hkT he (Or.inl hw)
        by_cases hcc : ed.child = c
        · obtain ⟨j, hj⟩ := List.getElem?_of_mem hed
          have hpar := P.child n e er j ed hkT he (P.flag n e er hkT he hw) hj hcc
          rw [rel.hit ed.dep hw ⟨n, j, ed, (hD _).2 hpar, hkT, hj, rfl, hcb⟩, hcc, vSelf]
        · rw [vOther _ hcc, ← G ed hed hcb]
          rcases rel.keep ed.dep with h | ⟨-, p, ci, ed2, h1, h2, h3, h4, -⟩
          · exact h
          · have h5 := P.par p ci e er ed2 ((hD _).1 h1) h2 he h3
            have : ed2 = ed := dep_inj d1 (List.mem_of_getElem? h3) hed h4
            rw [this] at h5; exact absurd h5 hcc
      · have hw' : er.willFireAllCallbacks = true := by simpa using hw
        have hstale : s'.isStale n = false := by
          rcases hcond with h | h
          · rw [hwf, hw'] at h; cases h
          · exact h
        have hnc : n ≠ c := by
          intro hn; subst hn; exact hw (P.cflag e er hkT he)
        have hnot : c ∉ er.children.map (·.child) := by
          intro hmem
          have hold := P.old n e er hkT he hw' hmem
          rw [stS] at hstale
          simp only [Bool.or_eq_false_iff] at hstale
          obtain ⟨⟨h1, -⟩, h3⟩ := hstale
          rcases hold with hold | hold
          · rw [hold] at h1; cases h1
          · have := List.any_eq_false.1 h3 c hmem
            rw [hchg] at this
            simp only [gt_iff_lt, decide_eq_true_eq] at this
            exact this hold
        have hstT : T.isStale n = false := by
          rw [stT, ← hstale, stS]
          congr 1
          apply any_congr_mem
          intro x hx
          have : x ≠ c := fun h => hnot (h ▸ hx)
          rw [fr.changedAt x this]
        have G : Good env T er := P.good n e er hkT he (Or.inr ⟨hnc, hstT⟩)
        have hcc : ed.child ≠ c := fun h => hnot (List.mem_map.2 ⟨ed, hed, h⟩)
        rw [vOther _ hcc, ← G ed hed hcb]
        rcases rel.keep ed.dep with h | ⟨h, -⟩
        · exact h
        · exact absurd h hw

/-- **`maybeChangeValue` keeps the callback discipline.** -/
theorem mcv_slots {env : Env} {fuel c : Nat} {v : Val} {T s' : State} {r : Option Nat} (P : Pre env c T)
    (h : (maybeChangeValue env fuel c v).run.run T = (.ok r, s')) : SlotInv env s' := by
  have hn0 := some_of_lt P.lt
  have hpc := P.frag.pc
  have xf : XF T s' := (PresX.maybeChangeValue env fuel c v).h _ _ _ h
  have kx : Keeps xcore T s' := (K.maybeChangeValue env fuel c v).h _ _ _ h
  have hback : ∀ (e : Nat) (er' : ExpertRec), s'.experts[e]? = some er' → ∃ er, T.experts[e]? = some er := by
    intro e er' he'
    obtain ⟨er, he, -⟩ := core_back kx he'
    exact ⟨er, he⟩
  rcases mcvChanges_static env T c v P.cut with hd | ⟨hd, hold⟩
  · -- the value changed (or is the first one): the parents are notified
    obtain ⟨fr, hv, hc, hr, -, -, -⟩ := mcv_propagate_facts env fuel c v T s' _ r hn0 hpc hd h
    rw [mcv_run' env fuel c v T _ hn0 hpc, hd] at h
    dsimp only at h
    obtain ⟨frR, hD, -, -, -, hpcR⟩ := changedState_facts env c v T _ hn0
    have WP : WalkPre env c v (changedState env c v T) := by
      refine ⟨fun m => ?_, fun m p i => ?_, fun e er he => (P.frag.xok e er he).1, by rw [hpcR]; exact hpc, ?_,
        fun p ci e er ed hp hk he hed => ?_⟩
      · rw [frR.valid]; exact P.frag.validD m
      · rw [frR.kind]; exact P.frag.noMapRef m p i
      · rw [hD]
      · rw [frR.parents] at hp; rw [frR.kind] at hk
        exact P.par p ci e er ed hp hk he hed
    have Wk := mcvm_walk WP h
    refine slotInv_post P fr xf.nextDep hv hr (D := fun a => a ∈ (T.nodeD c).parents) (fun e er he => ?_) hback
      (Or.inr ⟨fun _ => Iff.rfl, hc⟩)
    obtain ⟨er', he', rel⟩ := Wk.slots e er he
    exact ⟨er', he', core_eq Wk.core he he', rel.congr frR.kind fun a => by
      show a ∈ ((changedState env c v T).nodeD c).parents ↔ _
      rw [frR.parents]⟩
  · -- the cutoff suppresses the change: the same value is stored again
    rw [mcv_suppress env fuel c v T _ hn0 hpc hd] at h
    cases h
    have fr : StepFrame c T (setValue c (some v) (logged (mcvLog env T c v) T)) :=
      (StepFrame.logged c _ T).trans (StepFrame.setValue c _ _)
    have hself : (setValue c (some v) (logged (mcvLog env T c v) T)).nodeD c = { T.nodeD c with value := some v } := by
      rw [setValue_nodeD, if_pos ⟨rfl, P.lt⟩]; rfl
    refine slotInv_post P fr rfl (by rw [hself]) (by rw [hself]) (D := fun _ => False)
      (fun e er he => ⟨er, he, rfl, SlotsRel.refl v T e er⟩) hback (Or.inl ⟨fun _ h => h, hold, by rw [hself]⟩)

end IncrVerif.Proofs.ExpertH
