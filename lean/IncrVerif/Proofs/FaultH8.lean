import IncrVerif.Proofs.FaultH7
import IncrVerif.Proofs.FaultH5
/-!
# Faults in whole histories, part G2: histories after the panic (F2)
-/
namespace IncrVerif.Proofs.FaultH
open IncrVerif.Engine IncrVerif.Driver IncrVerif.Proofs IncrVerif.Proofs.Step

/-! ## single actions on a poisoned state -/

/-- `stabilise` on a poisoned state: the status diagnostic, the state untouched (no node function runs, nothing is
delivered, nothing is logged) -/
theorem stabilise_poisoned {env : Env} {s : State} {tk : Array Nat} (h : s.status ≠ .notStabilising) :
    (stepAction env .stabilise tk).run.run s = (.error (.site "state:stabilise:status"), s) := by
  unfold stepAction
  dsimp only
  exact run_bind_err (Poison.stabilise_refuses env _ s h)

/-- dropping the state and all handles always returns -/
theorem dropAll_returns (env : Env) (s : State) (tk : Array Nat) :
    (stepAction env .dropAll tk).run.run s = (.ok ("ok live=0", tk), { s with alive := false }) := rfl

theorem arm_returns (env : Env) (k : Nat) (s : State) (tk : Array Nat) :
    (stepAction env (.arm k) tk).run.run s = (.ok ("ok", tk), { s with panicCountdown := some k }) := rfl

/-- the variable and the function of a write action -/
def writeFn : Action → Option (Nat × (Val → Val))
  | .set v x => some (v, fun _ => x)
  | .modify v d => some (v, fun y => y.addInt d 7)
  | .update v d => some (v, fun y => y.addInt d 7)
  | .replace v x => some (v, fun _ => x)
  | .replaceWith v d => some (v, fun y => y.addInt d 7)
  | _ => none

/-- the result of a run mapped by `g`, a panic kept -/
def mapRes {α β} (g : α → β) : Except Panic α × State → Except Panic β × State
  | (.ok a, s) => (.ok (g a), s)
  | (.error p, s) => (.error p, s)

theorem run_discard_bind_pure {α β} (x : M α) (c : β) (s : State) :
    (do discard x; pure c : M β).run.run s = mapRes (fun _ => c) (x.run.run s) := by
  simp only [Functor.discard, map_const, Function.comp, map_eq_pure_bind, bind_assoc, pure_bind]
  rw [Proofs.run_bind]
  rcases x.run.run s with ⟨r | r, s1⟩ <;> rfl

theorem run_bind_pure_fn {α β} (x : M α) (g : α → β) (s : State) :
    (do let a ← x; pure (g a) : M β).run.run s = mapRes g (x.run.run s) := by
  rw [Proofs.run_bind]
  rcases x.run.run s with ⟨r | r, s1⟩ <;> rfl

/-- every write action is `writeVar` followed by a `pure` -/
theorem write_action_run (env : Env) {a : Action} {v : Nat} {f : Val → Val} (hw : writeFn a = some (v, f))
    (s : State) (tk : Array Nat) :
    ∃ (isSet : Bool) (g : Val → String),
      (stepAction env a tk).run.run s = mapRes (fun old => (g old, tk)) ((writeVar v f isSet).run.run s) := by
  cases a <;> simp only [writeFn, Option.some.injEq, Prod.mk.injEq, reduceCtorEq] at hw
  case set v' x =>
    obtain ⟨rfl, rfl⟩ := hw
    refine ⟨true, fun _ => "ok", ?_⟩
    unfold stepAction; dsimp only
    exact run_discard_bind_pure _ _ s
  case modify v' d =>
    obtain ⟨rfl, rfl⟩ := hw
    refine ⟨false, fun _ => "ok", ?_⟩
    unfold stepAction; dsimp only
    exact run_discard_bind_pure _ _ s
  case update v' d =>
    obtain ⟨rfl, rfl⟩ := hw
    refine ⟨false, fun _ => "ok", ?_⟩
    unfold stepAction; dsimp only
    exact run_discard_bind_pure _ _ s
  case replace v' x =>
    obtain ⟨rfl, rfl⟩ := hw
    refine ⟨false, fun (old : Val) => "ok " ++ old.render, ?_⟩
    unfold stepAction; dsimp only
    exact run_bind_pure_fn _ (fun (old : Val) => ("ok " ++ old.render, tk)) s
  case replaceWith v' d =>
    obtain ⟨rfl, rfl⟩ := hw
    refine ⟨false, fun (old : Val) => "ok " ++ old.render, ?_⟩
    unfold stepAction; dsimp only
    exact run_bind_pure_fn _ (fun (old : Val) => ("ok " ++ old.render, tk)) s

/-- **a write in the state poisoned by a propagation panic is deferred — for ever**: it returns, the cell keeps its
`value` and only its `pending` slot (and the deferred-writes stack) changes; no later `stabilise_end` will apply it -/
theorem write_deferred (env : Env) {a : Action} {v : Nat} {f : Val → Val} (hw : writeFn a = some (v, f))
    {s : State} {vc : VarCell} (tk : Array Nat) (hst : s.status = .stabilising) (hv : s.vars[v]? = some vc) :
    ∃ r, (stepAction env a tk).run.run s = (.ok (r, tk), Proofs.deferred v vc f s) ∧
      (Proofs.deferred v vc f s).vars[v]? = some { vc with pending := some (f (vc.pending.getD vc.value)) } ∧
      (Proofs.deferred v vc f s).nodes = s.nodes ∧ (Proofs.deferred v vc f s).rch = s.rch := by
  obtain ⟨isSet, g, h⟩ := write_action_run env hw s tk
  rw [Proofs.writeVar_inside_run v f isSet s vc hv hst] at h
  refine ⟨_, h, ?_, rfl, rfl⟩
  have hlt := (Array.getElem?_eq_some_iff.1 hv).1
  show (s.vars.setIfInBounds v _)[v]? = _
  rw [Array.getElem?_setIfInBounds, if_pos rfl, if_pos hlt]

/-- **a write in the state poisoned by a handler panic is immediate**: whatever the outcome, the cell holds the new
value afterwards (and nothing will ever propagate it) -/
theorem write_immediate (env : Env) {a : Action} {v : Nat} {f : Val → Val} (hw : writeFn a = some (v, f))
    {s s' : State} {vc : VarCell} {tk : Array Nat} {r : Except Panic (String × Array Nat)}
    (hst : s.status ≠ .stabilising) (hv : s.vars[v]? = some vc)
    (h : (stepAction env a tk).run.run s = (r, s')) :
    ∃ vc', s'.vars[v]? = some vc' ∧ vc'.value = f vc.value := by
  obtain ⟨isSet, g, h0⟩ := write_action_run env hw s tk
  rw [h0] at h
  have hlt := (Array.getElem?_eq_some_iff.1 hv).1
  have key : ∀ (x : Except Panic Val) (s1 : State), (writeVar v f isSet).run.run s = (x, s1) →
      ∃ vc', s1.vars[v]? = some vc' ∧ vc'.value = f vc.value := by
    intro x s1 hx
    rw [Proofs.writeVar_outside_closed v f isSet s vc hv hst] at hx
    have c1 : ∀ c : VarCell, (Proofs.withCell v c s).vars[v]? = some c := fun c => by
      show (s.vars.setIfInBounds v c)[v]? = _
      rw [Array.getElem?_setIfInBounds, if_pos rfl, if_pos hlt]
    split at hx
    · cases hx; exact ⟨_, c1 _, rfl⟩
    · split at hx
      · cases hx; exact ⟨_, c1 _, rfl⟩
      · split at hx
        · cases hx; exact ⟨_, c1 _, rfl⟩
        · split at hx
          · rcases hy : (rchInsert vc.node).run.run (Proofs.stampedWrite v vc (f vc.value) s) with ⟨r1, s2⟩
            rw [hy] at hx
            have e : s1 = s2 := by
              unfold Proofs.mapOk at hx
              cases r1 <;> cases hx <;> rfl
            have hq := (Step.Pres.rchInsert vc.node).h _ _ _ hy
            rw [e, hq.vars]; exact ⟨_, c1 _, rfl⟩
          · cases hx; exact ⟨_, c1 _, rfl⟩
  rcases hx : (writeVar v f isSet).run.run s with ⟨x, s1⟩
  rw [hx] at h
  obtain ⟨vc', h1, h2⟩ := key x s1 hx
  cases x <;> (unfold mapRes at h; cases h; exact ⟨vc', h1, h2⟩)

/-! ## histories -/

theorem stepCatch_after {env : Env} {a : Action} (ha : FAction env a) (st : State × Array Nat)
    (hp : st.1.status ≠ .notStabilising) : AfterR st.1 (stepCatch env a st).1 := by
  by_cases hs : a = .stabilise
  · subst hs
    unfold stepCatch
    rw [stabilise_poisoned hp]
    exact AfterR.refl _
  · unfold stepCatch
    rcases hx : (stepAction env a st.2).run.run st.1 with ⟨r, s1⟩
    have := (stepAction_after ha hs st.2).h _ _ _ hx
    cases r <;> exact this

/-- **for ever**: along any further history of the fragment, whatever the outcomes, the state stays poisoned and
relates to the state at the panic by `AfterR`: same status, same configuration, NOTHING logged (no node function, no
cutoff, no handler is invoked any more), stored node values kept, no new observer in use -/
theorem runCatch_after {env : Env} : ∀ (acts : List Action) (st : State × Array Nat),
    (∀ a, a ∈ acts → FAction env a) → st.1.status ≠ .notStabilising → AfterR st.1 (runCatch env acts st).1 := by
  intro acts
  induction acts with
  | nil => intro st _ _; exact AfterR.refl _
  | cons a as ih =>
    intro st ha hp
    rw [runCatch_cons]
    have h1 := stepCatch_after (ha a (List.mem_cons_self ..)) st hp
    exact h1.trans (ih _ (fun b hb => ha b (List.mem_cons_of_mem _ hb)) (by rw [h1.status]; exact hp))

/-- every later `stabilise` refuses with the status diagnostic and leaves the state untouched -/
theorem stabilise_refuses_history {env : Env} {as : List Action} {st : State × Array Nat}
    (ha : ∀ a, a ∈ as → FAction env a) (hp : st.1.status ≠ .notStabilising) :
    (stepAction env .stabilise (runCatch env as st).2).run.run (runCatch env as st).1
      = (.error (.site "state:stabilise:status"), (runCatch env as st).1) :=
  stabilise_poisoned (by rw [(runCatch_after as st ha hp).status]; exact hp)

/-- propagation case: every read of every observer is refused as long as the state is alive (after `dropAll`:
`ObservingInvalid`); never a value -/
theorem reads_refused_history {env : Env} {acts : List Action} {st : State × Array Nat}
    (ha : ∀ a, a ∈ acts → FAction env a) (hs : st.1.status = .stabilising) (o : Nat) :
    (runCatch env acts st).1.tryGetValue env o =
      if (runCatch env acts st).1.alive then .error .currentlyStabilising else .error .observingInvalid := by
  have R := runCatch_after acts st ha (by rw [hs]; intro e; cases e)
  have hst : (runCatch env acts st).1.status = .stabilising := R.status.trans hs
  unfold State.tryGetValue
  cases hal : (runCatch env acts st).1.alive
  · rfl
  · simp [hst]

/-- propagation case: no variable's value ever changes again -/
theorem values_parked_history {env : Env} {acts : List Action} {st : State × Array Nat}
    (ha : ∀ a, a ∈ acts → FAction env a) (hs : st.1.status = .stabilising) {v : Nat} {vc : VarCell}
    (hv : st.1.vars[v]? = some vc) : ∃ vc', (runCatch env acts st).1.vars[v]? = some vc' ∧ vc'.value = vc.value :=
  (runCatch_after acts st ha (by rw [hs]; intro e; cases e)).parked hs v vc hv

theorem value_plain (env : Env) (s : State) (n : Nat) (hk : ∀ p i, (s.nodeD n).kind ≠ .mapRef p i) :
    s.value env n = (s.nodeD n).value := by
  unfold State.value State.valueWith
  dsimp only
  split
  · rename_i p i h
    exact absurd (MapOldH.kind_of_kind? h) (hk p i)
  · rfl

/-- handler case: an observer that is in use later was in use at the panic, on the same node, and reads exactly what it
read at the panic -/
theorem reads_stable_history {env : Env} {acts : List Action} {st : State × Array Nat}
    (ha : ∀ a, a ∈ acts → FAction env a) (hs : st.1.status = .runningOnUpdateHandlers)
    (hk : ∀ (n : Nat) (nd : Node), st.1.nodes[n]? = some nd → ∀ p i, nd.kind ≠ .mapRef p i)
    (hr : ∀ (o : Nat) (ob : ObsRec), st.1.observers[o]? = some ob → ob.node < st.1.nodes.size)
    {o : Nat} {ob : ObsRec} (ho : (runCatch env acts st).1.observers[o]? = some ob) (hu : ob.state = .inUse)
    (hal : (runCatch env acts st).1.alive = true) :
    (runCatch env acts st).1.tryGetValue env o = st.1.tryGetValue env o ∧
      ∃ ob0, st.1.observers[o]? = some ob0 ∧ ob0.state = .inUse ∧ ob0.node = ob.node := by
  have R := runCatch_after acts st ha (by rw [hs]; intro e; cases e)
  obtain ⟨ob0, h0, hu0, hn0⟩ := R.obsInUse o ob ho hu
  refine ⟨?_, ob0, h0, hu0, hn0⟩
  have hlt := hr o ob0 h0
  have hnd : st.1.nodes[ob0.node]? = some (st.1.nodeD ob0.node) := some_of_lt hlt
  obtain ⟨nd', hnd', hv', hk', _⟩ := R.nodes _ _ hnd
  have hst' : (runCatch env acts st).1.status = .runningOnUpdateHandlers := R.status.trans hs
  have v1 : st.1.value env ob0.node = (st.1.nodeD ob0.node).value :=
    value_plain env _ _ (hk _ _ hnd)
  have v2 : (runCatch env acts st).1.value env ob0.node = (st.1.nodeD ob0.node).value := by
    rw [value_plain env _ _ (by rw [nodeD_of_some hnd', hk']; exact hk _ _ hnd), nodeD_of_some hnd', hv']
  unfold State.tryGetValue
  rw [hal, R.alive hal, hst', hs, ho, h0]
  simp only [Bool.not_true, Bool.false_eq_true, if_false, hu, hu0]
  rw [← hn0, v1, v2]

theorem stepCatch_dropAll (env : Env) (s : State) (tk : Array Nat) :
    stepCatch env .dropAll (s, tk) = ({ s with alive := false }, tk) := rfl

end IncrVerif.Proofs.FaultH
