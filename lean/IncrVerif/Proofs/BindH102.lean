import IncrVerif.Proofs.BindH101
/-!
# Binds, part 5e2: the closure run registers exactly the IMAGE of the closure's template — the loop, the run, `closure_elab`
-/
namespace IncrVerif.Proofs.BindH
open IncrVerif.Engine IncrVerif.Proofs IncrVerif.Proofs.Step IncrVerif.Proofs.Sched IncrVerif.Proofs.Quiet

namespace C3e

/-- the second loop invariant when `elabTemplate` starts -/
theorem entered_lk {s : State} {b : Nat} {br : BindRec} (e : Event) (tm : Template) (v : Val)
    (hb : s.binds[b]? = some br) : LK b br s tm v 0 [] (CN.entered b e s) := by
  refine ⟨?_, rfl, rfl, ?_, ?_⟩
  · show (s.binds.modify b _)[b]? = _
    rw [Array.getElem?_modify, if_pos rfl, hb]; rfl
  · intro m hm
    cases hm
  · intro j' i m _ hm
    cases hm

/-- **the template**: `elabTemplate` inside the closure run registers the image of the template -/
theorem elabTemplate_elab {env : Env} {b : Nat} {br : BindRec} {s0 : State} {ex : Nat → Prop}
    {tm : Template} {v : Val} {t t' : State} {rhs : Nat}
    (L : CN.LI env b br s0 ex 0 [] t) (K : LK b br s0 tm v 0 [] t) (A0 : All1 env s0 [])
    (hdy : ∀ m, m ∈ br.allNodesCreatedOnRhs → m < s0.nodes.size)
    (htop : ∀ (k r : Nat), s0.top[k]? = some r →
      r < s0.nodes.size ∧ (s0.nodeD r).createdIn = .top ∧ ∀ b', (s0.nodeD r).kind ≠ .bindLhsChange b')
    (hT : TemplOK env s0 br.lhsChange tm) (h : (elabTemplate env tm v).run.run t = (.ok rhs, t')) :
    ∃ loc, t'.binds[b]? = some { br with allNodesCreatedOnRhs := loc } ∧ ElabOf t' tm v loc rhs := by
  unfold elabTemplate at h
  obtain ⟨loc, t1, h1, h2⟩ := bind_ok_inv h
  have hloop := forIn_ok_inv _ tm.instrs
    (fun j loc t => CN.LI env b br s0 ex j loc t ∧ LK b br s0 tm v j loc t) ?_ tm.instrs 0 [] t loc t1 rfl
    (Nat.zero_le _) ⟨L, K⟩ h1
  · have hloop : CN.LI env b br s0 ex tm.instrs.length loc t1 ∧ LK b br s0 tm v tm.instrs.length loc t1 := hloop
    obtain ⟨-, K1⟩ := hloop
    obtain ⟨et, hr⟩ := resolve_eq K1.top K1.len hT.2 h2
    subst et
    exact ⟨loc, K1.bind, K1.len, K1.kinds, hr⟩
  · intro j a loc0 t0 r t0' hj hL hrun
    have hL : CN.LI env b br s0 ex j loc0 t0 ∧ LK b br s0 tm v j loc0 t0 := hL
    obtain ⟨hL, hK⟩ := hL
    obtain ⟨ro, t2, h3, h4⟩ := bind_ok_inv hrun
    obtain ⟨e, hL'⟩ := hL.step A0 hdy htop (hT.1 j a hj) h3
    obtain ⟨k, -, hk, C⟩ := elab_kind hK.top hK.len hL.scope (hT.1 j a hj) h3
    subst e
    simp only at h4
    obtain ⟨e1, e2⟩ := pure_ok_inv h4
    subst e2
    exact ⟨_, e1, hL', hK.step hj hk C⟩

/-- the run of the closure, in run form, with the value the closure received: the lhs has value `v` (`State.value`), the template of `v` is elaborated
from `entered …`, and the scope is restored -/
theorem lhsRunClosure_inv {env : Env} {n b rhs : Nat} {br : BindRec} {s s' : State}
    (hpc : s.panicCountdown = none)
    (h : (Inval.lhsRunClosure env n b br).run.run s = (.ok rhs, s')) :
    ∃ v e t, (CN.reset b s).value env br.lhs = some v ∧
      (elabTemplate env (env.body br.body v) v).run.run (CN.entered b e s) = (.ok rhs, t) ∧
      s' = { t with currentScope := s.currentScope } := by
  unfold Inval.lhsRunClosure at h
  simp only [modBind, run_bind_modify] at h
  obtain ⟨v, sA, hA, h⟩ := bind_ok_inv h
  rw [run_valueUnwrap] at hA
  split at hA
  · rename_i v' hv
    cases hA
    simp only [run_bind_get, run_bind_modify] at h
    rw [run_bind_tick_none] at h
    rotate_left
    · exact hpc
    rw [run_bind_logEv] at h
    obtain ⟨r1, t, h1, h2⟩ := bind_ok_inv h
    rw [run_bind_modify] at h2
    obtain ⟨e1, e2⟩ := pure_ok_inv h2
    refine ⟨v, .inv s!"b{br.body}" n [v] "", t, hv, ?_, e2⟩
    rw [e1]
    exact h1
  · cases hA

/-- the lhs of a bind is a node of the fragment, hence not a `mapRef` (so its `State.value` is the stored value) -/
theorem lhs_plain {env : Env} {s : State} {b : Nat} {br : BindRec} (A : All1 env s [])
    (hb : s.binds[b]? = some br) : ∀ p i, (s.nodeD br.lhs).kind ≠ .mapRef p i := by
  obtain ⟨h1, h2, h3, -, h5, -⟩ := A.recs b br hb
  have hlc : br.lhsChange < s.nodes.size := by omega
  have N := A.node br.lhsChange hlc
  have hv : (s.nodeD br.lhsChange).valid = true := (N.top h5).1
  have hch : br.lhs ∈ s.children br.lhsChange := by
    unfold State.children Node.kind?
    rw [hv, h3]
    simp only [if_true, hb]
    exact List.mem_singleton.2 rfl
  have hB := (A.node br.lhs (N.kidsIn _ hch)).kind
  intro p i hk
  rw [hk] at hB
  exact hB

end C3e

/-- **the closure run registers exactly the image of the closure's template**: after `lhsRunClosure` the list of registered nodes of bind `b`, in
creation order, is the image (`ElabOf`) of the template the closure yields for the stored value `v` of the lhs, and the result is the resolved `ret`
operand. -/
theorem closure_elab {env : Env} {n b rhs : Nat} {br : BindRec} {s s' : State} {ex : Nat → Prop}
    (h : (Inval.lhsRunClosure env n b br).run.run s = (.ok rhs, s'))
    (I : GInv1 env s allClosed ex []) (hah : AhhEmpty s) (hb : s.binds[b]? = some br) (hlc : br.lhsChange = n)
    (hT : ∀ v, TemplOK env s n (env.body br.body v))
    (htop : ∀ (k r : Nat), s.top[k]? = some r →
      r < s.nodes.size ∧ (s.nodeD r).createdIn = .top ∧ ∀ b', (s.nodeD r).kind ≠ .bindLhsChange b') :
    ∃ v l, (s.nodeD br.lhs).value = some v ∧ s'.binds[b]? = some { br with allNodesCreatedOnRhs := l } ∧
      ElabOf s' (env.body br.body v) v l rhs := by
  have A0 := I.frag
  obtain ⟨v, e, t, hv, hrun, es'⟩ := C3e.lhsRunClosure_inv A0.pc h
  have hdy : ∀ m, m ∈ br.allNodesCreatedOnRhs → m < s.nodes.size :=
    fun m hm => ((A0.gen b br hb m).1 (Or.inl hm)).1
  have hT' : TemplOK env s br.lhsChange (env.body br.body v) := by rw [hlc]; exact hT v
  obtain ⟨loc, hbl, E⟩ := C3e.elabTemplate_elab (CN.entered_li e I hah hb) (C3e.entered_lk e _ v hb) A0 hdy htop hT' hrun
  have hval : (s.nodeD br.lhs).value = some v := by
    have hp : ∀ p i, ((CN.reset b s).nodeD br.lhs).kind ≠ .mapRef p i :=
      C3e.lhs_plain (s := s) A0 hb
    rw [value_plain env (CN.reset b s) br.lhs hp] at hv
    exact hv
  refine ⟨v, loc, hval, ?_, ?_⟩
  · rw [es']; exact hbl
  · rw [es']
    exact C3e.elabOf_congr (s := t) rfl (fun _ => rfl) E

end IncrVerif.Proofs.BindH
