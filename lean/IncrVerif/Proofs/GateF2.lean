import IncrVerif.Proofs.GateF1
import IncrVerif.Proofs.OnceF2
/-!
# C06, combined fragment, part 2: ONLY STALE NODES RUN — the drain

`drain_staleF`: from the drain invariant `FullH.DInvF` of the combined fragment, every node the drain hands to `recomputeOne` is STALE (the model's `State.isStale`,
in the ACTUAL state) at that moment.
* a node popped from the recompute heap was queued, hence stale (`BindH.DInv.qstale` of the virtual state, `virt_isStale`), and the pop changes `heightInRch` only;
* a node handed over for direct recomputation by the run of `n` is a recorded parent of `n`, and `n` has just been stamped `changedAt = stabNum`
  (`GateF.recomputeOne_handover`, syntactic); recorded parents are child edges (`BGraph.parent`), the handed-over node has not run in this round
  (`DInv.cur_facts`), so one of its children changed after it last ran.
-/
namespace IncrVerif.Proofs.GateF
open IncrVerif.Engine IncrVerif.Driver IncrVerif.Proofs IncrVerif.Proofs.Step IncrVerif.Proofs.Sched IncrVerif.Proofs.Quiet
open IncrVerif.Proofs.FullH IncrVerif.Proofs.TidyH
open IncrVerif.Proofs.BindH (DInv FrameB)

/-- a valid node one of whose children changed after the node last ran is stale (all kinds) -/
theorem isStale_of_child' {s : State} {m c : Nat} (hv : (s.nodeD m).valid = true) (hc : c ∈ s.children m)
    (h : (s.nodeD c).changedAt > (s.nodeD m).recomputedAt) : s.isStale m = true := by
  have hany : ((s.children m).any fun c => decide ((s.nodeD c).changedAt > (s.nodeD m).recomputedAt)) = true := by
    rw [List.any_eq_true]
    exact ⟨c, hc, by simpa using h⟩
  have hch : s.children m ≠ [] := List.ne_nil_of_mem hc
  unfold State.isStale
  simp only [hany, Node.kind?, hv, if_true, Bool.or_true]
  cases hkd : (s.nodeD m).kind <;> try rfl
  all_goals (exfalso; apply hch; unfold State.children Node.kind?; rw [hv, hkd]; rfl)

/-- `isStale` reads kinds, validity, the two stamps, the variables, the bind and the expert records -/
theorem isStale_congr' {s s' : State}
    (hn : ∀ m, (s'.nodeD m).kind = (s.nodeD m).kind ∧ (s'.nodeD m).valid = (s.nodeD m).valid ∧
      (s'.nodeD m).recomputedAt = (s.nodeD m).recomputedAt ∧ (s'.nodeD m).changedAt = (s.nodeD m).changedAt)
    (hx : s'.experts = s.experts) (hv : s'.vars = s.vars) (hb : s'.binds = s.binds) (m : Nat) :
    s'.isStale m = s.isStale m := by
  have hch : s'.children m = s.children m := by
    unfold State.children Node.kind?
    rw [(hn m).1, (hn m).2.1, hx, hb]
  have hfun : (fun c => decide ((s'.nodeD c).changedAt > (s.nodeD m).recomputedAt)) =
      fun c => decide ((s.nodeD c).changedAt > (s.nodeD m).recomputedAt) :=
    funext fun c => by rw [(hn c).2.2.2]
  unfold State.isStale Node.kind?
  simp only [hch, (hn m).1, (hn m).2.1, (hn m).2.2.1, hx, hv, hfun]

section
variable {env : Env} {sp : Nat → Val → Val}

/-- a node taken out of the recompute heap is stale -/
theorem pop_stale {t s s1 : State} {g : Nat → Option Val} {n : Nat} (D : DInvF env sp t s g none)
    (h : rchRemoveMin.run.run s = (.ok (some n), s1)) : s1.isStale n = true := by
  have hi := heapInv_of_virt D.inv.heap
  have hinv := rchRemoveMin_inv hi h
  simp only at hinv
  obtain ⟨hq, -, -, hs1, -⟩ := hinv
  have hst : s.isStale n = true := by
    rw [← virt_isStale (g := g)]
    apply D.inv.qstale
    rw [virt_nodeD, virtNode_inRch]
    exact hq
  have hnd : ∀ m, s1.nodeD m =
      if n = m ∧ m < s.nodes.size then { s.nodeD m with heightInRch := -1 } else s.nodeD m := by
    intro m; rw [hs1]; exact nodeD_modify _ n m _
  rw [← hst]
  refine isStale_congr' (fun m => ?_) (by rw [hs1]) (by rw [hs1]) (by rw [hs1]) n
  rw [hnd]
  split <;> exact ⟨rfl, rfl, rfl, rfl⟩

/-- the node handed over for direct recomputation is stale: its child `n` has just changed, and it has not run in this round -/
theorem handover_stale {t s1 : State} {g1 : Nat → Option Val} {n p : Nat} (D1 : DInvF env sp t s1 g1 (some p))
    (hc : (s1.nodeD n).changedAt = s1.stabNum) (hp : p ∈ (s1.nodeD n).parents.map (·.1)) : s1.isStale p = true := by
  obtain ⟨⟨p', i⟩, hmem, rfl⟩ := List.mem_map.1 hp
  have hpar : (p', i) ∈ ((virt g1 s1).nodeD n).parents := by
    rw [virt_nodeD, virtNode_parents]; exact hmem
  obtain ⟨-, hch⟩ := D1.inv.graph.parent n p' i hpar
  rw [virt_children] at hch
  have hcm : n ∈ s1.children p' := List.mem_of_getElem? hch
  obtain ⟨-, -, c3, -, c5⟩ := D1.inv.cur_facts
  rw [virt_nodeD, virtNode_valid] at c3
  rw [virt_nodeD, virtNode_recomputedAt] at c5
  have e3 : (virt g1 s1).stabNum = s1.stabNum := rfl
  rw [e3] at c5
  exact isStale_of_child' c3 hcm (by rw [hc]; exact c5)

/-- ONLY STALE NODES RUN, the direct-recompute chain -/
theorem chain_staleF (X : Kit env sp) : ∀ (fuel n : Nat) (t s s' : State) (g : Nat → Option Val),
    DInvF env sp t s g (some n) → s.isStale n = true → (recompute env fuel n).run.run s = (.ok (), s') →
    ∀ q, q ∈ chainSteps env fuel n s → q.2.isStale q.1 = true := by
  intro fuel
  induction fuel with
  | zero => intro n t s s' g _ _ h; unfold recompute at h; cases h
  | succ fuel ih =>
    intro n t s s' g D hst h
    unfold recompute at h
    obtain ⟨r, s1, h1, h2⟩ := bind_ok_inv h
    obtain ⟨g1, D1, -, -, -⟩ := recomputeOne_full X D h1
    unfold chainSteps
    rw [h1]
    cases r with
    | none =>
      intro q hq
      simp only [List.mem_singleton] at hq
      subst hq
      exact hst
    | some p =>
      obtain ⟨hc, hp⟩ := recomputeOne_handover env fuel n s p s1 h1
      have hst1 := handover_stale D1 hc hp
      intro q hq
      rcases List.mem_cons.1 hq with rfl | hq
      · exact hst
      · exact ih p t s1 s' g1 D1 hst1 h2 q hq

/-- **ONLY STALE NODES RUN, the drain of the combined fragment**: every node handed to `recomputeOne` is stale in the state in which it is handed over -/
theorem drain_staleF (X : Kit env sp) : ∀ (fuel : Nat) (t s s' : State) (g : Nat → Option Val),
    DInvF env sp t s g none → (drainHeap env fuel).run.run s = (.ok (), s') →
    ∀ q, q ∈ drainSteps env fuel s → q.2.isStale q.1 = true := by
  intro fuel
  induction fuel with
  | zero => intro t s s' g _ h; unfold drainHeap at h; cases h
  | succ fuel ih =>
    intro t s s' g D h
    unfold drainHeap at h
    obtain ⟨r, s1, h1, h2⟩ := bind_ok_inv h
    unfold drainSteps
    rw [h1]
    cases r with
    | none => intro q hq; cases hq
    | some n =>
      obtain ⟨u, s2, h3, h4⟩ := bind_ok_inv h2
      dsimp only
      rw [h3]
      dsimp only
      obtain ⟨D1, -⟩ := pop_full D h1
      have hst := pop_stale D h1
      obtain ⟨g2, D2, -⟩ := recompute_full X fuel n t s1 s2 g D1 h3
      intro q hq
      rcases List.mem_append.1 hq with hq | hq
      · exact chain_staleF X fuel n t s1 s2 g D1 hst h3 q hq
      · exact ih t s2 s' g2 D2 h4 q hq

end
end IncrVerif.Proofs.GateF
