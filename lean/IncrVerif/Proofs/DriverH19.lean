import IncrVerif.Proofs.DriverH18
namespace IncrVerif.Proofs.DriverH
open IncrVerif.Engine IncrVerif.Driver IncrVerif.Proofs IncrVerif.Proofs.Step IncrVerif.Proofs.Sched
open IncrVerif.Proofs.ExpertH IncrVerif.Proofs.ExpertH.QR IncrVerif.Proofs.EffH

/-- the node the expert operand of an effect names -/
def effX (t : State) : Effect → Option Nat
  | .xAdd eo _ _ => resOp t eo
  | .xRm eo _ => resOp t eo
  | .xSel eo _ _ _ => resOp t eo
  | .xStale eo => resOp t eo
  | _ => none

/-- what one legal effect of the driver `n` does -/
structure Step1 (E : Env) (n : Nat) (eff : Effect) (t t' : State) : Prop where
  mid : Mid E t'
  ef : ∃ x e, effX t eff = some x ∧ (t.nodeD x).kind = .expert e ∧ EF (fun e' => e' = e) t t'
  drv : ∀ m y, Drives t m y → Drives t' m y
  nec : t.isNecessary n = true → t'.isNecessary n = true

/-- one iteration of a `for` loop of the shape of `runEffects` -/
theorem cons_gen {α} (f : α → PUnit → M (ForInStep PUnit)) (R : List α → M Unit)
    (hR : ∀ l, R l = (forIn l PUnit.unit f >>= fun _ => pure ())) (a : α) (as : List α) :
    R (a :: as) = f a PUnit.unit >>= fun r => match r with | .done _ => pure () | .yield _ => R as := by
  rw [hR, hR, List.forIn_cons, bind_assoc]
  refine bind_congr fun r => ?_
  cases r with
  | done b => simp only [pure_bind]
  | yield b => rfl

theorem step_xAdd {env : Env} (hA : AddSpec (noEff env)) {fuel n : Nat} {eo co : Opnd} {cb : Bool} {es : List Effect}
    {arg : Int} {t s' : State} (M : Mid (noEff env) t) (ok : EffOK t n (.xAdd eo co cb))
    (h : (runEffects env fuel (.xAdd eo co cb :: es) arg).run.run t = (.ok (), s')) :
    ∃ t', (runEffects env fuel es arg).run.run t' = (.ok (), s') ∧ Step1 (noEff env) n (.xAdd eo co cb) t t' := by
  obtain ⟨x, c, hx, hc, hd, hps⟩ := ok
  have hcons := cons_gen _ (fun l => runEffects env fuel l arg) (fun l => rfl) (.xAdd eo co cb) es
  dsimp only at hcons
  rw [hcons] at h
  simp only [bind_assoc] at h
  rw [run_bind_ok (run_resolveOpnd hx), run_bind_ok (run_resolveOpnd hc)] at h
  obtain ⟨dep, t1, h1, h2⟩ := bind_ok_inv h
  have hd' := hd
  obtain ⟨hxl, e, er, hk, hr, -⟩ := hd'
  rw [← expertAddDependency_noEff] at h1
  obtain ⟨M1, ef1, hdep, hnd, ⟨er1, hr1, hch, hsc, hsl, -⟩, hnec⟩ :=
    hA fuel x c e cb t t1 dep er M hxl hk hr hps.1 (fun hb => hps.2 x hb e hk) h1
  have hk1 : (t1.nodeD x).kind = .expert e := (ef1.kind x).trans hk
  rw [run_bind_ok (run_expertIdxRaw (by rw [ef1.size]; exact hxl) hk1)] at h2
  simp only [bind_assoc, pure_bind] at h2
  rw [Xp.run_bind_modExpert er1 _ _ hr1] at h2
  have hs : SameBut er1 { er1 with script := er1.script ++ [dep] } := SameBut.script _ _
  refine ⟨_, h2, M1.put hr1 hs, ⟨x, e, hx, hk, ef1.trans (EF.put hr1 hs)⟩, ?_, fun hn => hnec n hn⟩
  refine drives_step (ef1.trans (EF.put hr1 hs)) ?_
  intro er0 hr0
  rw [hr] at hr0; cases hr0
  refine ⟨_, Xp.putExpert_get _ hr1, ?_⟩
  rintro ed ⟨p1, p2, p3, p4⟩
  refine ⟨?_, p2, ?_, ?_⟩
  · show ed ∈ er1.children
    rw [hch]; exact List.mem_append_left _ p1
  · show ed.dep ∉ er1.script ++ [dep]
    rw [hsc, hdep]
    intro hm
    rcases List.mem_append.1 hm with hm | hm
    · exact p3 hm
    · have := List.mem_singleton.1 hm; omega
  · show ∀ d c, er1.sel = some (d, c) → d ≠ ed.dep
    rw [hsl]; exact p4

theorem step_xStale {env : Env} (hS : StaleSpec (noEff env)) {fuel n : Nat} {eo : Opnd} {es : List Effect}
    {arg : Int} {t s' : State} (M : Mid (noEff env) t) (ok : EffOK t n (.xStale eo))
    (h : (runEffects env fuel (.xStale eo :: es) arg).run.run t = (.ok (), s')) :
    ∃ t', (runEffects env fuel es arg).run.run t' = (.ok (), s') ∧ Step1 (noEff env) n (.xStale eo) t t' := by
  obtain ⟨x, hx, hd⟩ := ok
  have hcons := cons_gen _ (fun l => runEffects env fuel l arg) (fun l => rfl) (.xStale eo) es
  dsimp only at hcons
  rw [hcons] at h
  simp only [bind_assoc] at h
  rw [run_bind_ok (run_resolveOpnd hx)] at h
  obtain ⟨u, t1, h1, h2⟩ := bind_ok_inv h
  have hd' := hd
  obtain ⟨hxl, e, er, hk, hr, -⟩ := hd'
  obtain ⟨M1, ef1, hnd, ⟨er1, hr1, hch, hsc, hsl, -⟩, hnec⟩ := hS x e t t1 er M hxl hk hr h1
  simp only [pure_bind] at h2
  refine ⟨_, h2, M1, ⟨x, e, hx, hk, ef1⟩, ?_, fun hn => by rw [hnec]; exact hn⟩
  refine drives_step ef1 ?_
  intro er0 hr0
  rw [hr] at hr0; cases hr0
  refine ⟨_, hr1, ?_⟩
  rintro ed ⟨p1, p2, p3, p4⟩
  exact ⟨by rw [hch]; exact p1, p2, by rw [hsc]; exact p3, by rw [hsl]; exact p4⟩

end IncrVerif.Proofs.DriverH
