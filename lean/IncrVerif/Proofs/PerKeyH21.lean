import IncrVerif.Proofs.PerKeyH18
/-! # twin simulation, part 5: the notification walk, part 1 (port of ExpertH27) -/
namespace IncrVerif.Proofs.PerKeyH
open IncrVerif.Engine IncrVerif.Driver IncrVerif.Proofs IncrVerif.Proofs.Step IncrVerif.Proofs.Sched
open IncrVerif.Proofs.ExpertH IncrVerif.Proofs.EffH

theorem TSim.shouldCutoff (env : Env) (n : Nat) (o v : Val) :
    TSim (Engine.shouldCutoff env n o v) (Engine.shouldCutoff (twEnv env) n o v) := by
  apply TSim.ofL; intro s l; unfold Engine.shouldCutoff; simp only [twEnv_cutoff]; tsim
  split <;> tsim
macro_rules | `(tactic| tsim_leaf) => `(tactic| with_reducible exact IncrVerif.Proofs.PerKeyH.TSim.shouldCutoff _ _ _ _)

/-- an expert parent runs its edge callback on both sides; there are no map_ref nodes -/
theorem TSim.childChanged (env : Env) (fuel p c ci : Nat) (o o' : Option Val) :
    TSim (Engine.childChanged env fuel p c ci o) (Engine.childChanged (twEnv env) fuel p c ci o') := by
  apply TSim.ofL; intro s l
  cases fuel with
  | zero => unfold Engine.childChanged; tsim
  | succ fuel =>
    unfold Engine.childChanged
    tsim
    tsim_kind
macro_rules | `(tactic| tsim_leaf) => `(tactic|
  with_reducible exact IncrVerif.Proofs.PerKeyH.TSim.childChanged _ _ _ _ _ _ _)

theorem TSim.parentIterCanRecomputeNow (p child : Nat) :
    TSim (Engine.parentIterCanRecomputeNow p child) (Engine.parentIterCanRecomputeNow p child) := by
  apply TSim.ofL; intro s l; unfold Engine.parentIterCanRecomputeNow; tsim
  tsim_kind
  all_goals exact TSimL.ret _
macro_rules | `(tactic| tsim_leaf) => `(tactic|
  with_reducible exact IncrVerif.Proofs.PerKeyH.TSim.parentIterCanRecomputeNow _ _)

end IncrVerif.Proofs.PerKeyH
