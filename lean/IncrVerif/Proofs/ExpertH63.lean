import IncrVerif.Proofs.ExpertH61
/-!
# Expert nodes, E2: `SlotInv` through the API actions outside `stabilise`

* `action_static_slots`: the static actions (node creation pushes a non-expert node: `CFX`; the others are neutral:
  `SR`/`FM`);
* `create_expert_slots`: `create (expert f)` (`CFX` again: a fresh record, flag up, no dependencies);
* `addDep_slots` is in `XS4b`.
-/
namespace IncrVerif.Proofs.ExpertH
open IncrVerif.Engine IncrVerif.Driver IncrVerif.Proofs IncrVerif.Proofs.Step IncrVerif.Proofs.Sched
open IncrVerif.Proofs.ExpertH.QR IncrVerif.Proofs.Xp

/-! ## `FM` for the remaining API functions -/

theorem PresM.getVar (v) : Step.Pres FM (Engine.getVar v) := Step.Pres.getVar v
theorem PresM.disallowFutureUse (o) : Step.Pres FM (Engine.disallowFutureUse o) := by
  unfold Engine.disallowFutureUse; qpres
fm_leaf PresM.disallowFutureUse
theorem PresM.didSetVarWhileNotStabilising (v) : Step.Pres FM (Engine.didSetVarWhileNotStabilising v) := by
  unfold Engine.didSetVarWhileNotStabilising; qpres
fm_leaf PresM.didSetVarWhileNotStabilising
theorem PresM.writeVar (v f b) : Step.Pres FM (Engine.writeVar v f b) := by
  unfold Engine.writeVar; qpres
fm_leaf PresM.writeVar
theorem PresM.dropVarHandle (v) : Step.Pres FM (Engine.dropVarHandle v) := by
  unfold Engine.dropVarHandle; qpres
fm_leaf PresM.dropVarHandle
theorem PresM.subscribe (o h) : Step.Pres FM (Engine.subscribe o h) := by
  unfold Engine.subscribe; qpres
fm_leaf PresM.subscribe
theorem PresM.unsubscribe (o t w) : Step.Pres FM (Engine.unsubscribe o t w) := by
  unfold Engine.unsubscribe; qpres
fm_leaf PresM.unsubscribe
theorem PresM.resolveOpnd (loc o) : Step.Pres FM (Engine.resolveOpnd loc o) := by
  unfold Engine.resolveOpnd; qpres
fm_leaf PresM.resolveOpnd
theorem PresM.setMaxHeightAllowed (k) : Step.Pres FM (Engine.setMaxHeightAllowed k) := by
  unfold Engine.setMaxHeightAllowed; qpres
fm_leaf PresM.setMaxHeightAllowed

theorem PresM.stepAction (env : Env) (a : Action) (tk : Array Nat) (h : XAct a) :
    Step.Pres FM (Engine.stepAction env a tk) := by
  unfold Engine.stepAction
  cases a <;> first | exact False.elim h | (dsimp only; qpres; done)

/-- every action but `create`, `addDep`, `stabilise` keeps `SlotInv` (returning or panicking) -/
theorem xact_slots {env : Env} {s s' : State} {a : Action} {tk : Array Nat} {r : Except Panic (String × Array Nat)}
    (L : SlotInv env s) (ha : XAct a) (h : (stepAction env a tk).run.run s = (r, s')) : SlotInv env s' :=
  slotInv_of_sr_fm L ((PresR.stepAction env a tk ha).h _ _ _ h) ((PresM.stepAction env a tk ha).h _ _ _ h)

/-! ## creation: the frame `CFX` -/

/-- nodes and records are only appended; a new expert node names a new record; a new record has its flag up and
neither dependencies nor slots -/
structure CFX (s s' : State) : Prop where
  size : s.nodes.size ≤ s'.nodes.size
  old : ∀ m, m < s.nodes.size → s'.nodeD m = s.nodeD m
  new : ∀ m e, s.nodes.size ≤ m → (s'.nodeD m).kind = .expert e → s.experts.size ≤ e
  xsize : s.experts.size ≤ s'.experts.size
  xold : ∀ e : Nat, e < s.experts.size → s'.experts[e]? = s.experts[e]?
  xnew : ∀ (e : Nat) (er : ExpertRec), s.experts.size ≤ e → s'.experts[e]? = some er →
    er.children = [] ∧ er.slots = [] ∧ er.willFireAllCallbacks = true
  nextDep : s'.nextDep = s.nextDep

theorem CFX.refl (s : State) : CFX s s := by
  refine ⟨Nat.le_refl _, fun _ _ => rfl, fun m e hm hk => ?_, Nat.le_refl _, fun _ _ => rfl,
    fun e er he h => ?_, rfl⟩
  · rw [nodeD_default_of_ge s m hm] at hk; cases hk
  · have := (Array.getElem?_eq_some_iff.1 h).1; omega

theorem CFX.trans {a b c : State} (h1 : CFX a b) (h2 : CFX b c) : CFX a c := by
  refine ⟨Nat.le_trans h1.size h2.size, fun m hm => ?_, fun m e hm hk => ?_, Nat.le_trans h1.xsize h2.xsize,
    fun e he => ?_, fun e er he h => ?_, h2.nextDep.trans h1.nextDep⟩
  · rw [h2.old m (Nat.lt_of_lt_of_le hm h1.size), h1.old m hm]
  · by_cases hb : m < b.nodes.size
    · rw [h2.old m hb] at hk; exact h1.new m e hm hk
    · exact Nat.le_trans h1.xsize (h2.new m e (by omega) hk)
  · rw [h2.xold e (Nat.lt_of_lt_of_le he h1.xsize), h1.xold e he]
  · by_cases hb : e < b.experts.size
    · rw [h2.xold e hb] at h; exact h1.xnew e er he h
    · exact h2.xnew e er (by omega) h
instance : Step.PreOrd CFX := ⟨CFX.refl, CFX.trans⟩

theorem CFX.of_nodes {s s' : State} (h1 : s'.nodes = s.nodes) (h2 : s'.experts = s.experts)
    (h3 : s'.nextDep = s.nextDep) : CFX s s' := by
  have hn : ∀ m, s'.nodeD m = s.nodeD m := fun m => by simp [State.nodeD, h1]
  refine ⟨by rw [h1]; exact Nat.le_refl _, fun m _ => hn m, fun m e hm hk => ?_, by rw [h2]; exact Nat.le_refl _,
    fun e _ => by rw [h2], fun e er he h => ?_, h3⟩
  · rw [hn, nodeD_default_of_ge s m hm] at hk; cases hk
  · rw [h2] at h; have := (Array.getElem?_eq_some_iff.1 h).1; omega

macro_rules
  | `(tactic| qleaf) =>
    `(tactic| ((with_reducible apply Step.Pres.modify); intro _; exact CFX.of_nodes rfl rfl rfl))

/-- one node pushed -/
theorem CFX.push {s s' : State} {nd : Node} (h1 : s'.nodes = s.nodes.push nd) (hne : ∀ e, nd.kind ≠ .expert e)
    (h2 : s'.experts = s.experts) (h3 : s'.nextDep = s.nextDep) : CFX s s' := by
  refine ⟨by rw [h1, Array.size_push]; omega, fun m hm => ?_, fun m e hm hk => ?_, by rw [h2]; exact Nat.le_refl _,
    fun e _ => by rw [h2], fun e er he h => ?_, h3⟩
  · simp only [State.nodeD, h1, Array.getElem?_push, if_neg (Nat.ne_of_lt hm)]
  · by_cases hm' : m = s.nodes.size
    · have : s'.nodeD m = nd := by
        simp only [State.nodeD, h1, Array.getElem?_push, hm', if_true, Option.getD_some]
      rw [this] at hk; exact absurd hk (hne e)
    · have : s'.nodeD m = default := by
        apply nodeD_default_of_ge; rw [h1, Array.size_push]; omega
      rw [this] at hk; cases hk
  · rw [h2] at h; have := (Array.getElem?_eq_some_iff.1 h).1; omega

theorem PresCF.createNode (k : Kind) (sc : Scope) (c : CutoffK) (hne : ∀ e, k ≠ .expert e) :
    Step.Pres CFX (Engine.createNode k sc c) := by
  constructor
  intro s r s' h
  rw [run_createNode] at h
  cases h
  refine CFX.push (crState_nodes k sc c s) hne (crState_experts k sc c s) ?_
  unfold crState; cases sc <;> rfl
macro_rules
  | `(tactic| qleaf) => `(tactic| ((with_reducible apply PresCF.createNode); intro _ h; cases h))

theorem PresCF.resolveOpnd (loc o) : Step.Pres CFX (Engine.resolveOpnd loc o) := by
  unfold Engine.resolveOpnd; qpres
macro_rules | `(tactic| qleaf) => `(tactic| with_reducible apply PresCF.resolveOpnd)
theorem PresCF.isConstant (n) : Step.Pres CFX (Engine.isConstant n) := by unfold Engine.isConstant; qpres
macro_rules | `(tactic| qleaf) => `(tactic| with_reducible apply PresCF.isConstant)
theorem PresCF.createVar (v sc) : Step.Pres CFX (Engine.createVar v sc) := by unfold Engine.createVar; qpres
macro_rules | `(tactic| qleaf) => `(tactic| with_reducible apply PresCF.createVar)

theorem PresCF.elabInstr {i : Instr} (hi : XInstr i) : Step.Pres CFX (Engine.elabInstr [] .unit i) := by
  unfold Engine.elabInstr
  cases i <;> first | exact hi.elim | (dsimp only; qpres; done)

theorem PresCF.create (env : Env) {i : Instr} (tk : Array Nat) (hi : XInstr i) :
    Step.Pres CFX (Engine.stepAction env (.create i) tk) := by
  unfold Engine.stepAction
  dsimp only
  rw [elabInstrM_eq _ _ _ hi]
  have := PresCF.elabInstr hi
  qpres
  exact this

/-- the state after `create (expert f)` -/
theorem cfx_xCreated (f : Nat) (s : State) : CFX s (xCreated f s) := by
  have hsz : (xCreated f s).nodes.size = s.nodes.size + 1 := by simp [xCreated]
  refine ⟨by rw [hsz]; omega, fun m hm => ?_, fun m e hm hk => ?_, by simp [xCreated], fun e he => ?_,
    fun e er he h => ?_, rfl⟩
  · simp only [State.nodeD, xCreated, Array.getElem?_push, if_neg (Nat.ne_of_lt hm)]
  · by_cases hm' : m = s.nodes.size
    · have : (xCreated f s).nodeD m = { kind := .expert s.experts.size, createdIn := .top, cutoff := .eq } := by
        simp only [State.nodeD, xCreated, Array.getElem?_push, hm', if_true, Option.getD_some]
      rw [this] at hk
      cases hk; exact Nat.le_refl _
    · have : (xCreated f s).nodeD m = default := by
        apply nodeD_default_of_ge; rw [hsz]; omega
      rw [this] at hk; cases hk
  · simp only [xCreated, Array.getElem?_push, if_neg (Nat.ne_of_lt he)]
  · simp only [xCreated, Array.getElem?_push] at h
    split at h
    · cases h; exact ⟨rfl, rfl, rfl⟩
    · have := (Array.getElem?_eq_some_iff.1 h).1; omega

/-! ## `SlotInv` along `CFX` -/

theorem isStale_expert_congr' {s s' : State} {n e : Nat} {er : ExpertRec}
    (hn : s'.nodeD n = s.nodeD n) (hk : (s.nodeD n).kind = .expert e)
    (he : s.experts[e]? = some er) (he' : s'.experts[e]? = some er)
    (hc : ∀ ed, ed ∈ er.children → s'.nodeD ed.child = s.nodeD ed.child) : s'.isStale n = s.isStale n := by
  unfold State.isStale State.children
  simp only [hn]
  cases hv : (s.nodeD n).valid with
  | false => simp [Node.kind?, hv]
  | true =>
    have : (s.nodeD n).kind? = some (.expert e) := by simp [Node.kind?, hv, hk]
    simp only [this, he, he']
    have hany : ∀ l : List ExpertEdge, (∀ ed, ed ∈ l → s'.nodeD ed.child = s.nodeD ed.child) →
        (l.map (·.child)).any (fun c => decide ((s'.nodeD c).changedAt > (s.nodeD n).recomputedAt)) =
        (l.map (·.child)).any (fun c => decide ((s.nodeD c).changedAt > (s.nodeD n).recomputedAt)) := by
      intro l
      induction l with
      | nil => intro _; rfl
      | cons a l ih =>
        intro h
        simp only [List.map_cons, List.any_cons]
        rw [h a List.mem_cons_self, ih (fun ed hed => h ed (List.mem_cons_of_mem _ hed))]
    rw [hany er.children hc]

theorem CFX.slotInv {env : Env} {s s' : State} (L : SlotInv env s) (C : CFX s s')
    (hx : ∀ n e, (s.nodeD n).kind = .expert e → e < s.experts.size)
    (hkids : ∀ n e er, (s.nodeD n).kind = .expert e → s.experts[e]? = some er →
      ∀ ed, ed ∈ er.children → ed.child < s.nodes.size)
    (hmr : ∀ m p i, (s.nodeD m).kind ≠ .mapRef p i) : SlotInv env s' := by
  -- an expert node of `s'` with its record: old node and old record, or a fresh record
  have key : ∀ n e er', (s'.nodeD n).kind = .expert e → s'.experts[e]? = some er' →
      (n < s.nodes.size ∧ s'.nodeD n = s.nodeD n ∧ (s.nodeD n).kind = .expert e ∧ s.experts[e]? = some er') ∨
      (er'.children = [] ∧ er'.willFireAllCallbacks = true) := by
    intro n e er' hk he
    by_cases hn : n < s.nodes.size
    · have hk0 : (s.nodeD n).kind = .expert e := by rw [← C.old n hn]; exact hk
      have := C.xold e (hx n e hk0)
      exact Or.inl ⟨hn, C.old n hn, hk0, by rw [← this]; exact he⟩
    · have := C.xnew e er' (C.new n e (by omega) hk) he
      exact Or.inr ⟨this.1, this.2.2⟩
  refine ⟨fun e er' he => ?_, fun n e er' hk he hw => ?_, fun n e er' hk he hpre => ?_⟩
  · by_cases hlt : e < s.experts.size
    · rw [C.xold e hlt] at he; rw [C.nextDep]; exact L.deps e er' he
    · obtain ⟨h1, h2, -⟩ := C.xnew e er' (by omega) he
      rw [h1, h2]
      refine ⟨List.nodup_nil, ?_, ?_⟩ <;> intro _ h <;> cases h
  · rcases key n e er' hk he with ⟨-, hn, hk0, he0⟩ | ⟨-, hf⟩
    · have := L.flag n e er' hk0 he0 hw
      simp only [State.isNecessary, hn] at this ⊢; exact this
    · rw [hf] at hw; cases hw
  · rcases key n e er' hk he with ⟨hlt, hn, hk0, he0⟩ | ⟨hc, -⟩
    · have hkid := hkids n e er' hk0 he0
      have hst : s'.isStale n = s.isStale n :=
        isStale_expert_congr' hn hk0 he0 he fun ed hed => C.old _ (hkid ed hed)
      rw [hst] at hpre
      intro ed hed hcb
      have hnd := C.old _ (hkid ed hed)
      rw [L.good n e er' hk0 he0 hpre ed hed hcb, value_plain env s _ (hmr _), value_plain env s' _ (by
        rw [hnd]; exact hmr _), hnd]
    · intro ed hed; rw [hc] at hed; cases hed

/-- the facts of the fragment that the creation frame needs -/
theorem qinvX_expert_facts {env : Env} {rk : Nat → Nat} {s : State} (Q : QInvX env rk s) :
    (∀ n e, (s.nodeD n).kind = .expert e → e < s.experts.size) ∧
    (∀ n e er, (s.nodeD n).kind = .expert e → s.experts[e]? = some er →
      ∀ ed, ed ∈ er.children → ed.child < s.nodes.size) ∧
    (∀ m p i, (s.nodeD m).kind ≠ .mapRef p i) := by
  refine ⟨fun n e hk => ?_, fun n e er hk he ed hed => ?_, Q.frag.noMapRef⟩
  · obtain ⟨er, h, -⟩ := Q.frag.xrec n e (Q.frag.lt_of_expert hk) hk
    exact (Array.getElem?_eq_some_iff.1 h).1
  · have R := rankOK_of_allStatic Q.q.struct.static
    refine R.kidsIn n (Q.frag.lt_of_expert hk) ed.child ?_
    rw [hk]; simp only [kidsX, xRec_some he]
    exact List.mem_map_of_mem hed

/-- **the static API actions keep `SlotInv`** -/
theorem action_static_slots {env : Env} {rk : Nat → Nat} {s s' : State} {a : Action} {tk : Array Nat}
    {r : String × Array Nat} (Q : QInvX env rk s) (L : SlotInv env s) (ha : XStaticAction env a)
    (h : (stepAction env a tk).run.run s = (.ok r, s')) : SlotInv env s' := by
  by_cases hc : ∃ i, a = .create i
  · obtain ⟨i, rfl⟩ := hc
    obtain ⟨h1, h2, h3⟩ := qinvX_expert_facts Q
    exact CFX.slotInv L ((PresCF.create env tk (XStaticInstr.xinstr ha)).h _ _ _ h) h1 h2 h3
  · exact xact_slots L (ha.xact fun i e => hc ⟨i, e⟩) h

/-- **`create (expert f)` keeps `SlotInv`** -/
theorem create_expert_slots {env : Env} {rk : Nat → Nat} {f : Nat} {tk : Array Nat} {s s' : State}
    {r : String × Array Nat} (Q : QInvX env rk s) (L : SlotInv env s)
    (h : (stepAction env (.create (.expert f)) tk).run.run s = (.ok r, s')) : SlotInv env s' := by
  have hsc : s.currentScope = .top := Q.q.struct.static.scope
  rw [step_create_expert_inv hsc h]
  obtain ⟨h1, h2, h3⟩ := qinvX_expert_facts Q
  exact CFX.slotInv L (cfx_xCreated f s) h1 h2 h3

end IncrVerif.Proofs.ExpertH
