import IncrVerif.Proofs.ExpertH60
/-!
# Expert nodes, E2: threading `SlotInv` — the linking cascade, `add_new_observers`, `state_add_parent`

`PresM.*`: the ladder of `FM` (flags unchanged, necessity grows) for the neutral steps and the linking cascade.
`CR env`: `SR env ∧ FM` for runs started with all nodes valid and nothing waiting in `propagateInvalidity`.
-/
namespace IncrVerif.Proofs.ExpertH
open IncrVerif.Engine IncrVerif.Driver IncrVerif.Proofs IncrVerif.Proofs.Step IncrVerif.Proofs.Sched
open IncrVerif.Proofs.ExpertH.QR IncrVerif.Proofs.Xp

/-! ## `FM` -/

theorem PresM.modNode (n : Nat) (f : Node → Node)
    (hf : ∀ x, (f x).kind = x.kind ∧ (f x).valid = x.valid ∧ (x.isNecessary = true → (f x).isNecessary = true)) :
    Step.Pres FM (Engine.modNode n f) := by
  unfold Engine.modNode; exact Step.Pres.modify fun s => FM.modNode s n f hf

theorem PresM.modExpert (e : Nat) (f : ExpertRec → ExpertRec)
    (hf : ∀ x, (f x).willFireAllCallbacks = x.willFireAllCallbacks) : Step.Pres FM (Engine.modExpert e f) := by
  unfold Engine.modExpert; exact Step.Pres.modify fun s => FM.modExpert s e f hf

macro_rules
  | `(tactic| qleaf) =>
    `(tactic| ((with_reducible apply Step.Pres.modify); intro _; exact FM.of_nodes rfl rfl rfl))
macro_rules
  | `(tactic| qleaf) => `(tactic| ((with_reducible apply PresM.modNode); intro _; exact ⟨rfl, rfl, fun h => h⟩))
macro_rules
  | `(tactic| qleaf) => `(tactic| ((with_reducible apply PresM.modExpert); intro _; rfl))

macro "fm_leaf " n:ident : command =>
  `(macro_rules | `(tactic| qleaf) => `(tactic| with_reducible apply $n))

theorem PresM.discard {α} {x : M α} (h : Step.Pres FM x) : Step.Pres FM (discard x) := by
  unfold Functor.discard; exact Step.Pres.map _ h
fm_leaf PresM.discard
theorem PresM.logEv (e) : Step.Pres FM (Engine.logEv e) := by unfold Engine.logEv; qpres
fm_leaf PresM.logEv
theorem PresM.tick : Step.Pres FM Engine.tick := by unfold Engine.tick; qpres
fm_leaf PresM.tick
theorem PresM.bumpCounter (f) : Step.Pres FM (Engine.bumpCounter f) := by unfold Engine.bumpCounter; qpres
fm_leaf PresM.bumpCounter
theorem PresM.modObs (o f) : Step.Pres FM (Engine.modObs o f) := by unfold Engine.modObs; qpres
fm_leaf PresM.modObs
theorem PresM.modVar (v f) : Step.Pres FM (Engine.modVar v f) := by unfold Engine.modVar; qpres
fm_leaf PresM.modVar
theorem PresM.getObs (o) : Step.Pres FM (Engine.getObs o) := by unfold Engine.getObs; qpres
fm_leaf PresM.getObs

theorem PresM.addParent (c i p) : Step.Pres FM (Engine.addParent c i p) := by
  unfold Engine.addParent
  refine PresM.modNode _ _ fun x => ⟨rfl, rfl, fun _ => ?_⟩
  simp [Node.isNecessary]
fm_leaf PresM.addParent
theorem PresM.setHeight (n h) : Step.Pres FM (Engine.setHeight n h) := by unfold Engine.setHeight; qpres
fm_leaf PresM.setHeight
theorem PresM.rchLink (n) : Step.Pres FM (Engine.rchLink n) := by unfold Engine.rchLink; qpres
fm_leaf PresM.rchLink
theorem PresM.rchUnlink (n) : Step.Pres FM (Engine.rchUnlink n) := by unfold Engine.rchUnlink; qpres
fm_leaf PresM.rchUnlink
theorem PresM.rchInsert (n) : Step.Pres FM (Engine.rchInsert n) := by unfold Engine.rchInsert; qpres
fm_leaf PresM.rchInsert
theorem PresM.rchIncreaseHeight (n) : Step.Pres FM (Engine.rchIncreaseHeight n) := by
  unfold Engine.rchIncreaseHeight; qpres
fm_leaf PresM.rchIncreaseHeight
theorem PresM.ahhAddUnlessMem (n) : Step.Pres FM (Engine.ahhAddUnlessMem n) := by
  unfold Engine.ahhAddUnlessMem; qpres
fm_leaf PresM.ahhAddUnlessMem
theorem PresM.ahhRemoveMin : Step.Pres FM Engine.ahhRemoveMin := by unfold Engine.ahhRemoveMin; qpres
fm_leaf PresM.ahhRemoveMin
theorem PresM.ensureHeightRequirement (oc op c p) : Step.Pres FM (Engine.ensureHeightRequirement oc op c p) := by
  unfold Engine.ensureHeightRequirement; qpres
fm_leaf PresM.ensureHeightRequirement

theorem PresM.adjustHeightsLoop (oc op fuel) : Step.Pres FM (Engine.adjustHeightsLoop oc op fuel) := by
  induction fuel with
  | zero => unfold Engine.adjustHeightsLoop; qpres
  | succ fuel ih =>
    unfold Engine.adjustHeightsLoop
    qpres
    all_goals first
      | exact ih
      | (apply Step.Pres.forIn; intro a b; qpres)
fm_leaf PresM.adjustHeightsLoop
theorem PresM.adjustHeights (oc op fuel) : Step.Pres FM (Engine.adjustHeights oc op fuel) := by
  unfold Engine.adjustHeights; qpres
fm_leaf PresM.adjustHeights

theorem PresM.scopeHeight (sc) : Step.Pres FM (Engine.scopeHeight sc) := Step.Pres.scopeHeight sc
theorem PresM.scopeIsNecessary (sc) : Step.Pres FM (Engine.scopeIsNecessary sc) := by
  unfold Engine.scopeIsNecessary; qpres
fm_leaf PresM.scopeIsNecessary
theorem PresM.handleAfterStabilisation (n) : Step.Pres FM (Engine.handleAfterStabilisation n) := by
  unfold Engine.handleAfterStabilisation; qpres
fm_leaf PresM.handleAfterStabilisation
theorem PresM.maybeHandleAfterStabilisation (n) : Step.Pres FM (Engine.maybeHandleAfterStabilisation n) := by
  unfold Engine.maybeHandleAfterStabilisation; qpres
fm_leaf PresM.maybeHandleAfterStabilisation
theorem PresM.edgeOnChange (env e edge) : Step.Pres FM (Engine.edgeOnChange env e edge) := by
  unfold Engine.edgeOnChange; qpres
fm_leaf PresM.edgeOnChange
theorem PresM.runEdgeCallback (env e i) : Step.Pres FM (Engine.runEdgeCallback env e i) := by
  unfold Engine.runEdgeCallback; qpres
fm_leaf PresM.runEdgeCallback

/-- becoming observable leaves the record alone -/
theorem PresM.observabilityChange_true (e) : Step.Pres FM (Engine.observabilityChange e true) := by
  unfold Engine.observabilityChange
  simp only [Bool.not_true, Bool.false_eq_true, if_false]
  qpres
fm_leaf PresM.observabilityChange_true

theorem PresM.markMapRefUnknown (fuel n) : Step.Pres FM (Engine.markMapRefUnknown fuel n) := by
  induction fuel generalizing n with
  | zero => unfold Engine.markMapRefUnknown; qpres
  | succ fuel ih =>
    unfold Engine.markMapRefUnknown
    qpres
    all_goals (apply Step.Pres.forIn; intro a b; qpres; all_goals exact ih _)
fm_leaf PresM.markMapRefUnknown

/-- `add_parent_without_adjusting_heights` queues the parent of an INVALID child only -/
theorem PresM.pushInvalid {β} (c p : Nat) (rest : M β) (h : Step.Pres FM rest) :
    Step.Pres FM (getNode c >>= fun a =>
      if (!a.valid) = true then
        (modify fun s => { s with propagateInvalidity := p :: s.propagateInvalidity }) >>= fun _ => rest
      else rest) := by
  constructor
  intro s r s' hrun
  rw [run_bind, run_getNode] at hrun
  cases hn : s.nodes[c]? with
  | none => rw [hn] at hrun; cases hrun; exact FM.refl s
  | some nd =>
    rw [hn] at hrun
    simp only at hrun
    cases hv : nd.valid with
    | true =>
      rw [hv] at hrun
      simp only [Bool.not_true, Bool.false_eq_true, if_false] at hrun
      exact h.h _ _ _ hrun
    | false =>
      rw [hv] at hrun
      simp only [Bool.not_false, if_true, run_bind_modify] at hrun
      refine FM.trans ?_ (h.h _ _ _ hrun)
      refine ⟨fun _ => rfl, fun _ => rfl, fun _ => rfl, fun _ h => h, fun hall => ?_⟩
      have := hall c
      rw [nodeD_of_some hn, hv] at this
      cases this

set_option maxHeartbeats 1000000 in
theorem PresM.link (env : Env) (fuel : Nat) :
    (∀ n, Step.Pres FM (Engine.becameNecessary env fuel n)) ∧
    (∀ c i p, Step.Pres FM (Engine.addParentWithoutAdjustingHeights env fuel c i p)) := by
  induction fuel with
  | zero =>
    constructor
    · intro n; unfold Engine.becameNecessary; qpres
    · intro c i p; unfold Engine.addParentWithoutAdjustingHeights; qpres
  | succ fuel ih =>
    constructor
    · intro n
      unfold Engine.becameNecessary
      qpres
      all_goals (apply Step.Pres.forIn; intro a b; qpres; all_goals exact ih.2 _ _ _)
    · intro c i p
      unfold Engine.addParentWithoutAdjustingHeights
      refine Step.Pres.bind Step.Pres.get fun _ => Step.Pres.bind (Step.Pres.dassert _ _) fun _ =>
        Step.Pres.bind Step.Pres.get fun _ => ?_
      dsimp only
      refine Step.Pres.bind (PresM.addParent c i p) fun _ => ?_
      refine PresM.pushInvalid c p _ ?_
      qpres
      all_goals exact ih.1 _

theorem PresM.becameNecessary (env fuel n) : Step.Pres FM (Engine.becameNecessary env fuel n) :=
  (PresM.link env fuel).1 n
fm_leaf PresM.becameNecessary
theorem PresM.addParentWithoutAdjustingHeights (env fuel c i p) :
    Step.Pres FM (Engine.addParentWithoutAdjustingHeights env fuel c i p) :=
  (PresM.link env fuel).2 c i p
fm_leaf PresM.addParentWithoutAdjustingHeights

/-! ## `CR`: both frames, from a state without invalid nodes and without pending invalidations -/

def CR (env : Env) (s s' : State) : Prop :=
  (∀ m, (s.nodeD m).valid = true) → s.propagateInvalidity = [] → SR env s s' ∧ FM s s'

instance (env : Env) : Step.PreOrd (CR env) where
  refl s := fun _ _ => ⟨SR.refl env s, FM.refl s⟩
  trans h1 h2 := fun hv hp => by
    obtain ⟨r1, m1⟩ := h1 hv hp
    obtain ⟨r2, m2⟩ := h2 (r1.allValid hv) (by rw [m1.pinv hv]; exact hp)
    exact ⟨r1.trans r2, m1.trans m2⟩

theorem PresC.of {env : Env} {α} {m : M α} (h1 : Step.Pres (SR env) m) (h2 : Step.Pres FM m) :
    Step.Pres (CR env) m :=
  ⟨fun s r s' h _ _ => ⟨h1.h s r s' h, h2.h s r s' h⟩⟩

macro_rules
  | `(tactic| qleaf) => `(tactic| ((with_reducible apply PresC.of) <;> qleaf))

theorem PresC.propagateInvalidity (env : Env) (fuel : Nat) : Step.Pres (CR env) (Engine.propagateInvalidity fuel) := by
  constructor
  intro s r s' h _ hp
  cases fuel with
  | zero => unfold Engine.propagateInvalidity at h; cases h; exact ⟨SR.refl env s, FM.refl s⟩
  | succ fuel =>
    rw [ExpertH.propagateInvalidity_nil fuel hp] at h
    cases h; exact ⟨SR.refl env s, FM.refl s⟩
macro_rules
  | `(tactic| qleaf) => `(tactic| with_reducible apply PresC.propagateInvalidity)

theorem PresC.becameNecessaryPropagate (env fuel n) :
    Step.Pres (CR env) (Engine.becameNecessaryPropagate env fuel n) := by
  unfold Engine.becameNecessaryPropagate; qpres
macro_rules
  | `(tactic| qleaf) => `(tactic| with_reducible apply PresC.becameNecessaryPropagate)

theorem PresC.stateAddParent (env fuel c i p) : Step.Pres (CR env) (Engine.stateAddParent env fuel c i p) := by
  unfold Engine.stateAddParent; qpres

/-- adding an observer keeps the node necessary -/
theorem PresM.addObserver (n o : Nat) (k : Nat) : Step.Pres FM (Engine.modNode n fun x => { x with
    observers := x.observers ++ [o], numOnUpdateHandlers := x.numOnUpdateHandlers + k }) := by
  refine PresM.modNode _ _ fun x => ⟨rfl, rfl, fun _ => ?_⟩
  simp [Node.isNecessary]
fm_leaf PresM.addObserver

theorem PresC.addNewObservers (env fuel) : Step.Pres (CR env) (Engine.addNewObservers env fuel) := by
  unfold Engine.addNewObservers
  qpres
  all_goals (apply Step.Pres.forIn; intro a b; qpres)

/-! ## `SlotInv` along `CR` -/

theorem slotInvEx_of_cr {env : Env} {s s' : State} {X : Nat → Nat → Prop} (L : SlotInvEx env s X)
    (hv : ∀ m, (s.nodeD m).valid = true) (hp : s.propagateInvalidity = []) (R : CR env s s') :
    SlotInvEx env s' X :=
  slotInvEx_of_sr_fm L (R hv hp).1 (R hv hp).2

theorem slotInv_of_cr {env : Env} {s s' : State} (L : SlotInv env s)
    (hv : ∀ m, (s.nodeD m).valid = true) (hp : s.propagateInvalidity = []) (R : CR env s s') : SlotInv env s' :=
  slotInv_of_sr_fm L (R hv hp).1 (R hv hp).2

/-- **`add_new_observers` keeps `SlotInv`** (every node valid, nothing waiting in `propagateInvalidity`) -/
theorem addNewObservers_slots {env : Env} {fuel : Nat} {s s' : State} {r : Except Panic Unit}
    (hv : ∀ m, (s.nodeD m).valid = true) (hp : s.propagateInvalidity = []) (L : SlotInv env s)
    (h : (addNewObservers env fuel).run.run s = (r, s')) : SlotInv env s' :=
  slotInv_of_cr L hv hp ((PresC.addNewObservers env fuel).h _ _ _ h)

end IncrVerif.Proofs.ExpertH
