import IncrVerif.Proofs.MapOld28
/-!
# C15 for whole histories of programs built with the `mapOp` instruction (definitions tables of the history language)

A history is decomposed as: a prefix `pre`; the creation of the operator over top-level operand(s) that are variables;
arbitrary further actions `mid`; a `stabilise`.  After that `stabilise` every in-use observer of the operator's output
node reads the operator's non-incremental definition applied to the CURRENT value(s) of the variable(s).
-/
namespace IncrVerif.Proofs.MapOldH
open IncrVerif IncrVerif.Engine IncrVerif.Driver IncrVerif.MapOps IncrVerif.Proofs IncrVerif.Proofs.Step IncrVerif.Proofs.Sched IncrVerif.Proofs.Quiet

variable {d : Defs}

/-- the actions of the fragment for a definitions table -/
def DAction (d : Defs) (a : Action) : Prop := WAction d.toEnv Canon (machSpec d) a

/-- the invariant for a definitions table -/
def DInv (d : Defs) (s : State) : Prop := QInvW d.toEnv Canon (machSpec d) s

theorem kind_lt {s : State} {n : Nat} {k : Kind} (h : (s.nodeD n).kind = k) (hk : ∀ v, k ≠ .const v) :
    n < s.nodes.size := by
  by_cases hn : n < s.nodes.size
  · exact hn
  · rw [nodeD_default_of_ge s n (by omega)] at h
    exact absurd h.symm (hk _)

/-- the common part: from the state `s1` in which the operator exists to a later state `s2` after a `stabilise` -/
theorem unary_reads_later {s1 s2 : State} {out g x c o : Nat} {ob : ObsRec} {vc : VarCell}
    (Q1 : DInv d s1) (U : UnaryOp s1 out g x) (hx : (s1.nodeD x).kind = .var c)
    (K : KindsKept s1 s2) (R : ReadsOKW d.toEnv (machSpec d) s2)
    (ho : s2.observers[o]? = some ob) (hu : ob.state = .inUse) (hon : ob.node = out)
    (hc : s2.vars[c]? = some vc) : s2.tryGetValue d.toEnv o = .ok (machSpec d g vc.value) := by
  have hout : out < s1.nodes.size := by
    obtain ⟨o', ho', -⟩ := U.conv2
    exact kind_lt ho' (fun v h => by cases h)
  have hxl : x < s1.nodes.size := kind_lt hx (fun v h => by cases h)
  have U2 : UnaryOp s2 ob.node g x := by rw [hon]; exact U.kept K hout Q1.frag.back
  exact reads_unary_var R ho hu U2 (by rw [K.kind x hxl]; exact hx) hc

theorem merge_reads_later {s1 s2 : State} {out g x y cx cy o : Nat} {ob : ObsRec} {vx vy : VarCell}
    (Q1 : DInv d s1) (U : MergeOp s1 out g x y) (hx : (s1.nodeD x).kind = .var cx) (hy : (s1.nodeD y).kind = .var cy)
    (K : KindsKept s1 s2) (R : ReadsOKW d.toEnv (machSpec d) s2)
    (ho : s2.observers[o]? = some ob) (hu : ob.state = .inUse) (hon : ob.node = out)
    (hcx : s2.vars[cx]? = some vx) (hcy : s2.vars[cy]? = some vy) :
    s2.tryGetValue d.toEnv o = .ok (machSpec d g (.pair vx.value vy.value)) := by
  have hout : out < s1.nodes.size := by
    obtain ⟨o', ho', -⟩ := U.pat
    exact kind_lt ho' (fun v h => by cases h)
  have hxl : x < s1.nodes.size := kind_lt hx (fun v h => by cases h)
  have hyl : y < s1.nodes.size := kind_lt hy (fun v h => by cases h)
  have U2 : MergeOp s2 ob.node g x y := by rw [hon]; exact U.kept K hout Q1.frag.back
  exact reads_merge_var R ho hu U2 (by rw [K.kind x hxl]; exact hx) (by rw [K.kind y hyl]; exact hy) hcx hcy

/-- what a history `pre`, creation `cr`, `mid`, `stabilise` gives: the invariant after the creation, kinds kept from
there to the state after the `stabilise`, and the reads there -/
theorem history_split {N : Nat} {dbg : Bool} {pre mid : List Action} {cr : Action} {s0 s1 sm s2 : State}
    {tk0 tkm : Array Nat} {r1 : String × Array Nat}
    (hpre : ∀ a, a ∈ pre → DAction d a) (hcr : DAction d cr) (hmid : ∀ a, a ∈ mid → DAction d a)
    (h0 : runActions d.toEnv pre (State.init N dbg) #[] = .ok (s0, tk0))
    (h1 : (stepAction d.toEnv cr tk0).run.run s0 = (.ok r1, s1))
    (h2 : runActions d.toEnv mid s1 r1.2 = .ok (sm, tkm))
    (h3 : (stabilise d.toEnv fuelDefault).run.run sm = (.ok (), s2)) :
    DInv d s0 ∧ DInv d s1 ∧ KindsKept s0 s1 ∧ KindsKept s1 s2 ∧ ReadsOKW d.toEnv (machSpec d) s2 ∧ DInv d s2 := by
  have V := valOK_toEnv d
  have Q0 : DInv d s0 := historyW V hpre h0
  have Q1 : DInv d s1 := stepW V Q0 hcr h1
  have Qm : DInv d sm := runActionsW V Q1 hmid h2
  have R := stabiliseW V Qm h3
  have Km := runActions_kinds V Q1 hmid h2
  have K3 : KindsKept sm s2 := step_kinds (a := .stabilise) (tk := tkm) V Qm trivial (step_stabilise_run h3)
  exact ⟨Q0, Q1, step_kinds V Q0 hcr h1, Km.trans K3, (stabilisedW_reads R).1, R.inv⟩

theorem machSpec_op (d : Defs) {g : Nat} (hg : opBase ≤ g) : machSpec d g = opSpec d g := by
  unfold machSpec; rw [if_pos hg]

section unary
variable {N : Nat} {dbg : Bool} {pre mid : List Action} {s0 s1 sm s2 : State} {tk0 tkm : Array Nat}
  {r1 : String × Array Nat} {m k x c o : Nat} {ob : ObsRec} {vc : VarCell}

/-- **C15, `incr_filter_mapi`, whole histories.** -/
theorem fm_history_reads (hm : m < 100000)
    (hpre : ∀ a, a ∈ pre → DAction d a) (hmid : ∀ a, a ∈ mid → DAction d a)
    (h0 : runActions d.toEnv pre (State.init N dbg) #[] = .ok (s0, tk0))
    (hk : s0.top[k]? = some x) (hx : (s0.nodeD x).kind = .var c)
    (h1 : (stepAction d.toEnv (.create (.mapOp (.fm m (.outer k)))) tk0).run.run s0 = (.ok r1, s1))
    (h2 : runActions d.toEnv mid s1 r1.2 = .ok (sm, tkm))
    (h3 : (stabilise d.toEnv fuelDefault).run.run sm = (.ok (), s2))
    (ho : s2.observers[o]? = some ob) (hu : ob.state = .inUse) (hon : ob.node = s0.nodes.size + 2)
    (hc : s2.vars[c]? = some vc) :
    s2.tryGetValue d.toEnv o = .ok (.map (filterMapSpec (opFmFn (d.opParams m)) (asMap vc.value))) := by
  have hcr : DAction d (.create (.mapOp (.fm m (.outer k)))) :=
    ⟨Or.inr ⟨Nat.le_add_right .., by show opBase + m < _; omega⟩, machGood d _ (Or.inl (Nat.le_add_right ..)),
      fun a ha => by simp only [opOpnds, List.mem_cons, List.mem_nil_iff, or_false] at ha; rw [ha]; trivial⟩
  obtain ⟨Q0, Q1, K01, K12, R, -⟩ := history_split hpre hcr hmid h0 h1 h2 h3
  obtain ⟨-, n1, n2, n3, -⟩ := create_mapOp_fm_nodes (QInvW.scope Q0) h1 hk
  have U : UnaryOp s1 (s0.nodes.size + 2) (opBase + m) x := ⟨_, n3, _, n2, n1⟩
  have hx1 : (s1.nodeD x).kind = .var c := by
    rw [K01.kind x (kind_lt hx (fun v h => by cases h))]; exact hx
  rw [unary_reads_later Q1 U hx1 K12 R ho hu hon hc, machSpec_op d (Nat.le_add_right ..),
    opSpec_fm d _ m (decodeOp_fm hm)]

/-- **C15, `incr_unordered_fold` (sum fold; with/without `update`, with/without revert-to-init), whole histories.** -/
theorem fold_history_reads {rev upd : Bool} (hm : m < 10000)
    (hpre : ∀ a, a ∈ pre → DAction d a) (hmid : ∀ a, a ∈ mid → DAction d a)
    (h0 : runActions d.toEnv pre (State.init N dbg) #[] = .ok (s0, tk0))
    (hk : s0.top[k]? = some x) (hx : (s0.nodeD x).kind = .var c)
    (h1 : (stepAction d.toEnv (.create (.mapOp (.fold m rev upd (.outer k)))) tk0).run.run s0 = (.ok r1, s1))
    (h2 : runActions d.toEnv mid s1 r1.2 = .ok (sm, tkm))
    (h3 : (stabilise d.toEnv fuelDefault).run.run sm = (.ok (), s2))
    (ho : s2.observers[o]? = some ob) (hu : ob.state = .inUse) (hon : ob.node = s0.nodes.size + 2)
    (hc : s2.vars[c]? = some vc) :
    s2.tryGetValue d.toEnv o =
      .ok (.int (ufoldSpecSum (opG (d.opParams m)) (d.opParams m).c (asMap vc.value))) := by
  have hle : opBase ≤ opBase + 100000 + (if rev then 20000 else 0) + (if upd then 10000 else 0) + m :=
    opBase_le_opId (.fold m rev upd (.outer k))
  have hlt : opBase + 100000 + (if rev then 20000 else 0) + (if upd then 10000 else 0) + m < opBase + 400000 := by
    cases rev <;> cases upd <;> simp <;> omega
  have hcr : DAction d (.create (.mapOp (.fold m rev upd (.outer k)))) :=
    ⟨Or.inr ⟨hle, hlt⟩, machGood d _ (Or.inl hle),
      fun a ha => by simp only [opOpnds, List.mem_cons, List.mem_nil_iff, or_false] at ha; rw [ha]; trivial⟩
  obtain ⟨Q0, Q1, K01, K12, R, -⟩ := history_split hpre hcr hmid h0 h1 h2 h3
  obtain ⟨-, n1, n2, n3, -⟩ := create_mapOp_fold_nodes (QInvW.scope Q0) h1 hk
  have U : UnaryOp s1 (s0.nodes.size + 2) _ x := ⟨_, n3, _, n2, n1⟩
  have hx1 : (s1.nodeD x).kind = .var c := by
    rw [K01.kind x (kind_lt hx (fun v h => by cases h))]; exact hx
  rw [unary_reads_later Q1 U hx1 K12 R ho hu hon hc, machSpec_op d hle,
    opSpec_fold d _ m rev upd (decodeOp_fold rev upd hm)]

/-- **C15, `incr_partition_mapi`, whole histories.** -/
theorem part_history_reads (hm : m < 100000)
    (hpre : ∀ a, a ∈ pre → DAction d a) (hmid : ∀ a, a ∈ mid → DAction d a)
    (h0 : runActions d.toEnv pre (State.init N dbg) #[] = .ok (s0, tk0))
    (hk : s0.top[k]? = some x) (hx : (s0.nodeD x).kind = .var c)
    (h1 : (stepAction d.toEnv (.create (.mapOp (.part m (.outer k)))) tk0).run.run s0 = (.ok r1, s1))
    (h2 : runActions d.toEnv mid s1 r1.2 = .ok (sm, tkm))
    (h3 : (stabilise d.toEnv fuelDefault).run.run sm = (.ok (), s2))
    (ho : s2.observers[o]? = some ob) (hu : ob.state = .inUse) (hon : ob.node = s0.nodes.size + 2)
    (hc : s2.vars[c]? = some vc) :
    s2.tryGetValue d.toEnv o =
      .ok (.pair (.map (partitionSpec (opPartFn (d.opParams m)) (asMap vc.value)).1)
        (.map (partitionSpec (opPartFn (d.opParams m)) (asMap vc.value)).2)) := by
  have hle : opBase ≤ opBase + 300000 + m := by omega
  have hcr : DAction d (.create (.mapOp (.part m (.outer k)))) :=
    ⟨Or.inr ⟨hle, by show opBase + 300000 + m < _; omega⟩, machGood d _ (Or.inl hle),
      fun a ha => by simp only [opOpnds, List.mem_cons, List.mem_nil_iff, or_false] at ha; rw [ha]; trivial⟩
  obtain ⟨Q0, Q1, K01, K12, R, -⟩ := history_split hpre hcr hmid h0 h1 h2 h3
  obtain ⟨-, n1, n2, n3, -⟩ := create_mapOp_part_nodes (QInvW.scope Q0) h1 hk
  have U : UnaryOp s1 (s0.nodes.size + 2) (opBase + 300000 + m) x := ⟨_, n3, _, n2, n1⟩
  have hx1 : (s1.nodeD x).kind = .var c := by
    rw [K01.kind x (kind_lt hx (fun v h => by cases h))]; exact hx
  rw [unary_reads_later Q1 U hx1 K12 R ho hu hon hc, machSpec_op d hle, opSpec_part d _ m (decodeOp_part hm)]

end unary

/-- **C15, `incr_merge`, whole histories.** -/
theorem merge_history_reads {N : Nat} {dbg : Bool} {pre mid : List Action} {s0 s1 sm s2 : State}
    {tk0 tkm : Array Nat} {r1 : String × Array Nat} {m kx ky x y cx cy o : Nat} {ob : ObsRec} {vx vy : VarCell}
    (hm : m < 100000)
    (hpre : ∀ a, a ∈ pre → DAction d a) (hmid : ∀ a, a ∈ mid → DAction d a)
    (h0 : runActions d.toEnv pre (State.init N dbg) #[] = .ok (s0, tk0))
    (hkx : s0.top[kx]? = some x) (hky : s0.top[ky]? = some y)
    (hx : (s0.nodeD x).kind = .var cx) (hy : (s0.nodeD y).kind = .var cy)
    (h1 : (stepAction d.toEnv (.create (.mapOp (.merge m (.outer kx) (.outer ky)))) tk0).run.run s0 = (.ok r1, s1))
    (h2 : runActions d.toEnv mid s1 r1.2 = .ok (sm, tkm))
    (h3 : (stabilise d.toEnv fuelDefault).run.run sm = (.ok (), s2))
    (ho : s2.observers[o]? = some ob) (hu : ob.state = .inUse) (hon : ob.node = s0.nodes.size + 4)
    (hcx : s2.vars[cx]? = some vx) (hcy : s2.vars[cy]? = some vy) :
    s2.tryGetValue d.toEnv o =
      .ok (.map (mergeSpec' (opMergeFn (d.opParams m)) (asMap vx.value) (asMap vy.value))) := by
  have hle : opBase ≤ opBase + 200000 + m := by omega
  have hcr : DAction d (.create (.mapOp (.merge m (.outer kx) (.outer ky)))) :=
    ⟨Or.inr ⟨hle, by show opBase + 200000 + m < _; omega⟩, machGood d _ (Or.inl hle),
      fun a ha => by
        simp only [opOpnds, List.mem_cons, List.mem_nil_iff, or_false] at ha
        rcases ha with rfl | rfl <;> trivial⟩
  obtain ⟨Q0, Q1, K01, K12, R, -⟩ := history_split hpre hcr hmid h0 h1 h2 h3
  obtain ⟨-, n1, n2, n3, n4, n5, -⟩ := create_mapOp_merge_nodes (QInvW.scope Q0) h1 hkx hky
  have U : MergeOp s1 (s0.nodes.size + 4) (opBase + 200000 + m) x y := ⟨_, n5, _, n4, _, _, n3, n1, n2⟩
  have hx1 : (s1.nodeD x).kind = .var cx := by
    rw [K01.kind x (kind_lt hx (fun v h => by cases h))]; exact hx
  have hy1 : (s1.nodeD y).kind = .var cy := by
    rw [K01.kind y (kind_lt hy (fun v h => by cases h))]; exact hy
  rw [merge_reads_later Q1 U hx1 hy1 K12 R ho hu hon hcx hcy, machSpec_op d hle,
    opSpec_merge d _ m (decodeOp_merge hm)]
  rfl

end IncrVerif.Proofs.MapOldH
