import IncrVerif.Proofs.TidyH51
/-!
# T4, part 5: every valid action of fragment X1 RETURNS; valid histories never panic
(relative to `AddDepSpec`, the total correctness of `expertAddDependency`, discharged in part 6)
-/
namespace IncrVerif.Proofs.TidyH.XT
open IncrVerif.Engine IncrVerif.Driver IncrVerif.Proofs IncrVerif.Proofs.Step IncrVerif.Proofs.Sched
open IncrVerif.Proofs.ExpertH IncrVerif.Proofs.ExpertH.QR IncrVerif.Proofs.TidyH.XT.XR

/-- total correctness of `expertAddDependency` on fragment X1 (proved as `addDep_totalX`) -/
def AddDepSpec : Prop :=
  ∀ {env : Env} {rk : Nat → Nat} {N fuel n c e : Nat} {cb : Bool} {s : State} {nd : Node} {er : ExpertRec},
    QInvX env rk s → TInvX N s → Xp.IsExpert s n nd e er → c < s.nodes.size → ¬ Below s c n →
    3 * s.nodes.size + 4 ≤ fuel →
    ∃ dep s', (expertAddDependency env fuel n c cb).run.run s = (.ok dep, s') ∧ (∃ rk', QInvX env rk' s') ∧
      TInvX N s' ∧ s'.nodes.size = s.nodes.size ∧ s'.vars.size = s.vars.size ∧
      s'.observers.size = s.observers.size ∧ s'.top = s.top

theorem resolve_outer_run {s : State} {k : Nat} (hk : k < s.top.size) :
    (resolveOpnd [] (.outer k)).run.run s = (.ok s.top[k], s) := by
  unfold resolveOpnd
  simp only
  rw [run_bind_get, Array.getElem?_eq_getElem hk]
  rfl

/-- the sizes after an action of X1 (`addDep`, `stabilise`: unchanged) -/
def GrownX (a : Action) (s s' : State) : Prop :=
  s'.nodes.size = s.nodes.size + (grow a).1 ∧ s'.vars.size = s.vars.size + (grow a).2.1 ∧
    s'.observers.size = s.observers.size + (grow a).2.2

theorem step_addDep_total (AD : AddDepSpec) {env : Env} {rk : Nat → Nat} {N : Nat} {s : State} {eo co : Opnd}
    {cb : Bool} {tk : Array Nat} (Q : QInvX env rk s) (T : TInvX N s) (ha : AddDepOK s eo co)
    (hok : ActionOKx N s (.addDep eo co cb)) :
    ∃ r s', (stepAction env (.addDep eo co cb) tk).run.run s = (.ok r, s') ∧ r.2 = tk ∧
      (∃ rk', QInvX env rk' s') ∧ TInvX N s' ∧ GrownX (.addDep eo co cb) s s' := by
  obtain ⟨h1, h2, hfuel⟩ := hok
  cases eo <;> try exact ha.elim
  rename_i kn
  cases co <;> try exact ha.elim
  rename_i kc
  have hkn : kn < s.top.size := h1
  have hkc : kc < s.top.size := h2
  have hn : s.top[kn]? = some s.top[kn] := Array.getElem?_eq_getElem hkn
  have hc : s.top[kc]? = some s.top[kc] := Array.getElem?_eq_getElem hkc
  obtain ⟨⟨e, hk⟩, hacyc⟩ := ha _ _ hn hc
  have hnlt : s.top[kn] < s.nodes.size := Q.frag.lt_of_expert hk
  have hclt : s.top[kc] < s.nodes.size := by
    have := Q.q.top kc _ hc; rwa [virt_size] at this
  obtain ⟨er, hx, -⟩ := Q.frag.xrec _ e hnlt hk
  have hX : Xp.IsExpert s s.top[kn] (s.nodeD s.top[kn]) e er :=
    ⟨some_of_lt hnlt, Q.frag.valid _ hnlt, hk, hx⟩
  obtain ⟨dep, s', hrun, Q', T', z1, z2, z3, -⟩ := AD (cb := cb) Q T hX hclt hacyc hfuel
  refine ⟨(s!"ok d{dep}", tk), s', ?_, rfl, Q', T', ?_⟩
  · unfold stepAction
    dsimp only
    rw [run_bind_ok (resolve_outer_run hkn), run_bind_ok (resolve_outer_run hkc), run_bind_ok hrun, run_pure]
  · exact ⟨by rw [z1]; rfl, by rw [z2]; rfl, by rw [z3]; rfl⟩

theorem step_stabilise_total {env : Env} {rk : Nat → Nat} {N : Nat} {s : State} {tk : Array Nat}
    (Q : QInvX env rk s) (T : TInvX N s) (hok : ActionOKx N s .stabilise) :
    ∃ r s', (stepAction env .stabilise tk).run.run s = (.ok r, s') ∧ r.2 = tk ∧
      (∃ rk', QInvX env rk' s') ∧ TInvX N s' ∧ GrownX .stabilise s s' := by
  obtain ⟨s', hrun, T', z1, z2, z3⟩ := stabilise_totalX Q T (fuel := fuelDefault) hok
  refine ⟨("ok", tk), s', ?_, rfl, ⟨rk, (stabiliseX Q hrun).inv⟩, T', ?_⟩
  · unfold stepAction
    dsimp only
    rw [run_bind_ok hrun, run_pure]
  · exact ⟨by rw [z1]; rfl, by rw [z2]; rfl, by rw [z3]; rfl⟩

/-- **every valid action of fragment X1 returns and keeps both invariants** (`addDep` may change the rank) -/
theorem step_totalX_of (AD : AddDepSpec) {env : Env} {rk : Nat → Nat} {N : Nat} {s : State} {a : Action}
    {tk : Array Nat} (Q : QInvX env rk s) (T : TInvX N s) (ha : XActionOK env s a) (hok : ActionOKx N s a) :
    ∃ r s', (stepAction env a tk).run.run s = (.ok r, s') ∧ r.2 = tk ∧ (∃ rk', QInvX env rk' s') ∧ TInvX N s' ∧
      GrownX a s s' := by
  have stat : ∀ (a : Action), XStaticAction env a → ActionOKs N s a →
      ∃ r s', (stepAction env a tk).run.run s = (.ok r, s') ∧ r.2 = tk ∧ (∃ rk', QInvX env rk' s') ∧ TInvX N s' ∧
        GrownX a s s' := by
    intro a ha hok
    obtain ⟨r, s', h, hr, Q', T', g⟩ := static_step_totalX (tk := tk) Q T ha hok
    exact ⟨r, s', h, hr, ⟨rk, Q'⟩, T', g⟩
  cases a
  case create i =>
    cases i
    case expert f =>
      obtain ⟨r, s', h, hr, Q', T', g⟩ := create_expert_totalX (tk := tk) Q T ha.1 ha.2 hok.2
      exact ⟨r, s', h, hr, ⟨rk, Q'⟩, T', g⟩
    all_goals exact stat _ ha hok
  case addDep eo co cb => exact step_addDep_total AD Q T ha hok
  case stabilise => exact step_stabilise_total Q T hok
  all_goals exact stat _ ha (by first | exact hok | trivial)

/-- **valid runs never panic**: from a state satisfying the invariants, a valid run of fragment X1 returns -/
theorem run_totalX_of (AD : AddDepSpec) {env : Env} {N : Nat} : ∀ {acts : List Action} {rk : Nat → Nat} {s : State}
    {tk : Array Nat}, QInvX env rk s → TInvX N s → ValidRun env N acts s tk →
    ∃ s' tk', runActions env acts s tk = .ok (s', tk') ∧ (∃ rk', QInvX env rk' s') ∧ TInvX N s'
  | [], rk, s, tk, Q, T, _ => ⟨s, tk, rfl, ⟨rk, Q⟩, T⟩
  | a :: as, rk, s, tk, Q, T, hv => by
    obtain ⟨r, s1, h, -, ⟨rk1, Q1⟩, T1, -⟩ := step_totalX_of AD (tk := tk) Q T hv.1 hv.2.1
    obtain ⟨s', tk', h', Q', T'⟩ := run_totalX_of AD Q1 T1 (hv.2.2 r s1 h)
    refine ⟨s', tk', ?_, Q', T'⟩
    simp only [runActions, h]
    exact h'

theorem tinvX_init (N : Nat) (d : Bool) : TInvX N (State.init N d) := by
  unfold TInvX
  rw [virt_init]
  refine ⟨fun m hm _ => ?_, ⟨?_, ?_, Nat.zero_le _⟩, fun c vc hc => ?_, rfl, List.nodup_nil,
    fun o ob ho => by cases ho⟩
  · have := nec_lt_size hm
    exact absurd this (Nat.not_lt_zero _)
  · simp [State.init, mkHeap, Heap.maxAllowed]
  · simp [State.init, mkHeap, Heap.maxAllowed]
  · simp [State.init] at hc

end IncrVerif.Proofs.TidyH.XT
