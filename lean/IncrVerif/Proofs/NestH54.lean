import IncrVerif.Proofs.NestH53
import IncrVerif.Proofs.BindH96
/-!
# Nested binds (F2), part 4k: every step of a drain keeps the frames `DKey` and `NKey`

Port of `BindH96` (`C2k2`).  The `PresD`/`DKS b` ladder of `BindH95`, `C2k.bind_rel`, `C2k.forIn_rel`, `C2k.other_dk`, `C2k.dkey_of_dk`, `pop_dkey` are
generic and reused.  NEW: the instruction `.bind body' o` inside a closure = `createBind` in scope `.bind b`: it pushes a bind record and creates two nodes
in scope `.bind b` without handlers (`N4k.createBind_dk`).
-/
namespace IncrVerif.Proofs.NestH
open IncrVerif.Engine IncrVerif.Proofs IncrVerif.Proofs.Step IncrVerif.Proofs.Sched IncrVerif.Proofs.Quiet
open IncrVerif.Proofs.BindH
open IncrVerif.Proofs.BindH.C2k
namespace N4k

/-- `createBind` in scope `.bind b`: a new bind record, two new nodes of scope `.bind b` without handlers -/
theorem createBind_dk {b body lhs : Nat} {s s' : State} {r : Except Panic Nat} (hsc : s.currentScope = .bind b)
    (h : (createBind body lhs).run.run s = (r, s')) : DKS b s s' := by
  unfold Engine.createBind at h
  rw [run_bind_get] at h
  simp only [hsc] at h
  refine Step.Pres.h ?_ _ _ _ h
  c2kpres

/-- the creation instructions of F2 closures -/
def F2I : Instr → Prop
  | .const _ => True
  | .lhsConst => True
  | .map _ _ => True
  | .fold _ _ _ => True
  | .bind _ _ => True
  | _ => False

theorem f2i_of_instrOK2 {env : Env} {rk : Nat → Nat} {s : State} {P : Nat → Prop} {lc nloc : Nat} {i : Instr}
    (h : InstrOK2 env rk s P lc nloc i) : F2I i := by
  cases i <;> first | trivial | exact h.elim

theorem elabInstrM_dk2 {b : Nat} {env : Env} {loc : List Nat} {v : Val} {i : Instr} (hi : F2I i) {s s' : State}
    {r : Except Panic (Option Nat)} (hsc : s.currentScope = .bind b)
    (h : (elabInstrM env loc v i).run.run s = (r, s')) : DKS b s s' := by
  cases i with
  | bind body' o =>
    simp only [Engine.elabInstrM, Engine.elabInstr, run_bind_get] at h
    rw [run_bind] at h
    rcases hx : (resolveOpnd loc o).run.run s with ⟨r1, s1⟩
    rw [hx] at h
    have d1 : DKS b s s1 := (Step.PresS.resolveOpnd loc o).h _ _ _ hx
    cases r1 with
    | error e => cases h; exact d1
    | ok a =>
      simp only at h
      rw [map_eq_pure_bind] at h
      have hsc1 : s1.currentScope = .bind b := d1.2.trans hsc
      exact PreOrd.trans d1
        (bind_rel (R := DKS b) h (fun r2 s2 hx2 => createBind_dk hsc1 hx2) (fun a => Step.Pres.pure _))
  | const _ => exact C2k.elabInstrM_dk (i := .const _) trivial hsc h
  | lhsConst => exact C2k.elabInstrM_dk (i := .lhsConst) trivial hsc h
  | map _ _ => exact C2k.elabInstrM_dk (i := .map _ _) trivial hsc h
  | fold _ _ _ => exact C2k.elabInstrM_dk (i := .fold _ _ _) trivial hsc h
  | _ => exact hi.elim

theorem elabTemplate_dk2 {b : Nat} {env : Env} {t : Template} {v : Val}
    (ht : ∀ (j : Nat) (i : Instr), t.instrs[j]? = some i → F2I i)
    {s s' : State} {r : Except Panic Nat} (hsc : s.currentScope = .bind b)
    (h : (elabTemplate env t v).run.run s = (r, s')) : DKS b s s' := by
  unfold Engine.elabTemplate at h
  refine bind_rel h (fun r1 s1 hx => ?_) (fun a => by c2kpres)
  refine forIn_rel (R := DKS b) (fun s => s.currentScope = .bind b) (fun s s' hk hr => hr.2.trans hk) _ _ ?_ _ s r1 s1 hsc hx
  intro i hi c t0 r0 t1 hk hb
  obtain ⟨j, hj⟩ := List.getElem?_of_mem hi
  exact bind_rel hb (fun r2 s2 hx2 => elabInstrM_dk2 (ht j i hj) hk hx2) (fun a => by c2kpres)

theorem lhsRunClosure_dk2 {env : Env} {n b : Nat} {br : BindRec} {s s' : State} {rhs : Nat}
    (hc : ∀ (v : Val) (j : Nat) (i : Instr), (env.body br.body v).instrs[j]? = some i → F2I i)
    (h : (Inval.lhsRunClosure env n b br).run.run s = (.ok rhs, s')) : DK b s s' := by
  unfold Inval.lhsRunClosure at h
  obtain ⟨_, s1, h1, h⟩ := bind_ok_inv h
  have d1 := (PresD.modBind (b := b) _ _).h _ _ _ h1
  obtain ⟨lv, s2, h2, h⟩ := bind_ok_inv h
  have d2 := (Step.Pres.valueUnwrap (R := DKS b) _ _ _).h _ _ _ h2
  rw [run_bind_get] at h
  dsimp only at h
  rw [run_bind_modify] at h
  obtain ⟨_, s4, h4, h⟩ := bind_ok_inv h
  have d4 := (PresD.tick (b := b)).h _ _ _ h4
  obtain ⟨_, s5, h5, h⟩ := bind_ok_inv h
  have d5 := (PresD.logEv (b := b) _).h _ _ _ h5
  obtain ⟨rhs', s6, h6, h⟩ := bind_ok_inv h
  have hsc5 : s5.currentScope = .bind b := d5.2.trans d4.2
  have d6 := elabTemplate_dk2 (hc lv) hsc5 h6
  rw [run_bind_modify, run_pure] at h
  cases h
  have d3 : DK b s2 { s2 with currentScope := .bind b } := DK.of_nodes rfl rfl rfl rfl rfl rfl rfl rfl rfl rfl
  have d7 : DK b s6 { s6 with currentScope := s2.currentScope } := DK.of_nodes rfl rfl rfl rfl rfl rfl rfl rfl rfl rfl
  exact (((((d1.1.trans d2.1).trans d3).trans d4.1).trans d5.1).trans d6.1).trans d7

/-- a run of the change detector of bind `b` -/
theorem lc_dk2 {env : Env} {rk : Nat → Nat} {fuel n b : Nat} {s s' : State} {r : Option Nat}
    (I : DInv env s (some n)) (A : F2Inv env rk s) (hk : (s.nodeD n).kind = .bindLhsChange b)
    (h : (recomputeOne env fuel n).run.run s = (.ok r, s')) : DK b s s' := by
  obtain ⟨-, hnlt, hnv, -, -⟩ := I.cur_facts
  obtain ⟨br, hb, -⟩ := I.graph.lcRec n b hnlt hnv hk
  rw [Inval.recomputeOne_bindLhsChange_run env fuel n s (s.nodeD n) b br (some_of_lt hnlt) hnv hk hb] at h
  obtain ⟨rhs, t1, h1, h⟩ := bind_ok_inv h
  obtain ⟨_, t2, h2, h⟩ := bind_ok_inv h
  obtain ⟨_, t3, h3, h⟩ := bind_ok_inv h
  have d0 := DKS.started b n s
  have hc : ∀ (v : Val) (j : Nat) (i : Instr), (env.body br.body v).instrs[j]? = some i → F2I i := by
    obtain ⟨f, hf⟩ := A.closures b br hb
    cases f with
    | zero => exact hf.elim
    | succ f => exact fun v j i hj => f2i_of_instrOK2 ((hf v).1 j i hj)
  have d1 := lhsRunClosure_dk2 hc h1
  have d2 := (PresD.lhsRelink (b := b) env fuel n b br s.stabNum rhs).h _ _ _ h2
  have d3 := (PresD.lhsInvalidateOld (b := b) fuel br).h _ _ _ h3
  have d4 := (PresD.lhsFinish (b := b) env fuel n).h _ _ _ h
  exact (((d0.1.trans d1).trans d2.1).trans d3.1).trans d4.1

end N4k

/-- **One `recomputeOne` of a drain keeps the frames** (fragment F2). -/
theorem recomputeOne_dkey2 {env : Env} {fuel n : Nat} {s s' : State} {r : Option Nat}
    (I : DInv env s (some n)) (A : Aux2 env s)
    (h : (recomputeOne env fuel n).run.run s = (.ok r, s')) : DKey s s' ∧ NKey s s' := by
  obtain ⟨rk, A⟩ := A
  have g := I.graph
  obtain ⟨-, hnlt, hnv, -, -⟩ := I.cur_facts
  have hB := (g.node n hnlt hnv).1
  have hstatic : (StaticKind env (s.nodeD n).kind ∨ ∃ b lc, (s.nodeD n).kind = .bindMain b lc) ∨
      ∃ b, (s.nodeD n).kind = .bindLhsChange b := by
    cases hk : (s.nodeD n).kind <;> rw [hk] at hB <;>
      first
      | exact Or.inl (Or.inl hB)
      | exact Or.inl (Or.inr ⟨_, _, rfl⟩)
      | exact Or.inr ⟨_, rfl⟩
  rcases hstatic with hk | ⟨b, hk⟩
  · exact C2k.dkey_of_dk (C2k.other_dk 0 I hk h) A.noHandlers
  · exact C2k.dkey_of_dk (N4k.lc_dk2 I A hk h) A.noHandlers

/-- the scheduling hypothesis for the auxiliary invariant of a drain inside `stabilise` (given the lc-step theorem) -/
theorem lcStepsOK_auxS_F2 {env : Env} (H : LcStepF2 env) (t : State) : LcStepsOK2 env (AuxS2 env t) :=
  lcStepsOK_auxS2 (lcStepsOK_F2 H) (fun _ _ _ _ _ I A h => recomputeOne_dkey2 I A h) (fun _ _ _ h => pop_dkey h) t

end IncrVerif.Proofs.NestH
