import IncrVerif.Proofs.FullH62
/-!
# C01 full fragment: NON-VACUITY, part 7 — `depend_on` and the `cutoff n never` action: the history `exHistG`

On top of `exHistF`'s three variables and bind `n3 := bind 1 n1` (closures of `fEnv`: map_ref chain, map_with_old, nested bind):
`n4 := depend_on n3 n2` (value of `n3`, also depends on `n2`), `n5 := map f1 [n1, n2]` (`f1` = first argument: the value of `n1`, also depends on `n2`),
`n6 := map f0 [n5, n5]`; observers on `n4`, `n5`, `n6`.
* `n2 := 6` (stabilise 2): `n3` changes (the depend_on node FIRES); `n5` is recomputed with an EQUAL value, cutoff `.eq`: no change, `n6` is not recomputed.
* `cutoff n5 never`, `n2 := 8` (stabilise 3): `n5` is recomputed with an EQUAL value and STAMPS `changedAt` (spurious change): `n6` is recomputed.
* `n1 := 1` (stabilise 4): the lhs is odd, `n3 = 1` (a constant).
* `n2 := 9` (stabilise 5): ONLY the second operand of the depend_on node changes: it is recomputed, its cutoff `.dependOn n3` SUPPRESSES: `changedAt` stays.
-/
namespace IncrVerif.Proofs.FullH
open IncrVerif.Engine IncrVerif.Driver IncrVerif.Proofs IncrVerif.Proofs.Step IncrVerif.Proofs.Sched IncrVerif.Proofs.Quiet

def exHistG : List Action :=
  [.create (.var (.pair (.pair (.int 5) (.int 6)) (.int 7))), .create (.var (.int 0)), .create (.var (.int 4)),
    .create (.bind 1 (.outer 1)), .create (.dependOn (.outer 3) (.outer 2)),
    .create (.map 1 [.outer 1, .outer 2]), .create (.map 0 [.outer 5, .outer 5]),
    .observe (.outer 4), .observe (.outer 5), .observe (.outer 6), .stabilise,
    .set 2 (.int 6), .stabilise,
    .create (.cutoff (.outer 5) .never), .set 2 (.int 8), .stabilise,
    .set 1 (.int 1), .stabilise,
    .set 2 (.int 9), .stabilise]

theorem EX.hf1 : (1 : Nat) < pBase ∧ ((1 : Nat) < fnZip → ∀ vals, fEnv.fnEff 1 vals = []) :=
  ⟨by decide, fun _ _ => rfl⟩

/-- **the example is a history of the full fragment** (the `cutoff` action creates no handle) -/
theorem exHistG_frag : HistFull fEnv fSp 0 exHistG := by
  simp only [exHistG, HistFull, ActionFull, InstrTopF, nextT, Quiet.OpndOK, and_true, true_and]
  refine ⟨⟨⟨1, rfl⟩, 2, fEnv_body1⟩, ⟨EX.hf1.1, EX.hf1.2, ?_⟩, ⟨EX.hf0.1, EX.hf0.2, ?_⟩, .inr trivial⟩
  · intro a ha
    simp only [List.mem_cons, List.mem_nil_iff, or_false] at ha
    rcases ha with rfl | rfl <;> trivial
  · intro a ha
    simp only [List.mem_cons, List.mem_nil_iff, or_false, or_self] at ha
    subst ha; trivial

end IncrVerif.Proofs.FullH
