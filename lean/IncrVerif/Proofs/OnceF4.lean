import IncrVerif.Proofs.FullH52
import IncrVerif.Proofs.FullH61
import IncrVerif.Proofs.OnceF1
import IncrVerif.Proofs.OnceF3
/-!
# C02, combined fragment, part 4: FINAL INPUTS, and whole histories

`OnceStab env fuel s s'`: the at-most-once statement of `stabilise_once_actual` as a predicate of the run `s → s'` of `stabilise`.
`FinalInputs s'`: every necessary node of the final state is valid, not stale, has been computed, and none of its children changed after it last ran
(`changedAt(child) ≤ recomputedAt(node)`) — from `StabF.fresh` and `fresh_inputs`.
`history_onceF`: both at every `stabilise` of a history of the combined fragment that runs from `State.init`.
-/
namespace IncrVerif.Proofs.OnceF
open IncrVerif.Engine IncrVerif.Driver IncrVerif.Proofs IncrVerif.Proofs.Step IncrVerif.Proofs.Sched IncrVerif.Proofs.Quiet
open IncrVerif.Proofs.FullH IncrVerif.Proofs.TidyH

/-- AT MOST ONCE for the run `s → s'` of `stabilise env fuel`: `t2` = the state in which the drain starts (tied to the run by the four phase equations); the nodes handed to
`recomputeOne` by the drain (`drainTrace`) are pairwise distinct; each had not run in this round (nor had any other node: last clause), carries the stamp of this round in the
final state and is still valid there; at the moment it runs (`drainSteps`) it is necessary, valid, not queued, not yet stamped, in the round of the start -/
def OnceStab (env : Env) (fuel : Nat) (s s' : State) : Prop :=
  ∃ t1 t2 t3,
    (addNewObservers env fuel).run.run { s with status := .stabilising } = (.ok (), t1) ∧
    (unlinkDisallowedObservers fuel).run.run t1 = (.ok (), t2) ∧
    (drainHeap env fuel).run.run t2 = (.ok (), t3) ∧ (stabiliseEnd env fuel).run.run t3 = (.ok (), s') ∧
    (drainTrace env fuel t2).Nodup ∧
    (∀ m, m ∈ drainTrace env fuel t2 →
      (t2.nodeD m).recomputedAt < s.stabNum ∧ (s'.nodeD m).recomputedAt = s.stabNum ∧ (s'.nodeD m).valid = true) ∧
    (drainSteps env fuel t2).map (·.1) = drainTrace env fuel t2 ∧
    (∀ p, p ∈ drainSteps env fuel t2 →
      p.2.isNecessary p.1 = true ∧ (p.2.nodeD p.1).valid = true ∧ (p.2.nodeD p.1).inRch = false ∧
        (p.2.nodeD p.1).recomputedAt < s.stabNum ∧ p.2.stabNum = s.stabNum) ∧
    (∀ m, (t2.nodeD m).recomputedAt < s.stabNum)

/-- FINAL INPUTS: every necessary node is valid, not stale, has been computed (a `var` node: after the last write of its cell), and none of its children has changed since it
last ran -/
def FinalInputs (s' : State) : Prop :=
  ∀ n, s'.isNecessary n = true →
    (s'.nodeD n).valid = true ∧ s'.isStale n = false ∧
    (∀ c, c ∈ s'.children n → (s'.nodeD c).changedAt ≤ (s'.nodeD n).recomputedAt) ∧
    ((∀ c, (s'.nodeD n).kind ≠ .var c) → (s'.nodeD n).recomputedAt ≠ -1) ∧
    (∀ c vc, (s'.nodeD n).kind = .var c → s'.vars[c]? = some vc → vc.setAt ≤ (s'.nodeD n).recomputedAt)

theorem finalInputs_of_fresh {s' : State}
    (h : ∀ n, s'.isNecessary n = true → (s'.nodeD n).valid = true ∧ s'.isStale n = false) : FinalInputs s' := by
  intro n hn
  obtain ⟨hv, hs⟩ := h n hn
  exact ⟨hv, hs, fresh_inputs hv hs⟩

section
variable {env : Env} {sp : Nat → Val → Val}

theorem stabF_finalInputs {s s' : State} {g' : Nat → Option Val} (R : StabF env sp s s' g') : FinalInputs s' :=
  finalInputs_of_fresh R.fresh

/-- **C02 for one `stabilise` of the combined fragment** -/
theorem stabilise_c02 (E : EnvS env sp) (hF : FirstFn env) {fuel : Nat} {s s' : State} (Q : QInvFE env sp s)
    (h : (stabilise env fuel).run.run s = (.ok (), s')) : OnceStab env fuel s s' ∧ FinalInputs s' ∧ QInvFE env sp s' := by
  obtain ⟨g, Q⟩ := Q
  obtain ⟨g', R⟩ := stabilise_full (kit E hF) Q h
  exact ⟨stabilise_once_actual (kit E hF) Q h, stabF_finalInputs R, ⟨g', R.inv⟩⟩

/-- **C02 at every `stabilise` of a history of the combined fragment** -/
theorem history_c02 (E : EnvS env sp) (hF : FirstFn env) {N : Nat} {d : Bool} {as bs : List Action}
    {s : State} {tk : Array Nat} (hH : HistFull env sp 0 (as ++ Action.stabilise :: bs))
    (h : Quiet.runActions env (as ++ Action.stabilise :: bs) (State.init N d) #[] = .ok (s, tk)) :
    ∃ s1 tk1 s2, Quiet.runActions env as (State.init N d) #[] = .ok (s1, tk1) ∧ QInvFE env sp s1 ∧
      (stabilise env fuelDefault).run.run s1 = (.ok (), s2) ∧ QInvFE env sp s2 ∧
      OnceStab env fuelDefault s1 s2 ∧ FinalInputs s2 ∧
      Quiet.runActions env bs s2 tk1 = .ok (s, tk) := by
  obtain ⟨s1, tk1, h1, H1, hH1, h2⟩ := runActions_split (kit E hF) (hi_init env sp (fun _ => true) N d) hH h
  simp only [Quiet.runActions] at h2
  rcases hx : (stepAction env .stabilise tk1).run.run s1 with ⟨_ | r, s2⟩
  · rw [hx] at h2; cases h2
  · rw [hx] at h2
    replace h2 : Quiet.runActions env bs s2 r.2 = .ok (s, tk) := h2
    obtain ⟨hst, htk⟩ := stabilise_run_of_step hx
    rw [htk] at h2
    obtain ⟨g, Q, -, -⟩ := H1
    obtain ⟨a, b, c⟩ := stabilise_c02 E hF ⟨g, Q⟩ hst
    exact ⟨s1, tk1, s2, h1, ⟨g, Q⟩, hst, c, a, b, h2⟩

end
end IncrVerif.Proofs.OnceF
