import IncrVerif.Proofs.MapRef12
import IncrVerif.Proofs.MapRef9
/-!
# map_ref fragment, part 6: one `recomputeOne` — the node is not a map_ref node

The actual step is simulated by the step of the virtual static engine; the scheduling invariant of the static
fragment (`Sched.step_inv`) applies to the virtual states; the `didChange` invariant is kept by `mcv_keepsK`.
-/
namespace IncrVerif.Proofs.MapRefH
open IncrVerif.Engine IncrVerif.Proofs IncrVerif.Proofs.Step IncrVerif.Proofs.Sched IncrVerif.Proofs.Quiet

/-- the runtime facts of the simulation follow from the fragment -/
theorem RFrag.fr {env : Env} {s : State} (F : RFrag env s) (hp : s.propagateInvalidity = []) : Fr s where
  noExp n e := by
    by_cases hn : n < s.nodes.size
    · intro hk; have := F.kind n hn; rw [hk] at this; exact this
    · rw [nodeD_default_of_ge s n (by omega)]; intro h; cases h
  valid n := by
    by_cases hn : n < s.nodes.size
    · exact F.valid n hn
    · rw [nodeD_default_of_ge s n (by omega)]; rfl
  pinv := hp
  cut := F.cut

/-- a node of the fragment that is not a map_ref node: its step is a `maybe_change_value` -/
theorem recomputeOne_as_mcv {env : Env} {s : State} {fuel n : Nat} (F : RFrag env s) (hn : n < s.nodes.size)
    (hk : ∀ p i, (s.nodeD n).kind ≠ .mapRef p i)
    (hvar : ∀ c, (s.nodeD n).kind = .var c → ∃ vc, s.vars[c]? = some vc)
    (hkids : ∀ a, a ∈ kidsR (s.nodeD n).kind → (s.value env a).isSome = true) :
    ∃ v es, (recomputeOne env fuel n).run.run s =
      (maybeChangeValue env fuel n v).run.run (logged es (started n s)) := by
  have hnn := some_of_lt hn
  have hv := F.valid n hn
  have hR := F.kind n hn
  cases hkd : (s.nodeD n).kind with
  | const w => exact ⟨w, [], recomputeOne_const_run env fuel n s _ w hnn hv hkd⟩
  | var c =>
    obtain ⟨vc, hvc⟩ := hvar c hkd
    exact ⟨vc.value, [], recomputeOne_var_run env fuel n s _ c vc hnn hv hkd hvc⟩
  | map f args =>
    rw [hkd] at hR hkids
    obtain ⟨vals, hvals⟩ := valuesOf_of_isSome env s args (fun a ha => hkids a (by simpa [kidsR] using ha))
    by_cases hf : f < fnZip
    · exact ⟨_, _, recomputeOne_map_run env fuel n s _ f args vals hnn hv hkd hf hvals (hR.2 hf vals) F.pc⟩
    · refine ⟨_, [], recomputeOne_mapBuiltin_run env fuel n s _ f args vals hnn hv hkd hf ?_ hvals⟩
      have := hR.1; unfold projBase at this; unfold fnPerKey; omega
  | fold f init cs =>
    rw [hkd] at hkids
    obtain ⟨vals, hvals⟩ := valuesOf_of_isSome env s cs (fun a ha => hkids a (by simpa [kidsR] using ha))
    exact ⟨_, _, recomputeOne_fold_run env fuel n s _ f init cs vals hnn hv hkd hvals F.pc⟩
  | mapRef p i => exact absurd hkd (hk p i)
  | mapWithOld _ _ => rw [hkd] at hR; exact hR.elim
  | bindLhsChange _ => rw [hkd] at hR; exact hR.elim
  | bindMain _ _ => rw [hkd] at hR; exact hR.elim
  | expert _ => rw [hkd] at hR; exact hR.elim

section
variable {env : Env} {g : Nat → Option Val} {s : State}

/-- what is below the current node of the scheduling invariant is settled: the ghost values are the values read,
and they exist -/
theorem Inv.kids_settled {n : Nat} (F : RFrag env s) (I : Inv (virtEnv env) (virt g s) (some n)) :
    ∀ a, a ∈ kidsR (s.nodeD n).kind → tv g s a = s.value env a ∧ (s.value env a).isSome = true := by
  intro a ha
  have gr := I.graph
  obtain ⟨hn, hbelow⟩ := I.cur n rfl
  have hav : a ∈ kids ((virt g s).nodeD n).kind := by rw [virt_kids]; exact ha
  obtain ⟨han, hlt⟩ := gr.kids_nec hn hav
  have hfresh : ∀ e, Anc (virt g s) a e → s.isStale e = false := by
    intro e he
    have hen : (virt g s).isNecessary e = true := he.nec gr han
    have hanc : Anc (virt g s) n e := Anc.step hn hav he
    cases hst : s.isStale e with
    | false => rfl
    | true =>
      rcases I.pending e hen (by rw [virt_isStale]; exact hst) with h | h
      · rw [hbelow e hanc] at h; cases h
      · cases h
        have := he.height_le gr
        omega
  have hset := settled F gr (fun e he hs => I.cons e he hs) a (by rw [← virt_isNecessary g s]; exact han) hfresh
  refine ⟨hset, ?_⟩
  obtain ⟨vals, hvals⟩ := I.kids_values
  rw [virt_kids, virt_plainVals] at hvals
  rw [← hset]
  -- every element of a list with `evalArgs = some _` has a value
  have : ∀ (l : List Nat) vs, evalArgs (tv g s) l = some vs → ∀ x, x ∈ l → (tv g s x).isSome = true := by
    intro l
    induction l with
    | nil => intro _ _ x hx; cases hx
    | cons b l ih =>
      intro vs h x hx
      simp only [evalArgs] at h
      cases hb : tv g s b with
      | none => rw [hb] at h; simp at h
      | some vb =>
        rw [hb] at h
        cases hl : evalArgs (tv g s) l with
        | none => rw [hl] at h; simp at h
        | some vl =>
          rcases List.mem_cons.1 hx with rfl | hx
          · rw [hb]; rfl
          · exact ih vl hl x hx
  exact this _ vals hvals a ha

/-- **one step, not a map_ref node.** -/
theorem step_static_node {fuel n : Nat} {s' : State} {r : Option Nat} (F : RFrag env s)
    (I : Inv (virtEnv env) (virt g s) (some n)) (K : KInv env g s) (hp : s.propagateInvalidity = [])
    (hk : ∀ p i, (s.nodeD n).kind ≠ .mapRef p i)
    (h : (recomputeOne env fuel n).run.run s = (.ok r, s')) :
    (recomputeOne (virtEnv env) fuel n).run.run (virt g s) = (.ok r, virt g s') ∧
      KInv env g s' ∧ RFrag env s' ∧ s'.propagateInvalidity = [] := by
  have gr := I.graph
  obtain ⟨hnv, -⟩ := I.cur n rfl
  have hn : s.isNecessary n = true := by rw [← virt_isNecessary g s]; exact hnv
  obtain ⟨hlt, -, -, hcut, -⟩ := gr.nec n hnv
  rw [virt_size] at hlt
  rw [virt_nodeD, virtNode_cutoff] at hcut
  have hkids := Inv.kids_settled F I
  have hvar : ∀ c, (s.nodeD n).kind = .var c → ∃ vc, s.vars[c]? = some vc := by
    intro c hc
    exact gr.var n c hnv (by rw [virt_nodeD, virtNode_kind, hc]; rfl)
  obtain ⟨hsim, hfr'⟩ := recomputeOne_sim F (F.fr hp) hlt hk hvar hkids h
  obtain ⟨v, es, hrun⟩ := recomputeOne_as_mcv (fuel := fuel) F hlt hk hvar (fun a ha => (hkids a ha).2)
  rw [hrun] at h
  have hv0 : ((logged es (started n s)).nodeD n).value = (s.nodeD n).value := by
    show ((started n s).nodeD n).value = _
    rw [started_nodeD]; split <;> rfl
  obtain ⟨K', F'⟩ := mcv_keepsK F gr K hlt hk hcut ((ValFrame.started n s).logged es) hv0 h
  exact ⟨hsim, K', F', hfr'.pinv⟩

end
end IncrVerif.Proofs.MapRefH
