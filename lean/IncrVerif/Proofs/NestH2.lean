import IncrVerif.Proofs.NestH1
/-!
# Nested binds, pure part b: a run of a change detector re-establishes the drain invariant (pure logic, from `StepL2`)

Port of `BindH7`/`BindH8` (`StepL.kept` … `stepL_inv`) from the flat contract `StepL` to the nested contract `StepL2`.
-/
namespace IncrVerif.Proofs.NestH
open IncrVerif.Engine IncrVerif.Proofs IncrVerif.Proofs.Step IncrVerif.Proofs.Sched
open IncrVerif.Proofs.BindH

/-- the defining equation, pointwise version of `TargetB.congr`; the record of a bind's main node need only keep its `rhs` -/
theorem TargetB.congr2 {env : Env} {s s' : State} {m : Nat} {w : Val}
    (hv : (s.nodeD m).valid = true) (hB : BKind env (s.nodeD m).kind)
    (hk : (s'.nodeD m).kind = (s.nodeD m).kind) (hvars : s'.vars = s.vars)
    (hb : ∀ b lc, (s.nodeD m).kind = .bindMain b lc → ∀ br0, s.binds[b]? = some br0 →
      ∃ br1, s'.binds[b]? = some br1 ∧ br1.rhs = br0.rhs)
    (hc : ∀ c, c ∈ s.children m → (s'.nodeD c).value = (s.nodeD c).value)
    (h : TargetB env s m w) : TargetB env s' m w := by
  unfold TargetB at h ⊢
  rw [hk]
  cases hkd : (s.nodeD m).kind with
  | bindLhsChange b => rw [hkd] at h; exact h
  | bindMain b lc =>
    rw [hkd] at h
    obtain ⟨br, r, h1, h2, h3⟩ := h
    obtain ⟨br1, k1, k2⟩ := hb b lc hkd br h1
    refine ⟨br1, r, k1, by rw [k2]; exact h2, ?_⟩
    rw [hc r ?_]; exact h3
    unfold State.children Node.kind?
    rw [hv, hkd]
    simp only [if_true, h1, h2]
    simp
  | const w' => rw [hkd] at h; simpa only [Target, hk, hkd] using h
  | var c =>
    rw [hkd] at h
    simp only [Target, hk, hkd, hvars] at h ⊢
    exact h
  | map f args =>
    rw [hkd] at h
    have hcs : s.children m = args := by
      unfold State.children Node.kind?; rw [hv, hkd]; rfl
    simp only [Target, hk, hkd] at h ⊢
    obtain ⟨vals, h1, h2⟩ := h
    exact ⟨vals, by rw [plainVals_congr args (fun a ha => hc a (by rw [hcs]; exact ha))]; exact h1, h2⟩
  | fold f init cs =>
    rw [hkd] at h
    have hcs : s.children m = cs := by
      unfold State.children Node.kind?; rw [hv, hkd]; rfl
    simp only [Target, hk, hkd] at h ⊢
    obtain ⟨vals, h1, h2⟩ := h
    exact ⟨vals, by rw [plainVals_congr cs (fun a ha => hc a (by rw [hcs]; exact ha))]; exact h1, h2⟩
  | mapRef _ _ => rw [hkd] at hB; exact hB.elim
  | mapWithOld _ _ => rw [hkd] at hB; exact hB.elim
  | expert _ => rw [hkd] at hB; exact hB.elim

section
variable {env : Env} {n b : Nat} {br br' : BindRec} {r : Option Nat} {s s' : State}

/-- the record of ANY old bind survives with the same `lhs`/`body`/`lhsChange`/`main`; of a bind other than `b` also the same `rhs` -/
theorem P3.rec_old (R : StepL2 env n b br br' r s s') {b2 : Nat} {br0 : BindRec}
    (h0 : s.binds[b2]? = some br0) :
    ∃ br1, s'.binds[b2]? = some br1 ∧ br1.lhsChange = br0.lhsChange ∧ br1.main = br0.main ∧
      (b2 ≠ b → br1.rhs = br0.rhs) := by
  by_cases hb2 : b2 = b
  · subst hb2
    rw [R.bind] at h0; cases h0
    exact ⟨br', R.bind', R.lc.2.1.trans R.lc.1.symm, R.lc.2.2.1, fun h => absurd rfl h⟩
  · obtain ⟨br1, k1, k2, -⟩ := R.bindsOld.2 b2 br0 hb2 h0
    exact ⟨br1, k1, k2.lhsChange, k2.main, fun _ => k2.rhs⟩

/-- an old node other than `n` that is still valid: unchanged in what evaluation reads -/
theorem StepL2.kept (R : StepL2 env n b br br' r s s') {m : Nat} (hm : m < s.nodes.size) (hne : m ≠ n)
    (hv' : (s'.nodeD m).valid = true) :
    (s.nodeD m).valid = true ∧ (s'.nodeD m).kind = (s.nodeD m).kind ∧
      (s'.nodeD m).createdIn = (s.nodeD m).createdIn ∧
      (s'.nodeD m).value = (s.nodeD m).value ∧ (s'.nodeD m).recomputedAt = (s.nodeD m).recomputedAt ∧
      (s'.nodeD m).changedAt = (s.nodeD m).changedAt ∧ (m ≠ br.main → s'.children m = s.children m) := by
  rcases R.old m hm hne with ⟨-, h2, -⟩ | ⟨h1, h2, h3, h4, h5, h6, h7⟩
  · rw [hv'] at h2; cases h2
  · exact ⟨by rw [← h1]; exact hv', h2, h3, h4, h5, h6, h7⟩

/-- the main node of the bind is the only node that has `n` as a child -/
theorem StepL2.lc_only (R : StepL2 env n b br br' r s s') (g : BGraph env s)
    (hk : (s.nodeD n).kind = .bindLhsChange b) {m : Nat} (hm : m < s.nodes.size)
    (hv : (s.nodeD m).valid = true) (hc : n ∈ s.children m) : m = br.main := by
  have h1 := g.lcChild m n b hm hv hc hk
  obtain ⟨br0, h2, h3, -⟩ := g.mainRec m b n hm hv h1
  rw [R.bind] at h2; cases h2
  exact h3.symm

/-- staleness of a kept node other than the main node is unchanged -/
theorem StepL2.stale_kept (R : StepL2 env n b br br' r s s') (g : BGraph env s)
    (hk : (s.nodeD n).kind = .bindLhsChange b) {m : Nat} (hm : m < s.nodes.size) (hne : m ≠ n)
    (hmain : m ≠ br.main) (hv' : (s'.nodeD m).valid = true) : s'.isStale m = s.isStale m := by
  obtain ⟨hv, k1, -, -, k4, -, k6⟩ := R.kept hm hne hv'
  have hB := (g.node m hm hv).1
  have hch := k6 hmain
  apply isStale_congr hB k1 (by rw [hv', hv]) k4 (fun c => by rw [R.vars]) hch
  intro c hc
  have hclt := ((g.node m hm hv).2.2 c hc).1
  have hcn : c ≠ n := by
    intro e; subst e
    exact hmain (R.lc_only g hk hm hv hc)
  have hcv' : (s'.nodeD c).valid = true := by
    have hm' : m < s'.nodes.size := Nat.lt_of_lt_of_le hm R.grow
    exact ((R.graph'.node m hm' hv').2.2 c (by rw [hch]; exact hc)).2
  exact (R.kept hclt hcn hcv').2.2.2.2.2.1

/-- the main node is stale afterwards (if it is still a valid node) -/
theorem StepL2.main_stale (R : StepL2 env n b br br' r s s') (I : DInv env s (some n))
    (hv' : (s'.nodeD br.main).valid = true) : s'.isStale br.main = true := by
  obtain ⟨hm, hc, hc', hne⟩ := R.main
  have hm' : br.main < s'.nodes.size := Nat.lt_of_lt_of_le hm R.grow
  have hfr := I.fresh br.main n (Below.of_edge (Edge.child hc)) (Or.inr rfl)
  apply isStale_of_child hv' (R.graph'.node _ hm' hv').1 hc'
  rw [R.self.2.1, (R.kept hm hne hv').2.2.2.2.1]
  exact hfr

theorem StepL2.self_fresh (R : StepL2 env n b br br' r s s') (I : DInv env s (some n)) :
    s'.isStale n = false := by
  have hlt' : n < s'.nodes.size := Nat.lt_of_lt_of_le I.cur_facts.2.1 R.grow
  apply isStale_fresh (R.graph'.node n hlt' R.self.2.2.2.1).1 R.stamps'.now (by rw [R.self.1, R.stabNum])
  · exact R.stamps'.var
  · intro c; exact (R.stamps'.node c).2

/-- an edge of the new graph that leaves a kept node other than the main node is an edge of the old graph -/
theorem StepL2.edge_old (R : StepL2 env n b br br' r s s') (g : BGraph env s)
    (hnv : (s.nodeD n).valid = true) {a c : Nat}
    (ha : a < s.nodes.size) (hmain : a ≠ br.main) (he : Edge s' a c) : Edge s a c := by
  have hv' := he.valid
  -- a scope edge of an old valid node that keeps its scope: rebuild the edge from the old tables
  have hscope : ∀ (b2 : Nat) (br2 : BindRec), (s.nodeD a).valid = true → (s.nodeD a).createdIn = .bind b2 →
      s'.binds[b2]? = some br2 → Edge s a br2.lhsChange := by
    intro b2 br2 hv hsc hb
    obtain ⟨br0, h0, -⟩ := g.scope a b2 ha hv hsc
    obtain ⟨br1, k1, k2, -⟩ := P3.rec_old R h0
    rw [k1] at hb; cases hb
    rw [k2]
    exact Edge.scope hv hsc h0
  by_cases han : a = n
  · subst han
    cases he with
    | child hc => rw [R.self.2.2.2.2.2.1] at hc; exact Edge.child hc
    | scope hv2 hsc hb =>
      rename_i b2 br2
      exact hscope b2 br2 hnv (R.self.2.2.2.2.2.2.symm.trans hsc) hb
  · obtain ⟨hv, -, k2, -, -, -, k6⟩ := R.kept ha han hv'
    cases he with
    | child hc => rw [k6 hmain] at hc; exact Edge.child hc
    | scope hv2 hsc hb =>
      rename_i b2 br2
      rw [k2] at hsc
      exact hscope b2 br2 hv hsc hb

/-- the key of the `fresh` field: a path of the new graph from a kept old node to a node that is stale (or handed
over) afterwards gives, in the OLD graph, a path to a node that was stale before (and is not `n`), or to `n` itself -/
theorem StepL2.path_old (R : StepL2 env n b br br' r s s') (I : DInv env s (some n))
    (hk : (s.nodeD n).kind = .bindLhsChange b) {a d : Nat} (h : Below s' a d)
    (hd : s'.isStale d = true ∨ r = some d) (ha : a < s.nodes.size)
    (hva : (s'.nodeD a).valid = true) :
    ∃ d0, Below s a d0 ∧ ((s.isStale d0 = true ∧ d0 ≠ n) ∨ (d0 = n ∧ a ≠ n)) := by
  have g := I.graph
  obtain ⟨hn, hnlt, hnv, -, -⟩ := I.cur_facts
  obtain ⟨hmlt, hmc, hmc', hmn⟩ := R.main
  -- the main node always works
  have hmainOK : ∀ x, x = br.main → ∃ d0, Below s x d0 ∧ ((s.isStale d0 = true ∧ d0 ≠ n) ∨ (d0 = n ∧ x ≠ n)) := by
    intro x hx
    subst hx
    exact ⟨n, Below.of_edge (Edge.child hmc), Or.inr ⟨rfl, hmn⟩⟩
  induction h with
  | refl a =>
    by_cases ham : a = br.main
    · exact hmainOK a ham
    by_cases han : a = n
    · exfalso
      subst han
      rcases hd with hd | hd
      · rw [R.self_fresh I] at hd; cases hd
      · exact hmn.symm ((R.ret a hd).1)
    · rcases hd with hd | hd
      · rw [R.stale_kept g hk ha han ham hva] at hd
        exact ⟨a, Below.refl a, Or.inl ⟨hd, han⟩⟩
      · exact absurd (R.ret a hd).1 ham
  | step he hcd ih =>
    rename_i a c d
    by_cases ham : a = br.main
    · exact hmainOK a ham
    have he0 : Edge s a c := R.edge_old g hnv ha ham he
    -- `c` is an old node that is still valid
    have hc : c < s.nodes.size ∧ (s'.nodeD c).valid = true :=
      ⟨(g.edge_target he0).1, (R.graph'.edge_target he).2⟩
    obtain ⟨d0, hb0, hcase⟩ := ih hd hc.1 hc.2
    refine ⟨d0, Below.step he0 hb0, ?_⟩
    rcases hcase with h1 | ⟨h1, h2⟩
    · exact Or.inl h1
    · refine Or.inr ⟨h1, ?_⟩
      intro e
      subst e
      subst h1
      exact g.no_cycle hb0 he0

/-- **A run of a change detector re-establishes the drain invariant** (nested contract), with the bind's main node as
the new current node if it was handed over. -/
theorem stepL2_inv (I : DInv env s (some n)) (hk : (s.nodeD n).kind = .bindLhsChange b)
    (R : StepL2 env n b br br' r s s') : DInv env s' r := by
  have g := I.graph
  obtain ⟨hn, hnlt, hnv, hnq, hnr⟩ := I.cur_facts
  obtain ⟨hmlt, hmc, hmc', hmn⟩ := R.main
  refine ⟨R.graph', R.heap', R.stamps', R.qstale', R.pending', ?_, ?_, ?_⟩
  · -- cons
    intro m hmlt' hmv hst
    by_cases hnew : s.nodes.size ≤ m
    · rw [(R.new m hnew hmlt').2.2 hmv] at hst; cases hst
    have hm : m < s.nodes.size := by omega
    by_cases hmn' : m = n
    · subst hmn'
      refine ⟨.unit, ?_, R.self.2.2.1⟩
      unfold TargetB
      rw [R.self.2.2.2.2.1, hk]
    by_cases hmm : m = br.main
    · subst hmm
      rw [R.main_stale I hmv] at hst; cases hst
    obtain ⟨hv, k1, -, k3, -, -, k6⟩ := R.kept hm hmn' hmv
    have hB := (g.node m hm hv).1
    rw [R.stale_kept g hk hm hmn' hmm hmv] at hst
    obtain ⟨w, hw, hval⟩ := I.cons m hm hv hst
    refine ⟨w, ?_, by rw [k3]; exact hval⟩
    apply TargetB.congr2 hv hB k1 R.vars _ _ hw
    · intro b2 lc2 hk2 br0 h0
      have hb2 : b2 ≠ b := by
        intro hb2
        subst hb2
        obtain ⟨br1, h2, h3, -⟩ := g.mainRec m b2 lc2 hm hv hk2
        rw [R.bind] at h2; cases h2
        exact hmm h3.symm
      obtain ⟨br1, k1, -, -, k4⟩ := P3.rec_old R h0
      exact ⟨br1, k1, k4 hb2⟩
    · intro c hc
      have hclt := ((g.node m hm hv).2.2 c hc).1
      have hcn : c ≠ n := by
        intro e; subst e
        exact hmm (R.lc_only g hk hm hv hc)
      have hcv' : (s'.nodeD c).valid = true :=
        ((R.graph'.node m hmlt' hmv).2.2 c (by rw [k6 hmm]; exact hc)).2
      exact (R.kept hclt hcn hcv').2.2.2.1
  · -- fresh
    intro a d hbel hd
    rw [R.stabNum]
    by_cases hnew : s.nodes.size ≤ a
    · by_cases ha' : a < s'.nodes.size
      · rw [(R.new a hnew ha').1]; have := I.stamps.now; omega
      · rw [nodeD_default_of_ge s' a (by omega)]
        show (-1 : Int) < s.stabNum
        have := I.stamps.now; omega
    have ha : a < s.nodes.size := by omega
    -- an invalid node has no edges and is neither stale nor handed over
    cases hva : (s'.nodeD a).valid with
    | false =>
      exfalso
      have had : a = d := by
        cases hbel with
        | refl => rfl
        | step he _ => rw [he.valid] at hva; cases hva
      subst had
      rcases hd with hd | hd
      · rw [isStale_invalid hva] at hd; cases hd
      · obtain ⟨-, -, h3, -⟩ := R.ret a hd
        rw [(R.graph'.nec a h3).1] at hva; cases hva
    | true =>
      obtain ⟨d0, hb0, hcase⟩ := R.path_old I hk hbel hd ha hva
      have key : (s.nodeD a).recomputedAt < s.stabNum ∧ a ≠ n := by
        rcases hcase with ⟨h1, h2⟩ | ⟨h1, h2⟩
        · refine ⟨I.fresh a d0 hb0 (Or.inl h1), ?_⟩
          intro e
          subst e
          have hdn := (g.below_nec hb0 hn).1
          rcases I.pending d0 hdn h1 with h3 | h3
          · rw [(I.cur a rfl).2 d0 hb0] at h3; cases h3
          · injection h3 with h3; exact h2 h3.symm
        · subst h1
          exact ⟨I.fresh a d0 hb0 (Or.inr rfl), h2⟩
      rw [(R.kept ha key.2 hva).2.2.2.2.1]
      exact key.1
  · -- cur
    intro p hp
    obtain ⟨-, hq, hnec, hmin⟩ := R.ret p hp
    refine ⟨hnec, ?_⟩
    intro d hd
    by_cases hdp : d = p
    · rw [hdp]; exact hq
    · cases hq' : (s'.nodeD d).inRch with
      | false => rfl
      | true =>
        have := hmin d hq'
        have := R.graph'.below_lt hd hnec (Ne.symm hdp)
        omega

end

end IncrVerif.Proofs.NestH
