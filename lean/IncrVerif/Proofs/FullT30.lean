import IncrVerif.Proofs.FullT26
import IncrVerif.Proofs.FullT20
import IncrVerif.Proofs.FullT24
/-!
# C04 combined fragment: discharging the contracts (part 1: the `map_with_old` step), the fuel bounds
-/
namespace IncrVerif.Proofs.FullT
open IncrVerif.Engine IncrVerif.Driver IncrVerif.Proofs IncrVerif.Proofs.Step IncrVerif.Proofs.Sched IncrVerif.Proofs.Quiet IncrVerif.Proofs.FullH
open IncrVerif.Proofs.NestH (DT TotIf HasRoomG LcStepTotG stepFuel)

theorem mwoTotC (env : Env) (sp : Nat → Val → Val) (N : Nat) : MwoTotC env sp N :=
  ⟨fun _ _ _ _ _ _ _ D hP T hroom hk hf hf1 => step_mwo_returns' D hP T hroom hk hf hf1,
   fun _ _ _ _ _ _ _ _ _ D T hk h => step_mwo_dt D T hk h⟩

/-- the fuel one step of the drain needs in a state with `sz` nodes (the bound of the runs of change detectors of NestH) -/
theorem stepFuel_facts : (∀ sz, sz ≤ stepFuel sz) ∧ (∀ sz, 1 ≤ stepFuel sz) ∧ (∀ sz, 3 * sz + 3 ≤ stepFuel sz) ∧
    (∀ a b, a ≤ b → stepFuel a ≤ stepFuel b) := by
  unfold stepFuel
  refine ⟨?_, ?_, ?_, ?_⟩ <;> intros <;> omega

end IncrVerif.Proofs.FullT
