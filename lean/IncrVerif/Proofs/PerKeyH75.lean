import IncrVerif.Proofs.PerKeyH49
import IncrVerif.Proofs.PerKeyH24
/-!
# Per-key operators, static steps part 6: `StaticStepSpec`, closed with `pk-slots`' `step_slots`
-/
namespace IncrVerif.Proofs.PerKeyH
open IncrVerif.Engine IncrVerif.Driver IncrVerif.Proofs IncrVerif.Proofs.Step IncrVerif.Proofs.Sched
open IncrVerif.Proofs.ExpertH IncrVerif.Proofs.EffH IncrVerif.Proofs.DriverH

/-- **`EnvP env → StaticStepSpec env`** -/
theorem staticStepSpec {env : Env} (hE : EnvP env) : StaticStepSpec env :=
  staticStepSpec_of hE fun fuel n s s' r D _ _ hf h =>
    step_slots D (fun op args hk => by have := hf _ _ hk; omega) h

end IncrVerif.Proofs.PerKeyH
