import IncrVerif.Proofs.ExpertH44
import IncrVerif.Proofs.ExpertH23
import IncrVerif.Proofs.ExpertLemmas
/-!
# Expert nodes, `add_dependency`: the bookkeeping step, read in the virtual state

* `addedState e er c cb s`: `s` after `nextDep` was bumped and the new edge appended to record `e` (with `forceStale`).
* `rekind_added`: in the virtual state this is a `Rekind` of the expert's node.
* `XFrag.added`, `allStatic_virt`, `rankOK_of_allStatic`.
* `expertAddDependency_necessary_factor`: on a necessary expert node the call continues, from `addedState`, with
  `stateAddParent`, the `needs-to-be-computed` assertion and the heap insertion.
-/
namespace IncrVerif.Proofs.ExpertH
open IncrVerif.Engine IncrVerif.Driver IncrVerif.Proofs IncrVerif.Proofs.Step IncrVerif.Proofs.Sched
open IncrVerif.Proofs.ExpertH.QR IncrVerif.Proofs.Xp

/-- `s` after the bookkeeping of `expert_add_dependency` on record `e` (which is `er`) -/
def addedState (e : Nat) (er : ExpertRec) (c : Nat) (cb : Bool) (s : State) : State :=
  putExpert e { er with children := er.children ++ [newEdge s c cb], forceStale := true } (bumpDep s)

/-- the virtual node only depends on the record its kind names -/
theorem virtNode_congrD {xs xs' : Array ExpertRec} {nd : Node}
    (h : ∀ e, nd.kind = .expert e → xRec xs' e = xRec xs e) : virtNode xs' nd = virtNode xs nd := by
  have h1 : virtKind xs' nd.kind = virtKind xs nd.kind := by
    cases hk : nd.kind <;> simp only [virtKind]
    rw [h _ hk]
  have h2 : forced xs' nd.kind = forced xs nd.kind := by
    cases hk : nd.kind <;> simp only [forced]
    rw [h _ hk]
  unfold virtNode
  rw [h1, h2]

section
variable {env : Env} {s : State} {n e c : Nat} {nd : Node} {er : ExpertRec} {cb : Bool}

theorem addedState_nodeD (m : Nat) : (addedState e er c cb s).nodeD m = s.nodeD m := rfl
theorem addedState_nodes : (addedState e er c cb s).nodes = s.nodes := rfl

theorem addedState_get (hx : s.experts[e]? = some er) :
    (addedState e er c cb s).experts[e]? =
      some { er with children := er.children ++ [newEdge s c cb], forceStale := true } :=
  putExpert_get (s := bumpDep s) _ hx

theorem addedState_get_ne {e' : Nat} (h : e' ≠ e) : (addedState e er c cb s).experts[e']? = s.experts[e']? :=
  putExpert_get_ne _ _ (Ne.symm h)

theorem addedState_xRec_ne {e' : Nat} (h : e' ≠ e) : xRec (addedState e er c cb s).experts e' = xRec s.experts e' := by
  unfold xRec; rw [addedState_get_ne h]

theorem addedState_xRec (hx : s.experts[e]? = some er) :
    xRec (addedState e er c cb s).experts e =
      { er with children := er.children ++ [newEdge s c cb], forceStale := true } :=
  xRec_some (addedState_get hx)

/-- the virtual kind of the expert node after the edge was added -/
def addedKind (er : ExpertRec) (c : Nat) : Kind :=
  .fold (xBase + er.f) (.int 0) (er.children.map (·.child) ++ [c])

theorem XFrag.lt_of_expert (_F : XFrag env s) (hk : (s.nodeD n).kind = .expert e) : n < s.nodes.size := by
  by_cases h : n < s.nodes.size
  · exact h
  · rw [nodeD_default_of_ge s n (by omega)] at hk; cases hk

/-- **the bookkeeping step is a kind change of the virtual node** -/
theorem rekind_added (F : XFrag env s) (hk : (s.nodeD n).kind = .expert e) (hx : s.experts[e]? = some er) :
    Rekind n (addedKind er c) (virt s) (virt (addedState e er c cb s)) := by
  have hlt := F.lt_of_expert hk
  refine ⟨by rw [virt_size]; exact hlt, by rw [virt_size, virt_size]; rfl, rfl, rfl, rfl, rfl, rfl, ?_, ?_⟩
  · intro m hm
    rw [virt_nodeD, virt_nodeD, addedState_nodeD]
    apply virtNode_congrD
    intro e' he'
    have : e' ≠ e := by
      intro h; rw [h] at he'; exact hm (F.xinj he' hk)
    exact addedState_xRec_ne this
  · rw [virt_nodeD, virt_nodeD, addedState_nodeD]
    unfold virtNode
    simp only [hk, virtKind, forced, addedState_xRec hx, addedKind, List.map_append, List.map_cons, List.map_nil,
      newEdge, if_true]

theorem XFrag.added (F : XFrag env s) (hx : s.experts[e]? = some er) : XFrag env (addedState e er c cb s) where
  pc := F.pc
  kind := F.kind
  valid := F.valid
  xrec m e' hm hk' := by
    obtain ⟨er', h1, h2⟩ := F.xrec m e' hm hk'
    by_cases h : e' = e
    · subst h
      rw [hx] at h1; cases h1
      exact ⟨_, addedState_get hx, h2⟩
    · exact ⟨er', by rw [addedState_get_ne h]; exact h1, h2⟩
  xok e' er' h' := by
    by_cases h : e' = e
    · subst h
      rw [addedState_get hx] at h'; cases h'
      exact F.xok e' er hx
    · rw [addedState_get_ne h] at h'; exact F.xok e' er' h'

end

/-! ## ranks and the virtual fragment -/

section
variable {env : Env} {rk : Nat → Nat} {s : State}

/-- the rank of the virtual state is a rank of the actual graph -/
theorem rankOK_of_allStatic (A : AllStatic (virtEnv env) rk (virt s)) : RankOK rk s where
  kidsLt m hm c hc := by
    have := (A.node m (by rw [virt_size]; exact hm)).kidsLt c (by rw [virt_kids]; exact hc)
    exact this
  kidsIn m hm c hc := by
    have := (A.node m (by rw [virt_size]; exact hm)).kidsIn c (by rw [virt_kids]; exact hc)
    rwa [virt_size] at this
  inj := A.inj
  top := by have := A.top; rwa [virt_size] at this

/-- the static facts of the nodes that do not depend on kinds and ranks -/
def PlainNodes (s : State) : Prop :=
  s.currentScope = .top ∧ ∀ m, m < s.nodes.size →
    (s.nodeD m).cutoff = .eq ∧ (s.nodeD m).createdIn = .top ∧ (s.nodeD m).forceNecessary = false

theorem plainNodes_of_allStatic (A : AllStatic (virtEnv env) rk (virt s)) : PlainNodes s := by
  refine ⟨A.scope, fun m hm => ?_⟩
  have sn := A.node m (by rw [virt_size]; exact hm)
  have h1 := sn.cutoff; have h2 := sn.top; have h3 := sn.force
  rw [virt_nodeD] at h1 h2 h3
  exact ⟨h1, h2, h3⟩

theorem allStatic_virt (F : XFrag env s) (R : RankOK rk s) (P : PlainNodes s) :
    AllStatic (virtEnv env) rk (virt s) where
  pc := F.pc
  scope := P.1
  node m hm := by
    rw [virt_size] at hm
    obtain ⟨h1, h2, h3⟩ := P.2 m hm
    refine ⟨by rw [virt_nodeD]; exact F.valid m hm, by rw [virt_nodeD]; exact staticKind_virt (F.kind m hm),
      by rw [virt_nodeD]; exact h1, by rw [virt_nodeD]; exact h2, by rw [virt_nodeD]; exact h3, ?_, ?_⟩
    · intro c hc; rw [virt_kids] at hc; exact R.kidsLt m hm c hc
    · intro c hc; rw [virt_kids] at hc; rw [virt_size]; exact R.kidsIn m hm c hc
  inj := R.inj
  top := by rw [virt_size]; exact R.top

end

/-! ## the call on a necessary node -/

/-- on a necessary expert node the call continues from `addedState` -/
theorem expertAddDependency_necessary_factor (env : Env) (fuel n child : Nat) (cb : Bool) {s : State}
    {nd : Node} {e : Nat} {er : ExpertRec} (hx : IsExpert s n nd e er) (hnec : nd.isNecessary = true) :
    (expertAddDependency env fuel n child cb).run.run s =
      (do stateAddParent env fuel child er.children.length n
          dassert ((← get).needsToBeComputed n) "node:expert_add_dependency:needs-to-be-computed"
          if !(← getNode n).inRch then rchInsert n
          pure s.nextDep : M Nat).run.run (addedState e er child cb s) := by
  unfold expertAddDependency
  rw [run_bind_get, run_bind_modify]
  have hx' : IsExpert { s with nextDep := s.nextDep + 1 } n nd e er := ⟨hx.node, hx.valid, hx.kind, hx.xrec⟩
  rw [run_bind_ok hx'.run_expertOf]
  simp only
  rw [run_bind_ok (run_getExpert_some hx'.xrec), run_bind_ok (run_modExpert_some _ hx'.xrec), run_bind_get]
  have hn : (putExpert e { er with
      children := er.children ++ [{ dep := s.nextDep, child := child, cb := if cb = true then some s.nextDep else none }],
      forceStale := true } { s with nextDep := s.nextDep + 1 }).isNecessary n = true := by
    simp [State.isNecessary, State.nodeD, hx.node, hnec]
  rw [hn]
  rfl

end IncrVerif.Proofs.ExpertH
