import IncrVerif.Proofs.PerKeyH22
/-! # twin simulation, part 7: the expert API (`expert_make_stale`, `expert_add_dependency`,
`expert_remove_dependency`); no `Sim` analogue -/
namespace IncrVerif.Proofs.PerKeyH
open IncrVerif.Engine IncrVerif.Driver IncrVerif.Proofs IncrVerif.Proofs.Step IncrVerif.Proofs.Sched
open IncrVerif.Proofs.ExpertH IncrVerif.Proofs.EffH

theorem TSim.assertRunningIsChild (n : Nat) (name : String) :
    TSim (Engine.assertRunningIsChild n name) (Engine.assertRunningIsChild n name) := by
  apply TSim.ofL; intro s l; unfold Engine.assertRunningIsChild; tsim
  cases s.currentlyRunning <;> tsim
macro_rules | `(tactic| tsim_leaf) => `(tactic|
  with_reducible exact IncrVerif.Proofs.PerKeyH.TSim.assertRunningIsChild _ _)

theorem TSim.expertOf (n : Nat) : TSim (Engine.expertOf n) (Engine.expertOf n) := by
  apply TSim.ofL; intro s l; unfold Engine.expertOf; tsim
  tsim_kind
macro_rules | `(tactic| tsim_leaf) => `(tactic| with_reducible exact IncrVerif.Proofs.PerKeyH.TSim.expertOf _)

theorem TSim.expertMakeStale (n : Nat) : TSim (Engine.expertMakeStale n) (Engine.expertMakeStale n) := by
  apply TSim.ofL; intro s l; unfold Engine.expertMakeStale; tsim
  rename_i r _ _ _
  cases r <;> tsim

theorem TSim.expertAddDependency (env : Env) (fuel n child : Nat) (cb : Bool) :
    TSim (Engine.expertAddDependency env fuel n child cb) (Engine.expertAddDependency (twEnv env) fuel n child cb) := by
  apply TSim.ofL; intro s l; unfold Engine.expertAddDependency; tsim
  rename_i r _ _ _
  cases r <;> tsim

theorem TSim.swapEdgeIndices (n c1 i1 c2 i2 : Nat) :
    TSim (Engine.swapEdgeIndices n c1 i1 c2 i2) (Engine.swapEdgeIndices n c1 i1 c2 i2) := by
  apply TSim.ofL; intro s l; unfold Engine.swapEdgeIndices; tsim
macro_rules | `(tactic| tsim_leaf) => `(tactic|
  with_reducible exact IncrVerif.Proofs.PerKeyH.TSim.swapEdgeIndices _ _ _ _ _)

theorem TSim.expertRemoveDependency (fuel n dep : Nat) :
    TSim (Engine.expertRemoveDependency fuel n dep) (Engine.expertRemoveDependency fuel n dep) := by
  apply TSim.ofL; intro s l; unfold Engine.expertRemoveDependency; tsim
  rename_i r _ _ _
  cases r <;> tsim
  cases List.findIdx? (fun x => x.dep == dep) er.children <;> tsim
  all_goals (exfalso; rename_i h; simp [hval] at h)

end IncrVerif.Proofs.PerKeyH
