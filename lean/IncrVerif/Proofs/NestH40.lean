import IncrVerif.Proofs.NestH39
/-!
# Nested binds (F2), the run of a change detector, part 5: `F2Inv` is kept (under the extended rank); the headline theorem

Port of `BindH77` (`CC5`).
-/
namespace IncrVerif.Proofs.NestH
open IncrVerif.Engine IncrVerif.Proofs IncrVerif.Proofs.Step IncrVerif.Proofs.Sched IncrVerif.Proofs.Quiet
open IncrVerif.Proofs.BindH
namespace NC

namespace Mid2
variable {env : Env} {rk rk' : Nat → Nat} {n b rhs : Nat} {br : BindRec} {l : List Nat} {r : Option Nat}
  {s t s' : State}

/-- a record of the final bind table: the new record of bind `b`, an old record (its list emptied if its main node died), or the record of an inner bind
created by the closure run -/
theorem bind_back (X : Mid2 env rk rk' n b rhs br l r s t s') {b' : Nat} {br' : BindRec}
    (h : s'.binds[b']? = some br') :
    (b' = b ∧ br' = { { br with allNodesCreatedOnRhs := l } with rhs := some rhs }) ∨
    (b' ≠ b ∧ ∃ br0, s.binds[b']? = some br0 ∧
      ((Dying s br.allNodesCreatedOnRhs br0.main ∧ br' = { br0 with allNodesCreatedOnRhs := [] }) ∨
       (¬ Dying s br.allNodesCreatedOnRhs br0.main ∧ br' = br0))) ∨
    (s.binds.size ≤ b' ∧ t.binds[b']? = some br') := by
  rw [X.step.binds] at h
  by_cases e : b' = b
  · subst e
    rw [X.rel.bind] at h
    exact Or.inl ⟨rfl, (Option.some.inj h).symm⟩
  · by_cases hlt : b' < s.binds.size
    · obtain ⟨br0, h0⟩ := getElem?_some_of_lt hlt
      obtain ⟨k1, k2⟩ := X.rel.bindsOld b' br0 e h0
      refine Or.inr (Or.inl ⟨e, br0, h0, ?_⟩)
      by_cases hd : Dying s br.allNodesCreatedOnRhs br0.main
      · rw [k1 hd] at h
        exact Or.inl ⟨hd, (Option.some.inj h).symm⟩
      · rw [k2 hd] at h
        exact Or.inr ⟨hd, (Option.some.inj h).symm⟩
    · exact Or.inr (Or.inr ⟨by omega, h⟩)

theorem top (X : Mid2 env rk rk' n b rhs br l r s t s') : s'.top = s.top := X.last.top.trans X.rel.top

/-- what the whole run keeps of a surviving node -/
theorem surv (X : Mid2 env rk rk' n b rhs br l r s t s') {m : Nat} (hlt : m < s.nodes.size)
    (hd : ¬ Dying s br.allNodesCreatedOnRhs m) :
    (s'.nodeD m).kind = (s.nodeD m).kind ∧ (s'.nodeD m).valid = (s.nodeD m).valid ∧
      (s'.nodeD m).createdIn = (s.nodeD m).createdIn ∧ (s'.nodeD m).cutoff = (s.nodeD m).cutoff := by
  have k := X.rel.nk m hlt hd
  have sh := X.step.shapes m
  exact ⟨sh.kind.trans k.kind, sh.valid.trans k.valid, sh.createdIn.trans k.createdIn, sh.cutoff.trans k.cutoff⟩

/-- what the whole run keeps of EVERY old node, dying or not -/
theorem oldS (X : Mid2 env rk rk' n b rhs br l r s t s') {m : Nat} (hlt : m < s.nodes.size) :
    (s'.nodeD m).kind = (s.nodeD m).kind ∧ (s'.nodeD m).createdIn = (s.nodeD m).createdIn ∧
      (s'.nodeD m).cutoff = (s.nodeD m).cutoff := by
  have sh := X.step.shapes m
  by_cases hd : Dying s br.allNodesCreatedOnRhs m
  · obtain ⟨-, d2, d3, d4, -⟩ := X.rel.dead m hd
    exact ⟨sh.kind.trans d2, sh.createdIn.trans d3, sh.cutoff.trans d4⟩
  · obtain ⟨k1, -, k3, k4⟩ := X.surv hlt hd
    exact ⟨k1, k3, k4⟩

/-- a dying node is invalid in the final state -/
theorem deadS (X : Mid2 env rk rk' n b rhs br l r s t s') {m : Nat} (hd : Dying s br.allNodesCreatedOnRhs m) :
    (s'.nodeD m).valid = false := by
  rw [(X.step.shapes m).valid]; exact (X.rel.dead m hd).1

/-- the extended rank orders named top-level nodes against old change detectors as the old rank does -/
theorem rk_named (X : Mid2 env rk rk' n b rhs br l r s t s') (A : F2Inv env rk s) {lc : Nat}
    (hlc : lc < s.nodes.size) (r0 : Nat) (h : rk r0 < rk lc) (hn : ∃ k : Nat, s.top[k]? = some r0) :
    rk' r0 < rk' lc := by
  obtain ⟨k, hk⟩ := hn
  exact (X.ext r0 lc (A.topOK k r0 hk).1 hlc).2 h

end Mid2

/-- **the run of a change detector in F2 keeps `F2Inv`** (under the extended rank) -/
theorem f2Inv_of_mid {env : Env} {rk rk' : Nat → Nat} {n b rhs : Nat} {br : BindRec} {l : List Nat}
    {r : Option Nat} {s t s' : State}
    (A : F2Inv env rk s) (hk : (s.nodeD n).kind = .bindLhsChange b) (X : Mid2 env rk rk' n b rhs br l r s t s') :
    F2Inv env rk' s' where
  frag := KeyEq2.frag2 X.keyEq X.ginv.frag X.step.pc (X.last.scope.trans X.ginv.frag.scope)
  nodup c := by rw [(X.step.shapes c).parents]; exact X.ginv.nodup c
  ahh := by
    refine ⟨by rw [X.last.ahh]; exact X.ahh.length, ?_, fun m => (X.last.marks m).trans (X.ahh.marks m)⟩
    intro i hi
    have hi' : i < t.ahh.queues.size := by rw [← X.last.ahh]; exact hi
    have := X.ahh.buckets i hi'
    simp only [X.last.ahh]; exact this
  pinv := X.last.pinv.trans X.pinv
  noForce m := by rw [(X.step.shapes m).forceNecessary]; exact X.noForce m
  noHandlers m := by rw [X.num]; exact X.noHandlers m
  inv m hv := by
    rw [(X.step.shapes m).valid] at hv
    obtain ⟨h1, h2, -, h4, -⟩ := X.ginv.inv m hv
    refine ⟨by rw [(X.step.shapes m).parents]; exact h1, by rw [(X.step.shapes m).observers]; exact h2, ?_⟩
    cases hq : (s'.nodeD m).inRch with
    | false => rfl
    | true =>
      exfalso
      rcases X.step.newIn m hq with h | ⟨-, h⟩
      · rw [h4] at h; cases h
      · have e := X.par_n A hk h
        rw [e] at hv
        have hvm := X.validMain
        rw [hv] at hvm; cases hvm
  scopeObs m b' h := by
    rw [(X.step.shapes m).createdIn] at h
    rw [(X.step.shapes m).observers]; exact X.ginv.scopeObs m b' h
  lcObs m b' h := by
    rw [(X.step.shapes m).kind] at h
    rw [(X.step.shapes m).observers]; exact X.ginv.lcObs m b' h
  lcCut m b' h := by
    rw [(X.step.shapes m).kind] at h
    rw [(X.step.shapes m).cutoff]
    exact X.rel.lcCut m b' h
  topOK k r0 h := by
    rw [X.top] at h
    obtain ⟨h1, h2, h3⟩ := A.topOK k r0 h
    obtain ⟨k1, k3, -⟩ := X.oldS h1
    refine ⟨?_, by rw [k3]; exact h2, fun b'' => by rw [k1]; exact h3 b''⟩
    rw [X.step.size]; have := X.rel.grow; omega
  closures b' br' h := by
    rcases X.bind_back h with ⟨e, e2⟩ | ⟨-, br0, h0, hc⟩ | ⟨hge, ht⟩
    · obtain ⟨f, hf⟩ := A.closures b br X.pre.hb
      rw [e2]
      exact ⟨f, BodyOK2.mono X.top (X.rk_named A (A.frag.lc_lt X.pre.hb)) f _ hf⟩
    · obtain ⟨f, hf⟩ := A.closures b' br0 h0
      have hf' := BodyOK2.mono X.top (X.rk_named A (A.frag.lc_lt h0)) f _ hf
      rcases hc with ⟨-, e2⟩ | ⟨-, e2⟩
      · rw [e2]; exact ⟨f, hf'⟩
      · rw [e2]; exact ⟨f, hf'⟩
    · obtain ⟨-, -, -, ⟨f, hf⟩, -⟩ := X.rel.bindsNew b' br' hge ht
      exact ⟨f, BodyOK2.mono X.last.top (fun r h _ => h) f _ hf⟩
  lhsOK b' br' h hv b'' := by
    -- an old live record: the lhs is a child of the change detector, hence an old node
    have old : ∀ (b0 : Nat) (br0 : BindRec), s.binds[b0]? = some br0 → (s'.nodeD br0.lhsChange).valid = true →
        (s'.nodeD br0.lhs).kind ≠ .bindLhsChange b'' := by
      intro b0 br0 h0 hv0
      have hlc := A.frag.lc_lt h0
      have hd : ¬ Dying s br.allNodesCreatedOnRhs br0.lhsChange := fun hd => by
        rw [X.deadS hd] at hv0; cases hv0
      have hvs : (s.nodeD br0.lhsChange).valid = true := by
        rw [← (X.surv hlc hd).2.1]; exact hv0
      have hlt : br0.lhs < s.nodes.size :=
        (A.frag.node _ hlc).kidsIn br0.lhs (by rw [lc_children_all A.frag h0 hvs]; exact List.mem_cons_self ..)
      rw [(X.oldS hlt).1]
      exact A.lhsOK b0 br0 h0 hvs b''
    rcases X.bind_back h with ⟨e, e2⟩ | ⟨-, br0, h0, hc⟩ | ⟨hge, ht⟩
    · rw [e2] at hv ⊢
      exact old b br X.pre.hb hv
    · rcases hc with ⟨-, e2⟩ | ⟨-, e2⟩
      · rw [e2] at hv ⊢
        exact old b' br0 h0 hv
      · rw [e2] at hv ⊢
        exact old b' br0 h0 hv
    · obtain ⟨-, -, -, -, h5⟩ := X.rel.bindsNew b' br' hge ht
      rw [(X.step.shapes _).kind]
      exact h5 b''
  rhsNone b' br' h hr := by
    rcases X.bind_back h with ⟨e, e2⟩ | ⟨-, br0, h0, hc⟩ | ⟨hge, ht⟩
    · rw [e2] at hr; cases hr
    · rcases hc with ⟨-, e2⟩ | ⟨-, e2⟩
      · rw [e2]
      · rw [e2] at hr ⊢
        exact A.rhsNone b' br0 h0 hr
    · exact (X.rel.bindsNew b' br' hge ht).2.1
  deadNone b' br' h hv := by
    rcases X.bind_back h with ⟨e, e2⟩ | ⟨-, br0, h0, hc⟩ | ⟨hge, ht⟩
    · exfalso
      rw [e2] at hv
      have : (s'.nodeD br.main).valid = false := hv
      rw [(X.step.shapes _).valid, X.validMain] at this
      cases this
    · rcases hc with ⟨-, e2⟩ | ⟨hd, e2⟩
      · rw [e2]
      · rw [e2] at hv ⊢
        obtain ⟨-, r2, -⟩ := A.frag.recs b' br0 h0
        rw [(X.surv r2 hd).2.1] at hv
        exact A.deadNone b' br0 h0 hv
    · exact (X.rel.bindsNew b' br' hge ht).2.1
  rhsOK b' br' o h ho hv := by
    rcases X.bind_back h with ⟨e, e2⟩ | ⟨e, br0, h0, hc⟩ | ⟨hge, ht⟩
    · rw [e2] at ho
      have eo : rhs = o := Option.some.inj ho
      rw [← eo, e, e2]
      refine ⟨fun b'' => by rw [(X.step.shapes rhs).kind]; exact X.rhsK b'', ?_⟩
      rcases X.rhsOK with ⟨c1, c2, -⟩ | ⟨c1, c2⟩
      · left
        refine ⟨(X.step.shapes rhs).createdIn.trans c1, ?_⟩
        show rk' rhs < rk' br.lhsChange
        rw [X.pre.hlc]; exact c2
      · right
        obtain ⟨d1, d2, -⟩ := X.rel.new rhs c1 c2
        exact ⟨(X.step.shapes rhs).createdIn.trans d1, (X.step.shapes rhs).valid.trans d2⟩
    · have hd : ¬ Dying s br.allNodesCreatedOnRhs br0.main := by
        rcases hc with ⟨hd, e2⟩ | ⟨hd, -⟩
        · exfalso
          rw [e2] at hv
          have : (s'.nodeD br0.main).valid = true := hv
          rw [X.deadS hd] at this; cases this
        · exact hd
      have e2 : br' = br0 := by
        rcases hc with ⟨hd', -⟩ | ⟨-, e2⟩
        · exact absurd hd' hd
        · exact e2
      rw [e2] at ho hv ⊢
      obtain ⟨-, r2, -⟩ := A.frag.recs b' br0 h0
      have hvs : (s.nodeD br0.main).valid = true := by rw [← (X.surv r2 hd).2.1]; exact hv
      obtain ⟨k0, hk'⟩ := A.rhsOK b' br0 o h0 ho hvs
      have hoc : o ∈ s.children br0.main := by
        rw [main_children_all A.frag h0 hvs, ho]
        exact List.mem_cons_of_mem _ (List.mem_cons_self ..)
      have hlt : o < s.nodes.size := (A.frag.node br0.main r2).kidsIn o hoc
      obtain ⟨o1, o2, -⟩ := X.oldS hlt
      refine ⟨fun b'' => by rw [o1]; exact k0 b'', ?_⟩
      rcases hk' with ⟨c1, c2⟩ | ⟨c1, c2⟩
      · left
        exact ⟨by rw [o2]; exact c1, (X.ext o br0.lhsChange hlt (A.frag.lc_lt h0)).2 c2⟩
      · right
        have hdo := X.pre.notDying_of_main A c1 h0 e hd
        exact ⟨by rw [o2]; exact c1, by rw [(X.surv hlt hdo).2.1]; exact c2⟩
    · rw [(X.rel.bindsNew b' br' hge ht).1] at ho; cases ho

end NC

/-- **A run of a change detector (`recomputeOne` on a `bindLhsChange` node) in fragment F2** (closures create nodes and inner binds; the change detector
may itself be a node of an outer scope) is described by `StepL2` and keeps `F2Inv` under an extended rank; the three hypotheses are the contracts of the
closure run, of `lhsRelink` and of `lhsInvalidateOld`. -/
theorem recomputeOne_lcF2 {env : Env} (CS : ClosureSpec2 env) (RS : RelinkSpec2 env) (IS : InvalSpec2 env)
    {fuel n b : Nat} {rk : Nat → Nat} {s s' : State} {r : Option Nat}
    (I : DInv env s (some n)) (A : F2Inv env rk s) (hk : (s.nodeD n).kind = .bindLhsChange b)
    (h : (recomputeOne env fuel n).run.run s = (.ok r, s')) :
    ∃ br br' rk', StepL2 env n b br br' r s s' ∧ F2Inv env rk' s' ∧ RkExt rk rk' s.nodes.size := by
  obtain ⟨rk', br, rhs, l, t, X⟩ := NC.lc_mid2 CS RS IS I A hk h
  exact ⟨br, _, rk', NC.stepL2_of_mid I A hk X, NC.f2Inv_of_mid A hk X, X.ext⟩

end IncrVerif.Proofs.NestH
