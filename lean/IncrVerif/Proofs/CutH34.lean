import IncrVerif.Proofs.CutH32
-- Port of Proofs/Quiet22.lean to ARBITRARY cutoffs (scratch name T22); overview in Props/C06History.lean
/-!
# Part 22: the unlinking cascade returns
-/
namespace IncrVerif.Proofs.CutH
open IncrVerif.Engine IncrVerif.Driver IncrVerif.Proofs IncrVerif.Proofs.Step IncrVerif.Proofs.Sched

namespace P22

/-! ## primitives that return -/

theorem idxOf?_of_mem {α} [BEq α] [LawfulBEq α] {l : List α} {x : α} (h : x ∈ l) : ∃ k, l.idxOf? x = some k := by
  cases e : l.idxOf? x with
  | some k => exact ⟨k, rfl⟩
  | none => rw [List.idxOf?_eq_none_iff] at e; exact absurd h e

/-- `maybeHandleAfterStabilisation` of an existing node returns -/
theorem mhas_ok {n : Nat} {s : State} {nd : Node} (hn : s.nodes[n]? = some nd) :
    ∃ s', (maybeHandleAfterStabilisation n).run.run s = (.ok (), s') := by
  unfold maybeHandleAfterStabilisation handleAfterStabilisation
  simp only [run_bind, run_getNode, hn, run_ite, run_pure, run_modNode, run_modify]
  split
  · split
    · exact ⟨_, rfl⟩
    · exact ⟨_, rfl⟩
  · exact ⟨_, rfl⟩

/-- `setHeight n (-1)` returns -/
theorem setHeight_neg_ok (n : Nat) (s : State) : ∃ s', (setHeight n (-1)).run.run s = (.ok (), s') := by
  rw [setHeight_run, if_neg]
  · exact ⟨_, rfl⟩
  · rintro ⟨-, h⟩
    simp only [Heap.maxAllowed] at h
    omega

theorem removeParent_run {c idx p pi : Nat} {s : State} {nd : Node} (hnd : s.nodes[c]? = some nd)
    (hi : nd.parents.idxOf? (p, idx) = some pi) :
    (removeParent c idx p).run.run s =
      (.ok (), { s with nodes := s.nodes.modify c fun x => { x with parents := swapRemove x.parents pi } }) := by
  unfold removeParent
  rw [run_bind_ok (run_getNode_some hnd), hi]
  rfl

/-- `rchRemove` of a queued node that need not be computed returns -/
theorem rchRemove_tot {n : Nat} {s : State} (W : HeapWF s) (hn : n < s.nodes.size)
    (hin : (s.nodeD n).inRch = true) (hnc : s.cfg.debug = true → s.needsToBeComputed n = false) :
    ∃ s', (rchRemove n).run.run s = (.ok (), s') := by
  have hnd := some_of_lt hn
  have h0 : 0 ≤ (s.nodeD n).heightInRch := by simpa [Node.inRch] using hin
  have hlt : (s.nodeD n).heightInRch.toNat < s.rch.queues.size := by
    rcases W.range n hn with h | ⟨_, h⟩
    · omega
    · omega
  have hmem : n ∈ s.rch.queues[(s.nodeD n).heightInRch.toNat] :=
    (W.mem _ hlt n).2 ⟨hn, by omega⟩
  obtain ⟨idx, hidx⟩ := idxOf?_of_mem hmem
  have hq : s.rch.queues[(s.nodeD n).heightInRch.toNat]? = some s.rch.queues[(s.nodeD n).heightInRch.toNat] :=
    Array.getElem?_eq_getElem hlt
  have hul : ∃ s1, (rchUnlink n).run.run s = (.ok (), s1) := by
    unfold rchUnlink
    rw [run_bind_ok (run_getNode_some hnd), run_bind_get]
    dsimp only
    rw [hq]
    dsimp only
    rw [if_neg (by omega)]
    rw [hidx]
    exact ⟨_, rfl⟩
  obtain ⟨s1, h1⟩ := hul
  unfold rchRemove
  rw [run_bind_get, run_bind_ok (run_getNode_some hnd),
    run_bind_ok (run_dassert_true s (by
      intro hd; rw [hin, hnc hd]; rfl)), run_bind_ok h1, run_bind_modNode, run_modify]
  exact ⟨_, rfl⟩

/-! ## necessity shrinks, necessary nodes keep their height -/

def NecH (s s' : State) : Prop :=
  ∀ m, s'.isNecessary m = true → s.isNecessary m = true ∧ (s'.nodeD m).height = (s.nodeD m).height

theorem NecH.refl (s : State) : NecH s s := fun _ h => ⟨h, rfl⟩
theorem NecH.trans {a b c : State} (h1 : NecH a b) (h2 : NecH b c) : NecH a c := fun m hm =>
  ⟨(h1 m (h2 m hm).1).1, (h2 m hm).2.trans (h1 m (h2 m hm).1).2⟩

theorem urel_nec {s s' : State} (h : URel s s') {m : Nat} (hm : s'.isNecessary m = true) :
    s.isNecessary m = true := by
  rw [isNecessary_iff] at hm ⊢
  rw [h.fr.observers, h.fr.forceNecessary] at hm
  rcases hm with hm | hm
  · left
    obtain ⟨x, hx⟩ := List.exists_mem_of_ne_nil _ hm
    exact List.ne_nil_of_mem (h.par m x hx)
  · exact Or.inr hm

theorem NecH.of_urel {s s' : State} (h : URel s s')
    (hh : ∀ m, (s'.nodeD m).height = (s.nodeD m).height) : NecH s s' :=
  fun m hm => ⟨urel_nec h hm, hh m⟩

theorem NecH.of_same {s s' : State} (h : SameG s s') : NecH s s' :=
  fun m hm => ⟨by rw [← h.nec]; exact hm, (h.node m).height⟩

theorem NecH.of_fields {s s' : State}
    (h : ∀ m, (s'.nodeD m).parents = (s.nodeD m).parents ∧ (s'.nodeD m).observers = (s.nodeD m).observers ∧
      (s'.nodeD m).forceNecessary = (s.nodeD m).forceNecessary ∧ (s'.nodeD m).height = (s.nodeD m).height) :
    NecH s s' := by
  intro m hm
  obtain ⟨h1, h2, h3, h4⟩ := h m
  refine ⟨?_, h4⟩
  simp only [State.isNecessary, Node.isNecessary] at hm ⊢
  rw [h1, h2, h3] at hm
  exact hm

theorem hbo_of_necH {s s' : State} {op op' : Nat → Op} (hb : HBo s op) (h : NecH s s')
    (hop : ∀ m, op' m = .closed → s.isNecessary m = true → op m = .closed) : HBo s' op' := by
  intro m hm ho
  obtain ⟨hm0, hh⟩ := h m hm
  rw [hh]
  exact hb m hm0 (hop m ho hm0)

theorem tot_bind_modify' {β : Type} {s : State} {g : State → State} {f : Unit → M β} {Q' : β → State → Prop}
    (T : ∀ s0, s0 = g s → Tot (f ()) s0 Q') : Tot (modify g >>= f) s Q' := Tot.bind_modify (T _ rfl)

/-! ## the three functions return -/

def BUTot (fuel : Nat) : Prop :=
  ∀ env n s op, GInv env s op → op n = .unlinking 0 → (∀ m, op m ≠ .closed → n ≤ m) → 3 * n + 2 ≤ fuel →
    Tot (becameUnnecessary fuel n) s (fun _ s' => NecH s s')

def CUTot (fuel : Nat) : Prop :=
  ∀ env c s op, GInv env s op → (∀ m, op m ≠ .closed → c ≤ m) →
    ((s.isNecessary c = true ∧ op c = .closed) ∨ (s.isNecessary c = false ∧ op c = .unlinking 0)) →
    3 * c + 3 ≤ fuel → Tot (checkIfUnnecessary fuel c) s (fun _ s' => NecH s s')

def RCTot (fuel : Nat) : Prop :=
  ∀ env n s op, GInv env s op → op n = .unlinking 0 → (∀ m, op m ≠ .closed → n ≤ m) → 3 * n + 1 ≤ fuel →
    Tot (removeChildren fuel n) s (fun _ s' => NecH s s')

theorem cu_tot_step (fuel : Nat) (ih : BUTot fuel) : CUTot (fuel + 1) := by
  intro env c s op I hlow hcase hf
  unfold checkIfUnnecessary
  refine Tot.bind_get ?_
  rcases hcase with ⟨hn, hcl⟩ | ⟨hn, hop⟩
  · rw [hn]
    simp only [Bool.not_true, Bool.false_eq_true, if_false]
    exact Tot.pure (NecH.refl s)
  · rw [hn]
    simp only [Bool.not_false, if_true]
    exact ih env c s op I hop hlow (by omega)

theorem bu_tot_step (fuel : Nat) (ih : RCTot fuel) : BUTot (fuel + 1) := by
  intro env n s op I hop hlow hf
  have hn : n < s.nodes.size := I.opLt n (by rw [hop]; exact fun e => by cases e)
  unfold becameUnnecessary
  refine tot_bind_modify' (fun s0 hs0 => ?_)
  have R0 : Irrel n s s0 := by rw [hs0]; exact Irrel.of_nodes rfl rfl rfl rfl rfl
  have hn0 : n < s0.nodes.size := by rw [R0.same.size]; exact hn
  obtain ⟨s1, h1⟩ := mhas_ok (some_of_lt hn0)
  refine Tot.bind_ok h1 ?_
  have R1 : Irrel n s s1 := R0.trans (Irrel.mhas h1)
  have I1 : GInv env s1 op := I.congr R1.same
  have hn1 : n < s1.nodes.size := by rw [R1.same.size]; exact hn
  have hun1 : s1.isNecessary n = false := I1.unec n 0 hop
  have hnopar : (s1.nodeD n).parents = [] := parents_nil_of_not_nec hun1
  obtain ⟨s2, h2⟩ := setHeight_neg_ok n s1
  refine Tot.bind_ok h2 ?_
  obtain ⟨U2, hab2, hl2, hh2, hoth2⟩ := setHeight_ok_upd hn1 h2
  have hopn : op n ≠ .closed := by rw [hop]; exact fun e => by cases e
  have I2 : GInv env s2 op := I1.setHeight_open U2 hopn (by intro p i hp; rw [hnopar] at hp; cases hp)
  have N2 : NecH s1 s2 := by
    intro m hm
    by_cases e : m = n
    · rw [e] at hm
      rw [I2.unec n 0 hop] at hm; cases hm
    · refine ⟨?_, by rw [hoth2 m e]⟩
      simp only [State.isNecessary, hoth2 m e] at hm ⊢
      exact hm
  obtain ⟨_, s3, h3, N3⟩ := ih env n s2 op I2 hop hlow (by omega)
  refine Tot.bind_ok h3 ?_
  obtain ⟨I3, hsame3, hu3⟩ := (unlink_spec fuel).2.2 env n s2 s3 op h3 I2 hop hlow
  have hn3 : n < s3.nodes.size := by rw [hu3.fr.size, U2.size]; exact hn1
  refine Tot.bind_getNode hn3 ?_
  have hq : (s3.nodeD n).kind? = some (s3.nodeD n).kind := by
    rw [Node.kind?, (I3.node hn3).valid]; rfl
  have N : NecH s s3 := ((NecH.of_same R1.same).trans N2).trans N3
  have hun3 : s3.isNecessary n = false := I3.unec n _ (upd_self _ _ _)
  have fin : Tot (do
        let s ← get
        dassert (!s.needsToBeComputed n) "node:became_unnecessary:not-needs-to-be-computed"
        if (s.nodeD n).inRch = true then rchRemove n else pure ()) s3 (fun _ s' => NecH s s') := by
    refine Tot.bind_get ?_
    have hnc : s3.needsToBeComputed n = false := by
      simp only [State.needsToBeComputed, hun3, Bool.false_and]
    refine Tot.bind_dassert (fun _ => by rw [hnc]; rfl) ?_
    cases hin : (s3.nodeD n).inRch with
    | false =>
      simp only [Bool.false_eq_true, if_false]
      exact Tot.pure N
    | true =>
      simp only [if_true]
      obtain ⟨s4, h4⟩ := rchRemove_tot I3.heap.wf hn3 hin (fun _ => hnc)
      obtain ⟨nd, q, idx, hnd, -, -, -, e4⟩ := rchRemove_ok_inv h4
      refine Tot.of_ok h4 (N.trans (NecH.of_fields fun m => ?_))
      rw [e4, removedAt_nodeD]
      split
      · exact ⟨rfl, rfl, rfl, rfl⟩
      · exact ⟨rfl, rfl, rfl, rfl⟩
  rw [hq]
  have hsk := (I3.node hn3).kind
  cases hkd : (s3.nodeD n).kind <;> rw [hkd] at hsk <;>
    first | exact fin | exact hsk.elim

theorem rc_tot_step (fuel : Nat) (ih : CUTot fuel) : RCTot (fuel + 1) := by
  intro env n s op I hop hlow hf
  have hn : n < s.nodes.size := I.opLt n (by rw [hop]; exact fun e => by cases e)
  unfold removeChildren
  refine Tot.bind_get ?_
  have hcs : s.children n = kids (s.nodeD n).kind := I.children hn
  refine Tot.bind (Q := fun (b : Nat) t => b = (s.children n).length ∧
      GInv env t (upd op n (.unlinking (s.children n).length)) ∧
      (∀ m, n ≤ m → t.nodeD m = s.nodeD m) ∧ URel s t ∧ NecH s t) ?_
    (fun b t _ hQ => Tot.pure hQ.2.2.2.2)
  refine forIn_tot _ (s.children n)
    (fun j (b : Nat) t => b = j ∧ GInv env t (upd op n (.unlinking j)) ∧
      (∀ m, n ≤ m → t.nodeD m = s.nodeD m) ∧ URel s t ∧ NecH s t)
    ?_ (s.children n) 0 0 s (by simp) (Nat.zero_le _)
    ⟨rfl, by rw [upd_eq_self _ _ _ hop]; exact I, fun _ _ => rfl, URel.refl _, NecH.refl _⟩
  intro j c b t hj ⟨hb, It, hsame, hrel, hN⟩
  have hkj : (kids (t.nodeD n).kind)[j]? = some c := by
    rw [hsame n (Nat.le_refl _), ← hcs]; exact hj
  have hcn : c < n := It.kid_lt hkj
  have hct : c < t.nodes.size := by rw [hrel.fr.size]; omega
  have hclc : upd op n (.unlinking j) c = .closed := by
    rw [upd_other _ _ _ (by omega)]
    cases e : op c with
    | closed => rfl
    | linking k => have := hlow c (by rw [e]; exact fun e => by cases e); omega
    | unlinking k => have := hlow c (by rw [e]; exact fun e => by cases e); omega
  have hmem : (n, j) ∈ (t.nodeD c).parents := It.removeEdge_mem (upd_self _ _ _) hkj
  obtain ⟨pi, hidx⟩ := idxOf?_of_mem hmem
  have ha := removeParent_run (s := t) (c := c) (idx := j) (p := n) (some_of_lt hct) hidx
  obtain ⟨t1, e1⟩ : ∃ t1, t1 = ({ t with nodes := t.nodes.modify c fun x =>
      { x with parents := swapRemove x.parents pi } } : State) := ⟨_, rfl⟩
  rw [← e1] at ha
  have U : NodeUpd c (fParents (swapRemove (t.nodeD c).parents pi)) t t1 := by
    rw [e1]; exact NodeUpd.modify' hct rfl
  obtain ⟨Hnec, Hun⟩ := It.removeEdge hidx U (upd_self _ _ _) hkj hclc
  have hab1 : ∀ m, c < m → t1.nodeD m = t.nodeD m := by
    rw [e1]; exact Above.modify c _ t c (Nat.le_refl _)
  have hu1 : URel t t1 := by
    refine ⟨?_, ?_, ?_⟩
    · rw [e1]; exact CFrame.modNode t c _ (fun _ => rfl)
    · rw [e1]
    · intro m x hx
      by_cases e : m = c
      · rw [e] at hx ⊢
        rw [U.self.parents] at hx
        exact ((U4.swapRemove_spec _ _ _ (It.nodup c) hidx).1 x).1 hx |>.1
      · rw [(U.other m e).parents] at hx; exact hx
  have N1 : NecH t t1 := NecH.of_urel hu1 (fun m => by
    by_cases e : m = c
    · rw [e]; exact U.self.height
    · exact (U.other m e).height)
  have hlow' : ∀ (o : Nat → Op), (∀ m, m ≠ c → m ≠ n → o m = op m) → o n ≠ .closed →
      ∀ m, o m ≠ .closed → c ≤ m := by
    intro o ho _ m hm
    by_cases e1 : m = c
    · omega
    · by_cases e2 : m = n
      · omega
      · rw [ho m e1 e2] at hm; have := hlow m hm; omega
  rw [upd_upd] at Hnec Hun
  have hopc : op c = .closed := by rw [upd_other _ _ _ (by omega)] at hclc; exact hclc
  have hrun : ∀ t2, (checkIfUnnecessary fuel c).run.run t1 = (.ok (), t2) →
      (do removeParent c b n
          checkIfUnnecessary fuel c
          pure (ForInStep.yield (b + 1)) : M (ForInStep Nat)).run.run t = (.ok (.yield (j + 1)), t2) := by
    intro t2 hc
    rw [hb, run_bind_ok ha, run_bind_ok hc]; rfl
  cases hnc : t1.isNecessary c with
  | true =>
    have I1 := Hnec hnc
    have hl1 := hlow' (upd op n (.unlinking (j + 1))) (fun m _ e2 => upd_other _ _ _ e2)
      (by rw [upd_self]; exact fun e => by cases e)
    have hc1 : (t1.isNecessary c = true ∧ upd op n (.unlinking (j + 1)) c = .closed) ∨
        (t1.isNecessary c = false ∧ upd op n (.unlinking (j + 1)) c = .unlinking 0) :=
      Or.inl ⟨hnc, by rw [upd_other _ _ _ (by omega)]; exact hopc⟩
    obtain ⟨_, t2, hc, N2⟩ := ih env c t1 _ I1 hl1 hc1 (by omega)
    obtain ⟨I2, hab2, hu2⟩ := (unlink_spec fuel).2.1 env c t1 t2 _ hc I1 hl1 hc1
    rw [upd_eq_self _ c .closed (by rw [upd_other _ _ _ (by omega)]; exact hopc)] at I2
    exact ⟨j + 1, t2, hrun t2 hc, rfl, I2,
      fun m hm => ((hab2 m (by omega)).trans (hab1 m (by omega))).trans (hsame m hm),
      (hrel.trans hu1).trans hu2, (hN.trans N1).trans N2⟩
  | false =>
    have I1 := Hun hnc
    have hl1 := hlow' (upd (upd op n (.unlinking (j + 1))) c (.unlinking 0))
      (fun m e1 e2 => by rw [upd_other _ _ _ e1, upd_other _ _ _ e2])
      (by rw [upd_other _ _ _ (by omega), upd_self]; exact fun e => by cases e)
    have hc1 : (t1.isNecessary c = true ∧ upd (upd op n (.unlinking (j + 1))) c (.unlinking 0) c = .closed) ∨
        (t1.isNecessary c = false ∧ upd (upd op n (.unlinking (j + 1))) c (.unlinking 0) c = .unlinking 0) :=
      Or.inr ⟨hnc, upd_self _ _ _⟩
    obtain ⟨_, t2, hc, N2⟩ := ih env c t1 _ I1 hl1 hc1 (by omega)
    obtain ⟨I2, hab2, hu2⟩ := (unlink_spec fuel).2.1 env c t1 t2 _ hc I1 hl1 hc1
    rw [upd_upd, upd_eq_self _ c .closed (by rw [upd_other _ _ _ (by omega)]; exact hopc)] at I2
    exact ⟨j + 1, t2, hrun t2 hc, rfl, I2,
      fun m hm => ((hab2 m (by omega)).trans (hab1 m (by omega))).trans (hsame m hm),
      (hrel.trans hu1).trans hu2, (hN.trans N1).trans N2⟩

theorem unlink_tot (fuel : Nat) : BUTot fuel ∧ CUTot fuel ∧ RCTot fuel := by
  induction fuel with
  | zero =>
    refine ⟨?_, ?_, ?_⟩
    · intro env n s op _ _ _ hf; omega
    · intro env n s op _ _ _ hf; omega
    · intro env n s op _ _ _ hf; omega
  | succ fuel ih => exact ⟨bu_tot_step fuel ih.2.2, cu_tot_step fuel ih.1, rc_tot_step fuel ih.2.1⟩

end P22
open P22

/-- **the unlinking cascade returns**, and the height bound is kept -/
theorem checkIfUnnecessary_total {env : Env} {fuel c : Nat} {s : State} {op : Nat → Op}
    (I : GInv env s op) (hb : HBo s op) (hlow : ∀ m, op m ≠ .closed → c ≤ m)
    (hcase : (s.isNecessary c = true ∧ op c = .closed) ∨ (s.isNecessary c = false ∧ op c = .unlinking 0))
    (hf : 3 * c + 3 ≤ fuel) :
    Tot (checkIfUnnecessary fuel c) s (fun _ s' => HBo s' (upd op c .closed)) := by
  refine ((unlink_tot fuel).2.1 env c s op I hlow hcase hf).mono (fun _ s' N => ?_)
  refine hbo_of_necH hb N (fun m ho hm => ?_)
  by_cases e : m = c
  · rw [e] at hm ⊢
    rcases hcase with ⟨_, h⟩ | ⟨h, _⟩
    · exact h
    · rw [h] at hm; cases hm
  · rw [upd_other _ _ _ e] at ho; exact ho

end IncrVerif.Proofs.CutH
