import IncrVerif.Proofs.PerKeyH23
/-!
# The callback discipline `SlotInv` in the per-key fragment, part 2: one `recomputeOne` that is not a change detector

* `recomputeOne_pk_run`: the master equation of the `.expert` branch of `recomputeOne` for a per-key record (`pk ≠ none`: no
  tick, no log line): the run is `maybeChangeValue` from `putExpert e (readyRec env s er) (started n s)`.
* `step_slots`: **B.**
-/
namespace IncrVerif.Proofs.PerKeyH
open IncrVerif.Engine IncrVerif.Driver IncrVerif.Proofs IncrVerif.Proofs.Step IncrVerif.Proofs.Sched
open IncrVerif.Proofs.ExpertH IncrVerif.Proofs.EffH IncrVerif.Proofs.Xp

/-! ## the expert branch for a per-key record -/

theorem edgeOnChange_run_pk (env : Env) {e : Nat} (edge : ExpertEdge) {s : State} {er : ExpertRec}
    (he : s.experts[e]? = some er) (hpk : er.pk.isNone = false) :
    (edgeOnChange env e edge).run.run s = (.ok (), putExpert e (fireRec env s er edge) s) := by
  unfold edgeOnChange fireRec
  cases hcb : edge.cb with
  | none => rw [putExpert_self he]; rfl
  | some c =>
    simp only [run_bind_get]
    cases hv : s.value env edge.child with
    | none => rw [putExpert_self he]; rfl
    | some v =>
      rw [run_bind_ok (run_getExpert_some he)]
      simp only [hpk, Bool.false_eq_true, if_false]
      rw [run_modExpert_some _ he]

theorem fireLoop_run_pk (env : Env) (e : Nat) (edges : List ExpertEdge) :
    ∀ (s : State) (er : ExpertRec), s.experts[e]? = some er → er.pk.isNone = false →
      (forIn edges PUnit.unit (fun edge (_ : PUnit) => do
          edgeOnChange env e edge
          pure (ForInStep.yield PUnit.unit) : ExpertEdge → PUnit → M (ForInStep PUnit))).run.run s =
        (.ok PUnit.unit, putExpert e (edges.foldl (fireRec env s) er) s) := by
  induction edges with
  | nil => intro s er he _; rw [List.foldl_nil, putExpert_self he]; rfl
  | cons a rest ih =>
    intro s er he hpk
    rw [List.forIn_cons, bind_assoc, run_bind_ok (edgeOnChange_run_pk env a he hpk), pure_bind]
    have he' : (putExpert e (fireRec env s er a) s).experts[e]? = some (fireRec env s er a) := putExpert_get _ he
    have hpk' : (fireRec env s er a).pk.isNone = false := by
      unfold fireRec; split <;> exact hpk
    rw [ih _ _ he' hpk', putExpert_put, List.foldl_cons,
      fireRec_congr env s _ (fun c => putExpert_value env e _ s c)]

/-- a successful `expertValue` does not change the state -/
theorem expertValue_pk_state {env : Env} {e : Nat} {d sl : List (Option Val)} {S S1 : State} {er : ExpertRec} {v : Val}
    (he : S.experts[e]? = some er) (hpk : er.pk.isNone = false)
    (h : (expertValue env e d sl).run.run S = (.ok v, S1)) : S1 = S := by
  cases hp : er.pk with
  | none => rw [hp] at hpk; cases hpk
  | some pr =>
    obtain ⟨op, ok⟩ := pr
    cases ok with
    | none =>
      rw [PerKey.expertValue_result env e d sl S er op he hp] at h
      cases h; rfl
    | some key =>
      rw [PerKey.expertValue_input env e d sl S er op key he hp] at h
      split at h
      · cases h; rfl
      · cases h

/-- master equation of the expert branch for a per-key record (no tick, no log line; the closure `expertValue` may panic) -/
theorem recomputeOne_pk_eq (env : Env) (fuel n : Nat) {s : State} {nd : Node} {e : Nat} {er : ExpertRec}
    (hx : IsExpert s n nd e er) (hpk : er.pk.isNone = false) (hinv : ¬ er.numInvalidChildren > 0) :
    (recomputeOne env fuel n).run.run s =
      (do let v ← expertValue env e (depValsOf env s (readyRec env s er)) (slotValsOf (readyRec env s er))
          maybeChangeValue env fuel n v : M (Option Nat)).run.run
        (putExpert e (readyRec env s er) (started n s)) := by
  have hk? : ({ nd with recomputedAt := s.stabNum } : Node).kind? = some (.expert e) := by
    simp [Node.kind?, hx.valid, hx.kind]
  have hn' := started_getElem? n s nd hx.node
  have he0 : (started n s).experts[e]? = some er := hx.xrec
  have he1 : (putExpert e (resetRec er) (started n s)).experts[e]? = some (resetRec er) :=
    putExpert_get _ he0
  have hval1 : ∀ c, (putExpert e (resetRec er) (started n s)).value env c = s.value env c := by
    intro c; rw [putExpert_value, started_value]
  have hvalS : ∀ (x : ExpertRec) (c : Nat), (putExpert e x (started n s)).value env c = s.value env c := by
    intro x c; rw [putExpert_value, started_value]
  have hput : ∀ (x : ExpertRec), (putExpert e x (started n s)).experts[e]? = some x := by
    intro x; exact putExpert_get (s := started n s) x hx.xrec
  -- the tail: reading the record, the closure
  have tail : ∀ (d : ExpertRec → State → List (Option Val)) (g : ExpertRec → List (Option Val))
      (S : State) (x : ExpertRec), S.experts[e]? = some x → x.pk.isNone = false →
      (do
        let er ← getExpert e
        let s ← get
        if er.pk.isNone = true then do
            tick
            let v ← expertValue env e (d er s) (g er)
            if er.pk.isNone = true then do
                logEv (Event.inv (toString "x" ++ toString er.f) n [] v.render)
                maybeChangeValue env fuel n v
              else maybeChangeValue env fuel n v
          else do
            let v ← expertValue env e (d er s) (g er)
            if er.pk.isNone = true then do
                logEv (Event.inv (toString "x" ++ toString er.f) n [] v.render)
                maybeChangeValue env fuel n v
              else maybeChangeValue env fuel n v : M (Option Nat)).run.run S =
        (do let v ← expertValue env e (d x S) (g x)
            maybeChangeValue env fuel n v : M (Option Nat)).run.run S := by
    intro d g S x hxr hxpk
    rw [run_bind_ok (run_getExpert_some hxr), run_bind_get]
    simp only [hxpk, Bool.false_eq_true, if_false]
  unfold recomputeOne
  simp only [run_bind_get]
  cases hd : s.cfg.debug
  all_goals
    simp only [started, hd, Bool.false_eq_true, if_false, if_true, run_bind_modify,
      run_bind_bumpCounter, run_bind_get, run_bind_modNode, resetRec] at hn' he0 he1 hval1 hvalS hput tail ⊢
    rw [run_bind_ok (run_getNode_some hn'), hk?]
    dsimp only
    rwx run_bind_getExpert er with hx.xrec
    rw [if_neg hinv]
    rwx run_bind_getExpert er with hx.xrec
    rwx run_bind_modExpert er with hx.xrec
    cases hw : er.willFireAllCallbacks
    · simp only [Bool.false_eq_true, if_false]
      rw [tail _ _ _ (resetRec er)]
      rotate_left
      · exact he1
      · exact hpk
      simp only [hval1, readyRec, hw, Bool.false_eq_true, if_false, started, hd, resetRec, depValsOf, slotValsOf]
      rfl
    · simp only [if_true]
      rw [run_bind_ok (run_getExpert_some he1), run_bind_ok (fireLoop_run_pk env e _ _ _ he1 hpk)]
      rw [putExpert_put, fireRec_congr env s _ hval1]
      have hf := foldl_fireRec_fields env s er.children (resetRec er)
      rw [tail _ _ _ (er.children.foldl (fireRec env s) (resetRec er))]
      rotate_left
      · exact hput _
      · rw [hf.2.2.2.2.2.1]; exact hpk
      simp only [hvalS, readyRec, hw, if_true, started, hd, resetRec, depValsOf, slotValsOf]
      rfl

/-- inversion form: a successful run is a successful `maybeChangeValue` from the state in which the record is ready -/
theorem recomputeOne_pk_run (env : Env) (fuel n : Nat) {s s' : State} {nd : Node} {e : Nat} {er : ExpertRec}
    {r : Option Nat} (hx : IsExpert s n nd e er) (hpk : er.pk.isNone = false)
    (hinv : ¬ er.numInvalidChildren > 0)
    (h : (recomputeOne env fuel n).run.run s = (.ok r, s')) :
    ∃ v, (maybeChangeValue env fuel n v).run.run (putExpert e (readyRec env s er) (started n s)) = (.ok r, s') := by
  rw [recomputeOne_pk_eq env fuel n hx hpk hinv] at h
  obtain ⟨v, S1, h1, h2⟩ := bind_ok_inv h
  have hget : (putExpert e (readyRec env s er) (started n s)).experts[e]? = some (readyRec env s er) :=
    putExpert_get (s := started n s) _ hx.xrec
  have := expertValue_pk_state hget (by rw [(readyRec_fields env s er).2.2.2.2.2.1]; exact hpk) h1
  subst this
  exact ⟨v, h2⟩

/-! ## the fragment of the intermediate states -/

theorem pfrag_of_same {env : Env} {s T : State} (F : PFrag env s) (hsz : T.nodes.size = s.nodes.size)
    (hpc : T.panicCountdown = s.panicCountdown) (hsc : T.currentScope = s.currentScope)
    (hN : ∀ m, (T.nodeD m).kind = (s.nodeD m).kind ∧ (T.nodeD m).valid = (s.nodeD m).valid ∧
      (T.nodeD m).cutoff = (s.nodeD m).cutoff ∧ (T.nodeD m).createdIn = (s.nodeD m).createdIn ∧
      (T.nodeD m).forceNecessary = (s.nodeD m).forceNecessary)
    (hX : ∀ (e : Nat) (erT : ExpertRec), T.experts[e]? = some erT → ∃ er, s.experts[e]? = some er ∧
      erT.node = er.node ∧ erT.pk = er.pk ∧ erT.numInvalidChildren = er.numInvalidChildren ∧ erT.f = er.f)
    (hX' : ∀ (e : Nat) (er : ExpertRec), s.experts[e]? = some er → ∃ erT, T.experts[e]? = some erT ∧ erT.node = er.node) :
    PFrag env T where
  pc := by rw [hpc]; exact F.pc
  kind m hm := by rw [(hN m).1]; exact F.kind m (by rw [← hsz]; exact hm)
  valid m hm := by rw [(hN m).2.1]; exact F.valid m (by rw [← hsz]; exact hm)
  cutoff m hm := by rw [(hN m).2.2.1]; exact F.cutoff m (by rw [← hsz]; exact hm)
  top m hm := by rw [(hN m).2.2.2.1]; exact F.top m (by rw [← hsz]; exact hm)
  force m hm := by rw [(hN m).2.2.2.2]; exact F.force m (by rw [← hsz]; exact hm)
  xrec m e hm hk := by
    rw [(hN m).1] at hk
    obtain ⟨er, h1, h2⟩ := F.xrec m e (by rw [← hsz]; exact hm) hk
    obtain ⟨erT, h3, h4⟩ := hX' e er h1
    exact ⟨erT, h3, h4.trans h2⟩
  xnode e erT he := by
    obtain ⟨er, h1, h2, -⟩ := hX e erT he
    obtain ⟨h3, h4⟩ := F.xnode e er h1
    rw [h2, hsz, (hN er.node).1]
    exact ⟨h3, h4⟩
  xok e erT he := by
    obtain ⟨er, h1, -, h3, h4, h5⟩ := hX e erT he
    rw [h3, h4, h5]
    exact F.xok e er h1
  scope := by rw [hsc]; exact F.scope

theorem xkind_of_pkind {env : Env} {k : Kind} (h : PKind env k)
    (hlc : ∀ op args, k ≠ .map (fnPerKey + op) args) : XKind env k := by
  cases k <;> simp only [PKind] at h <;> try (first | exact h.elim | trivial)
  · rename_i f args
    have hf : f < fnPerKey := by
      by_cases hf : f < fnPerKey
      · exact hf
      · exact absurd (by rw [Nat.add_sub_cancel' (Nat.le_of_not_lt hf)]) (hlc (f - fnPerKey) args)
    refine ⟨hf, fun hz vals => ?_⟩
    rcases h with ⟨-, h⟩ | h | h | h
    · exact h vals
    · rw [h] at hz; exact absurd hz (Nat.lt_irrefl _)
    · rw [h] at hz; exact absurd hz (by decide)
    · omega

theorem started_same (n : Nat) (s : State) (m : Nat) :
    ((started n s).nodeD m).kind = (s.nodeD m).kind ∧ ((started n s).nodeD m).valid = (s.nodeD m).valid ∧
      ((started n s).nodeD m).cutoff = (s.nodeD m).cutoff ∧ ((started n s).nodeD m).createdIn = (s.nodeD m).createdIn ∧
      ((started n s).nodeD m).forceNecessary = (s.nodeD m).forceNecessary := by
  rw [started_nodeD]; split <;> exact ⟨rfl, rfl, rfl, rfl, rfl⟩

/-! ## B. one `recomputeOne` of a node that is not a per-key change detector -/

/-- **B.** a run of a static node or of an expert node (per-key input node, operator result) keeps the callback
discipline -/
theorem step_slots {env : Env} {fuel n : Nat} {s s' : State} {r : Option Nat} (D : PD env s (some n))
    (hlc : ∀ op args, (s.nodeD n).kind ≠ .map (fnPerKey + op) args)
    (h : (recomputeOne env fuel n).run.run s = (.ok r, s')) : SlotInv env s' := by
  have F := D.aux.frag
  have hp := D.aux.pinv
  have hnec : s.isNecessary n = true := by rw [← V_isNecessary]; exact (D.inv.cur n rfl).1
  have hlt : n < s.nodes.size := sl_nec_lt hnec
  have hsz : (started n s).nodes.size = s.nodes.size := by simp [started]
  by_cases hk : ∀ e, (s.nodeD n).kind ≠ .expert e
  · -- B1: a static node
    have hxk : XKind env (s.nodeD n).kind := xkind_of_pkind (F.kind n hlt) hlc
    obtain ⟨v, es, hrun⟩ := recomputeOne_as_mcv_x (fr_of_pfrag F hp) hlt hxk hk h
    rw [hrun] at h
    have FT : PFrag env (logged es (started n s)) :=
      pfrag_of_same F hsz rfl rfl (started_same n s) (fun e erT he => ⟨erT, he, rfl, rfl, rfl, rfl⟩)
        (fun e er he => ⟨er, he, rfl⟩)
    have frT : Fr (logged es (started n s)) := fr_of_pfrag FT hp
    obtain ⟨⟨l', htw⟩, -⟩ := TSim.maybeChangeValue env fuel n v _ frT [] r s' h
    have P : Pre (twEnv env) n (twL [] (logged es (started n s))) :=
      pre_of_pd [] D FT (fun _ => rfl) hsz rfl rfl (fun _ _ => rfl) (fun e he => absurd he (hk e))
    exact (slotInv_twin env l' s').2 (mcv_slots P htw)
  · -- B2: an expert node
    have : ∃ e, (s.nodeD n).kind = .expert e := by
      cases hkd : (s.nodeD n).kind <;>
        first | exact ⟨_, rfl⟩ | (exfalso; apply hk; intro e; rw [hkd]; intro h; cases h)
    obtain ⟨e, hkk⟩ := this
    obtain ⟨er, he, hnode⟩ := F.xrec n e hlt hkk
    obtain ⟨hpk, hni, -⟩ := F.xok e er he
    have hx : IsExpert s n (s.nodeD n) e er := ⟨some_of_lt hlt, F.valid n hlt, hkk, he⟩
    have hpk' : er.pk.isNone = false := by
      cases hq : er.pk with
      | none => rw [hq] at hpk; cases hpk
      | some _ => rfl
    obtain ⟨v, hrun⟩ := recomputeOne_pk_run env fuel n hx hpk' (by omega) h
    obtain ⟨f1, f2, -, -, -, f6, -, f8, -⟩ := readyRec_fields env s er
    have hget : (putExpert e (readyRec env s er) (started n s)).experts[e]? = some (readyRec env s er) :=
      putExpert_get (s := started n s) _ he
    have hget' : ∀ e', e' ≠ e → (putExpert e (readyRec env s er) (started n s)).experts[e']? = s.experts[e']? :=
      fun e' hne => putExpert_get_ne (started n s) _ (Ne.symm hne)
    have FT : PFrag env (putExpert e (readyRec env s er) (started n s)) := by
      refine pfrag_of_same F hsz rfl rfl (started_same n s) (fun e' erT he' => ?_) (fun e' er' he' => ?_)
      · by_cases hee : e' = e
        · subst hee
          rw [hget] at he'; cases he'
          exact ⟨er, he, f2, f6, f8, f1⟩
        · rw [hget' e' hee] at he'
          exact ⟨erT, he', rfl, rfl, rfl, rfl⟩
      · by_cases hee : e' = e
        · subst hee
          rw [he] at he'; cases he'
          exact ⟨_, hget, f2⟩
        · exact ⟨er', by rw [hget' e' hee]; exact he', rfl⟩
    have frT : Fr (putExpert e (readyRec env s er) (started n s)) := fr_of_pfrag FT hp
    obtain ⟨⟨l', htw⟩, -⟩ := TSim.maybeChangeValue env fuel n v _ frT [] r s' hrun
    have P : Pre (twEnv env) n (twL [] (putExpert e (readyRec env s er) (started n s))) :=
      pre_of_pd [] D FT (fun _ => rfl) hsz rfl rfl
        (fun e' he' => hget' e' (fun h => he' (h ▸ hkk)))
        (fun e' he' => by
          rw [hkk] at he'; cases he'
          exact ⟨er, he, hget⟩)
    exact (slotInv_twin env l' s').2 (mcv_slots P htw)

end IncrVerif.Proofs.PerKeyH
