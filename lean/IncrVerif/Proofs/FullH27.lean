import IncrVerif.Proofs.FullH4
import IncrVerif.Proofs.FullH10
import IncrVerif.Proofs.MapRef14
/-!
# C01 full fragment, the recompute step of a `map_ref` node, part 1: from a step relation `StepRelB` of the VIRTUAL
states (plus the state-field frames) to the auxiliary invariants `AuxS2`, `GenOK2` of the virtual end state

Everything here is generic in the environment and the two states (no `virt`): the step of a node that is NOT a change
detector, described by `StepRelB`, with the frames `KeyD`, `HAh`, `DK`, and the handler counts unchanged.
-/
namespace IncrVerif.Proofs.FullH
open IncrVerif.Engine IncrVerif.Proofs IncrVerif.Proofs.Step IncrVerif.Proofs.Sched IncrVerif.Proofs.Quiet
open IncrVerif.Proofs.BindH (DInv BGraph StepRelB TargetB DKey NKey FrameB)
open IncrVerif.Proofs.NestH (AuxS2 Aux2 GenOK2 F2Inv)
namespace MR

/-- what one step of a node that is not a change detector does to the state, as far as `F2Inv`, `DKey`/`NKey` and `GenOK2` can see -/
structure VStep (n : Nat) (v : Val) (ch : Bool) (r : Option Nat) (s s' : State) : Prop where
  rel : StepRelB n v ch r s s'
  key : KeyD s s'
  hah : BindH.BF.HAh s s'
  num : ∀ m, (s'.nodeD m).numOnUpdateHandlers = (s.nodeD m).numOnUpdateHandlers
  dk : BindH.C2k.DK 0 s s'

section
variable {env : Env} {n : Nat} {v : Val} {ch : Bool} {r : Option Nat} {s s' : State}

/-- `F2Inv` (same rank) after the step -/
theorem VStep.f2 {rk : Nat → Nat} (V : VStep n v ch r s s') (g : BGraph env s) (A : F2Inv env rk s) : F2Inv env rk s' := by
  have R := V.rel
  have K := V.key
  simp only [KeyD, stateKeyD, Prod.mk.injEq] at K
  obtain ⟨-, -, hsc, htop, -, -, hpinv, -, -, -, hahh⟩ := K
  refine NestH.NF.F2Inv.transfer A R.size (fun m => R.shapes m) V.num (fun m hq => ?_) V.hah R.binds htop hahh hpinv hsc R.pc
  rcases R.newIn m hq with h1 | ⟨-, h2⟩
  · exact Or.inl h1
  · obtain ⟨⟨p, i⟩, hpi, rfl⟩ := List.mem_map.1 h2
    exact Or.inr (g.nec p (g.parent n p i hpi).1).1

/-- `GenOK2` after the step (the argument of `NestH.N5g.static_gen2`, from the step relation) -/
theorem VStep.gen {rk : Nat → Nat} (V : VStep n v ch r s s') (I : DInv env s (some n)) (A : F2Inv env rk s) (G : GenOK2 env s)
    (hk : ∀ b, (s.nodeD n).kind ≠ .bindLhsChange b) : GenOK2 env s' := by
  have R := V.rel
  have K := V.key
  simp only [KeyD, stateKeyD, Prod.mk.injEq] at K
  obtain ⟨-, -, -, htop, -⟩ := K
  refine NestH.N5g.genOK2_transfer G (BindH.C3g.top_mono_of_eq htop) ?_
  intro b br hb hvl hst
  rw [R.binds] at hb
  rw [(R.shapes _).valid] at hvl
  obtain ⟨f1, f3, f5, -⟩ := NestH.N5g.rec_facts2 A.frag hb hvl
  have hne : br.lhsChange ≠ n := by
    intro e
    rw [e] at f3
    exact hk b f3
  rcases BindH.stepB_stale_other I R hne f1 hvl with ⟨h1, h2⟩ | ⟨-, -, h1⟩
  · refine ⟨hb, hvl, by rw [← h1]; exact hst, ?_, fun m _ => (R.shapes m).kind,
      fun b2 br2 k2 _ => ⟨br2, by rw [R.binds]; exact k2, NestH.N5g.RecSame.refl _⟩⟩
    by_cases e : br.lhs = n
    · have hchf : ch = false := by
        rcases h2 with h2 | h2
        · exact h2
        · exfalso; apply h2; rw [f5, e]; exact List.mem_singleton.2 rfl
      rw [e, R.value, (R.unch hchf).1]
    · exact (R.other _ e).value
  · rw [h1] at hst; cases hst

/-- **the auxiliary invariants after the step** -/
theorem VStep.aux {t : State} (V : VStep n v ch r s s') (I : DInv env s (some n)) (A : AuxS2 env t s) (G : GenOK2 env s)
    (hk : ∀ b, (s.nodeD n).kind ≠ .bindLhsChange b) : AuxS2 env t s' ∧ GenOK2 env s' := by
  obtain ⟨⟨rk, A2⟩, dk, nk⟩ := A
  obtain ⟨k1, k2⟩ := BindH.C2k.dkey_of_dk V.dk A2.noHandlers
  exact ⟨⟨⟨rk, V.f2 I.graph A2⟩, dk.trans k1, nk.trans k2⟩, V.gen I A2 G hk⟩

end
end MR
end IncrVerif.Proofs.FullH
