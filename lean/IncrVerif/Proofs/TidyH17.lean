import IncrVerif.Proofs.TidyH16
import IncrVerif.Props.C15History
/-!
# T2b, part 8: total correctness for the definitions tables of the history language; non-vacuity

`mapop_history_never_panics`: for a definitions table `d`, a history whose actions pass the decidable test `okAction d`
(C15History) and that is valid (`ValidHistW`: operands/observers/variables exist, at most `N` nodes, fuel) NEVER PANICS
from the initial state; the final state satisfies the invariants.
Examples: `histFm`, `histMerge` of C15History are valid (by `decide`, not by running them), hence never panic.
-/
namespace IncrVerif.Proofs.TidyH.WT
open IncrVerif IncrVerif.Engine IncrVerif.Driver IncrVerif.MapOps IncrVerif.Proofs IncrVerif.Proofs.Sched
open IncrVerif.Proofs.Quiet IncrVerif.Proofs.MapOldH IncrVerif.Props.C15History

/-- **T2b for definitions tables.** -/
theorem mapop_history_never_panics (d : Defs) {N : Nat} {dbg : Bool} {acts : List Action}
    (ha : ∀ a, a ∈ acts → okAction d a = true) (hv : ValidHistW N 0 0 0 0 acts) :
    ∃ s', runActions d.toEnv acts (State.init N dbg) #[] = .ok (s', #[]) ∧ DInv d s' ∧ TInvW N s' :=
  history_totalW (valOK_toEnv d) (fun a h => okAction_sound (ha a h)) hv

/-- the two example histories of C15History are valid … -/
example : ValidHistW 128 0 0 0 0 histFm ∧ ValidHistW 128 0 0 0 0 histMerge := ⟨by decide, by decide⟩

/-- … hence they never panic, by the theorem (not by running them) -/
example : (∃ s, runActions exD.toEnv histFm (State.init 128 true) #[] = .ok (s, #[]) ∧ DInv exD s ∧ TInvW 128 s) ∧
    (∃ s, runActions exD.toEnv histMerge (State.init 128 true) #[] = .ok (s, #[]) ∧ DInv exD s ∧ TInvW 128 s) :=
  ⟨mapop_history_never_panics exD (fun a h => List.all_eq_true.1 (by decide : histFm.all (okAction exD) = true) a h)
      (by decide),
   mapop_history_never_panics exD (fun a h => List.all_eq_true.1 (by decide : histMerge.all (okAction exD) = true) a h)
      (by decide)⟩

/-- validity is necessary: with room for 6 nodes only, `histFm` (7 nodes) is not valid -/
example : ¬ ValidHistW 6 0 0 0 0 histFm := by decide

end IncrVerif.Proofs.TidyH.WT
