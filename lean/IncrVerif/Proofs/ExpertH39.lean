import IncrVerif.Proofs.ExpertH28
import IncrVerif.Proofs.ExpertH2
import IncrVerif.Proofs.ExpertLemmas
/-!
# Expert fragment: one `recomputeOne` on an expert node (`step_expert_node`)

The run factors through the state `T` in which the closure has run (`Xp.recomputeOne_expert_run`); from `T` on it is
`maybeChangeValue`, which the simulation calculus (`Sim.maybeChangeValue`) transports to the virtual state, where
`mcv_static` describes it.
-/
namespace IncrVerif.Proofs.ExpertH
open IncrVerif.Engine IncrVerif.Driver IncrVerif.Proofs IncrVerif.Proofs.Step IncrVerif.Proofs.Sched

theorem XKind.xk {env : Env} {k : Kind} (h : XKind env k) : XK k := by
  cases k <;> first | trivial | exact h.elim

theorem XFrag.fr {env : Env} {s : State} (F : XFrag env s) (hp : s.propagateInvalidity = []) : Fr s :=
  ⟨F.pc, F.validD, hp, fun n => (F.kindD n).xk, fun e er h => (F.xok e er h).2.1⟩

theorem evalArgs_map {ev : Nat → Option Val} {l : List Nat} {vals : List Val} (h : evalArgs ev l = some vals) :
    l.map ev = vals.map some := by
  induction l generalizing vals with
  | nil => simp only [evalArgs] at h; cases h; rfl
  | cons a as ih =>
    simp only [evalArgs] at h
    cases ha : ev a with
    | none => rw [ha] at h; cases h
    | some v =>
      cases hs : evalArgs ev as with
      | none => rw [ha, hs] at h; cases h
      | some vs =>
        rw [ha, hs] at h; cases h
        simp only [List.map_cons, ha, ih hs]

/-- `virtNode` reads the record of the node's own expert only -/
theorem virtNode_congr (xs xs' : Array ExpertRec) (nd : Node)
    (h : ∀ e', nd.kind = .expert e' → xRec xs' e' = xRec xs e') : virtNode xs' nd = virtNode xs nd := by
  rcases nd with ⟨k⟩
  cases k <;> try rfl
  rename_i e'
  have := h e' rfl
  simp only [virtNode, virtKind, forced, this]
  try rfl

/-- the state in which the closure of expert node `n` has run and logged its invocation -/
def ranState (env : Env) (n e : Nat) (s : State) (er : ExpertRec) : State :=
  logged [.inv s!"x{er.f}" n [] (Xp.expertResult env s (Xp.readyRec env s er)).render] (Xp.readyState env n e s er)

theorem ranState_nodes (env : Env) (n e : Nat) (s : State) (er : ExpertRec) :
    (ranState env n e s er).nodes = (started n s).nodes := rfl

theorem ranState_nodeD (env : Env) (n e : Nat) (s : State) (er : ExpertRec) (m : Nat) :
    (ranState env n e s er).nodeD m = (started n s).nodeD m := rfl

theorem ranState_experts (env : Env) (n e : Nat) (s : State) (er : ExpertRec) :
    (ranState env n e s er).experts = s.experts.setIfInBounds e (Xp.readyRec env s er) := rfl

theorem ranState_get (env : Env) (n e : Nat) {s : State} {er : ExpertRec} (h : s.experts[e]? = some er) :
    (ranState env n e s er).experts[e]? = some (Xp.readyRec env s er) := by
  rw [ranState_experts]; exact Xp.getElem?_set_self _ _ _ _ h

theorem ranState_get_ne (env : Env) (n e : Nat) (s : State) (er : ExpertRec) {e' : Nat} (h : e' ≠ e) :
    (ranState env n e s er).experts[e']? = s.experts[e']? := by
  rw [ranState_experts]; simp [Ne.symm h]

theorem ranState_fr {env : Env} {n e : Nat} {s : State} {er : ExpertRec} (hF : Fr s)
    (he : s.experts[e]? = some er) : Fr (ranState env n e s er) := by
  obtain ⟨_, _, _, _, _, _, _, f8, _⟩ := Xp.readyRec_fields env s er
  refine ⟨hF.pc, fun m => ?_, hF.pinv, fun m => ?_, fun e' er' h' => ?_⟩
  · rw [ranState_nodeD, started_nodeD]; split <;> exact hF.valid m
  · rw [ranState_nodeD, started_nodeD]; split <;> exact hF.kind m
  · by_cases h : e' = e
    · subst h
      rw [ranState_get env n _ he] at h'; cases h'
      rw [f8]; exact hF.ni _ _ he
    · rw [ranState_get_ne env n e s er h] at h'; exact hF.ni _ _ h'

/-- the virtual node `n` after the closure ran -/
theorem ranState_virt_self {env : Env} {n e : Nat} {s : State} {er : ExpertRec} (hlt : n < s.nodes.size)
    (hk : (s.nodeD n).kind = .expert e) (he : s.experts[e]? = some er) :
    (virt (ranState env n e s er)).nodeD n =
      { virtNode s.experts (s.nodeD n) with recomputedAt := s.stabNum } := by
  obtain ⟨f1, _, f3, _, _, _, f7, _, _⟩ := Xp.readyRec_fields env s er
  rw [virt_nodeD, ranState_nodeD, started_nodeD, if_pos ⟨rfl, hlt⟩]
  have hr := xRec_some (ranState_get env n e he)
  have hr0 := xRec_some he
  generalize s.nodeD n = nd at hk ⊢
  rcases nd with ⟨k⟩
  simp only at hk
  subst hk
  simp only [virtNode, virtKind, forced, hr, hr0, f1, f3, f7]
  rfl

theorem ranState_virt_other {env : Env} {n e : Nat} {s : State} {er : ExpertRec} (F : XFrag env s)
    (hk : (s.nodeD n).kind = .expert e) {m : Nat} (hm : m ≠ n) :
    (virt (ranState env n e s er)).nodeD m = (virt s).nodeD m := by
  rw [virt_nodeD, virt_nodeD, ranState_nodeD, started_nodeD, if_neg (fun h => hm h.1.symm)]
  apply virtNode_congr
  intro e' hk'
  have hne : e' ≠ e := by
    intro h; subst h; exact hm (F.xinj hk' hk)
  unfold xRec
  rw [ranState_get_ne env n e s er hne]

theorem ranState_upd {env : Env} {n e : Nat} {s : State} {er : ExpertRec} (F : XFrag env s) (hlt : n < s.nodes.size)
    (hk : (s.nodeD n).kind = .expert e) (he : s.experts[e]? = some er) :
    Upd n (virt s) (virt (ranState env n e s er)) := by
  have hself := ranState_virt_self (env := env) hlt hk he
  refine ⟨?_, rfl, rfl, F.pc, rfl, fun m hm => ranState_virt_other F hk hm, ?_, ?_⟩
  · rw [virt_size, virt_size, ranState_nodes]; simp [started]
  · rw [hself, virt_nodeD]; exact ⟨rfl, rfl, rfl, rfl, rfl, rfl, rfl, rfl⟩
  · rw [hself, virt_nodeD]

theorem cbEvents_filter (env : Env) (s : State) (node : Nat) (edges : List ExpertEdge) :
    ∀ acc : List Event, (Xp.cbEvents env s node edges acc).filter keepEv = acc.filter keepEv := by
  induction edges with
  | nil => intro acc; rfl
  | cons a rest ih =>
    intro acc
    show (Xp.cbEvents env s node rest (Xp.cbEvent env s node a ++ acc)).filter keepEv = _
    rw [ih, List.filter_append]
    have : (Xp.cbEvent env s node a).filter keepEv = [] := by
      unfold Xp.cbEvent
      split
      · simp [keepEv, isF_cb]
      · rfl
    rw [this]; rfl

/-- the events of the closure run are invisible in the virtual log -/
theorem ranState_log (env : Env) (n e : Nat) (s : State) (er : ExpertRec) :
    (ranState env n e s er).log.filter keepEv = s.log.filter keepEv := by
  show (_ :: ((if er.willFireAllCallbacks = true then Xp.cbEvents env s er.node er.children [] else []) ++ s.log)).filter
    keepEv = _
  have h1 : keepEv (.inv s!"x{er.f}" n [] (Xp.expertResult env s (Xp.readyRec env s er)).render) = false := isF_x _
  rw [List.filter_cons_of_neg (by rw [h1]; simp), List.filter_append]
  cases er.willFireAllCallbacks
  · rfl
  · rw [if_pos rfl, cbEvents_filter]; rfl

/-- what the closure returns is the target value of the virtual fold node -/
theorem expert_target {env : Env} {n e : Nat} {s : State} {er : ExpertRec} (F : XFrag env s)
    (hk : (s.nodeD n).kind = .expert e) (he : s.experts[e]? = some er) {vals : List Val}
    (hv : plainVals (virt s) (kids ((virt s).nodeD n).kind) = some vals) :
    Xp.expertResult env s (Xp.readyRec env s er) = vals.foldl (xStep er.f) (.int 0) ∧
      Target (virtEnv env) (virt s) n (vals.foldl (xStep er.f) (.int 0)) := by
  obtain ⟨f1, _, f3, _, _, _, _, _, _⟩ := Xp.readyRec_fields env s er
  rw [virt_kids, hk] at hv
  simp only [kidsX, xRec_some he] at hv
  constructor
  · have hv2 : evalArgs (s.value env) (er.children.map (·.child)) = some vals := by
      rw [← hv]
      unfold plainVals
      apply evalArgs_congr
      intro a _
      rw [value_plain env s a (F.noMapRef a), virt_nodeD, virtNode_value]
    have hm := evalArgs_map hv2
    have hd : Xp.depValsOf env s (Xp.readyRec env s er) = vals.map some := by
      unfold Xp.depValsOf
      rw [f3, ← hm, List.map_map]
      rfl
    unfold Xp.expertResult
    rw [hd, f1]
    exact (F.xok e er he).2.2.1 vals _
  · unfold Target
    rw [virt_nodeD, virtNode_kind, hk]
    simp only [virtKind, xRec_some he]
    exact ⟨vals, hv, by rw [virtEnv_foldStep_x]⟩

theorem step_expert_node {env : Env} {s s' : State} {fuel n e : Nat} {r : Option Nat} (F : XFrag env s)
    (I : Inv (virtEnv env) (virt s) (some n)) (hp : s.propagateInvalidity = [])
    (hk : (s.nodeD n).kind = .expert e)
    (h : (recomputeOne env fuel n).run.run s = (.ok r, s')) :
    ∃ (v : Val) (ch : Bool) (T : State) (er : ExpertRec),
      Target (virtEnv env) (virt s) n v ∧ StepRel n v ch r (virt s) (virt s') ∧ Fr s' ∧
      s.experts[e]? = some er ∧
      (maybeChangeValue env fuel n v).run.run T = (.ok r, s') ∧
      (maybeChangeValue (virtEnv env) fuel n v).run.run (virt T) = (.ok r, virt s') ∧
      Upd n (virt s) (virt T) ∧ Fr T ∧
      T.nodes = (started n s).nodes ∧ T.vars = s.vars ∧ T.rch = s.rch ∧ T.ahh = s.ahh ∧ T.observers = s.observers ∧
      T.nextDep = s.nextDep ∧ T.experts.size = s.experts.size ∧
      (∀ e', e' ≠ e → T.experts[e']? = s.experts[e']?) ∧
      (∃ er', T.experts[e]? = some er' ∧ er'.f = er.f ∧ er'.node = er.node ∧ er'.children = er.children ∧
        er'.pk = er.pk ∧ er'.forceStale = false ∧ er'.numInvalidChildren = er.numInvalidChildren ∧
        er'.willFireAllCallbacks = false) ∧
      T.stabNum = s.stabNum ∧ T.status = s.status ∧ T.propagateInvalidity = [] ∧ T.binds = s.binds ∧
      T.top = s.top ∧ T.cfg = s.cfg ∧ T.panicCountdown = none ∧ T.handleAfterStab = s.handleAfterStab ∧
      T.log.filter keepEv = s.log.filter keepEv := by
  have hnec : (virt s).isNecessary n = true := (I.cur n rfl).1
  have hlt : n < s.nodes.size := by rw [← virt_size]; exact (I.graph.nec n hnec).1
  obtain ⟨er, he, hnode⟩ := F.xrec n e hlt hk
  obtain ⟨hpk, hni, hok, _⟩ := F.xok e er he
  have hx : Xp.IsExpert s n (s.nodeD n) e er := ⟨some_of_lt hlt, F.valid n hlt, hk, he⟩
  rw [Xp.recomputeOne_expert_run env fuel n hx hpk F.pc (by omega)] at h
  obtain ⟨vals, hvals⟩ := I.kids_values
  obtain ⟨hv0, htarget⟩ := expert_target F hk he hvals
  rw [hv0] at h
  have hT : logged [.inv s!"x{er.f}" n [] (List.foldl (xStep er.f) (.int 0) vals).render] (Xp.readyState env n e s er) =
      ranState env n e s er := by
    unfold ranState; rw [hv0]
  rw [hT] at h
  have hFr : Fr (ranState env n e s er) := ranState_fr (F.fr hp) he
  obtain ⟨hvirt, hFr'⟩ := Sim.maybeChangeValue env fuel n _ (ranState env n e s er) hFr r s' h
  have hU := ranState_upd (env := env) F hlt hk he
  have hself := ranState_virt_self (env := env) hlt hk he
  obtain ⟨ch, hS⟩ := mcv_static I.graph I.heap hnec hU (by rw [hself, virt_nodeD]) (by rw [hself]; rfl)
    (by rw [hself, virt_nodeD]) hvirt
  obtain ⟨f1, f2, f3, _, _, f6, f7, f8, f9⟩ := Xp.readyRec_fields env s er
  refine ⟨_, ch, ranState env n e s er, er, htarget, hS, hFr', he, h, hvirt, hU, hFr, rfl, rfl, rfl, rfl, rfl, rfl,
    ?_, fun e' he' => ranState_get_ne env n e s er he', ⟨_, ranState_get env n e he, f1, f2, f3, f6, f7, f8, f9⟩,
    rfl, rfl, hp, rfl, rfl, rfl, F.pc, rfl, ?_⟩
  · rw [ranState_experts]; simp
  · exact ranState_log env n e s er

end IncrVerif.Proofs.ExpertH
