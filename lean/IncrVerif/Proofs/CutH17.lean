import IncrVerif.Proofs.CutH15
import IncrVerif.Engine.Run
-- Port of Proofs/Quiet11.lean to ARBITRARY cutoffs (scratch name Q11); overview in Props/C06History.lean
/-!
# Part 10: the observer actions of the API keep `QInv`
-/
namespace IncrVerif.Proofs.CutH
open IncrVerif.Engine IncrVerif.Driver IncrVerif.Proofs IncrVerif.Proofs.Step IncrVerif.Proofs.Sched
variable {e : Bool}

/-! ## run calculus for `getObs` / `modObs` -/

theorem run_getObs (o : Nat) (s : State) :
    (getObs o).run.run s = match s.observers[o]? with
      | some x => (.ok x, s)
      | none => (.error (.site "model:no-such-observer"), s) := by
  simp only [getObs, run_bind, run_get]
  cases s.observers[o]? <;> rfl

theorem getObs_ok_inv {o : Nat} {s s' : State} {ob : ObsRec}
    (h : (getObs o).run.run s = (.ok ob, s')) : s' = s ∧ s.observers[o]? = some ob := by
  rw [run_getObs] at h
  cases hn : s.observers[o]? with
  | none => rw [hn] at h; cases h
  | some x => rw [hn] at h; cases h; exact ⟨rfl, rfl⟩

theorem bind_getObs_inv {β} {o : Nat} {f : ObsRec → M β} {s s' : State} {r : β}
    (h : (getObs o >>= f).run.run s = (.ok r, s')) :
    ∃ ob, s.observers[o]? = some ob ∧ (f ob).run.run s = (.ok r, s') := by
  obtain ⟨ob, s1, h1, h2⟩ := bind_ok_inv h
  obtain ⟨e, hob⟩ := getObs_ok_inv h1
  rw [e] at h2
  exact ⟨ob, hob, h2⟩

theorem run_modObs (o : Nat) (f : ObsRec → ObsRec) (s : State) :
    (modObs o f).run.run s = (.ok (), { s with observers := s.observers.modify o f }) := rfl

theorem modObs_ok_inv {o : Nat} {f : ObsRec → ObsRec} {s s' : State} {u : Unit}
    (h : (modObs o f).run.run s = (.ok u, s')) : s' = { s with observers := s.observers.modify o f } := by
  rw [run_modObs] at h; cases h; rfl

theorem bind_modObs_inv {β} {o : Nat} {g : ObsRec → ObsRec} {f : Unit → M β} {s s' : State} {r : β}
    (h : (modObs o g >>= f).run.run s = (.ok r, s')) :
    ∃ s1, s1 = { s with observers := s.observers.modify o g } ∧ (f ()).run.run s1 = (.ok r, s') := by
  obtain ⟨u, s1, h1, h2⟩ := bind_ok_inv h
  exact ⟨s1, modObs_ok_inv h1, h2⟩

theorem bind_bumpCounter_inv {β} {g : Counters → Counters} {f : Unit → M β} {s s' : State} {r : β}
    (h : (bumpCounter g >>= f).run.run s = (.ok r, s')) :
    ∃ s1, s1 = { s with counters := g s.counters } ∧ (f ()).run.run s1 = (.ok r, s') := by
  rw [run_bind_bumpCounter] at h; exact ⟨_, rfl, h⟩

/-! ## everything `QInv` reads, except the observer bookkeeping -/

structure OFrame (s s' : State) : Prop where
  nodes : s'.nodes = s.nodes
  vars : s'.vars = s.vars
  rch : s'.rch = s.rch
  stabNum : s'.stabNum = s.stabNum
  status : s'.status = s.status
  alive : s'.alive = s.alive
  setDuringStab : s'.setDuringStab = s.setDuringStab
  deadVars : s'.deadVars = s.deadVars
  handleAfterStab : s'.handleAfterStab = s.handleAfterStab
  pinv : s'.propagateInvalidity = s.propagateInvalidity
  top : s'.top = s.top
  pc : s'.panicCountdown = s.panicCountdown
  scope : s'.currentScope = s.currentScope

theorem OFrame.refl (s : State) : OFrame s s := ⟨rfl, rfl, rfl, rfl, rfl, rfl, rfl, rfl, rfl, rfl, rfl, rfl, rfl⟩

theorem OFrame.trans {a b c : State} (h1 : OFrame a b) (h2 : OFrame b c) : OFrame a c :=
  ⟨h2.nodes.trans h1.nodes, h2.vars.trans h1.vars, h2.rch.trans h1.rch, h2.stabNum.trans h1.stabNum,
    h2.status.trans h1.status, h2.alive.trans h1.alive, h2.setDuringStab.trans h1.setDuringStab,
    h2.deadVars.trans h1.deadVars, h2.handleAfterStab.trans h1.handleAfterStab, h2.pinv.trans h1.pinv,
    h2.top.trans h1.top, h2.pc.trans h1.pc, h2.scope.trans h1.scope⟩

theorem OFrame.nodeD {s s' : State} (F : OFrame s s') (m : Nat) : s'.nodeD m = s.nodeD m := by
  simp [State.nodeD, F.nodes]

/-- an action that only touches the observer bookkeeping (and counters) keeps `QInv` as soon as it keeps `ObsOK` -/
theorem QInv.of_obs {env : Env} {s s' : State} (Q : QInv env e s) (F : OFrame s s') (O : ObsOK s') :
    QInv env e s' where
  struct := GInv.congr Q.struct (SameG.of_nodes F.nodes F.pc F.scope F.rch F.vars)
  vars := by
    refine ⟨fun n c hn hk => ?_, fun c vc h => ?_⟩
    · rw [F.nodes] at hn; rw [F.nodeD] at hk; rw [F.vars]; exact Q.vars.node n c hn hk
    · rw [F.vars] at h; rw [F.nodes, F.nodeD]; exact Q.vars.cell c vc h
  obs := O
  now := by rw [F.stabNum]; exact Q.now
  stamps m := by rw [F.nodeD, F.stabNum]; exact Q.stamps m
  varStamp c vc h := by rw [F.vars] at h; rw [F.stabNum]; exact Q.varStamp c vc h
  cons m hm hs := by
    have S := SameG.of_nodes F.nodes F.pc F.scope F.rch F.vars
    rw [F.nodes] at hm
    rw [S.staleOf] at hs
    obtain ⟨v, hv, hT⟩ := Q.cons m hm hs
    refine ⟨v, ?_, fun he => Target.congr (by rw [F.nodeD]) F.vars (fun c _ => by rw [F.nodeD]) (hT he)⟩
    rw [F.nodeD]; exact hv
  exact he m := by rw [F.nodeD]; exact Q.exact he m
  status := by rw [F.status]; exact Q.status
  alive := by rw [F.alive]; exact Q.alive
  setDuringStab := by rw [F.setDuringStab]; exact Q.setDuringStab
  deadVars := by rw [F.deadVars]; exact Q.deadVars
  handleAfterStab := by rw [F.handleAfterStab]; exact Q.handleAfterStab
  handlers m := by rw [F.nodeD]; exact Q.handlers m
  pinv := by rw [F.pinv]; exact Q.pinv
  top k n h := by rw [F.top] at h; rw [F.nodes]; exact Q.top k n h

/-! ## the observer bookkeeping under a push / a modify -/

theorem ObsInv.push {s s' : State} {pn pd : List Nat} {n : Nat} (I : ObsInv s pn pd)
    (hn : s'.nodes = s.nodes) (hlt : n < s.nodes.size)
    (ho : s'.observers = s.observers.push { node := n }) :
    ObsInv s' (pn ++ [s.observers.size]) pd := by
  have hD : ∀ m, s'.nodeD m = s.nodeD m := fun m => by simp [State.nodeD, hn]
  have hget : ∀ o, s'.observers[o]? =
      if o = s.observers.size then some ({ node := n } : ObsRec) else s.observers[o]? := by
    intro o; rw [ho, Array.getElem?_push]
  have hsz : s.observers[s.observers.size]? = none := by simp
  refine ⟨?_, ?_, ?_, ?_, ?_, ?_, I.disNodup⟩
  · intro o ob h
    rw [hget] at h; rw [hn]
    split at h
    · cases h; exact ⟨hlt, rfl⟩
    · exact I.inRange o ob h
  · intro m o
    rw [hD, I.mem, hget]
    split
    · rename_i e
      rw [e, hsz]
      constructor
      · rintro ⟨ob, h, -⟩; cases h
      · rintro ⟨ob, h, -, h3⟩
        cases h
        rcases h3 with h3 | h3 <;> cases h3
    · exact Iff.rfl
  · intro o ob h hc
    rw [hget] at h
    split at h
    · rename_i e; rw [e]; simp
    · exact List.mem_append_left _ (I.created o ob h hc)
  · intro o hm
    rw [hget]
    split
    · exact ⟨_, rfl⟩
    · rename_i ne
      rcases List.mem_append.1 hm with h | h
      · exact I.newIn o h
      · simp at h; exact absurd h ne
  · intro o ob h
    rw [hget] at h
    split at h
    · rename_i e
      cases h
      constructor
      · intro h; cases h
      · intro hm
        obtain ⟨ob, h⟩ := I.disIn o hm
        rw [e, hsz] at h; cases h
    · exact I.dis o ob h
  · intro o hm
    obtain ⟨ob, h⟩ := I.disIn o hm
    rw [hget]
    split
    · exact ⟨_, rfl⟩
    · exact ⟨ob, h⟩

/-- modifying one observer record -/
theorem ObsInv.modify {s s' : State} {pn pd pd' : List Nat} {o : Nat} {f : ObsRec → ObsRec}
    (I : ObsInv s pn pd) (hn : s'.nodes = s.nodes) (ho : s'.observers = s.observers.modify o f)
    (h1 : ∀ ob, s.observers[o]? = some ob → (f ob).node = ob.node ∧ (f ob).handlers = [])
    (h3 : ∀ ob, s.observers[o]? = some ob →
      (((f ob).state = .inUse ∨ (f ob).state = .disallowed) ↔ (ob.state = .inUse ∨ ob.state = .disallowed)))
    (h4 : ∀ ob, s.observers[o]? = some ob → (f ob).state = .created → ob.state = .created)
    (h5 : ∀ ob, s.observers[o]? = some ob → ((f ob).state = .disallowed ↔ o ∈ pd'))
    (h6 : ∀ o', (s.observers[o]? = none ∨ o' ≠ o) → (o' ∈ pd' ↔ o' ∈ pd))
    (h7 : pd'.Nodup) : ObsInv s' pn pd' := by
  have hD : ∀ m, s'.nodeD m = s.nodeD m := fun m => by simp [State.nodeD, hn]
  have hget : ∀ o', s'.observers[o']? = if o = o' then Option.map f s.observers[o']? else s.observers[o']? := by
    intro o'; rw [ho, Array.getElem?_modify]
  refine ⟨?_, ?_, ?_, ?_, ?_, ?_, h7⟩
  · intro o' ob h
    rw [hget] at h; rw [hn]
    split at h
    · rename_i e
      cases hob : s.observers[o']? with
      | none => rw [hob] at h; cases h
      | some x =>
        rw [hob] at h; cases h
        rw [← e] at hob
        rw [(h1 x hob).1]
        exact ⟨(I.inRange o x hob).1, (h1 x hob).2⟩
    · exact I.inRange o' ob h
  · intro m o'
    rw [hD, I.mem, hget]
    split
    · rename_i e
      rw [← e]
      constructor
      · rintro ⟨ob, h, hm, hs⟩
        exact ⟨f ob, by rw [h]; rfl, by rw [(h1 ob h).1]; exact hm, (h3 ob h).2 hs⟩
      · rintro ⟨ob', h, hm, hs⟩
        cases hob : s.observers[o]? with
        | none => rw [hob] at h; cases h
        | some x =>
          rw [hob] at h; cases h
          exact ⟨x, rfl, by rw [← (h1 x hob).1]; exact hm, (h3 x hob).1 hs⟩
    · exact Iff.rfl
  · intro o' ob h hc
    rw [hget] at h
    split at h
    · rename_i e
      cases hob : s.observers[o']? with
      | none => rw [hob] at h; cases h
      | some x =>
        rw [hob] at h; cases h
        have hob' := hob
        rw [← e] at hob'
        exact I.created o' x hob (h4 x hob' hc)
    · exact I.created o' ob h hc
  · intro o' hm
    obtain ⟨ob, h⟩ := I.newIn o' hm
    rw [hget, h]
    split
    · exact ⟨_, rfl⟩
    · exact ⟨_, rfl⟩
  · intro o' ob h
    rw [hget] at h
    split at h
    · rename_i e
      cases hob : s.observers[o']? with
      | none => rw [hob] at h; cases h
      | some x =>
        rw [hob] at h; cases h
        rw [← e] at hob ⊢
        exact h5 x hob
    · rename_i ne
      rw [h6 o' (Or.inr (fun e => ne e.symm))]
      exact I.dis o' ob h
  · intro o' hm
    rw [hget]
    by_cases e : o = o'
    · rw [if_pos e]
      cases hob : s.observers[o']? with
      | none =>
        have hob' := hob
        rw [← e] at hob'
        obtain ⟨ob, h⟩ := I.disIn o' ((h6 o' (Or.inl hob')).1 hm)
        rw [hob] at h; cases h
      | some x => exact ⟨_, rfl⟩
    · rw [if_neg e]
      exact I.disIn o' ((h6 o' (Or.inr (fun e' => e e'.symm))).1 hm)

/-- a modification that keeps node, state and handlers of the record -/
theorem ObsInv.modify_same {s s' : State} {pn pd : List Nat} {o : Nat} {f : ObsRec → ObsRec}
    (I : ObsInv s pn pd) (hn : s'.nodes = s.nodes) (ho : s'.observers = s.observers.modify o f)
    (hf : ∀ ob, (f ob).node = ob.node ∧ (f ob).state = ob.state ∧ (f ob).handlers = ob.handlers) :
    ObsInv s' pn pd := by
  refine I.modify hn ho (fun ob h => ⟨(hf ob).1, ?_⟩) (fun ob _ => by rw [(hf ob).2.1])
    (fun ob _ h => by rw [(hf ob).2.1] at h; exact h) (fun ob h => ?_) (fun _ _ => Iff.rfl) I.disNodup
  · rw [(hf ob).2.2]; exact (I.inRange o ob h).2
  · rw [(hf ob).2.1]; exact I.dis o ob h

/-! ## the actions -/

theorem modObs_same_q {env : Env} {s : State} {o : Nat} {f : ObsRec → ObsRec} (Q : QInv env e s)
    (hf : ∀ ob, (f ob).node = ob.node ∧ (f ob).state = ob.state ∧ (f ob).handlers = ob.handlers) :
    QInv env e { s with observers := s.observers.modify o f } :=
  Q.of_obs ⟨rfl, rfl, rfl, rfl, rfl, rfl, rfl, rfl, rfl, rfl, rfl, rfl, rfl⟩
    (ObsInv.modify_same (s' := { s with observers := s.observers.modify o f }) Q.obs rfl rfl hf)

theorem step_observe {env : Env} {s s' : State} {k : Nat} {tokens : Array Nat} {r : String × Array Nat}
    (Q : QInv env e s) (h : (stepAction env (.observe (.outer k)) tokens).run.run s = (.ok r, s')) :
    QInv env e s' := by
  simp only [stepAction, resolveOpnd] at h
  obtain ⟨n, s0, h0, h⟩ := bind_ok_inv h
  rw [run_bind_get] at h0
  cases hk : s.top[k]? with
  | none => rw [hk] at h0; cases h0
  | some n' =>
    rw [hk] at h0
    obtain ⟨en, e0⟩ := pure_ok_inv h0
    rw [e0] at h
    rw [run_bind_get] at h
    obtain ⟨s1, e1, h⟩ := bind_modify_inv h
    obtain ⟨s2, e2, h⟩ := bind_bumpCounter_inv h
    obtain ⟨-, e⟩ := pure_ok_inv h
    have hlt : n < s.nodes.size := by rw [en]; exact Q.top k n' hk
    rw [e, e2, e1]
    refine Q.of_obs ⟨rfl, rfl, rfl, rfl, rfl, rfl, rfl, rfl, rfl, rfl, rfl, rfl, rfl⟩ ?_
    exact ObsInv.push Q.obs rfl hlt rfl

theorem step_cloneObs {env : Env} {s s' : State} {o : Nat} {tokens : Array Nat} {r : String × Array Nat}
    (Q : QInv env e s) (h : (stepAction env (.cloneObs o) tokens).run.run s = (.ok r, s')) :
    QInv env e s' := by
  simp only [stepAction] at h
  obtain ⟨s1, e1, h⟩ := bind_modObs_inv h
  obtain ⟨-, e⟩ := pure_ok_inv h
  rw [e, e1]
  exact modObs_same_q Q (fun ob => ⟨rfl, rfl, rfl⟩)

theorem disallowFutureUse_q {env : Env} {s s' : State} {o : Nat} {u : Unit}
    (Q : QInv env e s) (h : (disallowFutureUse o).run.run s = (.ok u, s')) : QInv env e s' := by
  unfold disallowFutureUse at h
  obtain ⟨ob, hob, h⟩ := bind_getObs_inv h
  cases hst : ob.state with
  | disallowed =>
    rw [hst] at h
    obtain ⟨-, e⟩ := pure_ok_inv h
    rw [e]; exact Q
  | unlinked =>
    rw [hst] at h
    obtain ⟨-, e⟩ := pure_ok_inv h
    rw [e]; exact Q
  | created =>
    rw [hst] at h
    dsimp only at h
    obtain ⟨s1, e1, h⟩ := bind_bumpCounter_inv h
    have e := modObs_ok_inv h
    rw [e, e1]
    refine Q.of_obs ⟨rfl, rfl, rfl, rfl, rfl, rfl, rfl, rfl, rfl, rfl, rfl, rfl, rfl⟩ ?_
    refine ObsInv.modify (pd' := s.disallowedObservers) (o := o)
      (f := fun x => { x with state := .unlinked, handlers := [] }) Q.obs rfl rfl ?_ ?_ ?_ ?_ (fun _ _ => Iff.rfl)
      Q.obs.disNodup
    · intro ob' h'; exact ⟨rfl, rfl⟩
    · intro ob' h'
      rw [hob] at h'; cases h'
      rw [hst]
      constructor
      · intro h; rcases h with h | h <;> cases h
      · intro h; rcases h with h | h <;> cases h
    · intro ob' h' hc; cases hc
    · intro ob' h'
      rw [hob] at h'; cases h'
      rw [← Q.obs.dis o ob hob, hst]
      constructor
      · intro h; cases h
      · intro h; cases h
  | inUse =>
    rw [hst] at h
    dsimp only at h
    obtain ⟨s1, e1, h⟩ := bind_bumpCounter_inv h
    obtain ⟨s2, e2, h⟩ := bind_modObs_inv h
    rw [run_modify] at h
    have e : s' = { s2 with disallowedObservers := s2.disallowedObservers ++ [o] } := by cases h; rfl
    have hnot : o ∉ s.disallowedObservers := by
      intro hm
      have := (Q.obs.dis o ob hob).2 hm
      rw [hst] at this; cases this
    rw [e, e2, e1]
    refine Q.of_obs ⟨rfl, rfl, rfl, rfl, rfl, rfl, rfl, rfl, rfl, rfl, rfl, rfl, rfl⟩ ?_
    refine ObsInv.modify (pd' := s.disallowedObservers ++ [o]) (o := o)
      (f := fun x => { x with state := .disallowed }) Q.obs rfl rfl ?_ ?_ ?_ ?_ ?_ ?_
    · intro ob' h'; exact ⟨rfl, (Q.obs.inRange o ob' h').2⟩
    · intro ob' h'
      rw [hob] at h'; cases h'
      rw [hst]
      exact ⟨fun _ => Or.inl rfl, fun _ => Or.inr rfl⟩
    · intro ob' h' hc; cases hc
    · intro ob' h'
      exact ⟨fun _ => List.mem_append_right _ (List.mem_singleton.2 rfl), fun _ => rfl⟩
    · intro o' ho'
      rcases ho' with ho' | ho'
      · rw [hob] at ho'; cases ho'
      · simp only [List.mem_append, List.mem_singleton, ho', or_false]
    · rw [List.nodup_append]
      refine ⟨Q.obs.disNodup, List.nodup_cons.2 ⟨List.not_mem_nil, List.nodup_nil⟩, ?_⟩
      intro a ha b hb
      rw [List.mem_singleton] at hb
      rw [hb]; intro eab; rw [eab] at ha; exact hnot ha

theorem step_dropObs {env : Env} {s s' : State} {o : Nat} {tokens : Array Nat} {r : String × Array Nat}
    (Q : QInv env e s) (h : (stepAction env (.dropObs o) tokens).run.run s = (.ok r, s')) :
    QInv env e s' := by
  simp only [stepAction] at h
  obtain ⟨ob, hob, h⟩ := bind_getObs_inv h
  split at h
  · obtain ⟨-, e⟩ := pure_ok_inv h
    rw [e]; exact Q
  · obtain ⟨s1, e1, h⟩ := bind_modObs_inv h
    have Q1 : QInv env e s1 := by
      rw [e1]; exact modObs_same_q Q (fun ob => ⟨rfl, rfl, rfl⟩)
    split at h
    · obtain ⟨u, s2, h2, h⟩ := bind_ok_inv h
      obtain ⟨-, e⟩ := pure_ok_inv h
      rw [e]
      exact disallowFutureUse_q Q1 h2
    · obtain ⟨-, e⟩ := pure_ok_inv h
      rw [e]; exact Q1

theorem step_disallow {env : Env} {s s' : State} {o : Nat} {tokens : Array Nat} {r : String × Array Nat}
    (Q : QInv env e s) (h : (stepAction env (.disallow o) tokens).run.run s = (.ok r, s')) :
    QInv env e s' := by
  simp only [stepAction] at h
  obtain ⟨u, s1, h1, h⟩ := bind_ok_inv h
  obtain ⟨-, e⟩ := pure_ok_inv h
  rw [e]
  exact disallowFutureUse_q Q h1

end IncrVerif.Proofs.CutH
