import IncrVerif.Proofs.Memo
import IncrVerif.Proofs.Life3
/-!
# C20 over whole histories, part 1: what no function of the model touches

`F0V s s'` ("frame"): the step from `s` to `s'` only appended nodes, kept `kind`/`createdIn`/`valid` of the
existing nodes, left the memo tables, the naming table `top`, the program's handles and every observer's
`(node, clones)` alone, made new nodes valid, and kept `RegScoped` (a node registered in a bind's
`allNodesCreatedOnRhs` exists and was created in that bind's scope).  `F0` is the same without `valid`.

`class FLocal R` (`F0V s s' → R s s'`) and `class ILocal R` (`F0 s s' → R s s'`): every function of the
model that neither calls a memoised function nor sweeps the tables is `Pres R` — for `FLocal` the functions
that do not invalidate, for `ILocal` all of them (this file and `H2`).
-/
namespace IncrVerif.Proofs.MemoH
open IncrVerif.Engine IncrVerif.Proofs.Obs IncrVerif.Proofs.Memo

/-- the immutable part of a node -/
def nodeK (nd : Node) : Kind × Scope := (nd.kind, nd.createdIn)
/-- what makes an observer a root: the node it watches and the number of public handles -/
def obsK (ob : ObsRec) : Nat × Nat := (ob.node, ob.clones)

/-- a node registered with bind `b` exists and was created in scope `.bind b` -/
def RegScoped (s : State) : Prop :=
  ∀ b br, s.binds[b]? = some br → ∀ r ∈ br.allNodesCreatedOnRhs,
    r < s.nodes.size ∧ (s.nodeD r).createdIn = .bind b

structure F0 (s s' : State) : Prop where
  nodesLe : s.nodes.size ≤ s'.nodes.size
  core : ∀ i, i < s.nodes.size → nodeK (s'.nodeD i) = nodeK (s.nodeD i)
  memos : s'.memos = s.memos
  top : s'.top = s.top
  handles : s'.handles = s.handles
  obs : ∀ o : Nat, (s'.observers[o]?).map obsK = (s.observers[o]?).map obsK
  reg : RegScoped s → RegScoped s'
  /-- events are only ever added -/
  log : ∃ evs, s'.log = evs ++ s.log

structure F0V (s s' : State) : Prop extends F0 s s' where
  valid : ∀ i, i < s.nodes.size → (s'.nodeD i).valid = (s.nodeD i).valid
  newValid : ∀ i, s.nodes.size ≤ i → i < s'.nodes.size → (s'.nodeD i).valid = true

theorem F0.refl (s : State) : F0 s s :=
  ⟨Nat.le_refl _, fun _ _ => rfl, rfl, rfl, rfl, fun _ => rfl, fun h => h, [], rfl⟩

theorem F0.trans {a b c : State} (h1 : F0 a b) (h2 : F0 b c) : F0 a c where
  nodesLe := Nat.le_trans h1.nodesLe h2.nodesLe
  core i hi := (h2.core i (Nat.lt_of_lt_of_le hi h1.nodesLe)).trans (h1.core i hi)
  memos := h2.memos.trans h1.memos
  top := h2.top.trans h1.top
  handles := h2.handles.trans h1.handles
  obs o := (h2.obs o).trans (h1.obs o)
  reg h := h2.reg (h1.reg h)
  log := by
    obtain ⟨e1, q1⟩ := h1.log
    obtain ⟨e2, q2⟩ := h2.log
    exact ⟨e2 ++ e1, by rw [q2, q1, List.append_assoc]⟩

theorem F0V.refl (s : State) : F0V s s :=
  ⟨F0.refl s, fun _ _ => rfl, fun i h1 h2 => absurd h2 (by omega)⟩

theorem F0V.trans {a b c : State} (h1 : F0V a b) (h2 : F0V b c) : F0V a c where
  toF0 := h1.toF0.trans h2.toF0
  valid i hi := (h2.valid i (Nat.lt_of_lt_of_le hi h1.nodesLe)).trans (h1.valid i hi)
  newValid i hi1 hi2 := by
    by_cases hb : i < b.nodes.size
    · rw [h2.valid i hb]; exact h1.newValid i hi1 hb
    · exact h2.newValid i (by omega) hi2

instance : PreOrd F0 := ⟨F0.refl, F0.trans⟩
instance : PreOrd F0V := ⟨F0V.refl, F0V.trans⟩

theorem RegScoped.of_eq {s s' : State} (h1 : s'.nodes = s.nodes) (h2 : s'.binds = s.binds)
    (h : RegScoped s) : RegScoped s' := by
  intro b br hb r hr
  rw [h2] at hb
  have := h b br hb r hr
  simpa only [State.nodeD, h1] using this

/-- a step that leaves `nodes`, `memos`, `top`, `handles`, `observers`, `binds` alone -/
theorem F0V.of_eq {s s' : State} (h1 : s'.nodes = s.nodes) (h2 : s'.memos = s.memos)
    (h3 : s'.top = s.top) (h4 : s'.handles = s.handles) (h5 : s'.observers = s.observers)
    (h6 : s'.binds = s.binds) (h7 : s'.log = s.log) : F0V s s' where
  nodesLe := by rw [h1]; exact Nat.le_refl _
  core i _ := by simp only [State.nodeD, h1]
  memos := h2
  top := h3
  handles := h4
  obs o := by rw [h5]
  reg := RegScoped.of_eq h1 h6
  log := ⟨[], by rw [h7]; rfl⟩
  valid i _ := by simp only [State.nodeD, h1]
  newValid i hi1 hi2 := absurd hi2 (by rw [h1]; omega)

theorem nodeD_modify (s : State) (n : Nat) (f : Node → Node) (i : Nat) :
    ({ s with nodes := s.nodes.modify n f } : State).nodeD i
      = if n = i then (if i < s.nodes.size then f (s.nodeD i) else s.nodeD i) else s.nodeD i := by
  simp only [State.nodeD, Array.getElem?_modify]
  by_cases hni : n = i
  · subst hni
    by_cases hi : n < s.nodes.size
    · simp [hi]
    · simp [hi, Array.getElem?_eq_none (Nat.le_of_not_lt hi)]
  · simp [hni]

theorem F0.modNode (s : State) (n : Nat) (f : Node → Node) (hf : ∀ x, nodeK (f x) = nodeK x) :
    F0 s { s with nodes := s.nodes.modify n f } where
  nodesLe := by show s.nodes.size ≤ (s.nodes.modify n f).size; simp
  core i hi := by
    rw [nodeD_modify]
    by_cases hni : n = i
    · rw [if_pos hni, if_pos hi]; exact hf _
    · rw [if_neg hni]
  memos := rfl
  top := rfl
  handles := rfl
  obs _ := rfl
  log := ⟨[], rfl⟩
  reg h := by
    intro b br hb r hr
    have := h b br hb r hr
    refine ⟨by simpa using this.1, ?_⟩
    rw [nodeD_modify]
    by_cases hni : n = r
    · rw [if_pos hni, if_pos this.1]
      have h2 := hf (s.nodeD r)
      simp only [nodeK, Prod.mk.injEq] at h2
      rw [h2.2]; exact this.2
    · rw [if_neg hni]; exact this.2

theorem F0V.modNode (s : State) (n : Nat) (f : Node → Node)
    (hf : ∀ x, nodeK (f x) = nodeK x ∧ (f x).valid = x.valid) :
    F0V s { s with nodes := s.nodes.modify n f } where
  toF0 := F0.modNode s n f fun x => (hf x).1
  valid i hi := by
    rw [nodeD_modify]
    by_cases hni : n = i
    · rw [if_pos hni, if_pos hi]; exact (hf _).2
    · rw [if_neg hni]
  newValid i hi1 hi2 := absurd hi2 (by show ¬ i < (s.nodes.modify n f).size; simp; omega)

theorem F0V.modObs (s : State) (o : Nat) (f : ObsRec → ObsRec) (hf : ∀ x, obsK (f x) = obsK x) :
    F0V s { s with observers := s.observers.modify o f } where
  nodesLe := Nat.le_refl _
  core _ _ := rfl
  memos := rfl
  top := rfl
  handles := rfl
  obs o' := by
    simp only [Array.getElem?_modify]
    split
    · cases s.observers[o']? <;> simp [hf]
    · rfl
  reg h := h
  log := ⟨[], rfl⟩
  valid _ _ := rfl
  newValid i hi1 hi2 := absurd hi2 (by show ¬ i < s.nodes.size; omega)

theorem F0V.modBind (s : State) (b : Nat) (f : BindRec → BindRec)
    (hf : ∀ x, ∀ r ∈ (f x).allNodesCreatedOnRhs, r ∈ x.allNodesCreatedOnRhs) :
    F0V s { s with binds := s.binds.modify b f } where
  nodesLe := Nat.le_refl _
  core _ _ := rfl
  memos := rfl
  top := rfl
  handles := rfl
  obs _ := rfl
  log := ⟨[], rfl⟩
  reg h := by
    intro b' br hb r hr
    simp only [Array.getElem?_modify] at hb
    split at hb
    · cases hx : s.binds[b']? with
      | none => rw [hx] at hb; cases hb
      | some x =>
        rw [hx] at hb
        simp only [Option.map_some, Option.some.injEq] at hb
        subst hb
        exact h b' x hx r (hf x r hr)
    · exact h b' br hb r hr
  valid _ _ := rfl
  newValid i hi1 hi2 := absurd hi2 (by show ¬ i < s.nodes.size; omega)

theorem F0V.pushBind (s : State) (br : BindRec) (hbr : br.allNodesCreatedOnRhs = []) :
    F0V s { s with binds := s.binds.push br } where
  nodesLe := Nat.le_refl _
  core _ _ := rfl
  memos := rfl
  top := rfl
  handles := rfl
  obs _ := rfl
  log := ⟨[], rfl⟩
  reg h := by
    intro b' br' hb r hr
    simp only [Array.getElem?_push] at hb
    split at hb
    · cases hb; rw [hbr] at hr; cases hr
    · exact h b' br' hb r hr
  valid _ _ := rfl
  newValid i hi1 hi2 := absurd hi2 (by show ¬ i < s.nodes.size; omega)

theorem nodeD_push (s : State) (nd : Node) (i : Nat) :
    ({ s with nodes := s.nodes.push nd } : State).nodeD i
      = if i = s.nodes.size then nd else s.nodeD i := by
  simp only [State.nodeD, Array.getElem?_push]
  split <;> simp

/-- appending a top-level node -/
theorem F0V.pushTop (s : State) (nd : Node) (hv : nd.valid = true) :
    F0V s { s with nodes := s.nodes.push nd } where
  nodesLe := by simp
  core i hi := by rw [nodeD_push]; simp [Nat.ne_of_lt hi]
  memos := rfl
  top := rfl
  handles := rfl
  obs _ := rfl
  log := ⟨[], rfl⟩
  reg h := by
    intro b br hb r hr
    have := h b br hb r hr
    refine ⟨by simp; omega, ?_⟩
    rw [nodeD_push]; simp [Nat.ne_of_lt this.1, this.2]
  valid i hi := by rw [nodeD_push]; simp [Nat.ne_of_lt hi]
  newValid i hi1 hi2 := by
    have : i = s.nodes.size := by simp at hi2; omega
    rw [nodeD_push]; simp [this, hv]

/-- appending a node created in scope `.bind b` and registering it with `b` -/
theorem F0V.pushScoped (s : State) (nd : Node) (b : Nat) (hv : nd.valid = true)
    (hsc : nd.createdIn = .bind b) :
    F0V s { s with nodes := s.nodes.push nd,
                   binds := s.binds.modify b fun x =>
                     { x with allNodesCreatedOnRhs := x.allNodesCreatedOnRhs ++ [s.nodes.size] } } where
  nodesLe := by simp
  core i hi := by
    show nodeK (({ s with nodes := s.nodes.push nd } : State).nodeD i) = _
    rw [nodeD_push]; simp [Nat.ne_of_lt hi]
  memos := rfl
  top := rfl
  handles := rfl
  obs _ := rfl
  log := ⟨[], rfl⟩
  reg h := by
    intro b' br hb r hr
    show r < (s.nodes.push nd).size ∧ (({ s with nodes := s.nodes.push nd } : State).nodeD r).createdIn = _
    rw [nodeD_push]
    simp only [Array.getElem?_modify] at hb
    have old : ∀ br0, s.binds[b']? = some br0 → r ∈ br0.allNodesCreatedOnRhs →
        r < (s.nodes.push nd).size ∧ (if r = s.nodes.size then nd else s.nodeD r).createdIn = .bind b' := by
      intro br0 h0 hr0
      have := h b' br0 h0 r hr0
      exact ⟨by simp; omega, by simp [Nat.ne_of_lt this.1, this.2]⟩
    split at hb
    · rename_i hbb
      cases hx : s.binds[b']? with
      | none => rw [hx] at hb; cases hb
      | some x =>
        rw [hx] at hb
        simp only [Option.map_some, Option.some.injEq] at hb
        subst hb
        rcases List.mem_append.1 hr with hr | hr
        · exact old x hx hr
        · simp only [List.mem_singleton] at hr
          subst hr
          exact ⟨by simp, by simp [hsc, hbb]⟩
    · exact old br hb hr
  valid i hi := by
    show (({ s with nodes := s.nodes.push nd } : State).nodeD i).valid = _
    rw [nodeD_push]; simp [Nat.ne_of_lt hi]
  newValid i hi1 hi2 := by
    show (({ s with nodes := s.nodes.push nd } : State).nodeD i).valid = true
    have : i = s.nodes.size := by
      have : i < (s.nodes.push nd).size := hi2
      simp at this; omega
    rw [nodeD_push]; simp [this, hv]

/-! ## the two classes of relations -/

/-- relations implied by the frame `F0V` -/
class FLocal (R : State → State → Prop) : Prop extends PreOrd R where
  of_frame : ∀ s s' : State, F0V s s' → R s s'

/-- relations implied by the frame `F0` (they do not look at `valid`) -/
class ILocal (R : State → State → Prop) : Prop extends PreOrd R where
  of_frame0 : ∀ s s' : State, F0 s s' → R s s'

instance (R : State → State → Prop) [ILocal R] : FLocal R where
  of_frame s s' h := ILocal.of_frame0 s s' h.toF0

instance : ILocal F0 := ⟨fun _ _ h => h⟩
instance : FLocal F0V := ⟨fun _ _ h => h⟩

/-! ## the decomposition tactic (same shape as `Life.lpres`) -/

syntax "mleaf" : tactic
macro_rules | `(tactic| mleaf) => `(tactic| fail "no leaf")

macro "mstep" : tactic => `(tactic| first
  | with_reducible apply Pres.pure | with_reducible apply Pres.get | with_reducible apply Pres.panic
  | with_reducible apply Pres.throw
  | with_reducible apply Pres.bind | with_reducible apply Pres.map | with_reducible apply Pres.mapM
  | with_reducible apply Pres.forIn
  | with_reducible apply Pres.getNode | with_reducible apply Pres.dassert
  | with_reducible apply Pres.getBind | with_reducible apply Pres.getExpert
  | with_reducible apply Pres.getVar | with_reducible apply Pres.assertM
  | with_reducible apply Pres.getObs | with_reducible apply Pres.isConstant
  | with_reducible apply Pres.resolveOpnd | with_reducible apply Pres.discard
  | with_reducible apply Pres.withVarHandle
  | mleaf
  | intro _ | split | dsimp only)

macro "mpres" : tactic => `(tactic| repeat (any_goals mstep))

/-- register a lemma as a leaf -/
macro "memo_leaf " n:ident : command =>
  `(macro_rules | `(tactic| mleaf) => `(tactic| with_reducible apply $n))

section
variable {R : State → State → Prop} [FLocal R]

macro_rules
  | `(tactic| mleaf) =>
    `(tactic| ((with_reducible apply Pres.modify); intro _;
               exact FLocal.of_frame _ _ (F0V.of_eq rfl rfl rfl rfl rfl rfl rfl)))

theorem PresF.modNode (n f) (hf : ∀ x, nodeK (f x) = nodeK x ∧ (f x).valid = x.valid) :
    Pres R (modNode n f) := by
  unfold Engine.modNode; exact Pres.modify fun s => FLocal.of_frame _ _ (F0V.modNode s n f hf)
macro_rules
  | `(tactic| mleaf) => `(tactic| ((with_reducible apply PresF.modNode); intro _; exact ⟨rfl, rfl⟩))
theorem PresF.modObs (o f) (hf : ∀ x, obsK (f x) = obsK x) : Pres R (modObs o f) := by
  unfold Engine.modObs; exact Pres.modify fun s => FLocal.of_frame _ _ (F0V.modObs s o f hf)
macro_rules
  | `(tactic| mleaf) => `(tactic| ((with_reducible apply PresF.modObs); intro _; rfl))
theorem PresF.modBind (b f) (hf : ∀ x, ∀ r ∈ (f x).allNodesCreatedOnRhs, r ∈ x.allNodesCreatedOnRhs) :
    Pres R (modBind b f) := by
  unfold Engine.modBind; exact Pres.modify fun s => FLocal.of_frame _ _ (F0V.modBind s b f hf)
macro_rules
  | `(tactic| mleaf) =>
    `(tactic| ((with_reducible apply PresF.modBind); intro _ _ h; first | exact h | cases h))
theorem PresF.modVar (n f) : Pres R (modVar n f) := by unfold Engine.modVar; mpres
memo_leaf PresF.modVar
theorem PresF.modExpert (n f) : Pres R (modExpert n f) := by unfold Engine.modExpert; mpres
memo_leaf PresF.modExpert
theorem PresF.bumpCounter (f) : Pres R (bumpCounter f) := by unfold Engine.bumpCounter; mpres
memo_leaf PresF.bumpCounter
theorem F0V.logEv (e : Event) (s : State) : F0V s { s with log := e :: s.log } where
  nodesLe := Nat.le_refl _
  core _ _ := rfl
  memos := rfl
  top := rfl
  handles := rfl
  obs _ := rfl
  reg h := h
  log := ⟨[e], rfl⟩
  valid _ _ := rfl
  newValid i hi1 hi2 := absurd hi2 (by show ¬ i < s.nodes.size; omega)
theorem PresF.logEv (e : Event) : Pres R (logEv e) := by
  unfold Engine.logEv; exact Pres.modify fun s => FLocal.of_frame _ _ (F0V.logEv e s)
memo_leaf PresF.logEv
theorem PresF.tick : Pres R tick := by unfold Engine.tick; mpres
memo_leaf PresF.tick

section
omit [FLocal R]
variable [PreOrd R]
theorem PresP.scopeHeight (sc) : Pres R (scopeHeight sc) := by unfold Engine.scopeHeight; mpres
theorem PresP.scopeIsNecessary (sc) : Pres R (scopeIsNecessary sc) := by
  unfold Engine.scopeIsNecessary; mpres
theorem PresP.scopeIsValid (sc) : Pres R (scopeIsValid sc) := by unfold Engine.scopeIsValid; mpres
theorem PresP.valueUnwrap (env n site) : Pres R (valueUnwrap env n site) := by
  unfold Engine.valueUnwrap; mpres
theorem PresP.expertOf (n) : Pres R (expertOf n) := by unfold Engine.expertOf; mpres
theorem PresP.expertIdxRaw (n) : Pres R (expertIdxRaw n) := by unfold Engine.expertIdxRaw; mpres
end
memo_leaf PresP.scopeHeight
memo_leaf PresP.scopeIsNecessary
memo_leaf PresP.scopeIsValid
memo_leaf PresP.valueUnwrap
memo_leaf PresP.expertOf
memo_leaf PresP.expertIdxRaw

/-! ### heaps, heights -/
theorem PresF.rchLink (n) : Pres R (rchLink n) := by unfold Engine.rchLink; mpres
memo_leaf PresF.rchLink
theorem PresF.rchUnlink (n) : Pres R (rchUnlink n) := by unfold Engine.rchUnlink; mpres
memo_leaf PresF.rchUnlink
theorem PresF.rchInsert (n) : Pres R (rchInsert n) := by unfold Engine.rchInsert; mpres
memo_leaf PresF.rchInsert
theorem PresF.rchRemove (n) : Pres R (rchRemove n) := by unfold Engine.rchRemove; mpres
memo_leaf PresF.rchRemove
theorem PresF.rchMinHeight : Pres R rchMinHeight := by unfold Engine.rchMinHeight; mpres
memo_leaf PresF.rchMinHeight
theorem PresF.rchIncreaseHeight (n) : Pres R (rchIncreaseHeight n) := by
  unfold Engine.rchIncreaseHeight; mpres
memo_leaf PresF.rchIncreaseHeight
theorem PresF.rchRemoveMin : Pres R rchRemoveMin := by unfold Engine.rchRemoveMin; mpres
memo_leaf PresF.rchRemoveMin
theorem PresF.setHeight (n h) : Pres R (setHeight n h) := by unfold Engine.setHeight; mpres
memo_leaf PresF.setHeight
theorem PresF.ahhAddUnlessMem (n) : Pres R (ahhAddUnlessMem n) := by
  unfold Engine.ahhAddUnlessMem; mpres
memo_leaf PresF.ahhAddUnlessMem
theorem PresF.ahhRemoveMin : Pres R ahhRemoveMin := by unfold Engine.ahhRemoveMin; mpres
memo_leaf PresF.ahhRemoveMin
theorem PresF.ensureHeightRequirement (a b c d) : Pres R (ensureHeightRequirement a b c d) := by
  unfold Engine.ensureHeightRequirement; mpres
memo_leaf PresF.ensureHeightRequirement
theorem PresF.adjustHeightsLoop (oc op fuel) : Pres R (adjustHeightsLoop oc op fuel) := by
  induction fuel with
  | zero => unfold Engine.adjustHeightsLoop; mpres
  | succ fuel ih => unfold Engine.adjustHeightsLoop; mpres; all_goals exact ih
memo_leaf PresF.adjustHeightsLoop
theorem PresF.adjustHeights (oc op fuel) : Pres R (adjustHeights oc op fuel) := by
  unfold Engine.adjustHeights; mpres
memo_leaf PresF.adjustHeights

/-! ### parents, handlers bookkeeping, cutoffs, edge callbacks -/
theorem PresF.addParent (a b c) : Pres R (addParent a b c) := by unfold Engine.addParent; mpres
memo_leaf PresF.addParent
theorem PresF.removeParent (a b c) : Pres R (removeParent a b c) := by
  unfold Engine.removeParent; mpres
memo_leaf PresF.removeParent
theorem PresF.handleAfterStabilisation (n) : Pres R (handleAfterStabilisation n) := by
  unfold Engine.handleAfterStabilisation; mpres
memo_leaf PresF.handleAfterStabilisation
theorem PresF.maybeHandleAfterStabilisation (n) : Pres R (maybeHandleAfterStabilisation n) := by
  unfold Engine.maybeHandleAfterStabilisation; mpres
memo_leaf PresF.maybeHandleAfterStabilisation
theorem PresF.shouldCutoff (env n o v) : Pres R (shouldCutoff env n o v) := by
  unfold Engine.shouldCutoff; mpres
memo_leaf PresF.shouldCutoff
theorem PresF.edgeOnChange (env e edge) : Pres R (edgeOnChange env e edge) := by
  unfold Engine.edgeOnChange; mpres
memo_leaf PresF.edgeOnChange
theorem PresF.runEdgeCallback (env e i) : Pres R (runEdgeCallback env e i) := by
  unfold Engine.runEdgeCallback; mpres
memo_leaf PresF.runEdgeCallback
theorem PresF.observabilityChange (e b) : Pres R (observabilityChange e b) := by
  unfold Engine.observabilityChange; mpres
memo_leaf PresF.observabilityChange
theorem PresF.markMapRefUnknown (fuel n) : Pres R (markMapRefUnknown fuel n) := by
  induction fuel generalizing n with
  | zero => unfold Engine.markMapRefUnknown; mpres
  | succ fuel ih => unfold Engine.markMapRefUnknown; mpres; all_goals exact ih _
memo_leaf PresF.markMapRefUnknown

/-! ### necessity cascades -/
theorem PresF.necessary (env : Env) (fuel : Nat) :
    (∀ n, Pres R (becameNecessary env fuel n)) ∧
    (∀ c i p, Pres R (addParentWithoutAdjustingHeights env fuel c i p)) := by
  induction fuel with
  | zero =>
    constructor
    · intro n; unfold Engine.becameNecessary; mpres
    · intro c i p; unfold Engine.addParentWithoutAdjustingHeights; mpres
  | succ fuel ih =>
    constructor
    · intro n; unfold Engine.becameNecessary; mpres; all_goals exact ih.2 _ _ _
    · intro c i p; unfold Engine.addParentWithoutAdjustingHeights; mpres; all_goals exact ih.1 _
theorem PresF.becameNecessary (env fuel n) : Pres R (becameNecessary env fuel n) :=
  (PresF.necessary env fuel).1 n
memo_leaf PresF.becameNecessary
theorem PresF.addParentWithoutAdjustingHeights (env fuel c i p) :
    Pres R (addParentWithoutAdjustingHeights env fuel c i p) := (PresF.necessary env fuel).2 c i p
memo_leaf PresF.addParentWithoutAdjustingHeights

theorem PresF.unnecessary (fuel : Nat) :
    (∀ n, Pres R (becameUnnecessary fuel n)) ∧ (∀ n, Pres R (checkIfUnnecessary fuel n)) ∧
    (∀ n, Pres R (removeChildren fuel n)) := by
  induction fuel with
  | zero =>
    refine ⟨?_, ?_, ?_⟩
    · intro n; unfold Engine.becameUnnecessary; mpres
    · intro n; unfold Engine.checkIfUnnecessary; mpres
    · intro n; unfold Engine.removeChildren; mpres
  | succ fuel ih =>
    refine ⟨?_, ?_, ?_⟩
    · intro n; unfold Engine.becameUnnecessary; mpres; all_goals exact ih.2.2 _
    · intro n; unfold Engine.checkIfUnnecessary; mpres; all_goals exact ih.1 _
    · intro n; unfold Engine.removeChildren; mpres; all_goals exact ih.2.1 _
theorem PresF.becameUnnecessary (fuel n) : Pres R (becameUnnecessary fuel n) :=
  (PresF.unnecessary fuel).1 n
memo_leaf PresF.becameUnnecessary
theorem PresF.checkIfUnnecessary (fuel n) : Pres R (checkIfUnnecessary fuel n) :=
  (PresF.unnecessary fuel).2.1 n
memo_leaf PresF.checkIfUnnecessary
theorem PresF.removeChildren (fuel n) : Pres R (removeChildren fuel n) :=
  (PresF.unnecessary fuel).2.2 n
memo_leaf PresF.removeChildren

/-! ### expert API without invalidation -/
theorem PresF.assertRunningIsChild (n name) : Pres R (assertRunningIsChild n name) := by
  unfold Engine.assertRunningIsChild; mpres
memo_leaf PresF.assertRunningIsChild
theorem PresF.expertMakeStale (n) : Pres R (expertMakeStale n) := by
  unfold Engine.expertMakeStale; mpres
memo_leaf PresF.expertMakeStale
theorem PresF.swapEdgeIndices (n c1 i1 c2 i2) : Pres R (swapEdgeIndices n c1 i1 c2 i2) := by
  unfold Engine.swapEdgeIndices; mpres
memo_leaf PresF.swapEdgeIndices
theorem PresF.expertRemoveDependency (fuel n dep) : Pres R (expertRemoveDependency fuel n dep) := by
  unfold Engine.expertRemoveDependency; mpres
memo_leaf PresF.expertRemoveDependency

/-! ### node creation, var writes -/
theorem PresF.createNode (k sc c) : Pres R (createNode k sc c) := by
  refine ⟨fun s r s' hrun => FLocal.of_frame _ _ ?_⟩
  unfold Engine.createNode at hrun
  cases sc with
  | top =>
    simp only [Engine.bumpCounter, run_bind, run_get, run_modify, run_pure] at hrun
    cases hrun
    exact PreOrd.trans
      (F0V.of_eq (s' := { s with counters := { s.counters with created := s.counters.created + 1 } })
        rfl rfl rfl rfl rfl rfl rfl)
      (F0V.pushTop { s with counters := { s.counters with created := s.counters.created + 1 } } _ rfl)
  | bind b =>
    simp only [Engine.bumpCounter, Engine.modBind, run_bind, run_get, run_modify, run_pure] at hrun
    cases hrun
    exact PreOrd.trans
      (F0V.of_eq (s' := { s with counters := { s.counters with created := s.counters.created + 1 } })
        rfl rfl rfl rfl rfl rfl rfl)
      (F0V.pushScoped { s with counters := { s.counters with created := s.counters.created + 1 } } _ b rfl rfl)
memo_leaf PresF.createNode
theorem PresF.createVar (v sc) : Pres R (createVar v sc) := by unfold Engine.createVar; mpres
memo_leaf PresF.createVar
theorem PresF.createBind (b l) : Pres R (createBind b l) := by
  unfold Engine.createBind
  refine Pres.bind Pres.get fun _ => Pres.bind
    (Pres.modify fun s0 => FLocal.of_frame _ _ (F0V.pushBind s0 _ rfl)) fun _ => ?_
  mpres
memo_leaf PresF.createBind
set_option maxHeartbeats 1000000 in
theorem PresF.elabInstr (loc v i) : Pres R (elabInstr loc v i) := by
  cases i with
  | mapOp op => cases op <;> (simp only [Engine.elabInstr]; mpres)
  | _ => simp only [Engine.elabInstr]; mpres
memo_leaf PresF.elabInstr
theorem PresF.elabTemplateBase (t v init) : Pres R (elabTemplateBase t v init) := by
  unfold Engine.elabTemplateBase; mpres
memo_leaf PresF.elabTemplateBase
theorem PresF.didSetVarWhileNotStabilising (v) : Pres R (didSetVarWhileNotStabilising v) := by
  unfold Engine.didSetVarWhileNotStabilising; mpres
memo_leaf PresF.didSetVarWhileNotStabilising
theorem PresF.writeVar (v f b) : Pres R (writeVar v f b) := by unfold Engine.writeVar; mpres
memo_leaf PresF.writeVar
theorem PresF.dropVarHandle (v) : Pres R (dropVarHandle v) := by
  unfold Engine.dropVarHandle; mpres
memo_leaf PresF.dropVarHandle
theorem PresF.setMaxHeightAllowed (k) : Pres R (setMaxHeightAllowed k) := by
  unfold Engine.setMaxHeightAllowed; mpres
memo_leaf PresF.setMaxHeightAllowed

/-! ### observers, effects without the expert invalidation, operator closures -/
theorem PresF.disallowFutureUse (o) : Pres R (disallowFutureUse o) := by
  unfold Engine.disallowFutureUse; mpres
memo_leaf PresF.disallowFutureUse
theorem PresF.subscribe (o h) : Pres R (subscribe o h) := by unfold Engine.subscribe; mpres
memo_leaf PresF.subscribe
theorem PresF.unsubscribe (o t w) : Pres R (unsubscribe o t w) := by unfold Engine.unsubscribe; mpres
memo_leaf PresF.unsubscribe
theorem PresF.runEffectBasic (env e) : Pres R (runEffectBasic env e) := by
  unfold Engine.runEffectBasic; mpres
memo_leaf PresF.runEffectBasic
theorem PresF.expertValue (env e d sl) : Pres R (expertValue env e d sl) := by
  unfold Engine.expertValue; mpres
memo_leaf PresF.expertValue
theorem PresF.withOldEvents (env g n σ old x new did) :
    Pres R (withOldEvents env g n σ old x new did) := by
  unfold Engine.withOldEvents; mpres
memo_leaf PresF.withOldEvents
theorem PresF.childChanged (env fuel p c ci o) : Pres R (childChanged env fuel p c ci o) := by
  induction fuel generalizing p c ci o with
  | zero => unfold Engine.childChanged; mpres
  | succ fuel ih => unfold Engine.childChanged; mpres; all_goals exact ih _ _ _ _
memo_leaf PresF.childChanged
theorem PresF.parentIterCanRecomputeNow (p c) : Pres R (parentIterCanRecomputeNow p c) := by
  unfold Engine.parentIterCanRecomputeNow; mpres
memo_leaf PresF.parentIterCanRecomputeNow
theorem PresF.maybeChangeValueManual (env fuel n o d b) :
    Pres R (maybeChangeValueManual env fuel n o d b) := by
  unfold Engine.maybeChangeValueManual; mpres
memo_leaf PresF.maybeChangeValueManual
theorem PresF.maybeChangeValue (env fuel n v) : Pres R (maybeChangeValue env fuel n v) := by
  unfold Engine.maybeChangeValue; mpres
memo_leaf PresF.maybeChangeValue
theorem PresF.unlinkDisallowedObservers (fuel) : Pres R (unlinkDisallowedObservers fuel) := by
  unfold Engine.unlinkDisallowedObservers; mpres
memo_leaf PresF.unlinkDisallowedObservers

end

end IncrVerif.Proofs.MemoH
