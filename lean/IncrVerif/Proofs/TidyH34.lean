import IncrVerif.Proofs.TidyH31
/-!
# T4: `adjustHeights` returns (total correctness) for `QR.GInv`, part 1 (port of NestH82 onto ExpertH36-38's `AInv`)

The primitives return; the extra loop invariant `TI N s0 s dn Z` (height bound by DEPTH `dp s0 m + 1`; every node is popped at most once).
-/
namespace IncrVerif.Proofs.TidyH.XT
open IncrVerif.Engine IncrVerif.Driver IncrVerif.Proofs IncrVerif.Proofs.Step IncrVerif.Proofs.Sched
open IncrVerif.Proofs.ExpertH IncrVerif.Proofs.ExpertH.QR IncrVerif.Proofs.ExpertH.QR.BA

namespace X4e

theorem idxOf?_of_mem {α} [BEq α] [LawfulBEq α] {l : List α} {x : α} (h : x ∈ l) : ∃ k, l.idxOf? x = some k := by
  cases hk : l.idxOf? x with
  | some k => exact ⟨k, rfl⟩
  | none =>
    rw [List.idxOf?_eq_none_iff] at hk
    exact absurd h hk

/-! ## primitives that return -/

theorem ahhRemoveMin_tot (s : State) : ∃ r s', ahhRemoveMin.run.run s = (.ok r, s') := by
  unfold ahhRemoveMin
  rw [run_bind_get]
  dsimp only
  by_cases hl : s.ahh.length = 0
  · simp only [hl, beq_self_eq_true, if_true]
    exact ⟨_, _, rfl⟩
  · have hl' : (s.ahh.length == 0) = false := by simpa using hl
    simp only [hl', Bool.false_eq_true, if_false]
    change ∃ r s', (match s.ahh.queues[ahhFirst s]? with
      | none => pure none
      | some [] => pure none
      | some (n :: rest) => _ : M (Option Nat)).run.run s = (.ok r, s')
    cases hq : s.ahh.queues[ahhFirst s]? with
    | none => exact ⟨_, _, rfl⟩
    | some l =>
      cases l with
      | nil => exact ⟨_, _, rfl⟩
      | cons n rest =>
        dsimp only
        rw [run_bind_modify, run_bind_modNode, run_pure]
        exact ⟨_, _, rfl⟩

/-- `rchIncreaseHeight` of a queued node whose height is above its bucket, and within the limit, returns -/
theorem rchIncreaseHeight_tot {n : Nat} {s : State} (W : HeapWF s) (hn : n < s.nodes.size)
    (hin : (s.nodeD n).inRch = true) (hlt : (s.nodeD n).heightInRch < (s.nodeD n).height)
    (hmax : (s.nodeD n).height ≤ s.rch.maxAllowed) :
    ∃ s', (rchIncreaseHeight n).run.run s = (.ok (), s') := by
  have hnd := some_of_lt hn
  have h0 : 0 ≤ (s.nodeD n).heightInRch := by simpa [Node.inRch] using hin
  have hlt' : (s.nodeD n).heightInRch.toNat < s.rch.queues.size := by
    rcases W.range n hn with h | ⟨_, h⟩
    · omega
    · omega
  have hmem : n ∈ s.rch.queues[(s.nodeD n).heightInRch.toNat] :=
    (W.mem _ hlt' n).2 ⟨hn, by omega⟩
  obtain ⟨idx, hidx⟩ := idxOf?_of_mem hmem
  have hq : s.rch.queues[(s.nodeD n).heightInRch.toNat]? = some s.rch.queues[(s.nodeD n).heightInRch.toNat] :=
    Array.getElem?_eq_getElem hlt'
  have hul : ∃ s1, (rchUnlink n).run.run s = (.ok (), s1) := by
    unfold rchUnlink
    rw [run_bind_ok (run_getNode_some hnd), run_bind_get]
    dsimp only
    rw [hq]
    dsimp only
    rw [if_neg (by omega)]
    rw [hidx]
    exact ⟨_, rfl⟩
  obtain ⟨s1, h1⟩ := hul
  obtain ⟨Q, hQ, e1⟩ := rchUnlink_ok_inv h1
  have hnd1 : s1.nodes[n]? = some (s.nodeD n) := by rw [e1]; exact hnd
  have hmax1 : s1.rch.maxAllowed = s.rch.maxAllowed := by rw [e1]; simp only [Heap.maxAllowed, hQ]
  unfold rchIncreaseHeight
  rw [run_bind_ok (run_getNode_some hnd), run_bind_get,
    run_bind_ok (run_dassert_true s (by intro _; simpa using hlt)),
    run_bind_ok (run_dassert_true s (fun _ => hin)),
    run_bind_ok (run_dassert_true s (by intro _; simpa using hmax)),
    run_bind_ok h1, rchLink_run, hnd1]
  dsimp only
  rw [if_neg (by omega), if_neg (by rw [hmax1]; omega)]
  exact ⟨_, rfl⟩

/-- `ensureHeightRequirement c p` returns: both nodes necessary, `p` is not the original child, `p` can join the adjust-heights heap, `c.height + 1` is within the limit -/
theorem ehr_tot {oc op c p : Nat} {s : State} (hc : c < s.nodes.size) (hp : p < s.nodes.size)
    (hnc : s.isNecessary c = true) (hnp : s.isNecessary p = true) (hpo : p ≠ oc)
    (hlb : s.ahh.lowerBound ≤ (s.nodeD p).height) (h0 : 0 ≤ (s.nodeD p).height)
    (hmax : (s.nodeD c).height + 1 ≤ s.ahh.maxAllowed) :
    ∃ s', (ensureHeightRequirement oc op c p).run.run s = (.ok (), s') := by
  rw [ensureHeightRequirement_run oc op c p s _ _ (some_of_lt hc) (some_of_lt hp)]
  rw [if_neg (by rintro ⟨-, h⟩; rw [hnc] at h; cases h), if_neg (by rintro ⟨-, h⟩; rw [hnp] at h; cases h),
    if_neg (by simpa using hpo)]
  by_cases hge : (s.nodeD c).height ≥ (s.nodeD p).height
  · rw [if_pos hge, ahhAddUnlessMem_run p s _ (some_of_lt hp)]
    by_cases hm : ((s.nodeD p).heightInAhh == -1) = false
    · rw [if_pos hm]
      dsimp only
      rw [setHeight_run, if_neg (by rintro ⟨-, h⟩; omega)]
      exact ⟨_, rfl⟩
    · have hsz : (s.nodeD p).height.toNat < s.ahh.queues.size := by
        simp only [Heap.maxAllowed] at hmax
        omega
      rw [if_neg hm, if_neg (by rintro ⟨-, h⟩; simp at h; omega),
        if_neg (by rintro ⟨-, h⟩; simp at h; omega),
        if_neg (by simp; omega)]
      dsimp only
      have e : (ahhAdded p (s.nodeD p).height s).ahh.maxAllowed = s.ahh.maxAllowed := by
        simp [ahhAdded, Heap.maxAllowed]
      rw [setHeight_run, if_neg (by rintro ⟨-, h⟩; rw [e] at h; omega)]
      exact ⟨_, rfl⟩
  · rw [if_neg hge]
    exact ⟨_, rfl⟩

/-! ## the extra invariant -/

/-- what totality needs besides `AInvR`; `dn`: the nodes popped so far; `Z`: the nodes whose height is not yet known to be bounded -/
structure TI (N : Nat) (s0 s : State) (dn : List Nat) (Z : Nat → Prop) : Prop where
  room : Room N s
  bound : ∀ m, s0.isNecessary m = true → ¬ Z m → (s.nodeD m).height ≤ (dp s0 m : Int) + 1
  memNec : ∀ m, ahhMk s m ≠ -1 → s0.isNecessary m = true
  strict : ∀ m, ahhMk s m ≠ -1 → (s.nodeD m).inRch = true → (s.nodeD m).heightInRch < (s.nodeD m).height
  mk0 : ∀ m, ahhMk s m ≠ -1 → ahhMk s m = (s0.nodeD m).height
  fresh : ∀ m, m ∉ dn → ahhMk s m = -1 → (s.nodeD m).height = (s0.nodeD m).height
  dnLow : ∀ m, m ∈ dn → ahhMk s m = -1 ∧ (s0.nodeD m).height ≤ s.ahh.lowerBound

def noZ : Nat → Prop := fun _ => False

variable {rk : Nat → Nat} {N : Nat}

theorem TI.mono {s0 s : State} {dn : List Nat} {Z Z' : Nat → Prop} (T : TI N s0 s dn Z) (h : ∀ m, Z m → Z' m) :
    TI N s0 s dn Z' :=
  ⟨T.room, fun m hn hz => T.bound m hn (fun hz' => hz (h m hz')), T.memNec, T.strict, T.mk0, T.fresh, T.dnLow⟩

/-- one raising `ensureHeightRequirement c p`: `p` is (or becomes) a member bucketed under `a` and gets height `v` -/
theorem TI.step {s0 s s' : State} {dn : List Nat} {Z : Nat → Prop} (T : TI N s0 s dn Z) {p : Nat} {v a : Int}
    (key : ∀ m, s'.nodeD m = if m = p then { s.nodeD p with height := v, heightInAhh := a } else s.nodeD m)
    (hlbd : s'.ahh.lowerBound = s.ahh.lowerBound) (hroom : Room N s')
    (ha : ahhMk s p ≠ -1 ∧ a = ahhMk s p ∨ ahhMk s p = -1 ∧ a = (s.nodeD p).height ∧ a ≠ -1)
    (hv : (s.nodeD p).height < v) (hvb : v ≤ (dp s0 p : Int) + 1)
    (hle : (s.nodeD p).inRch = true → (s.nodeD p).heightInRch ≤ (s.nodeD p).height)
    (hpd : p ∉ dn) (hnp : s0.isNecessary p = true) :
    TI N s0 s' dn (fun m => Z m ∧ m ≠ p) := by
  have hh : ∀ m, (s'.nodeD m).height = if m = p then v else (s.nodeD m).height := by
    intro m; rw [key]; split <;> rfl
  have hr : ∀ m, (s'.nodeD m).heightInRch = (s.nodeD m).heightInRch := by
    intro m; rw [key]; split
    · rename_i e; rw [e]
    · rfl
  have hin : ∀ m, (s'.nodeD m).inRch = (s.nodeD m).inRch := by
    intro m; simp only [Node.inRch, hr]
  have hmk : ∀ m, ahhMk s' m = if m = p then a else ahhMk s m := by
    intro m; simp only [ahhMk]; rw [key]; split <;> rfl
  have hane : a ≠ -1 := by
    rcases ha with ⟨h1, h2⟩ | ⟨_, _, h3⟩
    · rw [h2]; exact h1
    · exact h3
  refine ⟨hroom, ?_, ?_, ?_, ?_, ?_, ?_⟩
  · intro m hn hz
    rw [hh]
    by_cases e : m = p
    · rw [if_pos e, e]; exact hvb
    · rw [if_neg e]; exact T.bound m hn (fun h => hz ⟨h, e⟩)
  · intro m hm
    rw [hmk] at hm
    by_cases e : m = p
    · rw [e]; exact hnp
    · rw [if_neg e] at hm; exact T.memNec m hm
  · intro m hm hq
    rw [hmk] at hm
    rw [hin] at hq
    rw [hr, hh]
    by_cases e : m = p
    · rw [if_pos e]
      rw [e] at hq
      have := hle hq
      rw [e]; omega
    · rw [if_neg e] at hm ⊢; exact T.strict m hm hq
  · intro m hm
    rw [hmk] at hm ⊢
    by_cases e : m = p
    · rw [if_pos e, e]
      rcases ha with ⟨h1, h2⟩ | ⟨h1, h2, _⟩
      · rw [h2]; exact T.mk0 p h1
      · rw [h2]; exact T.fresh p hpd h1
    · rw [if_neg e] at hm ⊢; exact T.mk0 m hm
  · intro m hd hm
    rw [hmk] at hm
    by_cases e : m = p
    · rw [if_pos e] at hm; exact absurd hm hane
    · rw [if_neg e] at hm
      rw [hh, if_neg e]; exact T.fresh m hd hm
  · intro m hd
    have e : m ≠ p := fun e => hpd (e ▸ hd)
    rw [hmk, if_neg e, hlbd]
    exact T.dnLow m hd

theorem room_congr {s s' : State} (R : Room N s) (ha : s'.ahh.queues.size = s.ahh.queues.size)
    (hr : s'.rch.queues.size = s.rch.queues.size) (hn : s'.nodes.size = s.nodes.size) : Room N s' := by
  refine ⟨?_, ?_, by rw [hn]; exact R.size⟩
  · rw [← R.ahh]; simp only [Heap.maxAllowed, ha]
  · rw [← R.rch]; simp only [Heap.maxAllowed, hr]

/-- `ensureHeightRequirement c p` that returned keeps `TI` -/
theorem TI.ehr {B : Nat} {s0 s s' : State} {dn : List Nat} {Z : Nat → Prop} {X : Nat → Nat → Nat → Prop}
    {Y : Nat → Prop} {oc op c p : Nat} {u : Unit}
    (h : (ensureHeightRequirement oc op c p).run.run s = (.ok u, s')) (A : AInv rk B s0 s X Y)
    (T : TI N s0 s dn Z) (hcb : (s.nodeD c).height ≤ (dp s0 c : Int) + 1)
    (hdp : dp s0 c < dp s0 p) (hpd : p ∉ dn) (hnp : s0.isNecessary p = true)
    (hz : Z p → (s.nodeD p).height ≤ (s.nodeD c).height) :
    TI N s0 s' dn (fun m => Z m ∧ m ≠ p) ∧ (s.nodeD c).height < (s'.nodeD p).height := by
  obtain ⟨hc, hp, hcase⟩ := ehr_ok_inv h
  have hc0 : c < s0.nodes.size := by rw [← A.rel.size]; exact hc
  rcases hcase with ⟨hlt, e⟩ | ⟨hge, s1, hs1, e⟩
  · rw [e]
    refine ⟨⟨T.room, ?_, T.memNec, T.strict, T.mk0, T.fresh, T.dnLow⟩, hlt⟩
    intro m hn hzm
    by_cases em : m = p
    · rw [em] at hn ⊢
      refine T.bound p hn (fun hz' => ?_)
      have := hz hz'
      omega
    · exact T.bound m hn (fun hz' => hzm ⟨hz', em⟩)
  · rcases hs1 with ⟨hmem, e1⟩ | ⟨hnm, h0, hx, e1⟩
    · rw [e1] at e
      have key : ∀ m, s'.nodeD m = if m = p then { s.nodeD p with height := (s.nodeD c).height + 1 } else s.nodeD m := by
        rw [e]
        exact nodeD_upd (s := s) (f := fun x => { x with height := (s.nodeD c).height + 1 }) rfl hp
      refine ⟨T.step (a := ahhMk s p) (v := (s.nodeD c).height + 1) key (by rw [e]; rfl)
        (room_congr T.room (by rw [e]; rfl) (by rw [e]; rfl) (by rw [e]; simp [heightSet]))
        (Or.inl ⟨hmem, rfl⟩) (by omega) (by omega) (A.hle p) hpd hnp, ?_⟩
      rw [key, if_pos rfl]
      show (s.nodeD c).height < (s.nodeD c).height + 1
      omega
    · have key : ∀ m, s'.nodeD m =
          if m = p then { s.nodeD p with height := (s.nodeD c).height + 1, heightInAhh := (s.nodeD p).height } else s.nodeD m := by
        intro m
        have hp1 : p < s1.nodes.size := by rw [e1]; simpa [ahhAdded] using hp
        have k1 := nodeD_upd (s := s1) (s' := s') (f := fun x => { x with height := (s.nodeD c).height + 1 })
          (by rw [e]; rfl) hp1 m
        rw [k1]
        by_cases em : m = p
        · rw [if_pos em, if_pos em, e1, ahhAdded_nodeD hp, if_pos rfl]
        · rw [if_neg em, if_neg em, e1, ahhAdded_nodeD hp, if_neg em]
      refine ⟨T.step (a := (s.nodeD p).height) (v := (s.nodeD c).height + 1) key (by rw [e, e1]; rfl)
        (room_congr T.room (by rw [e, e1]; simp [heightSet, ahhAdded]) (by rw [e, e1]; rfl)
          (by rw [e, e1]; simp [heightSet, ahhAdded]))
        (Or.inr ⟨hnm, rfl, by omega⟩) (by omega) (by omega) (A.hle p) hpd hnp, ?_⟩
      rw [key, if_pos rfl]
      show (s.nodeD c).height < (s.nodeD c).height + 1
      omega

/-- the least member is popped -/
theorem TI.pop {B : Nat} {s0 s : State} {dn : List Nat} (A : AInv rk B s0 s noX noY)
    (T : TI N s0 s dn noZ) {n : Nat} {rest : List Nat}
    (hq : s.ahh.queues[ahhFirst s]? = some (n :: rest)) :
    TI N s0 (ahhPopped (ahhFirst s) n rest s) (n :: dn) noZ ∧ n ∉ dn ∧ n < s.nodes.size ∧
      s0.isNecessary n = true ∧
      (ahhPopped (ahhFirst s) n rest s).ahh.lowerBound = (s0.nodeD n).height ∧
      ((s.nodeD n).inRch = true → (s.nodeD n).heightInRch < (s.nodeD n).height) := by
  obtain ⟨A1, -, -, key⟩ := A.pop hq
  obtain ⟨-, hmn⟩ := A.wf.popped hq
  have hmem : ahhMk s n ≠ -1 := by rw [hmn]; omega
  have hn : n < s.nodes.size := by
    apply Decidable.byContradiction
    intro h
    apply hmem
    simp only [ahhMk]
    rw [nodeD_default s n (by omega)]; rfl
  have hh : ∀ m, ((ahhPopped (ahhFirst s) n rest s).nodeD m).height = (s.nodeD m).height := by
    intro m; rw [key]; split
    · rename_i e; rw [e]
    · rfl
  have hr : ∀ m, ((ahhPopped (ahhFirst s) n rest s).nodeD m).heightInRch = (s.nodeD m).heightInRch := by
    intro m; rw [key]; split
    · rename_i e; rw [e]
    · rfl
  have hin : ∀ m, ((ahhPopped (ahhFirst s) n rest s).nodeD m).inRch = (s.nodeD m).inRch := by
    intro m; simp only [Node.inRch, hr]
  have hmk : ∀ m, ahhMk (ahhPopped (ahhFirst s) n rest s) m = if m = n then -1 else ahhMk s m := by
    intro m; simp only [ahhMk]; rw [key]; split <;> rfl
  have hnd : n ∉ dn := fun h => hmem (T.dnLow n h).1
  have hlb' : (ahhPopped (ahhFirst s) n rest s).ahh.lowerBound = (ahhFirst s : Int) := rfl
  refine ⟨⟨room_congr T.room (by simp [ahhPopped]) rfl (by simp [ahhPopped]), ?_, ?_, ?_, ?_, ?_, ?_⟩, hnd, hn,
    T.memNec n hmem, by rw [hlb', ← hmn]; exact T.mk0 n hmem, T.strict n hmem⟩
  · intro m hnm hz
    rw [hh]; exact T.bound m hnm hz
  · intro m hm
    rw [hmk] at hm
    by_cases e : m = n
    · rw [if_pos e] at hm; exact absurd rfl hm
    · rw [if_neg e] at hm; exact T.memNec m hm
  · intro m hm hqm
    rw [hmk] at hm
    rw [hin] at hqm
    rw [hr, hh]
    by_cases e : m = n
    · rw [if_pos e] at hm; exact absurd rfl hm
    · rw [if_neg e] at hm; exact T.strict m hm hqm
  · intro m hm
    rw [hmk] at hm ⊢
    by_cases e : m = n
    · rw [if_pos e] at hm; exact absurd rfl hm
    · rw [if_neg e] at hm ⊢; exact T.mk0 m hm
  · intro m hd hm
    rw [hmk] at hm
    have e : m ≠ n := fun e => hd (e ▸ List.mem_cons_self ..)
    rw [if_neg e] at hm
    rw [hh]
    exact T.fresh m (fun h => hd (List.mem_cons_of_mem _ h)) hm
  · intro m hd
    rw [hmk, hlb']
    by_cases e : m = n
    · rw [if_pos e, e]
      refine ⟨rfl, ?_⟩
      rw [← T.mk0 n hmem, hmn]; exact Int.le_refl _
    · rw [if_neg e]
      rcases List.mem_cons.1 hd with h | h
      · exact absurd h e
      · obtain ⟨h1, h2⟩ := T.dnLow m h
        refine ⟨h1, ?_⟩
        have := A.wf.lb n hmem
        rw [hmn] at this
        omega

/-- the popped node is re-bucketed in the recompute heap -/
theorem TI.rebucket {s0 s : State} {dn : List Nat} {Z : Nat → Prop} (T : TI N s0 s dn Z)
    {n : Nat} {Q : Array (List Nat)} (hn : n < s.nodes.size) (hm : ahhMk s n = -1)
    (hQ : Q.size = s.rch.queues.size) :
    TI N s0 (rebucketed n (s.nodeD n).height Q s) dn Z := by
  have key : ∀ m, (rebucketed n (s.nodeD n).height Q s).nodeD m =
      if m = n then { s.nodeD n with heightInRch := (s.nodeD n).height } else s.nodeD m :=
    nodeD_upd (s := s) (f := fun x => { x with heightInRch := (s.nodeD n).height }) rfl hn
  have hh : ∀ m, ((rebucketed n (s.nodeD n).height Q s).nodeD m).height = (s.nodeD m).height := by
    intro m; rw [key]; split
    · rename_i e; rw [e]
    · rfl
  have hmk : ∀ m, ahhMk (rebucketed n (s.nodeD n).height Q s) m = ahhMk s m := by
    intro m; simp only [ahhMk]; rw [key]; split
    · rename_i e; rw [e]
    · rfl
  refine ⟨room_congr T.room rfl hQ (by simp [rebucketed]), ?_, ?_, ?_, ?_, ?_, ?_⟩
  · intro m hnm hz
    rw [hh]; exact T.bound m hnm hz
  · intro m hmm
    rw [hmk] at hmm; exact T.memNec m hmm
  · intro m hmm hqm
    rw [hmk] at hmm
    have e : m ≠ n := fun e => hmm (e ▸ hm)
    rw [key, if_neg e] at hqm ⊢
    exact T.strict m hmm hqm
  · intro m hmm
    rw [hmk] at hmm ⊢; exact T.mk0 m hmm
  · intro m hd hmm
    rw [hmk] at hmm
    rw [hh]; exact T.fresh m hd hmm
  · intro m hd
    rw [hmk]; exact T.dnLow m hd

end X4e
end IncrVerif.Proofs.TidyH.XT
