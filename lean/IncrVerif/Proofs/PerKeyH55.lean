import IncrVerif.Proofs.PerKeyH54
/-!
# A run of a per-key change detector, part 7e: `NoRem`, `PStep`, and the assembly `lcFinalSpec`
-/
namespace IncrVerif.Proofs.PerKeyH
open IncrVerif.Engine IncrVerif.Driver IncrVerif.Proofs IncrVerif.Proofs.Step IncrVerif.Proofs.Sched
open IncrVerif.Proofs.ExpertH IncrVerif.Proofs.EffH IncrVerif.Proofs.DriverH IncrVerif.Proofs.ExpertH.QR
open IncrVerif.Proofs.Xp

/-- the rewiring-with-creation step keeps the stamps of this round (port of `DriverH.frameB_of_stepW`) -/
theorem frameB_of_stepP {env : Env} {X : Nat → Prop} {n : Nat} {S S' : State} (I : BindH.DInv env S (some n))
    (W : StepP env X n S S') : BindH.FrameB S S' where
  stabNum := W.stabNum
  vars := W.vars
  grow := W.grow
  ran x hx := by
    by_cases hlt : x < S.nodes.size
    · obtain ⟨k0, -, -, -, k⟩ := W.old x hlt
      by_cases hX : X x
      · exfalso
        have := I.fresh x n (BindH.Below.of_edge (BindH.Edge.child (W.rewired x hX).1)) (Or.inr rfl)
        omega
      · exact ⟨by rw [(k hX).2.1]; exact hx, k0⟩
    · exfalso
      rw [nodeD_default_of_ge S x (by omega)] at hx
      have h1 := I.stamps.now
      have h2 : (default : Node).recomputedAt = -1 := rfl
      omega

section
variable {env : Env} {s s2 s' : State} {n op eres fuel : Nat} {pr : PerKeyRec} {m : List (Int × Int)} {r : Option Nat}

/-- **part D, `NoRem`** -/
theorem lc_norem (B : LcBase env s n op pr eres) (E : LE env s n op pr eres m s2) {ch : Bool} {r0 : Int}
    (R : BindH.StepRelB n .unit ch r (unstamp n r0 (V s2)) (V s')) (sf : SF s2 s') : NoRem s' := by
  have A := B.pd.aux
  obtain ⟨pn, hpn⟩ := E.pop
  obtain ⟨x0, er0, hN, -, -, -, -, -, -, hnlt, hnk⟩ := B.facts
  have hvars : s'.vars = s.vars := (show s'.vars = s2.vars from R.vars).trans (lf_key E.lf).1
  have hkind : ∀ x, x < s.nodes.size → (s'.nodeD x).kind = (s.nodeD x).kind := fun x hx => (lc_old_final E R sf hx).1
  have hval : ∀ x, x < s.nodes.size → x ≠ n → (s'.nodeD x).value = (s.nodeD x).value :=
    fun x hx hxn => ((lc_old_final E R sf hx).2.2.2 hxn).1
  intro op' pr' h
  rw [sf.perkeys] at h
  by_cases hop : op' = op
  · subst hop
    rw [hpn] at h; cases h
    obtain ⟨c1, c2, c3, c4⟩ := B.conv_ne hN
    obtain ⟨x, c, vc, mv, h1, h2, h3, h4, h5, h6, h7, h8⟩ := (B.norem op' pr B.hop).input
    have hx : x = x0 := by
      have := hN.conv
      rw [h1] at this
      injection this with e1 e2
      injection e2 with e2
    subst hx
    obtain ⟨m1, e1, g1, g2, g3, g4⟩ := h8 _ E.conv
    injection e1 with e1
    subst e1
    refine ⟨x, c, vc, mv, by rw [hkind _ c2]; exact h1, by rw [hkind _ c4]; exact h2, by rw [hvars]; exact h3, h4, h5,
      g2, fun w hw => ?_, fun w hw => ?_⟩
    · rw [hval x c4 c3] at hw
      obtain ⟨m2, rfl, k1, k2, -⟩ := h7 w hw
      exact ⟨m2, rfl, k1, k2, g4 m2 hw⟩
    · have hw' : (s'.nodeD (pr.result - 1)).value = some w := hw
      rw [hval _ c2 c1, E.conv] at hw'
      cases hw'
      refine ⟨m, rfl, g1, g2, keysSub_refl m, fun m2 hm2 => ?_⟩
      rw [hval x c4 c3] at hm2
      exact g4 m2 hm2
  · rw [E.pother op' hop] at h
    obtain ⟨x, e, er, hN', -⟩ := (A.pk.ops op' pr' h).nodes
    exact (B.norem op' pr' h).bf_run hN' rfl rfl hvars hkind ⟨_, _, hnk, Nat.le_add_right _ _⟩ hval

/-- **part D, `PStep`** -/
theorem lc_pstep (B : LcBase env s n op pr eres) (E : LE env s n op pr eres m s2) {ch : Bool}
    (R : BindH.StepRelB n .unit ch r (unstamp n (s.nodeD n).recomputedAt (V s2)) (V s')) (fr' : Fr s')
    (sf : SF s2 s') : PStep s s' := by
  have shv := lc_shv R
  refine ⟨(frameB_of_stepP B.pd.inv (lc_stepP B E).1).trans R.frame, ?_, ?_, fun x hx => ?_, fun x hx => ?_⟩
  · rw [sf.size]; exact lf_grow E.lf
  · exact (eKey_of_sf sf R.vars R.stabNum R.qsize (fr'.pc.trans E.frag.pc.symm) E.handlers).trans
      (E.lf.key.trans (eKey_started n s))
  · rw [dnKey_of_sf sf shv x]
    obtain ⟨k1, k2, k3, -, k5, -, k7, k8, k9, -⟩ := lf_old E.lf hx
    simp only [dnKey, k1, k2, k3, k5, k7, k8, k9]
  · rw [(shape_actualV shv x).2.2.2.2.2.1]
    by_cases hx2 : x < s2.nodes.size
    · exact (lf_new E.lf hx hx2).observers
    · rw [nodeD_default_of_ge s2 x (Nat.le_of_not_lt hx2)]; rfl

/-- **the final statement**: the run of `maybeChangeValue` that ends a run of a per-key change detector -/
theorem lc_final (B : LcBase env s n op pr eres) (E : LE env s n op pr eres m s2)
    (h : (maybeChangeValue env fuel n .unit).run.run s2 = (.ok r, s')) :
    PD env s' r ∧ NoRem s' ∧ PStep s s' ∧ ((V s').nodeD n).recomputedAt = s.stabNum := by
  obtain ⟨ch, R, ht, fr', sf, l', htw⟩ := lc_static B E h
  have I'' := BindH.stepB_inv (lc_inv' B E) ht R
  have A' := lc_aux B E R fr' sf (lc_slots B E htw) (lc_pkok B E R sf)
  exact ⟨⟨I'', A'⟩, lc_norem B E R sf, lc_pstep B E R fr' sf, R.recomputedAt.trans (lf_key E.lf).2.2.1⟩

end

/-- the statement of `LcFinalSpec env` of `LC8.lean` (defined there; stated here unfolded to avoid a name clash) -/
theorem lcFinalSpec (env : Env) :
    ∀ (s s2 s' : State) (n op eres fuel : Nat) (pr : PerKeyRec) (m : List (Int × Int)) (r : Option Nat),
      LcBase env s n op pr eres → LE env s n op pr eres m s2 →
      (maybeChangeValue env fuel n .unit).run.run s2 = (.ok r, s') →
      PD env s' r ∧ NoRem s' ∧ PStep s s' ∧ ((V s').nodeD n).recomputedAt = s.stabNum :=
  fun _ _ _ _ _ _ _ _ _ _ B E h => lc_final B E h

end IncrVerif.Proofs.PerKeyH
