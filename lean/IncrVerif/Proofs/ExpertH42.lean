import IncrVerif.Proofs.ExpertH41
import IncrVerif.Proofs.ExpertH22
/-!
# Expert fragment: the invariant between API actions, and `stabilise` with pending observers (port of MapRef25)
-/
namespace IncrVerif.Proofs.ExpertH
open IncrVerif.Engine IncrVerif.Driver IncrVerif.Proofs IncrVerif.Proofs.Step IncrVerif.Proofs.Sched
open IncrVerif.Proofs.ExpertH.QR

/-- **the invariant between API actions** of the fragment static + expert, for the rank `rk`: the state is in the
fragment, the virtual static state satisfies the invariant `QR.QInv` of the static fragment (with rank `rk`), and
the adjust-heights heap is empty -/
structure QInvX (env : Env) (rk : Nat → Nat) (s : State) : Prop where
  frag : XFrag env s
  q : QR.QInv (virtEnv env) rk (virt s)
  ahh : QR.AhhEmpty s

theorem QInvX.pinv {env : Env} {rk : Nat → Nat} {s : State} (Q : QInvX env rk s) : s.propagateInvalidity = [] :=
  Q.q.pinv

/-- `Finished'` (the description of `stabiliseEnd`) of the actual states gives it for the virtual states -/
theorem finished_virt {t s' : State} (E : Finished' t s') : Finished' (virt t) (virt s') where
  size := by rw [virt_size, virt_size]; exact E.size
  node m := by
    obtain ⟨b, hb⟩ := E.node m
    refine ⟨b, ?_⟩
    rw [virt_nodeD, virt_nodeD, hb, E.experts]
    rfl
  vars := E.vars
  rch := E.rch
  ahh := E.ahh
  observers := E.observers
  newObservers := E.newObservers
  disallowedObservers := E.disallowedObservers
  allObservers := E.allObservers
  scope := E.scope
  pc := E.pc
  top := E.top
  handles := E.handles
  alive := E.alive
  pinv := E.pinv
  cfg := E.cfg
  stabNum := E.stabNum
  status := E.status
  setDuringStab := E.setDuringStab
  deadVars := E.deadVars
  handleAfterStab := E.handleAfterStab
  experts := rfl
  nextDep := E.nextDep

/-- what `stabilise` establishes, in terms of the actual state -/
structure StabilisedX (env : Env) (rk : Nat → Nat) (fuel : Nat) (s s' : State) : Prop where
  inv : QInvX env rk s'
  virt : QR.StabilisedC (virtEnv env) rk (virt s) (virt s')
  /-- every necessary node is not stale and READS its from-scratch value -/
  values : ∀ n, s'.isNecessary n = true → ∀ k, (s'.nodeD n).height.toNat < k →
    s'.isStale n = false ∧ s'.value env n = evalX env s' k n ∧ (evalX env s' k n).isSome = true
  /-- the drain starts in a state with the drain invariant and ends in one, with an empty heap -/
  drain : ∃ t2 t3, DInvX env t2 none ∧ (drainHeap env fuel).run.run t2 = (.ok (), t3) ∧ DInvX env t3 none ∧
    t3.rch.length = 0 ∧ t2.vars = s.vars ∧ ∀ m, s'.isNecessary m = t2.isNecessary m
  /-- the four phases of the run -/
  runs : ∃ t1 t2 t3, (addNewObservers env fuel).run.run { s with status := .stabilising } = (.ok (), t1) ∧
    (unlinkDisallowedObservers fuel).run.run t1 = (.ok (), t2) ∧ DInvX env t2 none ∧
    UnnecOK (virtEnv env) (ExpertH.virt t2) ∧ (drainHeap env fuel).run.run t2 = (.ok (), t3) ∧ (stabiliseEnd env fuel).run.run t3 = (.ok (), s') ∧
    Finished' t3 s'

theorem virt_status_set (s : State) (x : Status) :
    virt { s with status := x } = { virt s with status := x } := rfl

set_option maxHeartbeats 800000 in
/-- **`stabilise` with pending observers**, fragment static + expert. -/
theorem stabiliseX {env : Env} {rk : Nat → Nat} {fuel : Nat} {s s' : State} (Q : QInvX env rk s)
    (h : (stabilise env fuel).run.run s = (.ok (), s')) : StabilisedX env rk fuel s s' := by
  unfold stabilise at h
  rw [run_bind_get] at h
  obtain ⟨_, sa, ha, h⟩ := bind_ok_inv h
  have hsa : sa = s := by
    rw [run_assertM] at ha
    split at ha <;> cases ha
    rfl
  rw [hsa] at h
  obtain ⟨s0, hs0, h⟩ := bind_modify_inv h
  obtain ⟨_, t1, h1, h⟩ := bind_ok_inv h
  obtain ⟨_, t2, h2, h⟩ := bind_ok_inv h
  obtain ⟨_, t3, h3, h4⟩ := bind_ok_inv h
  have Qv := Q.q
  -- the state with the status set
  have hs0v : virt s0 = { virt s with status := .stabilising } := by rw [hs0]; rfl
  have F0 : XFrag env s0 := by
    rw [hs0]; exact ⟨Q.frag.pc, Q.frag.kind, Q.frag.valid, Q.frag.xrec, Q.frag.xok⟩
  have A0 : QR.AhhEmpty s0 := by
    rw [hs0]; exact ⟨Q.ahh.length, Q.ahh.buckets, Q.ahh.marks⟩
  have hp0 : s0.propagateInvalidity = [] := by rw [hs0]; exact Q.pinv
  have S0 : SInv (virtEnv env) rk (virt s0) (virt s0).newObservers (virt s0).disallowedObservers := by
    rw [hs0v]
    exact ⟨Qv.struct.congr (SameG.of_nodes rfl rfl rfl rfl rfl),
      ⟨Qv.obs.inRange, Qv.obs.mem, Qv.obs.created, Qv.obs.newIn, Qv.obs.dis, Qv.obs.disIn, Qv.obs.disNodup⟩,
      Qv.pinv, Qv.handlers⟩
  -- the prefix: simulated by the virtual engine
  obtain ⟨hv1, fr1⟩ := Sim.addNewObservers env fuel s0 (F0.fr hp0) _ t1 h1
  obtain ⟨S1, hn1, hd1, P1, O1, -⟩ := addNewObservers_s S0 hv1
  have F1 : XFrag env t1 := F0.of_xf ((PresX.addNewObservers env fuel).h _ _ _ h1) fr1
  have A1 : QR.AhhEmpty t1 := ahhEmpty_of_ahf A0 ((PresAh.addNewObservers env fuel).h _ _ _ h1)
  obtain ⟨hv2, fr2⟩ := Sim.unlinkDisallowedObservers fuel t1 fr1 _ t2 h2
  obtain ⟨S2, hn2, hd2, P2, O2⟩ := unlinkDisallowedObservers_s S1 hn1 hv2
  have F2 : XFrag env t2 := F1.of_xf ((PresX.unlinkDisallowedObservers fuel).h _ _ _ h2) fr2
  have A2 : QR.AhhEmpty t2 := ahhEmpty_of_ahf A1 ((PresAh.unlinkDisallowedObservers fuel).h _ _ _ h2)
  have P := P1.trans P2
  -- the drain
  obtain ⟨D2, U2⟩ := drain_start Qv hs0v S2 P
  have DR2 : DInvX env t2 none := ⟨F2, D2, fr2.pinv, A2⟩
  obtain ⟨DR3, he3, f3⟩ := drainHeapX_inv fuel t2 t3 DR2 h3
  have U3 := f3.unnec U2
  -- the end
  have c3 := f3.calm
  have E := stabiliseEnd_fin (env := env) (fuel := fuel) (s := t3) (s' := s')
    (by
      have := c3.setDuringStab
      show t3.setDuringStab = []
      have e1 : (virt t3).setDuringStab = t3.setDuringStab := rfl
      rw [← e1, this, P.setDuringStab, hs0v]; exact Qv.setDuringStab)
    (by
      have := c3.deadVars
      have e1 : (virt t3).deadVars = t3.deadVars := rfl
      rw [← e1, this, P.deadVars, hs0v]; exact Qv.deadVars)
    (by
      intro o ob ho
      have hk := f3.keyD
      simp only [KeyD, stateKeyD, Prod.mk.injEq] at hk
      have e1 : (virt t3).observers = t3.observers := rfl
      rw [← e1, hk.1] at ho
      exact (S2.obs.inRange o ob ho).2) h4
  have Ev := finished_virt E
  have SC := stab_core Qv hs0v S2 hn2 hd2 P O1 O2 DR3.inv he3 f3.frame c3 f3.keyD U3 Ev
  -- the actual final state
  have hEn : ∀ m, ∃ b, s'.nodeD m = { t3.nodeD m with inHandleAfterStab := b } := E.node
  have hkind : ∀ m, (s'.nodeD m).kind = (t3.nodeD m).kind := fun m => by obtain ⟨b, hb⟩ := hEn m; rw [hb]
  have hvalid : ∀ m, (s'.nodeD m).valid = (t3.nodeD m).valid := fun m => by obtain ⟨b, hb⟩ := hEn m; rw [hb]
  have hvalue : ∀ m, (s'.nodeD m).value = (t3.nodeD m).value := fun m => by obtain ⟨b, hb⟩ := hEn m; rw [hb]
  have hmark : ∀ m, (s'.nodeD m).heightInAhh = (t3.nodeD m).heightInAhh := fun m => by
    obtain ⟨b, hb⟩ := hEn m; rw [hb]
  have hnec : ∀ m, s'.isNecessary m = t3.isNecessary m := fun m => by
    obtain ⟨b, hb⟩ := hEn m; simp only [State.isNecessary, hb]; rfl
  have hheight : ∀ m, (s'.nodeD m).height = (t3.nodeD m).height := fun m => by obtain ⟨b, hb⟩ := hEn m; rw [hb]
  have F' : XFrag env s' :=
    ⟨by rw [E.pc]; exact DR3.frag.pc, fun m hm => by rw [hkind]; exact DR3.frag.kind m (by rw [← E.size]; exact hm),
      fun m hm => by rw [hvalid]; exact DR3.frag.valid m (by rw [← E.size]; exact hm),
      fun m e hm hk => by
        rw [hkind] at hk; rw [E.experts]; exact DR3.frag.xrec m e (by rw [← E.size]; exact hm) hk,
      fun e er he => by rw [E.experts] at he; exact DR3.frag.xok e er he⟩
  have A' : QR.AhhEmpty s' :=
    ⟨by rw [E.ahh]; exact DR3.ahh.length, by rw [E.ahh]; exact DR3.ahh.buckets,
      fun m => by rw [hmark]; exact DR3.ahh.marks m⟩
  have hval : ∀ m, s'.value env m = t3.value env m := fun m => by
    rw [value_plain env s' m (F'.noMapRef m), value_plain env t3 m (DR3.frag.noMapRef m), hvalue]
  refine ⟨⟨F', SC.inv, A'⟩, SC, ?_, ?_, ⟨t1, t2, t3, by rw [← hs0]; exact h1, h2, DR2, U2, h3, h4, E⟩⟩
  · intro n hn k hk
    have hn3 : t3.isNecessary n = true := by rw [← hnec]; exact hn
    obtain ⟨-, v2, v3, v4⟩ := drainedX_values DR3 he3 n hn3 k (by rw [← hheight]; exact hk)
    have hev : evalX env s' k n = evalX env t3 k n :=
      evalX_congr hkind E.vars (fun _ e _ => by rw [E.experts]; exact ⟨rfl, rfl⟩) k n
    refine ⟨?_, by rw [hval, hev]; exact v3, by rw [hev]; exact v4⟩
    have := (SC.values n (by rw [virt_isNecessary]; exact hn) k
      (by rw [virt_nodeD, virtNode_height]; exact hk)).2.1
    rwa [virt_isStale] at this
  · refine ⟨t2, t3, DR2, h3, DR3, he3, ?_, fun m => ?_⟩
    · have := P.vars; rw [hs0v] at this; exact this
    · rw [hnec]
      have := f3.frame.nec m
      rwa [virt_isNecessary, virt_isNecessary] at this

end IncrVerif.Proofs.ExpertH
