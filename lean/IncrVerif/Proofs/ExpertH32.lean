import IncrVerif.Proofs.Sched13
import IncrVerif.Engine.Run
/-!
# Expert nodes: the frame `XF` (what the engine never changes of an expert record outside the expert API and the
record's own recompute), for every engine function except node creation, `addDep` and `stabilise`
-/
namespace IncrVerif.Proofs.ExpertH
open IncrVerif.Engine IncrVerif.Proofs IncrVerif.Proofs.Step

/-- what the engine never changes of an expert record outside the expert API and the record's own recompute -/
def xCore (er : ExpertRec) := (er.f, er.node, er.children, er.pk, er.forceStale)

structure XF (s s' : State) : Prop where
  size : s'.nodes.size = s.nodes.size
  kind : ∀ m, (s'.nodeD m).kind = (s.nodeD m).kind
  xsize : s'.experts.size = s.experts.size
  xcore : ∀ e : Nat, (s'.experts[e]?).map xCore = (s.experts[e]?).map xCore
  nextDep : s'.nextDep = s.nextDep

theorem XF.refl (s : State) : XF s s := ⟨rfl, fun _ => rfl, rfl, fun _ => rfl, rfl⟩
theorem XF.trans {a b c : State} (h1 : XF a b) (h2 : XF b c) : XF a c :=
  ⟨h2.size.trans h1.size, fun m => (h2.kind m).trans (h1.kind m), h2.xsize.trans h1.xsize,
    fun e => (h2.xcore e).trans (h1.xcore e), h2.nextDep.trans h1.nextDep⟩
instance : Step.PreOrd XF := ⟨XF.refl, XF.trans⟩

theorem XF.of_nodes {s s' : State} (h1 : s'.nodes = s.nodes) (h2 : s'.experts = s.experts)
    (h3 : s'.nextDep = s.nextDep) : XF s s' := by
  refine ⟨by rw [h1], fun m => ?_, by rw [h2], fun e => by rw [h2], h3⟩
  have : s'.nodeD m = s.nodeD m := by simp [State.nodeD, h1]
  rw [this]

theorem XF.modNode (s : State) (n : Nat) (f : Node → Node) (hf : ∀ x, (f x).kind = x.kind) :
    XF s { s with nodes := s.nodes.modify n f } := by
  refine ⟨by simp, fun m => ?_, rfl, fun _ => rfl, rfl⟩
  rw [nodeD_modify]; split
  · exact hf _
  · rfl

theorem XF.modExpert (s : State) (e : Nat) (f : ExpertRec → ExpertRec) (hf : ∀ x, xCore (f x) = xCore x) :
    XF s { s with experts := s.experts.modify e f } := by
  refine ⟨rfl, fun _ => rfl, by simp, fun j => ?_, rfl⟩
  simp only [Array.getElem?_modify]
  split
  · cases s.experts[j]? <;> simp [hf]
  · rfl

theorem PresX.modNode (n : Nat) (f : Node → Node) (hf : ∀ x, (f x).kind = x.kind) :
    Step.Pres XF (Engine.modNode n f) := by
  unfold Engine.modNode; exact Step.Pres.modify fun s => XF.modNode s n f hf

theorem PresX.modExpert (e : Nat) (f : ExpertRec → ExpertRec) (hf : ∀ x, xCore (f x) = xCore x) :
    Step.Pres XF (Engine.modExpert e f) := by
  unfold Engine.modExpert; exact Step.Pres.modify fun s => XF.modExpert s e f hf

macro_rules
  | `(tactic| qleaf) =>
    `(tactic| ((with_reducible apply Step.Pres.modify); intro _; exact XF.of_nodes rfl rfl rfl))
macro_rules
  | `(tactic| qleaf) => `(tactic| ((with_reducible apply PresX.modNode); intro _; rfl))
macro_rules
  | `(tactic| qleaf) => `(tactic| ((with_reducible apply PresX.modExpert); intro _; rfl))

macro "xf_leaf " n:ident : command =>
  `(macro_rules | `(tactic| qleaf) => `(tactic| with_reducible apply $n))

theorem PresX.discard {α} {x : M α} (h : Step.Pres XF x) : Step.Pres XF (discard x) := by
  unfold Functor.discard; exact Step.Pres.map _ h
xf_leaf PresX.discard

theorem PresX.logEv (e) : Step.Pres XF (Engine.logEv e) := by unfold Engine.logEv; qpres
xf_leaf PresX.logEv
theorem PresX.tick : Step.Pres XF Engine.tick := by unfold Engine.tick; qpres
xf_leaf PresX.tick
theorem PresX.bumpCounter (f) : Step.Pres XF (Engine.bumpCounter f) := by unfold Engine.bumpCounter; qpres
xf_leaf PresX.bumpCounter
theorem PresX.modBind (b f) : Step.Pres XF (Engine.modBind b f) := by unfold Engine.modBind; qpres
xf_leaf PresX.modBind
theorem PresX.modObs (o f) : Step.Pres XF (Engine.modObs o f) := by unfold Engine.modObs; qpres
xf_leaf PresX.modObs
theorem PresX.modVar (v f) : Step.Pres XF (Engine.modVar v f) := by unfold Engine.modVar; qpres
xf_leaf PresX.modVar
theorem PresX.getObs (o) : Step.Pres XF (Engine.getObs o) := by unfold Engine.getObs; qpres
xf_leaf PresX.getObs
theorem PresX.getVar (v) : Step.Pres XF (Engine.getVar v) := Step.Pres.getVar v
theorem PresX.addParent (c i p) : Step.Pres XF (Engine.addParent c i p) := by unfold Engine.addParent; qpres
xf_leaf PresX.addParent
theorem PresX.removeParent (c i p) : Step.Pres XF (Engine.removeParent c i p) := by
  unfold Engine.removeParent; qpres
xf_leaf PresX.removeParent
theorem PresX.setHeight (n h) : Step.Pres XF (Engine.setHeight n h) := by unfold Engine.setHeight; qpres
xf_leaf PresX.setHeight
theorem PresX.rchLink (n) : Step.Pres XF (Engine.rchLink n) := by unfold Engine.rchLink; qpres
xf_leaf PresX.rchLink
theorem PresX.rchUnlink (n) : Step.Pres XF (Engine.rchUnlink n) := by unfold Engine.rchUnlink; qpres
xf_leaf PresX.rchUnlink
theorem PresX.rchInsert (n) : Step.Pres XF (Engine.rchInsert n) := by unfold Engine.rchInsert; qpres
xf_leaf PresX.rchInsert
theorem PresX.rchRemove (n) : Step.Pres XF (Engine.rchRemove n) := by unfold Engine.rchRemove; qpres
xf_leaf PresX.rchRemove
theorem PresX.rchRemoveMin : Step.Pres XF Engine.rchRemoveMin := by unfold Engine.rchRemoveMin; qpres
xf_leaf PresX.rchRemoveMin
theorem PresX.rchMinHeight : Step.Pres XF Engine.rchMinHeight := by unfold Engine.rchMinHeight; qpres
xf_leaf PresX.rchMinHeight
theorem PresX.rchIncreaseHeight (n) : Step.Pres XF (Engine.rchIncreaseHeight n) := by
  unfold Engine.rchIncreaseHeight; qpres
xf_leaf PresX.rchIncreaseHeight
theorem PresX.ahhAddUnlessMem (n) : Step.Pres XF (Engine.ahhAddUnlessMem n) := by
  unfold Engine.ahhAddUnlessMem; qpres
xf_leaf PresX.ahhAddUnlessMem
theorem PresX.ahhRemoveMin : Step.Pres XF Engine.ahhRemoveMin := by unfold Engine.ahhRemoveMin; qpres
xf_leaf PresX.ahhRemoveMin
theorem PresX.ensureHeightRequirement (oc op c p) : Step.Pres XF (Engine.ensureHeightRequirement oc op c p) := by
  unfold Engine.ensureHeightRequirement; qpres
xf_leaf PresX.ensureHeightRequirement

theorem PresX.adjustHeightsLoop (oc op fuel) : Step.Pres XF (Engine.adjustHeightsLoop oc op fuel) := by
  induction fuel with
  | zero => unfold Engine.adjustHeightsLoop; qpres
  | succ fuel ih =>
    unfold Engine.adjustHeightsLoop
    qpres
    all_goals first
      | exact ih
      | (apply Step.Pres.forIn; intro a b; qpres)
xf_leaf PresX.adjustHeightsLoop

theorem PresX.adjustHeights (oc op fuel) : Step.Pres XF (Engine.adjustHeights oc op fuel) := by
  unfold Engine.adjustHeights; qpres
xf_leaf PresX.adjustHeights

theorem PresX.scopeHeight (sc) : Step.Pres XF (Engine.scopeHeight sc) := Step.Pres.scopeHeight sc
theorem PresX.scopeIsNecessary (sc) : Step.Pres XF (Engine.scopeIsNecessary sc) := by
  unfold Engine.scopeIsNecessary; qpres
xf_leaf PresX.scopeIsNecessary
theorem PresX.handleAfterStabilisation (n) : Step.Pres XF (Engine.handleAfterStabilisation n) := by
  unfold Engine.handleAfterStabilisation; qpres
xf_leaf PresX.handleAfterStabilisation
theorem PresX.maybeHandleAfterStabilisation (n) : Step.Pres XF (Engine.maybeHandleAfterStabilisation n) := by
  unfold Engine.maybeHandleAfterStabilisation; qpres
xf_leaf PresX.maybeHandleAfterStabilisation
theorem PresX.edgeOnChange (env e edge) : Step.Pres XF (Engine.edgeOnChange env e edge) := by
  unfold Engine.edgeOnChange; qpres
xf_leaf PresX.edgeOnChange
theorem PresX.runEdgeCallback (env e i) : Step.Pres XF (Engine.runEdgeCallback env e i) := by
  unfold Engine.runEdgeCallback; qpres
xf_leaf PresX.runEdgeCallback
theorem PresX.observabilityChange (e b) : Step.Pres XF (Engine.observabilityChange e b) := by
  unfold Engine.observabilityChange; qpres
xf_leaf PresX.observabilityChange

theorem PresX.markMapRefUnknown (fuel n) : Step.Pres XF (Engine.markMapRefUnknown fuel n) := by
  induction fuel generalizing n with
  | zero => unfold Engine.markMapRefUnknown; qpres
  | succ fuel ih =>
    unfold Engine.markMapRefUnknown
    qpres
    all_goals (apply Step.Pres.forIn; intro a b; qpres; all_goals exact ih _)
xf_leaf PresX.markMapRefUnknown

theorem PresX.link (env : Env) (fuel : Nat) :
    (∀ n, Step.Pres XF (Engine.becameNecessary env fuel n)) ∧
    (∀ c i p, Step.Pres XF (Engine.addParentWithoutAdjustingHeights env fuel c i p)) := by
  induction fuel with
  | zero =>
    constructor
    · intro n; unfold Engine.becameNecessary; qpres
    · intro c i p; unfold Engine.addParentWithoutAdjustingHeights; qpres
  | succ fuel ih =>
    constructor
    · intro n
      unfold Engine.becameNecessary
      qpres
      all_goals (apply Step.Pres.forIn; intro a b; qpres; all_goals exact ih.2 _ _ _)
    · intro c i p
      unfold Engine.addParentWithoutAdjustingHeights
      qpres
      all_goals exact ih.1 _

theorem PresX.becameNecessary (env fuel n) : Step.Pres XF (Engine.becameNecessary env fuel n) :=
  (PresX.link env fuel).1 n
xf_leaf PresX.becameNecessary
theorem PresX.addParentWithoutAdjustingHeights (env fuel c i p) :
    Step.Pres XF (Engine.addParentWithoutAdjustingHeights env fuel c i p) :=
  (PresX.link env fuel).2 c i p
xf_leaf PresX.addParentWithoutAdjustingHeights

theorem PresX.unlink (fuel : Nat) :
    (∀ n, Step.Pres XF (Engine.becameUnnecessary fuel n)) ∧
    (∀ n, Step.Pres XF (Engine.checkIfUnnecessary fuel n)) ∧
    (∀ n, Step.Pres XF (Engine.removeChildren fuel n)) := by
  induction fuel with
  | zero =>
    refine ⟨?_, ?_, ?_⟩
    · intro n; unfold Engine.becameUnnecessary; qpres
    · intro n; unfold Engine.checkIfUnnecessary; qpres
    · intro n; unfold Engine.removeChildren; qpres
  | succ fuel ih =>
    refine ⟨?_, ?_, ?_⟩
    · intro n
      unfold Engine.becameUnnecessary
      qpres
      all_goals exact ih.2.2 _
    · intro n
      unfold Engine.checkIfUnnecessary
      qpres
      all_goals exact ih.1 _
    · intro n
      unfold Engine.removeChildren
      qpres
      all_goals (apply Step.Pres.forIn; intro a b; qpres; all_goals exact ih.2.1 _)

theorem PresX.becameUnnecessary (fuel n) : Step.Pres XF (Engine.becameUnnecessary fuel n) :=
  (PresX.unlink fuel).1 n
xf_leaf PresX.becameUnnecessary
theorem PresX.checkIfUnnecessary (fuel n) : Step.Pres XF (Engine.checkIfUnnecessary fuel n) :=
  (PresX.unlink fuel).2.1 n
xf_leaf PresX.checkIfUnnecessary
theorem PresX.removeChildren (fuel n) : Step.Pres XF (Engine.removeChildren fuel n) :=
  (PresX.unlink fuel).2.2 n
xf_leaf PresX.removeChildren

theorem PresX.invalidateNode (fuel n) : Step.Pres XF (Engine.invalidateNode fuel n) := by
  induction fuel generalizing n with
  | zero => unfold Engine.invalidateNode; qpres
  | succ fuel ih =>
    unfold Engine.invalidateNode
    qpres
    all_goals (apply Step.Pres.forIn; intro a b; qpres; all_goals exact ih _)
xf_leaf PresX.invalidateNode

theorem PresX.propagateInvalidity (fuel) : Step.Pres XF (Engine.propagateInvalidity fuel) := by
  induction fuel with
  | zero => unfold Engine.propagateInvalidity; qpres
  | succ fuel ih =>
    unfold Engine.propagateInvalidity
    qpres
    all_goals exact ih
xf_leaf PresX.propagateInvalidity

theorem PresX.becameNecessaryPropagate (env fuel n) : Step.Pres XF (Engine.becameNecessaryPropagate env fuel n) := by
  unfold Engine.becameNecessaryPropagate; qpres
xf_leaf PresX.becameNecessaryPropagate
theorem PresX.stateAddParent (env fuel c i p) : Step.Pres XF (Engine.stateAddParent env fuel c i p) := by
  unfold Engine.stateAddParent; qpres
xf_leaf PresX.stateAddParent
theorem PresX.shouldCutoff (env n o v) : Step.Pres XF (Engine.shouldCutoff env n o v) := by
  unfold Engine.shouldCutoff; qpres
xf_leaf PresX.shouldCutoff

theorem PresX.childChanged (env : Env) (fuel p c ci : Nat) (o : Option Val) :
    Step.Pres XF (Engine.childChanged env fuel p c ci o) := by
  induction fuel generalizing p c ci o with
  | zero => unfold Engine.childChanged; qpres
  | succ fuel ih =>
    unfold Engine.childChanged
    qpres
    all_goals (apply Step.Pres.forIn; intro a b; qpres; all_goals exact ih _ _ _ _)
xf_leaf PresX.childChanged

theorem PresX.parentIterCanRecomputeNow (p c : Nat) : Step.Pres XF (Engine.parentIterCanRecomputeNow p c) := by
  unfold Engine.parentIterCanRecomputeNow; qpres
xf_leaf PresX.parentIterCanRecomputeNow

theorem PresX.maybeChangeValueManual (env fuel n o d b) :
    Step.Pres XF (Engine.maybeChangeValueManual env fuel n o d b) := by
  unfold Engine.maybeChangeValueManual
  qpres
  all_goals (apply Step.Pres.forIn; intro a b; qpres)
xf_leaf PresX.maybeChangeValueManual

theorem PresX.maybeChangeValue (env fuel n v) : Step.Pres XF (Engine.maybeChangeValue env fuel n v) := by
  unfold Engine.maybeChangeValue; qpres
xf_leaf PresX.maybeChangeValue

theorem PresX.addNewObservers (env fuel) : Step.Pres XF (Engine.addNewObservers env fuel) := by
  unfold Engine.addNewObservers
  qpres
  all_goals (apply Step.Pres.forIn; intro a b; qpres)
xf_leaf PresX.addNewObservers

theorem PresX.unlinkDisallowedObservers (fuel) : Step.Pres XF (Engine.unlinkDisallowedObservers fuel) := by
  unfold Engine.unlinkDisallowedObservers
  qpres
  all_goals (apply Step.Pres.forIn; intro a b; qpres)
xf_leaf PresX.unlinkDisallowedObservers

theorem PresX.disallowFutureUse (o) : Step.Pres XF (Engine.disallowFutureUse o) := by
  unfold Engine.disallowFutureUse; qpres
xf_leaf PresX.disallowFutureUse
theorem PresX.didSetVarWhileNotStabilising (v) : Step.Pres XF (Engine.didSetVarWhileNotStabilising v) := by
  unfold Engine.didSetVarWhileNotStabilising; qpres
xf_leaf PresX.didSetVarWhileNotStabilising
theorem PresX.writeVar (v f b) : Step.Pres XF (Engine.writeVar v f b) := by
  unfold Engine.writeVar; qpres
xf_leaf PresX.writeVar
theorem PresX.dropVarHandle (v) : Step.Pres XF (Engine.dropVarHandle v) := by
  unfold Engine.dropVarHandle; qpres
xf_leaf PresX.dropVarHandle
theorem PresX.subscribe (o h) : Step.Pres XF (Engine.subscribe o h) := by
  unfold Engine.subscribe; qpres
xf_leaf PresX.subscribe
theorem PresX.unsubscribe (o t w) : Step.Pres XF (Engine.unsubscribe o t w) := by
  unfold Engine.unsubscribe; qpres
xf_leaf PresX.unsubscribe
theorem PresX.resolveOpnd (loc o) : Step.Pres XF (Engine.resolveOpnd loc o) := by
  unfold Engine.resolveOpnd; qpres
xf_leaf PresX.resolveOpnd
theorem PresX.isConstant (n) : Step.Pres XF (Engine.isConstant n) := by unfold Engine.isConstant; qpres
xf_leaf PresX.isConstant
theorem PresX.setMaxHeightAllowed (k) : Step.Pres XF (Engine.setMaxHeightAllowed k) := by
  unfold Engine.setMaxHeightAllowed; qpres
xf_leaf PresX.setMaxHeightAllowed

/-! ## reading the frame -/

theorem XF.xrec {s s' : State} (h : XF s s') {e : Nat} {er : ExpertRec} (he : s.experts[e]? = some er) :
    ∃ er', s'.experts[e]? = some er' ∧ er'.f = er.f ∧ er'.node = er.node ∧ er'.children = er.children ∧
      er'.pk = er.pk ∧ er'.forceStale = er.forceStale := by
  have := h.xcore e
  rw [he] at this
  cases h' : s'.experts[e]? with
  | none => rw [h'] at this; cases this
  | some er' =>
    rw [h'] at this
    simp only [Option.map_some, Option.some.injEq, xCore, Prod.mk.injEq] at this
    exact ⟨er', rfl, this⟩

theorem XF.xrec_back {s s' : State} (h : XF s s') {e : Nat} {er' : ExpertRec} (he : s'.experts[e]? = some er') :
    ∃ er, s.experts[e]? = some er ∧ er'.f = er.f ∧ er'.node = er.node ∧ er'.children = er.children ∧
      er'.pk = er.pk ∧ er'.forceStale = er.forceStale := by
  have := h.xcore e
  rw [he] at this
  cases h' : s.experts[e]? with
  | none => rw [h'] at this; cases this
  | some er =>
    rw [h'] at this
    simp only [Option.map_some, Option.some.injEq, xCore, Prod.mk.injEq] at this
    exact ⟨er, rfl, this⟩

theorem XF.xnone {s s' : State} (h : XF s s') {e : Nat} (he : s.experts[e]? = none) : s'.experts[e]? = none := by
  have := h.xcore e
  rw [he] at this
  cases h' : s'.experts[e]? with
  | none => rfl
  | some er' => rw [h'] at this; cases this

theorem XF.children {s s' : State} (h : XF s s') (hv : ∀ m, (s'.nodeD m).valid = (s.nodeD m).valid)
    (hb : s'.binds = s.binds) : ∀ m, s'.children m = s.children m := by
  intro m
  have hk : (s'.nodeD m).kind? = (s.nodeD m).kind? := by simp only [Node.kind?, h.kind, hv]
  unfold State.children
  rw [hk, hb]
  cases hq : (s.nodeD m).kind? with
  | none => rfl
  | some k =>
    cases k with
    | expert e =>
      dsimp only
      cases he : s.experts[e]? with
      | none => rw [h.xnone he]
      | some er =>
        obtain ⟨er', he', -, -, hc, -⟩ := h.xrec he
        rw [he']; dsimp only; rw [hc]
    | _ => rfl

/-- nothing to propagate: `propagate_invalidity` returns at once -/
theorem propagateInvalidity_nil {s : State} (fuel : Nat) (h : s.propagateInvalidity = []) :
    (Engine.propagateInvalidity (fuel+1)).run.run s = (.ok (), s) := by
  unfold Engine.propagateInvalidity
  rw [run_bind_get]
  simp only [h]
  rfl

end IncrVerif.Proofs.ExpertH
