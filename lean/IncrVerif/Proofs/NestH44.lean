import IncrVerif.Proofs.NestH43
import IncrVerif.Proofs.BindH86
/-!
# Nested binds (F2), part 4c-1: top-level node creation — what OLD nodes keep under an extension `C2c.Ext` (redone for `N2`/`All2`), the extended rank

`BindH.C2c.Ext s s1` (BindH81): `s1` is `s` plus some pristine top-level nodes at the end of the node table, possibly one more variable cell, possibly more
bind records.  Old nodes (also invalid ones, scope nodes, the nodes of dead inner binds) keep their child lists, staleness, defining equations and static facts.

THE RANK IS EXTENDED: `rkUp rk N R x = rk x` for `x < N` (old nodes), `R + (x - N) + 1` for the new ones, where `R` bounds the old ranks
(`rk_bound`): old ranks unchanged, new nodes on top in creation order.
-/
namespace IncrVerif.Proofs.NestH
open IncrVerif.Engine IncrVerif.Driver IncrVerif.Proofs IncrVerif.Proofs.Step IncrVerif.Proofs.Sched IncrVerif.Proofs.Quiet
open IncrVerif.Proofs.BindH

namespace N4c

/-! ## the extended rank -/

/-- finitely many nodes: their ranks are bounded -/
theorem rk_bound (rk : Nat → Nat) : ∀ N : Nat, ∃ R, ∀ x, x < N → rk x < R := by
  intro N
  induction N with
  | zero => exact ⟨0, fun x hx => by omega⟩
  | succ N ih =>
    obtain ⟨R, hR⟩ := ih
    refine ⟨max R (rk N + 1), fun x hx => ?_⟩
    by_cases e : x = N
    · rw [e]; exact Nat.lt_of_lt_of_le (Nat.lt_succ_self _) (Nat.le_max_right _ _)
    · exact Nat.lt_of_lt_of_le (hR x (by omega)) (Nat.le_max_left _ _)

/-- the extended rank: old nodes (`x < N`) keep their rank, new nodes lie above the bound `R`, in creation order -/
def rkUp (rk : Nat → Nat) (N R : Nat) : Nat → Nat := fun x => if x < N then rk x else R + (x - N) + 1

theorem rkUp_old {rk : Nat → Nat} {N R x : Nat} (h : x < N) : rkUp rk N R x = rk x := by
  unfold rkUp; rw [if_pos h]

theorem rkUp_new {rk : Nat → Nat} {N R x : Nat} (h : N ≤ x) : rkUp rk N R x = R + (x - N) + 1 := by
  unfold rkUp; rw [if_neg (by omega)]

/-- how a rank `rk'` extends `rk` over the nodes `≥ N`: old ranks unchanged, the new nodes above all old ones, in creation order -/
structure RkUp (rk rk' : Nat → Nat) (N : Nat) : Prop where
  old : ∀ x, x < N → rk' x = rk x
  above : ∀ x y, x < N → N ≤ y → rk' x < rk' y
  /-- the new nodes are ranked in creation order -/
  newLt : ∀ x y, N ≤ x → x < y → rk' x < rk' y

theorem rkUp_spec {rk : Nat → Nat} {N R : Nat} (hR : ∀ x, x < N → rk x < R) : RkUp rk (rkUp rk N R) N := by
  refine ⟨fun x hx => rkUp_old hx, ?_, ?_⟩
  · intro x y hx hy
    rw [rkUp_old hx, rkUp_new hy]
    have := hR x hx
    omega
  · intro x y hx hy
    rw [rkUp_new hx, rkUp_new (by omega)]
    omega

theorem RkUp.rkExt {rk rk' : Nat → Nat} {N : Nat} (U : RkUp rk rk' N) : RkExt rk rk' N := by
  intro a c ha hc
  rw [U.old a ha, U.old c hc]

/-- injectivity of the extended rank on the nodes `< N'` -/
theorem RkUp.inj {rk rk' : Nat → Nat} {N : Nat} (U : RkUp rk rk' N)
    (hinj : ∀ n m, n < N → m < N → rk n = rk m → n = m) : ∀ n m, rk' n = rk' m → n = m := by
  intro n m h
  by_cases hn : n < N
  · by_cases hm : m < N
    · rw [U.old n hn, U.old m hm] at h
      exact hinj n m hn hm h
    · have := U.above n m hn (by omega); omega
  · by_cases hm : m < N
    · have := U.above m n hm (by omega); omega
    · rcases Nat.lt_trichotomy n m with h1 | h1 | h1
      · have := U.newLt n m (by omega) h1; omega
      · exact h1
      · have := U.newLt m n (by omega) h1; omega

/-! ## old nodes -/

section
variable {env : Env} {rk rk' : Nat → Nat} {s s1 : State} {dy : List Nat}

/-- old nodes keep their child lists -/
theorem children_old2 (E : C2c.Ext s s1) (A : All2 env rk s dy) {m : Nat} (hm : m < s.nodes.size) :
    s1.children m = s.children m := by
  have N := A.node m hm
  unfold State.children Node.kind?
  rw [E.old m hm]
  cases hv : (s.nodeD m).valid
  · rfl
  · simp only [if_true]
    cases hk : (s.nodeD m).kind with
    | bindLhsChange b =>
      obtain ⟨br, hb, -⟩ := N.lcRec b hk
      simp only [E.bind_old hb, hb]
    | bindMain b lc =>
      obtain ⟨br, hb, -⟩ := N.mainRec b lc hk
      simp only [E.bind_old hb, hb]
    | expert e => have := N.kind; rw [hk] at this; exact this.elim
    | _ => rfl

/-- old nodes keep their staleness -/
theorem isStale_old2 (E : C2c.Ext s s1) (A : All2 env rk s dy) (V : VarsOK s) {m : Nat} (hm : m < s.nodes.size) :
    s1.isStale m = s.isStale m := by
  have N := A.node m hm
  have hch := children_old2 E A hm
  have hany : ((s.children m).any fun c => decide ((s1.nodeD c).changedAt > (s.nodeD m).recomputedAt)) =
      ((s.children m).any fun c => decide ((s.nodeD c).changedAt > (s.nodeD m).recomputedAt)) := by
    apply any_congr'
    intro a ha
    rw [E.old a (N.kidsIn a ha)]
  unfold State.isStale
  simp only [hch, E.old m hm, hany, Node.kind?]
  cases hv : (s.nodeD m).valid
  · rfl
  · simp only [if_true]
    cases hk : (s.nodeD m).kind with
    | var c =>
      obtain ⟨vc, hvc, -⟩ := V.node m c hm hk
      simp only [hvc, E.vars_old hvc]
    | expert e => have := N.kind; rw [hk] at this; exact this.elim
    | _ => rfl

/-- old valid nodes keep their defining equation -/
theorem consistent_old2 (E : C2c.Ext s s1) (A : All2 env rk s dy) {m : Nat} (hm : m < s.nodes.size)
    (hv : (s.nodeD m).valid = true) (h : ConsistentB env s m) : ConsistentB env s1 m := by
  have N := A.node m hm
  obtain ⟨v, ht, hval⟩ := h
  refine ⟨v, ?_, by rw [E.old m hm]; exact hval⟩
  have hkids : ∀ k, (s.nodeD m).kind = k → ∀ c, c ∈ kids k → c ∈ s.children m := by
    intro k hk c hc
    unfold State.children Node.kind?
    rw [hv, hk]
    cases k <;> first | exact hc | cases hc
  unfold TargetB at ht ⊢
  rw [E.old m hm]
  cases hk : (s.nodeD m).kind with
  | bindLhsChange b => rw [hk] at ht; exact ht
  | bindMain b lc =>
    rw [hk] at ht
    obtain ⟨br, r, hb, hr, hrv⟩ := ht
    refine ⟨br, r, E.bind_old hb, hr, ?_⟩
    have hrl : r < s.nodes.size := by
      by_cases hrl : r < s.nodes.size
      · exact hrl
      · rw [nodeD_default s r (by omega)] at hrv; cases hrv
    rw [E.old r hrl]; exact hrv
  | var c =>
    rw [hk] at ht
    simp only at ht ⊢
    unfold Target at ht ⊢
    rw [E.old m hm]
    rw [hk] at ht ⊢
    obtain ⟨vc, hvc, e⟩ := ht
    exact ⟨vc, E.vars_old hvc, e⟩
  | const w =>
    rw [hk] at ht
    simp only at ht ⊢
    unfold Target at ht ⊢
    rw [E.old m hm]
    rw [hk] at ht ⊢
    exact ht
  | map f args =>
    have hk' := hkids _ hk
    rw [hk] at ht
    simp only at ht ⊢
    unfold Target at ht ⊢
    rw [E.old m hm]
    rw [hk] at ht ⊢
    simp only at ht ⊢
    rw [E.plainVals_old args (fun c hc => N.kidsIn c (hk' c hc))]; exact ht
  | fold f init cs =>
    have hk' := hkids _ hk
    rw [hk] at ht
    simp only at ht ⊢
    unfold Target at ht ⊢
    rw [E.old m hm]
    rw [hk] at ht ⊢
    simp only at ht ⊢
    rw [E.plainVals_old cs (fun c hc => N.kidsIn c (hk' c hc))]; exact ht
  | _ =>
    rw [hk] at ht
    simp only at ht
    unfold Target at ht
    rw [hk] at ht
    exact ht.elim

/-- old nodes keep their static facts, under a rank that orders the old nodes as before -/
theorem n2_old (E : C2c.Ext s s1) (A : All2 env rk s dy) (hrk : RkExt rk rk' s.nodes.size) {m : Nat}
    (hm : m < s.nodes.size) : N2 env rk' s1 dy m := by
  have N := A.node m hm
  have hch := children_old2 E A hm
  have kid : ∀ c, c ∈ s.children m → s1.nodeD c = s.nodeD c := fun c hc => E.old c (N.kidsIn c hc)
  refine ⟨?_, ?_, ?_, ?_, ?_, ?_, ?_, ?_, ?_, ?_⟩
  · rw [E.old m hm]; exact N.kind
  · rw [E.old m hm]; exact N.cutoff
  · intro c hc
    rw [hch] at hc
    have := N.kidsIn c hc
    have := E.grow
    omega
  · intro c hc
    rw [hch] at hc
    rw [kid c hc]; exact N.kidsValid c hc
  · intro c hc
    rw [hch] at hc
    exact (hrk c m (N.kidsIn c hc) hm).2 (N.kidLt c hc)
  · intro b hk
    rw [E.old m hm] at hk
    obtain ⟨br, hb, e⟩ := N.lcRec b hk
    exact ⟨br, E.bind_old hb, e⟩
  · intro b lc hk
    rw [E.old m hm] at hk
    obtain ⟨br, hb, e⟩ := N.mainRec b lc hk
    exact ⟨br, E.bind_old hb, e⟩
  · intro c b hc hk
    rw [hch] at hc
    rw [kid c hc] at hk
    rw [E.old m hm]
    exact N.lcChild c b hc hk
  · intro h
    rw [E.old m hm] at h ⊢
    obtain ⟨h1, h2⟩ := N.top h
    refine ⟨h1, fun c hc => ?_⟩
    rw [hch] at hc
    rw [kid c hc]
    exact h2 c hc
  · intro b h
    rw [E.old m hm] at h ⊢
    obtain ⟨h1, br, hb, h3, h4⟩ := N.inScope b h
    refine ⟨h1, br, E.bind_old hb, h3, fun c hc => ?_⟩
    rw [hch] at hc
    rw [kid c hc]
    exact h4 c hc

end
end N4c
end IncrVerif.Proofs.NestH
