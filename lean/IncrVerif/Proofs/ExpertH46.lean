import IncrVerif.Proofs.ExpertH45
import IncrVerif.Proofs.ExpertH38
import IncrVerif.Proofs.ExpertH40
/-!
# Expert nodes, `add_dependency` on a NECESSARY node: helper lemmas

* transfer of `AhhEmpty` between a state and its virtual image, along `AhF`;
* `XFrag` along `XF`;
* `link_phase`: `addParentWithoutAdjustingHeights c k n` on the opened node `n` (virtual state);
* `close_inserted`: closing the opened node after `rchInsert`.
-/
namespace IncrVerif.Proofs.ExpertH
open IncrVerif.Engine IncrVerif.Driver IncrVerif.Proofs IncrVerif.Proofs.Step IncrVerif.Proofs.Sched
open IncrVerif.Proofs.ExpertH.QR IncrVerif.Proofs.Xp

theorem ahhEmpty_virt {s : State} : AhhEmpty (virt s) ↔ AhhEmpty s := by
  constructor
  · intro h
    exact ⟨h.length, h.buckets, fun m => by have := h.marks m; rwa [virt_nodeD] at this⟩
  · intro h
    exact ⟨h.length, h.buckets, fun m => by rw [virt_nodeD]; exact h.marks m⟩

theorem AhhEmpty.of_ahf {s s' : State} (h : AhhEmpty s) (f : AhF s s') : AhhEmpty s' := by
  refine ⟨by rw [f.ahh]; exact h.length, ?_, fun m => by rw [f.mark]; exact h.marks m⟩
  intro i hi
  have e : s'.ahh.queues = s.ahh.queues := by rw [f.ahh]
  have hi' : i < s.ahh.queues.size := by rw [← e]; exact hi
  have := h.buckets i hi'
  simp only [e] at *
  exact this

/-! ## the linking phase, in the virtual state -/

section
variable {env : Env} {rk : Nat → Nat} {S2 S3 : State} {n c k fuel : Nat}

/-- `addParentWithoutAdjustingHeights c k n` on the opened node `n` whose `k`-th child edge is the new one -/
theorem link_phase (I2 : GInv env rk S2 (upd allClosed n (.linking k)))
    (hkid : (kids (S2.nodeD n).kind)[k]? = some c)
    (hother : ∀ c' i, (n, i) ∈ (S2.nodeD c').parents → (S2.nodeD c').height < (S2.nodeD n).height)
    (hv : (addParentWithoutAdjustingHeights env fuel c k n).run.run S2 = (.ok (), S3)) :
    GInv env rk S3 (upd allClosed n (.linking (k + 1))) ∧ S3.nodeD n = S2.nodeD n ∧ CFrame S2 S3 ∧
      S3.propagateInvalidity = S2.propagateInvalidity ∧ (n, k) ∈ (S3.nodeD c).parents ∧
      (∀ c' i, (n, i) ∈ (S3.nodeD c').parents → c' ≠ c → (S3.nodeD c').height < (S3.nodeD n).height) := by
  have hopn : upd allClosed n (.linking k) n = .linking k := upd_self ..
  have hcn : rk c < rk n := I2.kid_lt hkid
  have hlow : ∀ m, upd allClosed n (.linking k) m ≠ .closed → rk c < rk m := by
    intro m hm
    by_cases e : m = n
    · rw [e]; exact hcn
    · rw [upd_other _ _ _ e] at hm; exact absurd rfl hm
  obtain ⟨I3, hab, hl, -⟩ := (link_spec env fuel).2 c k n S2 S3 _ hv I2 hopn hkid hlow
  rw [upd_upd] at I3
  have hn3 : S3.nodeD n = S2.nodeD n := hab n hcn
  have hop3 : upd allClosed n (.linking (k + 1)) n = .linking (k + 1) := upd_self ..
  refine ⟨I3, hn3, hl.fr, hl.pinv, ?_, ?_⟩
  · refine I3.conv n k c ?_ ((wants_linking hop3).2 (Nat.lt_succ_self k))
    rw [hn3]; exact hkid
  · intro c' i hm hne
    obtain ⟨h1, h2⟩ := I3.par c' n i hm
    rw [wants_linking hop3] at h2
    rw [hn3] at h1
    have hik : i < k := by
      rcases Nat.lt_or_ge i k with h | h
      · exact h
      · have : i = k := by omega
        rw [this, hkid] at h1
        cases h1; exact absurd rfl hne
    have hm2 : (n, i) ∈ (S2.nodeD c').parents := I2.conv n i c' h1 ((wants_linking hopn).2 hik)
    have hnec : S2.isNecessary c' = true := nec_of_mem_parents hm2
    rw [hl.hgt c' (fun h => h) hnec, hn3]
    exact hother c' i hm2

end

/-! ## closing the opened node -/

section
variable {env : Env} {rk : Nat → Nat} {S4 S' : State} {n k : Nat}

theorem upd_closed_all (n : Nat) (x : Op) : upd (upd allClosed n x) n .closed = allClosed := by
  rw [upd_upd]; exact upd_eq_self allClosed n .closed rfl

/-- the opened node has all its edges recorded, its children are lower, it is stale: once it is queued (it was
already, or `rchInsert` has just run) the structure is closed again -/
theorem close_phase (I4 : GInv env rk S4 (upd allClosed n (.linking (k + 1))))
    (hlen : (kids (S4.nodeD n).kind).length ≤ k + 1)
    (hh : ∀ c' i, (n, i) ∈ (S4.nodeD c').parents → (S4.nodeD c').height < (S4.nodeD n).height)
    (h0 : 0 ≤ (S4.nodeD n).height)
    (hg : (S4.nodeD n).inRch = true → (S4.nodeD n).heightInRch = (S4.nodeD n).height)
    (hst : staleOf S4 n = true)
    (hcase : ((S4.nodeD n).inRch = true ∧ S' = S4) ∨
      ((S4.nodeD n).inRch = false ∧ (rchInsert n).run.run S4 = (.ok (), S'))) :
    Struct env rk S' := by
  have hop : upd allClosed n (.linking (k + 1)) n = .linking (k + 1) := upd_self ..
  have hhk : ∀ (i c : Nat), (kids (S4.nodeD n).kind)[i]? = some c → (S4.nodeD c).height < (S4.nodeD n).height := by
    intro i c hc
    have hi : i < k + 1 := by
      rcases Nat.lt_or_ge i (kids (S4.nodeD n).kind).length with h | h
      · omega
      · rw [List.getElem?_eq_none h] at hc; cases hc
    exact hh c i (I4.conv n i c hc ((wants_linking hop).2 hi))
  rcases hcase with ⟨hq, rfl⟩ | ⟨hnq, hr⟩
  · have := GInv.close_link_queued I4 hop hlen hhk h0 hq (hg hq)
    rwa [upd_closed_all] at this
  · obtain ⟨nd, hnd, -, hmax, e⟩ := rchInsert_ok_inv hr
    have hD : S4.nodeD n = nd := nodeD_of_some hnd
    have hlt : n < S4.nodes.size := I4.opLt n (by rw [hop]; exact Op.linking_ne_closed _)
    rw [← hD] at e hmax
    have := I4.close_link_gen (s' := inserted n (S4.nodeD n).height S4) hop hnq hlen hhk h0 rfl rfl
      (Array.size_modify ..) rfl ?_ ?_ (I4.heap.inserted hlt hnq h0 hmax) (Or.inr ⟨hst, ?_⟩)
    · rw [upd_closed_all, ← e] at this; exact this
    · intro m
      rw [inserted_nodeD]
      split
      · exact ⟨_, rfl⟩
      · exact ⟨_, rfl⟩
    · intro m hm
      rw [inserted_nodeD, if_neg (fun e => hm e.1.symm)]
    · rw [inserted_nodeD, if_pos ⟨rfl, hlt⟩]

end

end IncrVerif.Proofs.ExpertH
