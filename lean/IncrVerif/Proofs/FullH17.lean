import IncrVerif.Proofs.FullH15
import IncrVerif.Proofs.FullH16
/-!
# C01 full fragment: the `didChange` invariant through `maybe_change_value(_manual)` of a node that is not a map_ref node
(port of MapRef12: `edgeOK_of_graph`, `mapRef_edge`, `up_or_same`, `KInv.congr`, `mcv_keepsK`; new: `mcvm_keepsK`)

`MapRefH.ValFrame n s W` (state-generic) is reused: `W` is `s` up to the stored value of `n` and fields that `State.value`,
necessity and the flags do not read.
-/
namespace IncrVerif.Proofs.FullH
open IncrVerif.Engine IncrVerif.Proofs IncrVerif.Proofs.Step IncrVerif.Proofs.Sched IncrVerif.Proofs.Quiet
open IncrVerif.Proofs.MapRefH (IsMapRef isMapRef_iff not_isMapRef_iff FM UpM EdgeOK Changed CCPost ValFrame
  PresFM.maybeChangeValueManual)
open IncrVerif.Proofs.BindH (DInv BGraph Below Edge)

section
variable {env : Env} {sp : Nat → Val → Val} {g : Nat → Option Val} {s : State}

/-- recorded parents are necessary, hence valid: from the graph invariant of the virtual state -/
theorem parent_valid (gr : BGraph (VE env sp) (virt g s)) {c p ci : Nat} (hmem : (p, ci) ∈ (s.nodeD c).parents) :
    s.isNecessary p = true ∧ (s.nodeD p).valid = true ∧ (s.children p)[ci]? = some c := by
  have hm : (p, ci) ∈ ((virt g s).nodeD c).parents := by rw [virt_nodeD, virtNode_parents]; exact hmem
  obtain ⟨h1, h2⟩ := gr.parent c p ci hm
  have h3 := (gr.nec p h1).1
  rw [virt_isNecessary] at h1
  rw [virt_nodeD, virtNode_valid] at h3
  rw [virt_children] at h2
  exact ⟨h1, h3, h2⟩

/-- recorded parent entries of map_ref parents are real child edges: from the graph invariant of the virtual state -/
theorem edgeOK_of_graph (gr : BGraph (VE env sp) (virt g s)) : EdgeOK s := by
  intro c p ci pr i hmem hk
  obtain ⟨-, hv, this⟩ := parent_valid gr hmem
  rw [children_mapRef hv hk] at this
  cases ci with
  | zero => simpa using this
  | succ k => simp at this

/-- the child edge of a necessary map_ref node is recorded, and the input is necessary; the node is valid -/
theorem mapRef_edge (gr : BGraph (VE env sp) (virt g s)) {m pr i : Nat} (hm : s.isNecessary m = true)
    (hk : (s.nodeD m).kind = .mapRef pr i) :
    (s.nodeD m).valid = true ∧ s.isNecessary i = true ∧ (m, 0) ∈ (s.nodeD i).parents := by
  have hmv : (virt g s).isNecessary m = true := by rw [virt_isNecessary]; exact hm
  have hv : (s.nodeD m).valid = true := by
    have := (gr.nec m hmv).1; rw [virt_nodeD, virtNode_valid] at this; exact this
  have := gr.child m hmv 0 i (by rw [virt_children, children_mapRef hv hk]; rfl)
  rw [virt_isNecessary, virt_nodeD, virtNode_parents] at this
  exact ⟨hv, this.1, this.2.1⟩

/-- a necessary map_ref node is above `n`, or reads in `W` what it read in `s` — when `W` is `s` up to the stored
value of the node `n` and fields that `State.value` does not read -/
theorem up_or_same {W : State} {n : Nat} (hb : MapRefsBack s)
    (gr : BGraph (VE env sp) (virt g s))
    (hk : ∀ m, (W.nodeD m).kind = (s.nodeD m).kind)
    (hvd : ∀ m, (W.nodeD m).valid = (s.nodeD m).valid)
    (hval : ∀ m, m ≠ n → (W.nodeD m).value = (s.nodeD m).value) :
    ∀ m pr i, s.isNecessary m = true → (s.nodeD m).kind = .mapRef pr i →
      UpM s m n ∨ W.value env m = s.value env m := by
  have hbW : MapRefsBack W := mapRefsBack_of_kind hb hk
  intro m
  induction m using Nat.strongRecOn with
  | _ m ih =>
    intro pr i hm hkm
    obtain ⟨hv, hin, hedge⟩ := mapRef_edge gr hm hkm
    have hlt : m < s.nodes.size := by
      by_cases h : m < s.nodes.size
      · exact h
      · rw [nodeD_default_of_ge s m (by omega)] at hkm; cases hkm
    have hi : i < m := hb m (s.nodeD m) pr i (some_of_lt hlt) hkm
    have hmr : IsMapRef (s.nodeD m).kind := by rw [hkm]; trivial
    by_cases hin' : i = n
    · subst hin'; exact Or.inl (UpM.base hedge hmr)
    · rw [value_mapRef' hbW (by rw [hvd]; exact hv) (by rw [hk]; exact hkm), value_mapRef' hb hv hkm]
      by_cases hmi : ∀ p j, (s.nodeD i).kind ≠ .mapRef p j
      · right
        rw [value_stored (Or.inr hmi), value_stored (Or.inr (by intro p j; rw [hk]; exact hmi p j)), hval i hin']
      · have : ∃ p j, (s.nodeD i).kind = .mapRef p j := by
          cases hki : (s.nodeD i).kind <;>
            first | exact ⟨_, _, rfl⟩ | (exfalso; apply hmi; intro p j; rw [hki]; intro h; cases h)
        obtain ⟨p, j, hki⟩ := this
        rcases ih i hi p j hin hki with hu | hs
        · exact Or.inl (hu.snoc hedge hmr)
        · right; rw [hs]

end

/-- the `didChange` invariant only reads validity, necessity, kinds, flags and read values -/
theorem KInv.congr {env : Env} {g : Nat → Option Val} {s s' : State} (K : KInv env g s)
    (hvd : ∀ m, (s'.nodeD m).valid = (s.nodeD m).valid)
    (hn : ∀ m, s'.isNecessary m = s.isNecessary m) (hk : ∀ m, (s'.nodeD m).kind = (s.nodeD m).kind)
    (hf : ∀ m, (s'.nodeD m).didChange = false → (s.nodeD m).didChange = false)
    (hv : ∀ m p i, (s.nodeD m).valid = true → s.isNecessary m = true → (s.nodeD m).kind = .mapRef p i →
      (s'.nodeD m).didChange = false → s'.value env m = s.value env m) : KInv env g s' := by
  intro m p i hvm hm hkm hd
  rw [hvd] at hvm; rw [hn] at hm; rw [hk] at hkm
  rw [K m p i hvm hm hkm (hf m hd), hv m p i hvm hm hkm hd]

/-- a map_ref node of the fragment has cutoff `.eq` or `.never` -/
theorem FFrag.cut_mapRef {env : Env} {sp : Nat → Val → Val} {g : Nat → Option Val} {s : State} (F : FFrag env sp g s) {m p i : Nat}
    (hk : (s.nodeD m).kind = .mapRef p i) : (s.nodeD m).cutoff = .eq ∨ (s.nodeD m).cutoff = .never := by
  rcases F.fr.cut m with h | h | ⟨a, b, -, h⟩
  · exact Or.inl h
  · exact Or.inr h
  · rw [hk] at h; cases h

/-- the fragment only reads sizes, kinds, cutoffs and the fault counter -/
theorem FFrag.of_frame {env : Env} {sp : Nat → Val → Val} {g : Nat → Option Val} {s W : State} (F : FFrag env sp g s)
    (hsz : W.nodes.size = s.nodes.size) (hk : ∀ m, (W.nodeD m).kind = (s.nodeD m).kind)
    (hc : ∀ m, (W.nodeD m).cutoff = (s.nodeD m).cutoff) (hpc : W.panicCountdown = none) : FFrag env sp g W where
  fr := ⟨fun n hn => by rw [hk]; exact F.fr.kinds n (by rw [← hsz]; exact hn), fun n e => by rw [hk]; exact F.fr.noExp n e,
    fun n => by rw [hk, hc]; exact F.fr.cut n, fun n hn => F.fr.fresh n (by rw [← hsz]; exact hn)⟩
  back := mapRefsBack_of_kind F.back hk
  pc := hpc

theorem FFrag.of_valFrame {env : Env} {sp : Nat → Val → Val} {g : Nat → Option Val} {s W : State} {n : Nat}
    (F : FFrag env sp g s) (VF : ValFrame n s W) : FFrag env sp g W :=
  F.of_frame VF.size VF.kind VF.cutoff (VF.pc F.pc)

theorem FFrag.of_quiet {env : Env} {sp : Nat → Val → Val} {g : Nat → Option Val} {s s' : State}
    (F : FFrag env sp g s) (q : Step.Quiet s s') : FFrag env sp g s' :=
  F.of_frame q.size (fun m => (q.node m).kind) (fun m => (q.node m).cutoff) (q.pc F.pc)

/-- the setting of the flag argument from the invariants of the pre-state `s` and a state `W` of its `ValFrame` family -/
theorem CCtx.of_valFrame {env : Env} {sp : Nat → Val → Val} {g : Nat → Option Val} {s W : State} {n : Nat}
    (F : FFrag env sp g s) (gr : BGraph (VE env sp) (virt g s)) (VF : ValFrame n s W) : CCtx env s W where
  pc := VF.pc F.pc
  back0 := F.back
  cut m p i hk := by rw [VF.kind] at hk; rw [VF.cutoff]; exact F.cut_mapRef hk
  kind0 m := (VF.kind m).symm
  valid0 m := (VF.valid m).symm
  edge := MapRefH.EdgeOK.congr (edgeOK_of_graph gr) VF.kind VF.parents
  pvalid c p ci hm := by rw [VF.parents] at hm; rw [VF.valid]; exact (parent_valid gr hm).2.1

/-- **the `didChange` invariant through a propagating `maybe_change_value_manual`** (with notifications) of a node `n`, run in a state `W0`
that is the pre-state `s` up to the stored value of `n`, stamps, machine states, log and counters; `old`: the old value handed to
`child_changed` — what `n` read in `s`, or `none`. -/
theorem mcvm_keepsK {env : Env} {sp : Nat → Val → Val} {g : Nat → Option Val} {s W0 s' : State} {fuel n : Nat}
    {old : Option Val} {r : Option Nat}
    (F : FFrag env sp g s) (gr : BGraph (VE env sp) (virt g s)) (K : KInv env g s)
    (VF : ValFrame n s W0) (hold : ∀ o, old = some o → s.value env n = some o)
    (h : (maybeChangeValueManual env fuel n old true true).run.run W0 = (.ok r, s')) :
    KInv env g s' := by
  have VFW : ValFrame n s (touched n W0) := VF.touched
  have q : Step.Quiet (touched n W0) s' := mcvm_true_quiet _ _ _ _ _ _ _ _ h
  have fm : FM W0 s' := (PresFM.maybeChangeValueManual ..).h _ _ _ h
  have C : CCtx env s (touched n W0) := CCtx.of_valFrame F gr VFW
  have flags := mcvm_flags C hold h
  refine K.congr (fun m => (q.node m).valid.trans (VFW.valid m)) (fun m => ?_)
    (fun m => (q.node m).kind.trans (VFW.kind m)) (fun m hd' => ?_) ?_
  · have : (s'.nodeD m).isNecessary = ((touched n W0).nodeD m).isNecessary := (q.node m).isNecessary
    exact this.trans (VFW.nec m)
  · cases hs : (s.nodeD m).didChange with
    | false => rfl
    | true =>
      have := fm m (by rw [VF.flag]; exact hs)
      rw [this] at hd'; cases hd'
  · intro m p i _ hm hk hd'
    rw [q.value_eqM env m]
    rcases up_or_same (W := touched n W0) F.back gr VFW.kind VFW.valid VFW.value m p i hm hk with hu | hs
    · have hu' : UpM (touched n W0) m n := hu.congr VFW.kind VFW.parents
      by_cases hc : Changed env s (touched n W0) m
      · rw [flags m hu' hc] at hd'; cases hd'
      · unfold Changed at hc
        have : ¬ (s.value env m ≠ (touched n W0).value env m) := fun h => hc (Or.inr h)
        exact (Decidable.not_not.1 this).symm
    · exact hs

/-- a state of the `ValFrame` family in which also the stored value of `n` is the one of `s`: nothing a reader sees has changed -/
theorem valFrame_keepsK {env : Env} {g : Nat → Option Val} {s W : State} {n : Nat} (K : KInv env g s)
    (VF : ValFrame n s W) (hvn : (W.nodeD n).value = (s.nodeD n).value) : KInv env g W := by
  refine K.congr VF.valid VF.nec VF.kind (fun m hd' => by rw [← VF.flag]; exact hd') (fun m p i _ _ _ _ => ?_)
  refine value_congr env s _ VF.size (fun k => ?_) m
  simp only [valueCore, VF.kind, VF.valid]
  by_cases hkn : k = n
  · subst hkn; rw [hvn]
  · rw [VF.value k hkn]

/-- **the `didChange` invariant through `maybe_change_value`** of a node `n` that is not a map_ref node, ANY cutoff, run in a
state `S0` that is the pre-state `s` up to stamps/log/counters: when the cutoff suppresses the change, the caller must know that the stored value
is the new one (`.eq`: by the verdict itself; `.dependOn a`: from `DepInv`; `.never` never suppresses). -/
theorem mcv_keepsK_gen {env : Env} {sp : Nat → Val → Val} {g : Nat → Option Val} {s S0 s' : State} {fuel n : Nat} {v : Val}
    {r : Option Nat}
    (F : FFrag env sp g s) (gr : BGraph (VE env sp) (virt g s)) (K : KInv env g s)
    (hn : n < s.nodes.size) (hnm : ∀ p i, (s.nodeD n).kind ≠ .mapRef p i)
    (VF : ValFrame n s S0) (hv0 : (S0.nodeD n).value = (s.nodeD n).value)
    (hsup : mcvChanges env S0 n v = some false → (s.nodeD n).value = some v)
    (h : (maybeChangeValue env fuel n v).run.run S0 = (.ok r, s')) : KInv env g s' ∧ FFrag env sp g s' := by
  have hn0 : n < S0.nodes.size := by rw [VF.size]; exact hn
  have hnn := some_of_lt hn0
  have hpc : S0.panicCountdown = none := VF.pc F.pc
  cases hd : mcvChanges env S0 n v with
  | none => rw [mcv_run' env fuel n v S0 _ hnn hpc, hd] at h; cases h
  | some d =>
  cases d with
  | true =>
    -- propagate
    rw [mcv_run' env fuel n v S0 _ hnn hpc, hd] at h
    dsimp only at h
    generalize hW0 : setValue n (some v) (logged (mcvLog env S0 n v) S0) = W0 at h
    have VF0 : ValFrame n s W0 := by rw [← hW0]; exact (VF.logged _).setValue _
    have q : Step.Quiet (touched n W0) s' := mcvm_true_quiet _ _ _ _ _ _ _ _ h
    have hold : ∀ o, (S0.nodeD n).value = some o → s.value env n = some o := by
      intro o ho; rw [value_stored (Or.inr hnm), ← hv0]; exact ho
    exact ⟨mcvm_keepsK F gr K VF0 hold h, (F.of_valFrame VF0.touched).of_quiet q⟩
  | false =>
    -- suppress: nothing a reader sees changes
    rw [mcv_suppress env fuel n v S0 _ hnn hpc hd] at h
    cases h
    have VF1 : ValFrame n s (setValue n (some v) (logged (mcvLog env S0 n v) S0)) := (VF.logged _).setValue _
    have hvn : ((setValue n (some v) (logged (mcvLog env S0 n v) S0)).nodeD n).value = (s.nodeD n).value := by
      rw [setValue_nodeD, if_pos ⟨rfl, hn0⟩, hsup hd]
    exact ⟨valFrame_keepsK K VF1 hvn, F.of_valFrame VF1⟩

/-- the verdict of a `depend_on` cutoff, in terms of the pre-state -/
theorem mcvChanges_dependOn {env : Env} {S0 : State} {n a : Nat} {v : Val} (hc : (S0.nodeD n).cutoff = .dependOn a)
    (h : mcvChanges env S0 n v = some false) :
    ∃ o, (S0.nodeD n).value = some o ∧ a < S0.nodes.size ∧ (S0.nodeD a).changedAt = (S0.nodeD n).changedAt := by
  unfold mcvChanges cutoffVerdict at h
  cases hv : (S0.nodeD n).value with
  | none => rw [hv] at h; cases h
  | some o =>
    rw [hv, hc] at h
    dsimp only at h
    cases ha : S0.nodes[a]? with
    | none => rw [ha] at h; cases h
    | some na =>
      rw [ha] at h
      simp only [Option.map_some, Option.some.injEq, Bool.not_eq_false', beq_iff_eq] at h
      refine ⟨o, rfl, lt_of_some ha, ?_⟩
      rw [nodeD_of_some ha]; exact h

/-- **the `didChange` invariant through `maybe_change_value`** of a node `n` with cutoff `.eq` or `.never` that is not a map_ref node, run in a
state `S0` that is the pre-state `s` up to stamps/log/counters (`hcut`: the ACTUAL cutoff). -/
theorem mcv_keepsK {env : Env} {sp : Nat → Val → Val} {g : Nat → Option Val} {s S0 s' : State} {fuel n : Nat} {v : Val}
    {r : Option Nat}
    (F : FFrag env sp g s) (gr : BGraph (VE env sp) (virt g s)) (K : KInv env g s)
    (hn : n < s.nodes.size) (hnm : ∀ p i, (s.nodeD n).kind ≠ .mapRef p i)
    (hcut : (s.nodeD n).cutoff = .eq ∨ (s.nodeD n).cutoff = .never)
    (VF : ValFrame n s S0) (hv0 : (S0.nodeD n).value = (s.nodeD n).value)
    (h : (maybeChangeValue env fuel n v).run.run S0 = (.ok r, s')) : KInv env g s' ∧ FFrag env sp g s' := by
  have hcut0 : (S0.nodeD n).cutoff = .eq ∨ (S0.nodeD n).cutoff = .never := by rw [VF.cutoff]; exact hcut
  refine mcv_keepsK_gen F gr K hn hnm VF hv0 (fun hd => ?_) h
  rcases mcvChanges_static env S0 n v hcut0 with hd' | ⟨-, hold⟩
  · rw [hd] at hd'; cases hd'
  · rw [← hv0]; exact hold

end IncrVerif.Proofs.FullH
