import IncrVerif.Proofs.Observers
/-!
# Observer lifecycle over whole histories, part 1: the relations `Life` and `Dis`, and `Pres R m`
— for every relation `R` that only looks at the observer fields (`ObsLocal R`) — for every function of
the model that does not itself touch an observer record

* `lifeLe a b`: the lifecycle order `created < inUse < disallowed < unlinked` (= reflexive-transitive
  closure of the four lifecycle edges, `lifeLe_iff_path`).
* `Life s s'`: no observer record is removed, every record keeps its `node`, its state only moves
  forward in the lifecycle order.
* `Dis s s'` ("nothing but `disallow_future_use` happened to the observers"): same number of
  observers; each record keeps `node` and `clones`; its state is unchanged or moved by `afterDisallow`
  (created ↦ unlinked, in use ↦ disallowed); its handlers keep their (token, hid, createdAt) — or were
  cleared by created ↦ unlinked; `newObservers` unchanged; `disallowedObservers` grew by exactly the
  observers that went in use ↦ disallowed, each queued once.
* `ObsLocal R`: `R` is a preorder that relates `s` to `s'` whenever `observers`, `newObservers`,
  `disallowedObservers`, `nextToken` and `log` are unchanged, and across the logging of any event that
  is not a handler notification.  `Pres R m` (calculus of `Proofs/Observers.lean`) for every such `R` and
  every function of the heaps, height adjustment, necessity and invalidation cascades, the expert API,
  node construction (memoised calls, map operators, per-key operators) and var writes.  Instances:
  `Dis` here, `Same` (part 3), `MoveIn`, `SameH` (part 4), `SameK` (part 7), `Mute tok` (part 9),
  `TokStep` (part 10).
-/
namespace IncrVerif.Proofs.Life
open IncrVerif.Engine IncrVerif.Proofs.Obs

/-! ## the lifecycle order -/

def rank : ObsState → Nat
  | .created => 0 | .inUse => 1 | .disallowed => 2 | .unlinked => 3

/-- `b` is `a` or later in the lifecycle -/
def lifeLe (a b : ObsState) : Prop := rank a ≤ rank b

instance (a b : ObsState) : Decidable (lifeLe a b) := Nat.decLe _ _

theorem lifeLe_refl (a : ObsState) : lifeLe a a := Nat.le_refl _
theorem lifeLe_trans {a b c : ObsState} (h1 : lifeLe a b) (h2 : lifeLe b c) : lifeLe a c :=
  Nat.le_trans h1 h2
theorem lifeLe_antisymm {a b : ObsState} (h1 : lifeLe a b) (h2 : lifeLe b a) : a = b := by
  cases a <;> cases b <;> first | rfl | (exact absurd h1 (by decide)) | (exact absurd h2 (by decide))

/-- the four transitions of the lifecycle -/
inductive LifeEdge : ObsState → ObsState → Prop
  | use : LifeEdge .created .inUse
  | disallow : LifeEdge .inUse .disallowed
  | unlink : LifeEdge .disallowed .unlinked
  | dropNew : LifeEdge .created .unlinked

/-- reflexive-transitive closure of `LifeEdge` -/
inductive LifePath : ObsState → ObsState → Prop
  | refl (a) : LifePath a a
  | step {a b c} : LifeEdge a b → LifePath b c → LifePath a c

theorem LifeEdge.lt {a b : ObsState} (h : LifeEdge a b) : rank a < rank b := by
  cases h <;> decide

theorem lifeLe_iff_path (a b : ObsState) : lifeLe a b ↔ LifePath a b := by
  constructor
  · intro h
    have e1 := LifePath.step .unlink (.refl _)
    have e2 := LifePath.step .disallow e1
    cases a <;> cases b <;> first
      | exact .refl _
      | exact absurd h (by decide)
      | exact e1
      | exact e2
      | exact .step .use e2
      | exact .step .disallow (.refl _)
      | exact .step .use (.refl _)
      | exact .step .use (.step .disallow (.refl _))
  · intro h
    induction h with
    | refl a => exact lifeLe_refl a
    | step e _ ih => exact lifeLe_trans (Nat.le_of_lt e.lt) ih

theorem lifeLe_afterDisallow (a : ObsState) : lifeLe a (afterDisallow a) := by
  cases a <;> decide

theorem afterDisallow_idem (a : ObsState) : afterDisallow (afterDisallow a) = afterDisallow a := by
  cases a <;> rfl

/-! ## `Life` -/

structure Life (s s' : State) : Prop where
  size : s.observers.size ≤ s'.observers.size
  obs : ∀ (o : Nat) (ob : ObsRec), s.observers[o]? = some ob →
    ∃ ob' : ObsRec, s'.observers[o]? = some ob' ∧ ob'.node = ob.node ∧ lifeLe ob.state ob'.state

theorem Life.refl (s : State) : Life s s :=
  ⟨Nat.le_refl _, fun _ ob h => ⟨ob, h, rfl, lifeLe_refl _⟩⟩

theorem Life.trans {a b c : State} (h1 : Life a b) (h2 : Life b c) : Life a c where
  size := Nat.le_trans h1.size h2.size
  obs o ob h := by
    obtain ⟨ob1, e1, n1, l1⟩ := h1.obs o ob h
    obtain ⟨ob2, e2, n2, l2⟩ := h2.obs o ob1 e1
    exact ⟨ob2, e2, n2.trans n1, lifeLe_trans l1 l2⟩

instance : PreOrd Life := ⟨Life.refl, Life.trans⟩

theorem Life.of_eq {s s' : State} (h : s'.observers = s.observers) : Life s s' := by
  refine ⟨by rw [h]; exact Nat.le_refl _, fun o ob e => ⟨ob, by rw [h]; exact e, rfl, lifeLe_refl _⟩⟩

/-- a `modObs` that keeps `node` and moves `state` forward -/
theorem Life.modObs (s : State) (o : Nat) (f : ObsRec → ObsRec)
    (hf : ∀ x, (f x).node = x.node ∧ lifeLe x.state (f x).state) :
    Life s { s with observers := s.observers.modify o f } := by
  refine ⟨by simp, fun m ob e => ?_⟩
  simp only [Array.getElem?_modify, e]
  split
  · exact ⟨f ob, rfl, (hf ob).1, (hf ob).2⟩
  · exact ⟨ob, rfl, rfl, lifeLe_refl _⟩

theorem Life.pushObs (s : State) (ob : ObsRec) :
    Life s { s with observers := s.observers.push ob } := by
  refine ⟨by simp, fun m x e => ?_⟩
  have hlt : m < s.observers.size := (Array.getElem?_eq_some_iff.1 e).1
  refine ⟨x, ?_, rfl, lifeLe_refl _⟩
  simp [Array.getElem?_push, Nat.ne_of_lt hlt, e]

/-- `FrameS`/`Frame` steps are `Life` steps -/
theorem Life.of_frame {s s' : State} (h : Frame s s') : Life s s' := by
  refine ⟨h.obsLe, fun o ob e => ?_⟩
  have hlt : o < s.observers.size := (Array.getElem?_eq_some_iff.1 e).1
  have := h.obs o hlt
  rw [e] at this
  cases e' : s'.observers[o]? with
  | none => rw [e'] at this; cases this
  | some ob' =>
    rw [e'] at this
    simp only [Option.map_some, Option.some.injEq, obsCore, Prod.mk.injEq] at this
    exact ⟨ob', rfl, this.1, by rw [this.2]; exact lifeLe_refl _⟩

/-! ## `Dis` -/

/-- what identifies a handler registration (everything but the automaton state `prev`) -/
def hkey (h : HandlerRec) : Nat × Nat × Int := (h.token, h.hid, h.createdAt)

/-- what may happen to one observer record while the only lifecycle call is `disallow_future_use` -/
structure RecDis (a b : ObsRec) : Prop where
  node : b.node = a.node
  clones : b.clones = a.clones
  state : b.state = a.state ∨ b.state = afterDisallow a.state
  handlers : b.handlers.map hkey = a.handlers.map hkey ∨
    (a.state = .created ∧ b.state = .unlinked ∧ b.handlers = [])

theorem RecDis.refl (a : ObsRec) : RecDis a a := ⟨rfl, rfl, .inl rfl, .inl rfl⟩

theorem RecDis.trans {a b c : ObsRec} (h1 : RecDis a b) (h2 : RecDis b c) : RecDis a c where
  node := h2.node.trans h1.node
  clones := h2.clones.trans h1.clones
  state := by
    rcases h1.state with e1 | e1 <;> rcases h2.state with e2 | e2
    · exact .inl (e2.trans e1)
    · exact .inr (by rw [e2, e1])
    · exact .inr (e2.trans e1)
    · exact .inr (by rw [e2, e1, afterDisallow_idem])
  handlers := by
    rcases h1.handlers with e1 | ⟨ea, eb, ehb⟩ <;> rcases h2.handlers with e2 | ⟨fb, fc, ehc⟩
    · exact .inl (e2.trans e1)
    · refine .inr ⟨?_, fc, ehc⟩
      rcases h1.state with e | e
      · rw [← e]; exact fb
      · rw [fb] at e; revert e; cases a.state <;> simp [afterDisallow]
    · refine .inr ⟨ea, ?_, ?_⟩
      · rcases h2.state with e | e
        · rw [e]; exact eb
        · rw [e, eb]; rfl
      · rw [ehb] at e2; simpa using e2
    · rw [eb] at fb; cases fb

theorem RecDis.lifeLe {a b : ObsRec} (h : RecDis a b) : lifeLe a.state b.state := by
  rcases h.state with e | e <;> rw [e]
  · exact lifeLe_refl _
  · exact lifeLe_afterDisallow _

/-- `x` went in use ↦ disallowed -/
def Went (s s' : State) (o : Nat) : Prop :=
  ∃ ob ob' : ObsRec, s.observers[o]? = some ob ∧ s'.observers[o]? = some ob' ∧
    ob.state = .inUse ∧ ob'.state = .disallowed

structure Dis (s s' : State) : Prop where
  size : s'.observers.size = s.observers.size
  obs : ∀ (o : Nat) (ob : ObsRec), s.observers[o]? = some ob → ∃ ob' : ObsRec, s'.observers[o]? = some ob' ∧ RecDis ob ob'
  newObs : s'.newObservers = s.newObservers
  dis : ∃ extra, s'.disallowedObservers = s.disallowedObservers ++ extra ∧ extra.Nodup ∧
    ∀ o, o ∈ extra ↔ Went s s' o

theorem Dis.of_eq {s s' : State} (h1 : s'.observers = s.observers)
    (h2 : s'.newObservers = s.newObservers)
    (h3 : s'.disallowedObservers = s.disallowedObservers) : Dis s s' := by
  refine ⟨by rw [h1], fun o ob e => ⟨ob, by rw [h1]; exact e, RecDis.refl _⟩, h2,
    [], by simp [h3], List.nodup_nil, fun o => ⟨fun h => absurd h List.not_mem_nil, ?_⟩⟩
  rintro ⟨ob, ob', e, e', u, d⟩
  rw [h1, e] at e'
  cases e'
  rw [u] at d; cases d

theorem Dis.refl (s : State) : Dis s s := Dis.of_eq rfl rfl rfl

theorem Dis.obs_back {s s' : State} (h : Dis s s') {o : Nat} {ob' : ObsRec}
    (e' : s'.observers[o]? = some ob') : ∃ ob, s.observers[o]? = some ob ∧ RecDis ob ob' := by
  have hlt : o < s.observers.size := by
    rw [← h.size]; exact (Array.getElem?_eq_some_iff.1 e').1
  have e : s.observers[o]? = some s.observers[o] := Array.getElem?_eq_getElem hlt
  obtain ⟨ob2, e2, r⟩ := h.obs o _ e
  rw [e'] at e2; cases e2
  exact ⟨_, e, r⟩

theorem Dis.trans {a b c : State} (h1 : Dis a b) (h2 : Dis b c) : Dis a c where
  size := h2.size.trans h1.size
  newObs := h2.newObs.trans h1.newObs
  obs o ob h := by
    obtain ⟨ob1, e1, r1⟩ := h1.obs o ob h
    obtain ⟨ob2, e2, r2⟩ := h2.obs o ob1 e1
    exact ⟨ob2, e2, r1.trans r2⟩
  dis := by
    obtain ⟨x1, e1, n1, m1⟩ := h1.dis
    obtain ⟨x2, e2, n2, m2⟩ := h2.dis
    refine ⟨x1 ++ x2, by rw [e2, e1, List.append_assoc], ?_, ?_⟩
    · rw [List.nodup_append]
      refine ⟨n1, n2, fun p hp q hq hpq => ?_⟩
      subst hpq
      obtain ⟨_, ob1, _, eb, _, d⟩ := (m1 p).1 hp
      obtain ⟨ob2, _, eb2, _, u, _⟩ := (m2 p).1 hq
      rw [eb] at eb2; cases eb2
      rw [d] at u; cases u
    · intro o
      rw [List.mem_append, m1, m2]
      constructor
      · rintro (⟨oa, ob, ea, eb, u, d⟩ | ⟨ob, oc, eb, ec, u, d⟩)
        · obtain ⟨oc, ec, r⟩ := h2.obs o ob eb
          refine ⟨oa, oc, ea, ec, u, ?_⟩
          rcases r.state with e | e <;> rw [e, d] <;> rfl
        · obtain ⟨oa, ea, r⟩ := h1.obs_back eb
          refine ⟨oa, oc, ea, ec, ?_, d⟩
          rcases r.state with e | e
          · rw [← e]; exact u
          · rw [u] at e; revert e; cases oa.state <;> simp [afterDisallow]
      · rintro ⟨oa, oc, ea, ec, u, d⟩
        obtain ⟨ob, eb, r1⟩ := h1.obs o oa ea
        obtain ⟨oc', ec', r2⟩ := h2.obs o ob eb
        rw [ec] at ec'; cases ec'
        rcases r1.state with e | e
        · exact .inr ⟨ob, oc, eb, ec, by rw [e]; exact u, d⟩
        · exact .inl ⟨oa, ob, ea, eb, u, by rw [e, u]; rfl⟩

instance : PreOrd Dis := ⟨Dis.refl, Dis.trans⟩

theorem Dis.life {s s' : State} (h : Dis s s') : Life s s' :=
  ⟨Nat.le_of_eq h.size.symm, fun o ob e => by
    obtain ⟨ob', e', r⟩ := h.obs o ob e
    exact ⟨ob', e', r.node, r.lifeLe⟩⟩

/-- a `modObs` that is a `RecDis` step and not an in use ↦ disallowed step -/
theorem Dis.modObs (s : State) (o : Nat) (f : ObsRec → ObsRec)
    (hf : ∀ x, RecDis x (f x) ∧ ¬ (x.state = .inUse ∧ (f x).state = .disallowed)) :
    Dis s { s with observers := s.observers.modify o f } := by
  refine ⟨by simp, fun m ob e => ?_, rfl, [], by simp, List.nodup_nil,
    fun m => ⟨fun h => absurd h List.not_mem_nil, ?_⟩⟩
  · simp only [Array.getElem?_modify, e]
    split
    · exact ⟨f ob, rfl, (hf ob).1⟩
    · exact ⟨ob, rfl, RecDis.refl _⟩
  · rintro ⟨ob, ob', e, e', u, d⟩
    simp only [Array.getElem?_modify, e] at e'
    split at e'
    · simp only [Option.map_some, Option.some.injEq] at e'
      subst e'
      exact ((hf ob).2 ⟨u, d⟩).elim
    · cases e'
      rw [u] at d; cases d

/-- relations that only look at the three observer fields: a step that leaves `observers`,
`newObservers` and `disallowedObservers` alone is related.  The decomposition below is carried out once
for all such relations (`Dis`, `Same` of part 3, `MoveIn` of part 4, `Mute` of part 9; the last one also
looks at `nextToken` and at the handler notifications in `log`). -/
class ObsLocal (R : State → State → Prop) : Prop extends PreOrd R where
  of_eq : ∀ s s' : State, s'.observers = s.observers → s'.newObservers = s.newObservers →
    s'.disallowedObservers = s.disallowedObservers → s'.nextToken = s.nextToken → s'.log = s.log →
    R s s'
  /-- logging anything but a handler notification -/
  logEv : ∀ (e : Event) (s : State), (∀ t u, e ≠ .notif t u) → R s { s with log := e :: s.log }

instance : ObsLocal Dis where
  of_eq _ _ h1 h2 h3 _ _ := Dis.of_eq h1 h2 h3
  logEv _ _ _ := Dis.of_eq rfl rfl rfl

/-! ## the decomposition tactic -/

syntax "lleaf" : tactic
macro_rules | `(tactic| lleaf) => `(tactic| fail "no leaf")

/-- leaves that must be tried before a bind is taken apart -/
syntax "lspecial" : tactic
macro_rules | `(tactic| lspecial) => `(tactic| fail "no special leaf")

macro "lstep" : tactic => `(tactic| first
  | with_reducible apply Pres.pure | with_reducible apply Pres.get | with_reducible apply Pres.panic
  | with_reducible apply Pres.throw
  | lspecial
  | with_reducible apply Pres.bind | with_reducible apply Pres.map | with_reducible apply Pres.mapM
  | with_reducible apply Pres.forIn
  | with_reducible apply Pres.getNode | with_reducible apply Pres.dassert
  | with_reducible apply Pres.getBind | with_reducible apply Pres.getExpert
  | with_reducible apply Pres.getVar | with_reducible apply Pres.assertM
  | with_reducible apply Pres.getObs | with_reducible apply Pres.isConstant
  | with_reducible apply Pres.resolveOpnd | with_reducible apply Pres.discard
  | with_reducible apply Pres.withVarHandle
  | lleaf
  | intro _ | split | dsimp only)

macro "lpres" : tactic => `(tactic| repeat (any_goals lstep))

/-- register a lemma as a leaf -/
macro "life_leaf " n:ident : command =>
  `(macro_rules | `(tactic| lleaf) => `(tactic| with_reducible apply $n))

/-! ### primitive leaves -/

section
variable {R : State → State → Prop} [ObsLocal R]


macro_rules
  | `(tactic| lleaf) =>
    `(tactic| ((with_reducible apply Pres.modify); intro _; exact ObsLocal.of_eq _ _ rfl rfl rfl rfl rfl))

theorem PresD.modNode (n f) : Pres R (modNode n f) := by unfold Engine.modNode; lpres
life_leaf PresD.modNode
theorem PresD.modVar (n f) : Pres R (modVar n f) := by unfold Engine.modVar; lpres
life_leaf PresD.modVar
theorem PresD.modBind (n f) : Pres R (modBind n f) := by unfold Engine.modBind; lpres
life_leaf PresD.modBind
theorem PresD.modExpert (n f) : Pres R (modExpert n f) := by unfold Engine.modExpert; lpres
life_leaf PresD.modExpert
theorem PresD.bumpCounter (f) : Pres R (bumpCounter f) := by unfold Engine.bumpCounter; lpres
life_leaf PresD.bumpCounter
theorem PresD.logEv (e : Event) (he : ∀ t u, e ≠ .notif t u) : Pres R (logEv e) := by
  unfold Engine.logEv; exact Pres.modify fun s => ObsLocal.logEv e s he
macro_rules
  | `(tactic| lleaf) =>
    `(tactic| ((with_reducible apply PresD.logEv); (intro _ _ h; cases h; done)))
theorem PresD.tick : Pres R tick := by unfold Engine.tick; lpres
life_leaf PresD.tick

section
omit [ObsLocal R]
variable [PreOrd R]
theorem PresR.scopeHeight (sc) : Pres R (scopeHeight sc) := by unfold Engine.scopeHeight; lpres
theorem PresR.scopeIsNecessary (sc) : Pres R (scopeIsNecessary sc) := by
  unfold Engine.scopeIsNecessary; lpres
theorem PresR.scopeIsValid (sc) : Pres R (scopeIsValid sc) := by unfold Engine.scopeIsValid; lpres
theorem PresR.valueUnwrap (env n site) : Pres R (valueUnwrap env n site) := by
  unfold Engine.valueUnwrap; lpres
theorem PresR.expertOf (n) : Pres R (expertOf n) := by unfold Engine.expertOf; lpres
theorem PresR.expertIdxRaw (n) : Pres R (expertIdxRaw n) := by unfold Engine.expertIdxRaw; lpres
end
life_leaf PresR.scopeHeight
life_leaf PresR.scopeIsNecessary
life_leaf PresR.scopeIsValid
life_leaf PresR.valueUnwrap
life_leaf PresR.expertOf
life_leaf PresR.expertIdxRaw

/-! ### heaps, heights -/
theorem PresD.rchLink (n) : Pres R (rchLink n) := by unfold Engine.rchLink; lpres
life_leaf PresD.rchLink
theorem PresD.rchUnlink (n) : Pres R (rchUnlink n) := by unfold Engine.rchUnlink; lpres
life_leaf PresD.rchUnlink
theorem PresD.rchInsert (n) : Pres R (rchInsert n) := by unfold Engine.rchInsert; lpres
life_leaf PresD.rchInsert
theorem PresD.rchRemove (n) : Pres R (rchRemove n) := by unfold Engine.rchRemove; lpres
life_leaf PresD.rchRemove
theorem PresD.rchMinHeight : Pres R rchMinHeight := by unfold Engine.rchMinHeight; lpres
life_leaf PresD.rchMinHeight
theorem PresD.rchIncreaseHeight (n) : Pres R (rchIncreaseHeight n) := by
  unfold Engine.rchIncreaseHeight; lpres
life_leaf PresD.rchIncreaseHeight
theorem PresD.rchRemoveMin : Pres R rchRemoveMin := by unfold Engine.rchRemoveMin; lpres
life_leaf PresD.rchRemoveMin
theorem PresD.setHeight (n h) : Pres R (setHeight n h) := by unfold Engine.setHeight; lpres
life_leaf PresD.setHeight
theorem PresD.ahhAddUnlessMem (n) : Pres R (ahhAddUnlessMem n) := by
  unfold Engine.ahhAddUnlessMem; lpres
life_leaf PresD.ahhAddUnlessMem
theorem PresD.ahhRemoveMin : Pres R ahhRemoveMin := by unfold Engine.ahhRemoveMin; lpres
life_leaf PresD.ahhRemoveMin
theorem PresD.ensureHeightRequirement (a b c d) : Pres R (ensureHeightRequirement a b c d) := by
  unfold Engine.ensureHeightRequirement; lpres
life_leaf PresD.ensureHeightRequirement
theorem PresD.adjustHeightsLoop (oc op fuel) : Pres R (adjustHeightsLoop oc op fuel) := by
  induction fuel with
  | zero => unfold Engine.adjustHeightsLoop; lpres
  | succ fuel ih => unfold Engine.adjustHeightsLoop; lpres; all_goals exact ih
life_leaf PresD.adjustHeightsLoop
theorem PresD.adjustHeights (oc op fuel) : Pres R (adjustHeights oc op fuel) := by
  unfold Engine.adjustHeights; lpres
life_leaf PresD.adjustHeights

/-! ### parents, handlers bookkeeping, cutoffs, edge callbacks -/
theorem PresD.addParent (a b c) : Pres R (addParent a b c) := by unfold Engine.addParent; lpres
life_leaf PresD.addParent
theorem PresD.removeParent (a b c) : Pres R (removeParent a b c) := by
  unfold Engine.removeParent; lpres
life_leaf PresD.removeParent
theorem PresD.handleAfterStabilisation (n) : Pres R (handleAfterStabilisation n) := by
  unfold Engine.handleAfterStabilisation; lpres
life_leaf PresD.handleAfterStabilisation
theorem PresD.maybeHandleAfterStabilisation (n) : Pres R (maybeHandleAfterStabilisation n) := by
  unfold Engine.maybeHandleAfterStabilisation; lpres
life_leaf PresD.maybeHandleAfterStabilisation
theorem PresD.shouldCutoff (env n o v) : Pres R (shouldCutoff env n o v) := by
  unfold Engine.shouldCutoff; lpres
life_leaf PresD.shouldCutoff
theorem PresD.edgeOnChange (env e edge) : Pres R (edgeOnChange env e edge) := by
  unfold Engine.edgeOnChange; lpres
life_leaf PresD.edgeOnChange
theorem PresD.runEdgeCallback (env e i) : Pres R (runEdgeCallback env e i) := by
  unfold Engine.runEdgeCallback; lpres
life_leaf PresD.runEdgeCallback
theorem PresD.observabilityChange (e b) : Pres R (observabilityChange e b) := by
  unfold Engine.observabilityChange; lpres
life_leaf PresD.observabilityChange
theorem PresD.markMapRefUnknown (fuel n) : Pres R (markMapRefUnknown fuel n) := by
  induction fuel generalizing n with
  | zero => unfold Engine.markMapRefUnknown; lpres
  | succ fuel ih => unfold Engine.markMapRefUnknown; lpres; all_goals exact ih _
life_leaf PresD.markMapRefUnknown

/-! ### necessity cascades, invalidation -/
theorem PresD.necessary (env : Env) (fuel : Nat) :
    (∀ n, Pres R (becameNecessary env fuel n)) ∧
    (∀ c i p, Pres R (addParentWithoutAdjustingHeights env fuel c i p)) := by
  induction fuel with
  | zero =>
    constructor
    · intro n; unfold Engine.becameNecessary; lpres
    · intro c i p; unfold Engine.addParentWithoutAdjustingHeights; lpres
  | succ fuel ih =>
    constructor
    · intro n; unfold Engine.becameNecessary; lpres; all_goals exact ih.2 _ _ _
    · intro c i p; unfold Engine.addParentWithoutAdjustingHeights; lpres; all_goals exact ih.1 _
theorem PresD.becameNecessary (env fuel n) : Pres R (becameNecessary env fuel n) :=
  (PresD.necessary env fuel).1 n
life_leaf PresD.becameNecessary
theorem PresD.addParentWithoutAdjustingHeights (env fuel c i p) :
    Pres R (addParentWithoutAdjustingHeights env fuel c i p) := (PresD.necessary env fuel).2 c i p
life_leaf PresD.addParentWithoutAdjustingHeights

theorem PresD.unnecessary (fuel : Nat) :
    (∀ n, Pres R (becameUnnecessary fuel n)) ∧ (∀ n, Pres R (checkIfUnnecessary fuel n)) ∧
    (∀ n, Pres R (removeChildren fuel n)) := by
  induction fuel with
  | zero =>
    refine ⟨?_, ?_, ?_⟩
    · intro n; unfold Engine.becameUnnecessary; lpres
    · intro n; unfold Engine.checkIfUnnecessary; lpres
    · intro n; unfold Engine.removeChildren; lpres
  | succ fuel ih =>
    refine ⟨?_, ?_, ?_⟩
    · intro n; unfold Engine.becameUnnecessary; lpres; all_goals exact ih.2.2 _
    · intro n; unfold Engine.checkIfUnnecessary; lpres; all_goals exact ih.1 _
    · intro n; unfold Engine.removeChildren; lpres; all_goals exact ih.2.1 _
theorem PresD.becameUnnecessary (fuel n) : Pres R (becameUnnecessary fuel n) :=
  (PresD.unnecessary fuel).1 n
life_leaf PresD.becameUnnecessary
theorem PresD.checkIfUnnecessary (fuel n) : Pres R (checkIfUnnecessary fuel n) :=
  (PresD.unnecessary fuel).2.1 n
life_leaf PresD.checkIfUnnecessary
theorem PresD.removeChildren (fuel n) : Pres R (removeChildren fuel n) :=
  (PresD.unnecessary fuel).2.2 n
life_leaf PresD.removeChildren

theorem PresD.invalidateNode (fuel n) : Pres R (invalidateNode fuel n) := by
  induction fuel generalizing n with
  | zero => unfold Engine.invalidateNode; lpres
  | succ fuel ih => unfold Engine.invalidateNode; lpres; all_goals exact ih _
life_leaf PresD.invalidateNode
theorem PresD.propagateInvalidity (fuel) : Pres R (propagateInvalidity fuel) := by
  induction fuel with
  | zero => unfold Engine.propagateInvalidity; lpres
  | succ fuel ih => unfold Engine.propagateInvalidity; lpres; all_goals exact ih
life_leaf PresD.propagateInvalidity
theorem PresD.becameNecessaryPropagate (env fuel n) :
    Pres R (becameNecessaryPropagate env fuel n) := by
  unfold Engine.becameNecessaryPropagate; lpres
life_leaf PresD.becameNecessaryPropagate
theorem PresD.stateAddParent (env fuel c i p) : Pres R (stateAddParent env fuel c i p) := by
  unfold Engine.stateAddParent; lpres
life_leaf PresD.stateAddParent
theorem PresD.changeChildBindRhs (env fuel m o nw i) :
    Pres R (changeChildBindRhs env fuel m o nw i) := by
  unfold Engine.changeChildBindRhs; lpres
life_leaf PresD.changeChildBindRhs

/-! ### expert API -/
theorem PresD.assertRunningIsChild (n name) : Pres R (assertRunningIsChild n name) := by
  unfold Engine.assertRunningIsChild; lpres
life_leaf PresD.assertRunningIsChild
theorem PresD.expertMakeStale (n) : Pres R (expertMakeStale n) := by
  unfold Engine.expertMakeStale; lpres
life_leaf PresD.expertMakeStale
theorem PresD.expertAddDependency (env fuel n c cb) :
    Pres R (expertAddDependency env fuel n c cb) := by
  unfold Engine.expertAddDependency; lpres
life_leaf PresD.expertAddDependency
theorem PresD.swapEdgeIndices (n c1 i1 c2 i2) : Pres R (swapEdgeIndices n c1 i1 c2 i2) := by
  unfold Engine.swapEdgeIndices; lpres
life_leaf PresD.swapEdgeIndices
theorem PresD.expertRemoveDependency (fuel n dep) : Pres R (expertRemoveDependency fuel n dep) := by
  unfold Engine.expertRemoveDependency; lpres
life_leaf PresD.expertRemoveDependency
theorem PresD.expertInvalidate (fuel n) : Pres R (expertInvalidate fuel n) := by
  unfold Engine.expertInvalidate; lpres
life_leaf PresD.expertInvalidate

/-! ### node creation, var writes -/
theorem PresD.createNode (k sc c) : Pres R (createNode k sc c) := by
  unfold Engine.createNode; lpres
life_leaf PresD.createNode
theorem PresD.createVar (v sc) : Pres R (createVar v sc) := by unfold Engine.createVar; lpres
life_leaf PresD.createVar
theorem PresD.createBind (b l) : Pres R (createBind b l) := by unfold Engine.createBind; lpres
life_leaf PresD.createBind
set_option maxHeartbeats 1000000 in
theorem PresD.elabInstr (loc v i) : Pres R (elabInstr loc v i) := by
  cases i with
  | mapOp op => cases op <;> (simp only [Engine.elabInstr]; lpres)
  | _ => simp only [Engine.elabInstr]; lpres
life_leaf PresD.elabInstr
theorem PresD.elabTemplateBase (t v init) : Pres R (elabTemplateBase t v init) := by
  unfold Engine.elabTemplateBase; lpres
life_leaf PresD.elabTemplateBase
theorem PresD.memoCall (env m key) : Pres R (memoCall env m key) := by
  unfold Engine.memoCall; lpres
life_leaf PresD.memoCall
theorem PresD.elabInstrM (env loc v i) : Pres R (elabInstrM env loc v i) := by
  unfold Engine.elabInstrM; lpres
life_leaf PresD.elabInstrM
theorem PresD.elabTemplate (env t v) : Pres R (elabTemplate env t v) := by
  unfold Engine.elabTemplate; lpres
life_leaf PresD.elabTemplate
theorem PresD.didSetVarWhileNotStabilising (v) : Pres R (didSetVarWhileNotStabilising v) := by
  unfold Engine.didSetVarWhileNotStabilising; lpres
life_leaf PresD.didSetVarWhileNotStabilising
theorem PresD.writeVar (v f b) : Pres R (writeVar v f b) := by unfold Engine.writeVar; lpres
life_leaf PresD.writeVar
theorem PresD.dropVarHandle (v) : Pres R (dropVarHandle v) := by
  unfold Engine.dropVarHandle; lpres
life_leaf PresD.dropVarHandle
theorem PresD.setMaxHeightAllowed (k) : Pres R (setMaxHeightAllowed k) := by
  unfold Engine.setMaxHeightAllowed; lpres
life_leaf PresD.setMaxHeightAllowed

end

end IncrVerif.Proofs.Life
