import IncrVerif.Proofs.PerKeyH5
import IncrVerif.Proofs.PerKeyH6
/-!
# Per-key operators, API actions part 1: the frame `AF` of the static API actions that create no node

`AF s s'`: same number of nodes; every node keeps kind, scope, cutoff, value, validity, both stamps, `forceNecessary`, observer list;
the expert records, the per-key records, the naming table, the current scope, the panic countdown and `nextDep` are
unchanged.  (What changes: cells, observers, the recompute heap and its marks, counters.)
-/
namespace IncrVerif.Proofs.PerKeyH
open IncrVerif.Engine IncrVerif.Driver IncrVerif.Proofs IncrVerif.Proofs.Step IncrVerif.Proofs.Sched
open IncrVerif.Proofs.ExpertH IncrVerif.Proofs.EffH IncrVerif.Proofs.DriverH

def aKey (nd : Node) :=
  (nd.kind, nd.createdIn, nd.cutoff, nd.value, nd.valid, nd.recomputedAt, nd.changedAt, nd.forceNecessary,
    nd.heightInAhh, nd.observers)

def asKey (s : State) := (s.experts, s.perkeys, s.top, s.currentScope, s.panicCountdown, s.nextDep, s.ahh,
  s.stabNum, s.propagateInvalidity)

structure AF (s s' : State) : Prop where
  size : s'.nodes.size = s.nodes.size
  node : ∀ m, aKey (s'.nodeD m) = aKey (s.nodeD m)
  key : asKey s' = asKey s

theorem AF.refl (s : State) : AF s s := ⟨rfl, fun _ => rfl, rfl⟩
theorem AF.trans {a b c : State} (h1 : AF a b) (h2 : AF b c) : AF a c :=
  ⟨h2.size.trans h1.size, fun m => (h2.node m).trans (h1.node m), h2.key.trans h1.key⟩
instance : Step.PreOrd AF := ⟨AF.refl, AF.trans⟩

theorem AF.of_nodes {s s' : State} (h1 : s'.nodes = s.nodes) (h2 : asKey s' = asKey s) : AF s s' := by
  refine ⟨by rw [h1], fun m => ?_, h2⟩
  have : s'.nodeD m = s.nodeD m := by simp [State.nodeD, h1]
  rw [this]

theorem AF.modNode (s : State) (n : Nat) (f : Node → Node) (hf : ∀ x, aKey (f x) = aKey x) :
    AF s { s with nodes := s.nodes.modify n f } := by
  refine ⟨by simp, fun m => ?_, rfl⟩
  rw [nodeD_modify]; split
  · exact hf _
  · rfl

theorem PresA.modNode (n : Nat) (f : Node → Node) (hf : ∀ x, aKey (f x) = aKey x) :
    Step.Pres AF (Engine.modNode n f) := by
  unfold Engine.modNode; exact Step.Pres.modify fun s => AF.modNode s n f hf

macro_rules
  | `(tactic| qleaf) =>
    `(tactic| ((with_reducible apply Step.Pres.modify); intro _; exact AF.of_nodes rfl rfl))
macro_rules
  | `(tactic| qleaf) => `(tactic| ((with_reducible apply PresA.modNode); intro _; rfl))

macro "af_leaf " n:ident : command =>
  `(macro_rules | `(tactic| qleaf) => `(tactic| with_reducible apply $n))

theorem PresA.discard {α} {x : M α} (h : Step.Pres AF x) : Step.Pres AF (discard x) := by
  unfold Functor.discard; exact Step.Pres.map _ h
af_leaf PresA.discard
theorem PresA.bumpCounter (f) : Step.Pres AF (Engine.bumpCounter f) := by unfold Engine.bumpCounter; qpres
af_leaf PresA.bumpCounter
theorem PresA.modObs (o f) : Step.Pres AF (Engine.modObs o f) := by unfold Engine.modObs; qpres
af_leaf PresA.modObs
theorem PresA.modVar (v f) : Step.Pres AF (Engine.modVar v f) := by unfold Engine.modVar; qpres
af_leaf PresA.modVar
theorem PresA.getObs (o) : Step.Pres AF (Engine.getObs o) := by unfold Engine.getObs; qpres
af_leaf PresA.getObs
theorem PresA.rchLink (n) : Step.Pres AF (Engine.rchLink n) := by unfold Engine.rchLink; qpres
af_leaf PresA.rchLink
theorem PresA.rchInsert (n) : Step.Pres AF (Engine.rchInsert n) := by unfold Engine.rchInsert; qpres
af_leaf PresA.rchInsert
theorem PresA.resolveOpnd (loc o) : Step.Pres AF (Engine.resolveOpnd loc o) := by
  unfold Engine.resolveOpnd; qpres
af_leaf PresA.resolveOpnd
theorem PresA.disallowFutureUse (o) : Step.Pres AF (Engine.disallowFutureUse o) := by
  unfold Engine.disallowFutureUse; qpres
af_leaf PresA.disallowFutureUse
theorem PresA.didSetVarWhileNotStabilising (v) : Step.Pres AF (Engine.didSetVarWhileNotStabilising v) := by
  unfold Engine.didSetVarWhileNotStabilising; qpres
af_leaf PresA.didSetVarWhileNotStabilising
theorem PresA.writeVar (v f b) : Step.Pres AF (Engine.writeVar v f b) := by
  unfold Engine.writeVar; qpres
af_leaf PresA.writeVar

/-- the API actions of the fragment that create no node (all but `create`, `stabilise`) -/
def PAct : Action → Prop
  | .observe _ | .cloneObs _ | .dropObs _ | .disallow _ => True
  | .set _ _ | .modify _ _ | .update _ _ | .replace _ _ | .replaceWith _ _ | .get _ => True
  | .isStable | .stats => True
  | _ => False

theorem PresA.stepAction (env : Env) (a : Action) (tk : Array Nat) (h : PAct a) :
    Step.Pres AF (Engine.stepAction env a tk) := by
  unfold Engine.stepAction
  cases a <;> first | exact False.elim h | (dsimp only; qpres; done)

/-! ## field access -/

namespace AF
variable {s s' : State}

theorem kind (F : AF s s') (m : Nat) : (s'.nodeD m).kind = (s.nodeD m).kind := by
  have := F.node m; simp only [aKey, Prod.mk.injEq] at this; exact this.1
theorem createdIn (F : AF s s') (m : Nat) : (s'.nodeD m).createdIn = (s.nodeD m).createdIn := by
  have := F.node m; simp only [aKey, Prod.mk.injEq] at this; exact this.2.1
theorem cutoff (F : AF s s') (m : Nat) : (s'.nodeD m).cutoff = (s.nodeD m).cutoff := by
  have := F.node m; simp only [aKey, Prod.mk.injEq] at this; exact this.2.2.1
theorem value (F : AF s s') (m : Nat) : (s'.nodeD m).value = (s.nodeD m).value := by
  have := F.node m; simp only [aKey, Prod.mk.injEq] at this; exact this.2.2.2.1
theorem valid (F : AF s s') (m : Nat) : (s'.nodeD m).valid = (s.nodeD m).valid := by
  have := F.node m; simp only [aKey, Prod.mk.injEq] at this; exact this.2.2.2.2.1
theorem recomputedAt (F : AF s s') (m : Nat) : (s'.nodeD m).recomputedAt = (s.nodeD m).recomputedAt := by
  have := F.node m; simp only [aKey, Prod.mk.injEq] at this; exact this.2.2.2.2.2.1
theorem changedAt (F : AF s s') (m : Nat) : (s'.nodeD m).changedAt = (s.nodeD m).changedAt := by
  have := F.node m; simp only [aKey, Prod.mk.injEq] at this; exact this.2.2.2.2.2.2.1
theorem forceNecessary (F : AF s s') (m : Nat) : (s'.nodeD m).forceNecessary = (s.nodeD m).forceNecessary := by
  have := F.node m; simp only [aKey, Prod.mk.injEq] at this; exact this.2.2.2.2.2.2.2.1
theorem heightInAhh (F : AF s s') (m : Nat) : (s'.nodeD m).heightInAhh = (s.nodeD m).heightInAhh := by
  have := F.node m; simp only [aKey, Prod.mk.injEq] at this; exact this.2.2.2.2.2.2.2.2.1
theorem observers (F : AF s s') (m : Nat) : (s'.nodeD m).observers = (s.nodeD m).observers := by
  have := F.node m; simp only [aKey, Prod.mk.injEq] at this; exact this.2.2.2.2.2.2.2.2.2
theorem experts (F : AF s s') : s'.experts = s.experts := by
  have := F.key; simp only [asKey, Prod.mk.injEq] at this; exact this.1
theorem perkeys (F : AF s s') : s'.perkeys = s.perkeys := by
  have := F.key; simp only [asKey, Prod.mk.injEq] at this; exact this.2.1
theorem top (F : AF s s') : s'.top = s.top := by
  have := F.key; simp only [asKey, Prod.mk.injEq] at this; exact this.2.2.1
theorem currentScope (F : AF s s') : s'.currentScope = s.currentScope := by
  have := F.key; simp only [asKey, Prod.mk.injEq] at this; exact this.2.2.2.1
theorem panicCountdown (F : AF s s') : s'.panicCountdown = s.panicCountdown := by
  have := F.key; simp only [asKey, Prod.mk.injEq] at this; exact this.2.2.2.2.1
theorem nextDep (F : AF s s') : s'.nextDep = s.nextDep := by
  have := F.key; simp only [asKey, Prod.mk.injEq] at this; exact this.2.2.2.2.2.1
theorem ahh (F : AF s s') : s'.ahh = s.ahh := by
  have := F.key; simp only [asKey, Prod.mk.injEq] at this; exact this.2.2.2.2.2.2.1
theorem stabNum (F : AF s s') : s'.stabNum = s.stabNum := by
  have := F.key; simp only [asKey, Prod.mk.injEq] at this; exact this.2.2.2.2.2.2.2.1

end AF

end IncrVerif.Proofs.PerKeyH
