import IncrVerif.Proofs.NestH14
/-!
# Nested binds (F2), unlinking side, part 3: the unlinking cascade keeps `GInv2`

Port of `BindH56` (`CU3.lean`: `BUSpec`/`CUSpec`/`RCSpec`, `cu_step`, `rc_step`, `bu_step`, `unlink_spec`) to nested binds.  "Lowest open
node" is measured by the ghost rank `rk`; since a child always has a smaller rank than its parent (`N2.kidLt`) — also the right-hand
side (a node of scope `b2`) of the main node of an inner bind `b2`, and the inner change detector `lc2` — the cascade runs INTO inner
scopes without any new case: the recursion is on the fuel, the order argument only needs `kid_rk`.  The scope height rule survives
`setHeight n (-1)` on a change detector because the remaining closed necessary nodes have heights `≥ 0` (`hpos`).
-/
namespace IncrVerif.Proofs.NestH
open IncrVerif.Engine IncrVerif.Proofs IncrVerif.Proofs.Step IncrVerif.Proofs.Sched IncrVerif.Proofs.Quiet
open IncrVerif.Proofs.BindH

namespace NU

theorem children_eq_of2 {env : Env} {rk : Nat → Nat} {s t : State} {dy : List Nat} {n : Nat} (A : All2 env rk s dy)
    (hnl : n < s.nodes.size) (hn : t.nodeD n = s.nodeD n) (hb : t.binds = s.binds) :
    t.children n = s.children n :=
  children_congr_B (by rw [hn]) (by rw [hn]) hb (A.node n hnl).kind

section
variable {env : Env} {rk : Nat → Nat} {s s' : State} {op : Nat → Op} {ex : Nat → Prop} {dy : List Nat}

/-- the invariant only reads the fields of `SameG`, and the bind table -/
theorem _root_.IncrVerif.Proofs.NestH.GInv2.congr (I : GInv2 env rk s op ex dy) (hB : SameB s s') : GInv2 env rk s' op ex dy := by
  have h := hB.g
  have hb := hB.binds
  have E := BL.KeyEq.of_same hB
  have hch : ∀ m, s'.children m = s.children m := KeyEq2.children2 E I.frag
  have hst : ∀ m, s'.isStale m = s.isStale m := KeyEq2.isStale2 E I.frag
  refine { frag := KeyEq2.frag2 E I.frag (by rw [h.pc]; exact I.frag.pc) (by rw [h.scope]; exact I.frag.scope),
           par := ?_, conv := ?_, nodup := ?_, hlt := ?_, hpos := ?_, lnec := ?_, unec := ?_,
           heap := I.heap.congr h.rch h.size (fun m => (h.node m).heightInRch), hgt := ?_, qnec := ?_,
           queued := ?_, qstale := ?_, opLt := ?_, scopeH := ?_, inv := ?_, scopeObs := ?_, lcObs := ?_ }
  · intro c p i hm
    rw [(h.node c).parents] at hm
    rw [hch, h.wants]
    exact I.par c p i hm
  · intro p i c hk hw
    rw [hch] at hk
    rw [h.wants] at hw
    rw [(h.node c).parents]
    exact I.conv p i c hk hw
  · intro c; rw [(h.node c).parents]; exact I.nodup c
  · intro c p i hm ho
    rw [(h.node c).parents] at hm
    rw [(h.node c).height, (h.node p).height]
    exact I.hlt c p i hm ho
  · intro n hn ho
    rw [h.nec] at hn
    rw [(h.node n).height]; exact I.hpos n hn ho
  · intro p k ho; rw [h.nec]; exact I.lnec p k ho
  · intro p k ho; rw [h.nec]; exact I.unec p k ho
  · intro m hq ho
    rw [h.inRch] at hq
    rw [(h.node m).heightInRch, (h.node m).height]; exact I.hgt m hq ho
  · intro m hq
    rw [h.inRch] at hq
    rw [h.nec]; exact I.qnec m hq
  · intro m ho hn hs hex
    rw [h.nec] at hn
    rw [hst] at hs
    rw [h.inRch]; exact I.queued m ho hn hs hex
  · intro m hq
    rw [h.inRch] at hq
    rw [hst]; exact I.qstale m hq
  · intro m ho; rw [h.size]; exact I.opLt m ho
  · intro m b br hv hsc hbb hm ho
    rw [(h.node m).valid] at hv
    rw [(h.node m).createdIn] at hsc
    rw [hb] at hbb
    rw [h.nec] at hm
    rw [(h.node m).height, (h.node _).height]
    exact I.scopeH m b br hv hsc hbb hm ho
  · intro m hv
    rw [(h.node m).valid] at hv
    obtain ⟨h1, h2, h3, h4, h5⟩ := I.inv m hv
    exact ⟨by rw [(h.node m).parents]; exact h1, by rw [(h.node m).observers]; exact h2,
      by rw [(h.node m).forceNecessary]; exact h3, by rw [h.inRch]; exact h4, h5⟩
  · intro m b hsc
    rw [(h.node m).createdIn] at hsc
    rw [(h.node m).observers]; exact I.scopeObs m b hsc
  · intro m b hk
    rw [(h.node m).kind] at hk
    rw [(h.node m).observers]; exact I.lcObs m b hk

/-- a negative height of an open node whose parents are all open is not constrained (negative: if the node is a
change detector, the closed necessary nodes of its scope stay above it) -/
theorem setHeight_open {n : Nat} {h : Int} (I : GInv2 env rk s op ex dy) (U : NodeUpd n (fHeight h) s s')
    (hb : s'.binds = s.binds) (hneg : h < 0)
    (hop : op n ≠ .closed) (hpar : ∀ p i, (p, i) ∈ (s.nodeD n).parents → op p ≠ .closed) :
    GInv2 env rk s' op ex dy := by
  have K := keeps_fHeight h
  have E := BL.KeyEq.of_upd U K hb
  have hpa : ∀ m, (s'.nodeD m).parents = (s.nodeD m).parents := fun m => by
    by_cases e : m = n
    · rw [e]; exact U.parents_self
    · exact U.parents_other e
  have hob : ∀ m, (s'.nodeD m).observers = (s.nodeD m).observers := fun m => by
    by_cases e : m = n
    · rw [e]; exact U.observers_self
    · exact U.observers_other e
  have hnec : ∀ m, s'.isNecessary m = s.isNecessary m := fun m => by
    by_cases e : m = n
    · rw [e]
      simp only [State.isNecessary, Node.isNecessary, U.self.parents, U.self.observers, U.self.forceNecessary]
      rfl
    · exact U.nec_other e
  have hw : ∀ q i, Wants s' op q i ↔ Wants s op q i := fun q i => by unfold Wants; rw [hnec]
  have hcn : ∀ m, op m = .closed → m ≠ n := fun m ho e => hop (e ▸ ho)
  have hch : ∀ m, s'.children m = s.children m := KeyEq2.children2 E I.frag
  have hst : ∀ m, s'.isStale m = s.isStale m := KeyEq2.isStale2 E I.frag
  refine { frag := KeyEq2.frag2 E I.frag (by rw [U.pc]; exact I.frag.pc) (by rw [U.scope]; exact I.frag.scope),
           par := ?_, conv := ?_, nodup := ?_, hlt := ?_, hpos := ?_,
           lnec := ?_, unec := ?_, heap := U.heap K I.heap, hgt := ?_, qnec := ?_, queued := ?_,
           qstale := ?_, opLt := ?_, scopeH := ?_, inv := ?_, scopeObs := ?_, lcObs := ?_ }
  · intro c q i hm
    rw [hpa] at hm
    rw [hch, hw]; exact I.par c q i hm
  · intro q i c hk hw'
    rw [hch] at hk
    rw [hw] at hw'
    rw [hpa]; exact I.conv q i c hk hw'
  · intro m; rw [hpa]; exact I.nodup m
  · intro c q i hm ho
    rw [hpa] at hm
    have h1 : c ≠ n := by intro e; rw [e] at hm; exact hpar q i hm ho
    rw [U.height_other h1, U.height_other (hcn q ho)]
    exact I.hlt c q i hm ho
  · intro m hn ho
    rw [hnec] at hn
    rw [U.height_other (hcn m ho)]; exact I.hpos m hn ho
  · intro q k ho
    rw [hnec]; exact I.lnec q k ho
  · intro q k ho
    rw [hnec]; exact I.unec q k ho
  · intro m hq ho
    rw [U.inRch K] at hq
    rw [U.heightInRch K, U.height_other (hcn m ho)]; exact I.hgt m hq ho
  · intro m hq
    rw [U.inRch K] at hq
    rw [hnec]; exact I.qnec m hq
  · intro m ho hn hs hex
    rw [hnec] at hn
    rw [hst] at hs
    rw [U.inRch K]; exact I.queued m ho hn hs hex
  · intro m hq
    rw [U.inRch K] at hq
    rw [hst]; exact I.qstale m hq
  · intro m ho
    rw [U.size]; exact I.opLt m ho
  · -- scopeH
    intro m b br hv hsc hbb hm ho
    rw [U.valid K] at hv
    rw [U.createdIn K] at hsc
    rw [hb] at hbb
    rw [hnec] at hm
    rw [U.height_other (hcn m ho)]
    by_cases e : br.lhsChange = n
    · rw [e, U.height_self]
      have := I.hpos m hm ho
      show h < _
      omega
    · rw [U.height_other e]
      exact I.scopeH m b br hv hsc hbb hm ho
  · intro m hv
    rw [U.valid K] at hv
    obtain ⟨h1, h2, h3, h4, h5⟩ := I.inv m hv
    exact ⟨by rw [hpa]; exact h1, by rw [hob]; exact h2, by rw [U.forceNecessary K]; exact h3,
      by rw [U.inRch K]; exact h4, h5⟩
  · intro m b hsc
    rw [U.createdIn K] at hsc
    rw [hob]; exact I.scopeObs m b hsc
  · intro m b hk
    rw [U.kind K] at hk
    rw [hob]; exact I.lcObs m b hk

end

/-! ## the mutual induction -/

def BUSpec (fuel : Nat) : Prop :=
  ∀ env (rk : Nat → Nat) n s s' op ex dy, (becameUnnecessary fuel n).run.run s = (.ok (), s') → GInv2 env rk s op ex dy →
    op n = .unlinking 0 → (∀ m, op m ≠ .closed → rk n ≤ rk m) →
    GInv2 env rk s' (upd op n .closed) ex dy ∧ AboveR2 rk s n s' ∧ URel s s'

def CUSpec (fuel : Nat) : Prop :=
  ∀ env (rk : Nat → Nat) c s s' op ex dy, (checkIfUnnecessary fuel c).run.run s = (.ok (), s') → GInv2 env rk s op ex dy →
    (∀ m, op m ≠ .closed → rk c ≤ rk m) →
    ((s.isNecessary c = true ∧ op c = .closed) ∨ (s.isNecessary c = false ∧ op c = .unlinking 0)) →
    GInv2 env rk s' (upd op c .closed) ex dy ∧ AboveR2 rk s c s' ∧ URel s s'

def RCSpec (fuel : Nat) : Prop :=
  ∀ env (rk : Nat → Nat) n s s' op ex dy, (removeChildren fuel n).run.run s = (.ok (), s') → GInv2 env rk s op ex dy →
    op n = .unlinking 0 → (∀ m, op m ≠ .closed → rk n ≤ rk m) →
    GInv2 env rk s' (upd op n (.unlinking (s.children n).length)) ex dy ∧
      (∀ m, rk n ≤ rk m → s'.nodeD m = s.nodeD m) ∧ URel s s'

theorem cu_step (fuel : Nat) (ih : BUSpec fuel) : CUSpec (fuel + 1) := by
  intro env rk c s s' op ex dy h I hlow hcase
  unfold checkIfUnnecessary at h
  rw [run_bind_get] at h
  rcases hcase with ⟨hn, hcl⟩ | ⟨hn, hop⟩
  · rw [hn] at h
    simp only [Bool.not_true, Bool.false_eq_true, if_false] at h
    obtain ⟨-, rfl⟩ := pure_ok_inv h
    rw [upd_eq_self _ _ _ hcl]
    exact ⟨I, aboveR2_refl _ _ _, URel.refl _⟩
  · rw [hn] at h
    simp only [Bool.not_false, if_true] at h
    exact ih env rk c s s' op ex dy h I hop hlow

theorem rc_step (fuel : Nat) (ih : CUSpec fuel) : RCSpec (fuel + 1) := by
  intro env rk n s s' op ex dy h I hop hlow
  have hn : n < s.nodes.size := I.opLt n (by rw [hop]; exact fun e => by cases e)
  unfold removeChildren at h
  rw [run_bind_get] at h
  obtain ⟨b, s3, h3, h⟩ := bind_ok_inv h
  obtain ⟨-, e3⟩ := pure_ok_inv h
  rw [e3]
  have hloop := forIn_ok_inv _ (s.children n)
    (fun j (b : Nat) t => b = j ∧ GInv2 env rk t (upd op n (.unlinking j)) ex dy ∧
      (∀ m, rk n ≤ rk m → t.nodeD m = s.nodeD m) ∧ URel s t)
    (by
      intro j c b t r t' hj ⟨hb, It, hsame, hrel⟩ hbody
      obtain ⟨_, t1, ha, hbody⟩ := bind_ok_inv hbody
      obtain ⟨_, t2, hc, hbody⟩ := bind_ok_inv hbody
      obtain ⟨hr, ht'⟩ := pure_ok_inv hbody
      rw [ht']
      refine ⟨_, hr, ?_⟩
      have hkj : (t.children n)[j]? = some c := by
        rw [children_eq_of2 I.frag hn (hsame n (Nat.le_refl _)) (BU.cframe_binds hrel.fr)]; exact hj
      have hcn : rk c < rk n := It.kid_rk hkj
      have hne : c ≠ n := It.kid_ne hkj
      have hct : c < t.nodes.size := It.kid_in hkj
      have hopc : op c = .closed := by
        cases e : op c with
        | closed => rfl
        | linking k => have := hlow c (by rw [e]; exact fun e => by cases e); omega
        | unlinking k => have := hlow c (by rw [e]; exact fun e => by cases e); omega
      have hclc : upd op n (.unlinking j) c = .closed := by
        rw [upd_other _ _ _ hne]; exact hopc
      obtain ⟨nd, pi, hnd, hidx, e1⟩ := removeParent_ok_inv ha
      rw [hb] at hidx
      have hndD : t.nodeD c = nd := nodeD_of_some hnd
      rw [← hndD] at hidx
      have U : NodeUpd c (fParents (swapRemove (t.nodeD c).parents pi)) t t1 := by
        rw [e1]; exact NodeUpd.modify' hct rfl
      have hb1 : t1.binds = t.binds := by rw [e1]
      obtain ⟨Hnec, Hun⟩ := It.removeEdge hidx U hb1 (upd_self _ _ _) hkj hclc
      have hoth1 : ∀ m, m ≠ c → t1.nodeD m = t.nodeD m := by
        intro m hm
        rw [e1, nodeD_modify, if_neg (fun e => hm e.1.symm)]
      have hu1 : URel t t1 := by
        refine ⟨?_, ?_, ?_⟩
        · rw [e1]; exact CFrame.modNode t c _ (fun _ => rfl)
        · rw [e1]
        · intro m x hx
          by_cases e : m = c
          · rw [e] at hx ⊢
            rw [U.self.parents] at hx
            exact ((U4.swapRemove_spec _ _ _ (It.nodup c) hidx).1 x).1 hx |>.1
          · rw [(U.other m e).parents] at hx; exact hx
      have hlow' : ∀ (o : Nat → Op), (∀ m, m ≠ c → m ≠ n → o m = op m) →
          ∀ m, o m ≠ .closed → rk c ≤ rk m := by
        intro o ho m hm
        by_cases e1 : m = c
        · rw [e1]; exact Nat.le_refl _
        · by_cases e2 : m = n
          · rw [e2]; omega
          · rw [ho m e1 e2] at hm; have := hlow m hm; omega
      rw [upd_upd] at Hnec Hun
      have fin : ∀ (o : Nat → Op), GInv2 env rk t2 (upd o c .closed) ex dy → AboveR2 rk t1 c t2 → URel t1 t2 →
          upd o c .closed = upd op n (.unlinking (j + 1)) →
          (b + 1 = j + 1 ∧ GInv2 env rk t2 (upd op n (.unlinking (j + 1))) ex dy ∧
            (∀ m, rk n ≤ rk m → t2.nodeD m = s.nodeD m) ∧ URel s t2) := by
        intro o I2 hab2 hu2 eo
        rw [eo] at I2
        refine ⟨by rw [hb], I2, fun m hm => ?_, (hrel.trans hu1).trans hu2⟩
        have hcm : rk c < rk m := by omega
        have hmc : m ≠ c := fun e => by rw [e] at hcm; exact Nat.lt_irrefl _ hcm
        exact ((hab2 m hcm).trans (hoth1 m hmc)).trans (hsame m hm)
      cases hnc : t1.isNecessary c with
      | true =>
        have I1 := Hnec hnc
        obtain ⟨I2, hab2, hu2⟩ := ih env rk c t1 t2 _ ex dy hc I1
          (hlow' _ (fun m _ e2 => upd_other _ _ _ e2))
          (Or.inl ⟨hnc, by rw [upd_other _ _ _ hne]; exact hopc⟩)
        exact fin _ I2 hab2 hu2 (upd_eq_self _ c .closed (by rw [upd_other _ _ _ hne]; exact hopc))
      | false =>
        have I1 := Hun hnc
        obtain ⟨I2, hab2, hu2⟩ := ih env rk c t1 t2 _ ex dy hc I1
          (hlow' _ (fun m e1 e2 => by rw [upd_other _ _ _ e1, upd_other _ _ _ e2]))
          (Or.inr ⟨hnc, upd_self _ _ _⟩)
        exact fin _ I2 hab2 hu2
          (by rw [upd_upd, upd_eq_self _ c .closed (by rw [upd_other _ _ _ hne]; exact hopc)]))
    (s.children n) 0 0 s b s3 (by simp) (Nat.zero_le _)
    ⟨rfl, by rw [upd_eq_self _ _ _ hop]; exact I, fun _ _ => rfl, URel.refl _⟩ h3
  obtain ⟨-, I3, hsame3, hrel3⟩ := hloop
  exact ⟨I3, hsame3, hrel3⟩

theorem bu_step (fuel : Nat) (ih : RCSpec fuel) : BUSpec (fuel + 1) := by
  intro env rk n s s' op ex dy h I hop hlow
  have hn : n < s.nodes.size := I.opLt n (by rw [hop]; exact fun e => by cases e)
  unfold becameUnnecessary at h
  obtain ⟨s0, hs0, h⟩ := bind_modify_inv h
  obtain ⟨_, s1, h1, h⟩ := bind_ok_inv h
  obtain ⟨_, s2, h2, h⟩ := bind_ok_inv h
  obtain ⟨_, s3, h3, h⟩ := bind_ok_inv h
  obtain ⟨nd3, hnd3, h⟩ := bind_getNode_inv h
  have R0 : Irrel n s s0 := by rw [hs0]; exact Irrel.of_nodes rfl rfl rfl rfl rfl
  have R1 : Irrel n s s1 := R0.trans (Irrel.mhas h1)
  have hoth1 : ∀ m, m ≠ n → s1.nodeD m = s.nodeD m := by
    intro m hm
    have e0 : s0.nodeD m = s.nodeD m := by rw [hs0]; rfl
    rw [CU.mhas_other h1 m hm, e0]
  have I1 : GInv2 env rk s1 op ex dy := GInv2.congr I ⟨R1.same, BU.cframe_binds (R1.rel (fun _ => False)).fr⟩
  have hn1 : n < s1.nodes.size := by rw [R1.same.size]; exact hn
  have hnopar : (s1.nodeD n).parents = [] := parents_nil_of_not_nec (I1.unec n 0 hop)
  obtain ⟨U2, -, hl2, hh2, hoth2⟩ := setHeight_ok_upd hn1 h2
  have hopn : op n ≠ .closed := by rw [hop]; exact fun e => by cases e
  have I2 : GInv2 env rk s2 op ex dy :=
    setHeight_open I1 U2 (BU.cframe_binds hl2.fr) (by decide) hopn
      (by intro p i hp; rw [hnopar] at hp; cases hp)
  have hu1 : URel s s1 := R1.urel
  have hu2 : URel s1 s2 := ⟨hl2.fr, hl2.pinv, fun m x hx => by
    by_cases e : m = n
    · rw [e, U2.self.parents] at hx; rw [e]; exact hx
    · rw [(U2.other m e).parents] at hx; exact hx⟩
  obtain ⟨I3, hsame3, hu3⟩ := ih env rk n s2 s3 op ex dy h3 I2 hop hlow
  have hn2 : n < s2.nodes.size := by rw [U2.size]; exact hn1
  have hn3 : n < s3.nodes.size := by rw [hu3.fr.size]; exact hn2
  have hnd3D : s3.nodeD n = nd3 := nodeD_of_some hnd3
  have hch3 : s3.children n = s2.children n :=
    children_eq_of2 I2.frag hn2 (hsame3 n (Nat.le_refl _)) (BU.cframe_binds hu3.fr)
  rw [← hch3] at I3
  have hU : URel s s3 := (hu1.trans hu2).trans hu3
  -- the node is not an expert node
  have hvalid3 : (s3.nodeD n).valid = true :=
    I3.valid_of_open (by rw [upd_self]; exact Op.unlinking_ne_closed _)
  have hq : nd3.kind? = some (s3.nodeD n).kind := by
    rw [← hnd3D, Node.kind?, hvalid3]; rfl
  have hA : AboveR2 rk s n s3 := by
    intro m hm
    have hmn : m ≠ n := fun e => by rw [e] at hm; exact Nat.lt_irrefl _ hm
    rw [hsame3 m (by omega), hoth2 m hmn, hoth1 m hmn]
  have fin : ∀ t', (do
        let s ← get
        dassert (!s.needsToBeComputed n) "node:became_unnecessary:not-needs-to-be-computed"
        if (s.nodeD n).inRch = true then rchRemove n else pure ()).run.run s3 = (.ok (), t') →
      GInv2 env rk t' (upd op n .closed) ex dy ∧ AboveR2 rk s n t' ∧ URel s t' := by
    intro t' ht
    rw [run_bind_get] at ht
    replace ht := bind_dassert_inv ht
    cases hin : (s3.nodeD n).inRch with
    | false =>
      rw [hin] at ht
      simp only [Bool.false_eq_true, if_false] at ht
      obtain ⟨-, e⟩ := pure_ok_inv ht
      rw [e]
      have I4 := I3.close_unlink (upd_self _ _ _) (Nat.le_refl _) hin
      rw [upd_upd] at I4
      exact ⟨I4, hA, hU⟩
    | true =>
      rw [hin] at ht
      simp only [if_true] at ht
      obtain ⟨I4, hin4⟩ := I3.rchRemove_open (upd_self _ _ _) ht
      obtain ⟨nd, q, idx, hnd, -, -, -, e4⟩ := rchRemove_ok_inv ht
      have hnode4 : ∀ m, (t'.nodeD m).kind = (s3.nodeD m).kind ∧ (t'.nodeD m).valid = (s3.nodeD m).valid := by
        intro m; rw [e4, removedAt_nodeD]; split <;> exact ⟨rfl, rfl⟩
      have hch4 : t'.children n = s3.children n :=
        children_congr_B (hnode4 n).1 (hnode4 n).2 (by rw [e4]; rfl) (I3.node hn3).kind
      have I5 := I4.close_unlink (upd_self _ _ _) (by rw [hch4]; exact Nat.le_refl _) hin4
      rw [upd_upd] at I5
      refine ⟨I5, hA.trans (aboveR2_of_other ?_),
        hU.trans ⟨(PresF.rchRemove n).h _ _ _ ht, by rw [e4]; rfl, ?_⟩⟩
      · intro m hm; rw [e4, removedAt_nodeD, if_neg (fun e => hm e.1.symm)]
      · intro m x hx; rw [e4, removedAt_nodeD] at hx; split at hx
        · exact hx
        · exact hx
  rw [hq] at h
  have hsk := (I3.node hn3).kind
  cases hkd : (s3.nodeD n).kind <;> rw [hkd] at h hsk <;>
    first | exact fin s' h | exact False.elim hsk

theorem unlink_spec (fuel : Nat) : BUSpec fuel ∧ CUSpec fuel ∧ RCSpec fuel := by
  induction fuel with
  | zero =>
    refine ⟨?_, ?_, ?_⟩
    · intro env rk n s s' op ex dy h; unfold becameUnnecessary at h; cases h
    · intro env rk n s s' op ex dy h; unfold checkIfUnnecessary at h; cases h
    · intro env rk n s s' op ex dy h; unfold removeChildren at h; cases h
  | succ fuel ih => exact ⟨bu_step fuel ih.2.2, cu_step fuel ih.1, rc_step fuel ih.2.1⟩

end NU

/-! ## headline statements -/

/-- **The unlinking cascade, fragment F2 (nested binds).** A successful `checkIfUnnecessary c` on a closed node that is still
necessary, or on a node that has just become unnecessary (labelled `.unlinking 0`: all its child edges are still
recorded), which is the open node of lowest RANK, closes `c`: the structural invariant holds with `c` closed, nodes of
higher rank than `c` are untouched, parent lists only shrank. -/
theorem checkIfUnnecessary_spec2 {env : Env} {rk : Nat → Nat} {fuel c : Nat} {s s' : State} {op : Nat → Op} {ex : Nat → Prop}
    {dy : List Nat}
    (h : (checkIfUnnecessary fuel c).run.run s = (.ok (), s')) (I : GInv2 env rk s op ex dy)
    (hlow : ∀ m, op m ≠ .closed → rk c ≤ rk m)
    (hcase : (s.isNecessary c = true ∧ op c = .closed) ∨ (s.isNecessary c = false ∧ op c = .unlinking 0)) :
    GInv2 env rk s' (upd op c .closed) ex dy ∧ AboveR2 rk s c s' ∧ URel s s' :=
  (NU.unlink_spec fuel).2.1 env rk c s s' op ex dy h I hlow hcase

/-- `becameUnnecessary n` on the open node of lowest rank, labelled `.unlinking 0`, closes it -/
theorem becameUnnecessary_spec2 {env : Env} {rk : Nat → Nat} {fuel n : Nat} {s s' : State} {op : Nat → Op} {ex : Nat → Prop}
    {dy : List Nat}
    (h : (becameUnnecessary fuel n).run.run s = (.ok (), s')) (I : GInv2 env rk s op ex dy)
    (hop : op n = .unlinking 0) (hlow : ∀ m, op m ≠ .closed → rk n ≤ rk m) :
    GInv2 env rk s' (upd op n .closed) ex dy ∧ AboveR2 rk s n s' ∧ URel s s' :=
  (NU.unlink_spec fuel).1 env rk n s s' op ex dy h I hop hlow

/-- `removeChildren n` on the open node of lowest rank, labelled `.unlinking 0`: afterwards none of its child edges is
recorded (`.unlinking (children n).length`); `n` itself and the nodes of higher rank are untouched -/
theorem removeChildren_spec2 {env : Env} {rk : Nat → Nat} {fuel n : Nat} {s s' : State} {op : Nat → Op} {ex : Nat → Prop}
    {dy : List Nat}
    (h : (removeChildren fuel n).run.run s = (.ok (), s')) (I : GInv2 env rk s op ex dy)
    (hop : op n = .unlinking 0) (hlow : ∀ m, op m ≠ .closed → rk n ≤ rk m) :
    GInv2 env rk s' (upd op n (.unlinking (s.children n).length)) ex dy ∧
      (∀ m, rk n ≤ rk m → s'.nodeD m = s.nodeD m) ∧ URel s s' :=
  (NU.unlink_spec fuel).2.2 env rk n s s' op ex dy h I hop hlow

end IncrVerif.Proofs.NestH
