import IncrVerif.Proofs.BindH62
/-!
# Binds, fragment F1, the closure run, part 2: the static part `All1` through the two kinds of steps of a closure run

* `all1_reset`: forgetting the list of registered nodes of bind `b` — the registered nodes become the dying generation;
* `all1_push`: `createNode k (.bind b)` for a static kind `k` whose children are older top-level nodes or valid nodes of scope `b` that are not dying.
-/
namespace IncrVerif.Proofs.BindH
open IncrVerif.Engine IncrVerif.Proofs IncrVerif.Proofs.Step IncrVerif.Proofs.Sched IncrVerif.Proofs.Quiet

namespace CN

theorem bkind_of_static {env : Env} {k : Kind} (h : StaticKind env k) : BKind env k := by
  cases k <;> first | exact h | exact h.elim

section old
variable {env : Env} {s s' : State} {dy dy' : List Nat}

/-- the static facts of an old node, through growth -/
theorem n1_old (G : Grow1 s s') (A : All1 env s dy) {n : Nat} (hn : n < s.nodes.size)
    (hdy : ∀ b c, (s.nodeD n).createdIn = .bind b → c ∈ s.children n → (s.nodeD c).createdIn = .bind b →
      (c ∈ dy ↔ n ∈ dy) → (c ∈ dy' ↔ n ∈ dy')) : N1 env s' dy' n := by
  have sn := A.node n hn
  have hch := G.children_old A hn
  have hkid : ∀ c, c ∈ s.children n → s'.nodeD c = s.nodeD c := fun c hc => G.old c (sn.kidsIn c hc)
  refine ⟨by rw [G.old n hn]; exact sn.kind, by rw [G.old n hn]; exact sn.cutoff, ?_, ?_, ?_, ?_, ?_, ?_, ?_⟩
  · intro c hc
    rw [hch] at hc
    have := sn.kidsIn c hc
    have := G.size
    omega
  · intro c hc
    rw [hch] at hc
    rw [hkid c hc]; exact sn.kidsValid c hc
  · intro b hk
    rw [G.old n hn] at hk
    obtain ⟨br, hb, e⟩ := sn.lcRec b hk
    obtain ⟨l, hb'⟩ := G.binds.fwd hb
    exact ⟨_, hb', e⟩
  · intro b lc hk
    rw [G.old n hn] at hk
    obtain ⟨br, hb, e1, e2⟩ := sn.mainRec b lc hk
    obtain ⟨l, hb'⟩ := G.binds.fwd hb
    exact ⟨_, hb', e1, e2⟩
  · intro c b hc hk
    rw [hch] at hc
    rw [hkid c hc] at hk
    rw [G.old n hn]
    exact sn.lcChild c b hc hk
  · intro h
    rw [G.old n hn] at h ⊢
    obtain ⟨h1, h2⟩ := sn.top h
    refine ⟨h1, ?_⟩
    intro c hc
    rw [hch] at hc
    rw [hkid c hc]
    exact h2 c hc
  · intro b h
    rw [G.old n hn] at h ⊢
    obtain ⟨h1, h2, br, h3, h4, h5⟩ := sn.inScope b h
    obtain ⟨l, hb'⟩ := G.binds.fwd h3
    refine ⟨h1, h2, _, hb', h4, ?_⟩
    intro c hc
    rw [hch] at hc
    rw [hkid c hc]
    rcases h5 c hc with h6 | ⟨h6, h7, h8⟩
    · exact Or.inl h6
    · exact Or.inr ⟨h6, h7, hdy b c h hc h6 h8⟩

/-- the two nodes of the bind records, through growth -/
theorem recs_old (G : Grow1 s s') (A : All1 env s dy) (b : Nat) (br' : BindRec) (hb : s'.binds[b]? = some br') :
    br'.main = br'.lhsChange + 1 ∧ br'.main < s'.nodes.size ∧ (s'.nodeD br'.lhsChange).kind = .bindLhsChange b ∧
      (s'.nodeD br'.main).kind = .bindMain b br'.lhsChange ∧ (s'.nodeD br'.lhsChange).createdIn = .top ∧
      (s'.nodeD br'.main).createdIn = .top := by
  obtain ⟨br, hb0, -, -, e1, e2, -⟩ := G.binds.bwd' hb
  obtain ⟨h1, h2, h3, h4, h5, h6⟩ := A.recs b br hb0
  rw [e1, e2, G.old br.main h2, G.old br.lhsChange (by omega)]
  have := G.size
  exact ⟨h1, by omega, h3, h4, h5, h6⟩

end old

/-! ## forgetting the list of registered nodes -/

section reset
variable {env : Env} {s s' : State}

/-- **the reset**: the registered nodes of bind `b` become the dying generation -/
theorem all1_reset (A : All1 env s []) {b : Nat} {br : BindRec} (hb : s.binds[b]? = some br)
    (G : Grow1 s s') (hsz : s'.nodes.size = s.nodes.size)
    (hbs : s'.binds = s.binds.modify b fun x => { x with allNodesCreatedOnRhs := [] })
    (hpc : s'.panicCountdown = none) (hsc : s'.currentScope = .top) :
    All1 env s' br.allNodesCreatedOnRhs := by
  have hD : ∀ m, s'.nodeD m = s.nodeD m := by
    intro m
    rcases Nat.lt_or_ge m s.nodes.size with h | h
    · exact G.old m h
    · rw [nodeD_default s m h, nodeD_default s' m (by omega)]
  -- membership in the list of bind `b`
  have hmem : ∀ m, m ∈ br.allNodesCreatedOnRhs ↔
      (m < s.nodes.size ∧ (s.nodeD m).valid = true ∧ (s.nodeD m).createdIn = .bind b) := by
    intro m
    rw [← A.gen b br hb m]
    constructor
    · exact Or.inl
    · rintro (h | ⟨h, -⟩)
      · exact h
      · cases h
  have hbb : s'.binds[b]? = some { br with allNodesCreatedOnRhs := [] } := by
    rw [hbs, Array.getElem?_modify, if_pos rfl, hb]; rfl
  have hbo : ∀ b', b' ≠ b → s'.binds[b']? = s.binds[b']? := by
    intro b' hne
    rw [hbs, Array.getElem?_modify, if_neg (fun e => hne e.symm)]
  refine ⟨hpc, hsc, ?_, recs_old G A, ?_, ?_, ?_⟩
  · intro n hn
    rw [hsz] at hn
    apply n1_old G A hn
    intro b' c hnb hc hcb _
    have sn := A.node n hn
    have hnv : (s.nodeD n).valid = true := by
      cases hv : (s.nodeD n).valid with
      | true => rfl
      | false => rw [Inval.children_invalid s n hv] at hc; cases hc
    rw [hmem, hmem]
    constructor
    · rintro ⟨-, -, h⟩
      rw [hcb] at h
      exact ⟨hn, hnv, by rw [hnb]; exact h⟩
    · rintro ⟨-, -, h⟩
      rw [hnb] at h
      exact ⟨sn.kidsIn c hc, sn.kidsValid c hc, by rw [hcb]; exact h⟩
  · intro b' br' hb' m
    rw [hD m, hsz]
    by_cases e : b' = b
    · subst e
      rw [hbb] at hb'
      cases hb'
      constructor
      · rintro (h | ⟨h, -⟩)
        · cases h
        · exact (hmem m).1 h
      · intro h
        exact Or.inr ⟨(hmem m).2 h, h.2.2⟩
    · rw [hbo b' e] at hb'
      rw [← A.gen b' br' hb' m]
      constructor
      · rintro (h | ⟨h1, h2⟩)
        · exact Or.inl h
        · have := ((hmem m).1 h1).2.2
          rw [this] at h2
          injection h2 with h2
          exact absurd h2.symm e
      · rintro (h | ⟨h, -⟩)
        · exact Or.inl h
        · cases h
  · intro b' br' hb' m hm hmd
    by_cases e : b' = b
    · subst e
      rw [hbb] at hb'
      cases hb'
      cases hm
    · rw [hbo b' e] at hb'
      have h1 := ((A.gen b' br' hb' m).1 (Or.inl hm)).2.2
      have h2 := ((hmem m).1 hmd).2.2
      rw [h1] at h2
      injection h2 with h2
      exact e h2
  · intro m hm
    rw [hD m, hsz]
    obtain ⟨h1, -, h2⟩ := (hmem m).1 hm
    exact ⟨h1, b, h2⟩

end reset

/-! ## creating a node in scope `.bind b` -/

/-- `s'` is `s` plus one pristine node of kind `k` created in scope `.bind b` and registered there -/
structure Push (k : Kind) (b : Nat) (s s' : State) : Prop where
  nodes : s'.nodes = s.nodes.push { kind := k, createdIn := .bind b, cutoff := .eq }
  binds : s'.binds = s.binds.modify b fun x =>
    { x with allNodesCreatedOnRhs := x.allNodesCreatedOnRhs ++ [s.nodes.size] }
  vars : s'.vars = s.vars
  rch : s'.rch = s.rch
  ahh : s'.ahh = s.ahh
  pc : s'.panicCountdown = s.panicCountdown
  scope : s'.currentScope = s.currentScope
  stabNum : s'.stabNum = s.stabNum
  status : s'.status = s.status
  cfg : s'.cfg = s.cfg
  top : s'.top = s.top
  pinv : s'.propagateInvalidity = s.propagateInvalidity

namespace Push
variable {env : Env} {k : Kind} {b : Nat} {s s' : State} {dy : List Nat}

theorem size (C : Push k b s s') : s'.nodes.size = s.nodes.size + 1 := by
  rw [C.nodes, Array.size_push]

theorem nodeD_new (C : Push k b s s') :
    s'.nodeD s.nodes.size = { kind := k, createdIn := .bind b, cutoff := .eq } := by
  simp only [State.nodeD, C.nodes, Array.getElem?_push, if_true, Option.getD_some]

theorem nodeD_lt (C : Push k b s s') {m : Nat} (h : m < s.nodes.size) : s'.nodeD m = s.nodeD m := by
  have : m ≠ s.nodes.size := by omega
  simp only [State.nodeD, C.nodes, Array.getElem?_push, if_neg this]

theorem grow1 (C : Push k b s s') : Grow1 s s' where
  size := by rw [C.size]; omega
  old m hm := C.nodeD_lt hm
  new m h1 h2 := by
    rw [C.size] at h2
    have : m = s.nodes.size := by omega
    subst this
    rw [C.nodeD_new]
    exact ⟨rfl, rfl, rfl, rfl, rfl, rfl⟩
  binds := BSame.of_modify b _ C.binds
  vars := C.vars
  rch := C.rch
  ahh := C.ahh

/-- **node creation** in scope `.bind b` keeps the static part of the invariant -/
theorem all1 (C : Push k b s s') (A : All1 env s dy) {br1 : BindRec} (hb : s.binds[b]? = some br1)
    (hk : StaticKind env k) (hnv : ∀ c, k ≠ .var c)
    (hkids : ∀ c, c ∈ kids k → c < s.nodes.size ∧ (s.nodeD c).valid = true ∧
      (∀ b', (s.nodeD c).kind ≠ .bindLhsChange b') ∧
      (((s.nodeD c).createdIn = .top ∧ c < br1.lhsChange) ∨ ((s.nodeD c).createdIn = .bind b ∧ c ∉ dy))) :
    All1 env s' dy := by
  have G := C.grow1
  have hbb : s'.binds[b]? = some { br1 with allNodesCreatedOnRhs := br1.allNodesCreatedOnRhs ++ [s.nodes.size] } := by
    rw [C.binds, Array.getElem?_modify, if_pos rfl, hb]; rfl
  have hbo : ∀ b', b' ≠ b → s'.binds[b']? = s.binds[b']? := by
    intro b' hne
    rw [C.binds, Array.getElem?_modify, if_neg (fun e => hne e.symm)]
  have hmdy : s.nodes.size ∉ dy := fun h => by
    have := (A.dyIn _ h).1
    omega
  have hch : s'.children s.nodes.size = kids k := by
    rw [children_eq_kids (env := env) s' s.nodes.size (by rw [C.nodeD_new]) (by rw [C.nodeD_new]; exact hk),
      C.nodeD_new]
  refine ⟨by rw [C.pc]; exact A.pc, by rw [C.scope]; exact A.scope, ?_, recs_old G A, ?_, ?_, ?_⟩
  · intro n hn
    rw [C.size] at hn
    rcases Nat.lt_or_ge n s.nodes.size with h | h
    · exact n1_old G A h (fun _ _ _ _ _ h => h)
    · have hns : n = s.nodes.size := by omega
      subst hns
      refine ⟨by rw [C.nodeD_new]; exact bkind_of_static hk, by rw [C.nodeD_new]; exact Or.inl rfl,
        ?_, ?_, ?_, ?_, ?_, ?_, ?_⟩
      · intro c hc
        rw [hch] at hc
        have := (hkids c hc).1
        rw [C.size]; omega
      · intro c hc
        rw [hch] at hc
        rw [C.nodeD_lt (hkids c hc).1]; exact (hkids c hc).2.1
      · intro b' hk'
        rw [C.nodeD_new] at hk'
        simp only at hk'
        rw [hk'] at hk; exact hk.elim
      · intro b' lc hk'
        rw [C.nodeD_new] at hk'
        simp only at hk'
        rw [hk'] at hk; exact hk.elim
      · intro c b' hc hk'
        rw [hch] at hc
        rw [C.nodeD_lt (hkids c hc).1] at hk'
        exact absurd hk' ((hkids c hc).2.2.1 b')
      · intro h
        rw [C.nodeD_new] at h
        cases h
      · intro b' h
        rw [C.nodeD_new] at h ⊢
        simp only at h ⊢
        injection h with h
        subst h
        obtain ⟨-, h2, -⟩ := A.recs b br1 hb
        refine ⟨hk, hnv, _, hbb, h2, ?_⟩
        intro c hc
        rw [hch] at hc
        obtain ⟨h3, -, -, h4⟩ := hkids c hc
        rw [C.nodeD_lt h3]
        rcases h4 with h4 | ⟨h4, h5⟩
        · exact Or.inl h4
        · exact Or.inr ⟨h4, h3, ⟨fun h => absurd h h5, fun h => absurd h hmdy⟩⟩
  · intro b' br' hb' m
    rw [C.size]
    by_cases e : b' = b
    · subst e
      rw [hbb] at hb'
      cases hb'
      simp only [List.mem_append, List.mem_singleton]
      rcases Nat.lt_or_ge m s.nodes.size with h | h
      · have e1 : ∀ P : Prop, (m < s.nodes.size + 1 ∧ P) ↔ (m < s.nodes.size ∧ P) :=
          fun P => ⟨fun x => ⟨h, x.2⟩, fun x => ⟨by omega, x.2⟩⟩
        rw [C.nodeD_lt h, e1, ← A.gen b' br1 hb m]
        have : m ≠ s.nodes.size := by omega
        constructor
        · rintro ((h1 | h1) | h1)
          · exact Or.inl h1
          · exact absurd h1 this
          · exact Or.inr h1
        · rintro (h1 | h1)
          · exact Or.inl (Or.inl h1)
          · exact Or.inr h1
      · constructor
        · rintro ((h1 | h1) | ⟨h1, -⟩)
          · have := ((A.gen b' br1 hb m).1 (Or.inl h1)).1
            omega
          · subst h1
            rw [C.nodeD_new]
            exact ⟨by omega, rfl, rfl⟩
          · have := (A.dyIn m h1).1
            omega
        · rintro ⟨h1, -, -⟩
          exact Or.inl (Or.inr (by omega))
    · rw [hbo b' e] at hb'
      rcases Nat.lt_or_ge m s.nodes.size with h | h
      · have e1 : ∀ P : Prop, (m < s.nodes.size + 1 ∧ P) ↔ (m < s.nodes.size ∧ P) :=
          fun P => ⟨fun x => ⟨h, x.2⟩, fun x => ⟨by omega, x.2⟩⟩
        rw [C.nodeD_lt h, e1, ← A.gen b' br' hb' m]
      · constructor
        · rintro (h1 | ⟨h1, -⟩)
          · have := ((A.gen b' br' hb' m).1 (Or.inl h1)).1
            omega
          · have := (A.dyIn m h1).1
            omega
        · rintro ⟨h1, -, h3⟩
          have : m = s.nodes.size := by omega
          subst this
          rw [C.nodeD_new] at h3
          simp only at h3
          injection h3 with h3
          exact absurd h3.symm e
  · intro b' br' hb' m hm
    by_cases e : b' = b
    · subst e
      rw [hbb] at hb'
      cases hb'
      simp only [List.mem_append, List.mem_singleton] at hm
      rcases hm with hm | hm
      · exact A.genDy b' br1 hb m hm
      · rw [hm]; exact hmdy
    · rw [hbo b' e] at hb'
      exact A.genDy b' br' hb' m hm
  · intro m hm
    obtain ⟨h1, h2⟩ := A.dyIn m hm
    rw [C.size, C.nodeD_lt h1]
    exact ⟨by omega, h2⟩

/-- **node creation** in scope `.bind b` keeps the structural invariant -/
theorem ginv1 {ex : Nat → Prop} (C : Push k b s s') (I : GInv1 env s allClosed ex dy) {br1 : BindRec}
    (hb : s.binds[b]? = some br1) (hk : StaticKind env k) (hnv : ∀ c, k ≠ .var c)
    (hkids : ∀ c, c ∈ kids k → c < s.nodes.size ∧ (s.nodeD c).valid = true ∧
      (∀ b', (s.nodeD c).kind ≠ .bindLhsChange b') ∧
      (((s.nodeD c).createdIn = .top ∧ c < br1.lhsChange) ∨ ((s.nodeD c).createdIn = .bind b ∧ c ∉ dy))) :
    GInv1 env s' allClosed ex dy :=
  C.grow1.ginv1 I (C.all1 I.frag hb hk hnv hkids)

end Push

end CN

end IncrVerif.Proofs.BindH
