import IncrVerif.Proofs.NestH15
/-!
# Nested binds (F2), unlinking side, part 4: run forms of the single-edge removal lemmas

Port of `BindH57` (`CU4.lean`).  `removeParent c idx p` as a run, for the two situations: `p` is being unlinked (`GInv2.removeEdge`, used
inside `removeChildren`), and `p` is a closed necessary node that loses its LAST child edge and is opened as `.linking idx`
(`GInv2.dropLastEdge`, the situation of `changeChildBindRhs`: `p` is a bind's main node — possibly the main node of an INNER bind, itself a
node of an outer scope — and `c` its old right-hand side, possibly a node created in the bind's scope; then `rk c < rk p`).
-/
namespace IncrVerif.Proofs.NestH
open IncrVerif.Engine IncrVerif.Proofs IncrVerif.Proofs.Step IncrVerif.Proofs.Sched IncrVerif.Proofs.Quiet
open IncrVerif.Proofs.BindH

/-- what a successful `removeParent c idx p` does, apart from the invariant -/
theorem removeParent_frame2 {env : Env} {rk : Nat → Nat} {c p idx : Nat} {s s' : State} {op : Nat → Op} {ex : Nat → Prop}
    {dy : List Nat} {u : Unit}
    (h : (removeParent c idx p).run.run s = (.ok u, s')) (I : GInv2 env rk s op ex dy) (hc : c < s.nodes.size) :
    ∃ pi, (s.nodeD c).parents.idxOf? (p, idx) = some pi ∧
      NodeUpd c (fParents (swapRemove (s.nodeD c).parents pi)) s s' ∧ s'.binds = s.binds ∧
      AboveR2 rk s c s' ∧ URel s s' ∧ (∀ m, m ≠ c → s'.nodeD m = s.nodeD m) := by
  obtain ⟨nd, pi, hnd, hidx, e1⟩ := removeParent_ok_inv h
  have hndD : s.nodeD c = nd := nodeD_of_some hnd
  rw [← hndD] at hidx
  have U : NodeUpd c (fParents (swapRemove (s.nodeD c).parents pi)) s s' := by
    rw [e1]; exact NodeUpd.modify' hc rfl
  have hoth : ∀ m, m ≠ c → s'.nodeD m = s.nodeD m := by
    intro m hm
    rw [e1, nodeD_modify, if_neg (fun e => hm e.1.symm)]
  refine ⟨pi, hidx, U, by rw [e1], NU.aboveR2_of_other hoth, ⟨?_, ?_, ?_⟩, hoth⟩
  · rw [e1]; exact CFrame.modNode s c _ (fun _ => rfl)
  · rw [e1]
  · intro m x hx
    by_cases e : m = c
    · rw [e] at hx ⊢
      rw [U.self.parents] at hx
      exact ((U4.swapRemove_spec _ _ _ (I.nodup c) hidx).1 x).1 hx |>.1
    · rw [(U.other m e).parents] at hx; exact hx

section
variable {env : Env} {rk : Nat → Nat} {s s' : State} {op : Nat → Op} {ex : Nat → Prop} {dy : List Nat}

/-- run form of `GInv2.removeEdge` -/
theorem removeParent_unlinking2 {c p idx : Nat} {u : Unit}
    (h : (removeParent c idx p).run.run s = (.ok u, s')) (I : GInv2 env rk s op ex dy)
    (hop : op p = .unlinking idx) (hk : (s.children p)[idx]? = some c) (hcl : op c = .closed) :
    (s'.isNecessary c = true → GInv2 env rk s' (upd op p (.unlinking (idx + 1))) ex dy) ∧
    (s'.isNecessary c = false →
      GInv2 env rk s' (upd (upd op p (.unlinking (idx + 1))) c (.unlinking 0)) ex dy) ∧
    AboveR2 rk s c s' ∧ URel s s' ∧ (∀ m, m ≠ c → s'.nodeD m = s.nodeD m) := by
  obtain ⟨pi, hidx, U, hb, hab, hu, hoth⟩ := removeParent_frame2 h I (I.kid_in hk)
  obtain ⟨h1, h2⟩ := I.removeEdge hidx U hb hop hk hcl
  exact ⟨h1, h2, hab, hu, hoth⟩

/-- run form of `GInv2.dropLastEdge`: `removeParent c idx p` where `p` is closed and necessary, `c` is its child number
`idx`, the last one.  Afterwards `p` (still necessary) is labelled `.linking idx`; `c` stays closed if it is still
necessary, and is relabelled `.unlinking 0` otherwise. -/
theorem removeParent_dropLast2 {c p idx : Nat} {u : Unit}
    (h : (removeParent c idx p).run.run s = (.ok u, s')) (I : GInv2 env rk s op ex dy)
    (hop : op p = .closed) (hnp : s.isNecessary p = true)
    (hk : (s.children p)[idx]? = some c) (hlen : (s.children p).length = idx + 1) (hcl : op c = .closed) :
    (s'.isNecessary c = true → GInv2 env rk s' (upd op p (.linking idx)) ex dy) ∧
    (s'.isNecessary c = false →
      GInv2 env rk s' (upd (upd op p (.linking idx)) c (.unlinking 0)) ex dy) ∧
    AboveR2 rk s c s' ∧ URel s s' ∧ (∀ m, m ≠ c → s'.nodeD m = s.nodeD m) := by
  obtain ⟨pi, hidx, U, hb, hab, hu, hoth⟩ := removeParent_frame2 h I (I.kid_in hk)
  obtain ⟨h1, h2⟩ := I.dropLastEdge hidx U hb hop hnp hk hlen hcl
  exact ⟨h1, h2, hab, hu, hoth⟩

/-- the case of `changeChildBindRhs`: the child has been forced necessary before its edge is removed, so it stays
necessary and closed -/
theorem removeParent_dropLast_forced2 {c p idx : Nat} {u : Unit}
    (h : (removeParent c idx p).run.run s = (.ok u, s')) (I : GInv2 env rk s op ex dy)
    (hop : op p = .closed) (hnp : s.isNecessary p = true)
    (hk : (s.children p)[idx]? = some c) (hlen : (s.children p).length = idx + 1) (hcl : op c = .closed)
    (hf : (s.nodeD c).forceNecessary = true) :
    GInv2 env rk s' (upd op p (.linking idx)) ex dy ∧ s'.isNecessary c = true ∧
    AboveR2 rk s c s' ∧ URel s s' ∧ (∀ m, m ≠ c → s'.nodeD m = s.nodeD m) := by
  obtain ⟨h1, -, hab, hu, hoth⟩ := removeParent_dropLast2 h I hop hnp hk hlen hcl
  have hnc : s'.isNecessary c = true := by
    rw [isNecessary_iff, hu.fr.forceNecessary]
    exact Or.inr (Or.inr hf)
  exact ⟨h1 hnc, hnc, hab, hu, hoth⟩

end

end IncrVerif.Proofs.NestH
