import IncrVerif.Proofs.NestH19
import IncrVerif.Proofs.NestH11
import IncrVerif.Proofs.NestH12
import IncrVerif.Proofs.NestH16
import IncrVerif.Proofs.NestH18
import IncrVerif.Proofs.BindH70
/-!
# Nested binds (F2), `lhsRelink`, part 1: a transfer lemma for `GInv2`, and the pure steps of `changeChildBindRhs`

Port of `BindH66` (`CR1`, fragment F1, `GInv1`) to fragment F2 (`GInv2 env rk … dy`, ghost rank).  The state functions `BR.stamped`,
`BR.forced`, the frames `BR.MFr`, `BR.KRel` … are reused by import.

`NR.transfer`: the invariant moves from `(s, op)` to `(s', op')` when parents, heights, heap and heap markers agree,
wanted child edges correspond, and staleness of the nodes that matter is kept.  Instances:
`stamp` (the change detector gets a new `changedAt`), `setForce` (the force flag of a VALID node is set / cleared),
`open_full` (a closed necessary node is relabelled `.linking (children).length`), `close_full` (a fully linked node is closed,
queued or not; NEW: it may be a node of a scope — the main node of an INNER bind — then it must be above its scope's change detector).
-/
namespace IncrVerif.Proofs.NestH
open IncrVerif.Engine IncrVerif.Proofs IncrVerif.Proofs.Step IncrVerif.Proofs.Sched IncrVerif.Proofs.Quiet
open IncrVerif.Proofs.BindH

namespace NR

/-- `All2` through a step that keeps the bind table, kinds, validity, cutoffs and scopes -/
theorem all2_of {env : Env} {rk : Nat → Nat} {s s' : State} {dy : List Nat} (A : All2 env rk s dy)
    (hpc : s'.panicCountdown = none) (hsc : s'.currentScope = .top)
    (hsz : s'.nodes.size = s.nodes.size) (hb : s'.binds = s.binds)
    (hkind : ∀ m, (s'.nodeD m).kind = (s.nodeD m).kind)
    (hvalid : ∀ m, (s'.nodeD m).valid = (s.nodeD m).valid)
    (hcut : ∀ m, (s'.nodeD m).cutoff = (s.nodeD m).cutoff)
    (hcr : ∀ m, (s'.nodeD m).createdIn = (s.nodeD m).createdIn) :
    All2 env rk s' dy ∧ ∀ m, s'.children m = s.children m := by
  have hch : ∀ m, s'.children m = s.children m := by
    intro m
    by_cases hm : m < s.nodes.size
    · exact children_congr_B (hkind m) (hvalid m) hb (A.node m hm).kind
    · rw [children_default s m (by omega), children_default s' m (by rw [hsz]; omega)]
  refine ⟨⟨hpc, hsc, fun n hn => ?_, ?_, ?_, ?_, ?_, ?_, ?_, ?_, ?_⟩, hch⟩
  · have sn := A.node n (by rw [← hsz]; exact hn)
    refine ⟨by rw [hkind]; exact sn.kind, by rw [hcut]; exact sn.cutoff, ?_, ?_, ?_, ?_, ?_, ?_, ?_, ?_⟩
    · rw [hch, hsz]; exact sn.kidsIn
    · intro c hc; rw [hch] at hc; rw [hvalid]; exact sn.kidsValid c hc
    · rw [hch]; exact sn.kidLt
    · rw [hkind, hb]; exact sn.lcRec
    · rw [hkind, hb]; exact sn.mainRec
    · intro c b hc hk
      rw [hch] at hc
      rw [hkind] at hk ⊢
      exact sn.lcChild c b hc hk
    · intro h
      rw [hcr] at h
      obtain ⟨h1, h2⟩ := sn.top h
      refine ⟨by rw [hvalid]; exact h1, ?_⟩
      intro c hc
      rw [hch] at hc
      rw [hcr, hkind]
      exact h2 c hc
    · intro b h
      rw [hcr] at h
      obtain ⟨h2, br, h3, h4, h5⟩ := sn.inScope b h
      refine ⟨by rw [hkind]; exact h2, br, by rw [hb]; exact h3, h4, ?_⟩
      intro c hc
      rw [hch] at hc
      rw [hcr, hkind]
      exact h5 c hc
  · intro b br hbb
    rw [hb] at hbb
    rw [hsz, hkind, hkind, hcr, hcr]
    exact A.recs b br hbb
  · intro b br hbb m
    rw [hb] at hbb
    rw [hsz, hvalid, hcr]
    exact A.gen b br hbb m
  · intro b br hbb
    rw [hb] at hbb
    exact A.genDy b br hbb
  · intro m hm
    rw [hsz, hcr]
    exact A.dyIn m hm
  · intro n b br hn hv hsc' hbb
    rw [hsz] at hn; rw [hvalid] at hv; rw [hcr] at hsc'; rw [hb] at hbb
    rw [hvalid, hvalid]
    exact A.scopeValid n b br hn hv hsc' hbb
  · intro b br hbb
    rw [hb] at hbb
    rw [hvalid, hvalid]
    exact A.recValid b br hbb
  · intro n b br hn hsc' hbb
    rw [hsz] at hn; rw [hcr] at hsc'; rw [hb] at hbb
    exact A.scopeRk n b br hn hsc' hbb
  · intro n m hn hm
    rw [hsz] at hn hm
    exact A.rkInj n m hn hm

theorem transfer {env : Env} {rk : Nat → Nat} {s s' : State} {op op' : Nat → Op} {ex : Nat → Prop} {dy : List Nat}
    (I : GInv2 env rk s op ex dy) (hA : All2 env rk s' dy)
    (hsz : s'.nodes.size = s.nodes.size) (hrch : s'.rch = s.rch)
    (hpa : ∀ m, (s'.nodeD m).parents = (s.nodeD m).parents)
    (hht : ∀ m, (s'.nodeD m).height = (s.nodeD m).height)
    (hhr : ∀ m, (s'.nodeD m).heightInRch = (s.nodeD m).heightInRch)
    (hpar : ∀ p i c, (s.children p)[i]? = some c → Wants s op p i →
      (s'.children p)[i]? = some c ∧ Wants s' op' p i)
    (hconv : ∀ p i c, (s'.children p)[i]? = some c → Wants s' op' p i →
      (s.children p)[i]? = some c ∧ Wants s op p i)
    (hnecI : ∀ m, op' m = .closed → op m = .closed → s'.isNecessary m = true → s.isNecessary m = true)
    (hln : ∀ p k, op' p = .linking k → s'.isNecessary p = true)
    (hun : ∀ p k, op' p = .unlinking k → s'.isNecessary p = false)
    (hqn : ∀ m, (s.nodeD m).inRch = true → s'.isNecessary m = true ∨ ∃ k, op' m = .unlinking k)
    (hst1 : ∀ m, op' m = .closed → op m = .closed → ¬ ex m → s'.isStale m = true → s.isStale m = true)
    (hst2 : ∀ m, (s.nodeD m).inRch = true → s'.isStale m = true)
    (hop : ∀ m, op' m ≠ .closed → m < s.nodes.size)
    (hltN : ∀ c p i, (p, i) ∈ (s.nodeD c).parents → op' p = .closed → op p ≠ .closed →
      (s.nodeD c).height < (s.nodeD p).height)
    (hposN : ∀ n, op' n = .closed → op n ≠ .closed → 0 ≤ (s.nodeD n).height)
    (hgtN : ∀ m, (s.nodeD m).inRch = true → op' m = .closed → op m ≠ .closed →
      (s.nodeD m).heightInRch = (s.nodeD m).height)
    (hquN : ∀ m, op' m = .closed → op m ≠ .closed → s'.isNecessary m = true → s'.isStale m = true → ¬ ex m →
      (s.nodeD m).inRch = true)
    -- the new fields
    (hval : ∀ m, (s'.nodeD m).valid = (s.nodeD m).valid)
    (hcr : ∀ m, (s'.nodeD m).createdIn = (s.nodeD m).createdIn)
    (hkd : ∀ m, (s'.nodeD m).kind = (s.nodeD m).kind)
    (hob : ∀ m, (s'.nodeD m).observers = (s.nodeD m).observers)
    (hfo : ∀ m, (s.nodeD m).valid = false → (s'.nodeD m).forceNecessary = false)
    (hopI : ∀ m, (s.nodeD m).valid = false → op' m = .closed)
    (hlc : ∀ (b : Nat) (br' : BindRec), s'.binds[b]? = some br' →
      ∃ br : BindRec, s.binds[b]? = some br ∧ br.lhsChange = br'.lhsChange)
    (hscN : ∀ n b br, op' n = .closed → op n ≠ .closed → (s.nodeD n).createdIn = .bind b → s.binds[b]? = some br →
      (s.nodeD br.lhsChange).height < (s.nodeD n).height) :
    GInv2 env rk s' op' ex dy := by
  have inR : ∀ m, (s'.nodeD m).inRch = (s.nodeD m).inRch := fun m => U4.inRch_of_hir (hhr m)
  refine { frag := hA, par := ?_, conv := ?_, nodup := ?_, hlt := ?_, hpos := ?_, lnec := hln, unec := hun,
           heap := I.heap.congr hrch hsz hhr, hgt := ?_, qnec := ?_, queued := ?_, qstale := ?_, opLt := ?_,
           scopeH := ?_, inv := ?_, scopeObs := ?_, lcObs := ?_ }
  · intro c p i hm
    rw [hpa] at hm
    obtain ⟨h1, h2⟩ := I.par c p i hm
    exact hpar p i c h1 h2
  · intro p i c hk hw
    rw [hpa]
    obtain ⟨h1, h2⟩ := hconv p i c hk hw
    exact I.conv p i c h1 h2
  · intro c; rw [hpa]; exact I.nodup c
  · intro c p i hm ho
    rw [hpa] at hm
    rw [hht, hht]
    by_cases e : op p = .closed
    · exact I.hlt c p i hm e
    · exact hltN c p i hm ho e
  · intro n hn ho
    rw [hht]
    by_cases e : op n = .closed
    · exact I.hpos n (hnecI n ho e hn) e
    · exact hposN n ho e
  · intro m hq ho
    rw [inR] at hq
    rw [hhr, hht]
    by_cases e : op m = .closed
    · exact I.hgt m hq e
    · exact hgtN m hq ho e
  · intro m hq
    rw [inR] at hq
    exact hqn m hq
  · intro m ho hn hs hx
    rw [inR]
    by_cases e : op m = .closed
    · exact I.queued m e (hnecI m ho e hn) (hst1 m ho e hx hs) hx
    · exact hquN m ho e hn hs hx
  · intro m hq
    rw [inR] at hq
    exact hst2 m hq
  · intro m ho
    rw [hsz]; exact hop m ho
  · intro n b br' hv hsc hb hn ho
    rw [hval] at hv
    rw [hcr] at hsc
    obtain ⟨br, hb0, hl⟩ := hlc b br' hb
    rw [hht, hht, ← hl]
    by_cases e : op n = .closed
    · exact I.scopeH n b br hv hsc hb0 (hnecI n ho e hn) e
    · exact hscN n b br ho e hsc hb0
  · intro m hv
    rw [hval] at hv
    obtain ⟨h1, h2, _, h4, _⟩ := I.inv m hv
    exact ⟨by rw [hpa]; exact h1, by rw [hob]; exact h2, hfo m hv, by rw [inR]; exact h4, hopI m hv⟩
  · intro m b h
    rw [hcr] at h
    rw [hob]; exact I.scopeObs m b h
  · intro m b h
    rw [hkd] at h
    rw [hob]; exact I.lcObs m b h

/-- the simple case of `transfer`: same labels, same necessity, same child lists -/
theorem transfer_same {env : Env} {rk : Nat → Nat} {s s' : State} {op : Nat → Op} {ex : Nat → Prop} {dy : List Nat}
    (I : GInv2 env rk s op ex dy) (hA : All2 env rk s' dy)
    (hsz : s'.nodes.size = s.nodes.size) (hrch : s'.rch = s.rch)
    (hpa : ∀ m, (s'.nodeD m).parents = (s.nodeD m).parents)
    (hht : ∀ m, (s'.nodeD m).height = (s.nodeD m).height)
    (hhr : ∀ m, (s'.nodeD m).heightInRch = (s.nodeD m).heightInRch)
    (hnec : ∀ m, s'.isNecessary m = s.isNecessary m)
    (hch : ∀ m, s'.children m = s.children m)
    (hst1 : ∀ m, op m = .closed → ¬ ex m → s'.isStale m = true → s.isStale m = true)
    (hst2 : ∀ m, (s.nodeD m).inRch = true → s'.isStale m = true)
    (hval : ∀ m, (s'.nodeD m).valid = (s.nodeD m).valid)
    (hcr : ∀ m, (s'.nodeD m).createdIn = (s.nodeD m).createdIn)
    (hkd : ∀ m, (s'.nodeD m).kind = (s.nodeD m).kind)
    (hob : ∀ m, (s'.nodeD m).observers = (s.nodeD m).observers)
    (hfo : ∀ m, (s.nodeD m).valid = false → (s'.nodeD m).forceNecessary = false)
    (hb : s'.binds = s.binds) :
    GInv2 env rk s' op ex dy := by
  refine transfer I hA hsz hrch hpa hht hhr ?_ ?_ ?_ ?_ ?_ ?_ (fun m _ => hst1 m) hst2 I.opLt
    (fun _ _ _ _ h1 h2 => absurd h1 h2) (fun _ h1 h2 => absurd h1 h2) (fun _ _ h1 h2 => absurd h1 h2)
    (fun _ h1 h2 => absurd h1 h2) hval hcr hkd hob hfo (fun m hv => (I.inv m hv).2.2.2.2)
    (fun b br' h => ⟨br', by rw [← hb]; exact h, rfl⟩) (fun _ _ _ h1 h2 => absurd h1 h2)
  · intro p i c hk hw
    exact ⟨by rw [hch]; exact hk, (BR.wants_congr hnec p i).2 hw⟩
  · intro p i c hk hw
    exact ⟨by rw [← hch]; exact hk, (BR.wants_congr hnec p i).1 hw⟩
  · intro m _ _ h; rw [← hnec]; exact h
  · intro p k ho; rw [hnec]; exact I.lnec p k ho
  · intro p k ho; rw [hnec]; exact I.unec p k ho
  · intro m hq; rw [hnec]; exact I.qnec m hq

/-! ## concrete pure updates -/

/-- only a bind's main node has the bind's change detector as a child -/
theorem parent_of_lc {env : Env} {rk : Nat → Nat} {s : State} {dy : List Nat} (A : All2 env rk s dy) {n b main m : Nat} {br : BindRec}
    (hk : (s.nodeD n).kind = .bindLhsChange b) (hb : s.binds[b]? = some br) (hm : br.main = main)
    (hmem : n ∈ s.children m) : m = main := by
  have hlt : m < s.nodes.size := lt_size_of_mem_children hmem
  have h1 := (A.node m hlt).lcChild n b hmem hk
  obtain ⟨br', h2, h3, -⟩ := (A.node m hlt).mainRec b n h1
  rw [hb] at h2
  cases h2
  rw [← hm, h3]

/-- **stamp**: the change detector `n` of bind `b` gets a later `changedAt`; the bind's main node is excused -/
theorem stamp {env : Env} {rk : Nat → Nat} {s : State} {op : Nat → Op} {ex : Nat → Prop} {dy : List Nat} {n b main : Nat}
    {br : BindRec} {v : Int}
    (I : GInv2 env rk s op ex dy) (hk : (s.nodeD n).kind = .bindLhsChange b) (hb : s.binds[b]? = some br)
    (hm : br.main = main) (hkm : (s.nodeD main).kind = .bindMain b n)
    (hvm : (s.nodeD main).valid = true)
    (hn : n < s.nodes.size) (hex : ex main) (hv : (s.nodeD main).recomputedAt < v) :
    GInv2 env rk (BR.stamped n v s) op ex dy := by
  have hnd := BR.stamped_nodeD n v s
  have hK : ∀ m, (BR.stamped n v s).nodeD m = s.nodeD m ∨
      (BR.stamped n v s).nodeD m = { s.nodeD m with changedAt := v } := by
    intro m; rw [hnd]; split
    · exact Or.inr rfl
    · exact Or.inl rfl
  have hsz : (BR.stamped n v s).nodes.size = s.nodes.size := by simp [BR.stamped]
  have hkind : ∀ m, ((BR.stamped n v s).nodeD m).kind = (s.nodeD m).kind := fun m => by
    rcases hK m with e | e <;> rw [e]
  have hvalid : ∀ m, ((BR.stamped n v s).nodeD m).valid = (s.nodeD m).valid := fun m => by
    rcases hK m with e | e <;> rw [e]
  have hrec : ∀ m, ((BR.stamped n v s).nodeD m).recomputedAt = (s.nodeD m).recomputedAt := fun m => by
    rcases hK m with e | e <;> rw [e]
  obtain ⟨hA, hch⟩ := all2_of (s' := BR.stamped n v s) I.frag I.frag.pc I.frag.scope hsz rfl hkind hvalid
    (fun m => by rcases hK m with e | e <;> rw [e]) (fun m => by rcases hK m with e | e <;> rw [e])
  have hchg : ∀ m, m ≠ n → ((BR.stamped n v s).nodeD m).changedAt = (s.nodeD m).changedAt := fun m e => by
    rw [hnd, if_neg (fun h => e h.1.symm)]
  have hstm : (BR.stamped n v s).isStale main = true := by
    refine BR.isStale_main (b := b) (lc := n) (br := br) (by rw [hvalid]; exact hvm) (by rw [hkind]; exact hkm) hb ?_
    rw [hrec, hnd, if_pos ⟨rfl, hn⟩]
    exact hv
  have hst : ∀ m, m ≠ main → (BR.stamped n v s).isStale m = s.isStale m := by
    intro m e
    by_cases hlt : m < s.nodes.size
    · refine isStale_congr_B (I.frag.node m hlt).kind (hkind m) (hvalid m) (hrec m) rfl rfl ?_
      intro c hc
      refine hchg c ?_
      intro ec
      rw [ec] at hc
      exact e (parent_of_lc I.frag hk hb hm hc)
    · rw [BL.isStale_default s m (by omega), BL.isStale_default _ m (by rw [hsz]; omega)]
  refine transfer_same I hA hsz rfl ?_ ?_ ?_ ?_ hch ?_ ?_ hvalid ?_ hkind ?_ ?_ rfl
  · intro m; rcases hK m with e | e <;> rw [e]
  · intro m; rcases hK m with e | e <;> rw [e]
  · intro m; rcases hK m with e | e <;> rw [e]
  · intro m
    apply U4.nec_congr <;> rcases hK m with e | e <;> rw [e]
  · intro m _ hx hs
    have e : m ≠ main := fun e => hx (e ▸ hex)
    rw [← hst m e]; exact hs
  · intro m hq
    by_cases e : m = main
    · rw [e]; exact hstm
    · rw [hst m e]; exact I.qstale m hq
  · intro m; rcases hK m with e | e <;> rw [e]
  · intro m; rcases hK m with e | e <;> rw [e]
  · intro m hv'
    have := (I.inv m hv').2.2.1
    rcases hK m with e | e <;> rw [e] <;> exact this

/-- **force flag**: the flag of the VALID node `o` is set to `f`.  If the necessity of `o` does not change nothing happens;
if `o` (closed) was necessary only because of the flag it is now unnecessary with all its child edges recorded -/
theorem setForce {env : Env} {rk : Nat → Nat} {s : State} {op : Nat → Op} {ex : Nat → Prop} {dy : List Nat} {o : Nat} {f : Bool}
    (I : GInv2 env rk s op ex dy) (hvo : (s.nodeD o).valid = true) :
    ((BR.forced o f s).isNecessary o = s.isNecessary o → GInv2 env rk (BR.forced o f s) op ex dy) ∧
    (s.isNecessary o = true → op o = .closed → (BR.forced o f s).isNecessary o = false →
      GInv2 env rk (BR.forced o f s) (upd op o (.unlinking 0)) ex dy) := by
  have hnd := BR.forced_nodeD o f s
  have hK : ∀ m, (BR.forced o f s).nodeD m = s.nodeD m ∨
      (BR.forced o f s).nodeD m = { s.nodeD m with forceNecessary := f } := by
    intro m; rw [hnd]; split
    · exact Or.inr rfl
    · exact Or.inl rfl
  have hsz : (BR.forced o f s).nodes.size = s.nodes.size := by simp [BR.forced]
  have hkind : ∀ m, ((BR.forced o f s).nodeD m).kind = (s.nodeD m).kind := fun m => by
    rcases hK m with e | e <;> rw [e]
  have hvalid : ∀ m, ((BR.forced o f s).nodeD m).valid = (s.nodeD m).valid := fun m => by
    rcases hK m with e | e <;> rw [e]
  have hrec : ∀ m, ((BR.forced o f s).nodeD m).recomputedAt = (s.nodeD m).recomputedAt := fun m => by
    rcases hK m with e | e <;> rw [e]
  have hchg : ∀ m, ((BR.forced o f s).nodeD m).changedAt = (s.nodeD m).changedAt := fun m => by
    rcases hK m with e | e <;> rw [e]
  have hcr : ∀ m, ((BR.forced o f s).nodeD m).createdIn = (s.nodeD m).createdIn := fun m => by
    rcases hK m with e | e <;> rw [e]
  have hob : ∀ m, ((BR.forced o f s).nodeD m).observers = (s.nodeD m).observers := fun m => by
    rcases hK m with e | e <;> rw [e]
  obtain ⟨hA, hch⟩ := all2_of (s' := BR.forced o f s) I.frag I.frag.pc I.frag.scope hsz rfl hkind hvalid
    (fun m => by rcases hK m with e | e <;> rw [e]) hcr
  have hst : ∀ m, (BR.forced o f s).isStale m = s.isStale m := by
    intro m
    by_cases hlt : m < s.nodes.size
    · exact isStale_congr_B (I.frag.node m hlt).kind (hkind m) (hvalid m) (hrec m) rfl rfl (fun c _ => hchg c)
    · rw [BL.isStale_default s m (by omega), BL.isStale_default _ m (by rw [hsz]; omega)]
  have hpa : ∀ m, ((BR.forced o f s).nodeD m).parents = (s.nodeD m).parents := fun m => by
    rcases hK m with e | e <;> rw [e]
  have hht : ∀ m, ((BR.forced o f s).nodeD m).height = (s.nodeD m).height := fun m => by
    rcases hK m with e | e <;> rw [e]
  have hhr : ∀ m, ((BR.forced o f s).nodeD m).heightInRch = (s.nodeD m).heightInRch := fun m => by
    rcases hK m with e | e <;> rw [e]
  have hnecO : ∀ m, m ≠ o → (BR.forced o f s).isNecessary m = s.isNecessary m := fun m e => by
    have : (BR.forced o f s).nodeD m = s.nodeD m := by rw [hnd, if_neg (fun h => e h.1.symm)]
    simp only [State.isNecessary, this]
  have hfo : ∀ m, (s.nodeD m).valid = false → ((BR.forced o f s).nodeD m).forceNecessary = false := by
    intro m hv
    have e : m ≠ o := fun e => by rw [e, hvo] at hv; cases hv
    rw [hnd, if_neg (fun h => e h.1.symm)]
    exact (I.inv m hv).2.2.1
  constructor
  · intro hno
    have hnec : ∀ m, (BR.forced o f s).isNecessary m = s.isNecessary m := fun m => by
      by_cases e : m = o
      · rw [e]; exact hno
      · exact hnecO m e
    exact transfer_same I hA hsz rfl hpa hht hhr hnec hch (fun m _ _ h => by rw [← hst]; exact h)
      (fun m hq => by rw [hst]; exact I.qstale m hq) hvalid hcr hkind hob hfo rfl
  · intro hn hcl hno
    have hopo : ∀ m, m ≠ o → upd op o (.unlinking 0) m = op m := fun m e => upd_other _ _ _ e
    have hopc : ∀ m, upd op o (.unlinking 0) m = .closed → m ≠ o ∧ op m = .closed :=
      fun m h => upd_closed_inv (Op.unlinking_ne_closed _) h
    refine transfer I hA hsz rfl hpa hht hhr ?_ ?_ ?_ ?_ ?_ ?_ (fun m _ _ _ h => by rw [← hst]; exact h)
      (fun m hq => by rw [hst]; exact I.qstale m hq) ?_ ?_ ?_ ?_ ?_ hvalid hcr hkind hob hfo ?_
      (fun b br' h => ⟨br', h, rfl⟩) ?_
    · intro p i c hk hw
      refine ⟨by rw [hch]; exact hk, ?_⟩
      by_cases e : p = o
      · rw [e]; exact (wants_unlinking (upd_self _ _ _)).2 (Nat.zero_le _)
      · unfold Wants at hw ⊢
        rw [hopo p e, hnecO p e]; exact hw
    · intro p i c hk hw
      refine ⟨by rw [← hch]; exact hk, ?_⟩
      by_cases e : p = o
      · rw [e]; exact (wants_closed hcl).2 hn
      · unfold Wants at hw ⊢
        rw [hopo p e, hnecO p e] at hw; exact hw
    · intro m h1 _ h
      rw [← hnecO m (hopc m h1).1]; exact h
    · intro p k ho
      have e : p ≠ o := fun e => by rw [e, upd_self] at ho; cases ho
      rw [hopo p e] at ho
      rw [hnecO p e]; exact I.lnec p k ho
    · intro p k ho
      by_cases e : p = o
      · rw [e]; exact hno
      · rw [hopo p e] at ho
        rw [hnecO p e]; exact I.unec p k ho
    · intro m hq
      by_cases e : m = o
      · exact Or.inr ⟨0, by rw [e, upd_self]⟩
      · rw [hnecO m e, hopo m e]; exact I.qnec m hq
    · intro m ho
      by_cases e : m = o
      · rw [e]; exact nec_lt_size hn
      · rw [hopo m e] at ho; exact I.opLt m ho
    · intro c p i _ h1 h2; exact absurd (hopc p h1).2 h2
    · intro m h1 h2; exact absurd (hopc m h1).2 h2
    · intro m _ h1 h2; exact absurd (hopc m h1).2 h2
    · intro m h1 h2; exact absurd (hopc m h1).2 h2
    · intro m hv
      have e : m ≠ o := fun e => by rw [e, hvo] at hv; cases hv
      rw [hopo m e]; exact (I.inv m hv).2.2.2.2
    · intro m _ _ h1 h2; exact absurd (hopc m h1).2 h2

/-- a closed necessary node can be seen as fully linked -/
theorem open_full {env : Env} {rk : Nat → Nat} {s : State} {op : Nat → Op} {ex : Nat → Prop} {dy : List Nat} {p : Nat}
    (I : GInv2 env rk s op ex dy) (hcl : op p = .closed) (hn : s.isNecessary p = true) :
    GInv2 env rk s (upd op p (.linking (s.children p).length)) ex dy := by
  have hopo : ∀ m, m ≠ p → upd op p (.linking (s.children p).length) m = op m := fun m e => upd_other _ _ _ e
  have hopc : ∀ m, upd op p (.linking (s.children p).length) m = .closed → m ≠ p ∧ op m = .closed :=
    fun m h => upd_closed_inv (Op.linking_ne_closed _) h
  have hvp := I.valid_of_nec hn
  refine transfer I I.frag rfl rfl (fun _ => rfl) (fun _ => rfl) (fun _ => rfl) ?_ ?_ (fun _ _ _ h => h) ?_ ?_ ?_
    (fun _ _ _ _ h => h) I.qstale ?_ ?_ ?_ ?_ ?_ (fun _ => rfl) (fun _ => rfl) (fun _ => rfl) (fun _ => rfl)
    (fun m hv => (I.inv m hv).2.2.1) ?_ (fun b br' h => ⟨br', h, rfl⟩) ?_
  · intro q i c hk hw
    refine ⟨hk, ?_⟩
    by_cases e : q = p
    · rw [e] at hk ⊢
      exact (wants_linking (upd_self _ _ _)).2 (List.getElem?_eq_some_iff.1 hk).1
    · exact (U4.wants_same (hopo q e)).2 hw
  · intro q i c hk hw
    refine ⟨hk, ?_⟩
    by_cases e : q = p
    · rw [e]; exact (wants_closed hcl).2 hn
    · exact (U4.wants_same (hopo q e)).1 hw
  · intro q k ho
    by_cases e : q = p
    · rw [e]; exact hn
    · rw [hopo q e] at ho; exact I.lnec q k ho
  · intro q k ho
    have e : q ≠ p := fun e => by rw [e, upd_self] at ho; cases ho
    rw [hopo q e] at ho; exact I.unec q k ho
  · intro m hq
    rcases I.qnec m hq with h | ⟨k, h⟩
    · exact Or.inl h
    · have e : m ≠ p := fun e => by rw [e, hcl] at h; cases h
      exact Or.inr ⟨k, by rw [hopo m e]; exact h⟩
  · intro m ho
    by_cases e : m = p
    · rw [e]; exact nec_lt_size hn
    · rw [hopo m e] at ho; exact I.opLt m ho
  · intro c q i _ h1 h2; exact absurd (hopc q h1).2 h2
  · intro m h1 h2; exact absurd (hopc m h1).2 h2
  · intro m _ h1 h2; exact absurd (hopc m h1).2 h2
  · intro m h1 h2; exact absurd (hopc m h1).2 h2
  · intro m hv
    have e : m ≠ p := fun e => by rw [e, hvp] at hv; cases hv
    rw [hopo m e]; exact (I.inv m hv).2.2.2.2
  · intro m _ _ h1 h2; exact absurd (hopc m h1).2 h2

/-- a fully linked node whose children are all lower (and, if it is a node of a scope, whose scope's change detector is lower) is closed; it may be queued (then its heap position is
its height) and, if stale and not queued, it must be excused -/
theorem close_full {env : Env} {rk : Nat → Nat} {s : State} {op : Nat → Op} {ex : Nat → Prop} {dy : List Nat} {p k : Nat}
    (I : GInv2 env rk s op ex dy) (hop : op p = .linking k) (hk : (s.children p).length ≤ k)
    (hh : ∀ (i c : Nat), (s.children p)[i]? = some c → (s.nodeD c).height < (s.nodeD p).height)
    (h0 : 0 ≤ (s.nodeD p).height)
    (hgq : (s.nodeD p).inRch = true → (s.nodeD p).heightInRch = (s.nodeD p).height)
    (hex : s.isStale p = true → ex p ∨ (s.nodeD p).inRch = true)
    (hself : ∀ b br, (s.nodeD p).createdIn = .bind b → s.binds[b]? = some br →
      (s.nodeD br.lhsChange).height < (s.nodeD p).height) :
    GInv2 env rk s (upd op p .closed) ex dy := by
  have hopo : ∀ m, m ≠ p → upd op p .closed m = op m := fun m e => upd_other _ _ _ e
  have hnew : ∀ m, upd op p .closed m = .closed → op m ≠ .closed → m = p := by
    intro m h1 h2
    apply Decidable.byContradiction
    intro e
    rw [hopo m e] at h1; exact h2 h1
  have hnp := I.lnec p k hop
  refine transfer I I.frag rfl rfl (fun _ => rfl) (fun _ => rfl) (fun _ => rfl) ?_ ?_ (fun _ _ _ h => h) ?_ ?_ ?_
    (fun _ _ _ _ h => h) I.qstale ?_ ?_ ?_ ?_ ?_ (fun _ => rfl) (fun _ => rfl) (fun _ => rfl) (fun _ => rfl)
    (fun m hv => (I.inv m hv).2.2.1) ?_ (fun b br' h => ⟨br', h, rfl⟩) ?_
  · intro q i c hkq hw
    refine ⟨hkq, ?_⟩
    by_cases e : q = p
    · rw [e]; exact (wants_closed (upd_self _ _ _)).2 hnp
    · exact (U4.wants_same (hopo q e)).2 hw
  · intro q i c hkq hw
    refine ⟨hkq, ?_⟩
    by_cases e : q = p
    · rw [e] at hkq ⊢
      have := (List.getElem?_eq_some_iff.1 hkq).1
      exact (wants_linking hop).2 (by omega)
    · exact (U4.wants_same (hopo q e)).1 hw
  · intro q k' ho
    have e : q ≠ p := fun e => by rw [e, upd_self] at ho; cases ho
    rw [hopo q e] at ho; exact I.lnec q k' ho
  · intro q k' ho
    have e : q ≠ p := fun e => by rw [e, upd_self] at ho; cases ho
    rw [hopo q e] at ho; exact I.unec q k' ho
  · intro m hq
    rcases I.qnec m hq with h | ⟨k', h⟩
    · exact Or.inl h
    · have e : m ≠ p := fun e => by rw [e, hop] at h; cases h
      exact Or.inr ⟨k', by rw [hopo m e]; exact h⟩
  · intro m ho
    have e : m ≠ p := fun e => by rw [e, upd_self] at ho; exact ho rfl
    rw [hopo m e] at ho; exact I.opLt m ho
  · intro c q i hm h1 h2
    have e := hnew q h1 h2
    rw [e] at hm ⊢
    exact hh i c (I.par c p i hm).1
  · intro m h1 h2; rw [hnew m h1 h2]; exact h0
  · intro m hq h1 h2
    have e := hnew m h1 h2
    rw [e] at hq ⊢; exact hgq hq
  · intro m h1 h2 _ hs hx
    have e := hnew m h1 h2
    rw [e] at hs hx ⊢
    rcases hex hs with h | h
    · exact absurd h hx
    · exact h
  · intro m hv
    by_cases e : m = p
    · rw [e]; exact upd_self _ _ _
    · rw [hopo m e]; exact (I.inv m hv).2.2.2.2
  · intro m b br h1 h2 hc hb; rw [hnew m h1 h2] at hc ⊢; exact hself b br hc hb

end NR

end IncrVerif.Proofs.NestH
