import IncrVerif.Proofs.NestH43
import IncrVerif.Proofs.NestH41
import IncrVerif.Proofs.NestH8
import IncrVerif.Proofs.BindH87
/-!
# Nested binds (F2), part 4o: the observer actions of the API keep `QInv2 env rk` (SAME ghost rank)

Port of `BindH87` (`C2o1.lean`) from `QInv1 env s` to `QInv2 env rk s`.  The actions `observe`, `cloneObs`, `dropObs`, `disallow` only touch the observer
table, the two lists of pending observers and counters; everything `QInv2` reads of nodes, binds, cells and heaps is untouched
(`NL.GInv2.congr` for the structural invariant, `NF.F2Inv.transfer` for the auxiliary one, `KeyEq2.isStale2` for staleness).
Every lemma of `BindH87` mentions `QInv1`, so the four helper lemmas are restated (sub-namespace `N4o`); the generic observer lemmas
(`OFrame`, `ObsInv.push/modify/modify_same`, `bind_getObs_inv`, …) are reused.
-/
namespace IncrVerif.Proofs.NestH
open IncrVerif.Engine IncrVerif.Driver IncrVerif.Proofs IncrVerif.Proofs.Step IncrVerif.Proofs.Sched IncrVerif.Proofs.Quiet
open IncrVerif.Proofs.BindH

namespace N4o

/-- an action that only touches the observer bookkeeping (and counters) keeps `QInv2` as soon as it keeps `ObsOK` and the new observer table
watches top-level nodes that are not change detectors -/
theorem of_obs {env : Env} {rk : Nat → Nat} {s s' : State} (Q : QInv2 env rk s) (F : OFrame s s') (hb : s'.binds = s.binds)
    (ha : s'.ahh = s.ahh) (O : ObsOK s')
    (hT : ∀ (o : Nat) (ob : ObsRec), s'.observers[o]? = some ob →
      (s.nodeD ob.node).createdIn = .top ∧ ∀ b, (s.nodeD ob.node).kind ≠ .bindLhsChange b) :
    QInv2 env rk s' := by
  have S : SameB s s' := ⟨SameG.of_nodes F.nodes F.pc F.scope F.rch F.vars, hb⟩
  have E := BL.KeyEq.of_same S
  have I : GInv2 env rk s allClosed noEx [] := Q.struct
  refine
    { struct := NL.GInv2.congr I S
      f2 := NF.F2Inv.transfer Q.f2 (by rw [F.nodes]) (fun m => by rw [F.nodeD]; exact SameShape.refl _)
        (fun m => by rw [F.nodeD]) (fun m h => by rw [F.nodeD] at h; exact Or.inl h) (fun m => by rw [F.nodeD])
        hb F.top ha F.pinv F.scope (F.pc.trans Q.f2.frag.pc)
      vars := ?_
      obs := O
      obsTop := fun o ob h => by rw [F.nodeD]; exact hT o ob h
      now := by rw [F.stabNum]; exact Q.now
      stamps := fun m => by rw [F.nodeD, F.stabNum]; exact Q.stamps m
      varStamp := fun c vc h => by rw [F.vars] at h; rw [F.stabNum]; exact Q.varStamp c vc h
      cons := ?_
      status := by rw [F.status]; exact Q.status
      alive := by rw [F.alive]; exact Q.alive
      setDuringStab := by rw [F.setDuringStab]; exact Q.setDuringStab
      deadVars := by rw [F.deadVars]; exact Q.deadVars
      handleAfterStab := by rw [F.handleAfterStab]; exact Q.handleAfterStab }
  · refine ⟨fun n c hn hk => ?_, fun c vc h => ?_⟩
    · rw [F.nodes] at hn; rw [F.nodeD] at hk; rw [F.vars]; exact Q.vars.node n c hn hk
    · rw [F.vars] at h; rw [F.nodes, F.nodeD]; exact Q.vars.cell c vc h
  · intro m hm hv hs
    rw [F.nodes] at hm
    rw [F.nodeD] at hv
    rw [KeyEq2.isStale2 E I.frag] at hs
    obtain ⟨v, hT', hval⟩ := Q.cons m hm hv hs
    refine ⟨v, TargetB.congr hv (I.frag.node m hm).kind (by rw [F.nodeD]) F.vars hb (fun c _ => by rw [F.nodeD]) hT', ?_⟩
    rw [F.nodeD]; exact hval

/-- modifying one observer record without changing the node it watches -/
theorem obsTop_modify {env : Env} {rk : Nat → Nat} {s : State} (Q : QInv2 env rk s) {o : Nat} {f : ObsRec → ObsRec}
    (hf : ∀ ob, (f ob).node = ob.node) (o' : Nat) (ob : ObsRec)
    (h : (s.observers.modify o f)[o']? = some ob) :
    (s.nodeD ob.node).createdIn = .top ∧ ∀ b, (s.nodeD ob.node).kind ≠ .bindLhsChange b := by
  rw [Array.getElem?_modify] at h
  split at h
  · cases hob : s.observers[o']? with
    | none => rw [hob] at h; cases h
    | some x =>
      rw [hob] at h; cases h
      rw [hf x]; exact Q.obsTop o' x hob
  · exact Q.obsTop o' ob h

/-- a modification that keeps node, state and handlers of one observer record -/
theorem modObs_same_q {env : Env} {rk : Nat → Nat} {s : State} {o : Nat} {f : ObsRec → ObsRec} (Q : QInv2 env rk s)
    (hf : ∀ ob, (f ob).node = ob.node ∧ (f ob).state = ob.state ∧ (f ob).handlers = ob.handlers) :
    QInv2 env rk { s with observers := s.observers.modify o f } :=
  of_obs Q ⟨rfl, rfl, rfl, rfl, rfl, rfl, rfl, rfl, rfl, rfl, rfl, rfl, rfl⟩ rfl rfl
    (ObsInv.modify_same (s' := { s with observers := s.observers.modify o f }) Q.obs rfl rfl hf)
    (obsTop_modify Q (fun ob => (hf ob).1))

theorem disallowFutureUse_q {env : Env} {rk : Nat → Nat} {s s' : State} {o : Nat} {u : Unit}
    (Q : QInv2 env rk s) (h : (disallowFutureUse o).run.run s = (.ok u, s')) : QInv2 env rk s' := by
  unfold disallowFutureUse at h
  obtain ⟨ob, hob, h⟩ := bind_getObs_inv h
  cases hst : ob.state with
  | disallowed =>
    rw [hst] at h
    obtain ⟨-, e⟩ := pure_ok_inv h
    rw [e]; exact Q
  | unlinked =>
    rw [hst] at h
    obtain ⟨-, e⟩ := pure_ok_inv h
    rw [e]; exact Q
  | created =>
    rw [hst] at h
    dsimp only at h
    obtain ⟨s1, e1, h⟩ := bind_bumpCounter_inv h
    have e := modObs_ok_inv h
    rw [e, e1]
    refine of_obs Q ⟨rfl, rfl, rfl, rfl, rfl, rfl, rfl, rfl, rfl, rfl, rfl, rfl, rfl⟩ rfl rfl ?_
      (obsTop_modify Q (fun _ => rfl))
    refine ObsInv.modify (pd' := s.disallowedObservers) (o := o)
      (f := fun x => { x with state := .unlinked, handlers := [] }) Q.obs rfl rfl ?_ ?_ ?_ ?_ (fun _ _ => Iff.rfl)
      Q.obs.disNodup
    · intro ob' h'; exact ⟨rfl, rfl⟩
    · intro ob' h'
      rw [hob] at h'; cases h'
      rw [hst]
      constructor
      · intro h; rcases h with h | h <;> cases h
      · intro h; rcases h with h | h <;> cases h
    · intro ob' h' hc; cases hc
    · intro ob' h'
      rw [hob] at h'; cases h'
      rw [← Q.obs.dis o ob hob, hst]
      constructor
      · intro h; cases h
      · intro h; cases h
  | inUse =>
    rw [hst] at h
    dsimp only at h
    obtain ⟨s1, e1, h⟩ := bind_bumpCounter_inv h
    obtain ⟨s2, e2, h⟩ := bind_modObs_inv h
    rw [run_modify] at h
    have e : s' = { s2 with disallowedObservers := s2.disallowedObservers ++ [o] } := by cases h; rfl
    have hnot : o ∉ s.disallowedObservers := by
      intro hm
      have := (Q.obs.dis o ob hob).2 hm
      rw [hst] at this; cases this
    rw [e, e2, e1]
    refine of_obs Q ⟨rfl, rfl, rfl, rfl, rfl, rfl, rfl, rfl, rfl, rfl, rfl, rfl, rfl⟩ rfl rfl ?_
      (obsTop_modify Q (fun _ => rfl))
    refine ObsInv.modify (pd' := s.disallowedObservers ++ [o]) (o := o)
      (f := fun x => { x with state := .disallowed }) Q.obs rfl rfl ?_ ?_ ?_ ?_ ?_ ?_
    · intro ob' h'; exact ⟨rfl, (Q.obs.inRange o ob' h').2⟩
    · intro ob' h'
      rw [hob] at h'; cases h'
      rw [hst]
      exact ⟨fun _ => Or.inl rfl, fun _ => Or.inr rfl⟩
    · intro ob' h' hc; cases hc
    · intro ob' h'
      exact ⟨fun _ => List.mem_append_right _ (List.mem_singleton.2 rfl), fun _ => rfl⟩
    · intro o' ho'
      rcases ho' with ho' | ho'
      · rw [hob] at ho'; cases ho'
      · simp only [List.mem_append, List.mem_singleton, ho', or_false]
    · rw [List.nodup_append]
      refine ⟨Q.obs.disNodup, List.nodup_cons.2 ⟨List.not_mem_nil, List.nodup_nil⟩, ?_⟩
      intro a ha b hb
      rw [List.mem_singleton] at hb
      rw [hb]; intro eab; rw [eab] at ha; exact hnot ha

end N4o

/-! ## the actions -/

theorem step_observe2 {env : Env} {rk : Nat → Nat} {s s' : State} {k : Nat} {tokens : Array Nat} {r : String × Array Nat}
    (Q : QInv2 env rk s) (h : (stepAction env (.observe (.outer k)) tokens).run.run s = (.ok r, s')) :
    QInv2 env rk s' := by
  simp only [stepAction, resolveOpnd] at h
  obtain ⟨n, s0, h0, h⟩ := bind_ok_inv h
  rw [run_bind_get] at h0
  cases hk : s.top[k]? with
  | none => rw [hk] at h0; cases h0
  | some n' =>
    rw [hk] at h0
    obtain ⟨en, e0⟩ := pure_ok_inv h0
    rw [e0] at h
    rw [run_bind_get] at h
    obtain ⟨s1, e1, h⟩ := bind_modify_inv h
    obtain ⟨s2, e2, h⟩ := bind_bumpCounter_inv h
    obtain ⟨-, e⟩ := pure_ok_inv h
    obtain ⟨hlt', htop, hlc⟩ := Q.f2.topOK k n' hk
    have hlt : n < s.nodes.size := by rw [en]; exact hlt'
    rw [e, e2, e1]
    refine N4o.of_obs Q ⟨rfl, rfl, rfl, rfl, rfl, rfl, rfl, rfl, rfl, rfl, rfl, rfl, rfl⟩ rfl rfl ?_ ?_
    · exact ObsInv.push Q.obs rfl hlt rfl
    · intro o ob ho
      have ho' : (s.observers.push { node := n })[o]? = some ob := ho
      rw [Array.getElem?_push] at ho'
      split at ho'
      · cases ho'
        rw [en]; exact ⟨htop, hlc⟩
      · exact Q.obsTop o ob ho'

theorem step_cloneObs2 {env : Env} {rk : Nat → Nat} {s s' : State} {o : Nat} {tokens : Array Nat} {r : String × Array Nat}
    (Q : QInv2 env rk s) (h : (stepAction env (.cloneObs o) tokens).run.run s = (.ok r, s')) :
    QInv2 env rk s' := by
  simp only [stepAction] at h
  obtain ⟨s1, e1, h⟩ := bind_modObs_inv h
  obtain ⟨-, e⟩ := pure_ok_inv h
  rw [e, e1]
  exact N4o.modObs_same_q Q (fun ob => ⟨rfl, rfl, rfl⟩)

theorem step_dropObs2 {env : Env} {rk : Nat → Nat} {s s' : State} {o : Nat} {tokens : Array Nat} {r : String × Array Nat}
    (Q : QInv2 env rk s) (h : (stepAction env (.dropObs o) tokens).run.run s = (.ok r, s')) :
    QInv2 env rk s' := by
  simp only [stepAction] at h
  obtain ⟨ob, hob, h⟩ := bind_getObs_inv h
  split at h
  · obtain ⟨-, e⟩ := pure_ok_inv h
    rw [e]; exact Q
  · obtain ⟨s1, e1, h⟩ := bind_modObs_inv h
    have Q1 : QInv2 env rk s1 := by
      rw [e1]; exact N4o.modObs_same_q Q (fun ob => ⟨rfl, rfl, rfl⟩)
    split at h
    · obtain ⟨u, s2, h2, h⟩ := bind_ok_inv h
      obtain ⟨-, e⟩ := pure_ok_inv h
      rw [e]
      exact N4o.disallowFutureUse_q Q1 h2
    · obtain ⟨-, e⟩ := pure_ok_inv h
      rw [e]; exact Q1

theorem step_disallow2 {env : Env} {rk : Nat → Nat} {s s' : State} {o : Nat} {tokens : Array Nat} {r : String × Array Nat}
    (Q : QInv2 env rk s) (h : (stepAction env (.disallow o) tokens).run.run s = (.ok r, s')) :
    QInv2 env rk s' := by
  simp only [stepAction] at h
  obtain ⟨u, s1, h1, h⟩ := bind_ok_inv h
  obtain ⟨-, e⟩ := pure_ok_inv h
  rw [e]
  exact N4o.disallowFutureUse_q Q h1

end IncrVerif.Proofs.NestH
