import IncrVerif.Proofs.FullH27
/-!
# C01 full fragment, the recompute step of a `map_ref` node, part 2: the ACTUAL state after the step
(port of `kInv_after_mapRef`, `After` of MapRef14: fragment facts, `KInv`, `MInv` of the end state)
-/
namespace IncrVerif.Proofs.FullH
open IncrVerif.Engine IncrVerif.Proofs IncrVerif.Proofs.Step IncrVerif.Proofs.Sched IncrVerif.Proofs.Quiet
open IncrVerif.Proofs.MapRefH (upd1 upd1_self upd1_other cleared cleared_nodeD cleared_started_nodeD After IsMapRef FM value_congr_mr)
namespace MR

section
variable {env : Env} {sp : Nat → Val → Val} {g : Nat → Option Val} {s : State}

/-- the `didChange` invariant after the step of the map_ref node `n`, for any state that agrees with the
pre-state on necessity, kinds, validity, read values and (off `n`) lowered flags -/
theorem kInv_after {n : Nat} {v : Val} {Y : State} (K : KInv env g s)
    (hvn : s.value env n = some v)
    (hnec : ∀ m, Y.isNecessary m = s.isNecessary m) (hkind : ∀ m, (Y.nodeD m).kind = (s.nodeD m).kind)
    (hvalid : ∀ m, (Y.nodeD m).valid = (s.nodeD m).valid)
    (hflag : ∀ m, m ≠ n → (Y.nodeD m).didChange = false → (s.nodeD m).didChange = false)
    (hval : ∀ m, Y.value env m = s.value env m) : KInv env (upd1 g n (some v)) Y := by
  intro m p i hv hm hk hd
  rw [hval]
  by_cases hmn : m = n
  · subst hmn; rw [upd1_self, hvn]
  · rw [upd1_other _ _ _ hmn]
    exact K m p i (by rw [← hvalid]; exact hv) (by rw [← hnec]; exact hm) (by rw [← hkind]; exact hk) (hflag m hmn hd)

/-- `After` plus the machine states -/
structure AfterF (n : Nat) (s Y : State) : Prop where
  a : After n s Y
  old : ∀ m, (Y.nodeD m).oldState = (s.nodeD m).oldState

theorem AfterF.cleared (n : Nat) (s : State) (hn : n < s.nodes.size) : AfterF n s (MapRefH.cleared n (started n s)) := by
  refine ⟨After.cleared n s hn, fun m => ?_⟩
  rw [cleared_started_nodeD n m s hn]; split
  · rename_i e; rw [e]
  · rfl

theorem AfterF.quiet {n : Nat} {s Y Y' : State} (h : AfterF n s Y) (q : Step.Quiet (touched n Y) Y') (f : FM Y Y') :
    AfterF n s Y' := by
  have fmT : FM (touched n Y) Y' := by
    intro m hm
    apply f m
    rw [touched_nodeD] at hm
    split at hm <;> exact hm
  refine ⟨h.a.touched.quiet q fmT, fun m => ?_⟩
  rw [(q.node m).oldState, touched_nodeD]
  split <;> exact h.old m

theorem AfterF.value_eq {n p i : Nat} {Y : State} (h : AfterF n s Y) (hv : (s.nodeD n).valid = true)
    (hk : (s.nodeD n).kind = .mapRef p i) (m : Nat) : Y.value env m = s.value env m := by
  refine value_congr_mr env s Y h.a.size (fun k => ⟨h.a.kind k, h.a.valid k, ?_⟩) m
  by_cases hkn : k = n
  · subst hkn
    exact Or.inr ⟨by rw [hk]; trivial, hv⟩
  · exact Or.inl (h.a.value k hkn)

/-- the fragment facts of the end state, for the new ghost -/
theorem AfterF.frag {n : Nat} {Y : State} (h : AfterF n s Y) (F : FFrag env sp g s) (hn : n < s.nodes.size) (x : Option Val) :
    FFrag env sp (upd1 g n x) Y := by
  have A := h.a
  refine ⟨⟨fun m hm => ?_, fun m e => ?_, fun m => ?_, fun m hm => ?_⟩, fun m nd p i hnd hk => ?_, A.pc F.pc⟩
  · rw [A.kind]; exact F.fr.kinds m (by rw [← A.size]; exact hm)
  · rw [A.kind]; exact F.fr.noExp m e
  · rw [A.kind, A.cutoff]; exact F.fr.cut m
  · rw [A.size] at hm
    rw [upd1_other _ _ _ (by omega)]; exact F.fr.fresh m hm
  · have hlt : m < Y.nodes.size := lt_of_some hnd
    have e : Y.nodeD m = nd := nodeD_of_some hnd
    have hk' : (s.nodeD m).kind = .mapRef p i := by rw [← A.kind, e]; exact hk
    exact F.input_lt hk'

theorem AfterF.kinv {n p i : Nat} {v : Val} {Y : State} (h : AfterF n s Y) (K : KInv env g s)
    (hv : (s.nodeD n).valid = true) (hk : (s.nodeD n).kind = .mapRef p i) (hvn : s.value env n = some v) :
    KInv env (upd1 g n (some v)) Y :=
  kInv_after K hvn h.a.nec h.a.kind h.a.valid h.a.flag (h.value_eq hv hk)

/-- no `map_with_old` node is touched -/
theorem AfterF.minv {n p i : Nat} {Y : State} (h : AfterF n s Y) (M : MInv env s) (hk : (s.nodeD n).kind = .mapRef p i) :
    MInv env Y := by
  intro a m j hv hka
  rw [h.a.kind] at hka
  rw [h.a.valid] at hv
  have hne : a ≠ n := by
    intro e; rw [e, hk] at hka; cases hka
  rw [h.old, h.a.value a hne]
  exact M a m j hv hka

end
end MR
end IncrVerif.Proofs.FullH
