import IncrVerif.Proofs.PerKeyH88
import IncrVerif.Proofs.PerKeyH96
/-!
# Per-key operators, API actions part 6: the static actions, with the simulation `VSim` plugged in
-/
namespace IncrVerif.Proofs.PerKeyH
open IncrVerif.Engine IncrVerif.Driver IncrVerif.Proofs IncrVerif.Proofs.Step IncrVerif.Proofs.Sched
open IncrVerif.Proofs.ExpertH IncrVerif.Proofs.EffH IncrVerif.Proofs.DriverH

theorem PStaticAct.vaction {env : Env} {s : State} {a : Action} (hs : PStaticAct a) (ha : PActionOK env s a) :
    VAction a := by
  cases a <;> first | exact hs.elim | trivial | skip
  rename_i i
  cases i <;> first | exact hs.elim | trivial | skip
  exact Nat.lt_trans ha.1 (by decide)

/-- the run on the virtual state -/
theorem vsim_static {env : Env} {rk : Nat → Nat} {s s' : State} {a : Action} {tk : Array Nat}
    {r : String × Array Nat} (Q : PQ env rk s) (ha : PActionOK env s a) (hs : PStaticAct a)
    (h : (stepAction env a tk).run.run s = (.ok r, s')) :
    (stepAction (penv env) a tk).run.run (V s) = (.ok r, V s') :=
  (VSimAt.stepAction env tk (hs.vaction ha) (fr_of_pfrag Q.frag Q.q.pinv) r s' h).1

/-- **every static API action of the fragment keeps `PQ`**, modulo the slots of the new state -/
theorem action_static_vs {env : Env} {rk : Nat → Nat} {s s' : State} {a : Action} {tk : Array Nat}
    {r : String × Array Nat} (Q : PQ env rk s) (ha : PActionOK env s a) (hs : PStaticAct a)
    (hsl : SlotInv env s')
    (h : (stepAction env a tk).run.run s = (.ok r, s')) : PQ env rk s' :=
  action_static_p Q ha hs (vsim_static Q ha hs h) hsl h

end IncrVerif.Proofs.PerKeyH
