import IncrVerif.Proofs.CutH15
import IncrVerif.Engine.Run
import IncrVerif.Proofs.SchedW
-- Port of Proofs/Quiet12.lean to ARBITRARY cutoffs (scratch name Q12); overview in Props/C06History.lean
/-!
# Part 11: variable writes outside `stabilise` (and the read-only actions) keep `QInv`
-/
namespace IncrVerif.Proofs.CutH
open IncrVerif.Engine IncrVerif.Driver IncrVerif.Proofs IncrVerif.Proofs.Step IncrVerif.Proofs.Sched
variable {e : Bool}

/-! ## the abstract description of an immediate write -/

/-- `s'` is `s` after cell `v` (old contents `vc`) received value `x` and the stamp of the current round;
nodes change at most in their heap marker; everything else the invariant reads (except the heap) is kept -/
structure WRel (v : Nat) (vc : VarCell) (x : Val) (s s' : State) : Prop where
  size : s'.nodes.size = s.nodes.size
  node : ∀ m, ∃ h, s'.nodeD m = { s.nodeD m with heightInRch := h }
  var : s'.vars[v]? = some { vc with value := x, setAt := s.stabNum }
  other : ∀ w, w ≠ v → s'.vars[w]? = s.vars[w]?
  stabNum : s'.stabNum = s.stabNum
  status : s'.status = s.status
  pc : s'.panicCountdown = s.panicCountdown
  scope : s'.currentScope = s.currentScope
  observers : s'.observers = s.observers
  newObservers : s'.newObservers = s.newObservers
  disallowedObservers : s'.disallowedObservers = s.disallowedObservers
  alive : s'.alive = s.alive
  setDuringStab : s'.setDuringStab = s.setDuringStab
  deadVars : s'.deadVars = s.deadVars
  handleAfterStab : s'.handleAfterStab = s.handleAfterStab
  pinv : s'.propagateInvalidity = s.propagateInvalidity
  top : s'.top = s.top

section rel
variable {env : Env} {s s' : State} {v : Nat} {vc : VarCell} {x : Val}

theorem WRel.kind (R : WRel v vc x s s') (m : Nat) : (s'.nodeD m).kind = (s.nodeD m).kind := by
  obtain ⟨h, e⟩ := R.node m; rw [e]
theorem WRel.parents (R : WRel v vc x s s') (m : Nat) : (s'.nodeD m).parents = (s.nodeD m).parents := by
  obtain ⟨h, e⟩ := R.node m; rw [e]
theorem WRel.nodeObs (R : WRel v vc x s s') (m : Nat) : (s'.nodeD m).observers = (s.nodeD m).observers := by
  obtain ⟨h, e⟩ := R.node m; rw [e]
theorem WRel.height (R : WRel v vc x s s') (m : Nat) : (s'.nodeD m).height = (s.nodeD m).height := by
  obtain ⟨h, e⟩ := R.node m; rw [e]
theorem WRel.recomputedAt (R : WRel v vc x s s') (m : Nat) :
    (s'.nodeD m).recomputedAt = (s.nodeD m).recomputedAt := by
  obtain ⟨h, e⟩ := R.node m; rw [e]
theorem WRel.changedAt (R : WRel v vc x s s') (m : Nat) :
    (s'.nodeD m).changedAt = (s.nodeD m).changedAt := by
  obtain ⟨h, e⟩ := R.node m; rw [e]
theorem WRel.value (R : WRel v vc x s s') (m : Nat) : (s'.nodeD m).value = (s.nodeD m).value := by
  obtain ⟨h, e⟩ := R.node m; rw [e]
theorem WRel.handlers (R : WRel v vc x s s') (m : Nat) :
    (s'.nodeD m).numOnUpdateHandlers = (s.nodeD m).numOnUpdateHandlers := by
  obtain ⟨h, e⟩ := R.node m; rw [e]
theorem WRel.nec (R : WRel v vc x s s') (m : Nat) : s'.isNecessary m = s.isNecessary m := by
  obtain ⟨h, e⟩ := R.node m
  simp only [State.isNecessary, Node.isNecessary, e]

/-- staleness of a node that is not a `var v` node does not change -/
theorem WRel.staleOf_eq (R : WRel v vc x s s') {m : Nat} (hm : (s.nodeD m).kind ≠ .var v) :
    staleOf s' m = staleOf s m := by
  unfold staleOf
  simp only [R.kind, R.recomputedAt, R.changedAt]
  cases hk : (s.nodeD m).kind <;> try rfl
  rename_i c
  have hc : c ≠ v := by
    intro e; rw [e] at hk; exact hm hk
  simp only [R.other c hc]

/-- the target of a node that is not a `var v` node does not change -/
theorem WRel.target (R : WRel v vc x s s') {m : Nat} {w : Val}
    (hm : (s.nodeD m).kind ≠ .var v) (h : Target env s m w) : Target env s' m w := by
  unfold Target at h ⊢
  simp only [R.kind, plainVals, R.value] at h ⊢
  cases hk : (s.nodeD m).kind <;> rw [hk] at h <;> try exact h
  rename_i c
  have hc : c ≠ v := by
    intro e; rw [e] at hk; exact hm hk
  simp only [R.other c hc]
  exact h

/-- a `var v` node stamped in an earlier round is stale afterwards -/
theorem WRel.staleOf_watch (R : WRel v vc x s s') {m : Nat} (hk : (s.nodeD m).kind = .var v)
    (hr : (s.nodeD m).recomputedAt < s.stabNum) : staleOf s' m = true := by
  unfold staleOf
  simp only [R.kind, R.recomputedAt, hk, R.var]
  simpa using hr

/-- the structural invariant after a write: the heap is well formed, only the marker of the watch node may
have changed, and either nothing changed (and the watch node was queued if necessary) or the watch node
(necessary, not queued) has been queued at its height -/
theorem WRel.struct (Q : QInv env e s) (hv : s.vars[v]? = some vc) (R : WRel v vc x s s')
    (hheap : HeapG s')
    (hmark : ∀ m, m ≠ vc.node → (s'.nodeD m).heightInRch = (s.nodeD m).heightInRch)
    (hq : ((s'.nodeD vc.node).heightInRch = (s.nodeD vc.node).heightInRch ∧
            (s.isNecessary vc.node = true → (s.nodeD vc.node).inRch = true)) ∨
          (s.isNecessary vc.node = true ∧ (s.nodeD vc.node).inRch = false ∧
            (s'.nodeD vc.node).heightInRch = (s.nodeD vc.node).height)) :
    Struct env s' := by
  have I : GInv env s allClosed := Q.struct
  have hkn : (s.nodeD vc.node).kind = .var v := (Q.vars.cell v vc hv).2
  have hinr : ∀ m, m ≠ vc.node → (s'.nodeD m).inRch = (s.nodeD m).inRch := fun m h => by
    simp only [Node.inRch, hmark m h]
  have hw : ∀ q i, Wants s' allClosed q i ↔ Wants s allClosed q i := by
    intro q i; unfold Wants; rw [R.nec]
  have hmono : ∀ m, staleOf s m = true → staleOf s' m = true := by
    intro m hs
    by_cases hk : (s.nodeD m).kind = .var v
    · exact R.staleOf_watch hk (Q.stamps m).1
    · rw [R.staleOf_eq hk]; exact hs
  have hother : ∀ m, m < s.nodes.size → m ≠ vc.node → (s.nodeD m).kind ≠ .var v := by
    intro m hm hne hk
    obtain ⟨vc0, h0, h1⟩ := Q.vars.node m v hm hk
    rw [hv] at h0; cases h0; exact hne h1.symm
  have static : AllStatic env s' := by
    refine ⟨by rw [R.pc]; exact I.static.pc, by rw [R.scope]; exact I.static.scope, fun m hm => ?_⟩
    have sn := I.static.node m (by rw [← R.size]; exact hm)
    obtain ⟨y, e⟩ := R.node m
    exact ⟨by rw [e]; exact sn.valid, by rw [e]; exact sn.kind,
      by rw [e]; exact sn.top, by rw [e]; exact sn.force, by rw [e]; exact sn.kidsLt⟩
  refine { static := static, par := ?_, conv := ?_, nodup := ?_, hlt := ?_, hpos := ?_,
           lnec := ?_, unec := ?_, heap := hheap, hgt := ?_, qnec := ?_, queued := ?_,
           qstale := ?_, opLt := ?_ }
  · intro c q i hm
    rw [R.parents] at hm
    rw [R.kind, hw]; exact I.par c q i hm
  · intro q i c hkq hw'
    rw [R.kind] at hkq
    rw [hw] at hw'
    rw [R.parents]; exact I.conv q i c hkq hw'
  · intro m; rw [R.parents]; exact I.nodup m
  · intro c q i hm ho
    rw [R.parents] at hm
    rw [R.height, R.height]; exact I.hlt c q i hm ho
  · intro m hn ho
    rw [R.nec] at hn
    rw [R.height]; exact I.hpos m hn ho
  · intro q k ho; cases ho
  · intro q k ho; cases ho
  · intro m hq' _
    by_cases e : m = vc.node
    · rw [e] at hq' ⊢
      rcases hq with ⟨h1, -⟩ | ⟨-, -, h2⟩
      · have hq0 : (s.nodeD vc.node).inRch = true := by simpa only [Node.inRch, h1] using hq'
        rw [h1, R.height]; exact I.hgt _ hq0 rfl
      · rw [h2, R.height]
    · rw [hinr m e] at hq'
      rw [hmark m e, R.height]; exact I.hgt m hq' rfl
  · intro m hq'
    rw [R.nec]
    by_cases e : m = vc.node
    · rw [e] at hq' ⊢
      rcases hq with ⟨h1, -⟩ | ⟨h2, -, -⟩
      · have hq0 : (s.nodeD vc.node).inRch = true := by simpa only [Node.inRch, h1] using hq'
        exact I.qnec _ hq0
      · exact Or.inl h2
    · rw [hinr m e] at hq'; exact I.qnec m hq'
  · intro m _ hn hs
    rw [R.nec] at hn
    by_cases e : m = vc.node
    · rw [e] at hn ⊢
      rcases hq with ⟨h1, h2⟩ | ⟨-, -, h2⟩
      · have := h2 hn
        simpa only [Node.inRch, h1] using this
      · have h0 := I.hpos _ hn rfl
        simp only [Node.inRch, h2]; simpa using h0
    · rw [R.staleOf_eq (hother m (nec_lt_size hn) e)] at hs
      rw [hinr m e]; exact I.queued m rfl hn hs
  · intro m hq'
    by_cases e : m = vc.node
    · rw [e]; exact R.staleOf_watch hkn (Q.stamps _).1
    · rw [hinr m e] at hq'; exact hmono m (I.qstale m hq')
  · intro m ho; exact absurd rfl ho

/-- the invariant between API actions after a write -/
theorem WRel.qinv (Q : QInv env e s) (hv : s.vars[v]? = some vc) (R : WRel v vc x s s')
    (S : Struct env s') : QInv env e s' := by
  refine { struct := S, vars := ?_, obs := ?_, now := by rw [R.stabNum]; exact Q.now, stamps := ?_,
           varStamp := ?_, cons := ?_, exact := ?_, status := R.status.trans Q.status, alive := R.alive.trans Q.alive,
           setDuringStab := R.setDuringStab.trans Q.setDuringStab, deadVars := R.deadVars.trans Q.deadVars,
           handleAfterStab := R.handleAfterStab.trans Q.handleAfterStab, handlers := ?_,
           pinv := R.pinv.trans Q.pinv, top := ?_ }
  · constructor
    · intro n c hn hk
      rw [R.size] at hn
      rw [R.kind] at hk
      obtain ⟨vc0, h0, h1⟩ := Q.vars.node n c hn hk
      by_cases hc : c = v
      · rw [hc] at h0 ⊢
        rw [hv] at h0; cases h0
        exact ⟨_, R.var, h1⟩
      · exact ⟨vc0, by rw [R.other c hc]; exact h0, h1⟩
    · intro c vc0 h0
      rw [R.size, R.kind]
      by_cases hc : c = v
      · rw [hc] at h0 ⊢
        rw [R.var] at h0; cases h0
        exact Q.vars.cell v vc hv
      · rw [R.other c hc] at h0; exact Q.vars.cell c vc0 h0
  · have O := Q.obs
    unfold ObsOK at O ⊢
    rw [R.newObservers, R.disallowedObservers]
    refine ⟨?_, ?_, ?_, ?_, ?_, ?_, O.disNodup⟩
    · intro o ob h; rw [R.observers] at h; rw [R.size]; exact O.inRange o ob h
    · intro n o; rw [R.nodeObs, R.observers]; exact O.mem n o
    · intro o ob h; rw [R.observers] at h; exact O.created o ob h
    · intro o h; rw [R.observers]; exact O.newIn o h
    · intro o ob h; rw [R.observers] at h; exact O.dis o ob h
    · intro o h; rw [R.observers]; exact O.disIn o h
  · intro m
    rw [R.recomputedAt, R.changedAt, R.stabNum]; exact Q.stamps m
  · intro c vc0 h0
    rw [R.stabNum]
    by_cases hc : c = v
    · rw [hc] at h0; rw [R.var] at h0; cases h0; exact Int.le_refl _
    · rw [R.other c hc] at h0; exact Q.varStamp c vc0 h0
  · intro m hm hst
    rw [R.size] at hm
    by_cases hk : (s.nodeD m).kind = .var v
    · rw [R.staleOf_watch hk (Q.stamps m).1] at hst; cases hst
    · rw [R.staleOf_eq hk] at hst
      obtain ⟨w, hval, hw⟩ := Q.cons m hm hst
      exact ⟨w, by rw [R.value]; exact hval, fun he => R.target hk (hw he)⟩
  · intro he m
    obtain ⟨y, ey⟩ := R.node m
    rw [ey]; exact Q.exact he m
  · intro m; rw [R.handlers]; exact Q.handlers m
  · intro k n h; rw [R.top] at h; rw [R.size]; exact Q.top k n h

end rel

/-! ## the concrete write -/

/-- the final state of a successful write outside `stabilise` keeps the invariant -/
theorem wroteOutside_q {env : Env} {s : State} {v : Nat} {vc : VarCell} (x : Val)
    (Q : QInv env e s) (hv : s.vars[v]? = some vc)
    (hh : vc.setAt < s.stabNum →
      ((s.nodeD vc.node).valid && s.isNecessary vc.node && !(s.nodeD vc.node).inRch) = true →
      0 ≤ (s.nodeD vc.node).height ∧ (s.nodeD vc.node).height ≤ s.rch.maxAllowed) :
    WRel v vc x s (wroteOutside v vc x s) ∧ QInv env e (wroteOutside v vc x s) := by
  have I : GInv env s allClosed := Q.struct
  have hle := Q.varStamp v vc hv
  have hvars := wroteOutside_vars v vc x s hv
  have hset : (if vc.setAt < s.stabNum then s.stabNum else vc.setAt) = s.stabNum := by
    split <;> omega
  rw [hset] at hvars
  have hsz : vc.node < s.nodes.size := (Q.vars.cell v vc hv).1
  have hkn : (s.nodeD vc.node).kind = .var v := (Q.vars.cell v vc hv).2
  -- the cases in which the nodes and the heap are untouched
  have same : ∀ s' : State, s'.nodes = s.nodes → s'.rch = s.rch →
      s'.vars[v]? = some { vc with value := x, setAt := s.stabNum } →
      (∀ w, w ≠ v → s'.vars[w]? = s.vars[w]?) →
      s'.stabNum = s.stabNum → s'.status = s.status → s'.panicCountdown = s.panicCountdown →
      s'.currentScope = s.currentScope → s'.observers = s.observers →
      s'.newObservers = s.newObservers → s'.disallowedObservers = s.disallowedObservers →
      s'.alive = s.alive →
      s'.setDuringStab = s.setDuringStab → s'.deadVars = s.deadVars →
      s'.handleAfterStab = s.handleAfterStab → s'.propagateInvalidity = s.propagateInvalidity →
      s'.top = s.top →
      (s.isNecessary vc.node = true → (s.nodeD vc.node).inRch = true) →
      WRel v vc x s s' ∧ QInv env e s' := by
    intro s' hn hr h1 h2 h3 h4 h5 h6 h7 h8 h9 h10 h11 h12 h13 h14 h15 hq
    have hD : ∀ m, s'.nodeD m = s.nodeD m := fun m => by simp only [State.nodeD, hn]
    have R : WRel v vc x s s' :=
      ⟨by rw [hn], fun m => ⟨(s.nodeD m).heightInRch, hD m⟩, h1, h2, h3, h4, h5, h6, h7, h8, h9, h10,
        h11, h12, h13, h14, h15⟩
    refine ⟨R, R.qinv Q hv (R.struct Q hv ?_ (fun m _ => by rw [hD]) (Or.inl ⟨by rw [hD], hq⟩))⟩
    exact I.heap.congr hr (by rw [hn]) (fun m => by rw [hD])
  by_cases h2 : s.stabNum ≤ vc.setAt
  · have e := wroteOutside_same_round v vc x s h2
    rw [e] at hvars ⊢
    refine same _ rfl rfl hvars.1 hvars.2 rfl rfl rfl rfl rfl rfl rfl rfl rfl rfl rfl rfl rfl ?_
    intro hn
    apply I.queued _ rfl hn
    unfold staleOf
    simp only [hkn, hv]
    have := (Q.stamps vc.node).1
    simp only [gt_iff_lt, decide_eq_true_eq]; omega
  · have hlt : vc.setAt < s.stabNum := by omega
    by_cases h4 : ((s.nodeD vc.node).valid && s.isNecessary vc.node && !(s.nodeD vc.node).inRch) = true
    · have e : wroteOutside v vc x s =
          inserted vc.node (s.nodeD vc.node).height (stampedWrite v vc x s) := by
        unfold wroteOutside; rw [if_neg h2, if_pos h4]
      rw [e] at hvars ⊢
      obtain ⟨h0, hmax⟩ := hh hlt h4
      rw [Bool.and_eq_true, Bool.and_eq_true] at h4
      obtain ⟨⟨hval, hnec⟩, hnq⟩ := h4
      have hnq' : (s.nodeD vc.node).inRch = false := by simpa using hnq
      have hW : HeapG (stampedWrite v vc x s) := I.heap.congr rfl rfl (fun m => rfl)
      have hI : HeapG (inserted vc.node (s.nodeD vc.node).height (stampedWrite v vc x s)) :=
        HeapG.inserted hW (p := vc.node) hsz hnq' h0 hmax
      have hD : ∀ m, (inserted vc.node (s.nodeD vc.node).height (stampedWrite v vc x s)).nodeD m =
          if vc.node = m ∧ m < s.nodes.size then
            { s.nodeD m with heightInRch := (s.nodeD vc.node).height } else s.nodeD m :=
        fun m => inserted_nodeD _ _ _ m
      have R : WRel v vc x s (inserted vc.node (s.nodeD vc.node).height (stampedWrite v vc x s)) := by
        refine ⟨by simp [inserted, stampedWrite, bumped, withCell], ?_, hvars.1, hvars.2, rfl, rfl, rfl,
          rfl, rfl, rfl, rfl, rfl, rfl, rfl, rfl, rfl, rfl⟩
        intro m
        rw [hD]
        split
        · exact ⟨_, rfl⟩
        · exact ⟨(s.nodeD m).heightInRch, rfl⟩
      refine ⟨R, R.qinv Q hv (R.struct Q hv hI ?_ (Or.inr ⟨hnec, hnq', ?_⟩))⟩
      · intro m hm
        rw [hD, if_neg (fun e => hm e.1.symm)]
      · rw [hD, if_pos ⟨rfl, hsz⟩]
    · have e : wroteOutside v vc x s = stampedWrite v vc x s := by
        unfold wroteOutside; rw [if_neg h2, if_neg h4]
      rw [e] at hvars ⊢
      refine same _ rfl rfl hvars.1 hvars.2 rfl rfl rfl rfl rfl rfl rfl rfl rfl rfl rfl rfl rfl ?_
      intro hn
      cases hq : (s.nodeD vc.node).inRch with
      | true => rfl
      | false =>
        exfalso; apply h4
        rw [(I.node hsz).valid, hn, hq]; rfl

/-- **write.** A successful write outside `stabilise` keeps the invariant; the cell gets the new value. -/
theorem writeVar_q {env : Env} {s s' : State} {v : Nat} {f : Val → Val} {isSet : Bool} {r : Val}
    (Q : QInv env e s) (h : (writeVar v f isSet).run.run s = (.ok r, s')) :
    QInv env e s' ∧ ∃ vc, s.vars[v]? = some vc ∧ r = vc.value ∧
      s'.vars[v]? = some { vc with value := f vc.value, setAt := s.stabNum } ∧
      (∀ w, w ≠ v → s'.vars[w]? = s.vars[w]?) := by
  obtain ⟨vc, hv⟩ := writeVar_ok_cell h
  have hst : s.status ≠ .stabilising := by rw [Q.status]; intro e; cases e
  obtain ⟨hr, hs', -, -, hh⟩ := writeVar_outside_ok v f isSet s s' vc r hv hst h
  obtain ⟨R, Q'⟩ := wroteOutside_q (f vc.value) Q hv hh
  rw [← hs'] at R Q'
  exact ⟨Q', vc, hv, hr, R.var, R.other⟩

/-- the write actions and the read-only actions of the API -/
def WriteOrRead : Action → Prop
  | .set _ _ | .modify _ _ | .update _ _ | .replace _ _ | .replaceWith _ _ => True
  | .get _ | .isStable | .stats => True
  | _ => False

theorem discard_ok_inv {α} {x : M α} {s s' : State} {u : Unit}
    (h : (discard x).run.run s = (.ok u, s')) : ∃ r, x.run.run s = (.ok r, s') := by
  have e : discard x = x >>= fun _ => pure () := by
    rw [Functor.discard, map_const, Function.comp_apply, map_eq_pure_bind]
  rw [e] at h
  obtain ⟨a, s1, h1, h2⟩ := bind_ok_inv h
  obtain ⟨-, e2⟩ := pure_ok_inv h2
  rw [e2]; exact ⟨a, h1⟩

theorem getVar_ok_inv {v : Nat} {s s' : State} {vc : VarCell}
    (h : (getVar v).run.run s = (.ok vc, s')) : s' = s := by
  rw [run_getVar] at h
  cases hv : s.vars[v]? with
  | none => rw [hv] at h; cases h
  | some x => rw [hv] at h; cases h; rfl

theorem step_write {env : Env} {s s' : State} {a : Action} {tokens : Array Nat} {r : String × Array Nat}
    (Q : QInv env e s) (ha : WriteOrRead a) (h : (stepAction env a tokens).run.run s = (.ok r, s')) :
    QInv env e s' := by
  cases a <;> try exact ha.elim
  case set v x =>
    unfold stepAction at h
    dsimp only at h
    obtain ⟨_, s1, h1, h2⟩ := bind_ok_inv h
    obtain ⟨-, e2⟩ := pure_ok_inv h2
    obtain ⟨r1, h1⟩ := discard_ok_inv h1
    rw [e2]; exact (writeVar_q Q h1).1
  case modify v d =>
    unfold stepAction at h
    dsimp only at h
    obtain ⟨_, s1, h1, h2⟩ := bind_ok_inv h
    obtain ⟨-, e2⟩ := pure_ok_inv h2
    obtain ⟨r1, h1⟩ := discard_ok_inv h1
    rw [e2]; exact (writeVar_q Q h1).1
  case update v d =>
    unfold stepAction at h
    dsimp only at h
    obtain ⟨_, s1, h1, h2⟩ := bind_ok_inv h
    obtain ⟨-, e2⟩ := pure_ok_inv h2
    obtain ⟨r1, h1⟩ := discard_ok_inv h1
    rw [e2]; exact (writeVar_q Q h1).1
  case replace v x =>
    unfold stepAction at h
    dsimp only at h
    obtain ⟨_, s1, h1, h2⟩ := bind_ok_inv h
    obtain ⟨-, e2⟩ := pure_ok_inv h2
    rw [e2]; exact (writeVar_q Q h1).1
  case replaceWith v d =>
    unfold stepAction at h
    dsimp only at h
    obtain ⟨_, s1, h1, h2⟩ := bind_ok_inv h
    obtain ⟨-, e2⟩ := pure_ok_inv h2
    rw [e2]; exact (writeVar_q Q h1).1
  case get v =>
    unfold stepAction at h
    dsimp only at h
    obtain ⟨_, s1, h1, h2⟩ := bind_ok_inv h
    obtain ⟨-, e2⟩ := pure_ok_inv h2
    rw [e2, getVar_ok_inv h1]; exact Q
  case isStable =>
    unfold stepAction at h
    dsimp only at h
    rw [run_bind_get] at h
    obtain ⟨-, e2⟩ := pure_ok_inv h
    rw [e2]; exact Q
  case stats =>
    unfold stepAction at h
    dsimp only at h
    obtain ⟨-, e2⟩ := pure_ok_inv h
    rw [e2]; exact Q

end IncrVerif.Proofs.CutH
