import IncrVerif.Proofs.NestH32
/-!
# Nested binds (F2), phase 3 (`lhsInvalidateOld`), part 3: the closed form of `invalidateNode` on a dying subtree (induction on the fuel), the loop, the phase

`inv_run`: from a state `t` that is the reference state `s` with the (closed) set `D` dead, `invalidateNode fuel r` ends in `s` with `D` and the dying
subtree of `r` dead.  When `r` is the main node of an inner bind, the recursive calls are analysed with the reference state `opened r b2 s`.
-/
namespace IncrVerif.Proofs.NestH
open IncrVerif.Engine IncrVerif.Proofs IncrVerif.Proofs.Step IncrVerif.Proofs.Sched IncrVerif.Proofs.Quiet
open IncrVerif.Proofs.BindH

namespace NI

/-- the specification of `invalidateNode fuel` -/
def RunSpec (rk : Nat → Nat) (fuel : Nat) : Prop :=
  ∀ (s t t' : State) (D : Nat → Prop) (r : Nat) (u : Unit),
    Mid2 s D t → Closed s D → RecsK s → Sub rk s r →
    (invalidateNode fuel r).run.run t = (.ok u, t') → Mid2 s (fun m => D m ∨ Dying s [r] m) t'

/-- the node is dead already: nothing happens -/
theorem run_dead_step {s t t' : State} {D : Nat → Prop} {fuel r : Nat} {u : Unit}
    (M : Mid2 s D t) (hC : Closed s D) (hlt : r < s.nodes.size) (hD : D r)
    (h : (invalidateNode (fuel + 1) r).run.run t = (.ok u, t')) :
    Mid2 s (fun m => D m ∨ Dying s [r] m) t' := by
  have hv : (t.nodeD r).valid = false := by rw [M.dead r hD]; rfl
  rw [Inval.invalidateNode_invalid fuel r t _ (some_of_lt (by rw [M.size]; exact hlt)) hv] at h
  cases h
  refine M.congr (fun m => ⟨fun hm => ?_, Or.inl⟩)
  rcases hm with hm | hm
  · exact hm
  · exact hC r m hD hm

/-- a node that is not a main node -/
theorem run_leaf_step {rk : Nat → Nat} {s t t' : State} {D : Nat → Prop} {fuel r : Nat} {u : Unit}
    (M : Mid2 s D t) (hR : RecsK s) (S : Sub rk s r) (hD : ¬ D r) (hk : ∀ b lc, (s.nodeD r).kind ≠ .bindMain b lc)
    (h : (invalidateNode (fuel + 1) r).run.run t = (.ok u, t')) :
    Mid2 s (fun m => D m ∨ Dying s [r] m) t' := by
  obtain ⟨hlt0, hv, hnec0, hq, hnoh⟩ := S.leaf r (dying_self s r)
  have hlt : r < t.nodes.size := by rw [M.size]; exact hlt0
  have ha : t.nodeD r = s.nodeD r := M.other r hD
  have hnec : t.isNecessary r = false := by
    unfold State.isNecessary at hnec0 ⊢
    rw [ha]; exact hnec0
  rw [CI.invalidateNode_dying_run fuel r t hlt (by rw [ha]; exact hv) hnec (by rw [ha]; exact hk)
    (by rw [ha]; exact hq)] at h
  cases h
  obtain ⟨-, f2, -, f4, f5, f6, f7⟩ := Inval.invalidated_fields r t
  obtain ⟨g1, g2, g3, g4, g5, g6, g7⟩ := CI.invalidated_rest r t
  have hiff : ∀ m, (D m ∨ Dying s [r] m) ↔ (D m ∨ m = r) := fun m =>
    ⟨fun h => h.elim Or.inl (fun h => Or.inr (dying_leaf hk h)), fun h => h.elim Or.inl (fun h => Or.inr (by rw [h]; exact dying_self s r))⟩
  refine Mid2.congr ?_ hiff
  refine ⟨by rw [f7, M.size], ?_, ?_, by rw [f5, M.bindsSize], ?_, by rw [g1, M.vars], by rw [f6, M.stabNum],
    by rw [g2, M.status], by rw [g3, M.cfg], by rw [g4, M.scope], by rw [g5, M.pc], by rw [f4, M.rch],
    by rw [g6, M.ahh], by rw [g7, M.top], by rw [f2, M.pinv]⟩
  · intro m hm
    have hma : m ≠ r := fun e => hm (Or.inr e)
    rw [Inval.invalidated_other r m t hma]
    exact M.other m (fun hd => hm (Or.inl hd))
  · intro m hm
    by_cases hma : m = r
    · subst hma
      rw [CI.invalidated_nodeD0 m t hlt (by rw [ha]; exact hnoh), ha, M.stabNum]
    · rw [Inval.invalidated_other r m t hma]
      rcases hm with hm | hm
      · exact M.dead m hm
      · exact absurd hm hma
  · intro b' br0 hb
    have hmr : br0.main ≠ r := by
      intro e
      obtain ⟨lc, hk0⟩ := hR b' br0 hb
      rw [e] at hk0
      exact hk _ _ hk0
    rw [f5]
    obtain ⟨h1, h2⟩ := M.binds b' br0 hb
    refine ⟨fun hd => h1 (hd.elim id (fun e => absurd e hmr)), fun hd => h2 (fun hd' => hd (Or.inl hd'))⟩

/-! ## the loop -/

theorem loop_run {rk : Nat → Nat} {fuel : Nat} (ih : RunSpec rk fuel) (s : State) (l : List Nat) :
    ∀ (D : Nat → Prop) (t t' : State) (u : PUnit), (∀ a, a ∈ l → Sub rk s a) → Mid2 s D t → Closed s D → RecsK s →
      (forIn l PUnit.unit fun (r : Nat) (_ : PUnit) => do
          invalidateNode fuel r
          pure (ForInStep.yield PUnit.unit) : M PUnit).run.run t = (.ok u, t') →
      Mid2 s (fun m => D m ∨ Dying s l m) t' := by
  induction l with
  | nil =>
    intro D t t' u _ M _ _ h
    rw [List.forIn_nil, run_pure] at h
    cases h
    exact M.congr (fun m => ⟨fun hm => hm.elim id (fun h => (dying_nil h).elim), Or.inl⟩)
  | cons a l ihl =>
    intro D t t' u hl M hC hR h
    rw [List.forIn_cons] at h
    obtain ⟨y, t1, hy, hrest⟩ := bind_ok_inv h
    obtain ⟨_, t2, h1, h2⟩ := bind_ok_inv hy
    obtain ⟨rfl, rfl⟩ := pure_ok_inv h2
    have M1 := ih s t t1 D a _ M hC hR (hl a (List.mem_cons_self ..)) h1
    simp only at hrest
    have M2 := ihl _ t1 t' u (fun x hx => hl x (List.mem_cons_of_mem _ hx)) M1 (closed_or hC) hR hrest
    refine M2.congr (fun m => ?_)
    rw [dying_cons]
    constructor
    · rintro (h | h | h)
      · exact Or.inl (Or.inl h)
      · exact Or.inl (Or.inr h)
      · exact Or.inr h
    · rintro ((h | h) | h)
      · exact Or.inl h
      · exact Or.inr (Or.inl h)
      · exact Or.inr (Or.inr h)

/-! ## a main node -/

/-- opening the main node `r` of bind `b2` in both states -/
theorem mid2_opened {s t : State} {D : Nat → Prop} {r b2 : Nat} {br2 : BindRec} (M : Mid2 s D t) (hD : ¬ D r)
    (hb2 : s.binds[b2]? = some br2) (hmain : br2.main = r) : Mid2 (opened r b2 s) D (openedT r b2 t) := by
  have hbt : t.binds[b2]? = some br2 := (M.binds b2 br2 hb2).2 (by rw [hmain]; exact hD)
  have hnode : ∀ m, (openedT r b2 t).nodeD m = (opened r b2 t).nodeD m := fun _ => rfl
  refine ⟨?_, ?_, ?_, ?_, ?_, M.vars, M.stabNum, M.status, M.cfg, M.scope, M.pc, M.rch, M.ahh, M.top, M.pinv⟩
  · show (t.nodes.modify r _).size = (s.nodes.modify r _).size
    rw [Array.size_modify, Array.size_modify]; exact M.size
  · intro m hm
    rw [hnode, opened_nodeD, opened_nodeD, M.other m hm, M.size, M.stabNum]
  · intro m hm
    have hne : m ≠ r := fun e => hD (e ▸ hm)
    rw [hnode, opened_other t hne, opened_other s hne]
    exact M.dead m hm
  · show (t.binds.modify b2 _).size = (s.binds.modify b2 _).size
    rw [Array.size_modify, Array.size_modify]; exact M.bindsSize
  · intro b' br0 hb
    have hbt' : (openedT r b2 t).binds[b']? = (opened r b2 t).binds[b']? := rfl
    rw [opened_binds] at hb
    rw [hbt', opened_binds]
    by_cases e : b2 = b'
    · subst e
      rw [if_pos rfl, hb2] at hb
      simp only [Option.map_some, Option.some.injEq] at hb
      rw [if_pos rfl, hbt, ← hb]
      refine ⟨fun hd => absurd (hmain ▸ hd) hD, fun _ => rfl⟩
    · rw [if_neg e] at hb
      rw [if_neg e]
      exact M.binds b' br0 hb

theorem run_main_step {rk : Nat → Nat} {fuel : Nat} (ih : RunSpec rk fuel) {s t t' : State} {D : Nat → Prop}
    {r b2 lc2 : Nat} {u : Unit} (M : Mid2 s D t) (hC : Closed s D) (hR : RecsK s) (S : Sub rk s r) (hD : ¬ D r)
    (hk : (s.nodeD r).kind = .bindMain b2 lc2)
    (h : (invalidateNode (fuel + 1) r).run.run t = (.ok u, t')) :
    Mid2 s (fun m => D m ∨ Dying s [r] m) t' := by
  obtain ⟨hlt, hv, hnec, hq, hnoh⟩ := S.leaf r (dying_self s r)
  obtain ⟨br2, hb2, hmain, hlist, hrk⟩ := S.main r b2 lc2 (dying_self s r) hk
  have ha : t.nodeD r = s.nodeD r := M.other r hD
  have hbt : t.binds[b2]? = some br2 := (M.binds b2 br2 hb2).2 (by rw [hmain]; exact hD)
  have hnect : t.isNecessary r = false := by
    unfold State.isNecessary at hnec ⊢
    rw [ha]; exact hnec
  obtain ⟨a, t2, hloop, hfin⟩ := invalidateNode_main_inv (by rw [M.size]; exact hlt) (by rw [ha]; exact hv) hnect
    (by rw [ha]; exact hk) (by rw [ha]; exact hnoh) hbt h
  have hsk := opened_sameSk r b2 s
  have M2 := loop_run ih (opened r b2 s) br2.allNodesCreatedOnRhs D _ t2 a (fun x hx => sub_child S hk hb2 hx)
    (mid2_opened M hD hb2 hmain) (closed_congr hsk hC) (recsK_opened hR) hloop
  -- `r` itself is untouched by the loop
  have hnr : ¬ (D r ∨ Dying (opened r b2 s) br2.allNodesCreatedOnRhs r) := by
    rintro (h | h)
    · exact hD h
    · obtain ⟨r', hr', hd⟩ := dying_split ((dying_congr hsk _ r).1 h)
      exact Nat.lt_irrefl _ (S.below hk hb2 hr' hd).2
  have hr2 : t2.nodeD r = stamp s.stabNum (s.nodeD r) := by
    rw [M2.other r hnr, opened_nodeD, if_pos ⟨rfl, hlt⟩]
  have hlt2 : r < t2.nodes.size := by rw [M2.size, hsk.size]; exact hlt
  have hpar : (s.nodeD r).parents = [] := by
    simp only [State.isNecessary, Node.isNecessary, Bool.or_eq_false_iff, Bool.not_eq_false', List.isEmpty_iff] at hnec
    exact hnec.1.1
  have hq' : ¬ (s.nodeD r).heightInRch ≥ 0 := by simpa [Node.inRch] using hq
  rw [Inval.invFinish_run r t2 _ (some_of_lt hlt2), hr2] at hfin
  have e1 : (stamp s.stabNum (s.nodeD r)).heightInRch = (s.nodeD r).heightInRch := rfl
  have e2 : (stamp s.stabNum (s.nodeD r)).parents = (s.nodeD r).parents := rfl
  rw [e1, e2, if_neg hq', hpar, Inval.pushParents_nil] at hfin
  cases hfin
  -- the final state
  have hiff : ∀ m, (D m ∨ Dying s [r] m) ↔ ((D m ∨ Dying (opened r b2 s) br2.allNodesCreatedOnRhs m) ∨ m = r) := by
    intro m
    rw [dying_main_iff S hk hb2 m, dying_congr hsk]
    constructor
    · rintro (h | h | h)
      · exact Or.inl (Or.inl h)
      · exact Or.inr h
      · exact Or.inl (Or.inr h)
    · rintro ((h | h) | h)
      · exact Or.inl h
      · exact Or.inr (Or.inr h)
      · exact Or.inr (Or.inl h)
  refine Mid2.congr ?_ hiff
  refine ⟨?_, ?_, ?_, ?_, ?_, M2.vars, M2.stabNum, M2.status, M2.cfg, M2.scope, M2.pc, M2.rch, M2.ahh, M2.top, M2.pinv⟩
  · show (t2.nodes.modify r _).size = _
    rw [Array.size_modify, M2.size, hsk.size]
  · intro m hm
    have hne : m ≠ r := fun e => hm (Or.inr e)
    rw [Inval.markedInvalid_nodeD, if_neg (fun hc => hne hc.1.symm), M2.other m (fun hd => hm (Or.inl hd)),
      opened_other s hne]
  · intro m hm
    by_cases hne : m = r
    · subst hne
      rw [Inval.markedInvalid_nodeD, if_pos ⟨rfl, hlt2⟩, hr2]
      rfl
    · rw [Inval.markedInvalid_nodeD, if_neg (fun hc => hne hc.1.symm)]
      have hd : D m ∨ Dying (opened r b2 s) br2.allNodesCreatedOnRhs m := hm.elim id (fun e => absurd e hne)
      rw [M2.dead m hd, opened_other s hne]
      rfl
  · show t2.binds.size = _
    rw [M2.bindsSize]
    show (s.binds.modify b2 _).size = _
    rw [Array.size_modify]
  · intro b' br0 hb
    show (_ → t2.binds[b']? = _) ∧ (_ → t2.binds[b']? = _)
    by_cases e : b2 = b'
    · subst e
      rw [hb2] at hb; cases hb
      have hbo : (opened r b2 s).binds[b2]? = some { br2 with allNodesCreatedOnRhs := [] } := by
        rw [opened_binds, if_pos rfl, hb2]; rfl
      obtain ⟨h1, h2⟩ := M2.binds b2 _ hbo
      refine ⟨fun _ => ?_, fun hd => absurd (Or.inr hmain) hd⟩
      by_cases hd : D br2.main ∨ Dying (opened r b2 s) br2.allNodesCreatedOnRhs br2.main
      · exact h1 hd
      · exact h2 hd
    · have hbo : (opened r b2 s).binds[b']? = some br0 := by rw [opened_binds, if_neg e]; exact hb
      have hmr : br0.main ≠ r := by
        intro e'
        obtain ⟨lc, hk0⟩ := hR b' br0 hb
        rw [e', hk] at hk0
        injection hk0 with e1
        exact e e1
      obtain ⟨h1, h2⟩ := M2.binds b' br0 hbo
      exact ⟨fun hd => h1 (hd.elim id (fun e => absurd e hmr)), fun hd => h2 (fun hd' => hd (Or.inl hd'))⟩

/-! ## the closed form -/

theorem inv_run (rk : Nat → Nat) : ∀ fuel, RunSpec rk fuel := by
  intro fuel
  induction fuel with
  | zero =>
    intro s t t' D r u _ _ _ _ h
    rw [Inval.invalidateNode_zero] at h; cases h
  | succ fuel ih =>
    intro s t t' D r u M hC hR S h
    by_cases hD : D r
    · exact run_dead_step M hC (S.leaf r (dying_self s r)).1 hD h
    · by_cases hk : ∃ b lc, (s.nodeD r).kind = .bindMain b lc
      · obtain ⟨b2, lc2, hk⟩ := hk
        exact run_main_step ih M hC hR S hD hk h
      · exact run_leaf_step M hR S hD (fun b lc hc => hk ⟨b, lc, hc⟩) h

/-- the whole phase: exactly the dying nodes are invalidated -/
theorem lhsInvalidateOld_mid2 {rk : Nat → Nat} {fuel : Nat} {br : BindRec} {s s' : State} {u : Unit}
    (h : (Inval.lhsInvalidateOld fuel br).run.run s = (.ok u, s'))
    (hnone : br.rhs = none → br.allNodesCreatedOnRhs = [])
    (hl : ∀ a, a ∈ br.allNodesCreatedOnRhs → Sub rk s a) (hR : RecsK s) (hp : s.propagateInvalidity = []) :
    Mid2 s (Dying s br.allNodesCreatedOnRhs) s' := by
  unfold Inval.lhsInvalidateOld at h
  cases hr : br.rhs with
  | none =>
    rw [hr] at h
    simp only [Option.isSome_none, Bool.false_eq_true, if_false] at h
    obtain ⟨-, e⟩ := pure_ok_inv h
    rw [e, hnone hr]
    exact (Mid2.refl s).congr (fun m => ⟨fun hm => dying_nil hm, fun hm => hm.elim⟩)
  | some o =>
    rw [hr] at h
    simp only [Option.isSome_some, if_true] at h
    obtain ⟨_, t, hloop, hprop⟩ := bind_ok_inv h
    have M := loop_run (inv_run rk fuel) s br.allNodesCreatedOnRhs _ s t _ hl (Mid2.refl s) (closed_false s) hR hloop
    have e := CI.propagateInvalidity_nil' hprop (by rw [M.pinv]; exact hp)
    rw [e]
    exact M.congr (fun m => ⟨Or.inr, fun hm => hm.elim (fun h => h.elim) id⟩)

end NI

end IncrVerif.Proofs.NestH
