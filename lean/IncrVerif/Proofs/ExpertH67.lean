import IncrVerif.Proofs.ExpertH42
/-!
# Expert nodes: the prefix of `stabilise` (observers added and unlinked) establishes the drain invariant
(the first half of the proof of `stabiliseX`, as a lemma of its own)
-/
namespace IncrVerif.Proofs.ExpertH
open IncrVerif.Engine IncrVerif.Driver IncrVerif.Proofs IncrVerif.Proofs.Step IncrVerif.Proofs.Sched
open IncrVerif.Proofs.ExpertH.QR

theorem stabilise_prefixX {env : Env} {rk : Nat → Nat} {fuel : Nat} {s t1 t2 : State} (Q : QInvX env rk s)
    (h1 : (addNewObservers env fuel).run.run { s with status := .stabilising } = (.ok (), t1))
    (h2 : (unlinkDisallowedObservers fuel).run.run t1 = (.ok (), t2)) :
    DInvX env t2 none ∧ UnnecOK (virtEnv env) (virt t2) := by
  generalize hs0 : ({ s with status := .stabilising } : State) = s0 at h1
  replace hs0 := hs0.symm
  have Qv := Q.q
  -- the state with the status set
  have hs0v : virt s0 = { virt s with status := .stabilising } := by rw [hs0]; rfl
  have F0 : XFrag env s0 := by
    rw [hs0]; exact ⟨Q.frag.pc, Q.frag.kind, Q.frag.valid, Q.frag.xrec, Q.frag.xok⟩
  have A0 : QR.AhhEmpty s0 := by
    rw [hs0]; exact ⟨Q.ahh.length, Q.ahh.buckets, Q.ahh.marks⟩
  have hp0 : s0.propagateInvalidity = [] := by rw [hs0]; exact Q.pinv
  have S0 : SInv (virtEnv env) rk (virt s0) (virt s0).newObservers (virt s0).disallowedObservers := by
    rw [hs0v]
    exact ⟨Qv.struct.congr (SameG.of_nodes rfl rfl rfl rfl rfl),
      ⟨Qv.obs.inRange, Qv.obs.mem, Qv.obs.created, Qv.obs.newIn, Qv.obs.dis, Qv.obs.disIn, Qv.obs.disNodup⟩,
      Qv.pinv, Qv.handlers⟩
  -- the prefix: simulated by the virtual engine
  obtain ⟨hv1, fr1⟩ := Sim.addNewObservers env fuel s0 (F0.fr hp0) _ t1 h1
  obtain ⟨S1, hn1, hd1, P1, O1, -⟩ := addNewObservers_s S0 hv1
  have F1 : XFrag env t1 := F0.of_xf ((PresX.addNewObservers env fuel).h _ _ _ h1) fr1
  have A1 : QR.AhhEmpty t1 := ahhEmpty_of_ahf A0 ((PresAh.addNewObservers env fuel).h _ _ _ h1)
  obtain ⟨hv2, fr2⟩ := Sim.unlinkDisallowedObservers fuel t1 fr1 _ t2 h2
  obtain ⟨S2, hn2, hd2, P2, O2⟩ := unlinkDisallowedObservers_s S1 hn1 hv2
  have F2 : XFrag env t2 := F1.of_xf ((PresX.unlinkDisallowedObservers fuel).h _ _ _ h2) fr2
  have A2 : QR.AhhEmpty t2 := ahhEmpty_of_ahf A1 ((PresAh.unlinkDisallowedObservers fuel).h _ _ _ h2)
  have P := P1.trans P2
  -- the drain
  obtain ⟨D2, U2⟩ := drain_start Qv hs0v S2 P
  have DR2 : DInvX env t2 none := ⟨F2, D2, fr2.pinv, A2⟩
  exact ⟨DR2, U2⟩

end IncrVerif.Proofs.ExpertH
