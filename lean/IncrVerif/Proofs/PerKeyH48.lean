import IncrVerif.Proofs.PerKeyH44
import IncrVerif.Proofs.PerKeyH47
/-!
# Per-key operators, static steps part 4: the bookkeeping invariants along a step that changes one value

`VStep s s' n v`: what `NoRem` and `PKOK` read of a step of the node `n` (not a change detector, not an expert node)
that stored `v`: the frames `SF`, the cells, the values of the other nodes, the new value of a variable node / of a
conversion node, and the staleness of the change detectors.
-/
namespace IncrVerif.Proofs.PerKeyH
open IncrVerif.Engine IncrVerif.Driver IncrVerif.Proofs IncrVerif.Proofs.Step IncrVerif.Proofs.Sched
open IncrVerif.Proofs.ExpertH IncrVerif.Proofs.EffH IncrVerif.Proofs.DriverH IncrVerif.Proofs.Xp
open IncrVerif.Proofs.ExpertH.QR

structure VStep (s s' : State) (n : Nat) (v : Val) : Prop where
  sf : SF s s'
  vars : s'.vars = s.vars
  other : ∀ m, m ≠ n → (s'.nodeD m).value = (s.nodeD m).value
  self : n < s.nodes.size → (s'.nodeD n).value = some v
  obsN : ∀ m, (s'.nodeD m).observers = (s.nodeD m).observers
  /-- a variable node takes the value of its cell -/
  tvar : ∀ c vc, (s.nodeD n).kind = .var c → s.vars[c]? = some vc → v = vc.value
  /-- a conversion node takes the value of its input -/
  tconv : ∀ x, (s.nodeD n).kind = .map fnIdent [x] → (s.nodeD x).value = some v
  /-- a change detector that is not stale afterwards was not stale, and if `n` is its input the value is unchanged -/
  lcStale : ∀ lc f c, (s.nodeD lc).kind = .map f [c] → fnPerKey ≤ f → s'.isStale lc = false →
    s.isStale lc = false ∧ (c = n → (s'.nodeD n).value = (s.nodeD n).value)
  /-- expert nodes whose virtual stamp is `-1` keep it (`n` is not an expert node) -/
  stamp : ∀ m e, (s.nodeD m).kind = .expert e → ((V s).nodeD m).recomputedAt = -1 → ((V s').nodeD m).recomputedAt = -1

theorem lt_of_kind_map {s : State} {m f : Nat} {args : List Nat} (h : (s.nodeD m).kind = .map f args) :
    m < s.nodes.size := by
  by_cases hm : m < s.nodes.size
  · exact hm
  · rw [nodeD_default_of_ge s m (by omega)] at h; cases h

theorem lt_of_kind_var {s : State} {m c : Nat} (h : (s.nodeD m).kind = .var c) : m < s.nodes.size := by
  by_cases hm : m < s.nodes.size
  · exact hm
  · rw [nodeD_default_of_ge s m (by omega)] at h; cases h

theorem keysSub_refl (a : List (Int × Int)) : keysSub a a := fun _ h => h

/-! ## `NoRem` -/

theorem NoRem.of_vstep {s s' : State} {n : Nat} {v : Val} (N : NoRem s) (S : VStep s s' n v) : NoRem s' := by
  intro op pr hpr
  rw [S.sf.perkeys] at hpr
  obtain ⟨x, c, vc, mv, hconv, hx, hvc, hval, hsorted, hsub, hxv, hcv⟩ := (N op pr hpr).input
  -- the new value of the variable node, if `n` is it
  have hxnew : x = n → (s'.nodeD x).value = some (.map mv) := by
    intro ex
    rw [ex, S.self (by rw [← ex]; exact lt_of_kind_var hx), S.tvar c vc (by rw [← ex]; exact hx) hvc, hval]
  have hxv' : ∀ w, (s'.nodeD x).value = some w → ∃ m2, w = .map m2 ∧ IncrVerif.AMap.Sorted m2 ∧ keysSub m2 mv ∧
      keysSub pr.prevMap m2 := by
    intro w hw
    by_cases ex : x = n
    · rw [hxnew ex] at hw
      cases hw
      exact ⟨mv, rfl, hsorted, keysSub_refl mv, hsub⟩
    · rw [S.other x ex] at hw; exact hxv w hw
  refine ⟨x, c, vc, mv, by rw [S.sf.kind]; exact hconv, by rw [S.sf.kind]; exact hx, by rw [S.vars]; exact hvc, hval,
    hsorted, hsub, hxv', ?_⟩
  intro w hw
  by_cases ec : pr.result - 1 = n
  · -- the conversion node ran: it took the value of the variable node
    have hxn : x ≠ n := by
      intro ex
      rw [ec] at hconv; rw [ex] at hx
      rw [hconv] at hx; cases hx
    have hv := S.tconv x (by rw [← ec]; exact hconv)
    rw [ec, S.self (by rw [← ec]; exact lt_of_kind_map hconv)] at hw
    cases hw
    obtain ⟨m2, rfl, h2, h3, h4⟩ := hxv _ hv
    refine ⟨m2, rfl, h2, h3, h4, fun m2' h' => ?_⟩
    rw [S.other x hxn, hv] at h'
    cases h'
    exact keysSub_refl _
  · rw [S.other _ ec] at hw
    obtain ⟨m1, rfl, h2, h3, h4, h5⟩ := hcv w hw
    refine ⟨m1, rfl, h2, h3, h4, fun m2 h' => ?_⟩
    by_cases ex : x = n
    · rw [hxnew ex] at h'
      cases h'
      exact h3
    · rw [S.other x ex] at h'; exact h5 m2 h'

/-! ## `PKOK` -/

theorem SF.kf {s s' : State} (f : SF s s')
    (hst : ∀ m e, (s.nodeD m).kind = .expert e → ((V s).nodeD m).recomputedAt = -1 → ((V s').nodeD m).recomputedAt = -1) :
    KF s s' where
  grow := Nat.le_of_eq f.size.symm
  kind m _ := f.kind m
  xrec e er he := by
    have := f.xf.xcore e
    rw [he] at this
    cases h' : s'.experts[e]? with
    | none => rw [h'] at this; cases this
    | some er' =>
      rw [h'] at this
      simp only [Option.map_some, Option.some.injEq] at this
      exact ⟨er', rfl, this⟩
  top k m h := by rw [f.top]; exact h
  kids m _ := kidsX_frame f.xf m
  stamp m e _ hk hs := hst m e hk hs

theorem SF.stObservers {s s' : State} (f : SF s s') : s'.observers = s.observers := by
  have := f.df.keyD; simp only [KeyD, stateKeyD, Prod.mk.injEq] at this; exact this.1

theorem OpOK.of_vstep {env : Env} {s s' : State} {n : Nat} {v : Val} {op : Nat} {pr : PerKeyRec}
    (O : OpOK env s op pr) (S : VStep s s' n v) : OpOK env s' op pr := by
  refine O.of_frame (S.sf.kf S.stamp) (fun c x h1 h2 => ?_) (fun x _ hx => by rw [S.obsN]; exact hx)
    (fun k x hk => Or.inl (by rw [← S.sf.top]; exact hk)) (fun hst => ?_)
  · rw [S.sf.size] at h2; omega
  · obtain ⟨x, e, er, hN, -⟩ := O.nodes
    have hlk : (s.nodeD pr.lhsChange).kind = .map (fnPerKey + op) [pr.result - 1] := by rw [hN.lc]; exact hN.lcKind
    obtain ⟨h1, h2⟩ := S.lcStale pr.lhsChange (fnPerKey + op) (pr.result - 1) hlk (Nat.le_add_right _ _) hst
    by_cases ec : pr.result - 1 = n
    · have h3 := O.input h1
      rw [ec] at h3 ⊢
      rw [h2 ec]; exact h3
    · rw [S.other _ ec]; exact O.input h1

theorem PKOK.of_vstep {env : Env} {s s' : State} {n : Nat} {v : Val} (P : PKOK env s) (S : VStep s s' n v)
    (N' : NoRem s') : PKOK env s' where
  ops op pr hpr := by
    rw [S.sf.perkeys] at hpr
    exact (P.ops op pr hpr).of_vstep S
  recs := P.recs.of_frame S.sf.perkeys fun e er' he' => by
    obtain ⟨er, he, -, hn, -, hpk, -⟩ := S.sf.xf.xrec_back he'
    exact ⟨er, he, hpk, hn⟩
  pot := by
    obtain ⟨ψ, hψ⟩ := P.pot
    exact ⟨ψ, hψ.of_frame S.sf.size S.sf.kind (fun e => (xRec_frame S.sf.xf e).2.1) S.sf.top S.sf.perkeys⟩
  lcs m f args hm hk hf := by
    rw [S.sf.size] at hm; rw [S.sf.kind] at hk; rw [S.sf.perkeys]
    exact P.lcs m f args hm hk hf
  obsTop o ob ho := by
    rw [S.sf.stObservers] at ho; rw [S.sf.top]
    exact P.obsTop o ob ho
  maps op pr hpr w hw := by
    obtain ⟨x, c, vc, mv, -, -, -, -, -, -, -, hcv⟩ := (N' op pr hpr).input
    obtain ⟨m1, h1, h2, -⟩ := hcv w hw
    exact ⟨m1, h1, h2⟩

end IncrVerif.Proofs.PerKeyH
