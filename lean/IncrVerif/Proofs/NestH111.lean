import IncrVerif.Proofs.NestH110
/-!
# Total correctness for nested binds (F2), API actions other than `stabilise`, part 2: the observer actions, the writes and the read-only actions return

Port of `Quiet27` from `Quiet.QInv`/`Quiet.TInv N` to `QInv2 env rk`/`TInv2 rk N` (SAME ghost rank: these actions create no node).
Reused unchanged: `Quiet.SimpleAction`, `Quiet.P27.Grown_same` (via `T2k.grown2_same`), `Quiet.P27.wroteOutside_sizes`, `Quiet.P27.discard_total`,
`Quiet.P27.getVar_total`, and all the `Tot` combinators.
-/
namespace IncrVerif.Proofs.NestH
open IncrVerif.Engine IncrVerif.Driver IncrVerif.Proofs IncrVerif.Proofs.Step IncrVerif.Proofs.Sched IncrVerif.Proofs.Quiet
open IncrVerif.Proofs.BindH

namespace T2k

/-! ## `TInv2` under changes of the observer bookkeeping -/

/-- `TInv2` reads the nodes, the var cells, the two heaps (their number of buckets) and the observers waiting to be added -/
theorem tinv2_of_frame {rk : Nat → Nat} {N : Nat} {s s' : State} (T : TInv2 rk N s) (hn : s'.nodes = s.nodes)
    (hv : s'.vars = s.vars) (ha : s'.ahh = s.ahh) (hr : s'.rch = s.rch)
    (h1 : s'.newObservers.Nodup)
    (h2 : ∀ (o : Nat) (ob : ObsRec), o ∈ s'.newObservers → s'.observers[o]? = some ob →
      ob.state = .created ∨ ob.state = .unlinked) : TInv2 rk N s' where
  hb m hm ho := by
    have hD : s'.nodeD m = s.nodeD m := by simp only [State.nodeD, hn]
    have hnec : s'.isNecessary m = s.isNecessary m := by simp only [State.isNecessary, hD]
    rw [hnec] at hm; rw [hD, hn]; exact T.hb m hm ho
  room := ⟨by rw [ha]; exact T.room.ahh, by rw [hr]; exact T.room.rch, by rw [hn]; exact T.room.size⟩
  linked c vc h := by rw [hv] at h; exact T.linked c vc h
  newNodup := h1
  newState := h2

/-- modifying one observer record so that `created`/`unlinked` records stay so -/
theorem tinv2_modObs {rk : Nat → Nat} {N : Nat} {s s' : State} {o : Nat} {f : ObsRec → ObsRec} (T : TInv2 rk N s)
    (hn : s'.nodes = s.nodes) (hv : s'.vars = s.vars) (ha : s'.ahh = s.ahh)
    (hr : s'.rch = s.rch) (hnew : s'.newObservers = s.newObservers)
    (ho : s'.observers = s.observers.modify o f)
    (hf : ∀ ob, s.observers[o]? = some ob → (ob.state = .created ∨ ob.state = .unlinked) →
      ((f ob).state = .created ∨ (f ob).state = .unlinked)) : TInv2 rk N s' := by
  refine tinv2_of_frame T hn hv ha hr (by rw [hnew]; exact T.newNodup) ?_
  intro o' ob hm h
  rw [hnew] at hm
  rw [ho, Array.getElem?_modify] at h
  split at h
  · rename_i e
    cases hob : s.observers[o']? with
    | none => rw [hob] at h; cases h
    | some x =>
      rw [hob] at h; cases h
      rw [← e] at hob
      exact hf x hob (T.newState o x (by rw [e]; exact hm) hob)
  · exact T.newState o' ob hm h

theorem grown2_same {a : Action} {s s' : State} (hg : grow2 a = (0, 0, 0)) (ht : growTop a = 0)
    (h1 : s'.nodes.size = s.nodes.size) (h2 : s'.vars.size = s.vars.size) (h3 : s'.observers.size = s.observers.size)
    (h4 : s'.top = s.top) : Grown2 a s s' := by
  unfold Grown2; rw [hg, ht, h4]; exact ⟨h1, h2, h3, rfl⟩

/-! ## the observer actions -/

theorem observe_total2 {env : Env} {rk : Nat → Nat} {N : Nat} {s : State} {k : Nat} {tk : Array Nat}
    (Q : QInv2 env rk s) (T : TInv2 rk N s) (hk : k < s.top.size) :
    Tot (stepAction env (.observe (.outer k)) tk) s
      (fun r s' => r.2 = tk ∧ TInv2 rk N s' ∧ Grown2 (.observe (.outer k)) s s') := by
  simp only [stepAction, resolveOpnd]
  have h0 : s.top[k]? = some s.top[k] := Array.getElem?_eq_getElem hk
  refine Tot.bind_ok (a := s.top[k]) (s1 := s) (by rw [run_bind_get, h0]; rfl) ?_
  refine Tot.bind_get (Tot.bind_modify ?_)
  refine Tot.of_ok (by rw [run_bind_bumpCounter]; exact run_pure _ _) ⟨rfl, ?_, ?_⟩
  · refine tinv2_of_frame T rfl rfl rfl rfl ?_ ?_
    · show (s.newObservers ++ [s.observers.size]).Nodup
      rw [List.nodup_append]
      refine ⟨T.newNodup, List.nodup_cons.2 ⟨List.not_mem_nil, List.nodup_nil⟩, ?_⟩
      intro a ha b hb
      rw [List.mem_singleton] at hb
      rw [hb]; intro e; rw [e] at ha
      obtain ⟨ob, hob⟩ := Q.obs.newIn _ ha
      simp at hob
    · intro o ob hm h
      have hm' : o ∈ s.newObservers ++ [s.observers.size] := hm
      have h' : (s.observers.push { node := s.top[k] })[o]? = some ob := h
      rw [Array.getElem?_push] at h'
      split at h'
      · cases h'; exact Or.inl rfl
      · rename_i ne
        rcases List.mem_append.1 hm' with hm1 | hm1
        · exact T.newState o ob hm1 h'
        · rw [List.mem_singleton] at hm1; exact absurd hm1 ne
  · refine ⟨rfl, rfl, ?_, rfl⟩
    show (s.observers.push _).size = _
    rw [Array.size_push]; rfl

theorem cloneObs_total2 {rk : Nat → Nat} {N : Nat} {env : Env} {s : State} {o : Nat} {tk : Array Nat} (T : TInv2 rk N s) :
    Tot (stepAction env (.cloneObs o) tk) s
      (fun r s' => r.2 = tk ∧ TInv2 rk N s' ∧ Grown2 (.cloneObs o) s s') := by
  simp only [stepAction]
  refine Tot.bind_ok (run_modObs _ _ s) (Tot.pure ⟨rfl, ?_, ?_⟩)
  · exact tinv2_modObs T (o := o) (f := fun x => { x with clones := x.clones + 1 }) rfl rfl rfl rfl rfl rfl
      (fun ob _ h => h)
  · exact grown2_same rfl rfl rfl rfl (Array.size_modify ..) rfl

theorem disallowFutureUse_total2 {rk : Nat → Nat} {N : Nat} {s : State} {o : Nat} (T : TInv2 rk N s) (ho : o < s.observers.size) :
    Tot (disallowFutureUse o) s (fun _ s' => TInv2 rk N s' ∧ s'.nodes.size = s.nodes.size ∧
      s'.vars.size = s.vars.size ∧ s'.observers.size = s.observers.size ∧ s'.top = s.top) := by
  unfold disallowFutureUse
  have h0 : s.observers[o]? = some s.observers[o] := Array.getElem?_eq_getElem ho
  refine Tot.bind_ok (a := s.observers[o]) (s1 := s) (by rw [run_getObs, h0]) ?_
  cases hst : s.observers[o].state with
  | disallowed => exact Tot.pure ⟨T, rfl, rfl, rfl, rfl⟩
  | unlinked => exact Tot.pure ⟨T, rfl, rfl, rfl, rfl⟩
  | created =>
    dsimp only
    refine Tot.bind_ok (run_bumpCounter _ _) (Tot.of_ok (run_modObs _ _ _) ⟨?_, rfl, rfl, ?_, rfl⟩)
    · exact tinv2_modObs T (o := o) (f := fun x => { x with state := .unlinked, handlers := [] })
        rfl rfl rfl rfl rfl rfl (fun ob _ _ => Or.inr rfl)
    · exact Array.size_modify ..
  | inUse =>
    dsimp only
    refine Tot.bind_ok (run_bumpCounter _ _) (Tot.bind_ok (run_modObs _ _ _)
      (Tot.of_ok (run_modify _ _) ⟨?_, rfl, rfl, ?_, rfl⟩))
    · refine tinv2_modObs T (o := o) (f := fun x => { x with state := .disallowed }) rfl rfl rfl rfl rfl rfl ?_
      intro ob hob h
      rw [h0] at hob; cases hob
      rw [hst] at h; rcases h with h | h <;> cases h
    · exact Array.size_modify ..

theorem dropObs_total2 {rk : Nat → Nat} {N : Nat} {env : Env} {s : State} {o : Nat} {tk : Array Nat} (T : TInv2 rk N s)
    (ho : o < s.observers.size) :
    Tot (stepAction env (.dropObs o) tk) s
      (fun r s' => r.2 = tk ∧ TInv2 rk N s' ∧ Grown2 (.dropObs o) s s') := by
  simp only [stepAction]
  have h0 : s.observers[o]? = some s.observers[o] := Array.getElem?_eq_getElem ho
  refine Tot.bind_ok (a := s.observers[o]) (s1 := s) (by rw [run_getObs, h0]) ?_
  split
  · exact Tot.pure ⟨rfl, T, grown2_same rfl rfl rfl rfl rfl rfl⟩
  · refine Tot.bind_ok (run_modObs _ _ s) ?_
    have T1 : TInv2 rk N { s with observers := s.observers.modify o fun x => { x with clones := x.clones - 1 } } :=
      tinv2_modObs T (o := o) (f := fun x => { x with clones := x.clones - 1 }) rfl rfl rfl rfl rfl rfl
        (fun ob _ h => h)
    have hsz : (s.observers.modify o fun x => { x with clones := x.clones - 1 }).size = s.observers.size :=
      Array.size_modify ..
    split
    · refine Tot.bind (disallowFutureUse_total2 T1 (by rw [hsz]; exact ho)) ?_
      rintro u s1 - ⟨T2, e1, e2, e3, e4⟩
      exact Tot.pure ⟨rfl, T2, grown2_same rfl rfl e1 e2 (e3.trans hsz) e4⟩
    · exact Tot.pure ⟨rfl, T1, grown2_same rfl rfl rfl rfl hsz rfl⟩

theorem disallow_total2 {rk : Nat → Nat} {N : Nat} {env : Env} {s : State} {o : Nat} {tk : Array Nat} (T : TInv2 rk N s)
    (ho : o < s.observers.size) :
    Tot (stepAction env (.disallow o) tk) s
      (fun r s' => r.2 = tk ∧ TInv2 rk N s' ∧ Grown2 (.disallow o) s s') := by
  simp only [stepAction]
  refine Tot.bind (disallowFutureUse_total2 T ho) ?_
  rintro u s1 - ⟨T2, e1, e2, e3, e4⟩
  exact Tot.pure ⟨rfl, T2, grown2_same rfl rfl e1 e2 e3 e4⟩

/-! ## the writes -/

/-- a write outside `stabilise` returns: the watch node is top-level, hence valid; if it has to be queued, its height is within the heap
(`HBo2.le_max`: the position of a node in the rank order is below the number of nodes `≤ N`) -/
theorem writeVar_total2 {env : Env} {rk : Nat → Nat} {N : Nat} {s : State} {v : Nat} {f : Val → Val} {isSet : Bool}
    (Q : QInv2 env rk s) (T : TInv2 rk N s) (hv : v < s.vars.size) :
    Tot (writeVar v f isSet) s (fun _ s' => QInv2 env rk s' ∧ TInv2 rk N s' ∧ s'.nodes.size = s.nodes.size ∧
      s'.vars.size = s.vars.size ∧ s'.observers.size = s.observers.size ∧ s'.top = s.top) := by
  have hv0 : s.vars[v]? = some s.vars[v] := Array.getElem?_eq_getElem hv
  generalize s.vars[v] = vc at hv0
  have hst : s.status ≠ .stabilising := by rw [Q.status]; intro e; cases e
  have I : GInv2 env rk s allClosed noEx [] := Q.struct
  have hsz : vc.node < s.nodes.size := (Q.vars.cell v vc hv0).1
  have hkn : (s.nodeD vc.node).kind = .var v := (Q.vars.cell v vc hv0).2
  have hl : vc.linked = true := T.linked v vc hv0
  have hval : (s.nodeD vc.node).valid = true := (N4w.var_top I.frag hsz hkn).2
  have hok : ((writeVar v f isSet).run.run s).1 = .ok vc.value := by
    rw [writeVar_outside_result v f isSet s vc hv0 hst, if_neg (by rw [hl]; intro e; cases e)]
    split
    · rfl
    rename_i h2
    have hstale : (stampedWrite v vc (f vc.value) s).isStale vc.node = true := by
      have hn : (stampedWrite v vc (f vc.value) s).nodes[vc.node]? = some (s.nodeD vc.node) := by
        show s.nodes[vc.node]? = _
        rw [State.nodeD, Array.getElem?_eq_getElem hsz]; rfl
      have hc : (stampedWrite v vc (f vc.value) s).vars[v]? =
          some { vc with value := f vc.value, setAt := s.stabNum } := withCell_get v _ vc s hv0
      rw [isStale_var _ _ v _ _ hn hkn hc, hval]
      have := (Q.stamps vc.node).1
      simpa using this
    rw [if_neg (by rw [hval, hstale]; rintro ⟨-, h⟩; cases h)]
    split
    · rfl
    rename_i h4
    have h4' : (s.nodeD vc.node).valid = true ∧ s.isNecessary vc.node = true ∧
        (s.nodeD vc.node).inRch = false := by simpa using h4
    have hnec : s.isNecessary vc.node = true := h4'.2.1
    have h0 := I.hpos _ hnec rfl
    have hle := T.hb.le_max T.room hsz hnec rfl
    have hmax := T.room.rch
    rw [if_neg (by rintro ⟨-, h⟩; omega), if_neg (by omega), if_neg (by omega)]
  have hrun : (writeVar v f isSet).run.run s = (.ok vc.value, ((writeVar v f isSet).run.run s).2) := by
    rw [← hok]; exact Prod.ext rfl rfl
  obtain ⟨-, hs', -, -, hh⟩ := writeVar_outside_ok v f isSet s _ vc _ hv0 hst hrun
  obtain ⟨R, Q'⟩ := N4w.wroteOutside_q (f vc.value) Q hv0 hh
  have hF := wroteOutside_frame v vc (f vc.value) s
  have hS := P27.wroteOutside_sizes v vc (f vc.value) s
  rw [← hs'] at R Q' hF hS
  refine Tot.of_ok hrun ⟨Q', ?_, R.size, hS.1, by rw [R.observers], R.top⟩
  refine ⟨fun m hm ho => ?_, ⟨?_, ?_, ?_⟩, fun c vc' h => ?_, ?_, ?_⟩
  · rw [R.nec] at hm; rw [R.height, R.size]; exact T.hb m hm ho
  · rw [hF.2.2.2.2.1]; exact T.room.ahh
  · rw [← T.room.rch]; simp only [Heap.maxAllowed, hS.2]
  · rw [R.size]; exact T.room.size
  · by_cases hc : c = v
    · rw [hc, R.var] at h; cases h; exact hl
    · rw [R.other c hc] at h; exact T.linked c vc' h
  · rw [R.newObservers]; exact T.newNodup
  · intro o ob hm h
    rw [R.newObservers] at hm; rw [R.observers] at h
    exact T.newState o ob hm h

end T2k
open T2k

/-- the observer actions, the writes and the read-only actions of the fragment return when their indices exist; `TInv2` is kept under the SAME rank -/
theorem simple_total2 {env : Env} {rk : Nat → Nat} {N : Nat} {s : State} {a : Action} {tk : Array Nat}
    (Q : QInv2 env rk s) (T : TInv2 rk N s) (ha : SimpleAction a) (hok : ActionOK N s a) :
    Tot (stepAction env a tk) s (fun r s' => r.2 = tk ∧ TInv2 rk N s' ∧ Grown2 a s s') := by
  cases a <;> try exact ha.elim
  case observe n =>
    cases n <;> try exact ha.elim
    exact observe_total2 Q T hok
  case cloneObs o => exact cloneObs_total2 T
  case dropObs o => exact dropObs_total2 T hok
  case disallow o => exact disallow_total2 T hok
  case set v x =>
    unfold stepAction
    dsimp only
    refine Tot.bind (P27.discard_total (P := fun s' => _ ∧ _) (writeVar_total2 Q T hok)) ?_
    rintro u s1 - ⟨-, T1, e1, e2, e3, e4⟩
    exact Tot.pure ⟨rfl, T1, grown2_same rfl rfl e1 e2 e3 e4⟩
  case modify v d =>
    unfold stepAction
    dsimp only
    refine Tot.bind (P27.discard_total (P := fun s' => _ ∧ _) (writeVar_total2 Q T hok)) ?_
    rintro u s1 - ⟨-, T1, e1, e2, e3, e4⟩
    exact Tot.pure ⟨rfl, T1, grown2_same rfl rfl e1 e2 e3 e4⟩
  case update v d =>
    unfold stepAction
    dsimp only
    refine Tot.bind (P27.discard_total (P := fun s' => _ ∧ _) (writeVar_total2 Q T hok)) ?_
    rintro u s1 - ⟨-, T1, e1, e2, e3, e4⟩
    exact Tot.pure ⟨rfl, T1, grown2_same rfl rfl e1 e2 e3 e4⟩
  case replace v x =>
    unfold stepAction
    dsimp only
    refine Tot.bind (writeVar_total2 Q T hok) ?_
    rintro u s1 - ⟨-, T1, e1, e2, e3, e4⟩
    exact Tot.pure ⟨rfl, T1, grown2_same rfl rfl e1 e2 e3 e4⟩
  case replaceWith v d =>
    unfold stepAction
    dsimp only
    refine Tot.bind (writeVar_total2 Q T hok) ?_
    rintro u s1 - ⟨-, T1, e1, e2, e3, e4⟩
    exact Tot.pure ⟨rfl, T1, grown2_same rfl rfl e1 e2 e3 e4⟩
  case get v =>
    unfold stepAction
    dsimp only
    exact Tot.bind_ok (P27.getVar_total hok) (Tot.pure ⟨rfl, T, grown2_same rfl rfl rfl rfl rfl rfl⟩)
  case isStable =>
    unfold stepAction
    dsimp only
    exact Tot.bind_get (Tot.pure ⟨rfl, T, grown2_same rfl rfl rfl rfl rfl rfl⟩)
  case stats =>
    unfold stepAction
    dsimp only
    exact Tot.pure ⟨rfl, T, grown2_same rfl rfl rfl rfl rfl rfl⟩

end IncrVerif.Proofs.NestH
