import IncrVerif.Proofs.MapOld23
import IncrVerif.Proofs.MapOld16
import IncrVerif.Proofs.MapOld22
/-!
# map_with_old fragment: every API action keeps the invariant (M2), whole histories (M3), what observers read
-/
namespace IncrVerif.Proofs.MapOldH
open IncrVerif.Engine IncrVerif.Driver IncrVerif.Proofs IncrVerif.Proofs.Step IncrVerif.Proofs.Sched IncrVerif.Proofs.Quiet

/-- **the API actions of the fragment static + map_with_old.**  Node creation (`WInstr`): `const v`/`var v`/`fold _ v _`
with `C v`; `map f args` (`f < woBase`; a user function `f < fnZip` without side effects); `zip`; `mapWithOld g i` and the
incremental-map operators `mapOp op` for a machine id in range (`WId`) that satisfies the contract (`Good`); operands
naming top-level nodes.  `observe` of a top-level node, `cloneObs`, `dropObs`, `disallow`; the five writes (written
values satisfy `C`), `get`; `stabilise`, `isStable`, `stats`. -/
def WAction (env : Env) (C : Val → Prop) (sp : Nat → Val → Val) : Action → Prop
  | .create i => WInstr env C sp i
  | .stabilise => True
  | a => WPlain C a

variable {env : Env} {C : Val → Prop} {sp : Nat → Val → Val} {s : State}

/-- **M2.** Every API action of the fragment that returns keeps the invariant. -/
theorem stepW {a : Action} {tk : Array Nat} {r : String × Array Nat} {s' : State} (V : ValOK env C sp)
    (Q : QInvW env C sp s) (ha : WAction env C sp a) (h : (stepAction env a tk).run.run s = (.ok r, s')) :
    QInvW env C sp s' := by
  cases a
  case create i => exact create_keepsW V Q ha h
  case stabilise => exact (stabiliseW V Q (step_stabilise h)).inv
  all_goals (
    simp only [WAction] at ha
    first
      | exact plain_keepsW V Q ha h
      | (simp only [WPlain] at ha))

/-- **M3 (a).** A history of actions of the fragment that runs without panic from a state satisfying the invariant
ends in a state satisfying it. -/
theorem runActionsW {acts : List Action} {s s' : State} {tk tk' : Array Nat} (V : ValOK env C sp)
    (Q : QInvW env C sp s) (ha : ∀ a, a ∈ acts → WAction env C sp a)
    (h : runActions env acts s tk = .ok (s', tk')) : QInvW env C sp s' := by
  induction acts generalizing s tk with
  | nil => simp only [runActions] at h; cases h; exact Q
  | cons a as ih =>
    simp only [runActions] at h
    rcases hx : (stepAction env a tk).run.run s with ⟨_ | r, s1⟩
    · rw [hx] at h; cases h
    · rw [hx] at h
      exact ih (stepW V Q (ha a (List.mem_cons_self ..)) hx) (fun b hb => ha b (List.mem_cons_of_mem _ hb)) h

/-- every observer in use reads the from-scratch evaluation (`evalW`: a map_with_old node evaluates to the plain
function of its machine applied to the evaluation of its input) of its node on the current variable values -/
def ReadsOKW (env : Env) (sp : Nat → Val → Val) (s : State) : Prop :=
  ∀ (o : Nat) (ob : ObsRec), s.observers[o]? = some ob → ob.state = .inUse →
    ∀ k, (s.nodeD ob.node).height.toNat < k →
      ∃ v, s.tryGetValue env o = .ok v ∧ evalW env sp s k ob.node = some v

theorem stabilisedW_reads {fuel : Nat} {s s' : State} (R : StabilisedW env C sp fuel s s') :
    ReadsOKW env sp s' ∧ ObsSettled s' ∧ (∀ n, s'.isNecessary n = true → s'.isStale n = false) := by
  have Q' := R.inv.q
  have O' : ObsInv (virt s') [] [] := by
    have := Q'.obs
    unfold ObsOK at this
    rw [R.virt.newObservers, R.virt.disallowedObservers] at this
    exact this
  refine ⟨?_, ?_, fun n hn => (R.values n hn _ (Nat.lt_succ_self _)).1⟩
  · intro o ob ho hst k hk
    have hmem : o ∈ ((virt s').nodeD ob.node).observers := (O'.mem ob.node o).2 ⟨ob, ho, rfl, Or.inl hst⟩
    rw [virt_nodeD, virtNode_observers] at hmem
    have hn : s'.isNecessary ob.node = true := by
      rw [isNecessary_iff]; right; left; exact List.ne_nil_of_mem hmem
    obtain ⟨-, hv, hs⟩ := R.values ob.node hn k hk
    obtain ⟨v, hev⟩ := Option.isSome_iff_exists.1 hs
    refine ⟨v, ?_, hev⟩
    unfold State.tryGetValue
    have ha : s'.alive = true := Q'.alive
    have hstat : s'.status = .notStabilising := Q'.status
    rw [ha, hstat, ho]
    simp only [Bool.not_true, Bool.false_eq_true, if_false, hst]
    rw [hv, hev]
    rfl
  · intro o ob ho
    have ho' : (virt s').observers[o]? = some ob := ho
    cases hst : ob.state with
    | inUse => exact Or.inl rfl
    | unlinked => exact Or.inr rfl
    | created => have := O'.created o ob ho' hst; cases this
    | disallowed => have := (O'.dis o ob ho').1 hst; cases this

/-- **M3: whole histories.** Every state reached from the initial state by a history of actions of the fragment
static + map_with_old (that runs without panic) satisfies the invariant. -/
theorem historyW {N : Nat} {d : Bool} {acts : List Action} {s : State} {tk : Array Nat} (V : ValOK env C sp)
    (ha : ∀ a, a ∈ acts → WAction env C sp a)
    (h : runActions env acts (State.init N d) #[] = .ok (s, tk)) : QInvW env C sp s :=
  runActionsW V (init_invW env C sp N d) ha h

/-- **M3: every `stabilise` of a history.** At each `stabilise` of a history of actions of the fragment that runs from
the initial state: the state before it satisfies the invariant; the `stabilise` returns a state in which the invariant
holds, no necessary node is stale, EVERY OBSERVER IN USE READS THE FROM-SCRATCH VALUE of its node (`ReadsOKW`), and
every observer is in use or unlinked. -/
theorem historyW_stabilise {N : Nat} {d : Bool} {as bs : List Action} {s : State} {tk : Array Nat}
    (V : ValOK env C sp) (ha : ∀ a, a ∈ as ++ Action.stabilise :: bs → WAction env C sp a)
    (h : runActions env (as ++ Action.stabilise :: bs) (State.init N d) #[] = .ok (s, tk)) :
    ∃ s1 tk1 s2, runActions env as (State.init N d) #[] = .ok (s1, tk1) ∧ QInvW env C sp s1 ∧
      (stabilise env fuelDefault).run.run s1 = (.ok (), s2) ∧ StabilisedW env C sp fuelDefault s1 s2 ∧
      ReadsOKW env sp s2 ∧ ObsSettled s2 ∧ (∀ n, s2.isNecessary n = true → s2.isStale n = false) ∧
      runActions env bs s2 tk1 = .ok (s, tk) := by
  obtain ⟨s1, tk1, h1, h2⟩ := runActions_prefix h
  have Q1 := historyW V (fun a hm => ha a (List.mem_append_left _ hm)) h1
  simp only [runActions] at h2
  rcases hx : (stepAction env .stabilise tk1).run.run s1 with ⟨_ | r, s2⟩
  · rw [hx] at h2; cases h2
  · rw [hx] at h2
    replace h2 : runActions env bs s2 r.2 = .ok (s, tk) := h2
    have hst := step_stabilise hx
    have R := stabiliseW V Q1 hst
    obtain ⟨hr, hos, hns⟩ := stabilisedW_reads R
    have htk : r.2 = tk1 := by
      unfold stepAction at hx
      dsimp only at hx
      obtain ⟨u, s3, h3, h4⟩ := bind_ok_inv hx
      obtain ⟨e, -⟩ := pure_ok_inv h4
      rw [e]
    rw [htk] at h2
    exact ⟨s1, tk1, s2, h1, Q1, hst, R, hr, hos, hns, h2⟩

end IncrVerif.Proofs.MapOldH
