import IncrVerif.Proofs.FullH10
import IncrVerif.Proofs.FullH3
/-!
# C01 full fragment: one `recomputeOne` of a node that is neither a map_ref nor a map_with_old node, part 1
(static kinds, and `bindMain` with a valid right-hand side: SAME ghost; port of MapRef9 / MapOld9)
-/
namespace IncrVerif.Proofs.FullH
open IncrVerif.Engine IncrVerif.Proofs IncrVerif.Proofs.Step IncrVerif.Proofs.Sched IncrVerif.Proofs.Quiet

namespace ST

section
variable {K : Kind → Prop} {g : Nat → Option Val} {env : Env} {sp : Nat → Val → Val}

/-! ## `virt` commutes with the bookkeeping at the start of a step -/

theorem virt_started (n : Nat) (s : State) : virt g (started n s) = started n (virt g s) := by
  have h := virt_nodes_modify g s n (fun x => { x with recomputedAt := s.stabNum })
    (fun x => { x with recomputedAt := s.stabNum }) (by fcomm)
  exact congrArg (fun t : State => { t with
    currentlyRunning := if s.cfg.debug = true then some n else s.currentlyRunning,
    counters := { s.counters with recomputed := s.counters.recomputed + 1 } }) h

theorem virt_logged (es : List Event) (s : State) : virt g (logged es s) = logged es (virt g s) := rfl

theorem fr_started {s : State} (h : Fr K g s) (n : Nat) : Fr K g (started n s) :=
  Fr.of_nodes (fr_modify h n (fun x => { x with recomputedAt := s.stabNum }) (fun _ => ⟨rfl, rfl⟩)) rfl

theorem fr_logged {s : State} (h : Fr K g s) (es : List Event) : Fr K g (logged es s) := Fr.of_nodes h rfl

theorem vm_started (n : Nat) (s : State) : VM s (started n s) :=
  (vm_modify s n (fun x => { x with recomputedAt := s.stabNum }) (by fkind)).trans (VM.of_nodes rfl)

theorem vm_logged (es : List Event) (s : State) : VM s (logged es s) := VM.of_nodes rfl

theorem started_kind (n m : Nat) (s : State) : ((started n s).nodeD m).kind = (s.nodeD m).kind := by
  rw [started_nodeD]; split <;> rfl
theorem started_valid (n m : Nat) (s : State) : ((started n s).nodeD m).valid = (s.nodeD m).valid := by
  rw [started_nodeD]; split <;> rfl
theorem started_cutoff (n m : Nat) (s : State) : ((started n s).nodeD m).cutoff = (s.nodeD m).cutoff := by
  rw [started_nodeD]; split <;> rfl

/-- node `n` is EXACT: its actual cutoff is the virtual one (it is `.eq`, or the node is a change detector) -/
def Exact (s : State) (n : Nat) : Prop := (s.nodeD n).cutoff = virtCut (s.nodeD n).kind (s.nodeD n).cutoff

theorem virtCut_eq (k : Kind) : virtCut k .eq = .eq := by cases k <;> rfl

theorem exact_of_eq {s : State} {n : Nat} (h : (s.nodeD n).cutoff = .eq) : Exact s n := by
  unfold Exact; rw [h, virtCut_eq]

theorem exact_of_lc {s : State} {n b : Nat} (h : (s.nodeD n).kind = .bindLhsChange b) : Exact s n := by
  unfold Exact; rw [h]; rfl

theorem exact_started {s : State} {n : Nat} (h : Exact s n) (es : List Event) : Exact (logged es (started n s)) n := by
  show ((started n s).nodeD n).cutoff = virtCut ((started n s).nodeD n).kind ((started n s).nodeD n).cutoff
  rw [started_cutoff, started_kind]; exact h

theorem started_value_field (n m : Nat) (s : State) : ((started n s).nodeD m).value = (s.nodeD m).value := by
  rw [started_nodeD]; split <;> rfl

theorem tv_started (n m : Nat) (s : State) : tv g (started n s) m = tv g s m := by
  unfold tv
  rw [virt_started, started_value_field]

/-- both runs start from corresponding `started` / `logged` states: same ghost -/
theorem simAt_of_started {α} {s : State} {n : Nat} {es : List Event} {x x' y y' : M α}
    (ha : x.run.run s = y.run.run (logged es (started n s)))
    (hv : x'.run.run (virt g s) = y'.run.run (logged es (started n (virt g s))))
    (hy : SimAt K g (logged es (started n s)) y y') : SimAt K g s x x' := by
  intro hfr r s' h
  rw [ha] at h
  rw [hv, ← virt_started, ← virt_logged]
  obtain ⟨h1, h2, h3⟩ := hy (fr_logged (fr_started hfr n) es) r s' h
  exact ⟨h1, h2, ((vm_started n s).trans (vm_logged es _)).trans h3⟩

/-- the same, the ghost may change -/
theorem simXAt_of_started {α} {s : State} {n : Nat} {es : List Event} {x x' y y' : M α}
    (ha : x.run.run s = y.run.run (logged es (started n s)))
    (hv : x'.run.run (virt g s) = y'.run.run (logged es (started n (virt g s))))
    (hy : SimXAt K g (logged es (started n s)) y y') : SimXAt K g s x x' := by
  intro hfr r s' h
  rw [ha] at h
  rw [hv, ← virt_started, ← virt_logged]
  obtain ⟨g', h1, h2, h3⟩ := hy (fr_logged (fr_started hfr n) es) r s' h
  exact ⟨g', h1, h2, (GR.of_vm ((vm_started n s).trans (vm_logged es _))).trans h3⟩

/-! ## the arguments -/

theorem valuesOf_virt (s : State) (args : List Nat) (h : ∀ a, a ∈ args → tv g s a = s.value env a) :
    valuesOf (VE env sp) (virt g s) args = valuesOf env s args := by
  induction args with
  | nil => rfl
  | cons a as ih =>
    simp only [valuesOf]
    rw [virt_value, h a (List.mem_cons_self ..), ih fun b hb => h b (List.mem_cons_of_mem _ hb)]

/-! ## a successful step has read its arguments (copies of `ExpertH.recomputeOne_ok_vals`, `recomputeOne_ok_var`) -/

theorem recomputeOne_ok_vals {fuel n : Nat} {s s' : State} {nd : Node} {r : Option Nat} {args : List Nat}
    (hn : s.nodes[n]? = some nd) (hv : nd.valid = true)
    (hk : (∃ f, nd.kind = .map f args) ∨ (∃ f init, nd.kind = .fold f init args))
    (h : (recomputeOne env fuel n).run.run s = (.ok r, s')) : ∃ vals, valuesOf env s args = some vals := by
  cases hvals : valuesOf env s args with
  | some vals => exact ⟨vals, rfl⟩
  | none =>
    exfalso
    have hvals' : valuesOf env (started n s) args = none := by
      rw [valuesOf_congr env s (started n s) args (fun a _ => started_value env n s a)]; exact hvals
    have hn' := started_getElem? n s nd hn
    unfold recomputeOne at h
    simp only [run_bind_get] at h
    rcases hk with ⟨f, hk⟩ | ⟨f, init, hk⟩
    · have hk? : ({ nd with recomputedAt := s.stabNum } : Node).kind? = some (.map f args) := by
        simp [Node.kind?, hv, hk]
      cases hd : s.cfg.debug
      all_goals
        simp only [started, hd, Bool.false_eq_true, if_false, if_true, run_bind_modify,
          run_bind_bumpCounter, run_bind_get, run_bind_modNode] at hn' hvals' h
        rw [run_bind_ok (run_getNode_some hn'), hk?] at h
        dsimp only at h
        rw [run_bind_of (run_mapM_valueUnwrap env _ _ args), hvals'] at h
        cases h
    · have hk? : ({ nd with recomputedAt := s.stabNum } : Node).kind? = some (.fold f init args) := by
        simp [Node.kind?, hv, hk]
      cases hd : s.cfg.debug
      all_goals
        simp only [started, hd, Bool.false_eq_true, if_false, if_true, run_bind_modify,
          run_bind_bumpCounter, run_bind_get, run_bind_modNode] at hn' hvals' h
        rw [run_bind_ok (run_getNode_some hn'), hk?] at h
        dsimp only at h
        rw [run_bind_of (run_mapM_valueUnwrap env _ _ args), hvals'] at h
        cases h

theorem recomputeOne_ok_var {fuel n : Nat} {s s' : State} {nd : Node} {r : Option Nat} {c : Nat}
    (hn : s.nodes[n]? = some nd) (hv : nd.valid = true) (hk : nd.kind = .var c)
    (h : (recomputeOne env fuel n).run.run s = (.ok r, s')) : ∃ vc, s.vars[c]? = some vc := by
  cases hc : s.vars[c]? with
  | some vc => exact ⟨vc, rfl⟩
  | none =>
    exfalso
    have hk? : ({ nd with recomputedAt := s.stabNum } : Node).kind? = some (.var c) := by
      simp [Node.kind?, hv, hk]
    have hn' := started_getElem? n s nd hn
    unfold recomputeOne at h
    simp only [run_bind_get] at h
    cases hd : s.cfg.debug
    all_goals
      simp only [started, hd, Bool.false_eq_true, if_false, if_true, run_bind_modify,
        run_bind_bumpCounter, run_bind_get, run_bind_modNode] at hn' h
      rw [run_bind_ok (run_getNode_some hn'), hk?] at h
      dsimp only at h
      simp only [getVar, bind_assoc, run_bind_get, hc] at h
      cases h

/-! ## the `bindMain` branch -/

/-- what `recompute_one` does on a `bindMain b _` node after the bookkeeping -/
def bindMainTail (env : Env) (fuel n b : Nat) : M (Option Nat) := do
  match (← getBind b).rhs with
  | none => Engine.panic "node:recompute_one:bind-rhs-unwrap"
  | some r =>
    if (← getNode r).valid then
      match (← get).value env r with
      | none => pure none
      | some v => maybeChangeValue env fuel n v
    else
      invalidateNode fuel n
      propagateInvalidity fuel
      pure none

theorem recomputeOne_bindMain_tail (env : Env) (fuel n : Nat) (s : State) (nd : Node) (b lc : Nat)
    (hn : s.nodes[n]? = some nd) (hv : nd.valid = true) (hk : nd.kind = .bindMain b lc) :
    (recomputeOne env fuel n).run.run s = (bindMainTail env fuel n b).run.run (started n s) := by
  have hk? : ({ nd with recomputedAt := s.stabNum } : Node).kind? = some (.bindMain b lc) := by
    simp [Node.kind?, hv, hk]
  have hn' := started_getElem? n s nd hn
  unfold recomputeOne
  simp only [run_bind_get]
  cases hd : s.cfg.debug
  all_goals
    simp only [started, hd, Bool.false_eq_true, if_false, if_true, run_bind_modify,
      run_bind_bumpCounter, run_bind_get, run_bind_modNode] at hn' ⊢
    rw [run_bind_ok (run_getNode_some hn'), hk?]
    rfl

theorem getBind_inv {b : Nat} {br : BindRec} {s s' : State} (h : (getBind b).run.run s = (.ok br, s')) :
    s' = s ∧ s.binds[b]? = some br := by
  unfold getBind at h
  rw [run_bind_get] at h
  cases hb : s.binds[b]? with
  | none => rw [hb] at h; cases h
  | some x =>
    rw [hb] at h
    obtain ⟨e1, e2⟩ := pure_ok_inv h
    subst e1; exact ⟨e2, rfl⟩

/-- the `bindMain` branch when the right-hand side is valid: same ghost -/
theorem SimAt.bindMainTail {fuel n b : Nat} {t : State} (hk : ∀ p i, (t.nodeD n).kind ≠ .mapRef p i)
    (hc : Exact t n)
    (hread : ∀ br r, t.binds[b]? = some br → br.rhs = some r →
      tv g t r = t.value env r ∧ (t.nodeD r).valid = true) :
    SimAt K g t (bindMainTail env fuel n b) (bindMainTail (VE env sp) fuel n b) := by
  unfold ST.bindMainTail
  refine SimAt.seq (Sim.getBind b t) fun br t1 h1 => ?_
  obtain ⟨rfl, hb⟩ := getBind_inv h1
  cases hr : br.rhs with
  | none => exact SimAt.pan _ _
  | some r =>
    obtain ⟨hrd, hrv⟩ := hread br r hb hr
    dsimp only
    refine SimAt.getNode_seq fun nd hnd _ => ?_
    rw [virtNode_valid]
    have hv : nd.valid = true := by rw [nodeD_of_some hnd] at hrv; exact hrv
    rw [if_pos hv, if_pos hv]
    refine SimAt.get_seq ?_
    rw [virt_value, hrd]
    cases t1.value env r with
    | none => exact SimAt.ret _
    | some v => exact SimAt.maybeChangeValue hk hc

/-- both steps reduce to `maybe_change_value` from corresponding states -/
theorem sim_finish {s s' : State} {fuel n : Nat} {r : Option Nat} (es : List Event) (v : Val)
    (hfr : Fr K g s) (hk : ∀ p i, (s.nodeD n).kind ≠ .mapRef p i) (hc : Exact s n)
    (ha : (recomputeOne env fuel n).run.run s
      = (maybeChangeValue env fuel n v).run.run (logged es (started n s)))
    (hv : (recomputeOne (VE env sp) fuel n).run.run (virt g s)
      = (maybeChangeValue (VE env sp) fuel n v).run.run (logged es (started n (virt g s))))
    (h : (recomputeOne env fuel n).run.run s = (.ok r, s')) :
    (recomputeOne (VE env sp) fuel n).run.run (virt g s) = (.ok r, virt g s') ∧ Fr K g s' ∧ VM s s' := by
  have hk' : ∀ p i, ((logged es (started n s)).nodeD n).kind ≠ .mapRef p i := by
    intro p i
    show ((started n s).nodeD n).kind ≠ _
    rw [started_kind]; exact hk p i
  exact simAt_of_started ha hv (SimAt.maybeChangeValue hk' (exact_started hc es)) hfr r s' h

end
end ST

section
variable {env : Env} {sp : Nat → Val → Val} {g : Nat → Option Val}

/-- **one `recomputeOne` of a node of a static kind, or of a `bindMain` node whose right-hand side is valid**: the actual
step is simulated by the virtual step, SAME ghost -/
theorem recomputeOne_sim {s s' : State} {fuel n : Nat} {r : Option Nat}
    (F : FFrag env sp g s) (hn : n < s.nodes.size) (hv : (s.nodeD n).valid = true)
    (hk1 : ∀ p i, (s.nodeD n).kind ≠ .mapRef p i) (hk2 : ∀ m i, (s.nodeD n).kind ≠ .mapWithOld m i)
    (hk3 : ∀ b, (s.nodeD n).kind ≠ .bindLhsChange b) (hcn0 : (s.nodeD n).cutoff = .eq)
    (hrhs : ∀ b lc br r, (s.nodeD n).kind = .bindMain b lc → s.binds[b]? = some br → br.rhs = some r →
      (s.nodeD r).valid = true)
    (hkids : ∀ a, a ∈ s.children n → tv g s a = s.value env a)
    (h : (recomputeOne env fuel n).run.run s = (.ok r, s')) :
    (recomputeOne (VE env sp) fuel n).run.run (virt g s) = (.ok r, virt g s') ∧ Fr (FK env sp) g s' ∧ VM s s' := by
  have hcn : ST.Exact s n := ST.exact_of_eq hcn0
  have hnd := some_of_lt hn
  have hrk := F.fr.kinds n hn
  have hvn : (virt g s).nodes[n]? = some (virtNode (g n) (s.nodeD n)) := by rw [virt_getElem?, hnd]; rfl
  have hvval : (virtNode (g n) (s.nodeD n)).valid = true := by rw [virtNode_valid]; exact hv
  have hvk := virtNode_kind (g n) (s.nodeD n)
  have hk? : (s.nodeD n).kind? = some (s.nodeD n).kind := by simp [Node.kind?, hv]
  have hkl : ∀ es, ∀ p i, ((logged es (started n s)).nodeD n).kind ≠ .mapRef p i := by
    intro es p i
    show ((started n s).nodeD n).kind ≠ _
    rw [ST.started_kind]; exact hk1 p i
  have hch : s.children n = kidsF (s.nodeD n).kind ∨ ∃ b lc, (s.nodeD n).kind = .bindMain b lc := by
    unfold State.children
    rw [hk?]
    cases hkd : (s.nodeD n).kind <;> first | exact Or.inl rfl | exact Or.inr ⟨_, _, rfl⟩ | skip
    · exact absurd hkd (hk3 _)
    · exact absurd hkd (F.fr.noExp n _)
  cases hkd : (s.nodeD n).kind with
  | const v =>
    rw [hkd] at hvk
    refine ST.sim_finish [] (v) F.fr hk1 hcn ?_ ?_ h
    · exact recomputeOne_const_run env fuel n s _ v hnd hv hkd
    · exact recomputeOne_const_run (VE env sp) fuel n (virt g s) _ v hvn hvval hvk
  | var c =>
    rw [hkd] at hvk
    obtain ⟨vc, hvc⟩ := ST.recomputeOne_ok_var hnd hv hkd h
    refine ST.sim_finish [] (vc.value) F.fr hk1 hcn ?_ ?_ h
    · exact recomputeOne_var_run env fuel n s _ c vc hnd hv hkd hvc
    · exact recomputeOne_var_run (VE env sp) fuel n (virt g s) _ c vc hvn hvval hvk hvc
  | map f args =>
    rw [hkd] at hvk hrk
    have hkids' : ∀ a, a ∈ args → tv g s a = s.value env a := by
      intro a ha; apply hkids
      rcases hch with e | ⟨b, lc, e⟩
      · rw [e, hkd]; exact ha
      · rw [hkd] at e; cases e
    obtain ⟨vals, hvals⟩ := ST.recomputeOne_ok_vals hnd hv (Or.inl ⟨f, hkd⟩) h
    have hvvals : valuesOf (VE env sp) (virt g s) args = some vals := by
      rw [ST.valuesOf_virt s args hkids']; exact hvals
    by_cases hf : f < fnZip
    · refine ST.sim_finish [.inv s!"f{f}" n vals (env.fn f vals).render] (env.fn f vals) F.fr hk1 hcn ?_ ?_ h
      · exact recomputeOne_map_run env fuel n s _ f args vals hnd hv hkd hf hvals (hrk.2 hf vals) F.pc
      · have := recomputeOne_map_run (VE env sp) fuel n (virt g s) _ f args vals hvn hvval hvk hf hvvals
          (hrk.2 hf vals) F.pc
        rw [virtEnv_fn_real env sp hrk.1] at this
        exact this
    · have hpk : f < fnPerKey := by
        have := hrk.1; unfold pBase at this; unfold fnPerKey; omega
      refine ST.sim_finish [] (env.fn f vals) F.fr hk1 hcn ?_ ?_ h
      · exact recomputeOne_mapBuiltin_run env fuel n s _ f args vals hnd hv hkd hf hpk hvals
      · have := recomputeOne_mapBuiltin_run (VE env sp) fuel n (virt g s) _ f args vals hvn hvval hvk hf hpk hvvals
        rw [virtEnv_fn_real env sp hrk.1] at this
        exact this
  | fold f init cs =>
    rw [hkd] at hvk
    have hkids' : ∀ a, a ∈ cs → tv g s a = s.value env a := by
      intro a ha; apply hkids
      rcases hch with e | ⟨b, lc, e⟩
      · rw [e, hkd]; exact ha
      · rw [hkd] at e; cases e
    obtain ⟨vals, hvals⟩ := ST.recomputeOne_ok_vals hnd hv (Or.inr ⟨f, init, hkd⟩) h
    have hvvals : valuesOf (VE env sp) (virt g s) cs = some vals := by
      rw [ST.valuesOf_virt s cs hkids']; exact hvals
    refine ST.sim_finish [.inv s!"fold{f}" n vals (vals.foldl (env.foldStep f) init).render] (vals.foldl (env.foldStep f) init) F.fr hk1 hcn ?_ ?_ h
    · exact recomputeOne_fold_run env fuel n s _ f init cs vals hnd hv hkd hvals F.pc
    · exact recomputeOne_fold_run (VE env sp) fuel n (virt g s) _ f init cs vals hvn hvval hvk hvvals F.pc
  | mapRef p i => exact absurd hkd (hk1 p i)
  | mapWithOld m i => exact absurd hkd (hk2 m i)
  | bindLhsChange b => exact absurd hkd (hk3 b)
  | expert e => exact absurd hkd (F.fr.noExp n e)
  | bindMain b lc =>
    rw [hkd] at hvk
    refine ST.simAt_of_started (es := []) (ST.recomputeOne_bindMain_tail env fuel n s _ b lc hnd hv hkd)
      (ST.recomputeOne_bindMain_tail (VE env sp) fuel n (virt g s) _ b lc hvn hvval hvk)
      (ST.SimAt.bindMainTail (hkl []) (ST.exact_started hcn []) ?_) F.fr r s' h
    intro br r0 hb hr
    have hb' : s.binds[b]? = some br := hb
    refine ⟨?_, ?_⟩
    · show tv g (started n s) r0 = (started n s).value env r0
      rw [ST.tv_started, started_value]
      apply hkids
      unfold State.children
      rw [hk?, hkd]
      simp only [hb', hr]
      simp
    · show ((started n s).nodeD r0).valid = true
      rw [ST.started_valid]
      exact hrhs b lc br r0 hkd hb' hr

end
end IncrVerif.Proofs.FullH
