import IncrVerif.Proofs.FullH45
import IncrVerif.Proofs.FullH8
/-!
# C01 full fragment: the drain invariant through `recomputeOne`, the direct-recompute chain, a pop and `drainHeap`
-/
namespace IncrVerif.Proofs.FullH
open IncrVerif.Engine IncrVerif.Driver IncrVerif.Proofs IncrVerif.Proofs.Step IncrVerif.Proofs.Sched IncrVerif.Proofs.Quiet
open IncrVerif.Proofs.BindH (DInv BGraph StepRelB FrameB TargetB)
open IncrVerif.Proofs.NestH (AuxS2 Aux2 GenOK2 F2Inv StepL2 LcStepsOK2)

/-- what the helpers provide for the three kinds of special steps -/
structure Kit (env : Env) (sp : Nat → Val → Val) : Prop where
  lcSim : LcSimSpec env sp
  lcK : LcKSpec env sp
  mwo : MwoStepSpec env sp
  vd : VdStepSpec env sp

section
variable {env : Env} {sp : Nat → Val → Val}

/-- **one `recomputeOne` of the drain keeps the drain invariant** (for new ghost values) -/
theorem recomputeOne_full (X : Kit env sp) {t s : State} {g : Nat → Option Val} {fuel n : Nat} {r : Option Nat} {s' : State}
    (D : DInvF env sp t s g (some n)) (h : (recomputeOne env fuel n).run.run s = (.ok r, s')) :
    ∃ g', DInvF env sp t s' g' r ∧ FrameB (virt g s) (virt g' s') ∧
      ((virt g' s').nodeD n).recomputedAt = s.stabNum ∧ ((virt g' s').nodeD n).valid = true := by
  by_cases hk1 : ∀ p i, (s.nodeD n).kind ≠ .mapRef p i
  · by_cases hk2 : ∀ m i, (s.nodeD n).kind ≠ .mapWithOld m i
    · by_cases hex : (s.nodeD n).cutoff = .eq ∨ ∃ b, (s.nodeD n).kind = .bindLhsChange b
      · exact step_simulated X.lcSim X.lcK D hk1 hk2 hex h
      · have hc : (s.nodeD n).cutoff ≠ .eq := fun e => hex (Or.inl e)
        have hk3 : ∀ b, (s.nodeD n).kind ≠ .bindLhsChange b := fun b e => hex (Or.inr ⟨b, e⟩)
        exact ⟨g, X.vd t s g fuel n r s' D hk1 hk2 hk3 hc h⟩
    · have : ∃ m i, (s.nodeD n).kind = .mapWithOld m i := by
        cases hkd : (s.nodeD n).kind <;>
          first | exact ⟨_, _, rfl⟩ | (exfalso; apply hk2; intro m i; rw [hkd]; intro h; cases h)
      obtain ⟨m, i, hk⟩ := this
      exact ⟨g, X.mwo t s g fuel n m i r s' D hk h⟩
  · have : ∃ p i, (s.nodeD n).kind = .mapRef p i := by
      cases hkd : (s.nodeD n).kind <;>
        first | exact ⟨_, _, rfl⟩ | (exfalso; apply hk1; intro p i; rw [hkd]; intro h; cases h)
    obtain ⟨p, i, hk⟩ := this
    exact step_mapRef D hk h

/-- **the direct-recompute chain** -/
theorem recompute_full (X : Kit env sp) : ∀ (fuel n : Nat) (t s s' : State) (g : Nat → Option Val),
    DInvF env sp t s g (some n) → (recompute env fuel n).run.run s = (.ok (), s') →
    ∃ g', DInvF env sp t s' g' none ∧ FrameB (virt g s) (virt g' s') := by
  intro fuel
  induction fuel with
  | zero => intro n t s s' g _ h; unfold recompute at h; cases h
  | succ fuel ih =>
    intro n t s s' g D h
    unfold recompute at h
    obtain ⟨r, s1, h1, h2⟩ := bind_ok_inv h
    obtain ⟨g1, D1, f1, -, -⟩ := recomputeOne_full X D h1
    cases r with
    | none =>
      obtain ⟨-, rfl⟩ := pure_ok_inv h2
      exact ⟨g1, D1, f1⟩
    | some p =>
      obtain ⟨g2, D2, f2⟩ := ih p t s1 s' g1 D1 h2
      exact ⟨g2, D2, f1.trans f2⟩

theorem heapInv_of_virt {g : Nat → Option Val} {s : State} (h : HeapInv (virt g s)) : HeapInv s :=
  h.congr rfl (virt_size g s).symm fun m => by
    rw [virt_nodeD]
    exact ⟨(virtNode_heightInRch _ _).symm, (virtNode_height _ _).symm, (virt_isNecessary g s m).symm⟩

/-- taking a node out of the heap keeps the drain invariant, with the node as the current node -/
theorem pop_full {t s s1 : State} {g : Nat → Option Val} {n : Nat} (D : DInvF env sp t s g none)
    (h : rchRemoveMin.run.run s = (.ok (some n), s1)) :
    DInvF env sp t s1 g (some n) ∧ FrameB (virt g s) (virt g s1) := by
  obtain ⟨hv, hfr, vm⟩ := Sim.rchRemoveMin (K := FK env sp) (g := g) s D.frag.fr (some n) s1 h
  obtain ⟨I1, f1⟩ := BindH.pop_invB D.inv hv
  have A1 := (hVirt env sp t).pop _ _ n D.inv ⟨D.aux, D.gen⟩ hv
  have hi := heapInv_of_virt D.inv.heap
  have hinv := rchRemoveMin_inv hi h
  simp only at hinv
  obtain ⟨-, -, -, hs1, -⟩ := hinv
  have hnd : ∀ m, s1.nodeD m =
      if n = m ∧ m < s.nodes.size then { s.nodeD m with heightInRch := -1 } else s.nodeD m := by
    intro m; rw [hs1]; exact nodeD_modify _ n m _
  have hkind : ∀ m, (s1.nodeD m).kind = (s.nodeD m).kind := by intro m; rw [hnd]; split <;> rfl
  have hvalid : ∀ m, (s1.nodeD m).valid = (s.nodeD m).valid := by intro m; rw [hnd]; split <;> rfl
  have hval : ∀ m, (s1.nodeD m).value = (s.nodeD m).value := by intro m; rw [hnd]; split <;> rfl
  have hold : ∀ m, (s1.nodeD m).oldState = (s.nodeD m).oldState := by intro m; rw [hnd]; split <;> rfl
  have hflag : ∀ m, (s1.nodeD m).didChange = (s.nodeD m).didChange := by intro m; rw [hnd]; split <;> rfl
  have hnec : ∀ m, s1.isNecessary m = s.isNecessary m := by
    intro m; simp only [State.isNecessary]; rw [hnd]; split <;> rfl
  have hsz : s1.nodes.size = s.nodes.size := by rw [hs1]; simp
  have hvalue : ∀ m, s1.value env m = s.value env m :=
    fun m => value_congr env s s1 hsz (fun k => by simp only [valueCore, hkind, hvalid, hval]) m
  have hcut : ∀ m, (s1.nodeD m).cutoff = (s.nodeD m).cutoff := by intro m; rw [hnd]; split <;> rfl
  have hchg : ∀ m, (s1.nodeD m).changedAt = (s.nodeD m).changedAt := by intro m; rw [hnd]; split <;> rfl
  have hrec : ∀ m, (s1.nodeD m).recomputedAt = (s.nodeD m).recomputedAt := by intro m; rw [hnd]; split <;> rfl
  have htv : ∀ m, tv g s1 m = tv g s m := by
    intro m
    by_cases hmr : ∀ p i, (s.nodeD m).kind ≠ .mapRef p i
    · rw [tv_not_mapRef hmr, tv_not_mapRef (by rw [hkind]; exact hmr), hval]
    · have : ∃ p i, (s.nodeD m).kind = .mapRef p i := by
        cases hkd : (s.nodeD m).kind <;>
          first | exact ⟨_, _, rfl⟩ | (exfalso; apply hmr; intro p i; rw [hkd]; intro h; cases h)
      obtain ⟨p, i, hk⟩ := this
      rw [tv_mapRef hk, tv_mapRef (by rw [hkind]; exact hk)]
  have hst1 : s1.stabNum = s.stabNum := by rw [hs1]
  refine ⟨⟨⟨hfr, mapRefsBack_of_vm D.frag.back vm, I1.graph.pc⟩, I1, A1.1, A1.2, ?_, ?_, ?_, ?_, ?_⟩, f1⟩
  · exact D.k.congr hvalid hnec hkind (fun m hd => by rw [← hflag]; exact hd) (fun m p i _ _ _ _ => hvalue m)
  · intro x m i hv' hk
    rw [hval, hold]
    exact D.m x m i (by rw [← hvalid]; exact hv') (by rw [← hkind]; exact hk)
  · exact D.gs.of_gr (GR.of_vm vm)
  · intro x a b w hv hk hc hca hw
    rw [htv]
    exact D.dep x a b w (by rw [← hvalid]; exact hv) (by rw [← hkind]; exact hk) (by rw [← hcut]; exact hc)
      (by rw [← hchg, ← hchg]; exact hca) (by rw [← hval]; exact hw)
  · intro m hv hnm hvl hcm
    rw [hrec, hst1]
    exact D.cr m (by rw [← hvalid]; exact hv) (fun p i => by rw [← hkind]; exact hnm p i) (by rw [← hval]; exact hvl)
      (by rw [← hchg, ← hst1]; exact hcm)

/-- **the drain**: a successful `drainHeap` from the drain invariant ends with the drain invariant (for new ghost values) and an empty heap -/
theorem drainHeap_full (X : Kit env sp) : ∀ (fuel : Nat) (t s s' : State) (g : Nat → Option Val),
    DInvF env sp t s g none → (drainHeap env fuel).run.run s = (.ok (), s') →
    ∃ g', DInvF env sp t s' g' none ∧ s'.rch.length = 0 ∧ FrameB (virt g s) (virt g' s') := by
  intro fuel
  induction fuel with
  | zero => intro t s s' g _ h; unfold drainHeap at h; cases h
  | succ fuel ih =>
    intro t s s' g D h
    unfold drainHeap at h
    obtain ⟨r, s1, h1, h2⟩ := bind_ok_inv h
    cases r with
    | none =>
      obtain ⟨-, rfl⟩ := pure_ok_inv h2
      have := rchRemoveMin_inv (heapInv_of_virt D.inv.heap) h1
      simp only at this
      obtain ⟨e, he⟩ := this
      subst e
      exact ⟨g, D, he, FrameB.refl _⟩
    | some n =>
      obtain ⟨u, s2, h3, h4⟩ := bind_ok_inv h2
      obtain ⟨D1, f1⟩ := pop_full D h1
      obtain ⟨g2, D2, f2⟩ := recompute_full X fuel n t s1 s2 g D1 h3
      obtain ⟨g3, D3, he, f3⟩ := ih t s2 s' g2 D2 h4
      exact ⟨g3, D3, he, (f1.trans f2).trans f3⟩

end
end IncrVerif.Proofs.FullH
