import IncrVerif.Proofs.AuditF5
/-!
# C11, the HEIGHT-LIMIT clause, part b: the ladder — every function reachable from `stabilise` (and from the other API actions), when it RETURNS, keeps `HL`

Port of the ladder of `NestH122` (`Step.Pres BKey ↦ POk`), generated mechanically: each function is unfolded and decomposed along its syntax by `okpres`; the leaves are
state updates that do not touch `nodes[·].height`, `maxHeightSeen` and the bucket counts (`HL.of_eq`), node creation (`HL.of_push`: a new node has height `-1`),
`modNode` with a height-preserving update, and `setHeight` (`POk.setHeight`).
-/
open IncrVerif.Engine IncrVerif.Proofs IncrVerif.Proofs.Step
namespace IncrVerif.Proofs.AuditF.HLim

theorem POk.valueUnwrap (env n site) : POk (valueUnwrap env n site) := by unfold Engine.valueUnwrap; okpres
ok_leaf POk.valueUnwrap
theorem POk.scopeHeight (sc) : POk (scopeHeight sc) := by unfold Engine.scopeHeight; okpres
ok_leaf POk.scopeHeight
theorem POk.modBind (b f) : POk (modBind b f) := by unfold Engine.modBind; okpres
ok_leaf POk.modBind

theorem POk.getObs (n) : POk (getObs n) := by unfold Engine.getObs; okpres
ok_leaf POk.getObs
theorem POk.scopeIsNecessary (sc) : POk (scopeIsNecessary sc) := by unfold Engine.scopeIsNecessary; okpres
ok_leaf POk.scopeIsNecessary
theorem POk.expertOf (n) : POk (expertOf n) := by unfold Engine.expertOf; okpres
ok_leaf POk.expertOf
theorem POk.isConstant (n) : POk (isConstant n) := by unfold Engine.isConstant; okpres
ok_leaf POk.isConstant
theorem POk.resolveOpnd (l o) : POk (resolveOpnd l o) := by unfold Engine.resolveOpnd; okpres
ok_leaf POk.resolveOpnd
theorem POk.expertIdxRaw (n) : POk (expertIdxRaw n) := by unfold Engine.expertIdxRaw; okpres
ok_leaf POk.expertIdxRaw
theorem POk.discard {α} {x : M α} (hx : POk x) : POk (discard x) := by
  unfold Functor.discard
  rw [LawfulFunctor.map_const]
  exact POk.map _ hx
macro_rules | `(tactic| okleaf) => `(tactic| with_reducible apply POk.discard)
theorem POk.withVarHandle (v) {act : M Unit} (h : POk act) : POk (withVarHandle v act) := by
  unfold Engine.withVarHandle; okpres; exact h; exact h
macro_rules | `(tactic| okleaf) => `(tactic| with_reducible apply POk.withVarHandle)

theorem POk.tick : POk tick := by unfold Engine.tick; okpres
ok_leaf POk.tick
theorem POk.logEv (e) : POk (logEv e) := by unfold Engine.logEv; okpres
ok_leaf POk.logEv
theorem POk.modExpert (b f) : POk (modExpert b f) := by unfold Engine.modExpert; okpres
ok_leaf POk.modExpert
theorem POk.modVar (b f) : POk (modVar b f) := by unfold Engine.modVar; okpres
ok_leaf POk.modVar
theorem POk.modObs (b f) : POk (modObs b f) := by unfold Engine.modObs; okpres
ok_leaf POk.modObs
theorem POk.rchLink (n) : POk (rchLink n) := by unfold Engine.rchLink; okpres
ok_leaf POk.rchLink
theorem POk.rchUnlink (n) : POk (rchUnlink n) := by unfold Engine.rchUnlink; okpres
ok_leaf POk.rchUnlink
theorem POk.rchInsert (n) : POk (rchInsert n) := by unfold Engine.rchInsert; okpres
ok_leaf POk.rchInsert
theorem POk.rchRemove (n) : POk (rchRemove n) := by unfold Engine.rchRemove; okpres
ok_leaf POk.rchRemove
theorem POk.rchMinHeight : POk rchMinHeight := by unfold Engine.rchMinHeight; okpres
ok_leaf POk.rchMinHeight
theorem POk.rchIncreaseHeight (n) : POk (rchIncreaseHeight n) := by
  unfold Engine.rchIncreaseHeight; okpres
ok_leaf POk.rchIncreaseHeight
theorem POk.ahhAddUnlessMem (n) : POk (ahhAddUnlessMem n) := by
  unfold Engine.ahhAddUnlessMem; okpres
ok_leaf POk.ahhAddUnlessMem
theorem POk.ahhRemoveMin : POk ahhRemoveMin := by unfold Engine.ahhRemoveMin; okpres
ok_leaf POk.ahhRemoveMin
theorem POk.ensureHeightRequirement (a b c d) : POk (ensureHeightRequirement a b c d) := by
  unfold Engine.ensureHeightRequirement; okpres
ok_leaf POk.ensureHeightRequirement


macro_rules | `(tactic| okleaf) => `(tactic| apply POk.forIn)

theorem POk.adjustHeightsLoop (oc op fuel) : POk (adjustHeightsLoop oc op fuel) := by
  induction fuel with
  | zero => unfold Engine.adjustHeightsLoop; okpres
  | succ fuel ih => unfold Engine.adjustHeightsLoop; okpres; all_goals exact ih
ok_leaf POk.adjustHeightsLoop
theorem POk.adjustHeights (oc op fuel) : POk (adjustHeights oc op fuel) := by
  unfold Engine.adjustHeights; okpres
ok_leaf POk.adjustHeights
theorem POk.addParent (a b c) : POk (addParent a b c) := by unfold Engine.addParent; okpres
ok_leaf POk.addParent
theorem POk.removeParent (a b c) : POk (removeParent a b c) := by
  unfold Engine.removeParent; okpres
ok_leaf POk.removeParent
theorem POk.handleAfterStabilisation (n) : POk (handleAfterStabilisation n) := by
  unfold Engine.handleAfterStabilisation; okpres
ok_leaf POk.handleAfterStabilisation
theorem POk.maybeHandleAfterStabilisation (n) : POk (maybeHandleAfterStabilisation n) := by
  unfold Engine.maybeHandleAfterStabilisation; okpres
ok_leaf POk.maybeHandleAfterStabilisation
theorem POk.shouldCutoff (env n o v) : POk (shouldCutoff env n o v) := by
  unfold Engine.shouldCutoff; okpres
ok_leaf POk.shouldCutoff
theorem POk.edgeOnChange (env e edge) : POk (edgeOnChange env e edge) := by
  unfold Engine.edgeOnChange; okpres
ok_leaf POk.edgeOnChange
theorem POk.runEdgeCallback (env e i) : POk (runEdgeCallback env e i) := by
  unfold Engine.runEdgeCallback; okpres
ok_leaf POk.runEdgeCallback
theorem POk.observabilityChange (e b) : POk (observabilityChange e b) := by
  unfold Engine.observabilityChange; okpres
ok_leaf POk.observabilityChange
theorem POk.markMapRefUnknown (fuel n) : POk (markMapRefUnknown fuel n) := by
  induction fuel generalizing n with
  | zero => unfold Engine.markMapRefUnknown; okpres
  | succ fuel ih => unfold Engine.markMapRefUnknown; okpres; all_goals exact ih _
ok_leaf POk.markMapRefUnknown

set_option maxHeartbeats 600000 in
theorem POk.necessary (env : Env) (fuel : Nat) :
    (∀ n, POk (becameNecessary env fuel n)) ∧
    (∀ c i p, POk (addParentWithoutAdjustingHeights env fuel c i p)) := by
  induction fuel with
  | zero =>
    constructor
    · intro n; unfold Engine.becameNecessary; okpres
    · intro c i p; unfold Engine.addParentWithoutAdjustingHeights; okpres
  | succ fuel ih =>
    constructor
    · intro n; unfold Engine.becameNecessary; okpres; all_goals exact ih.2 _ _ _
    · intro c i p; unfold Engine.addParentWithoutAdjustingHeights; okpres; all_goals exact ih.1 _
theorem POk.becameNecessary (env fuel n) : POk (becameNecessary env fuel n) :=
  (POk.necessary env fuel).1 n
ok_leaf POk.becameNecessary
theorem POk.addParentWithoutAdjustingHeights (env fuel c i p) :
    POk (addParentWithoutAdjustingHeights env fuel c i p) := (POk.necessary env fuel).2 c i p
ok_leaf POk.addParentWithoutAdjustingHeights

set_option maxHeartbeats 600000 in
theorem POk.unnecessary (fuel : Nat) :
    (∀ n, POk (becameUnnecessary fuel n)) ∧ (∀ n, POk (checkIfUnnecessary fuel n)) ∧
    (∀ n, POk (removeChildren fuel n)) := by
  induction fuel with
  | zero =>
    refine ⟨?_, ?_, ?_⟩
    · intro n; unfold Engine.becameUnnecessary; okpres
    · intro n; unfold Engine.checkIfUnnecessary; okpres
    · intro n; unfold Engine.removeChildren; okpres
  | succ fuel ih =>
    refine ⟨?_, ?_, ?_⟩
    · intro n; unfold Engine.becameUnnecessary; okpres; all_goals exact ih.2.2 _
    · intro n; unfold Engine.checkIfUnnecessary; okpres; all_goals exact ih.1 _
    · intro n; unfold Engine.removeChildren; okpres; all_goals exact ih.2.1 _
theorem POk.becameUnnecessary (fuel n) : POk (becameUnnecessary fuel n) :=
  (POk.unnecessary fuel).1 n
ok_leaf POk.becameUnnecessary
theorem POk.checkIfUnnecessary (fuel n) : POk (checkIfUnnecessary fuel n) :=
  (POk.unnecessary fuel).2.1 n
ok_leaf POk.checkIfUnnecessary
theorem POk.removeChildren (fuel n) : POk (removeChildren fuel n) :=
  (POk.unnecessary fuel).2.2 n
ok_leaf POk.removeChildren


theorem POk.invalidateNode (fuel n) : POk (invalidateNode fuel n) := by
  induction fuel generalizing n with
  | zero => unfold Engine.invalidateNode; okpres
  | succ fuel ih => unfold Engine.invalidateNode; okpres; all_goals exact ih _
ok_leaf POk.invalidateNode

theorem POk.propagateInvalidity (fuel) : POk (propagateInvalidity fuel) := by
  induction fuel with
  | zero => unfold Engine.propagateInvalidity; okpres
  | succ fuel ih => unfold Engine.propagateInvalidity; okpres; all_goals exact ih
ok_leaf POk.propagateInvalidity
theorem POk.stateAddParent (env fuel c i p) : POk (stateAddParent env fuel c i p) := by
  unfold Engine.stateAddParent; okpres
ok_leaf POk.stateAddParent
theorem POk.changeChildBindRhs (env fuel m o nw i) :
    POk (changeChildBindRhs env fuel m o nw i) := by
  unfold Engine.changeChildBindRhs; okpres
ok_leaf POk.changeChildBindRhs

/-! ### expert API -/
theorem POk.assertRunningIsChild (n name) : POk (assertRunningIsChild n name) := by
  unfold Engine.assertRunningIsChild; okpres
ok_leaf POk.assertRunningIsChild
theorem POk.expertMakeStale (n) : POk (expertMakeStale n) := by
  unfold Engine.expertMakeStale; okpres
ok_leaf POk.expertMakeStale
theorem POk.expertAddDependency (env fuel n c cb) :
    POk (expertAddDependency env fuel n c cb) := by
  unfold Engine.expertAddDependency; okpres
ok_leaf POk.expertAddDependency
theorem POk.swapEdgeIndices (n c1 i1 c2 i2) : POk (swapEdgeIndices n c1 i1 c2 i2) := by
  unfold Engine.swapEdgeIndices; okpres
ok_leaf POk.swapEdgeIndices
theorem POk.expertRemoveDependency (fuel n dep) : POk (expertRemoveDependency fuel n dep) := by
  unfold Engine.expertRemoveDependency; okpres
ok_leaf POk.expertRemoveDependency
theorem POk.expertInvalidate (fuel n) : POk (expertInvalidate fuel n) := by
  unfold Engine.expertInvalidate; okpres
ok_leaf POk.expertInvalidate

/-! ### node creation, var writes, effects -/
theorem POk.bumpCounter (f : Counters → Counters) : POk (bumpCounter f) := by
  unfold Engine.bumpCounter; okpres
ok_leaf POk.bumpCounter
theorem POk.createNode (k sc c) : POk (createNode k sc c) := by
  unfold Engine.createNode; okpres
ok_leaf POk.createNode
theorem POk.createVar (v sc) : POk (createVar v sc) := by unfold Engine.createVar; okpres
ok_leaf POk.createVar
theorem POk.createBind (b l) : POk (createBind b l) := by unfold Engine.createBind; okpres
ok_leaf POk.createBind
set_option maxHeartbeats 1000000 in
theorem POk.elabInstr (loc v i) : POk (elabInstr loc v i) := by
  cases i with
  | mapOp op => cases op <;> (simp only [Engine.elabInstr]; okpres)
  | _ => simp only [Engine.elabInstr]; okpres
ok_leaf POk.elabInstr
theorem POk.elabTemplateBase (t v init) : POk (elabTemplateBase t v init) := by
  unfold Engine.elabTemplateBase; okpres
ok_leaf POk.elabTemplateBase
theorem POk.memoCall (env m key) : POk (memoCall env m key) := by
  unfold Engine.memoCall; okpres
ok_leaf POk.memoCall
theorem POk.elabInstrM (env loc v i) : POk (elabInstrM env loc v i) := by
  unfold Engine.elabInstrM; okpres
ok_leaf POk.elabInstrM
theorem POk.elabTemplate (env t v) : POk (elabTemplate env t v) := by
  unfold Engine.elabTemplate; okpres
ok_leaf POk.elabTemplate
theorem POk.didSetVarWhileNotStabilising (v) : POk (didSetVarWhileNotStabilising v) := by
  unfold Engine.didSetVarWhileNotStabilising; okpres
ok_leaf POk.didSetVarWhileNotStabilising
theorem POk.writeVar (v f b) : POk (writeVar v f b) := by unfold Engine.writeVar; okpres
ok_leaf POk.writeVar
theorem POk.disallowFutureUse (o) : POk (disallowFutureUse o) := by
  unfold Engine.disallowFutureUse; okpres
ok_leaf POk.disallowFutureUse
/-- dropping a `Var` handle touches `vars` and `deadVars` only -/
theorem POk.dropVarHandle (v) : POk (dropVarHandle v) := by
  unfold Engine.dropVarHandle; okpres
ok_leaf POk.dropVarHandle
theorem POk.runEffectBasic (env e) : POk (runEffectBasic env e) := by
  unfold Engine.runEffectBasic; okpres
ok_leaf POk.runEffectBasic
theorem POk.runEffects (env fuel effs arg) : POk (runEffects env fuel effs arg) := by
  unfold Engine.runEffects; okpres
ok_leaf POk.runEffects


/-! ### per-key operators, operator closures -/
theorem POk.expertValue (env e d sl) : POk (expertValue env e d sl) := by
  unfold Engine.expertValue; okpres
ok_leaf POk.expertValue
theorem POk.withOldEvents (env g n σ old x new did) :
    POk (withOldEvents env g n σ old x new did) := by
  unfold Engine.withOldEvents; okpres
ok_leaf POk.withOldEvents
set_option maxHeartbeats 1000000 in
theorem POk.perKeyDriver (env fuel op m) : POk (perKeyDriver env fuel op m) := by
  unfold Engine.perKeyDriver; okpres
ok_leaf POk.perKeyDriver

/-! ### notifications, `maybeChangeValue`, `recomputeOne` -/
theorem POk.childChanged (env fuel p c ci o) : POk (childChanged env fuel p c ci o) := by
  induction fuel generalizing p c ci o with
  | zero => unfold Engine.childChanged; okpres
  | succ fuel ih => unfold Engine.childChanged; okpres; all_goals exact ih _ _ _ _
ok_leaf POk.childChanged
theorem POk.parentIterCanRecomputeNow (p c) : POk (parentIterCanRecomputeNow p c) := by
  unfold Engine.parentIterCanRecomputeNow; okpres
ok_leaf POk.parentIterCanRecomputeNow
theorem POk.maybeChangeValueManual (env fuel n o d b) :
    POk (maybeChangeValueManual env fuel n o d b) := by
  unfold Engine.maybeChangeValueManual; okpres
ok_leaf POk.maybeChangeValueManual
theorem POk.maybeChangeValue (env fuel n v) : POk (maybeChangeValue env fuel n v) := by
  unfold Engine.maybeChangeValue; okpres
ok_leaf POk.maybeChangeValue


set_option maxHeartbeats 1000000 in
theorem POk.recomputeOne (env fuel n) : POk (recomputeOne env fuel n) := by
  unfold Engine.recomputeOne; okpres
ok_leaf POk.recomputeOne

theorem POk.recompute (env fuel n) : POk (recompute env fuel n) := by
  induction fuel generalizing n with
  | zero => unfold Engine.recompute; okpres
  | succ fuel ih => unfold Engine.recompute; okpres; all_goals exact ih _
ok_leaf POk.recompute

theorem POk.rchRemoveMin : POk rchRemoveMin := by unfold Engine.rchRemoveMin; okpres
ok_leaf POk.rchRemoveMin

theorem POk.drainHeap (env fuel) : POk (drainHeap env fuel) := by
  induction fuel with
  | zero => unfold Engine.drainHeap; okpres
  | succ fuel ih => unfold Engine.drainHeap; okpres; all_goals exact ih
ok_leaf POk.drainHeap

theorem POk.becameNecessaryPropagate (env fuel n) : POk (becameNecessaryPropagate env fuel n) := by
  unfold Engine.becameNecessaryPropagate; okpres
ok_leaf POk.becameNecessaryPropagate
theorem POk.addNewObservers (env fuel) : POk (addNewObservers env fuel) := by
  unfold Engine.addNewObservers; okpres
ok_leaf POk.addNewObservers
theorem POk.unlinkDisallowedObservers (fuel) : POk (unlinkDisallowedObservers fuel) := by
  unfold Engine.unlinkDisallowedObservers; okpres
ok_leaf POk.unlinkDisallowedObservers
theorem POk.runAll (env fuel o n nu now) : POk (runAll env fuel o n nu now) := by
  unfold Engine.runAll; okpres
ok_leaf POk.runAll
theorem POk.stabiliseEnd (env fuel) : POk (stabiliseEnd env fuel) := by
  unfold Engine.stabiliseEnd; okpres
ok_leaf POk.stabiliseEnd

/-- **a `stabilise` that returns keeps the height-limit invariant** -/
theorem POk.stabilise (env fuel) : POk (stabilise env fuel) := by
  unfold Engine.stabilise; okpres

end IncrVerif.Proofs.AuditF.HLim
