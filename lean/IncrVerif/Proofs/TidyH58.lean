import IncrVerif.Proofs.TidyH57
/-!
# T1b, part 4: bisimulation ladder — observer and variable operations (conversion of MapRef18 and of the generic
leaves of MapRef19)
-/
namespace IncrVerif.Proofs.TidyH.RT
open IncrVerif.Engine IncrVerif.Driver IncrVerif.Proofs IncrVerif.Proofs.Step IncrVerif.Proofs.Sched IncrVerif.Proofs.Quiet
open IncrVerif.Proofs.MapRefH

section
variable {P : State → Prop} [Keeps P] {g : Nat → Option Val}

/-! ## from MapRef18 -/

omit [Keeps P] in
theorem BSim.getObs (o : Nat) : BSim P g (Engine.getObs o) (Engine.getObs o) := by
  intro s; unfold Engine.getObs; bsim
  split <;> bsim
macro_rules | `(tactic| bsim_leaf) => `(tactic| with_reducible exact BSim.getObs _)

theorem BSim.modObs (o : Nat) (f : ObsRec → ObsRec) : BSim P g (Engine.modObs o f) (Engine.modObs o f) := by
  intro s; unfold Engine.modObs; bsim
macro_rules | `(tactic| bsim_leaf) => `(tactic| with_reducible exact BSim.modObs _ _)

omit [Keeps P] in
theorem BSim.getVar (v : Nat) : BSim P g (Engine.getVar v) (Engine.getVar v) := by
  intro s; unfold Engine.getVar; bsim
  split <;> bsim
macro_rules | `(tactic| bsim_leaf) => `(tactic| with_reducible exact BSim.getVar _)

theorem BSim.modVar (v : Nat) (f : VarCell → VarCell) : BSim P g (Engine.modVar v f) (Engine.modVar v f) := by
  intro s; unfold Engine.modVar; bsim
macro_rules | `(tactic| bsim_leaf) => `(tactic| with_reducible exact BSim.modVar _ _)

theorem BSim.unlinkDisallowedObservers (fuel : Nat) :
    BSim P g (Engine.unlinkDisallowedObservers fuel) (Engine.unlinkDisallowedObservers fuel) := by
  intro s; unfold Engine.unlinkDisallowedObservers; bsim
macro_rules | `(tactic| bsim_leaf) => `(tactic| with_reducible exact BSim.unlinkDisallowedObservers _)

theorem BSim.disallowFutureUse (o : Nat) : BSim P g (Engine.disallowFutureUse o) (Engine.disallowFutureUse o) := by
  intro s; unfold Engine.disallowFutureUse; bsim
  split <;> bsim
macro_rules | `(tactic| bsim_leaf) => `(tactic| with_reducible exact BSim.disallowFutureUse _)

theorem BSim.didSetVarWhileNotStabilising (v : Nat) :
    BSim P g (Engine.didSetVarWhileNotStabilising v) (Engine.didSetVarWhileNotStabilising v) := by
  intro s; unfold Engine.didSetVarWhileNotStabilising; bsim
macro_rules | `(tactic| bsim_leaf) => `(tactic| with_reducible exact BSim.didSetVarWhileNotStabilising _)

theorem BSim.writeVar (v : Nat) (f : Val → Val) (isSet : Bool) :
    BSim P g (Engine.writeVar v f isSet) (Engine.writeVar v f isSet) := by
  intro s; unfold Engine.writeVar; bsim
  split <;> bsim
  split <;> bsim
macro_rules | `(tactic| bsim_leaf) => `(tactic| with_reducible exact BSim.writeVar _ _ _)

/-! ## from MapRef19 (the generic leaves) -/

omit [Keeps P] in
theorem BSim.resolveOpnd (loc : List Nat) (o : Opnd) :
    BSim P g (Engine.resolveOpnd loc o) (Engine.resolveOpnd loc o) := by
  intro s; unfold Engine.resolveOpnd
  cases o <;> dsimp only <;> bsim <;> split <;> bsim
macro_rules | `(tactic| bsim_leaf) => `(tactic| with_reducible exact BSim.resolveOpnd _ _)

theorem BSim.isConstant (n : Nat) : BSim P g (Engine.isConstant n) (Engine.isConstant n) := by
  intro s; unfold Engine.isConstant; bsim
  bsim_kind
macro_rules | `(tactic| bsim_leaf) => `(tactic| with_reducible exact BSim.isConstant _)

theorem BSim.dropVarHandle (v : Nat) : BSim P g (Engine.dropVarHandle v) (Engine.dropVarHandle v) := by
  intro s; unfold Engine.dropVarHandle; bsim
macro_rules | `(tactic| bsim_leaf) => `(tactic| with_reducible exact BSim.dropVarHandle _)

end
end IncrVerif.Proofs.TidyH.RT
