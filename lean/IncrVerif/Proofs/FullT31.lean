import IncrVerif.Proofs.FullT30
import IncrVerif.Proofs.FullT23
import IncrVerif.Proofs.FullT15
/-!
# C04 combined fragment: the assembly — from the two remaining contracts (`SimTotC`: simulated steps; `AnoC`: `add_new_observers`) to whole histories
-/
namespace IncrVerif.Proofs.FullT
open IncrVerif.Engine IncrVerif.Driver IncrVerif.Proofs IncrVerif.Proofs.Step IncrVerif.Proofs.Sched IncrVerif.Proofs.Quiet IncrVerif.Proofs.FullH
open IncrVerif.Proofs.NestH (DT TotIf HasRoomG LcStepTotG stepFuel runS)

/-- the fuel `stabilise` needs when the state it ends in has `sz` nodes -/
def needFuelF (sz : Nat) : Nat := 5 * sz + 8

theorem needFuelF_facts : (∀ sz, stepFuel sz + 2 * sz + 1 ≤ needFuelF sz) ∧ (∀ sz, 4 * sz + 8 ≤ needFuelF sz) ∧
    (∀ a b, a ≤ b → needFuelF a ≤ needFuelF b) := by
  unfold stepFuel needFuelF
  refine ⟨?_, ?_, ?_⟩ <;> intros <;> omega

section
variable {env : Env} {sp : Nat → Val → Val} {N : Nat}

theorem udoC (env : Env) (sp : Nat → Val → Val) : UdoC env sp :=
  fun g fuel s => BSim.unlinkDisallowedObservers (K := FK env sp) (g := g) fuel s

theorem actTotC (env : Env) (sp : Nat → Val → Val) (N : Nat) : ActTotC env sp N := by
  intro s g a tk Q hA hidx hs r s' hx hB
  obtain ⟨r0, e, h1, h2, h3, h4, h5, h6, h7⟩ := step_totalF (tk := tk) Q.q Q.p Q.t hA hidx.1 hidx.2 hs r s' hx hB
  exact ⟨r0, e, h1, ⟨h2, h3, h4⟩, h5, h6, h7⟩

theorem stepTotF' (E : EnvS env sp) (hF : FirstFn env) (SIM : SimTotC stepFuel env sp N) : StepTotF stepFuel env sp N :=
  stepTotF stepFuel_facts.1 stepFuel_facts.2.1 E hF (NestH.lcStepTot (VE env sp) N) SIM (mwoTotC env sp N)

theorem stabTotC (E : EnvS env sp) (hF : FirstFn env) (SIM : SimTotC stepFuel env sp N) (A : AnoC env sp) : StabTotC needFuelF env sp N :=
  fun _ _ _ Q => stabilise_totalF E hF A (udoC env sp) (stepTotF' E hF SIM) stepFuel_facts.2.2.2 stepFuel_facts.2.1
    needFuelF_facts.1 needFuelF_facts.2.1 Q

/-- **whole histories, from the two remaining contracts** -/
theorem history_totalF' (E : EnvS env sp) (hF : FirstFn env) (SIM : SimTotC stepFuel env sp N) (A : AnoC env sp)
    {d : Bool} {acts : List Action} (hH : HistFull env sp 0 acts) (hV : ValidIdxF 0 0 0 acts)
    (hroom : HasRoomG needFuelF N fuelDefault (runS env acts (State.init N d) #[]).2) :
    ∃ s tk g, Quiet.runActions env acts (State.init N d) #[] = .ok (s, tk) ∧ QF env sp N s g :=
  history_totalF E hF (stabTotC E hF SIM A) (actTotC env sp N) needFuelF_facts.2.2 hH hV hroom

end
end IncrVerif.Proofs.FullT
