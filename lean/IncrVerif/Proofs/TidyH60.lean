import IncrVerif.Proofs.TidyH55
/-!
# T1b, part 3: `markMapRefUnknown` — invisible in the virtual state, and it RETURNS

The recursion of `markMapRefUnknown fuel n` runs through the recorded parents of map_ref nodes.  With the carried
invariant `P2 N` every recorded parent `p` of `c` satisfies `c < p < N`, so `N ≤ fuel + n` is enough fuel.
-/
namespace IncrVerif.Proofs.TidyH.RT
open IncrVerif.Engine IncrVerif.Driver IncrVerif.Proofs IncrVerif.Proofs.Step IncrVerif.Proofs.Sched IncrVerif.Proofs.Quiet
open IncrVerif.Proofs.MapRefH

/-! ## the invariant of the cascades and of the drain -/

/-- kinds whose children are given by `kidsR` -/
def FragK : Kind → Prop
  | .const _ | .var _ | .map _ _ | .fold _ _ _ | .mapRef _ _ => True
  | _ => False

/-- the carried invariant of the cascades and of the drain: `Fr`; `N` nodes; the kinds are `K`, all of the fragment,
children have smaller indices; recorded parent entries are child edges -/
structure P2 (N : Nat) (K : Nat → Kind) (s : State) : Prop where
  fr : Fr s
  size : s.nodes.size = N
  kind : ∀ m, (s.nodeD m).kind = K m
  fragK : ∀ m, FragK (K m)
  back : ∀ n c, c ∈ kidsR (K n) → c < n
  pu : ∀ c p i, (p, i) ∈ (s.nodeD c).parents → c ∈ kidsR (K p)

theorem kidsR_default : kidsR (default : Node).kind = [] := rfl

theorem P2.lt_of_kid {N : Nat} {K : Nat → Kind} {s : State} (h : P2 N K s) {n c : Nat} (hc : c ∈ kidsR (K n)) :
    n < N := by
  by_cases hn : n < N
  · exact hn
  · rw [← h.kind, nodeD_default_of_ge s n (by rw [h.size]; omega), kidsR_default] at hc; cases hc

/-- a parent recorded at `c` exists and is younger than `c` -/
theorem P2.parent_facts {N : Nat} {K : Nat → Kind} {s : State} (h : P2 N K s) {c p i : Nat}
    (hm : (p, i) ∈ (s.nodeD c).parents) : c < p ∧ p < N ∧ c ∈ kidsR (K p) := by
  have hk := h.pu c p i hm
  exact ⟨h.back p c hk, h.lt_of_kid hk, hk⟩

theorem P2.children {N : Nat} {K : Nat → Kind} {s : State} (h : P2 N K s) (n : Nat) : s.children n = kidsR (K n) := by
  unfold State.children
  have hk? : (s.nodeD n).kind? = some (K n) := by simp [Node.kind?, h.fr.valid n, h.kind n]
  rw [hk?]
  have := h.fragK n
  cases hkn : K n <;> rw [hkn] at this <;> first | rfl | exact this.elim

theorem P2.of_nodeD {N : Nat} {K : Nat → Kind} {s s' : State} (h : P2 N K s) (hfr : Fr s')
    (hsz : s'.nodes.size = s.nodes.size) (hk : ∀ m, (s'.nodeD m).kind = (s.nodeD m).kind)
    (hpar : ∀ m x, x ∈ (s'.nodeD m).parents → x ∈ (s.nodeD m).parents) : P2 N K s' where
  fr := hfr
  size := hsz.trans h.size
  kind m := (hk m).trans (h.kind m)
  fragK := h.fragK
  back := h.back
  pu c p i hm := h.pu c p i (hpar c _ hm)

instance (N : Nat) (K : Nat → Kind) : Keeps (P2 N K) where
  fr h := h.fr
  of_nodes {s s'} h e1 e2 := by
    have hn : ∀ n, s'.nodeD n = s.nodeD n := fun n => by simp [State.nodeD, e1]
    exact h.of_nodeD (h.fr.of_nodes e1 e2) (by rw [e1]) (fun m => by rw [hn]) (fun m x hx => by rw [hn] at hx; exact hx)
  modify {s} n f h hk := by
    refine h.of_nodeD (Keeps.modify (P := Fr) n f h.fr hk) (by simp) (fun m => ?_) (fun m x hx => ?_)
    · rw [nodeD_modify]; split
      · exact (hk _).1
      · rfl
    · rw [nodeD_modify] at hx; split at hx
      · rw [(hk _).2.2.2.1] at hx; exact hx
      · exact hx
  rmParent {s} c k h := by
    refine h.of_nodeD (Keeps.rmParent (P := Fr) c k h.fr) (by simp) (fun m => ?_) (fun m x hx => ?_)
    · rw [nodeD_modify]; split <;> rfl
    · rw [nodeD_modify] at hx; split at hx
      · exact mem_of_mem_swapRemove hx
      · exact hx

theorem fragK_of_rkind {env : Env} {k : Kind} (h : RKind env k) : FragK k := by
  cases k <;> first | trivial | exact h.elim

/-- the fragment gives the carried invariant, except for `PU` -/
theorem P2.of_frag {env : Env} {s : State} (F : RFrag env s) (hp : s.propagateInvalidity = [])
    (hpu : ∀ c p i, (p, i) ∈ (s.nodeD c).parents → c ∈ kidsR (s.nodeD p).kind) :
    P2 s.nodes.size (fun m => (s.nodeD m).kind) s where
  fr := F.fr hp
  size := rfl
  kind _ := rfl
  fragK m := by
    by_cases hm : m < s.nodes.size
    · exact fragK_of_rkind (F.kind m hm)
    · rw [nodeD_default_of_ge s m (by omega)]; trivial
  back n c hc := by
    by_cases hn : n < s.nodes.size
    · exact F.back n hn c hc
    · rw [nodeD_default_of_ge s n (by omega), kidsR_default] at hc; cases hc
  pu := hpu

section
variable {g : Nat → Option Val} {N : Nat} {K : Nat → Kind}

/-- flag-only work keeps the carried invariant -/
theorem P2.of_veq {s s' : State} (h : P2 N K s) (v : VEq g s s') : P2 N K s' := by
  have hnd : ∀ m, (virt g s').nodeD m = (virt g s).nodeD m := fun m => by rw [v.veq]
  refine h.of_nodeD (v.noExp h.fr) ?_ v.kind (fun m x hx => ?_)
  · have := congrArg (fun t : State => t.nodes.size) v.veq
    simpa [virt_size] using this
  · have := hnd m
    rw [virt_nodeD, virt_nodeD] at this
    have hp := congrArg Node.parents this
    rw [virtNode_parents, virtNode_parents] at hp
    rw [hp] at hx; exact hx

theorem markMapRefUnknown_p2 {fuel n : Nat} {s s' : State} {u : Unit} (h : P2 N K s)
    (hr : (markMapRefUnknown fuel n).run.run s = (.ok u, s')) : P2 N K s' :=
  h.of_veq ((PresV.markMapRefUnknown (g := fun _ => none) fuel n).h s _ s' hr)

/-- **`markMapRefUnknown` returns.** -/
theorem markMapRefUnknown_returns : ∀ (fuel n : Nat) (s : State), P2 N K s → n < N → N ≤ fuel + n →
    ∃ s', (markMapRefUnknown fuel n).run.run s = (.ok (), s') := by
  intro fuel
  induction fuel with
  | zero => intro n s _ h1 h2; omega
  | succ fuel ih =>
    intro n s hp hn hf
    have hlt : n < s.nodes.size := by rw [hp.size]; exact hn
    suffices T : Tot (markMapRefUnknown (fuel + 1) n) s (fun _ _ => True) by
      obtain ⟨_, s', h, -⟩ := T; exact ⟨s', h⟩
    unfold markMapRefUnknown
    refine Tot.bind_getNode hlt ?_
    rcases hk : (s.nodeD n).kind? with _ | k
    · exact Tot.pure trivial
    cases k
    case mapRef pr i =>
      dsimp only
      refine Tot.bind_modNode ?_
      have hp1 : P2 N K { s with nodes := s.nodes.modify n fun x => { x with didChange := true } } :=
        Keeps.modify n _ hp (fun nd => ⟨rfl, rfl, rfl, rfl, rfl⟩)
      generalize ({ s with nodes := s.nodes.modify n fun x => { x with didChange := true } } : State) = s1 at hp1
      have hlt1 : n < s1.nodes.size := by rw [hp1.size]; exact hn
      refine Tot.bind_getNode hlt1 ?_
      refine Tot.bind (Q := fun _ _ => True) ?_ (fun _ _ _ _ => Tot.pure trivial)
      have key := forIn_tot (fun (x : Nat × Nat) (r : PUnit) => do
          let _ ← markMapRefUnknown fuel x.1
          pure (ForInStep.yield PUnit.unit)) (s1.nodeD n).parents (fun _ _ t => P2 N K t) ?_
        (s1.nodeD n).parents 0 PUnit.unit s1 (by simp) (Nat.zero_le _) hp1
      · obtain ⟨b', s', h, -⟩ := key
        exact ⟨b', s', h, trivial⟩
      · intro j a b t hj hpt
        have hmem : a ∈ (s1.nodeD n).parents := List.mem_of_getElem? hj
        obtain ⟨p, ci⟩ := a
        obtain ⟨h1, h2, -⟩ := hp1.parent_facts hmem
        obtain ⟨t', ht'⟩ := ih p t hpt h2 (by omega)
        exact ⟨PUnit.unit, t', by rw [run_bind_ok ht', run_pure], markMapRefUnknown_p2 hpt ht'⟩
    all_goals exact Tot.pure trivial

/-- the leaf: `markMapRefUnknown` is a no-op of the virtual engine, and returns -/
theorem BSimAt.markMapRefUnknown {fuel n : Nat} {s : State} (hn : n < N) (hf : N ≤ fuel + n) :
    BSimAt (P2 N K) g s (Engine.markMapRefUnknown fuel n) (Engine.markMapRefUnknown fuel n) := by
  intro hp
  refine ⟨fun r s' hr => ?_, fun r t hr => ?_⟩
  · exact ⟨(Sim.markMapRefUnknown (g := g) fuel n s hp.fr r s' hr).1, markMapRefUnknown_p2 hp hr⟩
  · obtain ⟨s', hs'⟩ := markMapRefUnknown_returns fuel n s hp hn hf
    exact ⟨s', hs'⟩

end
end IncrVerif.Proofs.TidyH.RT
