import IncrVerif.Proofs.ExpertH70
import IncrVerif.Proofs.ExpertH54
import IncrVerif.Proofs.EffH1
/-!
# Drivers, part 0: definitions and contracts

DRIVERS are `map f args` nodes (`f < fnZip`) whose effect list `env.fnEff f vals` rewires expert nodes
(`xAdd`/`xRm`/`xSel`/`xStale`) of which the driver is a dependency.

* `E := EffH.noEff env` is the environment with the effects erased; every invariant is stated for `E`, so that the
  whole development `ExpertH` (fragment X1, `XFrag E s`, `virt`, `virtEnv E`, `QR.GInv`, …) applies unchanged.
* `Mid E s`: the invariant BETWEEN TWO EFFECTS of a running driver (the driver is stamped, so no necessary stale node
  is unqueued: the virtual state satisfies the structural invariant at rest `QR.Struct`).
* `EF D s s'`: the frame of a sequence of effects (`D e`: the expert records that may have been edited).
* `AddSpec`, `RmSpec`, `StaleSpec`: the contracts of the three expert API calls, from `Mid` to `Mid`.
* `Drives`, `PS`, `EffOK`, `DrvOK`: well-formedness of drivers.
-/
namespace IncrVerif.Proofs.DriverH
open IncrVerif.Engine IncrVerif.Driver IncrVerif.Proofs IncrVerif.Proofs.Step IncrVerif.Proofs.Sched
open IncrVerif.Proofs.ExpertH IncrVerif.Proofs.ExpertH.QR

/-! ## the invariant between two effects -/

/-- between two effects of a running driver (and at the start/end of its effect list) -/
structure Mid (E : Env) (s : State) : Prop where
  frag : XFrag E s
  ahh : QR.AhhEmpty s
  st : ∃ rk, QR.Struct (virtEnv E) rk (virt s)
  pinv : s.propagateInvalidity = []
  handlers : ∀ m, (s.nodeD m).numOnUpdateHandlers ≤ 0

theorem Mid.fr {E : Env} {s : State} (M : Mid E s) : Fr s := M.frag.fr M.pinv

/-! ## the frame of effects -/

/-- the state fields no effect changes -/
def eKey (s : State) :=
  (s.vars, s.binds, s.stabNum, s.status, s.cfg, s.currentScope, s.observers, s.newObservers,
    s.disallowedObservers, s.allObservers, s.setDuringStab, s.deadVars, s.handleAfterStab, s.propagateInvalidity,
    s.top, s.alive, s.rch.queues.size, s.panicCountdown)

/-- what the well-formedness of drivers and the virtual kind read of an expert record -/
def recK (er : ExpertRec) := (er.children, er.forceStale, er.script, er.sel)

/-- the frame of (a sequence of) effects; `D e`: record `e` may have been edited -/
structure EF (D : Nat → Prop) (s s' : State) : Prop where
  size : s'.nodes.size = s.nodes.size
  node : ∀ m, nodeKey (s'.nodeD m) = nodeKey (s.nodeD m)
  key : eKey s' = eKey s
  xsize : s'.experts.size = s.experts.size
  xcore : ∀ (e : Nat) (er : ExpertRec), s.experts[e]? = some er →
    ∃ er', s'.experts[e]? = some er' ∧ er'.f = er.f ∧ er'.node = er.node ∧ er'.pk = er.pk
  xsame : ∀ (e : Nat) (er er' : ExpertRec), ¬ D e → s.experts[e]? = some er → s'.experts[e]? = some er' →
    recK er' = recK er
  xforce : ∀ (e : Nat) (er er' : ExpertRec), s.experts[e]? = some er → s'.experts[e]? = some er' →
    (er'.children = er.children ∧ er'.forceStale = er.forceStale) ∨ er'.forceStale = true
  nextDep : s.nextDep ≤ s'.nextDep

theorem EF.refl (D : Nat → Prop) (s : State) : EF D s s :=
  ⟨rfl, fun _ => rfl, rfl, rfl, fun _ er h => ⟨er, h, rfl, rfl, rfl⟩,
    fun _ er er' _ h h' => by rw [h] at h'; cases h'; rfl,
    fun _ er er' h h' => by rw [h] at h'; cases h'; exact Or.inl ⟨rfl, rfl⟩, Nat.le_refl _⟩

theorem EF.trans {D : Nat → Prop} {a b c : State} (h1 : EF D a b) (h2 : EF D b c) : EF D a c := by
  refine ⟨h2.size.trans h1.size, fun m => (h2.node m).trans (h1.node m), h2.key.trans h1.key,
    h2.xsize.trans h1.xsize, ?_, ?_, ?_, Nat.le_trans h1.nextDep h2.nextDep⟩
  · intro e er he
    obtain ⟨er1, he1, f1, n1, p1⟩ := h1.xcore e er he
    obtain ⟨er2, he2, f2, n2, p2⟩ := h2.xcore e er1 he1
    exact ⟨er2, he2, f2.trans f1, n2.trans n1, p2.trans p1⟩
  · intro e er er2 hD he he2
    obtain ⟨er1, he1, -⟩ := h1.xcore e er he
    exact (h2.xsame e er1 er2 hD he1 he2).trans (h1.xsame e er er1 hD he he1)
  · intro e er er2 he he2
    obtain ⟨er1, he1, -⟩ := h1.xcore e er he
    rcases h2.xforce e er1 er2 he1 he2 with ⟨k1, k2⟩ | k
    · rcases h1.xforce e er er1 he he1 with ⟨j1, j2⟩ | j
      · exact Or.inl ⟨k1.trans j1, k2.trans j2⟩
      · exact Or.inr (k2.trans j)
    · exact Or.inr k

theorem EF.mono {D D' : Nat → Prop} {s s' : State} (h : EF D s s') (hDD : ∀ e, D e → D' e) : EF D' s s' :=
  { h with xsame := fun e er er' hD => h.xsame e er er' (fun hd => hD (hDD e hd)) }

/-! ## the contracts of the three expert API calls (for an effect-free environment `E`) -/

/-- `expert_add_dependency` between two effects: the new edge closes no cycle -/
def AddSpec (E : Env) : Prop :=
  ∀ (fuel x c e : Nat) (cb : Bool) (s s' : State) (dep : Nat) (er : ExpertRec),
    Mid E s → x < s.nodes.size → (s.nodeD x).kind = .expert e → s.experts[e]? = some er →
    c < s.nodes.size → ¬ ExpertH.Below s c x →
    (expertAddDependency E fuel x c cb).run.run s = (.ok dep, s') →
    Mid E s' ∧ EF (fun e' => e' = e) s s' ∧ dep = s.nextDep ∧ s'.nextDep = s.nextDep + 1 ∧
      (∃ er', s'.experts[e]? = some er' ∧ er'.children = er.children ++ [Xp.newEdge s c cb] ∧
        er'.script = er.script ∧ er'.sel = er.sel ∧ er'.forceStale = true) ∧
      (∀ m, s.isNecessary m = true → s'.isNecessary m = true)

/-- `expert_remove_dependency` between two effects: the edge at position `i` (the first one named `dep`) is swapped
with the last edge and dropped -/
def RmSpec (E : Env) : Prop :=
  ∀ (fuel x dep e i : Nat) (s s' : State) (er : ExpertRec),
    Mid E s → x < s.nodes.size → (s.nodeD x).kind = .expert e → s.experts[e]? = some er →
    er.children.findIdx? (·.dep == dep) = some i →
    (expertRemoveDependency fuel x dep).run.run s = (.ok (), s') →
    Mid E s' ∧ EF (fun e' => e' = e) s s' ∧ s'.nextDep = s.nextDep ∧
      (∃ er', s'.experts[e]? = some er' ∧ er'.children = Xp.swapPop er.children i ∧
        er'.script = er.script ∧ er'.sel = er.sel ∧ er'.forceStale = true) ∧
      s'.isNecessary x = s.isNecessary x ∧
      (s.isNecessary x = false → ∀ m, s'.isNecessary m = s.isNecessary m)

/-- `expert_make_stale` between two effects -/
def StaleSpec (E : Env) : Prop :=
  ∀ (x e : Nat) (s s' : State) (er : ExpertRec),
    Mid E s → x < s.nodes.size → (s.nodeD x).kind = .expert e → s.experts[e]? = some er →
    (expertMakeStale x).run.run s = (.ok (), s') →
    Mid E s' ∧ EF (fun e' => e' = e) s s' ∧ s'.nextDep = s.nextDep ∧
      (∃ er', s'.experts[e]? = some er' ∧ er'.children = er.children ∧
        er'.script = er.script ∧ er'.sel = er.sel ∧ er'.forceStale = true) ∧
      (∀ m, s'.isNecessary m = s.isNecessary m)

/-! ## well-formed drivers -/

/-- the node an operand of an effect names (effects are resolved with no locals) -/
def resOp (s : State) : Opnd → Option Nat
  | .outer k => s.top[k]?
  | .abs n => some n
  | _ => none

/-- `n` is attached to the expert node `x` (record `e`) by a PROTECTED dependency: one that no `xRm`/`xSel` of the
scripts removes (it is neither in the script list nor the selected dependency) -/
def Drives (s : State) (n x : Nat) : Prop :=
  x < s.nodes.size ∧ ∃ e er, (s.nodeD x).kind = .expert e ∧ s.experts[e]? = some er ∧
    ∃ ed, ed ∈ er.children ∧ ed.child = n ∧ ed.dep < s.nextDep ∧ ed.dep ∉ er.script ∧
      ∀ d c, er.sel = some (d, c) → d ≠ ed.dep

/-- a legal target of `xAdd`/`xSel`: a node below which there is no expert node (so it never depends on an expert
node, and its cone never changes) -/
def PS (s : State) (c : Nat) : Prop :=
  c < s.nodes.size ∧ ∀ d, ExpertH.Below s c d → ∀ e, (s.nodeD d).kind ≠ .expert e

/-- a legal effect of the driver `n` -/
def EffOK (s : State) (n : Nat) : Effect → Prop
  | .xAdd eo co _ => ∃ x c, resOp s eo = some x ∧ resOp s co = some c ∧ Drives s n x ∧ PS s c
  | .xRm eo _ => ∃ x, resOp s eo = some x ∧ Drives s n x
  | .xSel eo _ _ targets => ∃ x, resOp s eo = some x ∧ Drives s n x ∧
      ∀ t, t ∈ targets → ∃ c, resOp s t = some c ∧ PS s c
  | .xStale eo => ∃ x, resOp s eo = some x ∧ Drives s n x
  | _ => False

/-- every effect of every `map` node with a user function is legal (for every argument list) -/
def DrvOK (env : Env) (s : State) : Prop :=
  ∀ (n f : Nat) (args : List Nat), n < s.nodes.size → (s.nodeD n).kind = .map f args → f < fnZip →
    ∀ (vals : List Val) (eff : Effect), eff ∈ env.fnEff f vals → EffOK s n eff

end IncrVerif.Proofs.DriverH
