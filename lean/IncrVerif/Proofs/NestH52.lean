import IncrVerif.Proofs.NestH43
import IncrVerif.Proofs.NestH12
import IncrVerif.Proofs.NestH11
import IncrVerif.Proofs.NestH15
import IncrVerif.Proofs.NestH51
/-!
# Nested binds (F2), part 4p2: the prefix of `stabilise`: `addNewObservers`, `unlinkDisallowedObservers` keep `SInv2`

Port of `BindH90` (`C2p2`) to graphs with nested binds (fragment F2, ghost rank `rk`: the SAME rank before and after, no node is created).
In addition: the marks of the adjust-heights heap (`heightInAhh`) are untouched.
-/
namespace IncrVerif.Proofs.NestH
open IncrVerif.Engine IncrVerif.Driver IncrVerif.Proofs IncrVerif.Proofs.Step IncrVerif.Proofs.Sched IncrVerif.Proofs.Quiet
open IncrVerif.Proofs.Quiet.P12
open IncrVerif.Proofs.BindH

namespace N4p

theorem addNewObservers_full2 {env : Env} {rk : Nat → Nat} {fuel : Nat} {s s' : State}
    (I : SInv2 env rk s s.newObservers s.disallowedObservers)
    (h : (addNewObservers env fuel).run.run s = (.ok (), s')) :
    (SInv2 env rk s' [] s'.disallowedObservers ∧ s'.newObservers = [] ∧
      s'.disallowedObservers = s.disallowedObservers ∧ PFrame s s' ∧ ObsMap addedState s s' ∧
      (∀ m, s.isNecessary m = true → s'.isNecessary m = true)) ∧ BR.MFr s s' := by
  unfold addNewObservers at h
  rw [run_bind_get] at h
  obtain ⟨s0, hs0, h⟩ := bind_modify_inv h
  obtain ⟨u, s1, hloop, h⟩ := bind_ok_inv h
  obtain ⟨-, e⟩ := pure_ok_inv h
  rw [e]
  have I0 : SInv2 env rk s0 s.newObservers s.disallowedObservers := by
    rw [hs0]; exact sInv2_congr I rfl rfl rfl rfl rfl rfl rfl rfl
  have P0 : PFrame s s0 := by rw [hs0]; exact ⟨rfl, fun _ => rfl, rfl, id⟩
  have M0 : BR.MFr s s0 := by rw [hs0]; exact fun _ => rfl
  have hno0 : s0.newObservers = [] := by rw [hs0]
  have hdo0 : s0.disallowedObservers = s.disallowedObservers := by rw [hs0]
  have hob0 : s0.observers = s.observers := by rw [hs0]
  have hnec0 : ∀ m, s0.isNecessary m = s.isNecessary m := fun m => by rw [hs0]; rfl
  have hfin := forIn_ok_inv _ s.newObservers
    (fun j (_ : PUnit) t => SInv2 env rk t (s.newObservers.drop j) s.disallowedObservers ∧
      IterRel .created .inUse s0 t ∧ (∀ m, s0.isNecessary m = true → t.isNecessary m = true) ∧ BR.MFr s0 t)
    (by
      intro j o b t r t' hj ⟨It, Rt, Nt, Mt⟩ hbody
      rw [drop_of_getElem? hj] at It
      obtain ⟨ob, hob, hbody⟩ := P12.bind_getObs_inv hbody
      cases hst : ob.state <;> rw [hst] at hbody <;> try dsimp only at hbody
      case inUse =>
        obtain ⟨_, _, h1, _⟩ := bind_ok_inv hbody
        rw [run_panic] at h1; cases h1
      case disallowed =>
        obtain ⟨_, _, h1, _⟩ := bind_ok_inv hbody
        rw [run_panic] at h1; cases h1
      case unlinked =>
        obtain ⟨hr, e⟩ := pure_ok_inv hbody
        rw [e]
        exact ⟨_, hr, ⟨It.struct, obsInv_skip_step It.obs hob (by rw [hst]; exact fun e => by cases e), It.obsTop,
          It.pinv, It.handlers, It.noForce⟩, Rt, Nt, Mt⟩
      case created =>
        obtain ⟨t1, ht1, hbody⟩ := P12.bind_modObs_inv hbody
        rw [run_bind_get] at hbody
        try dsimp only at hbody
        obtain ⟨t2, ht2, hbody⟩ := bind_modify_inv hbody
        obtain ⟨t3, ht3, hbody⟩ := bind_modNode_inv hbody
        obtain ⟨_, t4, h4, hbody⟩ := bind_ok_inv hbody
        rw [run_bind_get] at hbody
        replace hbody := bind_dassert_inv hbody
        have hh : ob.handlers = [] := (It.obs.inRange o ob hob).2
        have e3 : t3 = obsAdded o ob.node ((0 : Nat) : Int) t := by rw [ht3, ht2, ht1, hh]; rfl
        rw [e3] at h4
        obtain ⟨hr, I', R', N', M'⟩ := add_created2 (was := t1.isNecessary ob.node) It hob hst
          (by rw [ht1]; rfl) h4 hbody
        exact ⟨_, hr, I', Rt.trans R', fun m hm => N' m (Nt m hm), C2p.MFr.trans Mt M'⟩)
    s.newObservers 0 PUnit.unit s0 u s1 (by simp) (Nat.zero_le _)
    ⟨by rw [List.drop_zero]; exact I0, IterRel.refl _ _ _, fun _ h => h, fun _ => rfl⟩ hloop
  obtain ⟨I1, R1, N1, M1⟩ := hfin
  rw [List.drop_length] at I1
  have hdo1 : s1.disallowedObservers = s.disallowedObservers := R1.disObs.trans hdo0
  refine ⟨⟨by rw [hdo1]; exact I1, R1.newObs.trans hno0, hdo1, P0.trans R1.frame,
    ⟨R1.size.trans (by rw [hob0]), fun o ob ho => ?_⟩, fun m hm => N1 m (by rw [hnec0]; exact hm)⟩,
    C2p.MFr.trans M0 M1⟩
  obtain ⟨ob', h1, h2, h3⟩ := R1.recs o ob (by rw [hob0]; exact ho)
  refine ⟨ob', h1, h2, ?_⟩
  rcases h3 with h3 | ⟨h3, h4⟩
  · rw [h3]
    cases hst : ob.state
    case created =>
      have := I1.obs.created o ob' h1 (by rw [h3, hst])
      cases this
    all_goals rfl
  · rw [h3, h4]; rfl

theorem unlinkDisallowedObservers_full2 {env : Env} {rk : Nat → Nat} {fuel : Nat} {s s' : State}
    (I : SInv2 env rk s [] s.disallowedObservers) (hn : s.newObservers = [])
    (h : (unlinkDisallowedObservers fuel).run.run s = (.ok (), s')) :
    (SInv2 env rk s' [] [] ∧ s'.newObservers = [] ∧ s'.disallowedObservers = [] ∧ PFrame s s' ∧
      ObsMap unlinkedState s s') ∧ BR.MFr s s' := by
  unfold unlinkDisallowedObservers at h
  rw [run_bind_get] at h
  obtain ⟨s0, hs0, h⟩ := bind_modify_inv h
  obtain ⟨u, s1, hloop, h⟩ := bind_ok_inv h
  obtain ⟨-, e⟩ := pure_ok_inv h
  rw [e]
  have I0 : SInv2 env rk s0 [] s.disallowedObservers := by
    rw [hs0]; exact sInv2_congr I rfl rfl rfl rfl rfl rfl rfl rfl
  have P0 : PFrame s s0 := by rw [hs0]; exact ⟨rfl, fun _ => rfl, rfl, id⟩
  have M0 : BR.MFr s s0 := by rw [hs0]; exact fun _ => rfl
  have hno0 : s0.newObservers = [] := by rw [hs0]; exact hn
  have hdo0 : s0.disallowedObservers = [] := by rw [hs0]
  have hob0 : s0.observers = s.observers := by rw [hs0]
  have hfin := forIn_ok_inv _ s.disallowedObservers
    (fun j (_ : PUnit) t => SInv2 env rk t [] (s.disallowedObservers.drop j) ∧
      IterRel .disallowed .unlinked s0 t ∧ BR.MFr s0 t)
    (by
      intro j o b t r t' hj ⟨It, Rt, Mt⟩ hbody
      rw [drop_of_getElem? hj] at It
      obtain ⟨ob, hob, hbody⟩ := P12.bind_getObs_inv hbody
      replace hbody := bind_dassert_inv hbody
      obtain ⟨t1, ht1, hbody⟩ := P12.bind_modObs_inv hbody
      obtain ⟨t2, ht2, hbody⟩ := bind_modNode_inv hbody
      obtain ⟨t3, ht3, hbody⟩ := bind_modify_inv hbody
      obtain ⟨_, t4, h4, hbody⟩ := bind_ok_inv hbody
      obtain ⟨hr, e⟩ := pure_ok_inv hbody
      rw [e]
      have hh : ob.handlers = [] := (It.obs.inRange o ob hob).2
      have e3 : t3 = obsRemoved o ob.node ((0 : Nat) : Int) t := by rw [ht3, ht2, ht1, hh]; rfl
      rw [e3] at h4
      obtain ⟨I', R', M'⟩ := unlink_iter2 It hob h4
      exact ⟨_, hr, I', Rt.trans R', C2p.MFr.trans Mt M'⟩)
    s.disallowedObservers 0 PUnit.unit s0 u s1 (by simp) (Nat.zero_le _)
    ⟨by rw [List.drop_zero]; exact I0, IterRel.refl _ _ _, fun _ => rfl⟩ hloop
  obtain ⟨I1, R1, M1⟩ := hfin
  rw [List.drop_length] at I1
  refine ⟨⟨I1, R1.newObs.trans hno0, R1.disObs.trans hdo0, P0.trans R1.frame,
    R1.size.trans (by rw [hob0]), fun o ob ho => ?_⟩, C2p.MFr.trans M0 M1⟩
  obtain ⟨ob', h1, h2, h3⟩ := R1.recs o ob (by rw [hob0]; exact ho)
  refine ⟨ob', h1, h2, ?_⟩
  rcases h3 with h3 | ⟨h3, h4⟩
  · rw [h3]
    cases hst : ob.state
    case disallowed =>
      have := (I1.obs.dis o ob' h1).1 (by rw [h3, hst])
      cases this
    all_goals rfl
  · rw [h3, h4]; rfl

end N4p

/-- **`addNewObservers` keeps the prefix invariant, graphs with nested binds (fragment F2), same ghost rank.** -/
theorem addNewObservers_s2 {env : Env} {rk : Nat → Nat} {fuel : Nat} {s s' : State}
    (I : SInv2 env rk s s.newObservers s.disallowedObservers)
    (h : (addNewObservers env fuel).run.run s = (.ok (), s')) :
    SInv2 env rk s' [] s'.disallowedObservers ∧ s'.newObservers = [] ∧
      s'.disallowedObservers = s.disallowedObservers ∧ PFrame s s' ∧ ObsMap addedState s s' ∧
      (∀ m, s.isNecessary m = true → s'.isNecessary m = true) :=
  (N4p.addNewObservers_full2 I h).1

/-- `addNewObservers` does not touch the marks of the adjust-heights heap -/
theorem addNewObservers_marks2 {env : Env} {rk : Nat → Nat} {fuel : Nat} {s s' : State}
    (I : SInv2 env rk s s.newObservers s.disallowedObservers)
    (h : (addNewObservers env fuel).run.run s = (.ok (), s')) :
    ∀ m, (s'.nodeD m).heightInAhh = (s.nodeD m).heightInAhh :=
  (N4p.addNewObservers_full2 I h).2

/-- **`unlinkDisallowedObservers` keeps the prefix invariant, graphs with nested binds (fragment F2), same ghost rank.** -/
theorem unlinkDisallowedObservers_s2 {env : Env} {rk : Nat → Nat} {fuel : Nat} {s s' : State}
    (I : SInv2 env rk s [] s.disallowedObservers) (hn : s.newObservers = [])
    (h : (unlinkDisallowedObservers fuel).run.run s = (.ok (), s')) :
    SInv2 env rk s' [] [] ∧ s'.newObservers = [] ∧ s'.disallowedObservers = [] ∧ PFrame s s' ∧
      ObsMap unlinkedState s s' :=
  (N4p.unlinkDisallowedObservers_full2 I hn h).1

/-- `unlinkDisallowedObservers` does not touch the marks of the adjust-heights heap -/
theorem unlinkDisallowedObservers_marks2 {env : Env} {rk : Nat → Nat} {fuel : Nat} {s s' : State}
    (I : SInv2 env rk s [] s.disallowedObservers) (hn : s.newObservers = [])
    (h : (unlinkDisallowedObservers fuel).run.run s = (.ok (), s')) :
    ∀ m, (s'.nodeD m).heightInAhh = (s.nodeD m).heightInAhh :=
  (N4p.unlinkDisallowedObservers_full2 I hn h).2

/-- the prefix invariant at the start of `stabilise` from the invariant between API actions (what `stabilise_F1` builds by hand in `BindH94`);
`F2Inv` supplies `pinv`, `noHandlers`, `noForce` -/
theorem SInv2.of_qinv2 {env : Env} {rk : Nat → Nat} {s : State} (Q : QInv2 env rk s) :
    SInv2 env rk s s.newObservers s.disallowedObservers :=
  ⟨Q.struct, Q.obs, Q.obsTop, Q.f2.pinv, Q.f2.noHandlers, Q.f2.noForce⟩

end IncrVerif.Proofs.NestH
