import IncrVerif.Proofs.FaultH9
/-!
# Faults in whole histories, part 6: the invariant modulo a pending fault; histories up to the first panic
-/
namespace IncrVerif.Proofs.FaultH
open IncrVerif.Engine IncrVerif.Driver IncrVerif.Proofs IncrVerif.Proofs.Step
open IncrVerif.Proofs.SubsH (PureHandlers UInv SubAction)

variable {env : Env}

/-- the invariant between actions, whatever fault is armed: the state with the countdown erased satisfies `UInv` -/
def UInvA (env : Env) (s : State) : Prop := UInv env (setCd none s)

theorem UInvA.of_uinv {s : State} (U : UInv env s) : UInvA env s := by
  have : setCd none s = s := setCd_self U.core.struct.static.pc
  unfold UInvA; rw [this]; exact U

theorem UInvA.fr {s : State} (U : UInvA env s) : Fr env s :=
  (fr_of_qinv U.core).of_nodes rfl rfl

/-- the actions with faults before the first panic: the fragment with subscriptions and `arm` -/
def AAction (env : Env) : Action → Prop
  | .arm _ => True
  | a => SubAction env a

/-- **an action other than `stabilise` neither reads nor writes the countdown**: it runs exactly as in the state without
fault, keeps the invariant, logs nothing -/
theorem step_healthy {s s' : State} {a : Action} {tk : Array Nat} {r : String × Array Nat}
    (U : UInvA env s) (heff : PureHandlers env) (ha : SubAction env a) (hns : a ≠ .stabilise)
    (h : (stepAction env a tk).run.run s = (.ok r, s')) :
    UInvA env s' ∧ s'.panicCountdown = s.panicCountdown ∧ s'.log = s.log ∧
      (stepAction env a tk).run.run (setCd none s) = (.ok r, setCd none s') := by
  have C := Comm.stepAction ha hns tk
  obtain ⟨e0, -, l0⟩ := C none s U.fr _ _ h
  obtain ⟨e1, -, -⟩ := C s.panicCountdown s U.fr _ _ h
  rw [setCd_self rfl, h] at e1
  have hp : s'.panicCountdown = s.panicCountdown := by
    have := congrArg (fun p => p.2.panicCountdown) e1
    exact this
  exact ⟨(SubsH.step_u U heff ha e0).1, hp, l0, e0⟩

theorem step_arm {s : State} (U : UInvA env s) (k : Nat) (tk : Array Nat) :
    (stepAction env (.arm k) tk).run.run s = (.ok ("ok", tk), setCd (some k) s) ∧ UInvA env (setCd (some k) s) :=
  ⟨rfl, U⟩

/-! ## a `stabilise` that returns although a fault is armed: the fault was not reached -/

theorem Locked.ok_of_armed_ok {α} {P : Event → Prop} {s s' u : State} {x : M α} {r : Except Panic α} {evs : List Event}
    {k : Nat} {a : α} (L : Locked P s x r s' evs) (h : x.run.run (setCd (some k) s) = (.ok a, u)) :
    evs.length < eff k ∧ r = .ok a ∧ u = setCd (some (k - evs.length)) s' := by
  by_cases hk : evs.length < eff k
  · have := L.pass k hk
    rw [h] at this
    cases this
    exact ⟨hk, rfl, rfl⟩
  · obtain ⟨t, ht, -⟩ := L.fire k (by omega)
    rw [h] at ht; cases ht

/-- if `stabilise` returns from a healthy state with a fault armed, the fault-free `stabilise` returns too -/
theorem armed_ok_ff_ok {fuel : Nat} {s u : State} {k : Nat} (U : UInv env s) (heff : PureHandlers env)
    (h : (stabilise env fuel).run.run (setCd (some k) s) = (.ok (), u)) :
    ∃ s', (stabilise env fuel).run.run s = (.ok (), s') := by
  have Q := U.core
  have hst : s.status = .notStabilising := Q.status
  have hpc : s.panicCountdown = none := Q.struct.static.pc
  have hfr : Fr env s := fr_of_qinv Q
  have hsta : (setCd (some k) s).status = .notStabilising := hst
  rw [Poison.stabilise_run env fuel _ hsta] at h
  have e0 : ({ setCd (some k) s with status := .stabilising } : State)
      = setCd (some k) { s with status := .stabilising } := rfl
  rw [e0] at h
  have hfr0 : Fr env { s with status := .stabilising } := hfr.of_nodes rfl rfl
  rcases h1 : (Poison.propagate env fuel).run.run { s with status := .stabilising } with ⟨r1, s1⟩
  obtain ⟨fr1, pc1, pre, L1⟩ := Lock.propagate (env := env) fuel _ hfr0 hpc _ _ h1
  rcases a1 : (Poison.propagate env fuel).run.run (setCd (some k) { s with status := .stabilising }) with ⟨x1, u1⟩
  rw [a1] at h
  cases x1 with
  | error p => cases h
  | ok y1 =>
  dsimp only at h
  obtain ⟨hk1, er1, eu1⟩ := L1.ok_of_armed_ok a1
  subst er1
  rw [eu1] at h
  rcases h2 : (Poison.stabiliseEndPrepare env).run.run s1 with ⟨r2, s2⟩
  have C2 := fun c => Comm.stabiliseEndPrepare (env := env) c s1 fr1 _ _ h2
  rw [(C2 (some (k - pre.length))).1] at h
  cases r2 with
  | error p => cases h
  | ok q =>
  dsimp only at h
  have fr2 : Fr env s2 := (C2 none).2.1
  have pc2 : s2.panicCountdown = none := by
    have := (C2 none).1
    rw [setCd_self pc1, h2] at this
    exact congrArg (fun p => p.2.panicCountdown) this
  have hfr2 : Fr env { s2 with status := .runningOnUpdateHandlers } := fr2.of_nodes rfl rfl
  rcases h3 : (Poison.runHandlers env fuel q).run.run { s2 with status := .runningOnUpdateHandlers } with ⟨r3, s3⟩
  obtain ⟨fr3, pc3, del, L3⟩ := Lock.runHandlers (env := env) heff fuel q _ hfr2 pc2 _ _ h3
  have e2 : ({ setCd (some (k - pre.length)) s2 with status := .runningOnUpdateHandlers } : State)
      = setCd (some (k - pre.length)) { s2 with status := .runningOnUpdateHandlers } := rfl
  rw [e2] at h
  rcases a3 : (Poison.runHandlers env fuel q).run.run
      (setCd (some (k - pre.length)) { s2 with status := .runningOnUpdateHandlers }) with ⟨x3, u3⟩
  rw [a3] at h
  cases x3 with
  | error p => cases h
  | ok y3 =>
  obtain ⟨-, er3, -⟩ := L3.ok_of_armed_ok a3
  subst er3
  refine ⟨{ s3 with status := .notStabilising }, ?_⟩
  rw [Poison.stabilise_run env fuel s hst, h1]
  dsimp only
  rw [h2]
  dsimp only
  rw [h3]

/-- **`stabilise` in a healthy state that returns**: the invariant is kept; with a fault armed at `k` the fault-free
run returns as well, in the same state up to the countdown, which is decreased by the number of invocations -/
theorem stabilise_healthy {s s' : State} {tk : Array Nat} {r : String × Array Nat}
    (U : UInvA env s) (heff : PureHandlers env)
    (h : (stepAction env .stabilise tk).run.run s = (.ok r, s')) :
    UInvA env s' ∧ (stabilise env fuelDefault).run.run (setCd none s) = (.ok (), setCd none s') := by
  have hs := Quiet.step_stabilise h
  cases hc : s.panicCountdown with
  | none =>
    have e : setCd none s = s := setCd_self hc
    have U' : UInv env s := by rw [← e]; exact U
    have R := SubsH.stabilise_u U' heff hs
    have e' : setCd none s' = s' := setCd_self R.inv.core.struct.static.pc
    rw [e, e']
    exact ⟨UInvA.of_uinv R.inv, hs⟩
  | some k =>
    have e : s = setCd (some k) (setCd none s) := by
      rw [setCd_setCd]; exact (setCd_self hc).symm
    rw [e] at hs
    obtain ⟨s0', hff⟩ := armed_ok_ff_ok U heff hs
    obtain ⟨pre, del, -, -, -, A⟩ := stabilise_armed U heff hff
    have R := SubsH.stabilise_u U heff hff
    have hp0 : s0'.panicCountdown = none := R.inv.core.struct.static.pc
    by_cases hk : pre.length + del.length < eff k
    · have := (A k).notReached hk
      rw [hs] at this
      have es' : s' = setCd (some (k - (pre.length + del.length))) s0' := by cases this; rfl
      have : setCd none s' = s0' := by rw [es', setCd_setCd]; exact setCd_self hp0
      rw [this]
      exact ⟨by unfold UInvA; rw [this]; exact R.inv, hff⟩
    · exfalso
      by_cases hk1 : eff k ≤ pre.length
      · obtain ⟨t, ht, -⟩ := (A k).inPropagation hk1
        rw [hs] at ht; cases ht
      · obtain ⟨t, ht, -⟩ := (A k).inHandlers (by omega) (by omega)
        rw [hs] at ht; cases ht

/-- every action of the fragment with `arm` that returns keeps the invariant (modulo the countdown) -/
theorem step_uA {s s' : State} {a : Action} {tk : Array Nat} {r : String × Array Nat}
    (U : UInvA env s) (heff : PureHandlers env) (ha : AAction env a)
    (h : (stepAction env a tk).run.run s = (.ok r, s')) : UInvA env s' := by
  by_cases hs : a = .stabilise
  · subst hs; exact (stabilise_healthy U heff h).1
  · cases a
    case arm k => cases h; exact U
    all_goals (refine (step_healthy U heff ?_ hs h).1; exact ha)

/-- **histories up to the first panic**: a history of the fragment with `arm` that has not panicked so far ends in a
healthy state -/
theorem runActions_uA {acts : List Action} {s s' : State} {tk tk' : Array Nat}
    (U : UInvA env s) (heff : PureHandlers env) (ha : ∀ a, a ∈ acts → AAction env a)
    (h : Quiet.runActions env acts s tk = .ok (s', tk')) : UInvA env s' := by
  induction acts generalizing s tk with
  | nil => simp only [Quiet.runActions] at h; cases h; exact U
  | cons a as ih =>
    simp only [Quiet.runActions] at h
    rcases hx : (stepAction env a tk).run.run s with ⟨_ | r, s1⟩
    · rw [hx] at h; cases h
    · rw [hx] at h
      exact ih (step_uA U heff (ha a (List.mem_cons_self ..)) hx)
        (fun b hb => ha b (List.mem_cons_of_mem _ hb)) h

theorem history_uA {N : Nat} {d : Bool} {acts : List Action} {s : State} {tk : Array Nat}
    (heff : PureHandlers env) (ha : ∀ a, a ∈ acts → AAction env a)
    (h : Quiet.runActions env acts (State.init N d) #[] = .ok (s, tk)) : UInvA env s :=
  runActions_uA (UInvA.of_uinv (SubsH.uinv_init env N d)) heff ha h

end IncrVerif.Proofs.FaultH
