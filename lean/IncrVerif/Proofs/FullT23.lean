import IncrVerif.Proofs.FullT22
import IncrVerif.Proofs.NestH106
/-!
# C04 combined fragment: `stabilise` RETURNS if the state it ends in has room

Port of `NestH.stabilise_total2` (Proofs/NestH106) to the ACTUAL engine of the combined fragment, woven into the partial-correctness proof `FullH.stabilise_full`
(Proofs/FullH47).  Every NestH totality lemma is applied to the VIRTUAL state/run; the transfer to the actual run is the converse half of the bisimulation
(contracts `AnoC`, `UdoC` for the two observer phases; `StepTotF` for the steps of the drain, through `drainHeap_totF`).

* `prefix_totF`: the two observer phases return; the drain starts in `DF env sp N (virt g1 t2) t2 g1 none` (`PreOut`);
* `stabiliseEnd_totF`: `stabiliseEnd` returns after the drain;
* `end_totF`: the invariant between API actions `QF` and `StabF` after `stabiliseEnd`;
* `stabilise_totalF`: the whole.
-/
namespace IncrVerif.Proofs.FullT
open IncrVerif.Engine IncrVerif.Driver IncrVerif.Proofs IncrVerif.Proofs.Step IncrVerif.Proofs.Sched IncrVerif.Proofs.Quiet IncrVerif.Proofs.FullH
open IncrVerif.Proofs.BindH (DInv BGraph StepRelB TargetB FrameB ConsistentB DKey NKey)
open IncrVerif.Proofs.NestH (AuxS2 Aux2 GenOK2 F2Inv DT HBo2 RhsRan Lim cnt TotIf HasRoomG QG2 QI2 QInv2 SInv2 QT TInv2)

section
variable {env : Env} {sp : Nat → Val → Val} {N : Nat}

/-- what the two observer phases of `stabilise` establish: `s` = the state `stabilise` was called in (ghost `g`), `t2` = the state in which the drain starts (ghost `g1`) -/
structure PreOut (env : Env) (sp : Nat → Val → Val) (N : Nat) (s t2 : State) (g g1 : Nat → Option Val) : Prop where
  df : DF env sp N (virt g1 t2) t2 g1 none
  F : BindH.C2s.PreF (virt g s) (virt g1 t2)
  V2 : VarsOK (virt g1 t2)
  O2 : ObsInv (virt g1 t2) [] []
  T2 : ∀ (o : Nat) (ob : ObsRec), (virt g1 t2).observers[o]? = some ob →
    ((virt g1 t2).nodeD ob.node).createdIn = .top ∧ ∀ b, ((virt g1 t2).nodeD ob.node).kind ≠ .bindLhsChange b
  hn2 : t2.newObservers = []
  hd2 : t2.disallowedObservers = []
  has : HasRange t2
  obs : ObsMap stabilisedState s t2

set_option maxHeartbeats 1000000 in
/-- **the two observer phases return** (fuel `4 * size + 8`), and the drain starts in a state with the drain invariants -/
theorem prefix_totF (A : AnoC env sp) (U : UdoC env sp) {fuel : Nat} {s : State} {g : Nat → Option Val} (Q : QF env sp N s g)
    (hf : 4 * s.nodes.size + 8 ≤ fuel) :
    ∃ t1 t2 g1, (addNewObservers env fuel).run.run { s with status := .stabilising } = (.ok (), t1) ∧
      (unlinkDisallowedObservers fuel).run.run t1 = (.ok (), t2) ∧ PreOut env sp N s t2 g g1 := by
  obtain ⟨rk, Qv, T, H⟩ := Q.t
  have Gv := Q.q.q.2
  have Qf := Q.q
  obtain ⟨s0, hs0⟩ : ∃ s0 : State, s0 = { s with status := .stabilising } := ⟨_, rfl⟩
  rw [← hs0]
  have hn0 : s0.nodes = s.nodes := by rw [hs0]
  have hnd0 : ∀ m, s0.nodeD m = s.nodeD m := fun m => by simp [State.nodeD, hn0]
  have e0 : virt g s0 = { virt g s with status := .stabilising } := by rw [hs0]; rfl
  have hsz0 : (virt g s0).nodes.size = s.nodes.size := by rw [virt_size, hn0]
  -- the virtual state with the status set
  have S0 : SInv2 (VE env sp) rk (virt g s0) (virt g s0).newObservers (virt g s0).disallowedObservers := by
    have I0 := SInv2.of_qinv2 Qv
    rw [e0]
    exact NestH.N4p.sInv2_congr I0 rfl rfl rfl rfl rfl rfl rfl rfl
  have hb0 : HBo2 rk (virt g s0) allClosed := by
    rw [e0]; intro m hm ho; exact T.hb m hm ho
  have R0 : Room N (virt g s0) := by rw [e0]; exact ⟨T.room.ahh, T.room.rch, T.room.size⟩
  have Fr0 : Fr (FK env sp) g s0 := Qf.frag.fr.of_nodes hn0
  have P0 : PInv s0 := Keeps.of_nodes Q.p hn0 (by rw [hs0])
  have hp0 : s0.propagateInvalidity = [] := by
    have := Qv.f2.pinv; rw [hs0]; exact this
  -- phase 1: the virtual run returns, hence the actual one
  obtain ⟨_, v1, h1v, hb1, R1', S1, hn1, hd1, F1, O1, -, M1⟩ := NestH.addNewObservers_total2 (fuel := fuel) S0 hb0 R0
    (by rw [e0]; exact T.newNodup) (by rw [e0]; exact T.newState) (by rw [hsz0]; omega)
  obtain ⟨t1, g1, h1, e1, Fr1, R1, P1⟩ := (A g fuel s0 (by rw [hn0]; omega)).rev Fr0 P0 h1v
  subst e1
  have vm1 := R1.vm
  -- phase 2
  obtain ⟨_, v2, h2v, hb2, R2', S2, hn2, hd2, F2, O2, M2⟩ := NestH.unlinkDisallowedObservers_total2 (fuel := fuel) S1 hn1 hb1 R1'
    (by rw [F1.size, hsz0]; omega)
  obtain ⟨t2, h2, e2, Fr2, vm2, P2⟩ := (U g1 fuel t1).rev Fr1 P1 h2v
  subst e2
  refine ⟨t1, t2, g1, h1, h2, ?_⟩
  have F : BindH.C2s.PreF (virt g s) (virt g1 t2) := BindH.C2s.PreF.of e0 (F1.trans F2) (fun m => (M2 m).trans (M1 m))
  obtain ⟨D2, A2⟩ := NestH.N4s.drain_start2 Qv F S2
  have G2 : GenOK2 (VE env sp) (virt g1 t2) :=
    NestH.N5g.genOK2_frame Gv Qv.f2.frag F.binds F.top F.kind F.valid F.recomputedAt F.changedAt F.value
  have X2 : AuxS2 (VE env sp) (virt g1 t2) (virt g1 t2) := ⟨⟨rk, A2⟩, DKey.refl _, NKey.refl _⟩
  -- the ghost invariants through the two phases
  have F0 : FFrag env sp g s0 := ⟨Fr0, by
    intro n nd p i hn hk; exact Qf.frag.back n nd p i (by rw [← hn0]; exact hn) hk, by rw [hs0]; exact Qf.frag.pc⟩
  have C0 : CFrag env sp g rk (s0) := by
    refine cfrag_of_ginv2 F0 S0.struct (fun _ => rfl) (fun m => ?_)
    have := S0.noForce m
    rw [virt_nodeD, virtNode_forceNecessary] at this; exact this
  have K0' : KInv env g s0 :=
    Qf.k.congr (fun m => by rw [hnd0]) (fun m => by simp [State.isNecessary, hnd0]) (fun m => by rw [hnd0])
      (fun m hd => by rw [← hnd0]; exact hd)
      (fun m p i _ _ _ _ => value_congr env s s0 (by rw [hn0]) (fun k => by simp only [valueCore, hnd0]) m)
  have T0 : Inherit env g s0 := inherit_of_cons F0 (fun m hm hv hst => by
    have := Qv.cons m (by rw [virt_size, ← hn0]; exact hm) (by rw [virt_nodeD, virtNode_valid, ← hnd0]; exact hv)
      (by rw [virt_isStale]; rw [hs0] at hst; exact hst)
    rw [e0]; exact this)
  have Mi0 : MInv env s0 := fun n m i hv hk => by
    rw [hnd0] at hv hk ⊢; exact Qf.m n m i hv hk
  have Gs0 : GSome g s0 := fun m p i hv hk hd => by
    rw [hnd0] at hv hk hd; exact Qf.gs m p i hv hk hd
  obtain ⟨K1g, hp1, -, -⟩ := addNewObservers_keepsK C0 T0 hp0 K0' h1
  have K1 : KInv env g1 t1 := K1g.of_ghost (fun m hv => R1.valid_eq hv)
  have Mi1 := addNewObservers_mInv C0 T0 hp0 K0' Mi0 h1
  have Gs1 : GSome g1 t1 := Gs0.of_gr R1
  obtain ⟨K2, -⟩ := unlinkDisallowedObservers_keepsK K1 h2
  have Mi2 := unlinkDisallowedObservers_mInv Mi1 h2
  have Gs2 := unlinkDisallowedObservers_gSome Gs1 h2
  have Dp0 : DepInv g s0 := fun x a b w hv hk hc hca hw => by
    rw [hnd0] at hv hk hc hw
    rw [hnd0, hnd0] at hca
    have : tv g s0 a = tv g s a := by simp only [tv, virt_nodeD, hnd0]
    rw [this]; exact Qf.dep x a b w hv hk hc hca hw
  have Dp1g := addNewObservers_depInv C0 T0 hp0 K0' Dp0 h1
  have hkv1 : ∀ x c, (t1.nodeD x).valid = true → c ∈ t1.children x → (t1.nodeD c).valid = true := by
    intro x c hxv hc
    have hx : x < t1.nodes.size := by
      by_cases hx : x < t1.nodes.size
      · exact hx
      · rw [BindH.children_default t1 x (by omega)] at hc; cases hc
    have := (S1.struct.frag.node x (by rw [virt_size]; exact hx)).kidsValid c (by rw [virt_children]; exact hc)
    rw [virt_nodeD, virtNode_valid] at this; exact this
  have Dp1 : DepInv g1 t1 := Dp1g.of_ghost (fun m hv => R1.valid_eq hv) hkv1
  have Dp2 := unlinkDisallowedObservers_depInv Dp1 h2
  have C2 : CRl t2 := by
    intro m _ _ _ hcm
    exfalso
    have h1' := F.changedAt m
    have h2' := F.stabNum
    have h3' := (Qv.stamps m).2
    rw [virt_nodeD, virt_nodeD, virtNode_changedAt, virtNode_changedAt] at h1'
    rw [virt_nodeD, virtNode_changedAt] at h3'
    have e1 : (virt g1 t2).stabNum = t2.stabNum := rfl
    have e2 : (virt g s).stabNum = s.stabNum := rfl
    rw [e1, e2] at h2'
    rw [e2] at h3'
    omega
  have Fg2 : FFrag env sp g1 t2 :=
    ⟨Fr2, mapRefsBack_of_vm (mapRefsBack_of_vm F0.back vm1) vm2, D2.graph.pc⟩
  have DF2 : DInvF env sp (virt g1 t2) t2 g1 none := ⟨Fg2, D2, X2, G2, K2, Mi2, Gs2, Dp2, C2⟩
  -- the totality invariant of the virtual state
  have H2 : RhsRan (virt g1 t2) := NestH.T2i.rhsRan_congr H F.binds F.valid F.recomputedAt
  have DT2 : DT (VE env sp) N (virt g1 t2) := ⟨rk, A2, hb2, H2, ⟨R2'.ahh, R2'.rch⟩⟩
  -- `handleAfterStab`
  have hhas0 : HasRange s0 := by
    intro n hn; rw [hs0] at hn
    have : s.handleAfterStab = [] := Qv.handleAfterStab
    rw [show ({ s with status := Status.stabilising } : State).handleAfterStab = s.handleAfterStab from rfl,
      this] at hn
    cases hn
  have hhas2 : HasRange t2 :=
    unlinkDisallowedObservers_hasRange h2 (addNewObservers_hasRange h1 hhas0)
  refine ⟨⟨DF2, P2, DT2⟩, F, F.varsOK Qv.vars, S2.obs, S2.obsTop, hn2, hd2, hhas2, ?_⟩
  refine ⟨by have a := O2.1; have b := O1.1; rw [hs0] at b; exact a.trans b, fun o ob ho => ?_⟩
  have ho0 : (virt g s0).observers[o]? = some ob := by rw [hs0]; exact ho
  obtain ⟨ob1, h1o, h1n, h1s⟩ := O1.2 o ob ho0
  obtain ⟨ob2, h2o, h2n, h2s⟩ := O2.2 o ob1 h1o
  exact ⟨ob2, h2o, by rw [h2n, h1n], by rw [h2s, h1s, stabilisedState_eq]⟩

/-- the facts about the state after the drain that `stabiliseEnd` and the final invariant need (from the drain invariant, any ghost) -/
theorem after_drainF {s t2 t3 : State} {g g1 g3 : Nat → Option Val} {rk rk3 : Nat → Nat} (P : PreOut env sp N s t2 g g1) (Qv : QInv2 (VE env sp) rk (virt g s))
    (A3 : F2Inv (VE env sp) rk3 (virt g3 t3)) (K3 : DKey (virt g1 t2) (virt g3 t3)) (N3 : NKey (virt g1 t2) (virt g3 t3)) (hvars : t3.vars = t2.vars) :
    (VarsOK (virt g3 t3) ∧ ObsInv (virt g3 t3) [] [] ∧
      ∀ (o : Nat) (ob : ObsRec), (virt g3 t3).observers[o]? = some ob →
        ((virt g3 t3).nodeD ob.node).createdIn = .top ∧ ∀ b, ((virt g3 t3).nodeD ob.node).kind ≠ .bindLhsChange b) ∧
    t3.setDuringStab = [] ∧ t3.deadVars = [] ∧ (∀ (o : Nat) (ob : ObsRec), t3.observers[o]? = some ob → ob.handlers = []) ∧
      HasRange t3 ∧ (∀ n o, o ∈ (t3.nodeD n).observers → o < t3.observers.size) ∧ t3.newObservers = [] ∧ t3.disallowedObservers = [] ∧
      t3.alive = true ∧ t3.observers = t2.observers := by
  have F := P.F
  have VOT := NestH.N4s.after_drain2 A3 K3 N3 hvars P.V2 P.O2 P.T2
  obtain ⟨V3, O3, T3⟩ := VOT
  have hsd : t3.setDuringStab = [] := by
    have := K3.setDuringStab; have h2' := F.setDuringStab; have h3' := Qv.setDuringStab
    exact this.trans (h2'.trans h3')
  have hdv : t3.deadVars = [] := by
    have := K3.deadVars; have h2' := F.deadVars; have h3' := Qv.deadVars
    exact this.trans (h2'.trans h3')
  have hoh : ∀ (o : Nat) (ob : ObsRec), t3.observers[o]? = some ob → ob.handlers = [] :=
    fun o ob ho => (O3.inRange o ob ho).2
  have hhas3 : HasRange t3 := by
    intro n hn
    have e : t3.handleAfterStab = t2.handleAfterStab := K3.handleAfterStab
    rw [e] at hn
    have := N3.grow
    rw [virt_size, virt_size] at this
    exact Nat.lt_of_lt_of_le (P.has n hn) this
  have hno : ∀ n o, o ∈ (t3.nodeD n).observers → o < t3.observers.size := by
    intro n o ho
    obtain ⟨ob, hob, -⟩ := (O3.mem n o).1 (by rw [virt_nodeD, virtNode_observers]; exact ho)
    exact (Array.getElem?_eq_some_iff.1 hob).1
  exact ⟨⟨V3, O3, T3⟩, hsd, hdv, hoh, hhas3, hno, K3.newObservers.trans P.hn2, K3.disallowedObservers.trans P.hd2,
    (K3.alive.trans F.alive).trans Qv.alive, K3.observers⟩

set_option maxHeartbeats 1000000 in
/-- **the end**: after a drain that ended in `DF` (ghost `g3`), `stabiliseEnd` re-establishes the invariant between API actions, for the "no panic" argument too -/
theorem end_totF {fuel : Nat} {s t2 t3 s' : State} {g g1 g3 : Nat → Option Val} (P : PreOut env sp N s t2 g g1) (Q : QF env sp N s g)
    (X3 : DF env sp N (virt g1 t2) t3 g3 none) (he3 : t3.rch.length = 0) (hvars : t3.vars = t2.vars) (hstab : t3.stabNum = t2.stabNum)
    (h4 : (stabiliseEnd env fuel).run.run t3 = (.ok (), s')) (hN : s'.nodes.size ≤ N) (htop : s'.top = s.top) :
    QF env sp N s' g3 ∧ StabF env sp s s' g3 := by
  obtain ⟨rk, Qv, T, H⟩ := Q.t
  have DF3 := X3.d
  obtain ⟨rk3, A3, hb3, H3, L3⟩ := X3.t
  obtain ⟨-, K3, N3⟩ := DF3.aux
  have D3 := DF3.inv
  have F := P.F
  obtain ⟨⟨V3, O3, T3⟩, hsd, hdv, hoh, -, -, hno3, hdo3, hal3, hobs3⟩ := after_drainF P Qv A3 K3 N3 hvars
  have E := stabiliseEnd_fin (env := env) (fuel := fuel) hsd hdv hoh h4
  have hb := BindH.C2s.stabiliseEnd_binds hsd hdv hoh h4
  have Ev := finished_virt g3 E
  obtain ⟨Q', GG, hval⟩ := NestH.N4s.qinv2_end D3 A3 Ev hb V3 O3 hno3 hdo3 T3 hal3
  have KE := BindH.BL.KeyEq.of_same GG
  have G' : GenOK2 (VE env sp) (virt g3 s') :=
    NestH.N5g.genOK2_frame DF3.gen A3.frag hb Ev.top KE.kind KE.valid KE.recomputedAt KE.changedAt hval
  -- the ghost invariants at the end
  have hnE : ∀ m, ∃ b, s'.nodeD m = { t3.nodeD m with inHandleAfterStab := b } := E.node
  have hk' : ∀ m, (s'.nodeD m).kind = (t3.nodeD m).kind := fun m => by obtain ⟨b, hb⟩ := hnE m; rw [hb]
  have hv' : ∀ m, (s'.nodeD m).valid = (t3.nodeD m).valid := fun m => by obtain ⟨b, hb⟩ := hnE m; rw [hb]
  have hc' : ∀ m, (s'.nodeD m).cutoff = (t3.nodeD m).cutoff := fun m => by obtain ⟨b, hb⟩ := hnE m; rw [hb]
  have hval' : ∀ m, (s'.nodeD m).value = (t3.nodeD m).value := fun m => by obtain ⟨b, hb⟩ := hnE m; rw [hb]
  have hos' : ∀ m, (s'.nodeD m).oldState = (t3.nodeD m).oldState := fun m => by obtain ⟨b, hb⟩ := hnE m; rw [hb]
  have hfl' : ∀ m, (s'.nodeD m).didChange = (t3.nodeD m).didChange := fun m => by obtain ⟨b, hb⟩ := hnE m; rw [hb]
  have hpar' : ∀ m, (s'.nodeD m).parents = (t3.nodeD m).parents := fun m => by obtain ⟨b, hb⟩ := hnE m; rw [hb]
  have hnec' : ∀ m, s'.isNecessary m = t3.isNecessary m := fun m => by
    obtain ⟨b, hb⟩ := hnE m; simp only [State.isNecessary, hb]; rfl
  have hvalue' : ∀ m, s'.value env m = t3.value env m :=
    fun m => value_congr env t3 s' E.size (fun k => by simp only [valueCore, hk', hv', hval']) m
  have FgE : FFrag env sp g3 s' := DF3.frag.of_frame E.size hk' hc' (E.pc.trans DF3.frag.pc)
  have KE' : KInv env g3 s' := DF3.k.congr hv' hnec' hk' (fun m hd => by rw [← hfl']; exact hd) (fun m p i _ _ _ _ => hvalue' m)
  have ME : MInv env s' := fun n m i hv hk => by
    rw [hval', hos']; exact DF3.m n m i (by rw [← hv']; exact hv) (by rw [← hk']; exact hk)
  have GE : GSome g3 s' := fun m p i hv hk hd => DF3.gs m p i (by rw [← hv']; exact hv) (by rw [← hk']; exact hk) (by rw [← hfl']; exact hd)
  have hcg' : ∀ m, (s'.nodeD m).changedAt = (t3.nodeD m).changedAt := fun m => by obtain ⟨b, hb⟩ := hnE m; rw [hb]
  have htv' : ∀ m, tv g3 s' m = tv g3 t3 m := by
    intro m
    obtain ⟨b, hb⟩ := hnE m
    simp only [tv, virt_nodeD, hb]
    unfold virtNode
    cases (t3.nodeD m).kind <;> rfl
  have DE : DepInv g3 s' := fun x a b w hv hk hc hca hw => by
    rw [htv']
    exact DF3.dep x a b w (by rw [← hv']; exact hv) (by rw [← hk']; exact hk) (by rw [← hc']; exact hc)
      (by rw [← hcg', ← hcg']; exact hca) (by rw [← hval']; exact hw)
  have QE : QInvF env sp s' g3 := ⟨FgE, ⟨⟨rk3, Q'⟩, G'⟩, KE', ME, GE, DE⟩
  -- the carried invariant and the totality invariant at the end
  have PE : PInv s' := X3.p.of_nodeD E.size hk' (fun m x hx => by rw [hpar'] at hx; exact hx)
  have hv3 : (virt g3 t3).vars = (virt g s).vars := hvars.trans F.vars
  have TE : TInv2 rk3 N (virt g3 s') :=
    NestH.T2i.tinv2_end Ev hb3 L3 (by rw [virt_size]; exact hN) hv3 T hno3
  have HE : RhsRan (virt g3 s') :=
    NestH.T2i.rhsRan_congr H3 hb (fun m => (GG.g.node m).valid) (fun m => (GG.g.node m).recomputedAt)
  refine ⟨⟨QE, PE, ⟨rk3, Q', TE, HE⟩⟩, QE, ?_, ?_, ?_, ?_, htop, ?_, ?_⟩
  · rw [E.newObservers]; exact hno3
  · rw [E.disallowedObservers]; exact hdo3
  · have h2' := F.vars
    rw [E.vars]; exact hvars.trans h2'
  · have h2' := F.stabNum
    rw [E.stabNum]
    show t3.stabNum + 1 = s.stabNum + 1
    rw [show t3.stabNum = s.stabNum from hstab.trans h2']
  · have hobs' : s'.observers = t2.observers := by rw [E.observers]; exact hobs3
    refine ⟨by rw [hobs']; exact P.obs.1, fun o ob ho => ?_⟩
    obtain ⟨ob2, h2o, h2n, h2s⟩ := P.obs.2 o ob ho
    exact ⟨ob2, by rw [hobs']; exact h2o, h2n, h2s⟩
  · intro n hn
    have hn3 : (virt g3 t3).isNecessary n = true := by rw [virt_isNecessary, ← hnec']; exact hn
    obtain ⟨v1, v2, -⟩ := BindH.drained_valuesB D3 he3 n hn3 (((virt g3 t3).nodeD n).height.toNat + 1) (Nat.lt_succ_self _)
    rw [virt_nodeD, virtNode_valid] at v1
    refine ⟨by rw [hv']; exact v1, ?_⟩
    have := NestH.KeyEq2.isStale2 (BindH.BL.KeyEq.of_same GG) A3.frag (m := n)
    rw [virt_isStale, virt_isStale] at this
    rw [this]; rw [virt_isStale] at v2; exact v2

set_option maxHeartbeats 1000000 in
/-- **`stabilise` of the combined fragment returns** if the state it ends in — whatever the outcome — has room (`HasRoomG needS N fuel`: at most `N` nodes, `needS` of the
node count within `fuel`), given the contracts of the two observer phases (`AnoC`, `UdoC`) and of one step of the drain (`StepTotF need`); the invariant between API actions for
the "no panic" argument (`QF`) holds again, with everything `stabilise_full` establishes (`StabF`). -/
theorem stabilise_totalF {need needS : Nat → Nat} (E : EnvS env sp) (hF : FirstFn env) (A : AnoC env sp) (U : UdoC env sp) (L : StepTotF need env sp N)
    (hmono : ∀ a b, a ≤ b → need a ≤ need b) (hpos : ∀ sz, 1 ≤ need sz) (hS : ∀ sz, need sz + 2 * sz + 1 ≤ needS sz) (hS2 : ∀ sz, 4 * sz + 8 ≤ needS sz)
    {fuel : Nat} {s : State} {g : Nat → Option Val} (Q : QF env sp N s g) :
    TotIf (stabilise env fuel) s (HasRoomG needS N fuel) (fun _ s' => ∃ g', QF env sp N s' g' ∧ StabF env sp s s' g') := by
  intro r s' hrun hroom
  obtain ⟨hN, hFu⟩ := hroom
  have hsz : s.nodes.size ≤ s'.nodes.size := NestH.T2i.stabilise_size hrun
  have hS' := hS s'.nodes.size
  have hS2' := hS2 s'.nodes.size
  have hF0 : 4 * s.nodes.size + 8 ≤ fuel := by omega
  obtain ⟨rk, Qv, -, -⟩ := Q.t
  -- the two observer phases
  obtain ⟨t1, t2, g1, h1, h2, P⟩ := prefix_totF A U Q hF0
  have hsz2 : t2.nodes.size = s.nodes.size := by have := P.F.size; rwa [virt_size, virt_size] at this
  have htop : ∀ r0, r = .ok r0 → s'.top = s.top := by
    intro r0 e; cases r0; rw [e] at hrun
    exact ((BindH.C2h.PresTop.stabilise env fuel).h _ _ _ hrun).top
  -- the run up to the drain
  have hrun2 : (drainHeap env fuel >>= fun _ => stabiliseEnd env fuel).run.run t2 = (r, s') := by
    unfold stabilise at hrun
    have hst : (s.status == Status.notStabilising) = true := by
      have := Qv.status; rw [virt_status] at this; rw [this]; rfl
    rw [run_bind_get, run_bind_ok (show (assertM (s.status == Status.notStabilising)
      "state:stabilise:status").run.run s = (.ok (), s) by rw [run_assertM, hst]; rfl),
      run_bind_modify] at hrun
    rw [run_bind_ok h1, run_bind_ok h2] at hrun
    exact hrun
  rw [run_bind] at hrun2
  have hun := unrun_le_size (virt g1 t2)
  rw [virt_size] at hun
  rcases h3 : (drainHeap env fuel).run.run t2 with ⟨e3 | u3, t3⟩
  · -- a panic in the drain: its final state is the final state, which has room
    exfalso
    rw [h3] at hrun2
    have e1 : s' = t3 := (Prod.mk.inj hrun2).2.symm
    obtain ⟨ea, -⟩ := drainHeap_totF E hF L hmono hpos fuel _ t2 t3 g1 _ P.df h3 (by rw [← e1]; exact hN)
      (by rw [← e1]; omega)
    cases ea
  · cases u3
    rw [h3] at hrun2
    replace hrun2 : (stabiliseEnd env fuel).run.run t3 = (r, s') := hrun2
    -- the partial facts about the drain (some ghost)
    obtain ⟨g3', DF3', he3, f3⟩ := drainHeap_full (kit E hF) fuel (virt g1 t2) t2 t3 g1 P.df.d h3
    obtain ⟨⟨rk3', A3'⟩, K3', N3'⟩ := DF3'.aux
    have hvars : t3.vars = t2.vars := f3.vars
    have hstab : t3.stabNum = t2.stabNum := f3.stabNum
    obtain ⟨-, hsd, hdv, hoh, hhas3, hno, -⟩ := after_drainF P Qv A3' K3' N3' hvars
    -- `stabiliseEnd` returns
    obtain ⟨_, s4, h4, -⟩ := stabiliseEnd_total (env := env) (fuel := fuel) (s := t3) hsd hdv hoh hhas3 hno
    rw [h4] at hrun2
    have e1 : s' = s4 := (Prod.mk.inj hrun2).2.symm
    have e2 : r = .ok () := (Prod.mk.inj hrun2).1.symm
    rw [← e1] at h4
    have Ef := stabiliseEnd_fin (env := env) (fuel := fuel) hsd hdv hoh h4
    -- the state after the drain has room: the total contract of the drain applies
    obtain ⟨-, g3, X3⟩ := drainHeap_totF E hF L hmono hpos fuel _ t2 t3 g1 _ P.df h3 (by rw [← Ef.size]; exact hN)
      (by rw [← Ef.size]; omega)
    obtain ⟨QE, SE⟩ := end_totF P Q X3 he3 hvars hstab h4 hN (htop () e2)
    exact ⟨(), e2, g3, QE, SE⟩

end
end IncrVerif.Proofs.FullT
