import IncrVerif.Proofs.MemoH15
/-!
# K3, recompute part (3): `recompute`, `drainHeap`, `stabilise`, every API action, whole histories
-/
namespace IncrVerif.Proofs.MemoH
open IncrVerif.Engine IncrVerif.Proofs.Obs IncrVerif.Proofs.Memo

namespace KB

variable {env : Env}

theorem recompute (hA : ASpec env) (henv : EnvK3 env) (fuel n : Nat) :
    Pres TV (Engine.recompute env fuel n) := by
  induction fuel generalizing n with
  | zero => unfold Engine.recompute; mpres
  | succ fuel ih =>
    unfold Engine.recompute
    refine Pres.bind (recomputeOne hA henv _ _) fun r => ?_
    split
    · exact Pres.pure _
    · exact ih _

theorem drainHeap (hA : ASpec env) (henv : EnvK3 env) (fuel : Nat) :
    Pres TV (Engine.drainHeap env fuel) := by
  induction fuel with
  | zero => unfold Engine.drainHeap; mpres
  | succ fuel ih =>
    unfold Engine.drainHeap
    refine Pres.bind PresF.rchRemoveMin fun r => ?_
    split
    · exact Pres.pure _
    · exact Pres.bind (recompute hA henv _ _) fun _ => ih

theorem stabilise (hA : ASpec env) (henv : EnvK3 env) (fuel : Nat) :
    Pres TV (Engine.stabilise env fuel) := by
  unfold Engine.stabilise
  mpres
  exact drainHeap hA henv _

/-- a `modify` that leaves nodes, binds and `top` alone -/
macro_rules
  | `(tactic| mleaf) =>
    `(tactic| ((with_reducible apply Pres.modify); intro _; exact TV.of_eq rfl rfl rfl))
macro_rules
  | `(tactic| mleaf) =>
    `(tactic| (unfold Engine.modObs; (with_reducible apply Pres.modify); intro _; exact TV.of_eq rfl rfl rfl))
macro_rules
  | `(tactic| mleaf) =>
    `(tactic| ((with_reducible apply Pres.modify); intro _; exact TV.of_push _ _ _))

set_option maxHeartbeats 1000000 in
/-- goal 3: every API action -/
theorem stepAction (hA : ASpec env) (henv : EnvK3 env) (a : Action) (tokens : Array Nat) :
    Pres TV (Engine.stepAction env a tokens) := by
  cases a
  all_goals simp only [Engine.stepAction]
  all_goals mpres
  all_goals exact stabilise hA henv _

end KB

/-- goal 4: along every history -/
theorem topValid_run {env : Env} {P : Action → Except Panic (String × Array Nat) → Prop}
    (hA : ASpec env) (henv : EnvK3 env) {s s' : State} (h : Life.Run env P s s') : TV s s' :=
  Life.Run.induct (fun a tokens _ => KB.stepAction hA henv a tokens) (fun _ => TV.of_eq rfl rfl rfl) h

theorem topValid_run_cor {env : Env} {P : Action → Except Panic (String × Array Nat) → Prop}
    (hA : ASpec env) (henv : EnvK3 env) {s s' : State} (h : Life.Run env P s s')
    (hn : NoPK s') (hr : RegScoped s) (ht : TopValid s) : TopValid s' ∧ RegScoped s' :=
  have h := topValid_run hA henv h
  ⟨h.valid hn hr ht, h.reg hr⟩

end IncrVerif.Proofs.MemoH
