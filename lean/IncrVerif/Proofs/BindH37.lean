import IncrVerif.Proofs.Quiet14
import IncrVerif.Proofs.BindH11
import IncrVerif.Proofs.BindH36
/-!
# Binds, the run of a change detector in fragment F0, part 2: the last step

* `AhhK`: `maybeChangeValue` never touches the membership marker of the adjust-heights heap;
* `mcv_stepB_never`: `maybeChangeValue` on a node with cutoff `.never` always propagates (`ch = true`);
* `mcv_last`: everything the last step of the run of a change detector keeps.
-/
namespace IncrVerif.Proofs.BindH
open IncrVerif.Engine IncrVerif.Proofs IncrVerif.Proofs.Step IncrVerif.Proofs.Sched IncrVerif.Proofs.Quiet
namespace BC

/-! ## the adjust-heights marker is not touched by `maybeChangeValue` -/

def AhhK (s s' : State) : Prop := ∀ m, (s'.nodeD m).heightInAhh = (s.nodeD m).heightInAhh

theorem AhhK.refl (s : State) : AhhK s s := fun _ => rfl
theorem AhhK.trans {a b c : State} (h1 : AhhK a b) (h2 : AhhK b c) : AhhK a c :=
  fun m => (h2 m).trans (h1 m)
instance : PreOrd AhhK := ⟨AhhK.refl, AhhK.trans⟩

theorem AhhK.of_nodes {s s' : State} (h : s'.nodes = s.nodes) : AhhK s s' := by
  intro m
  have : s'.nodeD m = s.nodeD m := by simp [State.nodeD, h]
  rw [this]

theorem AhhK.modNode (s : State) (n : Nat) (f : Node → Node) (hf : ∀ x, (f x).heightInAhh = x.heightInAhh) :
    AhhK s { s with nodes := s.nodes.modify n f } := by
  intro m
  rw [nodeD_modify]; split
  · exact hf _
  · rfl

theorem PresA.modNode (n : Nat) (f : Node → Node) (hf : ∀ x, (f x).heightInAhh = x.heightInAhh) :
    Step.Pres AhhK (modNode n f) := by
  unfold Engine.modNode; exact Step.Pres.modify fun s => AhhK.modNode s n f hf

macro_rules
  | `(tactic| qleaf) =>
    `(tactic| ((with_reducible apply Step.Pres.modify); intro _; exact AhhK.of_nodes rfl))
macro_rules
  | `(tactic| qleaf) => `(tactic| ((with_reducible apply PresA.modNode); intro _; rfl))

macro "ahhk_leaf " n:ident : command =>
  `(macro_rules | `(tactic| qleaf) => `(tactic| with_reducible apply $n))

theorem PresA.tick : Step.Pres AhhK tick := by unfold Engine.tick; qpres
ahhk_leaf PresA.tick
theorem PresA.logEv (e) : Step.Pres AhhK (logEv e) := by unfold Engine.logEv; qpres
ahhk_leaf PresA.logEv
theorem PresA.bumpCounter (f) : Step.Pres AhhK (bumpCounter f) := by unfold Engine.bumpCounter; qpres
ahhk_leaf PresA.bumpCounter
theorem PresA.modExpert (e f) : Step.Pres AhhK (modExpert e f) := by unfold Engine.modExpert; qpres
ahhk_leaf PresA.modExpert
theorem PresA.shouldCutoff (env n o v) : Step.Pres AhhK (shouldCutoff env n o v) := by
  unfold Engine.shouldCutoff; qpres
ahhk_leaf PresA.shouldCutoff
theorem PresA.edgeOnChange (env e edge) : Step.Pres AhhK (edgeOnChange env e edge) := by
  unfold Engine.edgeOnChange; qpres
ahhk_leaf PresA.edgeOnChange
theorem PresA.runEdgeCallback (env e i) : Step.Pres AhhK (runEdgeCallback env e i) := by
  unfold Engine.runEdgeCallback; qpres
ahhk_leaf PresA.runEdgeCallback
theorem PresA.rchLink (n) : Step.Pres AhhK (rchLink n) := by unfold Engine.rchLink; qpres
ahhk_leaf PresA.rchLink
theorem PresA.rchInsert (n) : Step.Pres AhhK (rchInsert n) := by unfold Engine.rchInsert; qpres
ahhk_leaf PresA.rchInsert
theorem PresA.rchMinHeight : Step.Pres AhhK rchMinHeight := by unfold Engine.rchMinHeight; qpres
ahhk_leaf PresA.rchMinHeight
theorem PresA.handleAfterStabilisation (n) : Step.Pres AhhK (handleAfterStabilisation n) := by
  unfold Engine.handleAfterStabilisation; qpres
ahhk_leaf PresA.handleAfterStabilisation
theorem PresA.maybeHandleAfterStabilisation (n) : Step.Pres AhhK (maybeHandleAfterStabilisation n) := by
  unfold Engine.maybeHandleAfterStabilisation; qpres
ahhk_leaf PresA.maybeHandleAfterStabilisation

theorem PresA.childChanged (env : Env) (fuel p c ci : Nat) (o : Option Val) :
    Step.Pres AhhK (childChanged env fuel p c ci o) := by
  induction fuel generalizing p c ci o with
  | zero => unfold Engine.childChanged; qpres
  | succ fuel ih =>
    unfold Engine.childChanged
    qpres
    all_goals first
      | exact ih _ _ _ _
      | (apply Step.Pres.forIn; intro a b; qpres; exact ih _ _ _ _)
ahhk_leaf PresA.childChanged

theorem PresA.parentIterCanRecomputeNow (p c : Nat) :
    Step.Pres AhhK (parentIterCanRecomputeNow p c) := by
  unfold Engine.parentIterCanRecomputeNow; qpres
ahhk_leaf PresA.parentIterCanRecomputeNow

theorem PresA.maybeChangeValueManual (env fuel n o d b) :
    Step.Pres AhhK (maybeChangeValueManual env fuel n o d b) := by
  unfold Engine.maybeChangeValueManual
  qpres
  all_goals try (apply Step.Pres.forIn; intro a b; qpres)
ahhk_leaf PresA.maybeChangeValueManual

theorem PresA.maybeChangeValue (env fuel n v) : Step.Pres AhhK (maybeChangeValue env fuel n v) := by
  unfold Engine.maybeChangeValue; qpres

/-! ## cutoff `.never`: `maybeChangeValue` always propagates -/

theorem mcvChanges_never (env : Env) (S : State) (n : Nat) (v : Val)
    (hc : (S.nodeD n).cutoff = .never) : mcvChanges env S n v = some true := by
  unfold mcvChanges cutoffVerdict
  cases hv : (S.nodeD n).value with
  | none => rfl
  | some old => simp only [hc]; rfl

/-- `BS.mcv_stepB` for a node with cutoff `.never`: the change is never suppressed -/
theorem mcv_stepB_never {env : Env} {fuel n : Nat} {v : Val} {s S0 s' : State} {r : Option Nat}
    (g : BGraph env s) (hi : HeapInv s) (hn : s.isNecessary n = true)
    (hU : Upd n s S0) (hb : S0.binds = s.binds)
    (hrec : (S0.nodeD n).recomputedAt = s.stabNum)
    (hcut : (s.nodeD n).cutoff = .never)
    (h : (maybeChangeValue env fuel n v).run.run S0 = (.ok r, s')) :
    StepRelB n v true r s s' := by
  have hlt := BS.nec_lt hn
  have hlt0 : n < S0.nodes.size := by rw [hU.size]; exact hlt
  have hn0 := some_of_lt hlt0
  have hcut0 : (S0.nodeD n).cutoff = .never := by rw [hU.shape.cutoff]; exact hcut
  generalize hW : setValue n (some v) (logged (mcvLog env S0 n v) S0) = W
  have hUW : Upd n s W := by rw [← hW]; exact (hU.logged _).setValue _
  have hbW : W.binds = s.binds := by rw [← hW]; exact hb
  have eW : W.nodeD n = { S0.nodeD n with value := some v } := by
    rw [← hW, setValue_nodeD, if_pos ⟨rfl, hlt0⟩]; rfl
  have hd := mcvChanges_never env S0 n v hcut0
  rw [mcv_run' env fuel n v S0 _ hn0 hU.pc, hd] at h
  dsimp only at h
  rw [hW] at h
  have hltW : n < W.nodes.size := by rw [hUW.size]; exact hlt
  have q : Quiet (touched n W) s' := mcvm_true_quiet _ _ _ _ _ _ _ _ h
  have hUT : Upd n s (touched n W) := hUW.touched
  have hbT : (touched n W).binds = s.binds := hbW
  have eT : (touched n W).nodeD n = { W.nodeD n with changedAt := W.stabNum } := by
    rw [touched_nodeD, if_pos ⟨rfl, hltW⟩]
  have hparT : ((touched n W).nodeD n).parents = (s.nodeD n).parents := hUT.shape.parents
  have hpar : ∀ p, p ∈ ((touched n W).nodeD n).parents.map (·.1) →
      BS.ParentOK env (touched n W) p := by
    intro p hp
    rw [hparT] at hp
    obtain ⟨⟨p', ci⟩, hmem, rfl⟩ := List.mem_map.1 hp
    have hpn := (g.parent n p' ci hmem).1
    have h1 := BS.nec_lt hpn
    have h2 := (g.nec p' hpn).1
    have h3 := (g.node p' h1 h2).1
    have sh := hUT.shapeAll p'
    exact ⟨by rw [hUT.size]; exact h1, by rw [sh.valid]; exact h2, by rw [sh.kind]; exact h3,
      by rw [hUT.nec]; exact hpn⟩
  obtain ⟨k, hret⟩ := BS.mcvm_heapB (hUT.heap hi) hpar h
  have hpin := mcvm_parents env fuel n _ W s' r _ (some_of_lt hltW) h
  have hparW : (W.nodeD n).parents = (s.nodeD n).parents := hUW.shape.parents
  refine BS.stepRelB_of_quiet g hUT hbT q ?_ ?_ ?_ (fun hc => by cases hc) k.heap k.qsize ?_ ?_ ?_
  · rw [eT, eW]
  · rw [eT, eW]; exact hrec
  · rw [eT, if_pos rfl]; exact hUW.stabNum
  · intro m hm
    rcases k.only m hm with h1 | h1
    · exact Or.inl h1
    · rw [hparT] at h1; exact Or.inr ⟨rfl, h1⟩
  · intro _ p hp
    rw [← hparW] at hp
    rcases hpin p hp with h1 | h1
    · exact Or.inl h1.2
    · exact Or.inr h1.2.1
  · intro p hp
    obtain ⟨h1, h2, h3⟩ := hret p hp
    rw [hparT] at h1
    exact ⟨rfl, h1, h2, h3⟩

theorem Upd.refl' (n : Nat) (s : State) (hpc : s.panicCountdown = none) : Upd n s s :=
  ⟨rfl, rfl, rfl, hpc, rfl, fun _ _ => rfl, SameShape.refl _, rfl⟩

/-- what the last step keeps, besides `StepRelB` -/
structure LastK (t s' : State) : Prop where
  scope : s'.currentScope = t.currentScope
  top : s'.top = t.top
  pinv : s'.propagateInvalidity = t.propagateInvalidity
  ahh : s'.ahh = t.ahh
  marks : ∀ m, (s'.nodeD m).heightInAhh = (t.nodeD m).heightInAhh

/-- **the last step of the run of a change detector**: `maybeChangeValue n ()` in a state at rest in which `n`
(cutoff `.never`) has been stamped -/
theorem mcv_last {env : Env} {fuel n : Nat} {t s' : State} {r : Option Nat}
    (g : BGraph env t) (hi : HeapInv t) (hn : t.isNecessary n = true)
    (hrec : (t.nodeD n).recomputedAt = t.stabNum) (hcut : (t.nodeD n).cutoff = .never)
    (h : (maybeChangeValue env fuel n .unit).run.run t = (.ok r, s')) :
    StepRelB n .unit true r t s' ∧ LastK t s' := by
  refine ⟨mcv_stepB_never g hi hn (Upd.refl' n t g.pc) rfl hrec hcut h, ?_⟩
  have hk : KeyD t s' := (PresK.maybeChangeValue env fuel n .unit).h _ _ _ h
  have ha : AhhK t s' := (PresA.maybeChangeValue env fuel n .unit).h _ _ _ h
  simp only [KeyD, stateKeyD, Prod.mk.injEq] at hk
  exact ⟨hk.2.2.1, hk.2.2.2.1, hk.2.2.2.2.2.2.1, hk.2.2.2.2.2.2.2.2.2.2, ha⟩

end BC
end IncrVerif.Proofs.BindH
