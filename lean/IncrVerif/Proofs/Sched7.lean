import IncrVerif.Proofs.Sched6
import IncrVerif.Proofs.VarWrites
/-!
# Between stabilisations: the quiescent invariant (definitions for L4)

* `QuietInv env s`: the invariant of a state outside `stabilise` (static fragment).
* `Idle s`: nothing is waiting for the next `stabilise` apart from the recompute heap: no new or
  disallowed observers, no deferred writes, no dead vars, no update handlers.
-/
namespace IncrVerif.Proofs.Sched
open IncrVerif.Engine IncrVerif.Proofs IncrVerif.Proofs.Step

/-- the invariant between stabilisations -/
structure QuietInv (env : Env) (s : State) : Prop where
  graph : Graph env s
  heap : HeapInv s
  now : 0 ≤ s.stabNum
  /-- every stamp is from an earlier round -/
  stamps : ∀ m, (s.nodeD m).recomputedAt < s.stabNum ∧ (s.nodeD m).changedAt < s.stabNum
  varStamp : ∀ (c : Nat) (vc : VarCell), s.vars[c]? = some vc → vc.setAt ≤ s.stabNum
  /-- the heap holds exactly the necessary stale nodes -/
  queued : ∀ m, (s.nodeD m).inRch = true ↔ (s.isNecessary m = true ∧ s.isStale m = true)
  /-- necessary nodes that are not stale are consistent with their children -/
  cons : ∀ m, s.isNecessary m = true → s.isStale m = false → Consistent env s m
  /-- a necessary `var c` node is the watch node of cell `c` -/
  watch : ∀ (n c : Nat), s.isNecessary n = true → (s.nodeD n).kind = .var c →
    ∃ vc, s.vars[c]? = some vc ∧ vc.node = n
  /-- a necessary watch node of cell `c` is a `var c` node -/
  cell : ∀ (c : Nat) (vc : VarCell), s.vars[c]? = some vc → s.isNecessary vc.node = true →
    (s.nodeD vc.node).kind = .var c
  status : s.status = .notStabilising

/-- nothing but the recompute heap is waiting for the next `stabilise` -/
structure Idle (s : State) : Prop where
  newObservers : s.newObservers = []
  disallowedObservers : s.disallowedObservers = []
  setDuringStab : s.setDuringStab = []
  deadVars : s.deadVars = []
  handleAfterStab : s.handleAfterStab = []
  handlers : ∀ m, (s.nodeD m).numOnUpdateHandlers ≤ 0

end IncrVerif.Proofs.Sched
