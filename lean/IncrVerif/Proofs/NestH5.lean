import IncrVerif.Proofs.NestH4
/-!
# Nested binds (F2), part c: scope necessity (nodes of a scope are necessary only through the bind's main node); `BGraph` from `GInv2`
-/
namespace IncrVerif.Proofs.NestH
open IncrVerif.Engine IncrVerif.Proofs IncrVerif.Proofs.Step IncrVerif.Proofs.Sched IncrVerif.Proofs.Quiet
open IncrVerif.Proofs.BindH

theorem children_of_invalid {s : State} {n : Nat} (h : (s.nodeD n).valid = false) : s.children n = [] := by
  unfold State.children Node.kind?
  rw [h]; rfl

namespace GInv2
variable {env : Env} {rk : Nat → Nat} {s : State} {op : Nat → Op} {ex : Nat → Prop} {dy : List Nat}

theorem kid_rk (I : GInv2 env rk s op ex dy) {p i c : Nat} (h : (s.children p)[i]? = some c) : rk c < rk p :=
  I.frag.kid_rk (children_lt_size h) (List.mem_of_getElem? h)

/-- the child list of a VALID main node of a bind -/
theorem main_children (I : GInv2 env rk s op ex dy) {b : Nat} {br : BindRec} (hb : s.binds[b]? = some br)
    (hv : (s.nodeD br.main).valid = true) :
    s.children br.main = br.lhsChange :: br.rhs.toList := by
  obtain ⟨-, h2, -, h4, -⟩ := I.frag.recs b br hb
  unfold State.children Node.kind?
  rw [hv, h4]
  simp only [if_true, hb]
  cases br.rhs <;> rfl

/-- a node that has a child of scope `b`: a node of scope `b`, or the main node of `b` -/
theorem parent_of_scope (I : GInv2 env rk s op ex dy) {p m b : Nat} (hm : m ∈ s.children p)
    (hsc : (s.nodeD m).createdIn = .bind b) :
    ((s.nodeD p).createdIn = .bind b ∧ (m ∈ dy ↔ p ∈ dy)) ∨ ∃ lc, (s.nodeD p).kind = .bindMain b lc := by
  have hpl := lt_size_of_mem_children hm
  have A := I.frag
  cases hpsc : (s.nodeD p).createdIn with
  | top =>
    rcases ((A.node p hpl).top hpsc).2 m hm with h1 | ⟨b', lc, hkp, h1⟩
    · rw [hsc] at h1; cases h1
    · rw [hsc] at h1; injection h1 with h1; subst h1
      exact Or.inr ⟨lc, hkp⟩
  | bind b' =>
    obtain ⟨-, br', hb', -, hkids⟩ := (A.node p hpl).inScope b' hpsc
    rcases hkids m hm with h1 | ⟨h1, h2⟩ | ⟨b2, lc2, hk, h1⟩
    · rw [hsc] at h1; cases h1
    · rw [hsc] at h1; injection h1 with h1; subst h1
      exact Or.inl ⟨rfl, h2⟩
    · rw [hsc] at h1; injection h1 with h1; subst h1
      exact Or.inr ⟨lc2, hk⟩

/-- **Scope necessity.** `P` is a set of nodes of scope `b` that contains, with a node, every node of the scope that has it as a child (e.g. the whole scope, or
the dying generation).  If the main node's edge to its right-hand side is not wanted, or the right-hand side is not in `P`, if no node is unlinking and
no node of `P` is forced, then no node of `P` has a recorded parent. -/
theorem scope_no_parents (I : GInv2 env rk s op ex dy) {b : Nat} {br : BindRec} (hb : s.binds[b]? = some br)
    (P : Nat → Prop) (hPs : ∀ m, P m → m < s.nodes.size ∧ (s.nodeD m).createdIn = .bind b)
    (hPup : ∀ p m, (s.nodeD p).createdIn = .bind b → m ∈ s.children p → P m → P p)
    (hmain : ∀ m, P m → br.rhs = some m → ¬ Wants s op br.main 1)
    (hnu : ∀ m k, op m ≠ .unlinking k) (hnf : ∀ m, P m → (s.nodeD m).forceNecessary = false) :
    ∀ m, P m → (s.nodeD m).parents = [] := by
  have A := I.frag
  -- induction on the distance of the rank to the main node's rank
  have key : ∀ d m, P m → rk br.main - rk m ≤ d → (s.nodeD m).parents = [] := by
    intro d
    induction d with
    | zero =>
      intro m hP hd
      have := (A.scope_rk (hPs m hP).1 (hPs m hP).2 hb).2
      omega
    | succ d ih =>
      intro m hP hd
      obtain ⟨hml, hmsc⟩ := hPs m hP
      cases hpar : (s.nodeD m).parents with
      | nil => rfl
      | cons x xs =>
        exfalso
        obtain ⟨p, i⟩ := x
        have hmem : (p, i) ∈ (s.nodeD m).parents := by rw [hpar]; exact List.mem_cons_self ..
        obtain ⟨hk, hw⟩ := I.par m p i hmem
        have hpl := children_lt_size hk
        have hmc : m ∈ s.children p := List.mem_of_getElem? hk
        rcases I.parent_of_scope hmc hmsc with ⟨hpsc, -⟩ | ⟨lc, hkp⟩
        · have hPp := hPup p m hpsc hmc hP
          have hrk := A.kid_rk hpl hmc
          have hpp := ih p hPp (by omega)
          -- `p` is not necessary, so the edge is not wanted
          have hnn : s.isNecessary p = false := by
            simp only [State.isNecessary, Node.isNecessary, hpp, I.scopeObs p b hpsc, hnf p hPp]
            rfl
          unfold Wants at hw
          cases hop : op p with
          | closed => rw [hop] at hw; simp only at hw; rw [hnn] at hw; cases hw
          | linking k => rw [I.lnec p k hop] at hnn; cases hnn
          | unlinking k => exact hnu p k hop
        · obtain ⟨br', hb', hm', hl'⟩ := (A.node p hpl).mainRec b lc hkp
          rw [hb] at hb'; cases hb'
          subst hm'
          have hvp : (s.nodeD br.main).valid = true := by
            cases hv : (s.nodeD br.main).valid with
            | true => rfl
            | false =>
              rw [children_of_invalid hv] at hmc; cases hmc
          rw [I.main_children hb hvp] at hk
          match i, hk with
          | 0, hk =>
            simp at hk
            -- the change detector of `b` is not a node of scope `b`
            have := (A.scope_rk hml hmsc hb).1
            rw [hk] at this; omega
          | 1, hk =>
            cases hr : br.rhs with
            | none => rw [hr] at hk; simp at hk
            | some r =>
              rw [hr] at hk
              simp at hk
              subst hk
              exact hmain r hP hr hw
          | i + 2, hk =>
            cases hr : br.rhs <;> rw [hr] at hk <;> simp at hk
  intro m hP
  exact key _ m hP (Nat.le_refl _)

end GInv2

/-! ## at rest -/

/-- at rest, a necessary node of a bind's scope makes the bind's main node and change detector necessary -/
theorem scope_nec_rest2 {env : Env} {rk : Nat → Nat} {s : State} {ex : Nat → Prop} (I : GInv2 env rk s allClosed ex [])
    (hnf : ∀ m, (s.nodeD m).forceNecessary = false) {n b : Nat} {br : BindRec} (hn : n < s.nodes.size)
    (hsc : (s.nodeD n).createdIn = .bind b) (hb : s.binds[b]? = some br) (hnec : s.isNecessary n = true) :
    s.isNecessary br.main = true ∧ s.isNecessary br.lhsChange = true := by
  have hvn : (s.nodeD n).valid = true := by
    cases hv : (s.nodeD n).valid with
    | true => rfl
    | false =>
      obtain ⟨h1, h2, h3, -, -⟩ := I.inv n hv
      simp only [State.isNecessary, Node.isNecessary, h1, h2, h3] at hnec
      cases hnec
  have hvm := (I.frag.scopeValid n b br hn hvn hsc hb).2
  have hmain : s.isNecessary br.main = true := by
    cases h : s.isNecessary br.main with
    | true => rfl
    | false =>
      exfalso
      have hp := I.scope_no_parents hb (fun m => m < s.nodes.size ∧ (s.nodeD m).createdIn = .bind b)
        (fun m h => h)
        (fun p m hp hm _ => ⟨lt_size_of_mem_children hm, hp⟩)
        (fun m _ _ hw => by
          rw [wants_closed rfl] at hw
          rw [h] at hw; cases hw)
        (fun m k h => by cases h) (fun m _ => hnf m) n ⟨hn, hsc⟩
      simp only [State.isNecessary, Node.isNecessary, hp, I.scopeObs n b hsc, hnf n] at hnec
      cases hnec
  refine ⟨hmain, ?_⟩
  have hch := I.main_children hb hvm
  have h0 : (s.children br.main)[0]? = some br.lhsChange := by rw [hch]; rfl
  exact nec_of_mem_parents (I.conv br.main 0 br.lhsChange h0 ((wants_closed rfl).2 hmain))

/-- `BGraph` from the structural invariant at rest -/
theorem bgraph_of_ginv2 {env : Env} {rk : Nat → Nat} {s : State} {ex : Nat → Prop} (I : GInv2 env rk s allClosed ex [])
    (hnf : ∀ m, (s.nodeD m).forceNecessary = false)
    (hvar : ∀ n c, n < s.nodes.size → (s.nodeD n).kind = .var c → ∃ vc, s.vars[c]? = some vc) :
    BGraph env s where
  pc := I.frag.pc
  node n hn _ := by
    have sn := I.frag.node n hn
    exact ⟨sn.kind, sn.cutoff, fun c hc => ⟨sn.kidsIn c hc, sn.kidsValid c hc⟩⟩
  nec n hn := by
    refine ⟨?_, I.hpos n hn rfl⟩
    cases hv : (s.nodeD n).valid with
    | true => rfl
    | false =>
      obtain ⟨h1, h2, h3, -, -⟩ := I.inv n hv
      simp only [State.isNecessary, Node.isNecessary, h1, h2, h3] at hn
      cases hn
  var n c hn _ hk := hvar n c hn hk
  child n hn i c hk := by
    have hm := I.conv n i c hk ((wants_closed rfl).2 hn)
    exact ⟨nec_of_mem_parents hm, hm, I.hlt c n i hm rfl⟩
  parent c p i h := by
    obtain ⟨h1, h2⟩ := I.par c p i h
    exact ⟨(wants_closed rfl).1 h2, h1⟩
  scope n b hn hv hsc := by
    obtain ⟨br, hb, -⟩ := I.frag.scope_bind hn hsc
    refine ⟨br, hb, I.frag.lc_lt hb, (I.frag.scopeValid n b br hn hv hsc hb).1, ?_⟩
    intro hnec
    exact ⟨(scope_nec_rest2 I hnf hn hsc hb hnec).2, I.scopeH n b br hv hsc hb hnec rfl⟩
  lcRec n b hn _ hk := (I.frag.node n hn).lcRec b hk
  mainRec n b lc hn _ hk := by
    obtain ⟨br, h1, h2, h3⟩ := (I.frag.node n hn).mainRec b lc hk
    obtain ⟨-, -, -, -, h5⟩ := I.frag.recs b br h1
    exact ⟨br, h1, h2, h3, by rw [← h3, ← h2, h5]⟩
  lcChild m c b hm _ hc hk := (I.frag.node m hm).lcChild c b hc hk
  acyc := by
    refine ⟨rk, ?_⟩
    intro a c h
    have ha := h.lt_size
    cases h with
    | child hc => exact I.frag.kid_rk ha hc
    | scope hv hsc hb => exact (I.frag.scope_rk ha hsc hb).1

theorem heapInv_of_ginv2 {env : Env} {rk : Nat → Nat} {s : State} {ex : Nat → Prop} {dy : List Nat}
    (I : GInv2 env rk s allClosed ex dy) : HeapInv s where
  wf := I.heap.wf
  hgt m hm := I.hgt m hm rfl
  lb m hm := by rw [← I.hgt m hm rfl]; exact I.heap.lb m hm
  lb0 := I.heap.lb0
  nec m hm := by
    rcases I.qnec m hm with h | ⟨k, h⟩
    · exact h
    · cases h

end IncrVerif.Proofs.NestH
