import IncrVerif.Proofs.FaultH11
/-!
# Faults in whole histories, part 8: in the state poisoned by a propagation panic an action other than `stabilise` can only
fail on an index that does not exist (`model:` sites), never with an engine panic
-/
namespace IncrVerif.Proofs.FaultH
open IncrVerif.Engine IncrVerif.Driver IncrVerif.Proofs IncrVerif.Proofs.Step

/-- a panic of the harness-level model: an index of the history does not exist -/
def modelSites : List String :=
  ["model:bad-outer", "model:bad-local", "model:empty-slot", "model:no-such-node", "model:no-such-observer",
   "model:no-such-var"]

def ModelSite (p : Panic) : Prop := ∃ site, p = .site site ∧ site ∈ modelSites

/-- every panic of `x` from `s` is a `model:` panic -/
def OMAt (s : State) {α} (x : M α) : Prop := ∀ p s', x.run.run s = (.error p, s') → ModelSite p

@[reducible] def OM {α} (x : M α) : Prop := ∀ s, OMAt s x

namespace P8
variable {s : State} {α β : Type}

theorem ret (a : α) : OMAt s (pure a : M α) := by
  intro p s' h; rw [run_pure] at h; cases h

theorem pan_model (site : String) (h : site ∈ modelSites) : OMAt s (Engine.panic site : M α) := by
  intro p s' hr
  have : (Engine.panic site : M α).run.run s = (.error (.site site), s) := rfl
  rw [this] at hr; cases hr
  exact ⟨site, rfl, h⟩

theorem seq {x : M α} {f : α → M β} (hx : OMAt s x) (hf : ∀ a s1, x.run.run s = (.ok a, s1) → OMAt s1 (f a)) :
    OMAt s (x >>= f) := by
  intro p s' h
  rcases h1 : x.run.run s with ⟨r, s1⟩
  cases r with
  | error e => rw [run_bind_err h1] at h; cases h; exact hx p _ h1
  | ok a => rw [run_bind_ok h1] at h; exact hf a s1 h1 p s' h

theorem get_seq {k : State → M β} (h : OMAt s (k s)) : OMAt s (get >>= k) := by
  intro p s' hr; rw [run_bind_get] at hr; exact h p s' hr

theorem modify_om (f : State → State) : OMAt s (modify f : M Unit) := by
  intro p s' h; rw [run_modify] at h; cases h

theorem cond {c : Prop} {_ : Decidable c} {a b : M α} (ha : c → OMAt s a) (hb : ¬ c → OMAt s b) :
    OMAt s (if c then a else b) := by
  by_cases h : c
  · rw [if_pos h]; exact ha h
  · rw [if_neg h]; exact hb h

theorem map {x : M α} (f : α → β) (hx : OMAt s x) : OMAt s (f <$> x) := by
  rw [map_eq_pure_bind]; exact seq hx fun _ _ _ => ret _

theorem discard {x : M α} (hx : OMAt s x) : OMAt s (discard x) := by
  unfold Functor.discard; exact map _ hx

theorem mapM_om {γ : Type} {f : γ → M β} (h : ∀ a, OM (f a)) (l : List γ) : OM (l.mapM f) := by
  induction l with
  | nil => intro s; rw [List.mapM_nil]; exact ret _
  | cons a l ih =>
    intro s; rw [List.mapM_cons]
    exact seq (h a s) fun _ s1 _ => seq (ih s1) fun _ _ _ => ret _

end P8

syntax "om_leaf" : tactic
macro_rules | `(tactic| om_leaf) => `(tactic| fail "no leaf")

macro "om_step" : tactic => `(tactic| first
  | with_reducible exact P8.ret _
  | ((with_reducible refine P8.pan_model _ ?_); (unfold modelSites; repeat (first | exact List.mem_cons_self | apply List.mem_cons_of_mem)))
  | with_reducible exact P8.modify_om _
  | ((with_reducible refine P8.get_seq ?_); try dsimp only)
  | om_leaf
  | (with_reducible refine P8.seq ?_ fun _ _ _ => ?_)
  | (refine P8.cond (fun _ => ?_) (fun _ => ?_))
  | (with_reducible refine P8.map _ ?_)
  | (with_reducible refine P8.discard ?_))

macro "om" : tactic => `(tactic| repeat (any_goals om_step))

namespace P8

theorem getNode_om (n : Nat) : OM (getNode n) := by
  intro s; unfold getNode; om; split <;> om
theorem getObs_om (o : Nat) : OM (getObs o) := by
  intro s; unfold getObs; om; split <;> om
theorem getVar_om (v : Nat) : OM (getVar v) := by
  intro s; unfold getVar; om; split <;> om
theorem modNode_om (n : Nat) (f : Node → Node) : OM (modNode n f) := by
  intro s; unfold modNode; om
theorem modObs_om (o : Nat) (f : ObsRec → ObsRec) : OM (modObs o f) := by
  intro s; unfold modObs; om
theorem modVar_om (v : Nat) (f : VarCell → VarCell) : OM (modVar v f) := by
  intro s; unfold modVar; om
theorem modBind_om (b : Nat) (f : BindRec → BindRec) : OM (modBind b f) := by
  intro s; unfold modBind; om
theorem bumpCounter_om (f : Counters → Counters) : OM (bumpCounter f) := by
  intro s; unfold bumpCounter; om

end P8

macro_rules | `(tactic| om_leaf) => `(tactic| with_reducible exact P8.getNode_om _ _)
macro_rules | `(tactic| om_leaf) => `(tactic| with_reducible exact P8.getObs_om _ _)
macro_rules | `(tactic| om_leaf) => `(tactic| with_reducible exact P8.getVar_om _ _)
macro_rules | `(tactic| om_leaf) => `(tactic| with_reducible exact P8.modNode_om _ _ _)
macro_rules | `(tactic| om_leaf) => `(tactic| with_reducible exact P8.modObs_om _ _ _)
macro_rules | `(tactic| om_leaf) => `(tactic| with_reducible exact P8.modVar_om _ _ _)
macro_rules | `(tactic| om_leaf) => `(tactic| with_reducible exact P8.modBind_om _ _ _)
macro_rules | `(tactic| om_leaf) => `(tactic| with_reducible exact P8.bumpCounter_om _ _)

namespace P8

theorem resolveOpnd_om (loc : List Nat) (o : Opnd) : OM (resolveOpnd loc o) := by
  intro s; unfold resolveOpnd
  cases o <;> dsimp only
  case outer k => om; split <;> om
  case abs n => om
  case loc j => split <;> om
  case slot k => om; split <;> om

theorem isConstant_om (n : Nat) : OM (isConstant n) := by
  intro s; unfold isConstant; om; split <;> om

theorem createNode_om (k : Kind) (sc : Scope) (c : CutoffK) : OM (createNode k sc c) := by
  intro s; unfold createNode; om
  cases sc <;> om

theorem createVar_om (v : Val) (sc : Scope) : OM (createVar v sc) := by
  intro s; unfold createVar; om
  exact createNode_om _ _ _ _

theorem handleAfterStabilisation_om (n : Nat) : OM (handleAfterStabilisation n) := by
  intro s; unfold handleAfterStabilisation; om

theorem disallowFutureUse_om (o : Nat) : OM (disallowFutureUse o) := by
  intro s; unfold disallowFutureUse; om
  split <;> om

theorem subscribe_om (o hid : Nat) : OM (Engine.subscribe o hid) := by
  intro s; unfold Engine.subscribe; om
  split <;> om
  all_goals exact handleAfterStabilisation_om _ _

theorem unsubscribe_om (o t owner : Nat) : OM (Engine.unsubscribe o t owner) := by
  intro s; unfold Engine.unsubscribe; om
  split <;> om

/-- a write in status `stabilising` returns, or the variable does not exist -/
theorem writeVar_om (v : Nat) (f : Val → Val) (isSet : Bool) {s : State} (hst : s.status = .stabilising) :
    OMAt s (writeVar v f isSet) := by
  intro p s' h
  cases hv : s.vars[v]? with
  | none =>
    unfold writeVar at h
    rw [Proofs.run_bind, G1.run_getVar_none hv] at h
    cases h
    exact ⟨_, rfl, by unfold modelSites; repeat (first | exact List.mem_cons_self | apply List.mem_cons_of_mem)⟩
  | some vc =>
    rw [Proofs.writeVar_inside_run v f isSet s vc hv hst] at h
    cases h

end P8

macro_rules | `(tactic| om_leaf) => `(tactic| with_reducible exact P8.resolveOpnd_om _ _ _)
macro_rules | `(tactic| om_leaf) => `(tactic| with_reducible exact P8.isConstant_om _ _)
macro_rules | `(tactic| om_leaf) => `(tactic| with_reducible exact P8.createNode_om _ _ _ _)
macro_rules | `(tactic| om_leaf) => `(tactic| with_reducible exact P8.createVar_om _ _ _)
macro_rules | `(tactic| om_leaf) => `(tactic| with_reducible exact P8.disallowFutureUse_om _ _)
macro_rules | `(tactic| om_leaf) => `(tactic| with_reducible exact P8.subscribe_om _ _ _)
macro_rules | `(tactic| om_leaf) => `(tactic| with_reducible exact P8.unsubscribe_om _ _ _ _)
macro_rules | `(tactic| om_leaf) => `(tactic| ((with_reducible refine P8.writeVar_om _ _ _ ?_); assumption))
macro_rules | `(tactic| om_leaf) => `(tactic| with_reducible exact P8.mapM_om (fun a => P8.resolveOpnd_om _ a) _ _)

/-- **an action other than `stabilise` and other than a write never raises an engine panic, in ANY state; a write does not
in the state poisoned by a propagation panic**: if it panics at all, an index named by the history does not exist
(`modelSites`: `model:bad-outer`, `model:no-such-node`, `model:no-such-observer`, `model:no-such-var`, …) -/
theorem only_model_panics {env : Env} {a : Action} (ha : FAction env a) (hns : a ≠ .stabilise) {s s' : State}
    {tk : Array Nat} {p : Panic} (hst : writeFn a = none ∨ s.status = .stabilising)
    (h : (stepAction env a tk).run.run s = (.error p, s')) : ModelSite p := by
  refine (?_ : OMAt s (stepAction env a tk)) p s' h
  cases a <;> try exact ha.elim
  case stabilise => exact absurd rfl hns
  case create i =>
    unfold stepAction; dsimp only
    cases i <;> try exact ha.elim
    all_goals
      unfold elabInstrM; dsimp only; unfold elabInstr; dsimp only
      om
    all_goals (repeat (any_goals (first | (split <;> om))))
  case set v x =>
    have hst' : s.status = .stabilising := hst.resolve_left (by simp [writeFn])
    unfold stepAction; dsimp only; om
  case modify v d =>
    have hst' : s.status = .stabilising := hst.resolve_left (by simp [writeFn])
    unfold stepAction; dsimp only; om
  case update v d =>
    have hst' : s.status = .stabilising := hst.resolve_left (by simp [writeFn])
    unfold stepAction; dsimp only; om
  case replace v x =>
    have hst' : s.status = .stabilising := hst.resolve_left (by simp [writeFn])
    unfold stepAction; dsimp only; om
  case replaceWith v d =>
    have hst' : s.status = .stabilising := hst.resolve_left (by simp [writeFn])
    unfold stepAction; dsimp only; om
  all_goals
    unfold stepAction; dsimp only
    om
  all_goals (repeat (any_goals (first | (split <;> om))))

end IncrVerif.Proofs.FaultH
