import IncrVerif.Proofs.FullT14
import IncrVerif.Proofs.FullT11
import IncrVerif.Proofs.NestH118
/-!
# C04 combined fragment: the API actions other than `stabilise` — bisimulation (twin of `FullH.SimAt.stepAction`, FullH50), the `cutoff` action, totality
-/
namespace IncrVerif.Proofs.FullT
set_option linter.unusedSectionVars false
open IncrVerif.Engine IncrVerif.Driver IncrVerif.Proofs IncrVerif.Proofs.Step IncrVerif.Proofs.Sched IncrVerif.Proofs.Quiet IncrVerif.Proofs.FullH

section
variable {env : Env} {sp : Nat → Val → Val} {g : Nat → Option Val}

theorem BSimAt.discard {K : Kind → Prop} {P : State → Prop} {α : Type} {s : State} {x x' : M α} (hx : BSimAt K P g s x x') :
    BSimAt K P g s (discard x) (discard x') := by
  unfold Functor.discard
  exact BSimAt.map (Function.const α PUnit.unit) hx

/-- every API action but `stabilise` and the `cutoff` action is bisimulated -/
theorem BSimAt.stepAction {P : State → Prop} [KeepsG P] {s : State} {T : Nat} {a : Action} (tk : Array Nat)
    (hA : ActionFull env sp T a) (hs : a ≠ .stabilise) (hnc : ∀ n c, a ≠ .create (.cutoff n c)) (ht : TopLt s) :
    BSimAt (FK env sp) P g s (Engine.stepAction env a tk) (Engine.stepAction (VE env sp) (virtA a) tk) := by
  cases a <;> simp only [ActionFull] at hA <;> try exact hA.elim
  case create i =>
    have hnc' : ∀ n c, i ≠ .cutoff n c := fun n c e => hnc n c (by rw [e])
    rw [virtA_create hnc']
    unfold Engine.stepAction
    simp only []
    obtain ⟨hi, ho⟩ := instrS_of_top hA hnc'
    refine BSimAt.seq (BSimAt.elabInstrM_top .unit i hi ho ht) fun r _ _ => ?_
    cases r <;> bsim
  case stabilise => exact absurd rfl hs
  all_goals
    rw [virtA_other (fun i h => by cases h)]
    unfold Engine.stepAction
    simp only []
    first
    | (refine BSimAt.seq (BSimAt.discard (BSim.writeVar _ _ _ _)) fun _ _ _ => ?_; bsim; done)
    | (bsim; done)
    | (bsim; exact BSimAt.ret _)

/-! ## the `cutoff` action (NOT simulated: the virtual action is `stats`) -/

theorem run_resolveOuter {s : State} {k m : Nat} (hk : s.top[k]? = some m) :
    (Engine.resolveOpnd [] (.outer k)).run.run s = (.ok m, s) := by
  unfold Engine.resolveOpnd
  simp only []
  rw [run_bind_get, hk]
  exact run_pure _ _

/-- **the `cutoff` action returns when its operand names an existing handle** -/
theorem cutoff_ret {s : State} {k m : Nat} {c : CutoffK} {tk : Array Nat} (hk : s.top[k]? = some m) :
    (stepAction env (.create (.cutoff (.outer k) c)) tk).run.run s =
      (.ok ("ok", tk), { s with nodes := s.nodes.modify m fun x => { x with cutoff := c } }) := by
  unfold Engine.stepAction
  simp only []
  have e : Engine.elabInstrM env [] .unit (.cutoff (.outer k) c) = Engine.elabInstr [] .unit (.cutoff (.outer k) c) := rfl
  rw [e]
  unfold Engine.elabInstr
  simp only []
  rw [run_bind_ok (s1 := { s with nodes := s.nodes.modify m fun x => { x with cutoff := c } }) (a := none)]
  · exact run_pure _ _
  · rw [run_bind_get, run_bind_ok (run_resolveOuter hk), run_bind_modNode]
    exact run_pure _ _

/-- the `cutoff` action: it returns, keeps `PInv` (kinds and parent lists are unchanged) and is invisible in the virtual state -/
theorem cutoff_total {s : State} {k : Nat} {c : CutoffK} {tk : Array Nat} (hk : k < s.top.size) (hlc : TopNoLc s) (hP : PInv s) :
    ∃ s', (stepAction env (.create (.cutoff (.outer k) c)) tk).run.run s = (.ok ("ok", tk), s') ∧ PInv s' ∧ virt g s' = virt g s ∧
      s'.top = s.top ∧ s'.vars = s.vars ∧ s'.observers = s.observers ∧ s'.nodes.size = s.nodes.size := by
  have hm : s.top[k]? = some s.top[k] := Array.getElem?_eq_getElem hk
  exact ⟨_, cutoff_ret hm, PInv.modifyKP _ _ hP (fun nd => ⟨rfl, rfl⟩), virt_cut g s _ c (hlc k _ hm), rfl, rfl, rfl, by simp⟩

/-! ## totality of the API actions other than `stabilise` -/

/-- an API action of F2 other than `stabilise` whose indices exist returns, whatever the room is (extracted from the proof of `NestH.step_totIf2`) -/
theorem step_ret2 {env : Env} {rk : Nat → Nat} {N : Nat} {s : State} {a : Action} {tk : Array Nat}
    (Q : NestH.QInv2 env rk s) (T : NestH.TInv2 rk N s) (ha : NestH.ActionF2 env s.top.size a) (hin : NestH.ActionIn2 s a)
    (hns : a ≠ .stabilise) : ∃ r0 s0, (stepAction env a tk).run.run s = (.ok r0, s0) := by
  by_cases hc : ∃ i, a = .create i
  · obtain ⟨i, rfl⟩ := hc
    obtain ⟨r0, s0, -, h, -⟩ := NestH.create_run2 (tk := tk) Q ha hin
    exact ⟨r0, s0, h⟩
  · have hc' : ∀ i, a ≠ .create i := fun i e => hc ⟨i, e⟩
    obtain ⟨r0, s0, h, -⟩ := NestH.simple_total2 (env := env) (tk := tk) Q T (NestH.T2k.simple_of_F2 ha hc' hns)
      (NestH.T2k.actionOK_of_in2 (N := N) hin hc' hns)
    exact ⟨r0, s0, h⟩

theorem virtA_ne_stabilise {a : Action} (hs : a ≠ .stabilise) : virtA a ≠ .stabilise := by
  by_cases hc : ∃ i, a = .create i
  · obtain ⟨i, rfl⟩ := hc
    by_cases hq : ∃ n c, i = .cutoff n c
    · obtain ⟨n, c, rfl⟩ := hq
      intro h; cases h
    · rw [virtA_create (fun n c e => hq ⟨n, c, e⟩)]
      intro h; cases h
  · rw [virtA_other (fun i e => hc ⟨i, e⟩)]; exact hs

/-- **every API action of the combined fragment other than `stabilise` returns**: IF the state the action ends in, whatever the outcome, has at most `N`
nodes, THEN it returned, and the invariants (`QInvF` with the same ghost, `PInv`, the totality invariant `QT` of the virtual state) hold; the exact sizes. -/
theorem step_totalF {env : Env} {sp : Nat → Val → Val} {N : Nat} {s : State} {g : Nat → Option Val} {a : Action} {tk : Array Nat}
    (Q : QInvF env sp s g) (hP : PInv s) (TQ : NestH.QT (VE env sp) N (virt g s)) (hA : ActionFull env sp s.top.size a)
    (hidx : NestH.ActionIdx s.top.size s.vars.size s.observers.size (virtA a))
    (hcut : ∀ n c, a = .create (.cutoff n c) → ∃ k, n = Opnd.outer k ∧ k < s.top.size) (hs : a ≠ .stabilise) :
    NestH.TotIf (stepAction env a tk) s (NestH.ResOK N) (fun r s' => r.2 = tk ∧ QInvF env sp s' g ∧ PInv s' ∧
      NestH.QT (VE env sp) N (virt g s') ∧ s'.top.size = s.top.size + NestH.growTop (virtA a) ∧
      s'.vars.size = s.vars.size + (NestH.grow2 (virtA a)).2.1 ∧
      s'.observers.size = s.observers.size + (NestH.grow2 (virtA a)).2.2) := by
  intro r s' hrun hB
  obtain ⟨ht, hlc⟩ := topLt_of_qg2 Q.q
  obtain ⟨rk, Q2, T2, H⟩ := TQ
  by_cases hc : ∃ n c, a = .create (.cutoff n c)
  · obtain ⟨n, c, rfl⟩ := hc
    obtain ⟨k, rfl, hk⟩ := hcut n c rfl
    obtain ⟨s1, h1, p1, v1, e1, e2, e3, -⟩ := cutoff_total (env := env) (g := g) (c := c) (tk := tk) hk hlc hP
    rw [h1] at hrun
    obtain ⟨rfl, rfl⟩ := Prod.mk.inj hrun
    refine ⟨("ok", tk), rfl, rfl, step_fullG Q hA hs h1, p1, ?_, ?_, ?_, ?_⟩
    · rw [v1]; exact ⟨rk, Q2, T2, H⟩
    · rw [e1]; rfl
    · rw [e2]; rfl
    · rw [e3]; rfl
  · have hnc : ∀ n c, a ≠ .create (.cutoff n c) := fun n c e => hc ⟨n, c, e⟩
    have B := BSimAt.stepAction (P := PInv) (g := g) tk hA hs hnc ht
    have haF : NestH.ActionF2 (VE env sp) (virt g s).top.size (virtA a) := actionF2_virt hA
    have hin : NestH.ActionIn2 (virt g s) (virtA a) := NestH.actionIn2_of (s := virt g s) hidx
    have hvs := virtA_ne_stabilise hs
    obtain ⟨r0, t0, h0⟩ := step_ret2 (tk := tk) Q2 T2 haF hin hvs
    obtain ⟨s0, hs0, e0, -, -, p0⟩ := B.rev Q.frag.fr hP h0
    rw [hs0] at hrun
    obtain ⟨rfl, rfl⟩ := Prod.mk.inj hrun
    subst e0
    have hB' : NestH.ResOK N (virt g s0) := by
      show (virt g s0).nodes.size ≤ N
      rw [virt_size]; exact hB
    obtain ⟨r1, e1, htk, rk', Q', T', G2, -⟩ := NestH.step_totIf2 Q2 T2 haF hin hvs _ _ h0 hB'
    cases e1
    exact ⟨r0, rfl, htk, step_fullG Q hA hs hs0, p0, ⟨rk', Q', T', NestH.step_rhsRan2 Q2 H haF hvs h0⟩, G2.2.2.2, G2.2.1, G2.2.2.1⟩

end
end IncrVerif.Proofs.FullT
