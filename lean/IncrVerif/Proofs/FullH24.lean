import IncrVerif.Proofs.Step
/-!
# Frame ladder for "only node `n` gets a new stored value" (part 1: relation, tactic, `Engine/Core.lean`, `Engine/Expert.lean`)

`NVn n s s'`: only node `n` gets a new stored value; the stored value of any other existing node is kept or
erased; new nodes have no stored value.  `Step.Pres (NVn n) f` for every function of `Engine/Core.lean` and
`Engine/Expert.lean`; tactic `nvpres` (leaves: `nvleaf`, extended with `nv_leaf <lemma>`).
-/
namespace IncrVerif.Proofs.FullH
open IncrVerif.Engine IncrVerif.Proofs IncrVerif.Proofs.Step

/-- only node `n` gets a new stored value; the stored value of any other existing node is kept or erased;
new nodes have no stored value -/
structure NVn (n : Nat) (s s' : State) : Prop where
  size : s.nodes.size ≤ s'.nodes.size
  old : ∀ m, m ≠ n → m < s.nodes.size → (s'.nodeD m).value = (s.nodeD m).value ∨ (s'.nodeD m).value = none
  new : ∀ m, m ≠ n → s.nodes.size ≤ m → m < s'.nodes.size → (s'.nodeD m).value = none

theorem NVn.refl (n : Nat) (s : State) : NVn n s s :=
  ⟨Nat.le_refl _, fun _ _ _ => .inl rfl, fun m _ h1 h2 => absurd h2 (by omega)⟩

theorem NVn.trans {n : Nat} {a b c : State} (h1 : NVn n a b) (h2 : NVn n b c) : NVn n a c where
  size := Nat.le_trans h1.size h2.size
  old m hm hlt := by
    rcases h2.old m hm (Nat.lt_of_lt_of_le hlt h1.size) with q2 | q2
    · rcases h1.old m hm hlt with q1 | q1
      · exact .inl (q2.trans q1)
      · exact .inr (q2.trans q1)
    · exact .inr q2
  new m hm hge hlt := by
    by_cases hb : m < b.nodes.size
    · rcases h2.old m hm hb with q2 | q2
      · exact q2.trans (h1.new m hm hge hb)
      · exact q2
    · exact h2.new m hm (by omega) hlt

instance (n : Nat) : PreOrd (NVn n) := ⟨NVn.refl n, NVn.trans⟩

namespace NV

/-- a step that leaves `nodes` alone -/
theorem of_eq (n : Nat) {s s' : State} (h : s'.nodes = s.nodes) : NVn n s s' where
  size := by rw [h]; exact Nat.le_refl _
  old m _ _ := .inl (by simp only [State.nodeD, h])
  new m _ h1 h2 := absurd h2 (by rw [h]; omega)

/-- `modNode k f` where `f` keeps or erases the stored value -/
theorem modKeep (n : Nat) (s : State) (k : Nat) (f : Node → Node)
    (hf : ∀ x, (f x).value = x.value ∨ (f x).value = none) :
    NVn n s { s with nodes := s.nodes.modify k f } where
  size := by show s.nodes.size ≤ (s.nodes.modify k f).size; simp
  old m _ _ := by
    rw [nodeD_modify]
    split
    · exact hf _
    · exact .inl rfl
  new m _ h1 h2 := absurd h2 (by show ¬ m < (s.nodes.modify k f).size; simp; omega)

/-- `modNode n f`: anything goes on node `n` itself -/
theorem modSelf (n : Nat) (s : State) (f : Node → Node) :
    NVn n s { s with nodes := s.nodes.modify n f } where
  size := by show s.nodes.size ≤ (s.nodes.modify n f).size; simp
  old m hm _ := by
    rw [nodeD_modify, if_neg (fun h => hm h.1.symm)]
    exact .inl rfl
  new m _ h1 h2 := absurd h2 (by show ¬ m < (s.nodes.modify n f).size; simp; omega)

theorem nodeD_push (s : State) (nd : Node) (i : Nat) :
    ({ s with nodes := s.nodes.push nd } : State).nodeD i
      = if i = s.nodes.size then nd else s.nodeD i := by
  simp only [State.nodeD, Array.getElem?_push]
  split <;> simp

/-- appending a node without a stored value -/
theorem push (n : Nat) (s : State) (nd : Node) (hv : nd.value = none) :
    NVn n s { s with nodes := s.nodes.push nd } where
  size := by show s.nodes.size ≤ (s.nodes.push nd).size; simp
  old m _ hlt := by rw [nodeD_push, if_neg (Nat.ne_of_lt hlt)]; exact .inl rfl
  new m _ h1 h2 := by
    have h2' : m < (s.nodes.push nd).size := h2
    have : m = s.nodes.size := by simp at h2'; omega
    rw [nodeD_push, if_pos this]; exact hv

end NV

/-! ## generic `Step.Pres` facts missing from `Proofs/Step.lean` -/
namespace NV
section
variable {R : State → State → Prop} [PreOrd R]
theorem Pres.isConstant (n) : Pres R (isConstant n) :=
  Pres.of_readonly _ fun s => by
    simp only [Engine.isConstant, run_bind, run_getNode]
    cases s.nodes[n]? with
    | none => rfl
    | some nd => dsimp only; split <;> rfl
theorem Pres.resolveOpnd (l o) : Pres R (resolveOpnd l o) :=
  Pres.of_readonly _ fun s => by
    cases o with
    | outer k => simp only [Engine.resolveOpnd, run_bind, run_get]; cases s.top[k]? <;> rfl
    | abs k => rfl
    | loc j => simp only [Engine.resolveOpnd]; cases l[j]? <;> rfl
    | slot k => simp only [Engine.resolveOpnd, run_bind, run_get]; cases s.slots.lookup k <;> rfl
theorem Pres.getObs (n) : Pres R (getObs n) :=
  Pres.of_readonly _ fun s => by
    simp only [Engine.getObs, run_bind, run_get]; cases s.observers[n]? <;> rfl
theorem Pres.discard {α} {x : M α} (hx : Pres R x) : Pres R (discard x) := by
  unfold Functor.discard
  rw [LawfulFunctor.map_const]
  exact Pres.map _ hx
theorem Pres.withVarHandle (v) {act : M Unit} (h : Pres R act) : Pres R (withVarHandle v act) := by
  unfold Engine.withVarHandle
  refine Pres.bind Pres.get fun s => ?_
  split
  · split
    · exact Pres.pure _
    · exact h
  · exact h
theorem Pres.forIn_mem {α β} {l : List α} {init : β}
    {f : α → β → M (ForInStep β)} (hf : ∀ a, a ∈ l → ∀ b, Pres R (f a b)) :
    Pres R (forIn l init f) := by
  induction l generalizing init with
  | nil => rw [List.forIn_nil]; exact Pres.pure _
  | cons a l ih =>
    rw [List.forIn_cons]
    refine Pres.bind (hf a List.mem_cons_self init) fun r => ?_
    cases r with
    | done b => exact Pres.pure _
    | yield b => exact ih fun a' ha' b => hf a' (List.mem_cons_of_mem _ ha') b
end
end NV

/-! ## the decomposition tactic (same shape as `MemoH.mpres`) -/

syntax "nvleaf" : tactic
macro_rules | `(tactic| nvleaf) => `(tactic| fail "no leaf")

macro "nvstep" : tactic => `(tactic| first
  | with_reducible apply Pres.pure | with_reducible apply Pres.get | with_reducible apply Pres.panic
  | with_reducible apply Pres.throw
  | with_reducible apply Pres.bind | with_reducible apply Pres.map | with_reducible apply Pres.mapM
  | with_reducible apply Pres.forIn
  | with_reducible apply Pres.getNode | with_reducible apply Pres.dassert
  | with_reducible apply Pres.getBind | with_reducible apply Pres.getExpert
  | with_reducible apply Pres.getVar | with_reducible apply Pres.assertM
  | with_reducible apply NV.Pres.getObs | with_reducible apply NV.Pres.isConstant
  | with_reducible apply NV.Pres.resolveOpnd | with_reducible apply NV.Pres.discard
  | with_reducible apply NV.Pres.withVarHandle
  | with_reducible apply Pres.valueUnwrap | with_reducible apply Pres.scopeHeight
  | nvleaf
  | intro _ | split | dsimp only)

/-- decompose a `Pres (NVn n) _` goal along the structure of the program -/
macro "nvpres" : tactic => `(tactic| repeat (any_goals nvstep))

/-- register a lemma as a leaf of `nvpres` -/
macro "nv_leaf " n:ident : command =>
  `(macro_rules | `(tactic| nvleaf) => `(tactic| with_reducible apply $n))

namespace PresNV
variable {n : Nat}

/-- a `modify` that leaves `nodes` alone -/
macro_rules
  | `(tactic| nvleaf) =>
    `(tactic| ((with_reducible apply Pres.modify); intro _; exact NV.of_eq _ rfl))
/-- appending a node without a stored value -/
macro_rules
  | `(tactic| nvleaf) =>
    `(tactic| ((with_reducible apply Pres.modify); intro _; exact NV.push _ _ _ rfl))

theorem modNode_self (f) : Pres (NVn n) (modNode n f) := by
  unfold Engine.modNode; exact Pres.modify fun s => NV.modSelf n s f
nv_leaf PresNV.modNode_self
theorem modNode_keep (k f) (hf : ∀ x, (f x).value = x.value ∨ (f x).value = none) :
    Pres (NVn n) (modNode k f) := by
  unfold Engine.modNode; exact Pres.modify fun s => NV.modKeep n s k f hf
macro_rules
  | `(tactic| nvleaf) =>
    `(tactic| ((with_reducible apply PresNV.modNode_keep); intro _; first | exact Or.inl rfl | exact Or.inr rfl))

theorem modBind (b f) : Pres (NVn n) (modBind b f) := by unfold Engine.modBind; nvpres
nv_leaf PresNV.modBind
theorem modExpert (e f) : Pres (NVn n) (modExpert e f) := by unfold Engine.modExpert; nvpres
nv_leaf PresNV.modExpert
theorem logEv (e) : Pres (NVn n) (logEv e) := by unfold Engine.logEv; nvpres
nv_leaf PresNV.logEv
theorem tick : Pres (NVn n) tick := by unfold Engine.tick; nvpres
nv_leaf PresNV.tick
theorem scopeIsNecessary (sc) : Pres (NVn n) (scopeIsNecessary sc) := by
  unfold Engine.scopeIsNecessary; nvpres
nv_leaf PresNV.scopeIsNecessary
theorem scopeIsValid (sc) : Pres (NVn n) (scopeIsValid sc) := by unfold Engine.scopeIsValid; nvpres
nv_leaf PresNV.scopeIsValid

/-! ### heaps, heights -/
theorem rchLink (k) : Pres (NVn n) (rchLink k) := by unfold Engine.rchLink; nvpres
nv_leaf PresNV.rchLink
theorem rchUnlink (k) : Pres (NVn n) (rchUnlink k) := by unfold Engine.rchUnlink; nvpres
nv_leaf PresNV.rchUnlink
theorem rchInsert (k) : Pres (NVn n) (rchInsert k) := by unfold Engine.rchInsert; nvpres
nv_leaf PresNV.rchInsert
theorem rchRemove (k) : Pres (NVn n) (rchRemove k) := by unfold Engine.rchRemove; nvpres
nv_leaf PresNV.rchRemove
theorem rchMinHeight : Pres (NVn n) rchMinHeight := by unfold Engine.rchMinHeight; nvpres
nv_leaf PresNV.rchMinHeight
theorem rchIncreaseHeight (k) : Pres (NVn n) (rchIncreaseHeight k) := by
  unfold Engine.rchIncreaseHeight; nvpres
nv_leaf PresNV.rchIncreaseHeight
theorem rchRemoveMin : Pres (NVn n) rchRemoveMin := by unfold Engine.rchRemoveMin; nvpres
nv_leaf PresNV.rchRemoveMin
theorem setHeight (k h) : Pres (NVn n) (setHeight k h) := by unfold Engine.setHeight; nvpres
nv_leaf PresNV.setHeight
theorem ahhAddUnlessMem (k) : Pres (NVn n) (ahhAddUnlessMem k) := by
  unfold Engine.ahhAddUnlessMem; nvpres
nv_leaf PresNV.ahhAddUnlessMem
theorem ahhRemoveMin : Pres (NVn n) ahhRemoveMin := by unfold Engine.ahhRemoveMin; nvpres
nv_leaf PresNV.ahhRemoveMin
theorem ensureHeightRequirement (a b c d) : Pres (NVn n) (ensureHeightRequirement a b c d) := by
  unfold Engine.ensureHeightRequirement; nvpres
nv_leaf PresNV.ensureHeightRequirement
theorem adjustHeightsLoop (oc op fuel) : Pres (NVn n) (adjustHeightsLoop oc op fuel) := by
  induction fuel with
  | zero => unfold Engine.adjustHeightsLoop; nvpres
  | succ fuel ih => unfold Engine.adjustHeightsLoop; nvpres; all_goals exact ih
nv_leaf PresNV.adjustHeightsLoop
theorem adjustHeights (oc op fuel) : Pres (NVn n) (adjustHeights oc op fuel) := by
  unfold Engine.adjustHeights; nvpres
nv_leaf PresNV.adjustHeights

/-! ### parents, handlers bookkeeping, cutoffs, edge callbacks -/
theorem addParent (a b c) : Pres (NVn n) (addParent a b c) := by unfold Engine.addParent; nvpres
nv_leaf PresNV.addParent
theorem removeParent (a b c) : Pres (NVn n) (removeParent a b c) := by
  unfold Engine.removeParent; nvpres
nv_leaf PresNV.removeParent
theorem handleAfterStabilisation (k) : Pres (NVn n) (handleAfterStabilisation k) := by
  unfold Engine.handleAfterStabilisation; nvpres
nv_leaf PresNV.handleAfterStabilisation
theorem maybeHandleAfterStabilisation (k) : Pres (NVn n) (maybeHandleAfterStabilisation k) := by
  unfold Engine.maybeHandleAfterStabilisation; nvpres
nv_leaf PresNV.maybeHandleAfterStabilisation
theorem shouldCutoff (env k o v) : Pres (NVn n) (shouldCutoff env k o v) := by
  unfold Engine.shouldCutoff; nvpres
nv_leaf PresNV.shouldCutoff
theorem edgeOnChange (env e edge) : Pres (NVn n) (edgeOnChange env e edge) := by
  unfold Engine.edgeOnChange; nvpres
nv_leaf PresNV.edgeOnChange
theorem runEdgeCallback (env e i) : Pres (NVn n) (runEdgeCallback env e i) := by
  unfold Engine.runEdgeCallback; nvpres
nv_leaf PresNV.runEdgeCallback
theorem observabilityChange (e b) : Pres (NVn n) (observabilityChange e b) := by
  unfold Engine.observabilityChange; nvpres
nv_leaf PresNV.observabilityChange
theorem markMapRefUnknown (fuel k) : Pres (NVn n) (markMapRefUnknown fuel k) := by
  induction fuel generalizing k with
  | zero => unfold Engine.markMapRefUnknown; nvpres
  | succ fuel ih => unfold Engine.markMapRefUnknown; nvpres; all_goals exact ih _
nv_leaf PresNV.markMapRefUnknown

/-! ### necessity cascades -/
theorem necessary (env : Env) (fuel : Nat) :
    (∀ k, Pres (NVn n) (becameNecessary env fuel k)) ∧
    (∀ c i p, Pres (NVn n) (addParentWithoutAdjustingHeights env fuel c i p)) := by
  induction fuel with
  | zero =>
    constructor
    · intro k; unfold Engine.becameNecessary; nvpres
    · intro c i p; unfold Engine.addParentWithoutAdjustingHeights; nvpres
  | succ fuel ih =>
    constructor
    · intro k; unfold Engine.becameNecessary; nvpres; all_goals exact ih.2 _ _ _
    · intro c i p; unfold Engine.addParentWithoutAdjustingHeights; nvpres; all_goals exact ih.1 _
theorem becameNecessary (env fuel k) : Pres (NVn n) (becameNecessary env fuel k) :=
  (necessary env fuel).1 k
nv_leaf PresNV.becameNecessary
theorem addParentWithoutAdjustingHeights (env fuel c i p) :
    Pres (NVn n) (addParentWithoutAdjustingHeights env fuel c i p) := (necessary env fuel).2 c i p
nv_leaf PresNV.addParentWithoutAdjustingHeights

theorem unnecessary (fuel : Nat) :
    (∀ k, Pres (NVn n) (becameUnnecessary fuel k)) ∧ (∀ k, Pres (NVn n) (checkIfUnnecessary fuel k)) ∧
    (∀ k, Pres (NVn n) (removeChildren fuel k)) := by
  induction fuel with
  | zero =>
    refine ⟨?_, ?_, ?_⟩
    · intro k; unfold Engine.becameUnnecessary; nvpres
    · intro k; unfold Engine.checkIfUnnecessary; nvpres
    · intro k; unfold Engine.removeChildren; nvpres
  | succ fuel ih =>
    refine ⟨?_, ?_, ?_⟩
    · intro k; unfold Engine.becameUnnecessary; nvpres; all_goals exact ih.2.2 _
    · intro k; unfold Engine.checkIfUnnecessary; nvpres; all_goals exact ih.1 _
    · intro k; unfold Engine.removeChildren; nvpres; all_goals exact ih.2.1 _
theorem becameUnnecessary (fuel k) : Pres (NVn n) (becameUnnecessary fuel k) :=
  (unnecessary fuel).1 k
nv_leaf PresNV.becameUnnecessary
theorem checkIfUnnecessary (fuel k) : Pres (NVn n) (checkIfUnnecessary fuel k) :=
  (unnecessary fuel).2.1 k
nv_leaf PresNV.checkIfUnnecessary
theorem removeChildren (fuel k) : Pres (NVn n) (removeChildren fuel k) :=
  (unnecessary fuel).2.2 k
nv_leaf PresNV.removeChildren

/-! ### invalidation, linking -/
theorem invalidateNode (fuel k) : Pres (NVn n) (invalidateNode fuel k) := by
  induction fuel generalizing k with
  | zero => unfold Engine.invalidateNode; nvpres
  | succ fuel ih => unfold Engine.invalidateNode; nvpres; all_goals exact ih _
nv_leaf PresNV.invalidateNode
theorem propagateInvalidity (fuel) : Pres (NVn n) (propagateInvalidity fuel) := by
  induction fuel with
  | zero => unfold Engine.propagateInvalidity; nvpres
  | succ fuel ih => unfold Engine.propagateInvalidity; nvpres; all_goals exact ih
nv_leaf PresNV.propagateInvalidity
theorem becameNecessaryPropagate (env fuel k) :
    Pres (NVn n) (becameNecessaryPropagate env fuel k) := by
  unfold Engine.becameNecessaryPropagate; nvpres
nv_leaf PresNV.becameNecessaryPropagate
theorem stateAddParent (env fuel c i p) : Pres (NVn n) (stateAddParent env fuel c i p) := by
  unfold Engine.stateAddParent; nvpres
nv_leaf PresNV.stateAddParent
theorem changeChildBindRhs (env fuel m o nw i) :
    Pres (NVn n) (changeChildBindRhs env fuel m o nw i) := by
  unfold Engine.changeChildBindRhs; nvpres
nv_leaf PresNV.changeChildBindRhs

/-! ### the expert API (`Engine/Expert.lean`) -/
theorem assertRunningIsChild (k name) : Pres (NVn n) (assertRunningIsChild k name) := by
  unfold Engine.assertRunningIsChild; nvpres
nv_leaf PresNV.assertRunningIsChild
theorem expertOf (k) : Pres (NVn n) (expertOf k) := by unfold Engine.expertOf; nvpres
nv_leaf PresNV.expertOf
theorem expertMakeStale (k) : Pres (NVn n) (expertMakeStale k) := by
  unfold Engine.expertMakeStale; nvpres
nv_leaf PresNV.expertMakeStale
theorem swapEdgeIndices (k c1 i1 c2 i2) : Pres (NVn n) (swapEdgeIndices k c1 i1 c2 i2) := by
  unfold Engine.swapEdgeIndices; nvpres
nv_leaf PresNV.swapEdgeIndices
theorem expertRemoveDependency (fuel k dep) : Pres (NVn n) (expertRemoveDependency fuel k dep) := by
  unfold Engine.expertRemoveDependency; nvpres
nv_leaf PresNV.expertRemoveDependency
theorem expertAddDependency (env fuel k c cb) :
    Pres (NVn n) (expertAddDependency env fuel k c cb) := by
  unfold Engine.expertAddDependency; nvpres
nv_leaf PresNV.expertAddDependency
theorem expertInvalidate (fuel k) : Pres (NVn n) (expertInvalidate fuel k) := by
  unfold Engine.expertInvalidate; nvpres
nv_leaf PresNV.expertInvalidate

end PresNV

end IncrVerif.Proofs.FullH
