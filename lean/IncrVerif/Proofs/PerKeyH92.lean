import IncrVerif.Proofs.PerKeyH90
/-!
# `VSim`, part 4 (port of ExpertH26): the unlinking cascade, `propagate_invalidity`
-/
namespace IncrVerif.Proofs.PerKeyH
open IncrVerif.Engine IncrVerif.Driver IncrVerif.Proofs IncrVerif.Proofs.Step IncrVerif.Proofs.Sched
open IncrVerif.Proofs.ExpertH IncrVerif.Proofs.EffH

theorem VSim.unlink (fuel : Nat) :
    (∀ n, VSim (becameUnnecessary fuel n) (becameUnnecessary fuel n)) ∧
    (∀ n, VSim (checkIfUnnecessary fuel n) (checkIfUnnecessary fuel n)) ∧
    (∀ n, VSim (removeChildren fuel n) (removeChildren fuel n)) := by
  induction fuel with
  | zero =>
    refine ⟨?_, ?_, ?_⟩
    · intro n s; unfold becameUnnecessary; vsim
    · intro n s; unfold checkIfUnnecessary; vsim
    · intro n s; unfold removeChildren; vsim
  | succ fuel ih =>
    refine ⟨?_, ?_, ?_⟩
    · intro n s
      unfold becameUnnecessary
      vsim
      all_goals first
        | exact ih.2.2 _ _
        | vsim_kind
      refine VSimAt.veq_seq (PresVV.observabilityChange _ _) fun _ _ => ?_
      vsim
    · intro n s
      unfold checkIfUnnecessary
      vsim
      all_goals exact ih.1 _ _
    · intro n s
      unfold removeChildren
      vsim
      all_goals exact ih.2.1 _ _

theorem VSim.becameUnnecessary (fuel n : Nat) :
    VSim (Engine.becameUnnecessary fuel n) (Engine.becameUnnecessary fuel n) := (VSim.unlink fuel).1 n
theorem VSim.checkIfUnnecessary (fuel n : Nat) :
    VSim (Engine.checkIfUnnecessary fuel n) (Engine.checkIfUnnecessary fuel n) := (VSim.unlink fuel).2.1 n
theorem VSim.removeChildren (fuel n : Nat) :
    VSim (Engine.removeChildren fuel n) (Engine.removeChildren fuel n) := (VSim.unlink fuel).2.2 n
macro_rules | `(tactic| vsim_leaf) => `(tactic|
  with_reducible exact IncrVerif.Proofs.PerKeyH.VSim.becameUnnecessary _ _)
macro_rules | `(tactic| vsim_leaf) => `(tactic|
  with_reducible exact IncrVerif.Proofs.PerKeyH.VSim.checkIfUnnecessary _ _)
macro_rules | `(tactic| vsim_leaf) => `(tactic|
  with_reducible exact IncrVerif.Proofs.PerKeyH.VSim.removeChildren _ _)

/-- `Fr.pinv`: the stack is empty, a no-op on both sides -/
theorem VSim.propagateInvalidity (fuel : Nat) :
    VSim (Engine.propagateInvalidity fuel) (Engine.propagateInvalidity fuel) := by
  intro s hn r s' hr
  cases fuel with
  | zero => unfold Engine.propagateInvalidity at hr; cases hr
  | succ fuel =>
    unfold Engine.propagateInvalidity at hr ⊢
    rw [run_bind_get] at hr ⊢
    rw [Vf_propagateInvalidity]
    rw [hn.pinv] at hr ⊢
    cases hr
    exact ⟨rfl, hn⟩
macro_rules | `(tactic| vsim_leaf) => `(tactic|
  with_reducible exact IncrVerif.Proofs.PerKeyH.VSim.propagateInvalidity _)

end IncrVerif.Proofs.PerKeyH
