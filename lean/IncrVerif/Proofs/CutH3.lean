import IncrVerif.Proofs.CutH1
-- Port of Proofs/Sched4.lean to ARBITRARY cutoffs (scratch name S4); overview in Props/C06History.lean
/-!
# C06 for whole histories, part 3: one `recomputeOne` in the static fragment with ANY cutoff, as a relation

Port of the second half of `Proofs/Sched4.lean`.  New: the notification walk logs nothing (`KInv.log`), the
verdict of the cutoff is recorded exactly (`StepRel.verdict`), a suppressed value need not be equal to the old one.
-/
namespace IncrVerif.Proofs.CutH
open IncrVerif.Engine IncrVerif.Proofs IncrVerif.Proofs.Step IncrVerif.Proofs.Sched

/-- the state predicate carried through the notification part of `maybe_change_value_manual`:
only notification work since `T`, heap invariant, only nodes of `P` newly queued, nothing logged -/
structure KInv (T : State) (P : List Nat) (t : State) : Prop where
  q : Quiet T t
  heap : HeapInv t
  only : ∀ m, (t.nodeD m).inRch = true → (T.nodeD m).inRch = true ∨ m ∈ P
  qsize : t.rch.queues.size = T.rch.queues.size
  log : t.log = T.log

theorem KInv.refl {T : State} (P : List Nat) (h : HeapInv T) : KInv T P T :=
  ⟨Quiet.refl T, h, fun _ hm => Or.inl hm, rfl, rfl⟩

theorem KInv.mhas {T t t' : State} {P : List Nat} {n : Nat} {r : Except Panic Unit} (k : KInv T P t)
    (h : (maybeHandleAfterStabilisation n).run.run t = (r, t')) : KInv T P t' := by
  have q : Quiet t t' := (Step.Pres.maybeHandleAfterStabilisation n).h _ _ _ h
  rcases mhas_cases h with rfl | rfl
  · exact k
  · refine ⟨k.q.trans q, k.heap.quiet_same q rfl (hasMarked_heightInRch n t), fun m hm => ?_, k.qsize, k.log⟩
    apply k.only m
    unfold Node.inRch at hm ⊢
    rw [hasMarked_heightInRch] at hm
    exact hm

theorem KInv.inserted {env : Env} {T t : State} {P : List Nat} {p : Nat} {na : Node} (k : KInv T P t)
    (hp : ParentOK env T p) (hmem : p ∈ P) (hna : t.nodes[p]? = some na) (hnot : na.inRch = false)
    (h0 : 0 ≤ na.height) (hmax : na.height ≤ t.rch.maxAllowed) :
    KInv T P (inserted p na.height t) := by
  refine ⟨k.q.trans (Quiet.inserted p na.height t h0),
    k.heap.inserted hna hnot h0 hmax (hp.quiet k.q).nec, fun m hm => ?_, ?_, k.log⟩
  rotate_left
  · show (t.rch.queues.modify na.height.toNat (· ++ [p])).size = T.rch.queues.size
    rw [Array.size_modify]; exact k.qsize
  rcases (inserted_inRch p na.height t (lt_of_some hna) h0 m).1 hm with rfl | hm
  · exact Or.inr hmem
  · exact k.only m hm

theorem KInv.withMinHeight {T t : State} {P : List Nat} (k : KInv T P t) :
    KInv T P (withMinHeight t) :=
  ⟨k.q.trans (Quiet.of_eq rfl rfl rfl rfl rfl rfl rfl rfl rfl), k.heap.withMinHeight,
   fun m hm => k.only m hm, k.qsize, k.log⟩

/-- the notification part of a propagating `maybe_change_value_manual`, in terms of the state `T` in
which it starts (value stored, `changedAt` stamped): heap invariant kept, only parents queued, and
the handed-over parent is not queued and a one-argument map or not above the heap's minimum -/
theorem mcvm_heap {env : Env} {fuel n : Nat} {o : Option Val} {T0 s' : State} {r : Option Nat}
    (hi : HeapInv (touched n T0))
    (hpar : ∀ p, p ∈ ((touched n T0).nodeD n).parents.map (·.1) → ParentOK env (touched n T0) p)
    (h : (maybeChangeValueManual env fuel n o true true).run.run T0 = (.ok r, s')) :
    KInv (touched n T0) (((touched n T0).nodeD n).parents.map (·.1)) s' ∧
    ∀ p, r = some p → p ∈ ((touched n T0).nodeD n).parents.map (·.1) ∧
      (s'.nodeD p).inRch = false ∧
      ((∃ f args, ((touched n T0).nodeD p).kind = .map f args ∧ args.length ≤ 1) ∨
        ∀ m, (s'.nodeD m).inRch = true →
          ((touched n T0).nodeD p).height ≤ ((touched n T0).nodeD m).height) := by
  generalize hT : touched n T0 = T at hi hpar ⊢
  generalize hP : (T.nodeD n).parents.map (·.1) = P at hpar ⊢
  unfold maybeChangeValueManual at h
  simp only [Bool.not_true, Bool.false_eq_true, if_false, if_true, run_bind_get, run_bind_modNode,
    run_bind_bumpCounter] at h
  obtain ⟨u, s1, h1, h2⟩ := bind_ok_inv h
  have h1' : (maybeHandleAfterStabilisation n).run.run T = (.ok u, s1) := by rw [← hT]; exact h1
  have k1 : KInv T P s1 := (KInv.refl P hi).mhas h1'
  obtain ⟨nd1, s1', hg, h3⟩ := bind_ok_inv h2
  obtain ⟨rfl, hnd1⟩ := getNode_ok_inv hg
  have hpar1 : nd1.parents = (T.nodeD n).parents := by
    have := (k1.q.node n).parents
    rw [nodeD_of_some hnd1] at this
    exact this
  rw [hpar1] at h3
  rcases hps : (T.nodeD n).parents with _ | ⟨⟨p0, ci0⟩, rest⟩
  · rw [hps] at h3
    obtain ⟨rfl, rfl⟩ := pure_ok_inv h3
    exact ⟨k1, fun p hp => by cases hp⟩
  rw [hps] at h3 hP
  dsimp only at h3
  obtain ⟨u2, s2, hloop, hlast⟩ := bind_ok_inv h3
  have hmem0 : p0 ∈ P := by rw [← hP]; simp
  have hmemr : ∀ a, a ∈ rest → a.1 ∈ P := by
    intro a ha; rw [← hP]; exact List.mem_cons_of_mem _ (List.mem_map_of_mem ha)
  -- the loop over the other parents
  have k2 : KInv T P s2 := by
    refine forIn_ok_keep (KInv T P) _ rest ?_ s1' _ s2 k1 hloop
    intro a ha t r t' k hb
    obtain ⟨p, ci⟩ := a
    have hpT := hpar p (hmemr _ ha)
    have hpt := hpT.quiet k.q
    obtain ⟨_, t1, hcc, hb1⟩ := bind_ok_inv hb
    have hpn := some_of_lt hpt.lt
    obtain rfl := childChanged_static hpn hpt.valid hpt.kind hcc
    rw [run_bind_get] at hb1
    obtain ⟨na, hna, hb4⟩ := bind_getNode_inv (bind_dassert_inv hb1)
    split at hb4
    · rename_i hin
      obtain ⟨_, t5, hins, hb5⟩ := bind_ok_inv hb4
      obtain ⟨rfl, rfl⟩ := pure_ok_inv hb5
      obtain ⟨nd, hnd, h0, hmax, rfl⟩ := rchInsert_ok_inv hins
      rw [hna] at hnd; cases hnd
      exact k.inserted hpT (hmemr _ ha) hna (by simpa using hin) h0 hmax
    · obtain ⟨rfl, rfl⟩ := pure_ok_inv hb4
      exact k
  -- the first parent
  have hp0T := hpar p0 hmem0
  have hp0 := hp0T.quiet k2.q
  obtain ⟨_, s3, hcc, hl1⟩ := bind_ok_inv hlast
  have hpn0 := some_of_lt hp0.lt
  obtain rfl := childChanged_static hpn0 hp0.valid hp0.kind hcc
  rw [run_bind_get] at hl1
  obtain ⟨nd0, hnd0, hl4⟩ := bind_getNode_inv (bind_dassert_inv hl1)
  have e0 : s3.nodeD p0 = nd0 := nodeD_of_some hnd0
  split at hl4
  · rename_i hin
    have hnot : nd0.inRch = false := by simpa using hin
    obtain ⟨b, s4, hpi, hl5⟩ := bind_ok_inv hl4
    have hv0 : nd0.valid = true := by rw [← e0]; exact hp0.valid
    have hk0 : StaticKind env nd0.kind := by rw [← e0]; exact hp0.kind
    rcases picrn_static hnd0 hv0 hk0 hpi with ⟨rfl, rfl, hyes⟩ | ⟨rfl, h0, hmax, rfl⟩
    · simp only [if_true] at hl5
      obtain ⟨rfl, rfl⟩ := pure_ok_inv hl5
      refine ⟨k2.withMinHeight, fun p hp => ?_⟩
      cases hp
      refine ⟨hmem0, ?_, ?_⟩
      · show (s3.nodeD p0).inRch = false
        rw [e0]; exact hnot
      · rcases hyes with ⟨f, args, hk, hl⟩ | hle
        · left
          refine ⟨f, args, ?_, hl⟩
          rw [← (k2.q.node p0).kind, e0]; exact hk
        · right
          intro m hm
          have hm' : (s3.nodeD m).inRch = true := hm
          have := minHeightOf_le k2.heap hm'
          rw [← (k2.q.node p0).height, ← (k2.q.node m).height, e0]
          omega
    · simp only [Bool.false_eq_true, if_false] at hl5
      obtain ⟨rfl, rfl⟩ := pure_ok_inv hl5
      refine ⟨k2.withMinHeight.inserted hp0T hmem0 (by exact hnd0) hnot h0 hmax,
        fun p hp => by cases hp⟩
  · obtain ⟨rfl, rfl⟩ := pure_ok_inv hl4
    exact ⟨k2, fun p hp => by cases hp⟩

/-! ## states that differ from `s` only in non-structural, non-heap fields of node `n` -/

/-! ## the cutoff's verdict only depends on the node's cutoff, value, `changedAt` and the `changedAt` of other nodes -/

theorem getElem?_eq_nodeD (s : State) (i : Nat) :
    s.nodes[i]? = if i < s.nodes.size then some (s.nodeD i) else none := by
  split
  · rename_i h; exact some_of_lt h
  · rename_i h; exact Array.getElem?_eq_none (by omega)

theorem cutoffVerdict_congr (env : Env) {s S : State} {n : Nat} (hsz : S.nodes.size = s.nodes.size)
    (hcut : (S.nodeD n).cutoff = (s.nodeD n).cutoff)
    (hch : ∀ m, (S.nodeD m).changedAt = (s.nodeD m).changedAt) (old new : Val) :
    cutoffVerdict env S n old new = cutoffVerdict env s n old new := by
  unfold cutoffVerdict
  rw [hcut]
  cases (s.nodeD n).cutoff <;> try rfl
  rename_i i
  simp only [getElem?_eq_nodeD, hsz]
  split
  · simp only [Option.map_some, hch]
  · rfl

theorem cutoffLog_congr (env : Env) {s S : State} {n : Nat}
    (hcut : (S.nodeD n).cutoff = (s.nodeD n).cutoff) (old new : Val) :
    cutoffLog env S n old new = cutoffLog env s n old new := by
  unfold cutoffLog; rw [hcut]

theorem mcvChanges_congr (env : Env) {s S : State} {n : Nat} (hsz : S.nodes.size = s.nodes.size)
    (hcut : (S.nodeD n).cutoff = (s.nodeD n).cutoff) (hval : (S.nodeD n).value = (s.nodeD n).value)
    (hch : ∀ m, (S.nodeD m).changedAt = (s.nodeD m).changedAt) (new : Val) :
    mcvChanges env S n new = mcvChanges env s n new := by
  unfold mcvChanges
  rw [hval]
  cases (s.nodeD n).value with
  | none => rfl
  | some old => simp only [cutoffVerdict_congr env hsz hcut hch]

theorem mcvLog_congr (env : Env) {s S : State} {n : Nat}
    (hcut : (S.nodeD n).cutoff = (s.nodeD n).cutoff) (hval : (S.nodeD n).value = (s.nodeD n).value)
    (new : Val) : mcvLog env S n new = mcvLog env s n new := by
  unfold mcvLog
  rw [hval]
  cases (s.nodeD n).value with
  | none => rfl
  | some old => simp only [cutoffLog_congr env hcut]

/-- "suppressed": there was an old value; for an exact cutoff it equals the new one -/
theorem mcvChanges_false {env : Env} {s : State} {n : Nat} {v : Val}
    (h : mcvChanges env s n v = some false) :
    ∃ old, (s.nodeD n).value = some old ∧ cutoffVerdict env s n old v = some true ∧
      (ExactCut (s.nodeD n).cutoff → old = v) := by
  unfold mcvChanges at h
  cases hv : (s.nodeD n).value with
  | none => rw [hv] at h; cases h
  | some old =>
    rw [hv] at h
    simp only at h
    have hcv : cutoffVerdict env s n old v = some true := by
      cases hc : cutoffVerdict env s n old v with
      | none => rw [hc] at h; cases h
      | some b => rw [hc] at h; cases b <;> simp at h ⊢
    refine ⟨old, rfl, hcv, fun hx => ?_⟩
    unfold cutoffVerdict at hcv
    cases hk : (s.nodeD n).cutoff <;> rw [hk] at hx hcv <;> try exact hx.elim
    · cases hcv
    · simpa using hcv

/-! ## assembling `StepRel` -/

/-- assembling `StepRel` from a state `X` of the `Upd` family and notification work after it -/
theorem stepRel_of_quiet {env : Env} {n : Nat} {v : Val} {ch : Bool} {r : Option Nat} {s X s' : State}
    (hU : Upd n s X) (q : Quiet X s')
    (hv : (X.nodeD n).value = some v) (hr : (X.nodeD n).recomputedAt = s.stabNum)
    (hc : (X.nodeD n).changedAt = if ch = true then s.stabNum else (s.nodeD n).changedAt)
    (verdict : mcvChanges env s n v = some ch)
    (unch : ch = false → r = none)
    (log : ∃ evs, s'.log = mcvLog env s n v ++ (evs ++ s.log) ∧ ∀ e, e ∈ evs → IsInvOf n e)
    (heap : HeapInv s') (hqs : s'.rch.queues.size = X.rch.queues.size)
    (newIn : ∀ m, (s'.nodeD m).inRch = true →
      (X.nodeD m).inRch = true ∨ (ch = true ∧ m ∈ (s.nodeD n).parents.map (·.1)))
    (parentsIn : ch = true → ∀ p, p ∈ (s.nodeD n).parents.map (·.1) →
      (s'.nodeD p).inRch = true ∨ r = some p)
    (ret : ∀ p, r = some p → ch = true ∧ p ∈ (s.nodeD n).parents.map (·.1) ∧
      (s'.nodeD p).inRch = false ∧
      ((∃ f args, (X.nodeD p).kind = .map f args ∧ args.length ≤ 1) ∨
        ∀ m, (s'.nodeD m).inRch = true → (X.nodeD p).height ≤ (X.nodeD m).height)) :
    StepRel env n v ch r s s' where
  size := q.size.trans hU.size
  vars := q.vars.trans hU.vars
  stabNum := q.stabNum.trans hU.stabNum
  pc := q.pc hU.pc
  qsize := by rw [hqs, hU.rch]
  other m hm := by have := q.node m; rw [hU.other m hm] at this; exact this
  shape := hU.shape.trans (SameShape.of_nodeSame (q.node n))
  value := (q.node n).value.trans hv
  recomputedAt := (q.node n).recomputedAt.trans hr
  changedAt := (q.node n).changedAt.trans hc
  verdict := verdict
  unch hch := by
    rw [hch] at verdict
    obtain ⟨old, h1, -, h3⟩ := mcvChanges_false verdict
    exact ⟨⟨old, h1, h3⟩, unch hch⟩
  log := log
  heap := heap
  newIn m hm := by
    rcases newIn m hm with h | h
    · left; rw [← hU.inRch m]; exact h
    · exact Or.inr h
  parentsIn := parentsIn
  ret p hp := by
    obtain ⟨h1, h2, h3, h4⟩ := ret p hp
    refine ⟨h1, h2, h3, ?_⟩
    rcases h4 with ⟨f, args, hk, hl⟩ | h4
    · left; exact ⟨f, args, by rw [← (hU.shapeAll p).kind]; exact hk, hl⟩
    · right
      intro m hm
      have := h4 m hm
      rw [(hU.shapeAll p).height, (hU.shapeAll m).height] at this
      exact this

/-! ## `maybe_change_value` in the static fragment, any cutoff -/

/-- the common part: `maybe_change_value n v` run in a state `S0` that is `s` with `n`'s
`recomputedAt` stamped (and log/counters moved) -/
theorem mcv_static {env : Env} {fuel n : Nat} {v : Val} {s S0 s' : State} {r : Option Nat}
    (g : Graph env s) (hi : HeapInv s) (hn : s.isNecessary n = true)
    (hU : Upd n s S0) (hval : (S0.nodeD n).value = (s.nodeD n).value)
    (hrec : (S0.nodeD n).recomputedAt = s.stabNum)
    (hch : (S0.nodeD n).changedAt = (s.nodeD n).changedAt)
    (hlog : ∃ evs, S0.log = evs ++ s.log ∧ ∀ e, e ∈ evs → IsInvOf n e)
    (h : (maybeChangeValue env fuel n v).run.run S0 = (.ok r, s')) :
    ∃ ch, StepRel env n v ch r s s' := by
  obtain ⟨hlt, _, _, _⟩ := g.nec n hn
  have hlt0 : n < S0.nodes.size := by rw [hU.size]; exact hlt
  have hn0 := some_of_lt hlt0
  have hchAll : ∀ m, (S0.nodeD m).changedAt = (s.nodeD m).changedAt := by
    intro m
    by_cases hm : m = n
    · subst hm; exact hch
    · rw [hU.other m hm]
  have eV : mcvChanges env S0 n v = mcvChanges env s n v :=
    mcvChanges_congr env hU.size hU.shape.cutoff hval hchAll v
  have eL : mcvLog env S0 n v = mcvLog env s n v := mcvLog_congr env hU.shape.cutoff hval v
  obtain ⟨evs, hevs, hinv⟩ := hlog
  -- the state with the new value stored
  generalize hW : setValue n (some v) (logged (mcvLog env S0 n v) S0) = W
  have hUW : Upd n s W := by rw [← hW]; exact (hU.logged _).setValue _
  have eW : W.nodeD n = { S0.nodeD n with value := some v } := by
    rw [← hW, setValue_nodeD, if_pos ⟨rfl, hlt0⟩]; rfl
  have hWlog : W.log = mcvLog env s n v ++ (evs ++ s.log) := by
    rw [← hW, ← eL, ← hevs]; rfl
  cases hd : mcvChanges env S0 n v with
  | none =>
    rw [mcv_run' env fuel n v S0 _ hn0 hU.pc, hd] at h
    cases h
  | some d =>
    cases d with
    | true =>
      -- propagate
      rw [mcv_run' env fuel n v S0 _ hn0 hU.pc, hd] at h
      dsimp only at h
      rw [hW] at h
      have hltW : n < W.nodes.size := by rw [hUW.size]; exact hlt
      have q : Quiet (touched n W) s' := mcvm_true_quiet _ _ _ _ _ _ _ _ h
      have hUT : Upd n s (touched n W) := hUW.touched
      have eT : (touched n W).nodeD n = { W.nodeD n with changedAt := W.stabNum } := by
        rw [touched_nodeD, if_pos ⟨rfl, hltW⟩]
      have hparT : ((touched n W).nodeD n).parents = (s.nodeD n).parents := hUT.shape.parents
      have hpar : ∀ p, p ∈ ((touched n W).nodeD n).parents.map (·.1) →
          ParentOK env (touched n W) p := by
        intro p hp
        rw [hparT] at hp
        obtain ⟨⟨p', ci⟩, hmem, rfl⟩ := List.mem_map.1 hp
        have hpn := (g.parent n p' ci hmem).1
        obtain ⟨h1, h2, h3, _⟩ := g.nec p' hpn
        have sh := hUT.shapeAll p'
        exact ⟨by rw [hUT.size]; exact h1, by rw [sh.valid]; exact h2, by rw [sh.kind]; exact h3,
          by rw [hUT.nec]; exact hpn⟩
      obtain ⟨k, hret⟩ := mcvm_heap (hUT.heap hi) hpar h
      have hpin := mcvm_parents env fuel n _ W s' r _ (some_of_lt hltW) h
      have hparW : (W.nodeD n).parents = (s.nodeD n).parents := hUW.shape.parents
      refine ⟨true, stepRel_of_quiet hUT q ?_ ?_ ?_ (by rw [← eV]; exact hd) (fun hc => by cases hc)
        ⟨evs, by rw [k.log]; exact hWlog, hinv⟩ k.heap k.qsize ?_ ?_ ?_⟩
      · rw [eT, eW]
      · rw [eT, eW]; exact hrec
      · rw [eT, if_pos rfl]; exact hUW.stabNum
      · intro m hm
        rcases k.only m hm with h1 | h1
        · exact Or.inl h1
        · rw [hparT] at h1; exact Or.inr ⟨rfl, h1⟩
      · intro _ p hp
        rw [← hparW] at hp
        rcases hpin p hp with h1 | h1
        · exact Or.inl h1.2
        · exact Or.inr h1.2.1
      · intro p hp
        obtain ⟨h1, h2, h3⟩ := hret p hp
        rw [hparT] at h1
        exact ⟨rfl, h1, h2, h3⟩
    | false =>
      -- suppress
      rw [mcv_suppress env fuel n v S0 _ hn0 hU.pc hd, hW] at h
      cases h
      refine ⟨false, stepRel_of_quiet hUW (Quiet.refl _) ?_ ?_ ?_ (by rw [← eV]; exact hd) (fun _ => rfl)
        ⟨evs, hWlog, hinv⟩ (hUW.heap hi) rfl (fun m hm => Or.inl hm) (fun hc => by cases hc)
        (fun p hp => by cases hp)⟩
      · rw [eW]
      · rw [eW]; exact hrec
      · rw [eW, if_neg (by simp)]; exact hch

theorem isInvOf_inv (what : String) (n : Nat) (args : List Val) (res : String) :
    IsInvOf n (.inv what n args res) := rfl

/-! ## the theorem -/

/-- a successful `recomputeOne` on a necessary node of a static graph whose children all have values:
it stores the target value `v` of the node's defining expression and is described by `StepRel` -/
theorem recomputeOne_static {env : Env} {fuel n : Nat} {s s' : State} {r : Option Nat}
    (g : Graph env s) (hi : HeapInv s) (hn : s.isNecessary n = true)
    (hvals : ∃ vals, plainVals s (kids (s.nodeD n).kind) = some vals)
    (h : (recomputeOne env fuel n).run.run s = (.ok r, s')) :
    ∃ v ch, Target env s n v ∧ StepRel env n v ch r s s' := by
  obtain ⟨hlt, hv, hk, _⟩ := g.nec n hn
  have hnn := some_of_lt hlt
  have hU := Upd.started n s g.pc
  have e1 : ((started n s).nodeD n).value = (s.nodeD n).value := by
    rw [started_nodeD]; split <;> rfl
  have e2 : ((started n s).nodeD n).recomputedAt = s.stabNum := by
    rw [started_nodeD, if_pos ⟨rfl, hlt⟩]
  have e3 : ((started n s).nodeD n).changedAt = (s.nodeD n).changedAt := by
    rw [started_nodeD]; split <;> rfl
  have l0 : ∃ evs, (started n s).log = evs ++ s.log ∧ ∀ e, e ∈ evs → IsInvOf n e :=
    ⟨[], rfl, fun _ h => by cases h⟩
  have l1 : ∀ ev, IsInvOf n ev →
      ∃ evs, (logged [ev] (started n s)).log = evs ++ s.log ∧ ∀ e, e ∈ evs → IsInvOf n e := by
    intro ev hev
    refine ⟨[ev], rfl, fun e he => ?_⟩
    rw [List.mem_singleton] at he; rw [he]; exact hev
  obtain ⟨vals, hvals⟩ := hvals
  have hvo := g.valuesOf hn
  rw [hvals] at hvo
  cases hkd : (s.nodeD n).kind with
  | const w =>
    rw [recomputeOne_const_run env fuel n s _ w hnn hv hkd] at h
    obtain ⟨ch, hs⟩ := mcv_static g hi hn hU e1 e2 e3 l0 h
    exact ⟨w, ch, by simp only [Target, hkd], hs⟩
  | var c =>
    obtain ⟨vc, hvc⟩ := g.var n c hn hkd
    rw [recomputeOne_var_run env fuel n s _ c vc hnn hv hkd hvc] at h
    obtain ⟨ch, hs⟩ := mcv_static g hi hn hU e1 e2 e3 l0 h
    exact ⟨vc.value, ch, by simp only [Target, hkd]; exact ⟨vc, hvc, rfl⟩, hs⟩
  | map f args =>
    rw [hkd] at hk hvals hvo
    have ht : Target env s n (env.fn f vals) := by
      simp only [Target, hkd]; exact ⟨vals, hvals, rfl⟩
    by_cases hf : f < fnZip
    · rw [recomputeOne_map_run env fuel n s _ f args vals hnn hv hkd hf hvo (hk.2 hf vals) g.pc] at h
      obtain ⟨ch, hs⟩ := mcv_static g hi hn (hU.logged _) e1 e2 e3 (l1 _ (isInvOf_inv _ _ _ _)) h
      exact ⟨_, ch, ht, hs⟩
    · rw [recomputeOne_mapBuiltin_run env fuel n s _ f args vals hnn hv hkd hf hk.1 hvo] at h
      obtain ⟨ch, hs⟩ := mcv_static g hi hn hU e1 e2 e3 l0 h
      exact ⟨_, ch, ht, hs⟩
  | fold f init cs =>
    rw [hkd] at hvals hvo
    have ht : Target env s n (vals.foldl (env.foldStep f) init) := by
      simp only [Target, hkd]; exact ⟨vals, hvals, rfl⟩
    rw [recomputeOne_fold_run env fuel n s _ f init cs vals hnn hv hkd hvo g.pc] at h
    obtain ⟨ch, hs⟩ := mcv_static g hi hn (hU.logged _) e1 e2 e3 (l1 _ (isInvOf_inv _ _ _ _)) h
    exact ⟨_, ch, ht, hs⟩
  | mapRef _ _ => rw [hkd] at hk; exact hk.elim
  | mapWithOld _ _ => rw [hkd] at hk; exact hk.elim
  | bindLhsChange _ => rw [hkd] at hk; exact hk.elim
  | bindMain _ _ => rw [hkd] at hk; exact hk.elim
  | expert _ => rw [hkd] at hk; exact hk.elim

end IncrVerif.Proofs.CutH
