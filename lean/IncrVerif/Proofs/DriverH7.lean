import IncrVerif.Proofs.DriverH1
import IncrVerif.Proofs.DriverH3
import IncrVerif.Proofs.ExpertH60
/-!
# Drivers, `expert_add_dependency` between two effects, part 1: frames, and the UNNECESSARY expert node

* `NF s s'`: the node/state part of `EF` (on real states), with the three ways the tail of the call produces it
  (`NF.of_cframe`: linking cascade; `NF.of_hrel`: `adjustHeights`; `NF.inserted`: `rchInsert`).
* `ef_added`: the bookkeeping step `addedState` followed by anything with frames `NF`, `XF` (and `XS` for the whole call)
  is `EF (· = e)`, with the record facts of `AddSpec`.
* `mid_added`: `Mid` after such a tail.
* `addSpec_unnec`: the contract of `AddSpec` when the expert node is not necessary.
-/
namespace IncrVerif.Proofs.DriverH
open IncrVerif.Engine IncrVerif.Driver IncrVerif.Proofs IncrVerif.Proofs.Step IncrVerif.Proofs.Sched
open IncrVerif.Proofs.ExpertH IncrVerif.Proofs.ExpertH.QR IncrVerif.Proofs.Xp

/-! ## the node/state part of `EF` -/

structure NF (s s' : State) : Prop where
  size : s'.nodes.size = s.nodes.size
  node : ∀ m, nodeKey (s'.nodeD m) = nodeKey (s.nodeD m)
  key : eKey s' = eKey s
  nec : ∀ m, s.isNecessary m = true → s'.isNecessary m = true

theorem NF.refl (s : State) : NF s s := ⟨rfl, fun _ => rfl, rfl, fun _ h => h⟩
theorem NF.trans {a b c : State} (h1 : NF a b) (h2 : NF b c) : NF a c :=
  ⟨h2.size.trans h1.size, fun m => (h2.node m).trans (h1.node m), h2.key.trans h1.key,
    fun m h => h2.nec m (h1.nec m h)⟩

theorem NF.num {s s' : State} (h : NF s s') (m : Nat) :
    (s'.nodeD m).numOnUpdateHandlers = (s.nodeD m).numOnUpdateHandlers := by
  have := h.node m; simp only [nodeKey, Prod.mk.injEq] at this; exact this.2.2.2.2.2.2.2.2.2

/-- a cascade (frame `CFrame` on the real states) that leaves `propagateInvalidity` and `handleAfterStab` alone -/
theorem NF.of_cframe {s s' : State} (h : CFrame s s') (hp : s'.propagateInvalidity = s.propagateInvalidity)
    (hh : s'.handleAfterStab = s.handleAfterStab) (hpc : s'.panicCountdown = s.panicCountdown)
    (hn : ∀ m, s.isNecessary m = true → s'.isNecessary m = true) : NF s s' := by
  refine ⟨h.size, h.node, ?_, hn⟩
  have := h.key
  simp only [stateKey, Prod.mk.injEq] at this
  obtain ⟨h1, h2, h3, h4, h5, h6, h7, h8, h9, h10, h11, h12, -, h14, h15, -, h17, -, -⟩ := this
  simp only [eKey, Prod.mk.injEq]
  exact ⟨h1, h17, h3, h4, h5, h6, h2, h9, h10, h11, h7, h8, hh, hp, h12, h14, h15, hpc⟩

/-- `adjustHeights`: `HRel` of the virtual states, kinds and own stamps of the real nodes -/
theorem NF.of_hrel {s s' : State} (hr : HRel (virt s) (virt s'))
    (hk : ∀ m, (s'.nodeD m).kind = (s.nodeD m).kind)
    (hrec : ∀ m, (s'.nodeD m).recomputedAt = (s.nodeD m).recomputedAt) : NF s s' := by
  refine ⟨by have := hr.size; rwa [virt_size, virt_size] at this, fun m => ?_, ?_,
    fun m h => by have := hr.nec m; rw [virt_isNecessary, virt_isNecessary] at this; rw [this]; exact h⟩
  · have := hr.node m
    rw [virt_nodeD, virt_nodeD] at this
    simp only [nodeKey, Prod.mk.injEq] at this ⊢
    obtain ⟨-, h2, h3, h4, h5, -, h7, h8, h9, h10⟩ := this
    exact ⟨hk m, h2, h3, h4, h5, hrec m, h7, h8, h9, h10⟩
  · obtain ⟨m1, m2, m3, m4, m5, m6, m7⟩ := hr.misc
    simp only [eKey, Prod.mk.injEq]
    exact ⟨hr.vars, hr.binds, hr.stabNum, hr.status, hr.cfg, hr.scope, hr.observers, m3, m4, m5, m1, m2, m6,
      hr.pinv, hr.top, m7, hr.qsize, hr.pc⟩

theorem NF.inserted (n : Nat) (x : Int) (s : State) : NF s (inserted n x s) := by
  refine ⟨Array.size_modify .., fun m => ?_, ?_, fun m h => ?_⟩
  · rw [inserted_nodeD]; split <;> rfl
  · simp only [eKey, Prod.mk.injEq]
    exact ⟨rfl, rfl, rfl, rfl, rfl, rfl, rfl, rfl, rfl, rfl, rfl, rfl, rfl, rfl, rfl, rfl, Array.size_modify .., rfl⟩
  · simp only [State.isNecessary] at h ⊢
    rw [inserted_nodeD]; split
    · exact h
    · exact h

/-! ## the bookkeeping step followed by a framed tail -/

section
variable {E : Env} {s s' : State} {e c : Nat} {cb : Bool} {er : ExpertRec}

theorem addedState_xsize : (addedState e er c cb s).experts.size = s.experts.size := by
  simp [IncrVerif.Proofs.ExpertH.addedState, putExpert, bumpDep]

/-- the frame and the record facts of `AddSpec` -/
theorem ef_added (hx : s.experts[e]? = some er) (nf : NF (addedState e er c cb s) s')
    (xf : XF (addedState e er c cb s) s') (xs : XS s s') :
    EF (fun e' => e' = e) s s' ∧ s'.nextDep = s.nextDep + 1 ∧
      (∃ er', s'.experts[e]? = some er' ∧ er'.children = er.children ++ [newEdge s c cb] ∧
        er'.script = er.script ∧ er'.sel = er.sel ∧ er'.forceStale = true) ∧
      (∀ m, s.isNecessary m = true → s'.isNecessary m = true) := by
  obtain ⟨er1, he1, -, -, hc1, -, hf1⟩ := xf.xrec (addedState_get (c := c) (cb := cb) hx)
  obtain ⟨er1', he1', hs1, hl1⟩ := xs.get hx
  rw [he1] at he1'; cases he1'
  refine ⟨⟨nf.size, nf.node, nf.key, xf.xsize.trans addedState_xsize, ?_, ?_, ?_, ?_⟩, xf.nextDep,
    ⟨er1, he1, hc1, hs1, hl1, hf1⟩, nf.nec⟩
  · intro e' er0 he0
    by_cases h : e' = e
    · subst h
      rw [hx] at he0; cases he0
      obtain ⟨er2, he2, f2, n2, -, p2, -⟩ := xf.xrec (addedState_get (c := c) (cb := cb) hx)
      exact ⟨er2, he2, f2, n2, p2⟩
    · have : (addedState e er c cb s).experts[e']? = some er0 := by rw [addedState_get_ne h]; exact he0
      obtain ⟨er2, he2, f2, n2, -, p2, -⟩ := xf.xrec this
      exact ⟨er2, he2, f2, n2, p2⟩
  · intro e' er0 er2 hD he0 he2
    have : (addedState e er c cb s).experts[e']? = some er0 := by rw [addedState_get_ne hD]; exact he0
    obtain ⟨er3, he3, -, -, c3, -, f3⟩ := xf.xrec this
    rw [he2] at he3; cases he3
    obtain ⟨er4, he4, s4, l4⟩ := xs.get he0
    rw [he2] at he4; cases he4
    simp only [recK, Prod.mk.injEq]
    exact ⟨c3, f3, s4, l4⟩
  · intro e' er0 er2 he0 he2
    by_cases h : e' = e
    · subst h
      rw [he1] at he2; cases he2
      exact Or.inr hf1
    · have : (addedState e er c cb s).experts[e']? = some er0 := by rw [addedState_get_ne h]; exact he0
      obtain ⟨er3, he3, -, -, c3, -, f3⟩ := xf.xrec this
      rw [he2] at he3; cases he3
      exact Or.inl ⟨c3, f3⟩
  · rw [xf.nextDep]; exact Nat.le_succ _

/-- `Mid` after the tail -/
theorem mid_added {rk' : Nat → Nat} (M : Mid E s) (hx : s.experts[e]? = some er)
    (nf : NF (addedState e er c cb s) s') (xf : XF (addedState e er c cb s) s') (fr : Fr s')
    (hA : AhhEmpty s') (S : Struct (virtEnv E) rk' (virt s')) : Mid E s' :=
  ⟨(M.frag.added (c := c) (cb := cb) hx).of_xf xf fr, hA, ⟨rk', S⟩, fr.pinv,
    fun m => by rw [nf.num m]; exact M.handlers m⟩

end

/-! ## the node is not necessary -/

theorem addSpec_unnec {E : Env} {s s' : State} {fuel n c e dep : Nat} {cb : Bool} {nd : Node} {er : ExpertRec}
    (M : Mid E s) (hx : IsExpert s n nd e er) (hnec : nd.isNecessary = false)
    (hc : c < s.nodes.size) (hacyc : ¬ ExpertH.Below s c n)
    (h : (expertAddDependency E fuel n c cb).run.run s = (.ok dep, s')) :
    Mid E s' ∧ EF (fun e' => e' = e) s s' ∧ dep = s.nextDep ∧ s'.nextDep = s.nextDep + 1 ∧
      (∃ er', s'.experts[e]? = some er' ∧ er'.children = er.children ++ [newEdge s c cb] ∧
        er'.script = er.script ∧ er'.sel = er.sel ∧ er'.forceStale = true) ∧
      (∀ m, s.isNecessary m = true → s'.isNecessary m = true) := by
  have F := M.frag
  obtain ⟨rk, Q⟩ := M.st
  have hD : s.nodeD n = nd := nodeD_of_some hx.node
  have hk : (s.nodeD n).kind = .expert e := by rw [hD]; exact hx.kind
  have xs : XS s s' := (PresS.expertAddDependency E fuel n c cb).h _ _ _ h
  rw [expertAddDependency_unnecessary E fuel n c cb hx hnec] at h
  have e' : s' = addedState e er c cb s := by cases h; rfl
  have hdep : dep = s.nextDep := by cases h; rfl
  subst e'
  obtain ⟨rk', A2⟩ := allStatic_added (cb := cb) F Q.static hk hx.xrec hc hacyc
  have R := rekind_added (c := c) (cb := cb) F hk hx.xrec
  have hn : (virt s).isNecessary n = false := by
    rw [virt_isNecessary]; simp only [State.isNecessary, hD]; exact hnec
  have S' : Struct (virtEnv E) rk' (virt (addedState e er c cb s)) := GInv.rekind_unnec Q R A2 hn
  have F2 : XFrag E (addedState e er c cb s) := F.added hx.xrec
  have fr2 : Fr (addedState e er c cb s) := F2.fr M.pinv
  obtain ⟨ef, hnd, hrec⟩ := ef_added (c := c) (cb := cb) hx.xrec (NF.refl _) (XF.refl _) xs
  exact ⟨mid_added M hx.xrec (NF.refl _) (XF.refl _) fr2 (ahhEmpty_of_ahf M.ahh (AhF.of_nodes rfl rfl)) S',
    ef, hdep, hnd, hrec⟩

end IncrVerif.Proofs.DriverH
