import IncrVerif.Proofs.FaultH1
/-!
# Faults in whole histories, part 1: the commutation ladder (heap, heights, necessity cascades, unlinking,
notification walk, observers, variables).  Obtained from `TidyH10`, `TidyH11`.
-/
namespace IncrVerif.Proofs.FaultH
open IncrVerif.Engine IncrVerif.Proofs IncrVerif.Proofs.Step

variable {env : Env}


section
macro_rules | `(tactic| csim_leaf) => `(tactic| with_reducible exact Comm.dassert _ _)
macro_rules | `(tactic| csim_leaf) => `(tactic| with_reducible exact Comm.assertM _ _)
macro_rules | `(tactic| csim_leaf) => `(tactic| ((with_reducible refine Comm.modNode _ ?_); intro nd; exact ⟨rfl, rfl, rfl⟩))

theorem Comm.addParent (c i p : Nat) : Comm env (Engine.addParent c i p) := by
  intro c s; unfold Engine.addParent; csim
macro_rules | `(tactic| csim_leaf) => `(tactic| with_reducible exact Comm.addParent _ _ _)

theorem Comm.setHeight (n : Nat) (h : Int) : Comm env (Engine.setHeight n h) := by
  intro c s; unfold Engine.setHeight; csim
macro_rules | `(tactic| csim_leaf) => `(tactic| with_reducible exact Comm.setHeight _ _)


theorem Comm.rchLink (n : Nat) : Comm env (Engine.rchLink n) := by
  intro c s; unfold Engine.rchLink; csim
macro_rules | `(tactic| csim_leaf) => `(tactic| with_reducible exact Comm.rchLink _)

theorem Comm.rchInsert (n : Nat) : Comm env (Engine.rchInsert n) := by
  intro c s; unfold Engine.rchInsert; csim
macro_rules | `(tactic| csim_leaf) => `(tactic| with_reducible exact Comm.rchInsert _)



/-- in the fragment there is no map_ref node: `markMapRefUnknown` does nothing, in both states -/
theorem Comm.markMapRefUnknown (fuel n : Nat) :
    Comm env (Engine.markMapRefUnknown fuel n) := by
  intro c s
  cases fuel with
  | zero => unfold Engine.markMapRefUnknown; exact CommAt.thr _
  | succ fuel =>
    unfold Engine.markMapRefUnknown
    csim
    csim_kind
macro_rules | `(tactic| csim_leaf) => `(tactic| with_reducible exact Comm.markMapRefUnknown _ _)

end


section
/-- loops: same list, bodies simulate each other -/
macro "csim_loop" : tactic =>
  `(tactic| ((with_reducible refine Comm.at (Comm.forIn _ (fun _ _ => ?_) _) _); intro _))

theorem Comm.getBind (b : Nat) : Comm env (Engine.getBind b) := by
  intro c s; unfold Engine.getBind; csim
  split <;> csim
macro_rules | `(tactic| csim_leaf) => `(tactic| with_reducible exact Comm.getBind _)

theorem Comm.getExpert (b : Nat) : Comm env (Engine.getExpert b) := by
  intro c s; unfold Engine.getExpert; csim
  split <;> csim
macro_rules | `(tactic| csim_leaf) => `(tactic| with_reducible exact Comm.getExpert _)


theorem Comm.modExpert (e : Nat) (f : ExpertRec → ExpertRec) : Comm env (Engine.modExpert e f) := by
  intro c s; unfold Engine.modExpert; csim
macro_rules | `(tactic| csim_leaf) => `(tactic| with_reducible exact Comm.modExpert _ _)


theorem Comm.scopeHeight (sc : Scope) : Comm env (Engine.scopeHeight sc) := by
  intro c s; unfold Engine.scopeHeight
  cases sc with
  | top => csim
  | bind b => csim
macro_rules | `(tactic| csim_leaf) => `(tactic| with_reducible exact Comm.scopeHeight _)

theorem Comm.scopeIsNecessary (sc : Scope) : Comm env (Engine.scopeIsNecessary sc) := by
  intro c s; unfold Engine.scopeIsNecessary
  cases sc with
  | top => csim
  | bind b => csim
macro_rules | `(tactic| csim_leaf) => `(tactic| with_reducible exact Comm.scopeIsNecessary _)

theorem Comm.handleAfterStabilisation (n : Nat) :
    Comm env (Engine.handleAfterStabilisation n) := by
  intro c s; unfold Engine.handleAfterStabilisation; csim
macro_rules | `(tactic| csim_leaf) => `(tactic| with_reducible exact Comm.handleAfterStabilisation _)

theorem Comm.maybeHandleAfterStabilisation (n : Nat) :
    Comm env (Engine.maybeHandleAfterStabilisation n) := by
  intro c s; unfold Engine.maybeHandleAfterStabilisation; csim
macro_rules | `(tactic| csim_leaf) => `(tactic| with_reducible exact Comm.maybeHandleAfterStabilisation _)


theorem Comm.link (env : Env) (fuel : Nat) :
    (∀ n, Comm env (becameNecessary env fuel n)) ∧
    (∀ c i p, Comm env (addParentWithoutAdjustingHeights env fuel c i p)) := by
  induction fuel with
  | zero =>
    constructor
    · intro n c s; unfold becameNecessary; csim
    · intro c0 i p c s; unfold addParentWithoutAdjustingHeights; csim
  | succ fuel ih =>
    constructor
    · intro n c s
      unfold becameNecessary
      csim
      all_goals first
        | exact ih.2 _ _ _ _ _
        | csim_kind
    · intro c0 i p c s
      unfold addParentWithoutAdjustingHeights
      csim
      all_goals first
        | exact ih.1 _ _ _
        | (exfalso; simp_all; done)
        | csim_kind
      all_goals csim_kind

end


section
theorem Comm.removeParent (c i p : Nat) : Comm env (Engine.removeParent c i p) := by
  intro c s; unfold Engine.removeParent; csim
  split <;> csim
macro_rules | `(tactic| csim_leaf) => `(tactic| with_reducible exact Comm.removeParent _ _ _)

theorem Comm.rchUnlink (n : Nat) : Comm env (Engine.rchUnlink n) := by
  intro c s; unfold Engine.rchUnlink; csim
  split <;> csim
  split <;> csim
  split <;> csim
macro_rules | `(tactic| csim_leaf) => `(tactic| with_reducible exact Comm.rchUnlink _)

theorem Comm.rchRemove (n : Nat) : Comm env (Engine.rchRemove n) := by
  intro c s; unfold Engine.rchRemove; csim
macro_rules | `(tactic| csim_leaf) => `(tactic| with_reducible exact Comm.rchRemove _)

theorem Comm.rchRemoveMin : Comm env Engine.rchRemoveMin := by
  intro c s; unfold Engine.rchRemoveMin; csim
  split <;> csim
macro_rules | `(tactic| csim_leaf) => `(tactic| with_reducible exact Comm.rchRemoveMin)

theorem Comm.rchMinHeight : Comm env Engine.rchMinHeight := by
  intro c s; unfold Engine.rchMinHeight; csim
macro_rules | `(tactic| csim_leaf) => `(tactic| with_reducible exact Comm.rchMinHeight)

theorem Comm.unlink (fuel : Nat) :
    (∀ n, Comm env (becameUnnecessary fuel n)) ∧
    (∀ n, Comm env (checkIfUnnecessary fuel n)) ∧
    (∀ n, Comm env (removeChildren fuel n)) := by
  induction fuel with
  | zero =>
    refine ⟨?_, ?_, ?_⟩
    · intro n c s; unfold becameUnnecessary; csim
    · intro n c s; unfold checkIfUnnecessary; csim
    · intro n c s; unfold removeChildren; csim
  | succ fuel ih =>
    refine ⟨?_, ?_, ?_⟩
    · intro n c s
      unfold becameUnnecessary
      csim
      all_goals first
        | exact ih.2.2 _ _ _
        | csim_kind
    · intro n c s
      unfold checkIfUnnecessary
      csim
      all_goals exact ih.1 _ _ _
    · intro n c s
      unfold removeChildren
      csim
      all_goals exact ih.2.1 _ _ _

theorem Comm.becameUnnecessary (fuel n : Nat) :
    Comm env (Engine.becameUnnecessary fuel n) := (Comm.unlink fuel).1 n
theorem Comm.checkIfUnnecessary (fuel n : Nat) :
    Comm env (Engine.checkIfUnnecessary fuel n) := (Comm.unlink fuel).2.1 n
theorem Comm.removeChildren (fuel n : Nat) :
    Comm env (Engine.removeChildren fuel n) := (Comm.unlink fuel).2.2 n
macro_rules | `(tactic| csim_leaf) => `(tactic| with_reducible exact Comm.becameUnnecessary _ _)
macro_rules | `(tactic| csim_leaf) => `(tactic| with_reducible exact Comm.checkIfUnnecessary _ _)
macro_rules | `(tactic| csim_leaf) => `(tactic| with_reducible exact Comm.removeChildren _ _)

theorem Comm.propagateInvalidity (fuel : Nat) :
    Comm env (Engine.propagateInvalidity fuel) := by
  intro c s hn r s' hr
  cases fuel with
  | zero => unfold Engine.propagateInvalidity at hr ⊢; exact CommAt.thr _ hn r s' hr
  | succ fuel =>
    unfold Engine.propagateInvalidity at hr ⊢
    rw [run_bind_get] at hr ⊢
    have e : (setCd c s).propagateInvalidity = [] := hn.pinv
    rw [hn.pinv] at hr
    rw [e]
    cases hr
    exact ⟨rfl, hn, rfl⟩
macro_rules | `(tactic| csim_leaf) => `(tactic| with_reducible exact Comm.propagateInvalidity _)

theorem Comm.becameNecessary (env : Env) (fuel n : Nat) :
    Comm env (Engine.becameNecessary env fuel n) := (Comm.link env fuel).1 n
theorem Comm.addParentWithoutAdjustingHeights (env : Env) (fuel c i p : Nat) :
    Comm env (Engine.addParentWithoutAdjustingHeights env fuel c i p) := (Comm.link env fuel).2 c i p
macro_rules | `(tactic| csim_leaf) => `(tactic| with_reducible exact Comm.becameNecessary _ _ _)
macro_rules | `(tactic| csim_leaf) => `(tactic| with_reducible exact Comm.addParentWithoutAdjustingHeights _ _ _ _ _)

theorem Comm.becameNecessaryPropagate (env : Env) (fuel n : Nat) :
    Comm env (Engine.becameNecessaryPropagate env fuel n) := by
  intro c s; unfold Engine.becameNecessaryPropagate; csim
macro_rules | `(tactic| csim_leaf) => `(tactic| with_reducible exact Comm.becameNecessaryPropagate _ _ _)

end






section


theorem Comm.bumpCounter (f : Counters → Counters) : Comm env (Engine.bumpCounter f) := by
  intro c s; unfold Engine.bumpCounter; csim
macro_rules | `(tactic| csim_leaf) => `(tactic| with_reducible exact Comm.bumpCounter _)

theorem Comm.shouldCutoff (env : Env) (n : Nat) (o v : Val) :
    Comm env (Engine.shouldCutoff env n o v) := by
  intro c s; unfold Engine.shouldCutoff
  refine CommAt.getNode_seq fun nd hnd hne hnr hval hcut => ?_
  cases hc : nd.cutoff <;> dsimp only
  case fn x => exact absurd hc (hcut x).1
  case boxed x => exact absurd hc (hcut x).2
  all_goals csim
macro_rules | `(tactic| csim_leaf) => `(tactic| with_reducible exact Comm.shouldCutoff _ _ _ _)

/-! ## `child_changed`: the parent is neither an expert nor a map_ref node, so nothing happens -/

theorem Comm.childChanged (env : Env) (fuel p c ci : Nat) (o : Option Val) :
    Comm env (Engine.childChanged env fuel p c ci o) := by
  intro c s
  cases fuel with
  | zero => unfold Engine.childChanged; exact CommAt.thr _
  | succ fuel =>
    unfold Engine.childChanged
    csim
    csim_kind
macro_rules | `(tactic| csim_leaf) => `(tactic| with_reducible exact Comm.childChanged _ _ _ _ _ _)

/-! ## `parent_iter_can_recompute_now` -/

theorem Comm.parentIterCanRecomputeNow (p child : Nat) :
    Comm env (Engine.parentIterCanRecomputeNow p child) := by
  intro c s; unfold Engine.parentIterCanRecomputeNow; csim
  csim_kind
macro_rules | `(tactic| csim_leaf) => `(tactic| with_reducible exact Comm.parentIterCanRecomputeNow _ _)

end


section

theorem Comm.maybeChangeValueManual (env : Env) (fuel n : Nat) (o : Option Val) (did b : Bool) :
    Comm env (Engine.maybeChangeValueManual env fuel n o did b) := by
  intro c s
  unfold Engine.maybeChangeValueManual
  refine CommAt.cond (fun _ => CommAt.ret _) (fun _ => ?_)
  csim
  split
  · csim
  · csim
macro_rules | `(tactic| csim_leaf) => `(tactic| with_reducible exact Comm.maybeChangeValueManual _ _ _ _ _ _)

theorem Comm.maybeChangeValue (env : Env) (fuel n : Nat) (v : Val) :
    Comm env (Engine.maybeChangeValue env fuel n v) := by
  intro c s
  unfold Engine.maybeChangeValue
  csim
  all_goals (split <;> csim)
macro_rules | `(tactic| csim_leaf) => `(tactic| with_reducible exact Comm.maybeChangeValue _ _ _ _)

end


section
theorem Comm.getObs (o : Nat) : Comm env (Engine.getObs o) := by
  intro c s; unfold Engine.getObs; csim
  split <;> csim
macro_rules | `(tactic| csim_leaf) => `(tactic| with_reducible exact Comm.getObs _)

theorem Comm.modObs (o : Nat) (f : ObsRec → ObsRec) : Comm env (Engine.modObs o f) := by
  intro c s; unfold Engine.modObs; csim
macro_rules | `(tactic| csim_leaf) => `(tactic| with_reducible exact Comm.modObs _ _)


theorem Comm.getVar (v : Nat) : Comm env (Engine.getVar v) := by
  intro c s; unfold Engine.getVar; csim
  split <;> csim
macro_rules | `(tactic| csim_leaf) => `(tactic| with_reducible exact Comm.getVar _)

theorem Comm.modVar (v : Nat) (f : VarCell → VarCell) : Comm env (Engine.modVar v f) := by
  intro c s; unfold Engine.modVar; csim
macro_rules | `(tactic| csim_leaf) => `(tactic| with_reducible exact Comm.modVar _ _)

theorem Comm.addNewObservers (env : Env) (fuel : Nat) :
    Comm env (Engine.addNewObservers env fuel) := by
  intro c s; unfold Engine.addNewObservers; csim
  split <;> csim
macro_rules | `(tactic| csim_leaf) => `(tactic| with_reducible exact Comm.addNewObservers _ _)

theorem Comm.unlinkDisallowedObservers (fuel : Nat) :
    Comm env (Engine.unlinkDisallowedObservers fuel) := by
  intro c s; unfold Engine.unlinkDisallowedObservers; csim
macro_rules | `(tactic| csim_leaf) => `(tactic| with_reducible exact Comm.unlinkDisallowedObservers _)

theorem Comm.disallowFutureUse (o : Nat) : Comm env (Engine.disallowFutureUse o) := by
  intro c s; unfold Engine.disallowFutureUse; csim
  split <;> csim
macro_rules | `(tactic| csim_leaf) => `(tactic| with_reducible exact Comm.disallowFutureUse _)

theorem Comm.didSetVarWhileNotStabilising (v : Nat) :
    Comm env (Engine.didSetVarWhileNotStabilising v) := by
  intro c s; unfold Engine.didSetVarWhileNotStabilising; csim
macro_rules | `(tactic| csim_leaf) => `(tactic| with_reducible exact Comm.didSetVarWhileNotStabilising _)

theorem Comm.writeVar (v : Nat) (f : Val → Val) (isSet : Bool) :
    Comm env (Engine.writeVar v f isSet) := by
  intro c s; unfold Engine.writeVar; csim
  split <;> csim
  split <;> csim
macro_rules | `(tactic| csim_leaf) => `(tactic| with_reducible exact Comm.writeVar _ _ _)

end



end IncrVerif.Proofs.FaultH
