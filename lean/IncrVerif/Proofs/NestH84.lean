import IncrVerif.Proofs.NestH83
/-!
# Total correctness of `adjustHeights` (F2), part 3: the headline theorem `adjustHeights_total2`

`adjustHeights oc op' fuel` RETURNS (no panic, `s.nodes.size + 1 ≤ fuel` suffices: every node is popped from the adjust-heights heap at most once) and the height
bound `HBo2` then holds for ALL necessary nodes, `op'` included.
-/
namespace IncrVerif.Proofs.NestH
open IncrVerif.Engine IncrVerif.Proofs IncrVerif.Proofs.Step IncrVerif.Proofs.Sched IncrVerif.Proofs.Quiet
open IncrVerif.Proofs.BindH

namespace TA
open BA CA NA

variable {env : Env} {rk : Nat → Nat} {s : State} {op : Nat → Op} {ex : Nat → Prop} {dy : List Nat}

/-- the static facts totality needs -/
theorem loopHypT (I : GInv2 env rk s op ex dy) {oc op' : Nat}
    (hopen : op op' = .linking (s.children op').length) (hclosed : ∀ m, m ≠ op' → op m = .closed)
    (hother : ∀ c i, (op', i) ∈ (s.nodeD c).parents → c ≠ oc → (s.nodeD c).height < (s.nodeD op').height)
    (hscope : ∀ b br, (s.nodeD op').createdIn = .bind b → s.binds[b]? = some br →
      (s.nodeD br.lhsChange).height < (s.nodeD op').height)
    (h0 : 0 ≤ (s.nodeD op').height) (hrk : rk oc < rk op') : LoopHypT rk oc op' s where
  pnec c p h := by
    rcases h with ⟨i, hm⟩ | ⟨b, br, hb, hl, hmem, hn⟩
    · have h2 := (I.par c p i hm).2
      by_cases e : p = op'
      · rw [e]; exact I.lnec _ _ hopen
      · exact (wants_closed (hclosed p e)).1 h2
    · exact hn
  pin c p h := by
    rcases h with ⟨i, hm⟩ | ⟨b, br, hb, hl, hmem, hn⟩
    · exact children_lt_size (I.par c p i hm).1
    · exact (reg_scope2 I hb hmem).1
  pos0 m hn := by
    by_cases e : m = op'
    · rw [e]; exact h0
    · exact I.hpos m hn (hclosed m e)
  fine0 c p h hco := by
    rcases h with ⟨i, hm⟩ | ⟨b, br, hb, hl, hmem, hn⟩
    · by_cases e : p = op'
      · rw [e] at hm ⊢; exact hother c i hm hco
      · exact I.hlt c p i hm (hclosed p e)
    · obtain ⟨-, hv, hsc⟩ := reg_scope2 I hb hmem
      rw [← hl]
      by_cases e : p = op'
      · rw [e] at hsc ⊢; exact hscope b br hsc hb
      · exact I.scopeH p b br hv hsc hb hn (hclosed p e)
  lcEx n b hn _ hk := by
    obtain ⟨br, hb, -⟩ := (I.frag.node n hn).lcRec b hk
    exact ⟨br, hb⟩
  rkoc := hrk

end TA

open BA CA NA TA in
/-- **`adjustHeights` returns and restores the height invariant and the height bound** (TOTAL correctness, fragment F2).
Hypotheses of `adjustHeights_spec2`, plus: `hb` every closed necessary node is within the bound before the call (`op'` is open: nothing is assumed about it
except `h0`), `R` the heaps have room, `hge` the precondition of the call (`stateAddParent` calls `adjustHeights child parent` only if
`child.height ≥ parent.height`), fuel for one pop per node.  The rank condition `rk oc < rk op'` ("the new edge respects the rank") FOLLOWS from `hedge`
(the edge is already recorded and `GInv2.par` + `kidLt`). -/
theorem adjustHeights_total2 {env : Env} {rk : Nat → Nat} {N oc op' fuel : Nat} {s : State} {op : Nat → Op} {ex : Nat → Prop}
    {dy : List Nat}
    (I : GInv2 env rk s op ex dy) (hb : HBo2 rk s op) (R : Room N s)
    (hopen : op op' = .linking (s.children op').length) (hclosed : ∀ m, m ≠ op' → op m = .closed)
    (hedge : ∃ i, (op', i) ∈ (s.nodeD oc).parents)
    (hother : ∀ c i, (op', i) ∈ (s.nodeD c).parents → c ≠ oc → (s.nodeD c).height < (s.nodeD op').height)
    (hgtop : (s.nodeD op').inRch = true → (s.nodeD op').heightInRch = (s.nodeD op').height)
    (hq : s.isStale op' = true → ex op' ∨ (s.nodeD op').inRch = true)
    (hah : AhhEmpty s)
    (hdy : ∀ m, m ∈ dy → ∀ b br, (s.nodeD m).createdIn = .bind b → s.binds[b]? = some br →
      rk br.lhsChange < rk op')
    (hscope : ∀ b br, (s.nodeD op').createdIn = .bind b → s.binds[b]? = some br →
      (s.nodeD br.lhsChange).height < (s.nodeD op').height)
    (hge : (s.nodeD op').height ≤ (s.nodeD oc).height)
    (h0 : 0 ≤ (s.nodeD op').height)
    (hf : s.nodes.size + 1 ≤ fuel) :
    Tot (adjustHeights oc op' fuel) s (fun _ s' =>
      GInv2 env rk s' (upd op op' .closed) ex dy ∧ AhhEmpty s' ∧ HRel s s' ∧
        (∀ m, rk m < rk op' → s'.nodeD m = s.nodeD m) ∧
        HBo2 rk s' (upd op op' .closed) ∧ Room N s') := by
  obtain ⟨i0, hedge⟩ := hedge
  have H := loopHyp2 I
  have hrk := H.up oc op' (Or.inl ⟨i0, hedge⟩)
  have HT := loopHypT I hopen hclosed hother hscope h0 hrk
  have hocp : oc ≠ op' := by
    intro e; rw [e] at hrk; omega
  have hnoc : s.isNecessary oc = true := nec_of_mem_parents hedge
  have hnop : s.isNecessary op' = true := I.lnec _ _ hopen
  have hoc : oc < s.nodes.size := nec_lt_size hnoc
  have hop : op' < s.nodes.size := nec_lt_size hnop
  unfold adjustHeights
  refine Tot.bind_get ?_
  refine Tot.bind_dassert (fun _ => by rw [hah.length]; rfl) ?_
  refine Tot.bind_dassert (fun _ => by simpa using hge) ?_
  refine P22.tot_bind_modify' ?_
  intro s1 hs1
  -- the invariants hold initially, with the edges `oc → op'` still to be looked at
  have hnd1 : ∀ m, s1.nodeD m = s.nodeD m := fun m => by rw [hs1]; rfl
  have hlb1 : s1.ahh.lowerBound = (s.nodeD op').height := by rw [hs1]
  have E1 : AhhEmpty s1 := by
    rw [hs1]; exact ⟨hah.length, hah.buckets, hah.marks⟩
  have A1 : AInvR rk (HP s) op' s s1 (fun x q => x = oc ∧ q = op') noY := by
    refine ⟨by rw [hs1]; exact HRel.same_nodes rfl rfl, AhhEmpty.wf E1,
      I.heap.congr (by rw [hs1]) (by rw [hs1]) (fun m => by rw [hnd1]), ?_, ?_, ?_, ?_, fun m _ => hnd1 m,
      fun m hmm => absurd (E1.marks m) hmm⟩
    · intro c p hm
      rw [hnd1, hnd1]
      by_cases ec : c = oc
      · by_cases e : p = op'
        · exact Or.inr (Or.inr ⟨ec, e⟩)
        · left
          rcases hm with ⟨i, hm⟩ | ⟨b, br, hb', hl, hmem, hn⟩
          · exact I.hlt c p i hm (hclosed p e)
          · obtain ⟨-, hv, hsc⟩ := reg_scope2 I hb' hmem
            rw [← hl]
            exact I.scopeH p b br hv hsc hb' hn (hclosed p e)
      · exact Or.inl (HT.fine0 c p hm ec)
    · intro c p _ hmc
      exact absurd (E1.marks c) hmc
    · intro m hqm _ _
      rw [hnd1] at hqm ⊢
      by_cases e : m = op'
      · rw [e] at hqm ⊢; exact hgtop hqm
      · exact I.hgt m hqm (hclosed m e)
    · intro m hqm
      rw [hnd1] at hqm ⊢
      by_cases e : m = op'
      · rw [e] at hqm ⊢; rw [hgtop hqm]; exact Int.le_refl _
      · rw [I.hgt m hqm (hclosed m e)]; exact Int.le_refl _
  have T1 : TI rk N s s1 [] (· = op') := by
    refine ⟨room_congr R (by rw [hs1]) (by rw [hs1]) (by rw [hs1]), ?_,
      fun m hm => absurd (E1.marks m) hm, fun m hm => absurd (E1.marks m) hm, fun m hm => absurd (E1.marks m) hm,
      fun m _ _ => by rw [hnd1], fun m hm => by cases hm⟩
    intro m hn hz
    rw [hnd1]
    exact hb m hn (hclosed m hz)
  have hcb : (s1.nodeD oc).height ≤ (cnt rk s.nodes.size oc : Int) + 1 := T1.bound oc hnoc hocp
  -- the first `ensureHeightRequirement`
  obtain ⟨s2, h2⟩ := ehr_tot (oc := oc) (op := op') (c := oc) (p := op') (s := s1) (by rw [A1.rel.size]; exact hoc)
    (by rw [A1.rel.size]; exact hop) (by rw [A1.rel.nec]; exact hnoc) (by rw [A1.rel.nec]; exact hnop)
    (fun e => hocp e.symm) (by rw [hlb1, hnd1]; exact Int.le_refl _) (by rw [hnd1]; exact h0)
    (by
      have h1 := cnt_lt_cnt (rk := rk) hoc hrk
      have h2 := cnt_lt_size (rk := rk) hop
      have h3 := T1.room.size
      have h4 := T1.room.ahh
      have h5 := A1.rel.size
      omega)
  refine Tot.bind_ok h2 ?_
  obtain ⟨A2, -, -⟩ := ehr_step h2 A1 (fun x q hx => hx.1) hocp
    (by rw [hnd1, hlb1]; exact Int.le_refl _) (Nat.le_refl _)
  have A2' : AInvR rk (HP s) op' s s2 noXR noY := A2.mono (fun x q _ hx => hx.2 hx.1.2) (fun _ hy => hy)
  obtain ⟨T2, -⟩ := TI.ehr h2 A1 T1 hcb hrk (List.not_mem_nil) hnop (fun _ => by rw [hnd1, hnd1]; exact hge)
  have T2' : TI rk N s s2 [] noZ := T2.mono (fun m h => h.2 h.1)
  -- the loop
  refine Tot.bind (loop_tot H HT fuel s2 [] A2' T2' (by rw [mu_nil]; omega)) ?_
  rintro u s3 h3 ⟨dn3, T3⟩
  obtain ⟨A3, E3⟩ := loop_spec2 H fuel s2 s3 h3 A2'
  have hfine : (s3.nodeD oc).height < (s3.nodeD op').height := by
    rcases A3.edge oc op' (Or.inl ⟨i0, hedge⟩) with h | h | h
    · exact h
    · exact absurd (E3.marks oc) h
    · exact h.elim
  refine Tot.bind_get ?_
  refine Tot.bind_dassert (fun _ => by rw [E3.length]; rfl) ?_
  refine Tot.of_ok (run_dassert_true s3 (fun _ => by simpa using hfine)) ?_
  refine ⟨close2 A3 E3 I hopen hclosed hedge hq hdy hscope, E3, A3.rel, A3.low, ?_, T3.room⟩
  intro m hn _
  rw [A3.rel.size]
  rw [A3.rel.nec] at hn
  exact T3.bound m hn (fun h => h)

end IncrVerif.Proofs.NestH
