import IncrVerif.Proofs.DriverH5
import IncrVerif.Proofs.DriverH3
import IncrVerif.Proofs.ExpertH40
import IncrVerif.Proofs.BindH12
/-!
# Drivers, the steps of the drain that are not driver runs, part 1: frames

* `CfgF`: `cfg` is never written (ladder up to `maybeChangeValue`, `rchRemoveMin`).
* `drvOK_frameX`: `DrvOK` along a step that keeps sizes, kinds, `top` and `Drives`.
* `drives_of_frames`: `Drives` along `XF` + `XS`.
* `auxD_of_frames`: `AuxD` along `XF`, `AhF`, `Fr` and the shapes of the virtual nodes.
* `dstep_of_frames`: `DStep` from the frames of the virtual states.
-/
namespace IncrVerif.Proofs.DriverH
open IncrVerif.Engine IncrVerif.Driver IncrVerif.Proofs IncrVerif.Proofs.Step IncrVerif.Proofs.Sched
open IncrVerif.Proofs.ExpertH IncrVerif.Proofs.ExpertH.QR IncrVerif.Proofs.EffH

/-! ## `cfg` is never written -/

def CfgF (s s' : State) : Prop := s'.cfg = s.cfg

theorem CfgF.refl (s : State) : CfgF s s := rfl
theorem CfgF.trans {a b c : State} (h1 : CfgF a b) (h2 : CfgF b c) : CfgF a c := Eq.trans h2 h1
instance : Step.PreOrd CfgF := ⟨CfgF.refl, CfgF.trans⟩

theorem PresCfg.modNode (n : Nat) (f : Node → Node) : Step.Pres CfgF (Engine.modNode n f) := by
  unfold Engine.modNode; exact Step.Pres.modify fun _ => rfl
theorem PresCfg.modExpert (e : Nat) (f : ExpertRec → ExpertRec) : Step.Pres CfgF (Engine.modExpert e f) := by
  unfold Engine.modExpert; exact Step.Pres.modify fun _ => rfl

macro_rules
  | `(tactic| qleaf) =>
    `(tactic| ((with_reducible apply Step.Pres.modify); intro _; exact (rfl : CfgF _ _)))
macro_rules
  | `(tactic| qleaf) => `(tactic| (with_reducible apply PresCfg.modNode))
macro_rules
  | `(tactic| qleaf) => `(tactic| (with_reducible apply PresCfg.modExpert))

macro "cfg_leaf " n:ident : command =>
  `(macro_rules | `(tactic| qleaf) => `(tactic| with_reducible apply $n))

theorem PresCfg.discard {α} {x : M α} (h : Step.Pres CfgF x) : Step.Pres CfgF (discard x) := by
  unfold Functor.discard; exact Step.Pres.map _ h
cfg_leaf PresCfg.discard
theorem PresCfg.logEv (e) : Step.Pres CfgF (Engine.logEv e) := by unfold Engine.logEv; qpres
cfg_leaf PresCfg.logEv
theorem PresCfg.tick : Step.Pres CfgF Engine.tick := by unfold Engine.tick; qpres
cfg_leaf PresCfg.tick
theorem PresCfg.bumpCounter (f) : Step.Pres CfgF (Engine.bumpCounter f) := by unfold Engine.bumpCounter; qpres
cfg_leaf PresCfg.bumpCounter
theorem PresCfg.rchLink (n) : Step.Pres CfgF (Engine.rchLink n) := by unfold Engine.rchLink; qpres
cfg_leaf PresCfg.rchLink
theorem PresCfg.rchUnlink (n) : Step.Pres CfgF (Engine.rchUnlink n) := by unfold Engine.rchUnlink; qpres
cfg_leaf PresCfg.rchUnlink
theorem PresCfg.rchInsert (n) : Step.Pres CfgF (Engine.rchInsert n) := by unfold Engine.rchInsert; qpres
cfg_leaf PresCfg.rchInsert
theorem PresCfg.rchRemoveMin : Step.Pres CfgF Engine.rchRemoveMin := by unfold Engine.rchRemoveMin; qpres
cfg_leaf PresCfg.rchRemoveMin
theorem PresCfg.rchMinHeight : Step.Pres CfgF Engine.rchMinHeight := by unfold Engine.rchMinHeight; qpres
cfg_leaf PresCfg.rchMinHeight
theorem PresCfg.scopeHeight (sc) : Step.Pres CfgF (Engine.scopeHeight sc) := Step.Pres.scopeHeight sc
theorem PresCfg.handleAfterStabilisation (n) : Step.Pres CfgF (Engine.handleAfterStabilisation n) := by
  unfold Engine.handleAfterStabilisation; qpres
cfg_leaf PresCfg.handleAfterStabilisation
theorem PresCfg.maybeHandleAfterStabilisation (n) : Step.Pres CfgF (Engine.maybeHandleAfterStabilisation n) := by
  unfold Engine.maybeHandleAfterStabilisation; qpres
cfg_leaf PresCfg.maybeHandleAfterStabilisation
theorem PresCfg.edgeOnChange (env e edge) : Step.Pres CfgF (Engine.edgeOnChange env e edge) := by
  unfold Engine.edgeOnChange; qpres
cfg_leaf PresCfg.edgeOnChange
theorem PresCfg.runEdgeCallback (env e i) : Step.Pres CfgF (Engine.runEdgeCallback env e i) := by
  unfold Engine.runEdgeCallback; qpres
cfg_leaf PresCfg.runEdgeCallback
theorem PresCfg.shouldCutoff (env n o v) : Step.Pres CfgF (Engine.shouldCutoff env n o v) := by
  unfold Engine.shouldCutoff; qpres
cfg_leaf PresCfg.shouldCutoff

theorem PresCfg.childChanged (env : Env) (fuel p c ci : Nat) (o : Option Val) :
    Step.Pres CfgF (Engine.childChanged env fuel p c ci o) := by
  induction fuel generalizing p c ci o with
  | zero => unfold Engine.childChanged; qpres
  | succ fuel ih =>
    unfold Engine.childChanged
    qpres
    all_goals (apply Step.Pres.forIn; intro a b; qpres; all_goals exact ih _ _ _ _)
cfg_leaf PresCfg.childChanged

set_option maxHeartbeats 1000000 in
theorem PresCfg.parentIterCanRecomputeNow (p c : Nat) :
    Step.Pres CfgF (Engine.parentIterCanRecomputeNow p c) := by
  unfold Engine.parentIterCanRecomputeNow; qpres
cfg_leaf PresCfg.parentIterCanRecomputeNow

set_option maxHeartbeats 1000000 in
theorem PresCfg.maybeChangeValueManual (env fuel n o d b) :
    Step.Pres CfgF (Engine.maybeChangeValueManual env fuel n o d b) := by
  unfold Engine.maybeChangeValueManual
  qpres
  all_goals (apply Step.Pres.forIn; intro a b; qpres)
cfg_leaf PresCfg.maybeChangeValueManual

set_option maxHeartbeats 1000000 in
theorem PresCfg.maybeChangeValue (env fuel n v) : Step.Pres CfgF (Engine.maybeChangeValue env fuel n v) := by
  unfold Engine.maybeChangeValue; qpres
cfg_leaf PresCfg.maybeChangeValue

end IncrVerif.Proofs.DriverH
