import IncrVerif.Proofs.BindH28
/-!
# Binds, `adjustHeights`, part 3: `ensureHeightRequirement` keeps the loop invariant; the loop; the headline theorem
`adjustHeights_specB`
-/
namespace IncrVerif.Proofs.BindH
open IncrVerif.Engine IncrVerif.Proofs IncrVerif.Proofs.Step IncrVerif.Proofs.Sched IncrVerif.Proofs.Quiet

namespace BA

theorem HRel.added (p : Nat) (x : Int) (s : State) : HRel s (ahhAdded p x s) :=
  HRel.upd (s := s) (n := p) (f := fun y => { y with heightInAhh := x }) rfl rfl (fun _ => ⟨rfl, rfl⟩) rfl
    (Int.le_refl _)

theorem HRel.heightSet {p : Nat} {v : Int} {s : State} (hv : (s.nodeD p).height ≤ v) :
    HRel s (heightSet p v s) :=
  HRel.upd (s := s) (n := p) (f := fun y => { y with height := v }) rfl rfl (fun _ => ⟨rfl, rfl⟩) rfl hv

theorem ahhAdded_nodeD {p : Nat} {x : Int} {s : State} (hp : p < s.nodes.size) (m : Nat) :
    (ahhAdded p x s).nodeD m = if m = p then { s.nodeD p with heightInAhh := x } else s.nodeD m :=
  nodeD_upd (s := s) (f := fun y => { y with heightInAhh := x }) rfl hp m

/-- `ensureHeightRequirement c p` inside the loop: the edges `c → p` are fine afterwards -/
theorem ehr_step {B : Nat} {s0 s s' : State} {X : Nat → Nat → Nat → Prop} {Y : Nat → Prop} {oc op c p : Nat} {u : Unit}
    (h : (ensureHeightRequirement oc op c p).run.run s = (.ok u, s')) (A : AInv B s0 s X Y)
    (hX : ∀ x q i, X x q i → x = c) (hne : ∀ x q i, (q, i) ∈ (s0.nodeD x).parents → x ≠ q) (hcp : c ≠ p)
    (hlb : s.ahh.lowerBound ≤ (s.nodeD p).height) (hB : B ≤ p) :
    AInv B s0 s' (fun x q i => X x q i ∧ q ≠ p) Y ∧ HRel s s' ∧ s'.ahh.lowerBound = s.ahh.lowerBound := by
  obtain ⟨hc, hp, hcase⟩ := ehr_ok_inv h
  rcases hcase with ⟨hlt, e⟩ | ⟨hge, s1, hs1, e⟩
  · rw [e]
    refine ⟨⟨A.rel, A.wf, A.heap, ?_, A.old, A.hgt, A.hle, A.low, A.memB⟩, HRel.refl s, rfl⟩
    intro x q i hm
    rcases A.edge x q i hm with h1 | h1 | h1
    · exact Or.inl h1
    · exact Or.inr (Or.inl h1)
    · by_cases eq : q = p
      · left; rw [hX x q i h1, eq]; exact hlt
      · exact Or.inr (Or.inr ⟨h1, eq⟩)
  · have hne1 : ∀ (t : State), HRel s0 t → ∀ x q i, (q, i) ∈ (t.nodeD x).parents → x ≠ q := by
      intro t ht x q i hm
      rw [ht.parents] at hm
      exact hne x q i hm
    rcases hs1 with ⟨hmem, e1⟩ | ⟨hnm, h0, hx, e1⟩
    · rw [e1] at e
      rw [e]
      exact ⟨A.raise hp hmem (by omega) (by omega) hX (hne1 s A.rel), HRel.heightSet (by omega), rfl⟩
    · have hpar : ∀ q i, (q, i) ∈ (s.nodeD p).parents → (s.nodeD p).height < (s.nodeD q).height := by
        intro q i hm
        rcases A.edge p q i hm with h1 | h1 | h1
        · exact h1
        · exact absurd hnm h1
        · exact absurd (hX p q i h1).symm hcp
      have A1 := A.add hp hnm h0 hx hlb hpar hB
      rw [← e1] at A1
      have key := ahhAdded_nodeD (x := (s.nodeD p).height) hp
      have hhp : (s1.nodeD p).height = (s.nodeD p).height := by rw [e1, key, if_pos rfl]
      have hhc : (s1.nodeD c).height = (s.nodeD c).height := by rw [e1, key, if_neg hcp]
      have hmem : ahhMk s1 p ≠ -1 := by
        simp only [ahhMk]
        rw [e1, key, if_pos rfl]
        show (s.nodeD p).height ≠ -1
        omega
      have hp1 : p < s1.nodes.size := by rw [e1]; simpa [ahhAdded] using hp
      rw [e]
      refine ⟨A1.raise hp1 hmem (by omega) (by omega) hX (hne1 s1 A1.rel), ?_, ?_⟩
      · have r1 : HRel s s1 := by rw [e1]; exact HRel.added _ _ _
        exact r1.trans (HRel.heightSet (by omega))
      · rw [e1]; rfl

/-- the tail of one iteration of the loop, after the popped node has been re-bucketed -/
def loopTail (oc op c fuel : Nat) : M Unit := do
  for (p, _) in (← getNode c).parents do
    ensureHeightRequirement oc op c p
  match (← getNode c).kind? with
  | some (.bindLhsChange b) =>
    for r in (← getBind b).allNodesCreatedOnRhs do
      if (← get).isNecessary r then ensureHeightRequirement oc op c r
  | _ => pure ()
  adjustHeightsLoop oc op fuel

/-- what the loop guarantees -/
def LoopSpec (B : Nat) (s0 : State) (oc op fuel : Nat) : Prop :=
  ∀ s s', (adjustHeightsLoop oc op fuel).run.run s = (.ok (), s') → AInv B s0 s noX noY →
    AInv B s0 s' noX noY ∧ AhhEmpty s'

theorem getBind_ok_inv {b : Nat} {s s' : State} {br : BindRec}
    (h : (getBind b).run.run s = (.ok br, s')) : s' = s ∧ s.binds[b]? = some br := by
  unfold getBind at h
  rw [run_bind_get] at h
  cases hb : s.binds[b]? with
  | none => rw [hb] at h; dsimp only at h; rw [run_panic] at h; cases h
  | some x =>
    rw [hb] at h; dsimp only at h
    obtain ⟨e1, e2⟩ := pure_ok_inv h
    exact ⟨e2, by rw [e1]⟩

theorem tail_spec {B : Nat} {s0 s s' : State} {oc op c fuel : Nat}
    (hlt : ∀ x q i, (q, i) ∈ (s0.nodeD x).parents → x < q)
    (hrhs : ∀ (b : Nat) (br : BindRec), s0.binds[b]? = some br → br.allNodesCreatedOnRhs = [])
    (ih : LoopSpec B s0 oc op fuel)
    (h : (loopTail oc op c fuel).run.run s = (.ok (), s')) (A : AInv B s0 s (fun x _ _ => x = c) noY)
    (hlb : ∀ q i, (q, i) ∈ (s.nodeD c).parents → s.ahh.lowerBound ≤ (s.nodeD q).height) (hB : B ≤ c) :
    AInv B s0 s' noX noY ∧ AhhEmpty s' := by
  have hne : ∀ x q i, (q, i) ∈ (s0.nodeD x).parents → x ≠ q := fun x q i hm => Nat.ne_of_lt (hlt x q i hm)
  unfold loopTail at h
  obtain ⟨nd, hnd, h⟩ := bind_getNode_inv h
  have hndD : s.nodeD c = nd := nodeD_of_some hnd
  obtain ⟨_, t, hfor, h⟩ := bind_ok_inv h
  -- the loop over the parents of `c`
  have hloop := forIn_ok_inv _ nd.parents
    (fun j (_ : PUnit) (t : State) =>
      AInv B s0 t (fun x q i => x = c ∧ ∃ k, j ≤ k ∧ nd.parents[k]? = some (q, i)) noY ∧
        t.ahh.lowerBound = s.ahh.lowerBound ∧ ∀ m, (s.nodeD m).height ≤ (t.nodeD m).height)
    (by
      intro j a b t r t' hj ⟨At, hlbt, hgrow⟩ hbody
      obtain ⟨_, t1, ha, hbody⟩ := bind_ok_inv hbody
      obtain ⟨hr, ht'⟩ := pure_ok_inv hbody
      subst ht'
      refine ⟨_, hr, ?_⟩
      have hmem : (a.1, a.2) ∈ (s.nodeD c).parents := by
        rw [hndD]; exact List.mem_of_getElem? hj
      have hmem0 : (a.1, a.2) ∈ (s0.nodeD c).parents := by rw [← A.rel.parents]; exact hmem
      have hca : c ≠ a.1 := hne c a.1 a.2 hmem0
      obtain ⟨At1, hr1, hlb1⟩ := ehr_step ha At (fun x q i hx => hx.1) hne hca
        (by
          rw [hlbt]
          have := hlb a.1 a.2 hmem
          have := hgrow a.1
          omega)
        (by have := hlt c a.1 a.2 hmem0; omega)
      refine ⟨At1.mono ?_ (fun _ hy => hy), by rw [hlb1, hlbt], fun m => ?_⟩
      · rintro x q i - ⟨⟨hx, k, hk, hkq⟩, hqa⟩
        refine ⟨hx, k, ?_, hkq⟩
        rcases Nat.lt_or_ge j k with hlt | hge
        · exact hlt
        · have : k = j := by omega
          rw [this, hj] at hkq
          cases hkq
          exact absurd rfl hqa
      · exact Int.le_trans (hgrow m) (hr1.height m))
    nd.parents 0 PUnit.unit s _ t (by simp) (Nat.zero_le _)
    ⟨A.mono (by
        intro x q i hm hx
        refine ⟨hx, ?_⟩
        rw [hx, hndD] at hm
        obtain ⟨k, hk⟩ := List.mem_iff_getElem?.1 hm
        exact ⟨k, Nat.zero_le _, hk⟩) (fun _ hy => hy), rfl, fun _ => Int.le_refl _⟩ hfor
  obtain ⟨At, -, -⟩ := hloop
  have At' : AInv B s0 t noX noY := by
    refine At.mono ?_ (fun _ hy => hy)
    rintro x q i - ⟨-, k, hk, hkq⟩
    rw [List.getElem?_eq_none hk] at hkq
    cases hkq
  -- the bind part does nothing in fragment F0
  obtain ⟨nd', hnd', h⟩ := bind_getNode_inv h
  dsimp only at h
  split at h
  · rename_i b hkb
    obtain ⟨br, t1, hb, h⟩ := bind_ok_inv h
    obtain ⟨e2, hbr⟩ := getBind_ok_inv hb
    rw [At'.rel.binds] at hbr
    rw [hrhs b br hbr, List.forIn_nil] at h
    obtain ⟨_, t2, h1, h⟩ := bind_ok_inv h
    obtain ⟨-, e1⟩ := pure_ok_inv h1
    rw [e1, e2] at h
    exact ih t s' h At'
  · exact ih t s' h At'

theorem loop_spec {B : Nat} {s0 : State} {oc op : Nat} (hlt : ∀ x q i, (q, i) ∈ (s0.nodeD x).parents → x < q)
    (hrhs : ∀ (b : Nat) (br : BindRec), s0.binds[b]? = some br → br.allNodesCreatedOnRhs = []) (fuel : Nat) :
    LoopSpec B s0 oc op fuel := by
  induction fuel with
  | zero => intro s s' h; unfold adjustHeightsLoop at h; cases h
  | succ fuel ih =>
    intro s s' h A
    unfold adjustHeightsLoop at h
    obtain ⟨r, s1, h1, h⟩ := bind_ok_inv h
    rcases ahhRemoveMin_ok_inv h1 with ⟨er, e1, hnone⟩ | ⟨c, rest, er, hq, e1⟩
    · rw [er] at h
      obtain ⟨-, e⟩ := pure_ok_inv h
      rw [e, e1]
      exact ⟨A, A.wf.none_empty hnone⟩
    · rw [er] at h
      dsimp only at h
      obtain ⟨A1, hBc, hlb1, key⟩ := A.pop hq
      rw [← e1] at A1 hlb1 key
      obtain ⟨nd, hnd, h⟩ := bind_getNode_inv h
      have hndD : s1.nodeD c = nd := nodeD_of_some hnd
      have hc1 : c < s1.nodes.size := lt_of_some hnd
      have hpar1 : (s1.nodeD c).parents = (s.nodeD c).parents := by rw [key, if_pos rfl]
      by_cases hin : nd.inRch = true
      · rw [if_pos hin] at h
        obtain ⟨_, s2, h2, h⟩ := bind_ok_inv h
        obtain ⟨Q, -, h0, hmax, hQ, e2⟩ := rchIncreaseHeight_ok_inv h2
        have hwf : HeapWF s2 := by
          have := (triple_iff _ _ _ _).1 (rchIncreaseHeight_spec .release c) s1
            ⟨(HWF_release_iff s1).2 A1.heap.wf, Or.inr ⟨s1.nodeD c, some_of_lt hc1, h0, by
              simp only [Heap.maxAllowed] at hmax; omega⟩⟩
          rw [h2] at this
          exact (HWF_release_iff s2).1 this
        rw [e2] at hwf
        have A2 := A1.rebucket hc1 (by rw [hndD]; exact hin) h0 hQ hwf (fun _ hy => hy) hBc
        rw [← e2] at A2
        have key2 : ∀ m, (s2.nodeD m).height = (s1.nodeD m).height ∧
            (s2.nodeD m).parents = (s1.nodeD m).parents := by
          intro m
          rw [e2, nodeD_upd (s := s1) (f := fun y => { y with heightInRch := (s1.nodeD c).height }) rfl hc1]
          split
          · rename_i e; rw [e]; exact ⟨rfl, rfl⟩
          · exact ⟨rfl, rfl⟩
        refine tail_spec hlt hrhs ih h A2 ?_ hBc
        intro q i hm
        rw [(key2 c).2, hpar1] at hm
        have := hlb1 q i hm
        rw [(key2 q).1]
        have e : s2.ahh.lowerBound = s1.ahh.lowerBound := by rw [e2]; rfl
        rw [e]; omega
      · rw [if_neg hin] at h
        have A2 : AInv B s0 s1 (fun x _ _ => x = c) noY := by
          refine ⟨A1.rel, A1.wf, A1.heap, A1.edge, A1.old, ?_, A1.hle, A1.low, A1.memB⟩
          intro m hq' hm _
          by_cases e : m = c
          · rw [e, hndD] at hq'; exact absurd hq' hin
          · exact A1.hgt m hq' hm e
        refine tail_spec hlt hrhs ih h A2 ?_ hBc
        intro q i hm
        rw [hpar1] at hm
        have := hlb1 q i hm
        omega

/-! ## closing the open node -/

theorem close {env : Env} {B : Nat} {s s' : State} {op : Nat → Op} {ex : Nat → Prop} {oc op' i0 : Nat}
    (A : AInv B s s' noX noY) (E : AhhEmpty s') (I : GInvB env s op ex)
    (hopen : op op' = .linking (s.children op').length) (hclosed : ∀ m, m ≠ op' → op m = .closed)
    (hedge : (op', i0) ∈ (s.nodeD oc).parents)
    (hq : s.isStale op' = true → ex op' ∨ (s.nodeD op').inRch = true) :
    GInvB env s' (upd op op' .closed) ex := by
  have R := A.rel
  have hocp : oc ≠ op' := Nat.ne_of_lt (I.par_lt hedge)
  have hcl : ∀ m, upd op op' .closed m = .closed := by
    intro m
    by_cases e : m = op'
    · rw [e, upd_self]
    · rw [upd_other _ _ _ e]; exact hclosed m e
  refine ⟨R.frag I.frag, ?_, ?_, ?_, ?_, ?_, ?_, ?_, A.heap, ?_, ?_, ?_, ?_, ?_⟩
  · intro c p i hm
    rw [R.parents] at hm
    obtain ⟨h1, h2⟩ := I.par c p i hm
    refine ⟨by rw [R.children I.frag]; exact h1, (wants_closed (hcl p)).2 ?_⟩
    rw [R.nec]
    by_cases e : p = op'
    · rw [e]; exact I.lnec _ _ hopen
    · exact (wants_closed (hclosed p e)).1 h2
  · intro p i c hk hw
    rw [R.children I.frag] at hk
    rw [R.parents]
    apply I.conv p i c hk
    have hn := (wants_closed (hcl p)).1 hw
    rw [R.nec] at hn
    by_cases e : p = op'
    · rw [e] at hk ⊢
      refine (wants_linking hopen).2 ?_
      rcases Nat.lt_or_ge i (s.children op').length with h | h
      · exact h
      · rw [List.getElem?_eq_none h] at hk; cases hk
    · exact (wants_closed (hclosed p e)).2 hn
  · intro c; rw [R.parents]; exact I.nodup c
  · intro c p i hm _
    rcases A.edge c p i hm with h | h | h
    · exact h
    · exact absurd (E.marks c) h
    · exact h.elim
  · intro n hn _
    rw [R.nec] at hn
    by_cases e : n = op'
    · have hm' : (op', i0) ∈ (s'.nodeD oc).parents := by rw [R.parents]; exact hedge
      have h1 : (s'.nodeD oc).height < (s'.nodeD op').height := by
        rcases A.edge oc op' i0 hm' with h | h | h
        · exact h
        · exact absurd (E.marks oc) h
        · exact h.elim
      have h2 := I.hpos oc (nec_of_mem_parents hedge) (hclosed oc hocp)
      have h3 := R.height oc
      rw [e]; omega
    · have h2 := I.hpos n hn (hclosed n e)
      have h3 := R.height n
      omega
  · intro p k ho; rw [hcl p] at ho; cases ho
  · intro p k ho; rw [hcl p] at ho; cases ho
  · intro m hqm _
    exact A.hgt m hqm (E.marks m) (fun h => h)
  · intro m hqm
    rw [R.inRch] at hqm
    rw [R.nec]
    rcases I.qnec m hqm with h | ⟨k, h⟩
    · exact Or.inl h
    · by_cases e : m = op'
      · rw [e, hopen] at h; cases h
      · rw [hclosed m e] at h; cases h
  · intro m _ hn hs hex
    rw [R.nec] at hn
    rw [R.isStale I.frag] at hs
    rw [R.inRch]
    by_cases e : m = op'
    · rw [e] at hs hex ⊢
      rcases hq hs with h | h
      · exact absurd h hex
      · exact h
    · exact I.queued m (hclosed m e) hn hs hex
  · intro m hqm
    rw [R.inRch] at hqm
    rw [R.isStale I.frag]; exact I.qstale m hqm
  · intro m ho; exact absurd (hcl m) ho

end BA

open BA in
/-- **`adjustHeights` restores the height invariant** (partial correctness, fragment F0).  `op'` is the only open
node, all its child edges are recorded, the edges `oc → op'` are the only ones that may violate the height rule.
Also: nodes created before `op'` are untouched. -/
theorem adjustHeights_specB_full {env : Env} {oc op' fuel : Nat} {s s' : State} {op : Nat → Op} {ex : Nat → Prop}
    (h : (adjustHeights oc op' fuel).run.run s = (.ok (), s'))
    (I : GInvB env s op ex)
    (hopen : op op' = .linking (s.children op').length) (hclosed : ∀ m, m ≠ op' → op m = .closed)
    (hedge : ∃ i, (op', i) ∈ (s.nodeD oc).parents)
    (hother : ∀ c i, (op', i) ∈ (s.nodeD c).parents → c ≠ oc → (s.nodeD c).height < (s.nodeD op').height)
    (hgtop : (s.nodeD op').inRch = true → (s.nodeD op').heightInRch = (s.nodeD op').height)
    (hq : s.isStale op' = true → ex op' ∨ (s.nodeD op').inRch = true)
    (hah : AhhEmpty s)
    (hrhs : ∀ (b : Nat) (br : BindRec), s.binds[b]? = some br → br.allNodesCreatedOnRhs = []) :
    GInvB env s' (upd op op' .closed) ex ∧ AhhEmpty s' ∧ HRel s s' ∧ ∀ m, m < op' → s'.nodeD m = s.nodeD m := by
  obtain ⟨i0, hedge⟩ := hedge
  have hocp : oc ≠ op' := Nat.ne_of_lt (I.par_lt hedge)
  have hlt0 : ∀ x q i, (q, i) ∈ (s.nodeD x).parents → x < q := fun x q i hm => I.par_lt hm
  have hne0 : ∀ x q i, (q, i) ∈ (s.nodeD x).parents → x ≠ q := fun x q i hm => Nat.ne_of_lt (I.par_lt hm)
  unfold adjustHeights at h
  rw [run_bind_get] at h
  replace h := bind_dassert_inv h
  replace h := bind_dassert_inv h
  obtain ⟨s1, hs1, h⟩ := bind_modify_inv h
  obtain ⟨_, s2, h2, h⟩ := bind_ok_inv h
  obtain ⟨_, s3, h3, h⟩ := bind_ok_inv h
  rw [run_bind_get] at h
  replace h := bind_dassert_inv h
  have e3 := dassert_ok_inv h
  -- the invariant holds initially, with the edges `oc → op'` still to be looked at
  have hnd1 : ∀ m, s1.nodeD m = s.nodeD m := fun m => by rw [hs1]; rfl
  have E1 : AhhEmpty s1 := by
    rw [hs1]; exact ⟨hah.length, hah.buckets, hah.marks⟩
  have A1 : AInv op' s s1 (fun x q _ => x = oc ∧ q = op') noY := by
    refine ⟨by rw [hs1]; exact HRel.same_nodes rfl rfl, AhhEmpty.wf E1,
      I.heap.congr (by rw [hs1]) (by rw [hs1]) (fun m => by rw [hnd1]), ?_, ?_, ?_, ?_, fun m _ => hnd1 m,
      fun m hmm => absurd (E1.marks m) hmm⟩
    · intro c p i hm
      rw [hnd1] at hm
      rw [hnd1, hnd1]
      by_cases e : p = op'
      · by_cases ec : c = oc
        · exact Or.inr (Or.inr ⟨ec, e⟩)
        · rw [e] at hm ⊢; exact Or.inl (hother c i hm ec)
      · exact Or.inl (I.hlt c p i hm (hclosed p e))
    · intro c p i _ hmc
      exact absurd (E1.marks c) hmc
    · intro m hqm _ _
      rw [hnd1] at hqm ⊢
      by_cases e : m = op'
      · rw [e] at hqm ⊢; exact hgtop hqm
      · exact I.hgt m hqm (hclosed m e)
    · intro m hqm
      rw [hnd1] at hqm ⊢
      by_cases e : m = op'
      · rw [e] at hqm ⊢; rw [hgtop hqm]; exact Int.le_refl _
      · rw [I.hgt m hqm (hclosed m e)]; exact Int.le_refl _
  obtain ⟨A2, -, -⟩ := ehr_step h2 A1 (fun x q i hx => hx.1) hne0 hocp
    (by rw [hnd1, hs1]; exact Int.le_refl _) (Nat.le_refl _)
  have A2' : AInv op' s s2 noX noY := A2.mono (fun x q i _ hx => hx.2 hx.1.2) (fun _ hy => hy)
  obtain ⟨A3, E3⟩ := loop_spec hlt0 hrhs fuel s2 s3 h3 A2'
  rw [e3]
  exact ⟨close A3 E3 I hopen hclosed hedge hq, E3, A3.rel, A3.low⟩

/-- the headline in the form asked for -/
theorem adjustHeights_specB {env : Env} {oc op' fuel : Nat} {s s' : State} {op : Nat → Op} {ex : Nat → Prop}
    (h : (adjustHeights oc op' fuel).run.run s = (.ok (), s'))
    (I : GInvB env s op ex)
    (hopen : op op' = .linking (s.children op').length) (hclosed : ∀ m, m ≠ op' → op m = .closed)
    (hedge : ∃ i, (op', i) ∈ (s.nodeD oc).parents)
    (hother : ∀ c i, (op', i) ∈ (s.nodeD c).parents → c ≠ oc → (s.nodeD c).height < (s.nodeD op').height)
    (hgtop : (s.nodeD op').inRch = true → (s.nodeD op').heightInRch = (s.nodeD op').height)
    (hq : s.isStale op' = true → ex op' ∨ (s.nodeD op').inRch = true)
    (hah : AhhEmpty s)
    (hrhs : ∀ (b : Nat) (br : BindRec), s.binds[b]? = some br → br.allNodesCreatedOnRhs = []) :
    GInvB env s' (upd op op' .closed) ex ∧ AhhEmpty s' ∧ HRel s s' := by
  obtain ⟨h1, h2, h3, -⟩ := adjustHeights_specB_full h I hopen hclosed hedge hother hgtop hq hah hrhs
  exact ⟨h1, h2, h3⟩

end IncrVerif.Proofs.BindH
