import IncrVerif.Proofs.PerKeyH77
import IncrVerif.Proofs.PerKeyH78
import IncrVerif.Proofs.PerKeyH31
/-!
# Per-key operators, `stabilise`, part 3: the prefix of `stabilise`

* `PFrag.of_xf`: the fragment along `XF` + node fields.
* `isStale_V`: staleness of the actual state is `staleOf` of the value-faithful virtual state.
* `obsMap_back`: observer records along two `ObsMap`s, backwards.
* **`stab_startP`**: after the prefix of `stabilise` (status set, observers added and unlinked) the drain invariant
  `PD env t2 none` and `NoRem t2` hold (route: `TSim` to the structural twin, `ExpertH.Sim` to its virtual state, the
  static lemmas `addNewObservers_s`/`unlinkDisallowedObservers_s` there, `Kin` transfer to `V`).
-/
namespace IncrVerif.Proofs.PerKeyH
open IncrVerif.Engine IncrVerif.Driver IncrVerif.Proofs IncrVerif.Proofs.Step IncrVerif.Proofs.Sched
open IncrVerif.Proofs.ExpertH IncrVerif.Proofs.EffH IncrVerif.Proofs.DriverH IncrVerif.Proofs.ExpertH.QR

/-- the fragment along `XF` -/
theorem PFrag.of_xf {env : Env} {s s' : State} (F : PFrag env s) (X : XF s s')
    (hpc : s'.panicCountdown = none) (hvalid : ∀ m, (s'.nodeD m).valid = true)
    (hni : ∀ (e : Nat) (er : ExpertRec), s'.experts[e]? = some er → er.numInvalidChildren = 0)
    (hn : ∀ m, (s'.nodeD m).cutoff = (s.nodeD m).cutoff ∧ (s'.nodeD m).createdIn = (s.nodeD m).createdIn ∧
      (s'.nodeD m).forceNecessary = (s.nodeD m).forceNecessary)
    (hsc : s'.currentScope = s.currentScope) : PFrag env s' := by
  have hsz := X.size
  refine ⟨hpc, fun n hn' => by rw [X.kind]; exact F.kind n (by rw [← hsz]; exact hn'), fun n _ => hvalid n,
    fun n hn' => by rw [(hn n).1]; exact F.cutoff n (by rw [← hsz]; exact hn'),
    fun n hn' => by rw [(hn n).2.1]; exact F.top n (by rw [← hsz]; exact hn'),
    fun n hn' => by rw [(hn n).2.2]; exact F.force n (by rw [← hsz]; exact hn'), ?_, ?_, ?_, by rw [hsc]; exact F.scope⟩
  · intro n e hn' hk
    rw [X.kind] at hk
    obtain ⟨er, he, hnode⟩ := F.xrec n e (by rw [← hsz]; exact hn') hk
    obtain ⟨er', he', -, hn2, -⟩ := X.xrec he
    exact ⟨er', he', by rw [hn2]; exact hnode⟩
  · intro e er' he'
    obtain ⟨er, he, -, hn2, -⟩ := X.xrec_back he'
    obtain ⟨h1, h2⟩ := F.xnode e er he
    rw [hn2, hsz, X.kind]; exact ⟨h1, h2⟩
  · intro e er' he'
    obtain ⟨er, he, hf, -, -, hpk, -⟩ := X.xrec_back he'
    obtain ⟨h1, -, h3⟩ := F.xok e er he
    exact ⟨by rw [hpk]; exact h1, hni e er' he', by rw [hf]; exact h3⟩

/-- staleness of the actual state, read in the value-faithful virtual state -/
theorem isStale_V {env : Env} {s : State} (F : PFrag env s) (m : Nat) : s.isStale m = staleOf (V s) m := by
  rw [← V_isStale s m]
  exact isStale_static (V s) m (by rw [V_nodeD, vNode_valid]; exact F.validD m) (staticKind_VD F m)

/-- observer records along two `ObsMap`s, backwards -/
theorem obsMap_back {f g : ObsState → ObsState} {a b c : State} (h1 : ObsMap f a b) (h2 : ObsMap g b c)
    {o : Nat} {ob' : ObsRec} (ho : c.observers[o]? = some ob') :
    ∃ ob, a.observers[o]? = some ob ∧ ob.node = ob'.node := by
  have hlt : o < a.observers.size := by
    rw [← h1.1, ← h2.1]
    exact (Array.getElem?_eq_some_iff.1 ho).1
  have ha : a.observers[o]? = some a.observers[o] := Array.getElem?_eq_getElem hlt
  obtain ⟨ob1, hb, hn1, -⟩ := h1.2 o _ ha
  obtain ⟨ob2, hc, hn2, -⟩ := h2.2 o _ hb
  rw [ho] at hc; cases hc
  exact ⟨_, ha, by rw [hn2, hn1]⟩

theorem V_status_set (s : State) (x : Status) : V { s with status := x } = { V s with status := x } := rfl

set_option maxHeartbeats 1000000 in
/-- **the prefix of `stabilise`** ends in the drain invariant with per-key operators -/
theorem stab_startP {env : Env} {rk : Nat → Nat} {fuel : Nat} {s s0 t1 t2 : State}
    (Q : PQ env rk s) (hs0 : s0 = { s with status := .stabilising })
    (h1 : (addNewObservers env fuel).run.run s0 = (.ok (), t1))
    (h2 : (unlinkDisallowedObservers fuel).run.run t1 = (.ok (), t2)) :
    PD env t2 none ∧ NoRem t2 ∧ ObsInv (V t2) [] [] ∧ t2.newObservers = [] ∧ t2.disallowedObservers = [] ∧
      PFrame (V s0) (V t2) := by
  have Qv := Q.q
  have hs0V : V s0 = { V s with status := .stabilising } := by rw [hs0]; rfl
  have hnd0 : ∀ m, (V s0).nodeD m = (V s).nodeD m := fun m => by rw [hs0V]; rfl
  have hvars0 : (V s0).vars = (V s).vars := by rw [hs0V]
  have hstab0 : (V s0).stabNum = (V s).stabNum := by rw [hs0V]
  have hsz0 : (V s0).nodes.size = (V s).nodes.size := by rw [hs0V]
  have F0 : PFrag env s0 := by
    rw [hs0]
    exact ⟨Q.frag.pc, Q.frag.kind, Q.frag.valid, Q.frag.cutoff, Q.frag.top, Q.frag.force, Q.frag.xrec, Q.frag.xnode,
      Q.frag.xok, Q.frag.scope⟩
  have A0 : QR.AhhEmpty s0 := by
    rw [hs0]; exact ⟨Q.ahh.length, Q.ahh.buckets, Q.ahh.marks⟩
  have hp0 : s0.propagateInvalidity = [] := by rw [hs0]; exact Qv.pinv
  have S0V : Struct (penv env) rk (V s0) := by
    rw [hs0V]; exact Qv.struct.congr (SameG.of_nodes rfl rfl rfl rfl rfl)
  have O0V : ObsOK (V s0) := by
    rw [hs0V]
    exact ⟨Qv.obs.inRange, Qv.obs.mem, Qv.obs.created, Qv.obs.newIn, Qv.obs.dis, Qv.obs.disIn, Qv.obs.disNodup⟩
  -- the virtual state of the structural twin
  have K0 := kin_twin_V [] s0
  have S0 : SInv (virtEnv (twEnv env)) rk (virt (twL [] s0)) (virt (twL [] s0)).newObservers
      (virt (twL [] s0)).disallowedObservers :=
    ⟨K0.symm.struct S0V (sk_virt_twin [] F0), K0.symm.obsOK O0V, hp0,
      fun m => by rw [K0.symm.numOnUpdateHandlers, hnd0]; exact Qv.handlers m⟩
  -- the prefix: simulated on the twin, then on its virtual state
  obtain ⟨⟨l1, hT1⟩, fr1⟩ := TSim.addNewObservers env fuel s0 (fr_of_pfrag F0 hp0) [] () t1 h1
  obtain ⟨hv1, frW1⟩ := Sim.addNewObservers (twEnv env) fuel (twL [] s0) (fr_twin [] F0 hp0) _ _ hT1
  obtain ⟨S1, hn1, hd1, P1, O1, -⟩ := addNewObservers_s S0 hv1
  obtain ⟨⟨l2, hT2⟩, fr2⟩ := TSim.unlinkDisallowedObservers fuel t1 fr1 l1 () t2 h2
  obtain ⟨hv2, frW2⟩ := Sim.unlinkDisallowedObservers fuel (twL l1 t1) frW1 _ _ hT2
  obtain ⟨S2, hn2, hd2, P2, O2⟩ := unlinkDisallowedObservers_s S1 hn1 hv2
  have P := P1.trans P2
  have hn2' : t2.newObservers = [] := hn2
  have hd2' : t2.disallowedObservers = [] := hd2
  -- frames of the actual run
  have X : XF s0 t2 := XF.trans ((PresX.addNewObservers env fuel).h _ _ _ h1)
    ((PresX.unlinkDisallowedObservers fuel).h _ _ _ h2)
  have hpk : t2.perkeys = s0.perkeys :=
    Eq.trans ((KP.unlinkDisallowedObservers fuel).h _ _ _ h2) ((KP.addNewObservers env fuel).h _ _ _ h1)
  have A2 : QR.AhhEmpty t2 := ahhEmpty_of_ahf (ahhEmpty_of_ahf A0 ((PresAh.addNewObservers env fuel).h _ _ _ h1))
    ((PresAh.unlinkDisallowedObservers fuel).h _ _ _ h2)
  -- the frame of the value-faithful virtual states
  have K2 := kin_twin_V l2 t2
  have hkV : ∀ m, ((V t2).nodeD m).kind = ((V s0).nodeD m).kind := fun m => by
    rw [V_kind, V_kind, X.kind m, vKind_of_xf X hpk]
  have PV : PFrame (V s0) (V t2) := K0.pFrame K2 (KK.of_all hkV) P
  have hnk : ∀ m, (t2.nodeD m).cutoff = (s0.nodeD m).cutoff ∧ (t2.nodeD m).createdIn = (s0.nodeD m).createdIn ∧
      (t2.nodeD m).forceNecessary = (s0.nodeD m).forceNecessary ∧ (t2.nodeD m).value = (s0.nodeD m).value ∧
      (t2.nodeD m).numOnUpdateHandlers = (s0.nodeD m).numOnUpdateHandlers := by
    intro m
    have := PV.nk m
    simp only [V_nodeD, vNode_cutoff, vNode_createdIn, vNode_forceNecessary, vNode_value, vNode_num] at this
    exact ⟨this.2.2.1, this.2.1, this.2.2.2.2.2.2.2.1, this.2.2.2.1, this.2.2.2.2.2.2.2.2⟩
  have F2 : PFrag env t2 := F0.of_xf X fr2.pc fr2.valid fr2.ni
    (fun m => ⟨(hnk m).1, (hnk m).2.1, (hnk m).2.2.1⟩) PV.sk.2.2.2.2.1
  have SV2 : Struct (penv env) rk (V t2) := struct_V F2 S2.struct
  have VO0 : VarsOK (V s0) := by
    refine ⟨?_, ?_⟩
    · intro n c hn hk; rw [hnd0] at hk; rw [hvars0]; exact Qv.vars.node n c (by rw [← hsz0]; exact hn) hk
    · intro c vc hc; rw [hvars0] at hc; rw [hsz0, hnd0]; exact Qv.vars.cell c vc hc
  have V2 : VarsOK (V t2) := PV.varsOK VO0
  have st2 : ∀ m, ((V t2).nodeD m).recomputedAt < (V t2).stabNum ∧
      ((V t2).nodeD m).changedAt < (V t2).stabNum := by
    intro m
    rw [PV.recomputedAt, PV.changedAt, PV.stabNum, hstab0, hnd0]; exact Qv.stamps m
  have cons2 : ∀ m, m < (V t2).nodes.size → staleOf (V t2) m = false → Consistent (penv env) (V t2) m := by
    intro m hm hs
    rw [PV.staleOf] at hs
    have hs' : staleOf (V s) m = false := by
      rw [← hs]; exact (staleOf_congr (by rw [hnd0]) (by rw [hnd0]) hvars0 (fun c _ => by rw [hnd0])).symm
    have hc := Qv.cons m (by rw [← hsz0, ← PV.size]; exact hm) hs'
    have hc0 : Consistent (penv env) (V s0) m := by
      obtain ⟨w, hw, hv⟩ := hc
      exact ⟨w, Target.congr (by rw [hnd0]) hvars0 (fun c _ => by rw [hnd0]) hw, by rw [hnd0]; exact hv⟩
    exact PV.consistent hc0
  have D2 : BindH.DInv (penv env) (V t2) none :=
    dinv_of_struct SV2 V2 (by rw [PV.stabNum, hstab0]; exact Qv.now) st2
      (fun c vc hc => by rw [PV.vars, hvars0] at hc; rw [PV.stabNum, hstab0]; exact Qv.varStamp c vc hc) cons2
  -- observers
  have O2V : ObsInv (V t2) [] [] := by
    have hW : ObsOK (virt (twL l2 t2)) := by
      unfold ObsOK; rw [hn2, hd2]; exact S2.obs
    have := K2.obsOK hW
    unfold ObsOK at this
    have e1 : (V t2).newObservers = [] := hn2'
    have e2 : (V t2).disallowedObservers = [] := hd2'
    rw [e1, e2] at this
    exact this
  have hlist : ∀ m o, o ∈ (t2.nodeD m).observers →
      ∃ ob, t2.observers[o]? = some ob ∧ ob.node = m ∧ (ob.state = .inUse ∨ ob.state = .disallowed) := by
    intro m o ho
    have := (O2V.mem m o).1 (by rw [V_nodeD, vNode_observers]; exact ho)
    exact this
  have hrec : ∀ (o : Nat) (ob' : ObsRec), t2.observers[o]? = some ob' →
      ∃ ob, s.observers[o]? = some ob ∧ ob.node = ob'.node := by
    intro o ob' ho
    have ho' : (virt (twL l2 t2)).observers[o]? = some ob' := ho
    obtain ⟨ob, h3, h4⟩ := obsMap_back O1 O2 ho'
    have h3' : s0.observers[o]? = some ob := h3
    rw [hs0] at h3'
    exact ⟨ob, h3', h4⟩
  -- the bookkeeping frame
  have stale2 : ∀ m, t2.isStale m = s0.isStale m := fun m => by
    rw [isStale_V F2, isStale_V F0, PV.staleOf]
  have KF0 : PKF s s0 := by
    rw [hs0]
    exact ⟨XF.of_nodes rfl rfl rfl, fun _ => rfl, fun _ => rfl, rfl, rfl, rfl, fun _ => rfl⟩
  have KF2 : PKF s0 t2 := ⟨X, fun m => (hnk m).2.2.2.1, stale2, PV.top, hpk, PV.vars, PV.recomputedAt⟩
  have KF := KF0.trans KF2
  have PK2 : PKOK env t2 := PKOK.of_frame KF Q.pk hrec
    (fun m o ho => by obtain ⟨ob, h3, h4, -⟩ := hlist m o ho; exact ⟨ob, h3, h4⟩)
  -- the callback discipline
  have hv0 : ∀ m, (s0.nodeD m).valid = true := F0.validD
  have L0 : SlotInv env s0 := by rw [hs0]; exact slotInv_status Q.slots .stabilising
  have L1 := addNewObservers_slots hv0 hp0 L0 h1
  have L2 := unlinkDisallowedObservers_slots fr1.valid L1 h2
  have X2 : AuxP env t2 :=
    ⟨F2, A2, fr2.pinv,
      fun m => by rw [(hnk m).2.2.2.2]; have := Qv.handlers m; rw [← hnd0, V_nodeD, vNode_num] at this; exact this,
      ⟨rk, SV2.static⟩, fun c => by have := SV2.nodup c; rwa [V_nodeD, vNode_parents] at this, V2, PK2, L2, hlist,
      fun k x hk => by
        have e : t2.top = s.top := by rw [show t2.top = s0.top from PV.top, hs0]
        rw [e] at hk
        have := Qv.top k x hk
        rw [← hsz0, ← PV.size, V_size] at this; exact this⟩
  exact ⟨⟨D2, X2⟩, NoRem.of_pkf KF Q.norem, O2V, hn2', hd2', PV⟩

end IncrVerif.Proofs.PerKeyH
