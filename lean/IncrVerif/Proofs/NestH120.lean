import IncrVerif.Proofs.NestH117
/-!
# Nested binds (F2), part 7f: `ProgOK` along histories; HEADLINE: at every `stabilise` every in-use observer reads the TEXT-LEVEL reference value `Spec.denoteTop`
-/
namespace IncrVerif.Proofs.NestH
open IncrVerif.Engine IncrVerif.Driver IncrVerif.Proofs IncrVerif.Proofs.Step IncrVerif.Proofs.Sched IncrVerif.Proofs.Quiet
open IncrVerif.Proofs.BindH
open IncrVerif.Spec

namespace N7
open IncrVerif.Proofs.BindH.C3d IncrVerif.Proofs.NestH.N5d IncrVerif.Proofs.NestH.N7k

/-- creation of a static node -/
theorem progOK_create_static {p : RefProg} {env : Env} {rk : Nat → Nat} {s s' : State} {i : Instr} {tokens : Array Nat}
    {r : String × Array Nat} (Q : QInv2 env rk s) (hst : StaticInstr env i)
    (h : (stepAction env (.create i) tokens).run.run s = (.ok r, s')) (P : ProgOK p env s) :
    ProgOK (progStep p (.create i)) env s' := by
  have hsc := Q.struct.frag.scope
  have hin := top_in Q
  unfold stepAction at h
  simp only at h
  obtain ⟨ro, s1, h1, h2⟩ := bind_ok_inv h
  obtain ⟨k, ero, C, hImg, hvar⟩ := elab_static_img hsc hst h1
  rw [ero] at h2
  simp only at h2
  obtain ⟨s2, e2, h3⟩ := bind_modify_inv h2
  obtain ⟨-, e3⟩ := pure_ok_inv h3
  rw [e3, e2]
  have K := bkey_of_ext (C.ext.withTop (s1.top.push s.nodes.size) (s.nodes.size :: s1.handles))
  have ht : ({ s1 with top := s1.top.push s.nodes.size, handles := s.nodes.size :: s1.handles } : State).top =
      s.top.push s.nodes.size := by show s1.top.push _ = _; rw [C.top]
  have hkind : (({ s1 with top := s1.top.push s.nodes.size, handles := s.nodes.size :: s1.handles } : State).nodeD
      s.nodes.size).kind = k := by
    show (s1.nodeD s.nodes.size).kind = k
    rw [C.nodeD_new]; rfl
  have htop : ∀ (j n : Nat), s.top[j]? = some n →
      ({ s1 with top := s1.top.push s.nodes.size, handles := s.nodes.size :: s1.handles } : State).top[j]? = some n := by
    intro j n hj
    rw [ht, Array.getElem?_push, if_neg (by have := (Array.getElem?_eq_some_iff.1 hj).1; omega)]
    exact hj
  have hvs : ({ s1 with top := s1.top.push s.nodes.size, handles := s.nodes.size :: s1.handles } : State).vars = s1.vars := rfl
  generalize ({ s1 with top := s1.top.push s.nodes.size, handles := s.nodes.size :: s1.handles } : State) = t
    at K ht hkind htop hvs ⊢
  have hsame : (∀ c, k ≠ .var c) → ∀ c : Nat, p.vars[c]? = (t.vars[c]?).map VarCell.value := by
    intro hk c
    rcases C.vars with ⟨-, e⟩ | ⟨v, e, -⟩
    · rw [hvs, e]; exact P.vars c
    · exact absurd e (hk _)
  cases i <;> first | exact hst.elim | skip
  · -- const
    simp only [StaticImg] at hImg
    have hk : ∀ c, k ≠ .var c := by
      intro c e; rw [e] at hImg; simp only [kindOfInstr] at hImg; cases hImg
    refine progOK_push P hin K ht rfl rfl (fun _ _ => rfl) (hsame hk) ?_
    simp only [TopImg]
    refine ⟨?_, ?_⟩
    · intro e; cases e
    · rw [hkind]; exact kindOfInstr_ext htop _ _ hImg
  · -- var
    rename_i v
    simp only [StaticImg] at hImg
    have hsz := vars_size P
    refine progOK_push P hin K ht rfl rfl ?_ ?_ ?_
    · intro j hj
      show List.lookup j ((p.nodes.size, p.vars.size) :: p.varOf) = _
      rw [List.lookup_cons]
      have : (j == p.nodes.size) = false := by simp; omega
      rw [this]
    · intro c
      show (p.vars.push v)[c]? = _
      rw [hvs, hvar v rfl, Array.getElem?_push, Array.getElem?_push, hsz]
      by_cases e : c = s.vars.size
      · rw [if_pos e, if_pos e]; rfl
      · rw [if_neg e, if_neg e]; exact P.vars c
    · simp only [TopImg]
      refine ⟨s.vars.size, by rw [hkind, hImg], ?_⟩
      show List.lookup p.nodes.size ((p.nodes.size, p.vars.size) :: p.varOf) = _
      rw [List.lookup_cons]
      simp only [beq_self_eq_true, hsz]
  · -- map
    simp only [StaticImg] at hImg
    have hk : ∀ c, k ≠ .var c := by
      intro c e; rw [e] at hImg; simp only [kindOfInstr] at hImg
      cases hr : resolveAll s [] _ with
      | none => rw [hr] at hImg; cases hImg
      | some ns => rw [hr] at hImg; cases hImg
    refine progOK_push P hin K ht rfl rfl (fun _ _ => rfl) (hsame hk) ?_
    simp only [TopImg]
    refine ⟨?_, ?_⟩
    · intro e; cases e
    · rw [hkind]; exact kindOfInstr_ext htop _ _ hImg
  · -- fold
    simp only [StaticImg] at hImg
    have hk : ∀ c, k ≠ .var c := by
      intro c e; rw [e] at hImg; simp only [kindOfInstr] at hImg
      cases hr : resolveAll s [] _ with
      | none => rw [hr] at hImg; cases hImg
      | some ns =>
        rw [hr] at hImg
        simp only [Option.map_some] at hImg
        split at hImg <;> cases hImg
    refine progOK_push P hin K ht rfl rfl (fun _ _ => rfl) (hsame hk) ?_
    simp only [TopImg]
    refine ⟨?_, ?_⟩
    · intro e; cases e
    · rw [hkind]; exact kindOfInstr_ext htop _ _ hImg
  · -- zip
    simp only [StaticImg] at hImg
    obtain ⟨ka, kb, na, nb, rfl, rfl, hka, hkb, hor⟩ := hImg
    have hk : ∀ c, k ≠ .var c := by
      intro c e
      rcases hor with e' | ⟨_, _, _, _, e'⟩ <;> rw [e] at e' <;> cases e'
    refine progOK_push P hin K ht rfl rfl (fun _ _ => rfl) (hsame hk) ?_
    simp only [TopImg]
    refine ⟨ka, kb, na, nb, rfl, rfl, ?_, ?_, htop _ _ hka, htop _ _ hkb, ?_⟩
    · rw [P.size]; exact (Array.getElem?_eq_some_iff.1 hka).1
    · rw [P.size]; exact (Array.getElem?_eq_some_iff.1 hkb).1
    · rw [hkind, K.kind na (hin _ _ hka), K.kind nb (hin _ _ hkb)]
      exact hor

/-- creation of a top-level bind -/
theorem progOK_create_bind {p : RefProg} {env : Env} {rk : Nat → Nat} {s s' : State} {body k : Nat} {tokens : Array Nat}
    {r : String × Array Nat} (Q : QInv2 env rk s) {f : Nat} (hB : BodyF2 env s.top.size f body)
    (h : (stepAction env (.create (.bind body (.outer k))) tokens).run.run s = (.ok r, s')) (P : ProgOK p env s) :
    ProgOK (progStep p (.create (.bind body (.outer k)))) env s' := by
  have hsc := Q.struct.frag.scope
  have hin := top_in Q
  unfold stepAction at h
  simp only at h
  obtain ⟨ro, s1, h1, h2⟩ := bind_ok_inv h
  obtain ⟨l, hl, ero, C⟩ := C2c.elab_bind1 hsc h1
  rw [ero] at h2
  simp only at h2
  obtain ⟨s2, e2, h3⟩ := bind_modify_inv h2
  obtain ⟨-, e3⟩ := pure_ok_inv h3
  rw [e3, e2]
  have K := bkey_of_ext (C.ext.withTop (s1.top.push (s.nodes.size + 1)) ((s.nodes.size + 1) :: s1.handles))
  have ht : ({ s1 with top := s1.top.push (s.nodes.size + 1), handles := (s.nodes.size + 1) :: s1.handles } : State).top =
      s.top.push (s.nodes.size + 1) := by show s1.top.push _ = _; rw [C.top]
  have hkind : (({ s1 with top := s1.top.push (s.nodes.size + 1), handles := (s.nodes.size + 1) :: s1.handles } : State).nodeD
      (s.nodes.size + 1)).kind = .bindMain s.binds.size s.nodes.size := by
    show (s1.nodeD (s.nodes.size + 1)).kind = _
    rw [C.nodeD_main]
  have hb : ({ s1 with top := s1.top.push (s.nodes.size + 1), handles := (s.nodes.size + 1) :: s1.handles } : State).binds[s.binds.size]? =
      some { lhs := l, body := body, lhsChange := s.nodes.size, main := s.nodes.size + 1 } := C.bind_new
  have hvs : ({ s1 with top := s1.top.push (s.nodes.size + 1), handles := (s.nodes.size + 1) :: s1.handles } : State).vars = s.vars :=
    C.vars
  generalize ({ s1 with top := s1.top.push (s.nodes.size + 1), handles := (s.nodes.size + 1) :: s1.handles } : State) = t
    at K ht hkind hb hvs ⊢
  refine progOK_push P hin K ht rfl rfl (fun _ _ => rfl) (fun c => by rw [hvs]; exact P.vars c) ?_
  simp only [TopImg]
  refine ⟨k, s.binds.size, s.nodes.size, _, rfl, hkind, hb, rfl, ?_, f, ?_⟩
  · show t.top[k]? = some l
    rw [ht, Array.getElem?_push, if_neg (by have := (Array.getElem?_eq_some_iff.1 hl).1; omega)]
    exact hl
  · show BodyD p.env f body
    rw [P.env]
    exact bodyD_of_F2 env s.top.size f body hB

/-- a write -/
theorem progOK_write {p : RefProg} {env : Env} {rk : Nat → Nat} {s s' : State} {v : Nat} {f : Val → Val} {isSet : Bool} {r : Val}
    (Q : QInv2 env rk s) (h : (writeVar v f isSet).run.run s = (.ok r, s')) (P : ProgOK p env s) :
    ProgOK { p with vars := p.vars.modify v f } env s' := by
  obtain ⟨-, vc, hvc, -, hvc', hoth⟩ := writeVar_q2 Q h
  have ht := ((C2h.PresTop.writeVar v f isSet).h _ _ _ h).top
  have K := (PresBK.writeVar v f isSet).h _ _ _ h
  exact progOK_frame' P rfl rfl rfl (top_in Q) ht K (write_vars P hvc hvc' rfl hoth)

end N7

/-- **`ProgOK` is kept by every API action of the fragment**: the text moves by `progStep`, the state by the action -/
theorem progOK_step {p : RefProg} {env : Env} {s s' : State} {a : Action} {tokens : Array Nat} {r : String × Array Nat}
    (Q : QI2 env s) (ha : ActionF2 env s.top.size a) (h : (stepAction env a tokens).run.run s = (.ok r, s'))
    (P : ProgOK p env s) : ProgOK (progStep p a) env s' := by
  obtain ⟨rk, Q'⟩ := Q
  -- actions that change neither the text nor the cells
  have hsame : (∀ i, a ≠ .create i) → progStep p a = p → s'.vars = s.vars → ProgOK (progStep p a) env s' := by
    intro hc hp hv
    rw [hp]
    exact N7.progOK_frame P (N7.top_in Q') ((C2h.PresTop.stepAction tokens (N4h.actionF1_of_F2 ha hc) hc).h _ _ _ h).top
      ((N7.PresBK.stepAction tokens ha hc).h _ _ _ h) (fun c => by rw [hv])
  cases a <;> try exact ha.elim
  case create i =>
    by_cases hb : ∃ body lhs, i = .bind body lhs
    · obtain ⟨body, lhs, rfl⟩ := hb
      obtain ⟨⟨k, rfl⟩, f, hB⟩ := ha
      exact N7.progOK_create_bind Q' hB h P
    · have hst : StaticInstr env i := by
        cases i <;> first | exact ha | exact (hb ⟨_, _, rfl⟩).elim
      exact N7.progOK_create_static Q' hst h P
  case observe n => exact hsame (fun _ e => by cases e) rfl ((N7.presVS_observe env n tokens).h _ _ _ h).vars
  case cloneObs o => exact hsame (fun _ e => by cases e) rfl ((N7.presVS_cloneObs env o tokens).h _ _ _ h).vars
  case dropObs o => exact hsame (fun _ e => by cases e) rfl ((N7.presVS_dropObs env o tokens).h _ _ _ h).vars
  case disallow o => exact hsame (fun _ e => by cases e) rfl ((N7.presVS_disallow env o tokens).h _ _ _ h).vars
  case stabilise =>
    refine hsame (fun _ e => by cases e) rfl ?_
    exact (stabilise_F2' ⟨rk, Q'⟩ (Quiet.step_stabilise h)).vars
  case set v x =>
    unfold stepAction at h
    dsimp only at h
    obtain ⟨_, s1, h1, h2⟩ := bind_ok_inv h
    obtain ⟨-, e2⟩ := pure_ok_inv h2
    obtain ⟨r1, h1⟩ := discard_ok_inv h1
    rw [e2]; exact N7.progOK_write Q' h1 P
  case modify v d =>
    unfold stepAction at h
    dsimp only at h
    obtain ⟨_, s1, h1, h2⟩ := bind_ok_inv h
    obtain ⟨-, e2⟩ := pure_ok_inv h2
    obtain ⟨r1, h1⟩ := discard_ok_inv h1
    rw [e2]; exact N7.progOK_write Q' h1 P
  case update v d =>
    unfold stepAction at h
    dsimp only at h
    obtain ⟨_, s1, h1, h2⟩ := bind_ok_inv h
    obtain ⟨-, e2⟩ := pure_ok_inv h2
    obtain ⟨r1, h1⟩ := discard_ok_inv h1
    rw [e2]; exact N7.progOK_write Q' h1 P
  case replace v x =>
    unfold stepAction at h
    dsimp only at h
    obtain ⟨_, s1, h1, h2⟩ := bind_ok_inv h
    obtain ⟨-, e2⟩ := pure_ok_inv h2
    rw [e2]; exact N7.progOK_write Q' h1 P
  case replaceWith v d =>
    unfold stepAction at h
    dsimp only at h
    obtain ⟨_, s1, h1, h2⟩ := bind_ok_inv h
    obtain ⟨-, e2⟩ := pure_ok_inv h2
    rw [e2]; exact N7.progOK_write Q' h1 P
  case get v =>
    unfold stepAction at h
    dsimp only at h
    obtain ⟨_, s1, h1, h2⟩ := bind_ok_inv h
    obtain ⟨-, e2⟩ := pure_ok_inv h2
    rw [e2, getVar_ok_inv h1]; exact P
  case isStable =>
    unfold stepAction at h
    dsimp only at h
    rw [run_bind_get] at h
    obtain ⟨-, e2⟩ := pure_ok_inv h
    rw [e2]; exact P
  case stats =>
    unfold stepAction at h
    dsimp only at h
    obtain ⟨-, e2⟩ := pure_ok_inv h
    rw [e2]; exact P

end IncrVerif.Proofs.NestH
