import IncrVerif.Proofs.CutH13
import IncrVerif.Proofs.CutH11
-- Port of Proofs/Quiet8.lean to ARBITRARY cutoffs (scratch name Q8); overview in Props/C06History.lean
/-!
# Part 7: the unlinking cascade keeps the structural invariant
-/
namespace IncrVerif.Proofs.CutH
open IncrVerif.Engine IncrVerif.Proofs IncrVerif.Proofs.Step IncrVerif.Proofs.Sched

theorem PresF.unlink (fuel : Nat) :
    (∀ n, Step.Pres CFrame (becameUnnecessary fuel n)) ∧
    (∀ n, Step.Pres CFrame (checkIfUnnecessary fuel n)) ∧
    (∀ n, Step.Pres CFrame (removeChildren fuel n)) := by
  induction fuel with
  | zero =>
    refine ⟨?_, ?_, ?_⟩
    · intro n; unfold becameUnnecessary; qpres
    · intro n; unfold checkIfUnnecessary; qpres
    · intro n; unfold removeChildren; qpres
  | succ fuel ih =>
    refine ⟨?_, ?_, ?_⟩
    · intro n
      unfold becameUnnecessary
      qpres
      all_goals exact ih.2.2 _
    · intro n
      unfold checkIfUnnecessary
      qpres
      all_goals exact ih.1 _
    · intro n
      unfold removeChildren
      qpres
      all_goals (apply Step.Pres.forIn; intro a b; qpres; exact ih.2.1 _)

theorem PresF.checkIfUnnecessary (fuel n) : Step.Pres CFrame (checkIfUnnecessary fuel n) :=
  (PresF.unlink fuel).2.1 n
cf_leaf PresF.checkIfUnnecessary

/-- parent lists shrink -/
structure URel (s s' : State) : Prop where
  fr : CFrame s s'
  pinv : s'.propagateInvalidity = s.propagateInvalidity
  par : ∀ m x, x ∈ (s'.nodeD m).parents → x ∈ (s.nodeD m).parents

theorem URel.refl (s : State) : URel s s := ⟨CFrame.refl s, rfl, fun _ _ h => h⟩
theorem URel.trans {a b c : State} (h1 : URel a b) (h2 : URel b c) : URel a c :=
  ⟨h1.fr.trans h2.fr, h2.pinv.trans h1.pinv, fun m x h => h1.par m x (h2.par m x h)⟩

theorem URel.of_lrel {s s' : State} (h : ∀ X, LRel X s s')
    (hp : ∀ m, (s'.nodeD m).parents = (s.nodeD m).parents) : URel s s' :=
  ⟨(h (fun _ => False)).fr, (h (fun _ => False)).pinv, fun m x hx => by rw [hp] at hx; exact hx⟩

theorem Irrel.urel {n : Nat} {s s' : State} (h : Irrel n s s') : URel s s' :=
  URel.of_lrel h.rel (fun m => (h.same.node m).parents)

def BUSpec (fuel : Nat) : Prop :=
  ∀ env n s s' op, (becameUnnecessary fuel n).run.run s = (.ok (), s') → GInv env s op →
    op n = .unlinking 0 → (∀ m, op m ≠ .closed → n ≤ m) →
    GInv env s' (upd op n .closed) ∧ Above n s s' ∧ URel s s'

def CUSpec (fuel : Nat) : Prop :=
  ∀ env c s s' op, (checkIfUnnecessary fuel c).run.run s = (.ok (), s') → GInv env s op →
    (∀ m, op m ≠ .closed → c ≤ m) →
    ((s.isNecessary c = true ∧ op c = .closed) ∨ (s.isNecessary c = false ∧ op c = .unlinking 0)) →
    GInv env s' (upd op c .closed) ∧ Above c s s' ∧ URel s s'

def RCSpec (fuel : Nat) : Prop :=
  ∀ env n s s' op, (removeChildren fuel n).run.run s = (.ok (), s') → GInv env s op →
    op n = .unlinking 0 → (∀ m, op m ≠ .closed → n ≤ m) →
    GInv env s' (upd op n (.unlinking (kids (s.nodeD n).kind).length)) ∧
      (∀ m, n ≤ m → s'.nodeD m = s.nodeD m) ∧ URel s s'

theorem cu_step (fuel : Nat) (ih : BUSpec fuel) : CUSpec (fuel + 1) := by
  intro env c s s' op h I hlow hcase
  unfold checkIfUnnecessary at h
  rw [run_bind_get] at h
  rcases hcase with ⟨hn, hcl⟩ | ⟨hn, hop⟩
  · rw [hn] at h
    simp only [Bool.not_true, Bool.false_eq_true, if_false] at h
    obtain ⟨-, rfl⟩ := pure_ok_inv h
    rw [upd_eq_self _ _ _ hcl]
    exact ⟨I, Above.refl _ _, URel.refl _⟩
  · rw [hn] at h
    simp only [Bool.not_false, if_true] at h
    exact ih env c s s' op h I hop hlow

theorem removeParent_ok_inv {c idx p : Nat} {s s' : State} {u : Unit}
    (h : (removeParent c idx p).run.run s = (.ok u, s')) :
    ∃ nd pi, s.nodes[c]? = some nd ∧ nd.parents.idxOf? (p, idx) = some pi ∧
      s' = { s with nodes := s.nodes.modify c fun x => { x with parents := swapRemove x.parents pi } } := by
  unfold removeParent at h
  obtain ⟨nd, hnd, h⟩ := bind_getNode_inv h
  cases hi : nd.parents.idxOf? (p, idx) with
  | none => rw [hi] at h; cases h
  | some pi =>
    rw [hi] at h
    simp only [run_modNode] at h
    cases h
    exact ⟨nd, pi, hnd, hi, rfl⟩

theorem rc_step (fuel : Nat) (ih : CUSpec fuel) : RCSpec (fuel + 1) := by
  intro env n s s' op h I hop hlow
  have hn : n < s.nodes.size := I.opLt n (by rw [hop]; exact fun e => by cases e)
  unfold removeChildren at h
  rw [run_bind_get] at h
  obtain ⟨b, s3, h3, h⟩ := bind_ok_inv h
  obtain ⟨-, e3⟩ := pure_ok_inv h
  rw [e3]
  have hcs : s.children n = kids (s.nodeD n).kind := I.children hn
  have hloop := forIn_ok_inv _ (s.children n)
    (fun j (b : Nat) t => b = j ∧ GInv env t (upd op n (.unlinking j)) ∧
      (∀ m, n ≤ m → t.nodeD m = s.nodeD m) ∧ URel s t)
    (by
      intro j c b t r t' hj ⟨hb, It, hsame, hrel⟩ hbody
      obtain ⟨_, t1, ha, hbody⟩ := bind_ok_inv hbody
      obtain ⟨_, t2, hc, hbody⟩ := bind_ok_inv hbody
      obtain ⟨hr, ht'⟩ := pure_ok_inv hbody
      rw [ht']
      refine ⟨_, hr, ?_⟩
      have hkj : (kids (t.nodeD n).kind)[j]? = some c := by
        rw [hsame n (Nat.le_refl _), ← hcs]; exact hj
      have hcn : c < n := It.kid_lt hkj
      have hct : c < t.nodes.size := by rw [hrel.fr.size]; omega
      have hclc : upd op n (.unlinking j) c = .closed := by
        rw [upd_other _ _ _ (by omega)]
        cases e : op c with
        | closed => rfl
        | linking k => have := hlow c (by rw [e]; exact fun e => by cases e); omega
        | unlinking k => have := hlow c (by rw [e]; exact fun e => by cases e); omega
      obtain ⟨nd, pi, hnd, hidx, e1⟩ := removeParent_ok_inv ha
      rw [hb] at hidx
      have hndD : t.nodeD c = nd := nodeD_of_some hnd
      rw [← hndD] at hidx
      have U : NodeUpd c (fParents (swapRemove (t.nodeD c).parents pi)) t t1 := by
        rw [e1]; exact NodeUpd.modify' hct rfl
      obtain ⟨Hnec, Hun⟩ := It.removeEdge hidx U (upd_self _ _ _) hkj hclc
      have hab1 : ∀ m, c < m → t1.nodeD m = t.nodeD m := by
        rw [e1]; exact Above.modify c _ t c (Nat.le_refl _)
      have hu1 : URel t t1 := by
        refine ⟨?_, ?_, ?_⟩
        · rw [e1]; exact CFrame.modNode t c _ (fun _ => rfl)
        · rw [e1]
        · intro m x hx
          by_cases e : m = c
          · rw [e] at hx ⊢
            rw [U.self.parents] at hx
            exact ((U4.swapRemove_spec _ _ _ (It.nodup c) hidx).1 x).1 hx |>.1
          · rw [(U.other m e).parents] at hx; exact hx
      have hlow' : ∀ (o : Nat → Op), (∀ m, m ≠ c → m ≠ n → o m = op m) → o n ≠ .closed →
          ∀ m, o m ≠ .closed → c ≤ m := by
        intro o ho _ m hm
        by_cases e1 : m = c
        · omega
        · by_cases e2 : m = n
          · omega
          · rw [ho m e1 e2] at hm; have := hlow m hm; omega
      rw [upd_upd] at Hnec Hun
      cases hnc : t1.isNecessary c with
      | true =>
        have I1 := Hnec hnc
        obtain ⟨I2, hab2, hu2⟩ := ih env c t1 t2 _ hc I1
          (hlow' _ (fun m _ e2 => upd_other _ _ _ e2) (by rw [upd_self]; exact fun e => by cases e))
          (Or.inl ⟨hnc, by rw [upd_other _ _ _ (by omega)]; rw [upd_other _ _ _ (by omega)] at hclc; exact hclc⟩)
        rw [upd_eq_self _ c .closed (by rw [upd_other _ _ _ (by omega)]; rw [upd_other _ _ _ (by omega)] at hclc; exact hclc)] at I2
        exact ⟨by rw [hb], I2, fun m hm => ((hab2 m (by omega)).trans (hab1 m (by omega))).trans (hsame m hm),
          (hrel.trans hu1).trans hu2⟩
      | false =>
        have I1 := Hun hnc
        obtain ⟨I2, hab2, hu2⟩ := ih env c t1 t2 _ hc I1
          (hlow' _ (fun m e1 e2 => by rw [upd_other _ _ _ e1, upd_other _ _ _ e2])
            (by rw [upd_other _ _ _ (by omega), upd_self]; exact fun e => by cases e))
          (Or.inr ⟨hnc, upd_self _ _ _⟩)
        rw [upd_upd, upd_eq_self _ c .closed (by rw [upd_other _ _ _ (by omega)]; rw [upd_other _ _ _ (by omega)] at hclc; exact hclc)] at I2
        exact ⟨by rw [hb], I2, fun m hm => ((hab2 m (by omega)).trans (hab1 m (by omega))).trans (hsame m hm),
          (hrel.trans hu1).trans hu2⟩)
    (s.children n) 0 0 s b s3 (by simp) (Nat.zero_le _)
    ⟨rfl, by rw [upd_eq_self _ _ _ hop]; exact I, fun _ _ => rfl, URel.refl _⟩ h3
  obtain ⟨-, I3, hsame3, hrel3⟩ := hloop
  rw [hcs] at I3
  exact ⟨I3, hsame3, hrel3⟩

theorem bu_step (fuel : Nat) (ih : RCSpec fuel) : BUSpec (fuel + 1) := by
  intro env n s s' op h I hop hlow
  have hn : n < s.nodes.size := I.opLt n (by rw [hop]; exact fun e => by cases e)
  unfold becameUnnecessary at h
  obtain ⟨s0, hs0, h⟩ := bind_modify_inv h
  obtain ⟨_, s1, h1, h⟩ := bind_ok_inv h
  obtain ⟨_, s2, h2, h⟩ := bind_ok_inv h
  obtain ⟨_, s3, h3, h⟩ := bind_ok_inv h
  obtain ⟨nd3, hnd3, h⟩ := bind_getNode_inv h
  have R0 : Irrel n s s0 := by rw [hs0]; exact Irrel.of_nodes rfl rfl rfl rfl rfl
  have R1 : Irrel n s s1 := R0.trans (Irrel.mhas h1)
  have I1 : GInv env s1 op := I.congr R1.same
  have hn1 : n < s1.nodes.size := by rw [R1.same.size]; exact hn
  have hnopar : (s1.nodeD n).parents = [] := parents_nil_of_not_nec (I1.unec n 0 hop)
  obtain ⟨U2, hab2, hl2, hh2, hoth2⟩ := setHeight_ok_upd hn1 h2
  have hopn : op n ≠ .closed := by rw [hop]; exact fun e => by cases e
  have I2 : GInv env s2 op := I1.setHeight_open U2 hopn (by intro p i hp; rw [hnopar] at hp; cases hp)
  have hu2 : URel s1 s2 := ⟨hl2.fr, hl2.pinv, fun m x hx => by
    by_cases e : m = n
    · rw [e, U2.self.parents] at hx; rw [e]; exact hx
    · rw [(U2.other m e).parents] at hx; exact hx⟩
  obtain ⟨I3, hsame3, hu3⟩ := ih env n s2 s3 op h3 I2 hop hlow
  have hn3 : n < s3.nodes.size := by rw [hu3.fr.size, U2.size]; exact hn1
  have hnd3D : s3.nodeD n = nd3 := nodeD_of_some hnd3
  have hkind3 : (s3.nodeD n).kind = (s2.nodeD n).kind := by rw [hsame3 n (Nat.le_refl _)]
  rw [← hkind3] at I3
  -- the node is not an expert node
  have hq : nd3.kind? = some (s3.nodeD n).kind := by
    rw [← hnd3D, Node.kind?, (I3.node hn3).valid]; rfl
  have hA : Above n s s3 := (R1.above.trans hab2).trans (fun m hm => hsame3 m (by omega))
  have hU : URel s s3 := (R1.urel.trans hu2).trans hu3
  have fin : ∀ t', (do
        let s ← get
        dassert (!s.needsToBeComputed n) "node:became_unnecessary:not-needs-to-be-computed"
        if (s.nodeD n).inRch = true then rchRemove n else pure ()).run.run s3 = (.ok (), t') →
      GInv env t' (upd op n .closed) ∧ Above n s t' ∧ URel s t' := by
    intro t' ht
    rw [run_bind_get] at ht
    replace ht := bind_dassert_inv ht
    cases hin : (s3.nodeD n).inRch with
    | false =>
      rw [hin] at ht
      simp only [Bool.false_eq_true, if_false] at ht
      obtain ⟨-, e⟩ := pure_ok_inv ht
      rw [e]
      have I4 := I3.close_unlink (upd_self _ _ _) (Nat.le_refl _) hin
      rw [upd_upd] at I4
      exact ⟨I4, hA, hU⟩
    | true =>
      rw [hin] at ht
      simp only [if_true] at ht
      obtain ⟨I4, hin4⟩ := I3.rchRemove_open (upd_self _ _ _) ht
      obtain ⟨nd, q, idx, hnd, -, -, -, e4⟩ := rchRemove_ok_inv ht
      have hkind4 : (t'.nodeD n).kind = (s3.nodeD n).kind := by
        rw [e4, removedAt_nodeD]; split <;> rfl
      have I5 := I4.close_unlink (upd_self _ _ _) (by rw [hkind4]; exact Nat.le_refl _) hin4
      rw [upd_upd] at I5
      refine ⟨I5, hA.trans ?_, hU.trans ⟨(PresF.rchRemove n).h _ _ _ ht, by rw [e4]; rfl, ?_⟩⟩
      · intro m hm; rw [e4, removedAt_nodeD, if_neg (fun e => by omega)]
      · intro m x hx; rw [e4, removedAt_nodeD] at hx; split at hx
        · exact hx
        · exact hx
  rw [hq] at h
  have hsk := (I3.node hn3).kind
  cases hkd : (s3.nodeD n).kind <;> rw [hkd] at h hsk <;>
    first | exact fin s' h | exact hsk.elim

theorem unlink_spec (fuel : Nat) : BUSpec fuel ∧ CUSpec fuel ∧ RCSpec fuel := by
  induction fuel with
  | zero =>
    refine ⟨?_, ?_, ?_⟩
    · intro env n s s' op h; unfold becameUnnecessary at h; cases h
    · intro env n s s' op h; unfold checkIfUnnecessary at h; cases h
    · intro env n s s' op h; unfold removeChildren at h; cases h
  | succ fuel ih => exact ⟨bu_step fuel ih.2.2, cu_step fuel ih.1, rc_step fuel ih.2.1⟩

/-- **The unlinking cascade.** A successful `checkIfUnnecessary c` on a closed node that is still necessary,
or on a node that has just become unnecessary (labelled `.unlinking 0`: all its child edges are still
recorded), which is the lowest open node, closes `c`: the structural invariant holds with `c` closed, nodes
above `c` are untouched, parent lists only shrank. -/
theorem checkIfUnnecessary_spec {env : Env} {fuel c : Nat} {s s' : State} {op : Nat → Op}
    (h : (checkIfUnnecessary fuel c).run.run s = (.ok (), s')) (I : GInv env s op)
    (hlow : ∀ m, op m ≠ .closed → c ≤ m)
    (hcase : (s.isNecessary c = true ∧ op c = .closed) ∨ (s.isNecessary c = false ∧ op c = .unlinking 0)) :
    GInv env s' (upd op c .closed) ∧ Above c s s' ∧ URel s s' :=
  (unlink_spec fuel).2.1 env c s s' op h I hlow hcase

end IncrVerif.Proofs.CutH
