import IncrVerif.Proofs.ExpertH61
/-!
# Expert nodes, E2: the `flag` clause of `SlotInv` through the UNLINKING cascade

`FlagE s X`: a record whose "fire all" flag is down belongs to a necessary node, but for the nodes in `X`.
Between the removal of the last parent/observer of `c` and the end of `becameUnnecessary c` the node `c` is exempted;
`observabilityChange e false` at the end of `becameUnnecessary c` raises the flag and discharges the exemption.

* `PresM.rchRemove` (the rest of the `FM` ladder is in `XS3c`).
* `unlinkF_spec`: the mutual fuel induction over `becameUnnecessary` / `checkIfUnnecessary` / `removeChildren`.
* `checkIfUnnecessary_flagE`, `unlinkDisallowedObservers_slots`.
-/
namespace IncrVerif.Proofs.ExpertH
open IncrVerif.Engine IncrVerif.Driver IncrVerif.Proofs IncrVerif.Proofs.Step IncrVerif.Proofs.Sched
open IncrVerif.Proofs.ExpertH.QR IncrVerif.Proofs.Xp

/-! ## `FM` for the neutral steps -/

theorem PresM.rchRemove (n) : Step.Pres FM (Engine.rchRemove n) := by unfold Engine.rchRemove; qpres
fm_leaf PresM.rchRemove

/-! ## the `flag` clause with exemptions -/

def FlagE (s : State) (X : Nat → Prop) : Prop :=
  ∀ (n e : Nat) (er : ExpertRec), (s.nodeD n).kind = .expert e → s.experts[e]? = some er →
    er.willFireAllCallbacks = false → s.isNecessary n = true ∨ X n

theorem FlagE.mono {s : State} {X Y : Nat → Prop} (F : FlagE s X) (h : ∀ m, X m → Y m) : FlagE s Y :=
  fun n e er hk he hw => (F n e er hk he hw).imp id (h n)

/-- carried along the neutral frame -/
theorem FlagE.fm {s s' : State} {X : Nat → Prop} (F : FlagE s X) (R : FM s s') : FlagE s' X := by
  intro n e er' hk' he' hw
  obtain ⟨er, he, hww⟩ := R.flag_back he'
  exact (F n e er (by rw [← R.kind]; exact hk') he (by rw [hww]; exact hw)).imp (R.nec n) id

theorem FM.allValid {s s' : State} (R : FM s s') (hv : ∀ m, (s.nodeD m).valid = true) :
    ∀ m, (s'.nodeD m).valid = true := fun m => by rw [R.valid]; exact hv m

/-- an exemption of a necessary node, or of a node that is not an expert node, is not needed -/
theorem FlagE.drop {s : State} {X : Nat → Prop} {c : Nat} (F : FlagE s (fun m => X m ∨ m = c))
    (h : s.isNecessary c = true ∨ ∀ e, (s.nodeD c).kind ≠ .expert e) : FlagE s X := by
  intro n e er hk he hw
  rcases F n e er hk he hw with h1 | h1 | h1
  · exact Or.inl h1
  · exact Or.inr h1
  · subst h1
    rcases h with h | h
    · exact Or.inl h
    · exact absurd hk (h e)

/-- a change of one node: only that node may have lost necessity -/
theorem FlagE.modNode {s : State} {X : Nat → Prop} (c : Nat) (f : Node → Node)
    (F : FlagE s X) : FlagE { s with nodes := s.nodes.modify c f } (fun m => X m ∨ m = c) := by
  intro n e er hk he hw
  by_cases hnc : n = c
  · exact Or.inr (Or.inr hnc)
  · have hD : ({ s with nodes := s.nodes.modify c f } : State).nodeD n = s.nodeD n := by
      rw [nodeD_modify, if_neg (fun e => hnc e.1.symm)]
    rw [hD] at hk
    rcases F n e er hk he hw with h | h
    · left; simp only [State.isNecessary, hD]; exact h
    · exact Or.inr (Or.inl h)

theorem allValid_modNode {s : State} (c : Nat) (f : Node → Node) (hf : ∀ x, (f x).valid = x.valid)
    (hv : ∀ m, (s.nodeD m).valid = true) :
    ∀ m, (({ s with nodes := s.nodes.modify c f } : State).nodeD m).valid = true := by
  intro m
  rw [nodeD_modify]; split
  · rw [hf]; exact hv m
  · exact hv m

/-! ## `observabilityChange e false` raises the flag -/

theorem observabilityChange_false_inv {e : Nat} {s s' : State} {u : Unit}
    (h : (observabilityChange e false).run.run s = (.ok u, s')) :
    s'.nodes = s.nodes ∧
      s'.experts = s.experts.modify e fun x => { x with willFireAllCallbacks := true, numInvalidChildren := 0 } := by
  unfold observabilityChange at h
  obtain ⟨er, he, h⟩ := bind_getExpert_inv h
  cases hpk : er.pk.isNone <;> rw [hpk] at h <;>
    simp only [Bool.false_eq_true, if_false, if_true, Bool.not_false, run_bind, run_get,
      run_logEv, run_modExpert] at h <;> cases h <;> exact ⟨rfl, rfl⟩

theorem FlagE.raise {s s' : State} {X : Nat → Prop} {n e : Nat} (hn : s'.nodes = s.nodes)
    (he : s'.experts = s.experts.modify e fun x => { x with willFireAllCallbacks := true, numInvalidChildren := 0 })
    (hk : (s.nodeD n).kind = .expert e) (F : FlagE s (fun m => X m ∨ m = n)) : FlagE s' X := by
  have hD : ∀ m, s'.nodeD m = s.nodeD m := fun m => by simp [State.nodeD, hn]
  intro m e' er' hk' he' hw
  rw [hD] at hk'
  rw [he, Array.getElem?_modify] at he'
  by_cases hee : e = e'
  · subst hee
    rw [if_pos rfl] at he'
    cases hx : s.experts[e]? with
    | none => rw [hx] at he'; cases he'
    | some x =>
      rw [hx] at he'
      simp only [Option.map_some, Option.some.injEq] at he'
      rw [← he'] at hw; cases hw
  · rw [if_neg hee] at he'
    rcases F m e' er' hk' he' hw with h | h | h
    · left; simp only [State.isNecessary, hD]; exact h
    · exact Or.inr h
    · subst h; rw [hk] at hk'; cases hk'; exact absurd rfl hee

/-! ## the mutual fuel induction -/

def BUF (fuel : Nat) : Prop :=
  ∀ n s s' (X : Nat → Prop), (∀ m, (s.nodeD m).valid = true) → FlagE s (fun m => X m ∨ m = n) →
    (becameUnnecessary fuel n).run.run s = (.ok (), s') → FlagE s' X ∧ ∀ m, (s'.nodeD m).valid = true

def CUF (fuel : Nat) : Prop :=
  ∀ c s s' (X : Nat → Prop), (∀ m, (s.nodeD m).valid = true) → FlagE s (fun m => X m ∨ m = c) →
    (checkIfUnnecessary fuel c).run.run s = (.ok (), s') → FlagE s' X ∧ ∀ m, (s'.nodeD m).valid = true

def RCF (fuel : Nat) : Prop :=
  ∀ n s s' (Y : Nat → Prop), (∀ m, (s.nodeD m).valid = true) → FlagE s Y →
    (removeChildren fuel n).run.run s = (.ok (), s') → FlagE s' Y ∧ ∀ m, (s'.nodeD m).valid = true

theorem cuF_step (fuel : Nat) (ih : BUF fuel) : CUF (fuel + 1) := by
  intro c s s' X hv F h
  unfold checkIfUnnecessary at h
  rw [run_bind_get] at h
  cases hn : s.isNecessary c with
  | true =>
    rw [hn] at h
    simp only [Bool.not_true, Bool.false_eq_true, if_false] at h
    obtain ⟨-, rfl⟩ := pure_ok_inv h
    exact ⟨F.drop (Or.inl hn), hv⟩
  | false =>
    rw [hn] at h
    simp only [Bool.not_false, if_true] at h
    exact ih c s s' X hv F h

theorem rcF_step (fuel : Nat) (ih : CUF fuel) : RCF (fuel + 1) := by
  intro n s s' Y hv F h
  unfold removeChildren at h
  rw [run_bind_get] at h
  obtain ⟨b, s3, h3, h⟩ := bind_ok_inv h
  obtain ⟨-, e3⟩ := pure_ok_inv h
  rw [e3]
  exact forIn_ok_inv _ (s.children n)
    (fun _ (_ : Nat) t => FlagE t Y ∧ ∀ m, (t.nodeD m).valid = true)
    (by
      intro j c b t r t' _ ⟨Ft, hvt⟩ hbody
      obtain ⟨_, t1, ha, hbody⟩ := bind_ok_inv hbody
      obtain ⟨_, t2, hc, hbody⟩ := bind_ok_inv hbody
      obtain ⟨hr, ht'⟩ := pure_ok_inv hbody
      rw [ht']
      refine ⟨_, hr, ?_⟩
      obtain ⟨nd, pi, -, -, e1⟩ := removeParent_ok_inv ha
      rw [e1] at hc
      refine ih c _ t2 Y ?_ ?_ hc
      · exact allValid_modNode c _ (fun _ => rfl) hvt
      · exact Ft.modNode c _)
    (s.children n) 0 0 s b s3 (by simp) (Nat.zero_le _) ⟨F, hv⟩ h3

theorem buF_step (fuel : Nat) (ih : RCF fuel) : BUF (fuel + 1) := by
  intro n s s' X hv F h
  unfold becameUnnecessary at h
  obtain ⟨s0, hs0, h⟩ := bind_modify_inv h
  obtain ⟨_, s1, h1, h⟩ := bind_ok_inv h
  obtain ⟨_, s2, h2, h⟩ := bind_ok_inv h
  obtain ⟨_, s3, h3, h⟩ := bind_ok_inv h
  obtain ⟨nd3, hnd3, h⟩ := bind_getNode_inv h
  have R0 : FM s s0 := by rw [hs0]; exact FM.of_nodes rfl rfl rfl
  have R2 : FM s s2 :=
    FM.trans (FM.trans R0 ((PresM.maybeHandleAfterStabilisation n).h _ _ _ h1)) ((PresM.setHeight n (-1)).h _ _ _ h2)
  obtain ⟨F3, hv3⟩ := ih n s2 s3 _ (R2.allValid hv) (F.fm R2) h3
  have hD : s3.nodeD n = nd3 := nodeD_of_some hnd3
  have hq : nd3.kind? = some (s3.nodeD n).kind := by rw [← hD, Node.kind?, hv3 n]; rfl
  have fin : ∀ t t', FlagE t X → (∀ m, (t.nodeD m).valid = true) → (do
        let s ← get
        dassert (!s.needsToBeComputed n) "node:became_unnecessary:not-needs-to-be-computed"
        if (s.nodeD n).inRch = true then rchRemove n else pure ()).run.run t = (.ok (), t') →
      FlagE t' X ∧ ∀ m, (t'.nodeD m).valid = true := by
    intro t t' Ft hvt ht
    rw [run_bind_get] at ht
    replace ht := bind_dassert_inv ht
    cases hin : (t.nodeD n).inRch with
    | false =>
      rw [hin] at ht
      simp only [Bool.false_eq_true, if_false] at ht
      obtain ⟨-, e⟩ := pure_ok_inv ht
      rw [e]; exact ⟨Ft, hvt⟩
    | true =>
      rw [hin] at ht
      simp only [if_true] at ht
      have R5 : FM t t' := (PresM.rchRemove n).h _ _ _ ht
      exact ⟨Ft.fm R5, R5.allValid hvt⟩
  rw [hq] at h
  cases hkd : (s3.nodeD n).kind with
  | expert e =>
    rw [hkd] at h
    obtain ⟨_, s4, h4, h⟩ := bind_ok_inv h
    obtain ⟨g1, g2⟩ := observabilityChange_false_inv h4
    refine fin s4 s' (F3.raise g1 g2 hkd) (fun m => ?_) h
    have : s4.nodeD m = s3.nodeD m := by simp [State.nodeD, g1]
    rw [this]; exact hv3 m
  | _ =>
    rw [hkd] at h
    exact fin s3 s' (F3.drop (Or.inr fun e he => by rw [hkd] at he; cases he)) hv3 h

theorem unlinkF_spec (fuel : Nat) : BUF fuel ∧ CUF fuel ∧ RCF fuel := by
  induction fuel with
  | zero =>
    refine ⟨?_, ?_, ?_⟩
    · intro n s s' X _ _ h; unfold becameUnnecessary at h; cases h
    · intro n s s' X _ _ h; unfold checkIfUnnecessary at h; cases h
    · intro n s s' X _ _ h; unfold removeChildren at h; cases h
  | succ fuel ih => exact ⟨buF_step fuel ih.2.2, cuF_step fuel ih.1, rcF_step fuel ih.2.1⟩

/-- **The unlinking cascade discharges the exemption of its root.** -/
theorem checkIfUnnecessary_flagE {fuel c : Nat} {s s' : State} {X : Nat → Prop}
    (hv : ∀ m, (s.nodeD m).valid = true) (F : FlagE s (fun m => X m ∨ m = c))
    (h : (checkIfUnnecessary fuel c).run.run s = (.ok (), s')) : FlagE s' X :=
  ((unlinkF_spec fuel).2.1 c s s' X hv F h).1

theorem checkIfUnnecessary_allValid {fuel c : Nat} {s s' : State} {X : Nat → Prop}
    (hv : ∀ m, (s.nodeD m).valid = true) (F : FlagE s (fun m => X m ∨ m = c))
    (h : (checkIfUnnecessary fuel c).run.run s = (.ok (), s')) : ∀ m, (s'.nodeD m).valid = true :=
  ((unlinkF_spec fuel).2.1 c s s' X hv F h).2

theorem becameUnnecessary_flagE {fuel n : Nat} {s s' : State} {X : Nat → Prop}
    (hv : ∀ m, (s.nodeD m).valid = true) (F : FlagE s (fun m => X m ∨ m = n))
    (h : (becameUnnecessary fuel n).run.run s = (.ok (), s')) : FlagE s' X :=
  ((unlinkF_spec fuel).1 n s s' X hv F h).1

theorem removeChildren_flagE {fuel n : Nat} {s s' : State} {Y : Nat → Prop}
    (hv : ∀ m, (s.nodeD m).valid = true) (F : FlagE s Y)
    (h : (removeChildren fuel n).run.run s = (.ok (), s')) : FlagE s' Y :=
  ((unlinkF_spec fuel).2.2 n s s' Y hv F h).1

/-! ## `unlinkDisallowedObservers` keeps `SlotInv` -/

theorem SlotInv.flagE {env : Env} {s : State} (L : SlotInv env s) : FlagE s (fun _ => False) :=
  fun n e er hk he hw => Or.inl (L.flag n e er hk he hw)

theorem unlinkDisallowedObservers_flagE {fuel : Nat} {s s' : State}
    (hv : ∀ m, (s.nodeD m).valid = true) (F : FlagE s (fun _ => False))
    (h : (unlinkDisallowedObservers fuel).run.run s = (.ok (), s')) : FlagE s' (fun _ => False) := by
  unfold unlinkDisallowedObservers at h
  rw [run_bind_get] at h
  obtain ⟨s0, hs0, h⟩ := bind_modify_inv h
  obtain ⟨u, s1, hloop, h⟩ := bind_ok_inv h
  obtain ⟨-, e⟩ := pure_ok_inv h
  rw [e]
  have R0 : FM s s0 := by rw [hs0]; exact FM.of_nodes rfl rfl rfl
  exact (forIn_ok_inv _ s.disallowedObservers
    (fun _ (_ : PUnit) t => FlagE t (fun _ => False) ∧ ∀ m, (t.nodeD m).valid = true)
    (by
      intro j o b t r t' _ ⟨Ft, hvt⟩ hbody
      obtain ⟨ob, -, hbody⟩ := P12.bind_getObs_inv hbody
      replace hbody := bind_dassert_inv hbody
      obtain ⟨t1, ht1, hbody⟩ := P12.bind_modObs_inv hbody
      obtain ⟨t2, ht2, hbody⟩ := bind_modNode_inv hbody
      obtain ⟨t3, ht3, hbody⟩ := bind_modify_inv hbody
      obtain ⟨_, t4, h4, hbody⟩ := bind_ok_inv hbody
      obtain ⟨hr, e⟩ := pure_ok_inv hbody
      rw [e]
      refine ⟨_, hr, ?_⟩
      have R1 : FM t t1 := by rw [ht1]; exact FM.of_nodes rfl rfl rfl
      have F2 : FlagE t2 (fun m => False ∨ m = ob.node) := by
        rw [ht2]; exact (Ft.fm R1).modNode _ _
      have hv2 : ∀ m, (t2.nodeD m).valid = true := by
        rw [ht2]; exact allValid_modNode _ _ (fun _ => rfl) (R1.allValid hvt)
      have R3 : FM t2 t3 := by rw [ht3]; exact FM.of_nodes rfl rfl rfl
      exact (unlinkF_spec fuel).2.1 ob.node t3 t4 _ (R3.allValid hv2) (F2.fm R3) h4)
    s.disallowedObservers 0 PUnit.unit s0 u s1 (by simp) (Nat.zero_le _)
    ⟨F.fm R0, R0.allValid hv⟩ hloop).1

theorem unlinkDisallowedObservers_slots {env : Env} {fuel : Nat} {s s' : State}
    (hv : ∀ m, (s.nodeD m).valid = true) (L : SlotInv env s)
    (h : (unlinkDisallowedObservers fuel).run.run s = (.ok (), s')) : SlotInv env s' := by
  have R : SR env s s' := (PresR.unlinkDisallowedObservers fuel).h s _ s' h
  have F := unlinkDisallowedObservers_flagE hv L.flagE h
  exact (R.slotInvEx (L.toEx _) fun n e er hk he hw => (F n e er hk he hw).elim id False.elim).toInv

end IncrVerif.Proofs.ExpertH
