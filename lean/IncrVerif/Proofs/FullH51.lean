import IncrVerif.Proofs.FullH14
import IncrVerif.Proofs.NestH116
/-!
# C01 full fragment: the program text of the VIRTUAL history denotes the same values as the program text of the ACTUAL history
(pure fact about the text-level reference semantics `Spec.denoteTop`)
-/
namespace IncrVerif.Proofs.FullH
open IncrVerif.Engine IncrVerif.Driver IncrVerif.Proofs IncrVerif.Proofs.Step IncrVerif.Proofs.Sched IncrVerif.Proofs.Quiet
open IncrVerif.Proofs.MapOldH (enc dec WId dec_enc MReach GoodMachine)
open IncrVerif.Proofs.NestH (progOf progStep progInit progOf_append)
open IncrVerif.Spec

/-- the ids of an instruction are those of the fragment: `map f _` has `f < pBase` (a real function id), `mapRef q _` has a projection id, `mapWithOld m _` a machine
id of the fragment -/
def IOK : Instr → Prop
  | .map f _ => f < pBase
  | .mapRef q _ => PId q
  | .mapWithOld m _ => WId m
  | _ => True

theorem iok_of_instrS {env : Env} {sp : Nat → Val → Val} {i : Instr} (h : InstrS env sp i) : IOK i := by
  cases i <;> simp only [InstrS] at h <;> simp only [IOK] <;> first | exact h.1 | exact h | trivial

theorem iok_of_instrTopF {env : Env} {sp : Nat → Val → Val} {T : Nat} {i : Instr} (h : InstrTopF env sp T i) : IOK i := by
  cases i <;> simp only [InstrTopF] at h <;> simp only [IOK] <;> first | exact h.1 | exact h | trivial

/-- the virtual program text -/
def virtP (sp : Nat → Val → Val) (p : RefProg) : RefProg :=
  { p with env := virtEnv p.env sp, nodes := p.nodes.map virtI }

theorem virtP_eq (sp : Nat → Val → Val) (p : RefProg) :
    virtP sp p = { p with env := virtEnv p.env sp, nodes := p.nodes.map virtI } := rfl

/-! ## 1. the program text of the virtual history -/

theorem progStep_virt (sp : Nat → Val → Val) (p : RefProg) (a : Action) :
    progStep (virtP sp p) (virtA a) = virtP sp (progStep p a) := by
  cases a <;> try rfl
  rename_i i
  cases i <;> first | rfl | simp [virtA, virtI, progStep, virtP]

theorem progInit_virt (env : Env) (sp : Nat → Val → Val) (po : Nat → Bool) :
    progInit (virtEnv env sp) po = virtP sp (progInit env po) := by
  simp [progInit, virtP]

theorem foldl_progStep_virt (sp : Nat → Val → Val) : ∀ (acts : List Action) (p : RefProg),
    (acts.map virtA).foldl progStep (virtP sp p) = virtP sp (acts.foldl progStep p) := by
  intro acts
  induction acts with
  | nil => intro p; rfl
  | cons a as ih =>
    intro p
    rw [List.map_cons, List.foldl_cons, List.foldl_cons, progStep_virt, ih]

theorem progOf_env (env : Env) (po : Nat → Bool) (acts : List Action) : (progOf env po acts).env = env := by
  unfold progOf
  suffices h : ∀ (acts : List Action) (p : RefProg), (acts.foldl progStep p).env = p.env from h acts _
  intro acts
  induction acts with
  | nil => intro p; rfl
  | cons a as ih => intro p; rw [List.foldl_cons, ih, NestH.progStep_env]

theorem progOf_pureOld (env : Env) (po : Nat → Bool) (acts : List Action) : (progOf env po acts).pureOld = po := by
  unfold progOf
  suffices h : ∀ (acts : List Action) (p : RefProg), (acts.foldl progStep p).pureOld = p.pureOld from h acts _
  intro acts
  induction acts with
  | nil => intro p; rfl
  | cons a as ih =>
    intro p
    rw [List.foldl_cons, ih]
    cases a <;> try rfl
    rename_i i; cases i <;> rfl

theorem progOf_virtP (env : Env) (sp : Nat → Val → Val) (po : Nat → Bool) (acts : List Action) :
    progOf (virtEnv env sp) po (acts.map virtA) = virtP sp (progOf env po acts) := by
  unfold progOf
  rw [progInit_virt, foldl_progStep_virt]

/-- **the program text of the virtual history** -/
theorem progOf_virt (env : Env) (sp : Nat → Val → Val) (po : Nat → Bool) (acts : List Action) :
    progOf (virtEnv env sp) po (acts.map virtA) =
      { progOf env po acts with env := virtEnv env sp, nodes := (progOf env po acts).nodes.map virtI } := by
  rw [progOf_virtP, virtP_eq, progOf_env]

/-! ## 2. the two program texts denote the same values -/

namespace DN
open IncrVerif.Proofs.NestH.N7

theorem virtP_env (sp : Nat → Val → Val) (p : RefProg) : (virtP sp p).env = virtEnv p.env sp := rfl
theorem virtP_nodes (sp : Nat → Val → Val) (p : RefProg) : (virtP sp p).nodes = p.nodes.map virtI := rfl
theorem virtP_varOf (sp : Nat → Val → Val) (p : RefProg) : (virtP sp p).varOf = p.varOf := rfl
theorem virtP_vars (sp : Nat → Val → Val) (p : RefProg) : (virtP sp p).vars = p.vars := rfl
theorem virtP_pureOld (sp : Nat → Val → Val) (p : RefProg) : (virtP sp p).pureOld = p.pureOld := rfl

theorem mapM_single {α β : Type} (g : α → Option β) (a : α) : [a].mapM g = (g a).map fun v => [v] := by
  rw [List.mapM_cons, List.mapM_nil]
  cases g a <;> rfl

theorem mapM_pair {α β : Type} (g : α → Option β) (a b : α) :
    [a, b].mapM g = (g a).bind fun x => (g b).map fun y => [x, y] := by
  rw [List.mapM_cons, List.mapM_cons, List.mapM_nil]
  cases g a <;> cases g b <;> rfl

theorem fnFirst_lt : fnFirst < pBase := by decide

/-- the statements at fuel `f` -/
structure Agree (sp : Nat → Val → Val) (p : RefProg) (f : Nat) : Prop where
  opnd : ∀ loc o, denoteOpnd (virtP sp p) f loc o = denoteOpnd p f loc o
  top : ∀ k, denoteTop (virtP sp p) f k = denoteTop p f k
  instr : ∀ loc lv i, IOK i → denoteInstr (virtP sp p) f loc lv (virtI i) = denoteInstr p f loc lv i
  templ : ∀ t lv, (∀ i, i ∈ t.instrs → IOK i) → denoteTemplate (virtP sp p) f (virtT t) lv = denoteTemplate p f t lv
  templWith : ∀ t lv init, (∀ i, i ∈ t.instrs → IOK i) →
    denoteTemplateWith (virtP sp p) f (virtT t) lv init = denoteTemplateWith p f t lv init

theorem agree_zero (sp : Nat → Val → Val) (p : RefProg) : Agree sp p 0 := by
  refine ⟨?_, ?_, ?_, ?_, ?_⟩
  · intro loc o; rw [denoteOpnd, denoteOpnd]
  · intro k; rw [denoteTop, denoteTop]
  · intro loc lv i _; rw [denoteInstr, denoteInstr]
  · intro t lv _; rw [denoteTemplate, denoteTemplate]
  · intro t lv init _; rw [denoteTemplateWith, denoteTemplateWith]

theorem virtI_not_var {i : Instr} (h : ∀ v, i ≠ .var v) : ∀ v, virtI i ≠ .var v := by
  intro v; cases i <;> simp [virtI] at h ⊢

theorem stepD_virt {sp : Nat → Val → Val} {p : RefProg} {f : Nat} (A : Agree sp p f) (lv : Val) (acc : List (Option Val)) (i : Instr)
    (hi : IOK i) : stepD (virtP sp p) f lv acc (virtI i) = stepD p f lv acc i := by
  have h := A.instr acc lv i hi
  cases i <;> simp only [virtI, stepD] at h ⊢ <;> rw [h]

theorem foldl_stepD_virt {sp : Nat → Val → Val} {p : RefProg} {f : Nat} (A : Agree sp p f) (lv : Val) :
    ∀ (l : List Instr) (acc : List (Option Val)), (∀ i, i ∈ l → IOK i) →
      (l.map virtI).foldl (stepD (virtP sp p) f lv) acc = l.foldl (stepD p f lv) acc := by
  intro l
  induction l with
  | nil => intro acc _; rfl
  | cons i l ih =>
    intro acc h
    rw [List.map_cons, List.foldl_cons, List.foldl_cons, stepD_virt A lv acc i (h i (List.mem_cons_self ..)),
      ih _ fun j hj => h j (List.mem_cons_of_mem _ hj)]

theorem agree_succ {sp : Nat → Val → Val} {p : RefProg} (hpo : ∀ m, p.pureOld m = true) (hsp : ∀ m v, sp m v = v)
    (hfirst : FirstFn p.env)
    (htop : ∀ (k : Nat) i, p.nodes[k]? = some i → IOK i) (hbody : ∀ b v i, i ∈ (p.env.body b v).instrs → IOK i)
    {f : Nat} (A : Agree sp p f) : Agree sp p (f+1) := by
  have hO : denoteOpnd (virtP sp p) f = denoteOpnd p f := by funext loc o; exact A.opnd loc o
  refine ⟨?_, ?_, ?_, ?_, ?_⟩
  · intro loc o
    cases o with
    | outer k => rw [opnd_outer, opnd_outer, A.top]
    | loc j => rw [opnd_loc, opnd_loc]
    | abs j => rw [opnd_abs, opnd_abs]
    | slot j => rw [opnd_slot, opnd_slot]
  · intro k
    cases hk : p.nodes[k]? with
    | none =>
      rw [top_none p _ k hk, top_none]
      rw [virtP_nodes, Array.getElem?_map, hk]; rfl
    | some i =>
      have hk' : (virtP sp p).nodes[k]? = some (virtI i) := by rw [virtP_nodes, Array.getElem?_map, hk]; rfl
      by_cases hv : ∃ v, i = .var v
      · obtain ⟨v, rfl⟩ := hv
        rw [top_var p f k v hk, top_var (virtP sp p) f k v hk']
        rfl
      · have hv' : ∀ v, i ≠ .var v := fun v e => hv ⟨v, e⟩
        rw [top_instr p f k i hk hv', top_instr (virtP sp p) f k (virtI i) hk' (virtI_not_var hv')]
        exact A.instr _ _ i (htop k i hk)
  · intro loc lv i hi
    cases i with
    | map g args =>
      simp only [IOK] at hi
      simp only [virtI]
      rw [instr_map, instr_map, hO, virtP_env]
      congr 1
      funext vs; exact virtEnv_fn_real _ _ hi vs
    | fold g init cs =>
      simp only [virtI]
      rw [instr_fold, instr_fold, hO]; rfl
    | mapRef pr o =>
      simp only [IOK] at hi
      simp only [virtI]
      rw [instr_map, mapM_single, hO, denoteInstr, virtP_env]
      cases denoteOpnd p f loc o with
      | none => rfl
      | some v =>
        simp only [Option.map_some]
        rw [virtEnv_fn_proj _ _ hi]; rfl
    | mapWithOld m o =>
      simp only [IOK] at hi
      simp only [virtI]
      rw [instr_map, mapM_single, hO, denoteInstr, virtP_env, hpo m, if_pos rfl]
      cases denoteOpnd p f loc o with
      | none => rfl
      | some v =>
        simp only [Option.map_some]
        rw [virtEnv_fn_mach _ _ hi, hsp]; rfl
    | bind body o =>
      simp only [virtI]
      rw [instr_bind, instr_bind, hO]
      cases denoteOpnd p f loc o with
      | none => rfl
      | some x =>
        simp only [Option.bind_some]
        rw [virtP_env, virtEnv_body]
        exact A.templ _ _ (hbody body x)
    | zip a b => simp only [virtI]; rw [instr_zip, instr_zip, hO]
    | dependOn a b =>
      simp only [virtI]
      rw [instr_map, mapM_pair, hO, denoteInstr, virtP_env]
      cases denoteOpnd p f loc a with
      | none => rfl
      | some va =>
        cases denoteOpnd p f loc b with
        | none => rfl
        | some vb =>
          simp only [Option.bind_some, Option.map_some]
          rw [virtEnv_fn_real _ _ fnFirst_lt, hfirst]; rfl
    | const v => simp only [virtI]; rw [instr_const, instr_const]
    | lhsConst => simp only [virtI]; rw [instr_lhsConst, instr_lhsConst]
    | var v => simp only [virtI]; rw [denoteInstr, denoteInstr]
    | cutoff n c => simp only [virtI]; rw [denoteInstr, denoteInstr]
    | expert e => simp only [virtI]; rw [denoteInstr, denoteInstr]
    | publish s o => simp only [virtI]; rw [denoteInstr, denoteInstr]
    | scopedVar v => simp only [virtI]; rw [denoteInstr, denoteInstr]
    | memoCall m key => simp only [virtI]; rw [denoteInstr, denoteInstr]
    | mapOp op => simp only [virtI]; rw [denoteInstr, denoteInstr]
    | perKey c fam x => simp only [virtI]; rw [denoteInstr, denoteInstr]
  · intro t lv ht
    rw [templ_succ, templ_succ]
    exact A.templWith t lv [] ht
  · intro t lv init ht
    rw [templWith_succ, templWith_succ, hO]
    show denoteOpnd p f (List.foldl (stepD (virtP sp p) f lv) init (t.instrs.map virtI)) t.ret = _
    rw [foldl_stepD_virt A lv t.instrs init ht]

theorem agree {sp : Nat → Val → Val} {p : RefProg} (hpo : ∀ m, p.pureOld m = true) (hsp : ∀ m v, sp m v = v)
    (hfirst : FirstFn p.env)
    (htop : ∀ (k : Nat) i, p.nodes[k]? = some i → IOK i) (hbody : ∀ b v i, i ∈ (p.env.body b v).instrs → IOK i) :
    ∀ f, Agree sp p f := by
  intro f
  induction f with
  | zero => exact agree_zero sp p
  | succ f ih => exact agree_succ hpo hsp hfirst htop hbody ih

end DN

section
variable {sp : Nat → Val → Val} {p : RefProg} (hpo : ∀ m, p.pureOld m = true) (hsp : ∀ m v, sp m v = v)
  (hfirst : FirstFn p.env)
  (htop : ∀ (k : Nat) i, p.nodes[k]? = some i → IOK i) (hbody : ∀ b v i, i ∈ (p.env.body b v).instrs → IOK i)
include hpo hsp hfirst htop hbody

/-- **the virtual program text denotes the same values** -/
theorem denoteTop_virt (f k : Nat) :
    denoteTop { p with env := virtEnv p.env sp, nodes := p.nodes.map virtI } f k = denoteTop p f k :=
  (DN.agree hpo hsp hfirst htop hbody f).top k

theorem denoteOpnd_virt (f : Nat) (loc : List (Option Val)) (o : Opnd) :
    denoteOpnd { p with env := virtEnv p.env sp, nodes := p.nodes.map virtI } f loc o = denoteOpnd p f loc o :=
  (DN.agree hpo hsp hfirst htop hbody f).opnd loc o

theorem denoteInstr_virt (f : Nat) (loc : List (Option Val)) (lv : Val) (i : Instr) (hi : IOK i) :
    denoteInstr { p with env := virtEnv p.env sp, nodes := p.nodes.map virtI } f loc lv (virtI i) = denoteInstr p f loc lv i :=
  (DN.agree hpo hsp hfirst htop hbody f).instr loc lv i hi

theorem denoteTemplate_virt (f : Nat) (t : Template) (lv : Val) (ht : ∀ i, i ∈ t.instrs → IOK i) :
    denoteTemplate { p with env := virtEnv p.env sp, nodes := p.nodes.map virtI } f (virtT t) lv = denoteTemplate p f t lv :=
  (DN.agree hpo hsp hfirst htop hbody f).templ t lv ht

theorem denoteTemplateWith_virt (f : Nat) (t : Template) (lv : Val) (init : List (Option Val)) (ht : ∀ i, i ∈ t.instrs → IOK i) :
    denoteTemplateWith { p with env := virtEnv p.env sp, nodes := p.nodes.map virtI } f (virtT t) lv init =
      denoteTemplateWith p f t lv init :=
  (DN.agree hpo hsp hfirst htop hbody f).templWith t lv init ht

end

/-! ## 3. histories -/

theorem histFull_append {env : Env} {sp : Nat → Val → Val} : ∀ (as bs : List Action) (T : Nat),
    HistFull env sp T (as ++ bs) → HistFull env sp T as := by
  intro as
  induction as with
  | nil => intro _ _ _; trivial
  | cons a as ih => intro bs T h; exact ⟨h.1, ih bs _ h.2⟩

/-- the top-level instructions of the program text of a history of the fragment have ids of the fragment -/
theorem progOf_nodes_iok {env : Env} {sp : Nat → Val → Val} {po : Nat → Bool} : ∀ (acts : List Action) (T : Nat) (p : RefProg),
    HistFull env sp T acts → (∀ (k : Nat) i, p.nodes[k]? = some i → IOK i) →
    ∀ (k : Nat) i, (acts.foldl progStep p).nodes[k]? = some i → IOK i := by
  intro acts
  induction acts with
  | nil => intro T p _ hp; exact hp
  | cons a as ih =>
    intro T p h hp
    rw [List.foldl_cons]
    refine ih _ _ h.2 ?_
    have h1 := h.1
    cases a <;> try exact hp
    rename_i i0
    simp only [ActionFull] at h1
    have hi0 := iok_of_instrTopF h1
    have hpush : ∀ (k : Nat) i, (p.nodes.push i0)[k]? = some i → IOK i := by
      intro k i hk
      rw [Array.getElem?_push] at hk
      split at hk
      · injection hk with hk; rw [← hk]; exact hi0
      · exact hp k i hk
    cases i0 <;> first | exact hpush | exact hp

theorem denoteTop_virt_hist {env : Env} {sp : Nat → Val → Val} {po : Nat → Bool} {acts : List Action} (E : EnvS env sp)
    (H : HistFull env sp 0 acts) (hpo : ∀ m, po m = true) (hsp : ∀ m v, sp m v = v) (hF : FirstFn env) (f j : Nat) :
    Spec.denoteTop (progOf (virtEnv env sp) po (acts.map virtA)) f j = Spec.denoteTop (progOf env po acts) f j := by
  rw [progOf_virtP]
  refine (DN.agree ?_ hsp (by rw [progOf_env]; exact hF) ?_ ?_ f).top j
  · intro m; rw [progOf_pureOld]; exact hpo m
  · exact progOf_nodes_iok (po := po) acts 0 _ H (fun k i hk => by simp [progInit] at hk)
  · intro b v i hi
    rw [progOf_env] at hi
    exact iok_of_instrS ((E b v).1 i hi).1

end IncrVerif.Proofs.FullH
