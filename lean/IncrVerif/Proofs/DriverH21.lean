import IncrVerif.Proofs.DriverH20
/-!
# Effects of a driver, part 4: the effect `xSel`
-/
namespace IncrVerif.Proofs.DriverH
open IncrVerif.Engine IncrVerif.Driver IncrVerif.Proofs IncrVerif.Proofs.Step IncrVerif.Proofs.Sched
open IncrVerif.Proofs.ExpertH IncrVerif.Proofs.ExpertH.QR IncrVerif.Proofs.EffH

theorem sel_index {α} (l : List α) (arg : Int) (h : l.length > 0) : (arg % (l.length : Int)).toNat < l.length := by
  have hpos : (0 : Int) < (l.length : Int) := by omega
  have h1 := Int.emod_nonneg arg (Int.ne_of_gt hpos)
  have h2 := Int.emod_lt_of_pos arg hpos
  omega

theorem step_xSel {env : Env} (hA : AddSpec (noEff env)) (hR : RmSpec (noEff env)) {fuel n : Nat} {eo : Opnd}
    {cb always : Bool} {targets : List Opnd} {es : List Effect}
    {arg : Int} {t s' : State} (M : Mid (noEff env) t) (ok : EffOK t n (.xSel eo cb always targets))
    (h : (runEffects env fuel (.xSel eo cb always targets :: es) arg).run.run t = (.ok (), s')) :
    ∃ t', (runEffects env fuel es arg).run.run t' = (.ok (), s') ∧
      Step1 (noEff env) n (.xSel eo cb always targets) t t' := by
  obtain ⟨x, hx, hd, htg⟩ := ok
  have hcons := cons_gen _ (fun l => runEffects env fuel l arg) (fun l => rfl) (.xSel eo cb always targets) es
  dsimp only at hcons
  rw [hcons] at h
  simp only [bind_assoc] at h
  have hd' := hd
  obtain ⟨hxl, e, er, hk, hr, edn, hn1, hn2, hn3, hn4, hn5⟩ := hd'
  rw [run_bind_ok (run_resolveOpnd hx), run_bind_ok (run_expertIdxRaw hxl hk)] at h
  have noop : ∀ {t'}, (runEffects env fuel es arg).run.run t' = (.ok (), s') → t' = t →
      ∃ t', (runEffects env fuel es arg).run.run t' = (.ok (), s') ∧
        Step1 (noEff env) n (.xSel eo cb always targets) t t' := by
    intro t' h' e'
    subst e'
    exact ⟨t', h', M, ⟨x, e, hx, hk, EF.refl _ _⟩, fun _ _ h => h, fun h => h⟩
  by_cases hlen : targets.length > 0
  · simp only [if_pos hlen, bind_assoc] at h
    have hlt := sel_index targets arg hlen
    rw [List.getElem?_eq_getElem hlt] at h
    simp only [Option.getD_some] at h
    obtain ⟨c, hc, hps⟩ := htg _ (List.getElem_mem hlt)
    rw [run_bind_ok (run_resolveOpnd hc), Xp.run_bind_getExpert er _ hr] at h
    generalize (always || !match er.sel with | some (_, c_1) => c_1 == c | none => false) = b at h
    cases b with
    | false =>
      simp only [Bool.false_eq_true, if_false, pure_bind] at h
      exact noop h rfl
    | true =>
      simp only [if_true, bind_assoc] at h
      obtain ⟨dep, t1, h1, h2⟩ := bind_ok_inv h
      rw [← expertAddDependency_noEff] at h1
      obtain ⟨M1, ef1, hdep, hnd1, ⟨er1, hr1, hch1, hsc1, hsl1, -⟩, hnec1⟩ :=
        hA fuel x c e cb t t1 dep er M hxl hk hr hps.1 (fun hb => hps.2 x hb e hk) h1
      have hk1 : (t1.nodeD x).kind = .expert e := (ef1.kind x).trans hk
      have hxl1 : x < t1.nodes.size := by rw [ef1.size]; exact hxl
      cases hsel : er.sel with
      | none =>
        simp only [hsel, bind_assoc, pure_bind] at h2
        rw [Xp.run_bind_modExpert er1 _ _ hr1] at h2
        have hs : SameBut er1 { er1 with sel := some (dep, c) } := SameBut.sel _ _
        have ef := ef1.trans (EF.put hr1 hs)
        refine ⟨_, h2, M1.put hr1 hs, ⟨x, e, hx, hk, ef⟩, ?_, fun hn => hnec1 n hn⟩
        refine drives_step ef ?_
        intro er0 hr0
        rw [hr] at hr0; cases hr0
        refine ⟨_, Xp.putExpert_get _ hr1, ?_⟩
        rintro ed ⟨p1, p2, p3, p4⟩
        refine ⟨?_, p2, ?_, ?_⟩
        · show ed ∈ er1.children
          rw [hch1]; exact List.mem_append_left _ p1
        · show ed.dep ∉ er1.script
          rw [hsc1]; exact p3
        · show ∀ d c', some (dep, c) = some (d, c') → d ≠ ed.dep
          intro d c' hq
          cases hq
          omega
      | some dc =>
        obtain ⟨d, c0⟩ := dc
        simp only [hsel, bind_assoc, pure_bind] at h2
        obtain ⟨u, t2, h3, h4⟩ := bind_ok_inv h2
        obtain ⟨M2, ef2, hnd2, ⟨er2, hr2, hsc2, hsl2, hch2⟩, hnec2⟩ :=
          rm_step (n := n) hR M1 hxl1 hk1 hr1 h3
        rw [Xp.run_bind_modExpert er2 _ _ hr2] at h4
        have hs : SameBut er2 { er2 with sel := some (dep, c) } := SameBut.sel _ _
        have ef := (ef1.trans ef2).trans (EF.put hr2 hs)
        have hne : ∀ ed, Prot t.nextDep er ed → ed.dep ≠ d := fun ed hp hq => hp.2.2.2 d c0 hsel hq.symm
        have hin : ∀ ed, Prot t.nextDep er ed → ed ∈ er2.children := fun ed hp =>
          hch2 ed (by rw [hch1]; exact List.mem_append_left _ hp.1) (hne ed hp)
        refine ⟨_, h4, M2.put hr2 hs, ⟨x, e, hx, hk, ef⟩, ?_, ?_⟩
        · refine drives_step ef ?_
          intro er0 hr0
          rw [hr] at hr0; cases hr0
          refine ⟨_, Xp.putExpert_get _ hr2, ?_⟩
          intro ed hp
          refine ⟨hin ed hp, hp.2.1, ?_, ?_⟩
          · show ed.dep ∉ er2.script
            rw [hsc2, hsc1]; exact hp.2.2.1
          · show ∀ d' c', some (dep, c) = some (d', c') → d' ≠ ed.dep
            intro d' c' hq
            cases hq
            have := hp.2.1
            omega
        · intro hn
          have hpn : Prot t.nextDep er edn := ⟨hn1, hn3, hn4, hn5⟩
          exact hnec2 ⟨edn, by rw [hch1]; exact List.mem_append_left _ hn1, hne edn hpn, hn2⟩ (hnec1 n hn)
  · simp only [if_neg hlen, pure_bind] at h
    exact noop h rfl

end IncrVerif.Proofs.DriverH
