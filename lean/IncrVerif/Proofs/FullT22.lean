import IncrVerif.Proofs.FullT21
/-!
# C04 combined fragment: the invariant between API actions for the "no panic" argument, contracts of the prefix of `stabilise`, valid indices
-/
namespace IncrVerif.Proofs.FullT
open IncrVerif.Engine IncrVerif.Driver IncrVerif.Proofs IncrVerif.Proofs.Step IncrVerif.Proofs.Sched IncrVerif.Proofs.Quiet IncrVerif.Proofs.FullH

/-- the invariant between API actions for the "no panic" argument: the invariant of C01Full, the carried invariant of the bisimulation, the totality invariant of NestH for the VIRTUAL state -/
structure QF (env : Env) (sp : Nat → Val → Val) (N : Nat) (s : State) (g : Nat → Option Val) : Prop where
  q : QInvF env sp s g
  p : PInv s
  t : NestH.QT (VE env sp) N (virt g s)

/-- contract with LP.lean: `add_new_observers` -/
def AnoC (env : Env) (sp : Nat → Val → Val) : Prop := ∀ (g : Nat → Option Val) (fuel : Nat) (s : State), 3 * s.nodes.size + 2 ≤ fuel →
  BSimXAt (FK env sp) PInv g s (addNewObservers env fuel) (addNewObservers (virtEnv env sp) fuel)
/-- contract with LP.lean: `unlink_disallowed_observers` -/
def UdoC (env : Env) (sp : Nat → Val → Val) : Prop := ∀ (g : Nat → Option Val) (fuel : Nat) (s : State),
  BSimAt (FK env sp) PInv g s (unlinkDisallowedObservers fuel) (unlinkDisallowedObservers fuel)

/-- the indices named by an action exist (in terms of the numbers of naming-table entries, var cells, observers): those of the virtual action
(`mapRef p o` ↦ `map _ [o]`, `mapWithOld m o` ↦ `map _ [o]`, `dependOn a b` ↦ `map fnFirst [a, b]`), and the operand of a `cutoff` action -/
def ActionIdxF (nt nv no : Nat) (a : Action) : Prop :=
  NestH.ActionIdx nt nv no (virtA a) ∧ ∀ n c, a = .create (.cutoff n c) → ∃ k, n = Opnd.outer k ∧ k < nt

def ValidIdxF : Nat → Nat → Nat → List Action → Prop
  | _, _, _, [] => True
  | nt, nv, no, a :: as =>
    ActionIdxF nt nv no a ∧
      ValidIdxF (nt + NestH.growTop (virtA a)) (nv + (NestH.grow2 (virtA a)).2.1) (no + (NestH.grow2 (virtA a)).2.2) as

end IncrVerif.Proofs.FullT
