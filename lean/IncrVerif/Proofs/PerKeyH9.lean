import IncrVerif.Proofs.PerKeyH2
/-!
# Node creation between two effects keeps `DriverH.Mid`, part 1: a static node (MC1), MC3

* `created_struct`: `QR.Created.struct` from `QR.Struct` alone (no `QInv`), for a kind that is not a `var`.
* `mkNode kind t`: the state after `createNode kind .top`; `run_createNode_top`.
* `mid_mkNode` / `createNode_mid`: MC1.
* `not_below_fresh`, `addSpec_fresh`: MC3.
-/
namespace IncrVerif.Proofs.PerKeyH
open IncrVerif.Engine IncrVerif.Driver IncrVerif.Proofs IncrVerif.Proofs.Step IncrVerif.Proofs.Sched
open IncrVerif.Proofs.ExpertH IncrVerif.Proofs.EffH IncrVerif.Proofs.DriverH IncrVerif.Proofs.ExpertH.QR

/-! ## `Created.struct` without `QInv` -/

/-- `QR.Created.struct` from the structural invariant alone: the new node is not a `var`, so no cell is created -/
theorem created_struct {env : Env} {rk : Nat → Nat} {k : Kind} {s s1 : State} {tp : Array Nat}
    (C : Created k s s1 tp) (I : Struct env rk s) (hv : s1.vars = s.vars) (hk : StaticKind env k)
    (hkids : ∀ c, c ∈ kids k → c < s.nodes.size) : Struct env rk s1 := by
  have staleOf_old : ∀ {m}, m < s.nodes.size → staleOf s1 m = staleOf s m := by
    intro m hm
    have sn := I.node hm
    exact staleOf_congr (by rw [C.nodeD_lt hm]) (by rw [C.nodeD_lt hm]) hv
      (fun c hc => by rw [C.nodeD_lt (sn.kidsIn c hc)])
  have wants_old : ∀ {p i}, p ≠ s.nodes.size → (Wants s1 allClosed p i ↔ Wants s allClosed p i) := by
    intro p i hp
    rw [wants_closed rfl, wants_closed rfl, C.nec_old hp]
  have inRch_lt : ∀ {m}, (s1.nodeD m).inRch = true → m < s.nodes.size ∧ (s.nodeD m).inRch = true := by
    intro m hq
    have hne := C.ne_of_inRch hq
    rw [C.nodeD_old hne] at hq
    exact ⟨lt_size_of_inRch hq, hq⟩
  obtain ⟨K, hK1, hK2⟩ := I.static.top
  have htop1 : ∃ K, (∀ m, s1.nodes.size ≤ m → rk m = K + m) ∧ (∀ k, k < s1.nodes.size → rk k < K + s1.nodes.size) := by
    refine ⟨K, fun m hm => hK1 m (by rw [C.size] at hm; omega), fun j hj => ?_⟩
    rw [C.size] at hj ⊢
    by_cases e : j = s.nodes.size
    · rw [e, hK1 _ (Nat.le_refl _)]; omega
    · have := hK2 j (by omega); omega
  refine
    { static := ⟨by rw [C.pc]; exact I.static.pc, by rw [C.scope]; exact I.static.scope, ?_, I.static.inj, htop1⟩
      par := ?_, conv := ?_, nodup := ?_, hlt := ?_, hpos := ?_
      lnec := fun p k ho => by cases ho
      unec := fun p k ho => by cases ho
      heap := ⟨C.heapWF I.heap.wf, ?_, by rw [C.rch]; exact I.heap.lb0⟩
      hgt := ?_, qnec := ?_, queued := ?_, qstale := ?_
      opLt := fun m ho => absurd rfl ho }
  · intro n hn
    rw [C.size] at hn
    by_cases e : n = s.nodes.size
    · refine ⟨?_, ?_, ?_, ?_, ?_, ?_, ?_⟩ <;> rw [e, C.nodeD_new]
      · rfl
      · exact hk
      · rfl
      · rfl
      · rfl
      · intro c hc
        rw [hK1 _ (Nat.le_refl _)]; exact hK2 c (hkids c hc)
      · intro c hc
        rw [C.size]; exact Nat.lt_succ_of_lt (hkids c hc)
    · have sn := I.node (show n < s.nodes.size by omega)
      refine ⟨?_, ?_, ?_, ?_, ?_, ?_, ?_⟩ <;> rw [C.nodeD_old e]
      · exact sn.valid
      · exact sn.kind
      · exact sn.cutoff
      · exact sn.top
      · exact sn.force
      · exact sn.kidsLt
      · intro c hc
        rw [C.size]; exact Nat.lt_succ_of_lt (sn.kidsIn c hc)
  · intro c p i h
    have hc := C.ne_of_par h
    rw [C.nodeD_old hc] at h
    have hp : p ≠ s.nodes.size := by have := I.par_lt_size h; omega
    rw [C.nodeD_old hp, wants_old hp]
    exact I.par c p i h
  · intro p i c hkd hw
    have hp : p ≠ s.nodes.size := C.ne_of_nec ((wants_closed rfl).1 hw)
    rw [C.nodeD_old hp] at hkd
    rw [wants_old hp] at hw
    have hm := I.conv p i c hkd hw
    have hc : c ≠ s.nodes.size := by have := mem_parents_lt_size hm; omega
    rw [C.nodeD_old hc]; exact hm
  · intro c
    by_cases e : c = s.nodes.size
    · rw [e, C.nodeD_new]; exact List.nodup_nil
    · rw [C.nodeD_old e]; exact I.nodup c
  · intro c p i h ho
    have hc := C.ne_of_par h
    rw [C.nodeD_old hc] at h
    have hp : p ≠ s.nodes.size := by have := I.par_lt_size h; omega
    rw [C.nodeD_old hc, C.nodeD_old hp]
    exact I.hlt c p i h ho
  · intro n hn ho
    have e := C.ne_of_nec hn
    rw [C.nec_old e] at hn
    rw [C.nodeD_old e]; exact I.hpos n hn ho
  · intro m hq
    obtain ⟨hlt, hq'⟩ := inRch_lt hq
    rw [C.rch, C.nodeD_lt hlt]; exact I.heap.lb m hq'
  · intro m hq ho
    obtain ⟨hlt, hq'⟩ := inRch_lt hq
    rw [C.nodeD_lt hlt]; exact I.hgt m hq' ho
  · intro m hq
    obtain ⟨hlt, hq'⟩ := inRch_lt hq
    rw [C.nec_old (by omega)]; exact I.qnec m hq'
  · intro m ho hn hs
    have e := C.ne_of_nec hn
    rw [C.nec_old e] at hn
    have hlt := nec_lt_size hn
    rw [staleOf_old hlt] at hs
    rw [C.nodeD_old e]; exact I.queued m ho hn hs
  · intro m hq
    obtain ⟨hlt, hq'⟩ := inRch_lt hq
    rw [staleOf_old hlt]; exact I.qstale m hq'

/-! ## MC1: a static node -/

/-- the state after `createNode kind .top` (default cutoff) -/
def mkNode (kind : Kind) (t : State) : State :=
  { t with counters := { t.counters with created := t.counters.created + 1 },
           nodes := t.nodes.push { kind := kind, createdIn := .top } }

theorem mkNode_eq_crState (kind : Kind) (t : State) : mkNode kind t = crState kind .top .eq t := rfl

theorem run_createNode_top (kind : Kind) (t : State) :
    (createNode kind .top).run.run t = (.ok t.nodes.size, mkNode kind t) := rfl

theorem mkNode_nodes (kind : Kind) (t : State) :
    (mkNode kind t).nodes = t.nodes.push { kind := kind, createdIn := .top } := rfl
theorem mkNode_size (kind : Kind) (t : State) : (mkNode kind t).nodes.size = t.nodes.size + 1 := by
  rw [mkNode_nodes, Array.size_push]
theorem mkNode_experts (kind : Kind) (t : State) : (mkNode kind t).experts = t.experts := rfl
theorem mkNode_nextDep (kind : Kind) (t : State) : (mkNode kind t).nextDep = t.nextDep := rfl
theorem mkNode_eKey (kind : Kind) (t : State) : eKey (mkNode kind t) = eKey t := rfl
theorem mkNode_rch (kind : Kind) (t : State) : (mkNode kind t).rch = t.rch := rfl
theorem mkNode_ahh (kind : Kind) (t : State) : (mkNode kind t).ahh = t.ahh := rfl
theorem mkNode_log (kind : Kind) (t : State) : (mkNode kind t).log = t.log := rfl
theorem mkNode_slots (kind : Kind) (t : State) : (mkNode kind t).slots = t.slots := rfl
theorem mkNode_perkeys (kind : Kind) (t : State) : (mkNode kind t).perkeys = t.perkeys := rfl
theorem mkNode_top (kind : Kind) (t : State) : (mkNode kind t).top = t.top := rfl
theorem mkNode_scope (kind : Kind) (t : State) : (mkNode kind t).currentScope = t.currentScope := rfl

theorem mkNode_nodeD_new (kind : Kind) (t : State) :
    (mkNode kind t).nodeD t.nodes.size = { kind := kind, createdIn := .top } := by
  simp only [State.nodeD, mkNode_nodes, Array.getElem?_push, if_true, Option.getD_some]

theorem mkNode_nodeD_ne (kind : Kind) (t : State) {m : Nat} (h : m ≠ t.nodes.size) :
    (mkNode kind t).nodeD m = t.nodeD m := by
  simp only [State.nodeD, mkNode_nodes, Array.getElem?_push, if_neg h]

theorem mkNode_nodeD_lt (kind : Kind) (t : State) {m : Nat} (h : m < t.nodes.size) :
    (mkNode kind t).nodeD m = t.nodeD m := mkNode_nodeD_ne kind t (by omega)

theorem mkNode_isNecessary_new (kind : Kind) (t : State) : (mkNode kind t).isNecessary t.nodes.size = false := by
  rw [State.isNecessary, mkNode_nodeD_new]; rfl

theorem mkNode_isNecessary_ne (kind : Kind) (t : State) {m : Nat} (h : m ≠ t.nodes.size) :
    (mkNode kind t).isNecessary m = t.isNecessary m := by
  rw [State.isNecessary, State.isNecessary, mkNode_nodeD_ne kind t h]

/-- the virtual state of `mkNode` is `mkNode` of the virtual state (not an expert kind) -/
theorem virt_mkNode (kind : Kind) (t : State) (hne : ∀ e, kind ≠ .expert e) :
    virt (mkNode kind t) = mkNode kind (virt t) := virt_crState kind .top .eq t hne

theorem created_mkNode (kind : Kind) (t : State) (hnv : ∀ c, kind ≠ .var c) :
    Created kind t (mkNode kind t) t.top :=
  ⟨rfl, Or.inl ⟨hnv, rfl⟩, rfl, rfl, rfl, rfl, rfl, rfl, rfl, rfl, rfl, rfl, rfl, rfl, rfl, rfl⟩

/-- **MC1, pure form**: a fresh static top-level node keeps `Mid` -/
theorem mid_mkNode {E : Env} {t : State} {kind : Kind} (M : Mid E t) (hk : XKind E kind)
    (hne : ∀ e, kind ≠ .expert e) (hnv : ∀ c, kind ≠ .var c)
    (hkids : ∀ c, c ∈ kids kind → c < t.nodes.size) : Mid E (mkNode kind t) := by
  have P : Pushed E t (mkNode kind t) := pushed_crState .top .eq t hk hne
  have hxk : XK kind := by cases kind <;> first | trivial | exact hk.elim
  have fr' : Fr (mkNode kind t) := fr_crState .top M.fr hxk
  obtain ⟨rk, I⟩ := M.st
  have hvk : virtKind t.experts kind = kind := virtKind_of_not_expert _ hne
  have hsk : StaticKind (virtEnv E) kind := by
    have := staticKind_virt (env := E) (xs := t.experts) hk
    rwa [hvk] at this
  refine ⟨P.frag M.frag fr', P.ahhEmpty M.ahh, ⟨rk, ?_⟩, M.pinv, fun m => ?_⟩
  · rw [virt_mkNode kind t hne]
    exact created_struct (created_mkNode kind (virt t) hnv) I rfl hsk
      (fun c hc => by rw [virt_size]; exact hkids c hc)
  · by_cases e : m = t.nodes.size
    · rw [e, mkNode_nodeD_new]; exact Int.le_refl _
    · rw [mkNode_nodeD_ne kind t e]; exact M.handlers m

/-- **MC1**: `createNode kind .top` between two effects, for `kind` = `const v` / `map f args` / `fold f init cs` -/
theorem createNode_mid {E : Env} {t t' : State} {kind : Kind} {n : Nat} (M : Mid E t) (hk : XKind E kind)
    (hne : ∀ e, kind ≠ .expert e) (hnv : ∀ c, kind ≠ .var c)
    (hkids : ∀ c, c ∈ kids kind → c < t.nodes.size)
    (h : (createNode kind .top).run.run t = (.ok n, t')) :
    n = t.nodes.size ∧ t' = mkNode kind t ∧ Mid E t' := by
  rw [run_createNode_top] at h
  cases h
  exact ⟨rfl, rfl, mid_mkNode M hk hne hnv hkids⟩

/-- `Mid` says the current scope is the top level -/
theorem _root_.IncrVerif.Proofs.DriverH.Mid.scope {E : Env} {t : State} (M : Mid E t) : t.currentScope = .top := by
  obtain ⟨rk, I⟩ := M.st
  exact I.static.scope

/-! ## MC3: a fresh expert node is above nothing -/

theorem below_last {s : State} {a b : Nat} (h : ExpertH.Below s a b) :
    a = b ∨ ∃ m, b ∈ kidsX s.experts (s.nodeD m).kind := by
  induction h with
  | refl a => exact Or.inl rfl
  | @step a b c h1 _ ih =>
    rcases ih with e | h
    · exact Or.inr ⟨a, e ▸ h1⟩
    · exact Or.inr h

/-- **MC3**: nobody has `x` as a child, so nothing but `x` is above `x` -/
theorem not_below_fresh {t : State} {c x : Nat} (hcx : c ≠ x)
    (hno : ∀ m, x ∉ kidsX t.experts (t.nodeD m).kind) : ¬ ExpertH.Below t c x := by
  intro h
  rcases below_last h with e | ⟨m, hm⟩
  · exact hcx e
  · exact hno m hm

/-- **MC3**, applied: `expertAddDependency` on an expert node that is nobody's child -/
theorem addSpec_fresh (E : Env) (fuel x c e : Nat) (cb : Bool) (s s' : State) (dep : Nat) (er : ExpertRec)
    (M : Mid E s) (hx : x < s.nodes.size) (hk : (s.nodeD x).kind = .expert e) (he : s.experts[e]? = some er)
    (hc : c < s.nodes.size) (hcx : c ≠ x) (hno : ∀ m, x ∉ kidsX s.experts (s.nodeD m).kind)
    (h : (expertAddDependency E fuel x c cb).run.run s = (.ok dep, s')) :
    Mid E s' ∧ EF (fun e' => e' = e) s s' ∧ dep = s.nextDep ∧ s'.nextDep = s.nextDep + 1 ∧
      (∃ er', s'.experts[e]? = some er' ∧ er'.children = er.children ++ [Xp.newEdge s c cb] ∧
        er'.script = er.script ∧ er'.sel = er.sel ∧ er'.forceStale = true) ∧
      (∀ m, s.isNecessary m = true → s'.isNecessary m = true) :=
  addSpec E fuel x c e cb s s' dep er M hx hk he hc (not_below_fresh hcx hno) h

end IncrVerif.Proofs.PerKeyH
