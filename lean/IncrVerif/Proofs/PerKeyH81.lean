import IncrVerif.Proofs.PerKeyH80
/-!
# Per-key operators, `stabilise`, part 5: `stabSpecP`

The four phases of `stabilise env fuel`: the prefix (`stab_startP`), the drain (the contract `DrainSpecP env`), the end
(`stabiliseEnd_fin`, `stabiliseEnd_perkeys`, `stab_endP`); the output by the semantic theorem (hypothesis `hOut`).
-/
namespace IncrVerif.Proofs.PerKeyH
open IncrVerif.Engine IncrVerif.Driver IncrVerif.Proofs IncrVerif.Proofs.Step IncrVerif.Proofs.Sched
open IncrVerif.Proofs.ExpertH IncrVerif.Proofs.EffH IncrVerif.Proofs.DriverH IncrVerif.Proofs.ExpertH.QR

/-- with the invariant between API actions and an empty recompute heap every necessary node is not stale -/
theorem pq_settled {env : Env} {rk : Nat → Nat} {s : State} (Q : PQ env rk s) (he : s.rch.length = 0)
    (n : Nat) (hn : s.isNecessary n = true) : s.isStale n = false := by
  cases hst : s.isStale n with
  | false => rfl
  | true =>
    have S := Q.q.struct
    have := (S.queued_iff n).2 ⟨by rw [V_isNecessary]; exact hn, by rw [V_isStale]; exact hst⟩
    have he' : (V s).rch.length = 0 := he
    rw [S.heapInv.empty he' n] at this; cases this

/-- no observer is waiting to be added or unlinked -/
theorem pq_obsSettled {env : Env} {rk : Nat → Nat} {s : State} (Q : PQ env rk s)
    (hno : s.newObservers = []) (hdo : s.disallowedObservers = []) : ObsSettled s := by
  have O' : ObsInv (V s) [] [] := by
    have := Q.q.obs
    unfold ObsOK at this
    have e1 : (V s).newObservers = [] := hno
    have e2 : (V s).disallowedObservers = [] := hdo
    rw [e1, e2] at this
    exact this
  intro o ob ho
  have ho' : (V s).observers[o]? = some ob := ho
  cases hst : ob.state with
  | inUse => exact Or.inl rfl
  | unlinked => exact Or.inr rfl
  | created => have := O'.created o ob ho' hst; cases this
  | disallowed => have := (O'.dis o ob ho').1 hst; cases this

set_option maxHeartbeats 800000 in
/-- **`stabilise` with per-key operators**, from the drain contract and the semantic theorem. -/
theorem stabSpecP (env : Env) (hDrain : DrainSpecP env)
    (hOut : ∀ (s : State) (rk : Nat → Nat), PQ env rk s → (∀ n, s.isNecessary n = true → s.isStale n = false) →
      OutputOK env s) :
    StabSpecP env := by
  intro rk fuel s s' Q h
  unfold stabilise at h
  rw [run_bind_get] at h
  obtain ⟨_, sa, ha, h⟩ := bind_ok_inv h
  have hsa : sa = s := by
    rw [run_assertM] at ha
    split at ha <;> cases ha
    rfl
  rw [hsa] at h
  obtain ⟨s0, hs0, h⟩ := bind_modify_inv h
  obtain ⟨_, t1, h1, h⟩ := bind_ok_inv h
  obtain ⟨_, t2, h2, h⟩ := bind_ok_inv h
  obtain ⟨_, t3, h3, h4⟩ := bind_ok_inv h
  have Qv := Q.q
  have hs0V : V s0 = { V s with status := .stabilising } := by rw [hs0]; rfl
  -- the prefix
  obtain ⟨D2, N2, O2, hn2, hd2, P⟩ := stab_startP Q hs0 h1 h2
  -- the drain
  obtain ⟨D3, N3, he3, f3, hnd⟩ := hDrain fuel t2 t3 D2 N2 h3
  obtain ⟨k_vars, k_stab, k_obs, -, -, k_sds, k_dead, -, -, -⟩ := eKey_inv f3.key
  -- the end
  have hvars2 : t2.vars = s.vars := by
    have := P.vars; rw [hs0V] at this; exact this
  have hstab2 : t2.stabNum = s.stabNum := by
    have := P.stabNum; rw [hs0V] at this; exact this
  have hsize2 : t2.nodes.size = s.nodes.size := by
    have := P.size; rw [V_size, V_size, hs0] at this; exact this
  have hsds : t3.setDuringStab = [] := by
    rw [k_sds]
    have := P.setDuringStab; rw [hs0V] at this
    exact this.trans Qv.setDuringStab
  have hdead : t3.deadVars = [] := by
    rw [k_dead]
    have := P.deadVars; rw [hs0V] at this
    exact this.trans Qv.deadVars
  have hobs3 : ∀ (o : Nat) (ob : ObsRec), t3.observers[o]? = some ob → ob.handlers = [] := by
    intro o ob ho
    rw [k_obs] at ho
    exact (O2.inRange o ob ho).2
  have E := stabiliseEnd_fin (env := env) (fuel := fuel) (s := t3) (s' := s') hsds hdead hobs3 h4
  have hpk := stabiliseEnd_perkeys hsds hdead hobs3 h4
  have hal : t2.alive = true := by
    have := P.alive; rw [hs0V] at this
    exact this.trans Qv.alive
  obtain ⟨⟨rk', Q'⟩, hno', hdo'⟩ := stab_endP D3 N3 f3 O2 hn2 hd2 hal E hpk
  have he' : s'.rch.length = 0 := by rw [E.rch]; exact he3
  have hset := pq_settled Q' he'
  exact ⟨⟨rk', Q'⟩, hset, hOut s' rk' Q' hset, pq_obsSettled Q' hno' hdo', by rw [E.vars, k_vars, hvars2],
    by rw [E.stabNum, k_stab, hstab2], by rw [E.size, ← hsize2]; exact f3.grow,
    ⟨t1, t2, t3, by rw [← hs0]; exact h1, h2, D2, h3, D3, he3, hnd, h4⟩⟩

end IncrVerif.Proofs.PerKeyH
