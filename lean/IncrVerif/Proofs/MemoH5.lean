import IncrVerif.Proofs.MemoH3
/-!
# C20 over whole histories: static references

`kindRefs k`: the references a node of a STATIC kind holds, read off the (immutable) kind.
`STop s n`: `n` is a hereditarily static top-level node: it exists, was created in scope `.top`, is a
`const`/`var`/`map`/`fold` node and so are, hereditarily, its inputs (which are older nodes).  `TopValid s`: all of them are valid.
-/
namespace IncrVerif.Proofs.MemoH
open IncrVerif.Engine IncrVerif.Proofs.Obs IncrVerif.Proofs.Memo

/-- the inputs of a static node -/
def kindRefs : Kind → List Nat
  | .map _ args => args
  | .fold _ _ cs => cs
  | .mapRef _ i => [i]
  | .mapWithOld _ i => [i]
  | _ => []

/-- `const`, `var`, `map`, `fold` -/
def StaticK : Kind → Prop
  | .const _ | .var _ | .map _ _ | .fold _ _ _ => True
  | _ => False

/-- hereditarily static top-level node -/
inductive STop (s : State) : Nat → Prop
  | mk (n : Nat) : n < s.nodes.size → (s.nodeD n).createdIn = .top → StaticK (s.nodeD n).kind →
      (∀ c ∈ kindRefs (s.nodeD n).kind, c < n) → (∀ c ∈ kindRefs (s.nodeD n).kind, STop s c) → STop s n

theorem STop.lt {s : State} {n : Nat} (h : STop s n) : n < s.nodes.size := by cases h; assumption
theorem STop.scope {s : State} {n : Nat} (h : STop s n) : (s.nodeD n).createdIn = .top := by
  cases h; assumption
theorem STop.static {s : State} {n : Nat} (h : STop s n) : StaticK (s.nodeD n).kind := by
  cases h; assumption
theorem STop.kids {s : State} {n : Nat} (h : STop s n) :
    ∀ c ∈ kindRefs (s.nodeD n).kind, c < n ∧ STop s c := by
  cases h with
  | mk _ _ _ _ h1 h2 => exact fun c hc => ⟨h1 c hc, h2 c hc⟩

/-- membership only depends on the immutable part of the nodes -/
theorem STop.mono {s s' : State} (hf : Fut s s') {n : Nat} (h : STop s n) : STop s' n := by
  induction h with
  | mk n hlt hsc hk hlt' _ ih =>
    have hc := hf.core n hlt
    simp only [nodeK, Prod.mk.injEq] at hc
    refine .mk n (Nat.lt_of_lt_of_le hlt hf.nodesLe) (hc.2 ▸ hsc) (hc.1 ▸ hk) ?_ ?_
    · rw [hc.1]; exact hlt'
    · rw [hc.1]; exact ih

/-- … and of the nodes below it: an old node that is static in a future was static already -/
theorem STop.back {s s' : State} (hf : Fut s s') {n : Nat} (h : STop s' n) (hn : n < s.nodes.size) :
    STop s n := by
  induction h with
  | mk n hlt hsc hk hlt' _ ih =>
    have hc := hf.core n hn
    simp only [nodeK, Prod.mk.injEq] at hc
    refine .mk n hn (hc.2 ▸ hsc) (hc.1 ▸ hk) ?_ ?_
    · rw [← hc.1]; exact hlt'
    · rw [← hc.1]; exact fun c hcm => ih c hcm (Nat.lt_trans (hlt' c hcm) hn)

/-- all hereditarily static top-level nodes are valid -/
def TopValid (s : State) : Prop := ∀ n, STop s n → (s.nodeD n).valid = true

end IncrVerif.Proofs.MemoH
