import IncrVerif.Proofs.FullH69
import IncrVerif.Proofs.FullH64
/-!
# C01 full fragment: NON-VACUITY, part 9 — `exHistG`: the cutoffs at work (kernel-checked `recomputedAt` / `changedAt` stamps)

Nodes: 4 = the bind's main node (`n3`), 5 = `map fnFirst [4, 2]` with cutoff `.dependOn 4` (`n4`), 6 = `map f1 [1, 2]` (`n5`), 7 = `map f0 [6, 6]` (`n6`).
`stamps s n = (recomputedAt, changedAt)` of node `n`.  The `k`-th `stabilise` runs at stamp `k - 1`.
-/
namespace IncrVerif.Proofs.FullH
open IncrVerif.Engine IncrVerif.Driver IncrVerif.Proofs IncrVerif.Proofs.Step IncrVerif.Proofs.Sched IncrVerif.Proofs.Quiet
open IncrVerif.Proofs.BindH

def EX.stamps (s : State) (n : Nat) : Int × Int := ((s.nodeD n).recomputedAt, (s.nodeD n).changedAt)

set_option maxRecDepth 100000 in
set_option synthInstance.maxSize 4000 in
set_option synthInstance.maxHeartbeats 400000 in
/-- after the first `stabilise`: the kinds and cutoffs of the four top-level nodes; the naming table (the `cutoff` action will not extend it) -/
theorem exHistG_first :
    EX.factF (exHistG.take 11) (fun s => (s.nodes.size, s.top)) = some (17, #[0, 1, 2, 4, 5, 6, 7]) ∧
    EX.factF (exHistG.take 11) (fun s => ((s.nodeD 5).kind, (s.nodeD 5).cutoff)) = some (.map fnFirst [4, 2], .dependOn 4) ∧
    EX.factF (exHistG.take 11) (fun s => ((s.nodeD 6).kind, (s.nodeD 6).cutoff)) = some (.map 1 [1, 2], .eq) ∧
    EX.factF (exHistG.take 11) (fun s => ((s.nodeD 7).kind, (s.nodeD 7).cutoff)) = some (.map 0 [6, 6], .eq) ∧
    EX.factF (exHistG.take 11) (fun s => ((s.nodeD 8).kind, (s.nodeD 9).kind, (s.nodeD 10).kind)) =
      some (.mapRef 1 0, .mapRef 1 8, .mapWithOld 7 9) := by
  have aux : EX.factF (exHistG.take 11) (fun s => ((s.nodes.size, s.top), ((s.nodeD 5).kind, (s.nodeD 5).cutoff),
      ((s.nodeD 6).kind, (s.nodeD 6).cutoff), ((s.nodeD 7).kind, (s.nodeD 7).cutoff), ((s.nodeD 8).kind, (s.nodeD 9).kind, (s.nodeD 10).kind))) =
      some ((17, #[0, 1, 2, 4, 5, 6, 7]), (.map fnFirst [4, 2], .dependOn 4), (.map 1 [1, 2], .eq), (.map 0 [6, 6], .eq),
        (.mapRef 1 0, .mapRef 1 8, .mapWithOld 7 9)) := by decide +kernel
  obtain ⟨h1, aux⟩ := EX.fact_split aux
  obtain ⟨h2, aux⟩ := EX.fact_split aux
  obtain ⟨h3, aux⟩ := EX.fact_split aux
  obtain ⟨h4, aux⟩ := EX.fact_split aux
  exact ⟨h1, h2, h3, h4, aux⟩

set_option maxRecDepth 100000 in
set_option synthInstance.maxSize 4000 in
set_option synthInstance.maxHeartbeats 400000 in
/-- the second `stabilise` (`n2 := 6`, stamp 1): (b) the bind `n3` changed, the depend_on node FIRES (`changedAt = 1`); `n5` (cutoff `.eq`) was recomputed with an
equal value: NO change (`changedAt = 0`), its parent `n6` was NOT recomputed -/
theorem exHistG_fires :
    EX.factF (exHistG.take 13) (fun s => (EX.stamps s 4, EX.stamps s 5, (s.nodeD 5).value)) = some ((1, 1), (1, 1), some (.int 18)) ∧
    EX.factF (exHistG.take 13) (fun s => (EX.stamps s 6, EX.stamps s 7, (s.nodeD 6).cutoff)) = some ((1, 0), (0, 0), .eq) := by
  have aux : EX.factF (exHistG.take 13) (fun s => ((EX.stamps s 4, EX.stamps s 5, (s.nodeD 5).value), (EX.stamps s 6, EX.stamps s 7, (s.nodeD 6).cutoff))) =
      some (((1, 1), (1, 1), some (.int 18)), ((1, 0), (0, 0), .eq)) := by decide +kernel
  exact EX.fact_split aux

set_option maxRecDepth 100000 in
set_option synthInstance.maxSize 4000 in
set_option synthInstance.maxHeartbeats 400000 in
/-- the third `stabilise` (after `cutoff n5 never`; `n2 := 8`, stamp 2): (c) `n5` now has cutoff `.never`; it was recomputed with an EQUAL value (`0`) and STAMPS
`changedAt = 2` (spurious change); its parent `n6` WAS recomputed (stamp 2; its own cutoff `.eq` stops the spurious change: `changedAt = 0`);
the naming table is unchanged -/
theorem exHistG_never :
    EX.factF (exHistG.take 16) (fun s => ((s.nodeD 6).cutoff, EX.stamps s 6, (s.nodeD 6).value)) = some (.never, (2, 2), some (.int 0)) ∧
    EX.factF (exHistG.take 16) (fun s => (EX.stamps s 7, (s.nodeD 7).value, s.top)) = some ((2, 0), some (.int 0), #[0, 1, 2, 4, 5, 6, 7]) ∧
    EX.factF (exHistG.take 16) (fun s => (EX.stamps s 4, EX.stamps s 5)) = some ((2, 2), (2, 2)) := by
  have aux : EX.factF (exHistG.take 16) (fun s => (((s.nodeD 6).cutoff, EX.stamps s 6, (s.nodeD 6).value), (EX.stamps s 7, (s.nodeD 7).value, s.top),
      (EX.stamps s 4, EX.stamps s 5))) =
      some ((.never, (2, 2), some (.int 0)), ((2, 0), some (.int 0), #[0, 1, 2, 4, 5, 6, 7]), ((2, 2), (2, 2))) := by decide +kernel
  obtain ⟨h1, aux⟩ := EX.fact_split aux
  exact ⟨h1, EX.fact_split aux⟩

set_option maxRecDepth 100000 in
set_option synthInstance.maxSize 4000 in
set_option synthInstance.maxHeartbeats 400000 in
/-- the fifth `stabilise` (`n2 := 9` while `n1 = 1` is odd, stamp 4): (a) ONLY the second operand of the depend_on node changed: the bind `n3` was not even
recomputed (stamps 3, 3), the depend_on node WAS recomputed (stamp 4), its cutoff `.dependOn 4` SUPPRESSES: `changedAt` stays 3, value `1`;
`n5` (`.never`) again stamps a spurious change, `n6` is recomputed and does not change -/
theorem exHistG_suppressed :
    EX.factF exHistG (fun s => (EX.stamps s 4, EX.stamps s 5, (s.nodeD 5).value, (s.nodeD 5).cutoff)) =
      some ((3, 3), (4, 3), some (.int 1), .dependOn 4) ∧
    EX.factF exHistG (fun s => (EX.stamps s 6, EX.stamps s 7, (s.nodeD 6).value)) = some ((4, 4), (4, 3), some (.int 1)) ∧
    EX.factF (exHistG.take 18) (fun s => (EX.stamps s 4, EX.stamps s 5, EX.stamps s 6, EX.stamps s 7)) = some ((3, 3), (3, 3), (3, 3), (3, 3)) := by
  have aux : EX.factF exHistG (fun s => ((EX.stamps s 4, EX.stamps s 5, (s.nodeD 5).value, (s.nodeD 5).cutoff), (EX.stamps s 6, EX.stamps s 7, (s.nodeD 6).value))) =
      some (((3, 3), (4, 3), some (.int 1), .dependOn 4), ((4, 4), (4, 3), some (.int 1))) := by decide +kernel
  exact ⟨(EX.fact_split aux).1, (EX.fact_split aux).2, by decide +kernel⟩

end IncrVerif.Proofs.FullH
