import IncrVerif.Proofs.BindH61
/-!
# Binds, fragment F1, phase 3 (`lhsInvalidateOld`), part 1: the run

* `invalidateNode_dying_run`: `invalidateNode` on a valid, unnecessary, unqueued node that is not a bind's main node and has no update handlers is a pure
  update of that node (`Inval.invalidated`).
* `Mid s D t`: the EXACT description of the state `t` reached from `s` after the nodes of the set `D` have been invalidated: the nodes of `D` are
  `deadNode (s.nodeD m) s.stabNum`, all other nodes and all the fields the invariants read are as in `s`.
* `loop_mid`: the loop `for r in l do invalidateNode fuel r` establishes `Mid s (· ∈ l) t'`.
* `lhsInvalidateOld_mid`: the whole phase.
-/
namespace IncrVerif.Proofs.BindH
open IncrVerif.Engine IncrVerif.Proofs IncrVerif.Proofs.Step IncrVerif.Proofs.Sched IncrVerif.Proofs.Quiet

namespace CI

/-- node `nd` after `invalidate_node` at round `now` -/
def deadNode (nd : Node) (now : Int) : Node :=
  { nd with valid := false, value := none, changedAt := now, recomputedAt := now }

/-- the state `t` is `s` with exactly the nodes of `D` invalidated -/
structure Mid (s : State) (D : Nat → Prop) (t : State) : Prop where
  size : t.nodes.size = s.nodes.size
  other : ∀ m, ¬ D m → t.nodeD m = s.nodeD m
  dead : ∀ m, D m → t.nodeD m = deadNode (s.nodeD m) s.stabNum
  binds : t.binds = s.binds
  vars : t.vars = s.vars
  stabNum : t.stabNum = s.stabNum
  status : t.status = s.status
  cfg : t.cfg = s.cfg
  scope : t.currentScope = s.currentScope
  pc : t.panicCountdown = s.panicCountdown
  rch : t.rch = s.rch
  ahh : t.ahh = s.ahh
  top : t.top = s.top
  pinv : t.propagateInvalidity = s.propagateInvalidity

theorem Mid.refl (s : State) : Mid s (fun _ => False) s :=
  ⟨rfl, fun _ _ => rfl, fun _ h => h.elim, rfl, rfl, rfl, rfl, rfl, rfl, rfl, rfl, rfl, rfl, rfl⟩

theorem Mid.congr {s t : State} {D D' : Nat → Prop} (M : Mid s D t) (h : ∀ m, D' m ↔ D m) : Mid s D' t :=
  ⟨M.size, fun m hm => M.other m (fun hd => hm ((h m).2 hd)), fun m hm => M.dead m ((h m).1 hm), M.binds, M.vars,
    M.stabNum, M.status, M.cfg, M.scope, M.pc, M.rch, M.ahh, M.top, M.pinv⟩

/-! ## one `invalidateNode` -/

/-- what makes a node of `s` a "dying leaf" -/
structure Leaf (s : State) (a : Nat) : Prop where
  lt : a < s.nodes.size
  valid : (s.nodeD a).valid = true
  nec : s.isNecessary a = false
  kind : ∀ b lc, (s.nodeD a).kind ≠ .bindMain b lc
  unq : (s.nodeD a).inRch = false
  noh : (s.nodeD a).numOnUpdateHandlers = 0

/-- THE CLOSED FORM: a valid, unnecessary, unqueued node that is not a bind's main node -/
theorem invalidateNode_dying_run (fuel r : Nat) (t : State) (hlt : r < t.nodes.size)
    (hv : (t.nodeD r).valid = true) (hnec : t.isNecessary r = false)
    (hk : ∀ b lc, (t.nodeD r).kind ≠ .bindMain b lc) (hq : (t.nodeD r).inRch = false) :
    (invalidateNode (fuel + 1) r).run.run t = (.ok (), Inval.invalidated r t) := by
  rw [Inval.invalidateNode_leaf_run fuel r t (t.nodeD r) (some_of_lt hlt) hv hnec hk, if_neg]
  simpa [Node.inRch] using hq

theorem invalidated_nodeD0 (r : Nat) (t : State) (hlt : r < t.nodes.size)
    (h0 : (t.nodeD r).numOnUpdateHandlers = 0) :
    (Inval.invalidated r t).nodeD r = deadNode (t.nodeD r) t.stabNum := by
  rw [Inval.invalidated_nodeD r t _ (some_of_lt hlt)]
  have : decide ((t.nodeD r).numOnUpdateHandlers > 0) = false := by rw [h0]; rfl
  rw [this, Bool.or_false]
  rfl

theorem invalidated_rest (r : Nat) (t : State) :
    (Inval.invalidated r t).vars = t.vars ∧ (Inval.invalidated r t).status = t.status ∧
    (Inval.invalidated r t).cfg = t.cfg ∧ (Inval.invalidated r t).currentScope = t.currentScope ∧
    (Inval.invalidated r t).panicCountdown = t.panicCountdown ∧ (Inval.invalidated r t).ahh = t.ahh ∧
    (Inval.invalidated r t).top = t.top := by
  unfold Inval.invalidated Inval.markedInvalid Inval.invStamped Inval.handled
  split <;> simp

/-- one step of the loop -/
theorem step_mid {s t t' : State} {D : Nat → Prop} {fuel a : Nat} {u : Unit} (M : Mid s D t) (G : Leaf s a)
    (h : (invalidateNode fuel a).run.run t = (.ok u, t')) : Mid s (fun m => D m ∨ m = a) t' := by
  cases fuel with
  | zero => rw [Inval.invalidateNode_zero] at h; cases h
  | succ fuel =>
    have hlt : a < t.nodes.size := by rw [M.size]; exact G.lt
    by_cases hD : D a
    · -- a second occurrence: the node is invalid already
      have hv : (t.nodeD a).valid = false := by rw [M.dead a hD]; rfl
      rw [Inval.invalidateNode_invalid fuel a t _ (some_of_lt hlt) hv] at h
      cases h
      refine M.congr (fun m => ⟨fun hm => ?_, Or.inl⟩)
      rcases hm with hm | rfl
      · exact hm
      · exact hD
    · have ha : t.nodeD a = s.nodeD a := M.other a hD
      have hnec : t.isNecessary a = false := by
        have := G.nec
        unfold State.isNecessary at this ⊢
        rw [ha]; exact this
      rw [invalidateNode_dying_run fuel a t hlt (by rw [ha]; exact G.valid) hnec (by rw [ha]; exact G.kind)
        (by rw [ha]; exact G.unq)] at h
      cases h
      obtain ⟨-, f2, -, f4, f5, f6, f7⟩ := Inval.invalidated_fields a t
      obtain ⟨g1, g2, g3, g4, g5, g6, g7⟩ := invalidated_rest a t
      refine ⟨by rw [f7, M.size], ?_, ?_, by rw [f5, M.binds], by rw [g1, M.vars], by rw [f6, M.stabNum],
        by rw [g2, M.status], by rw [g3, M.cfg], by rw [g4, M.scope], by rw [g5, M.pc], by rw [f4, M.rch],
        by rw [g6, M.ahh], by rw [g7, M.top], by rw [f2, M.pinv]⟩
      · intro m hm
        have hma : m ≠ a := fun e => hm (Or.inr e)
        rw [Inval.invalidated_other a m t hma]
        exact M.other m (fun hd => hm (Or.inl hd))
      · intro m hm
        by_cases hma : m = a
        · subst hma
          rw [invalidated_nodeD0 m t hlt (by rw [ha]; exact G.noh), ha, M.stabNum]
        · rw [Inval.invalidated_other a m t hma]
          rcases hm with hm | hm
          · exact M.dead m hm
          · exact absurd hm hma

/-! ## the loop -/

theorem loop_mid {s : State} {fuel : Nat} (l : List Nat) :
    ∀ (D : Nat → Prop) (t t' : State) (u : PUnit), (∀ a, a ∈ l → Leaf s a) → Mid s D t →
      (forIn l PUnit.unit fun (r : Nat) (_ : PUnit) => do
          invalidateNode fuel r
          pure (ForInStep.yield PUnit.unit) : M PUnit).run.run t = (.ok u, t') →
      Mid s (fun m => D m ∨ m ∈ l) t' := by
  induction l with
  | nil =>
    intro D t t' u _ M h
    rw [List.forIn_nil, run_pure] at h
    cases h
    exact M.congr (fun m => ⟨fun hm => hm.elim id (fun h => by cases h), Or.inl⟩)
  | cons a l ih =>
    intro D t t' u hl M h
    rw [List.forIn_cons] at h
    obtain ⟨y, t1, hy, hrest⟩ := bind_ok_inv h
    obtain ⟨_, t2, h1, h2⟩ := bind_ok_inv hy
    obtain ⟨rfl, rfl⟩ := pure_ok_inv h2
    have M1 := step_mid M (hl a (List.mem_cons_self ..)) h1
    simp only at hrest
    have M2 := ih _ t1 t' u (fun x hx => hl x (List.mem_cons_of_mem _ hx)) M1 hrest
    refine M2.congr (fun m => ?_)
    rw [List.mem_cons]
    constructor
    · rintro (h | h | h)
      · exact Or.inl (Or.inl h)
      · exact Or.inl (Or.inr h)
      · exact Or.inr h
    · rintro ((h | h) | h)
      · exact Or.inl h
      · exact Or.inr (Or.inl h)
      · exact Or.inr (Or.inr h)

theorem propagateInvalidity_nil' {fuel : Nat} {s s' : State} {u : Unit}
    (h : (propagateInvalidity fuel).run.run s = (.ok u, s')) (hp : s.propagateInvalidity = []) : s' = s := by
  cases fuel with
  | zero => unfold propagateInvalidity at h; cases h
  | succ f =>
    rw [Inval.propagateInvalidity_nil f s hp] at h
    cases h; rfl

/-- the whole phase: exactly the dying nodes are invalidated -/
theorem lhsInvalidateOld_mid {fuel : Nat} {br : BindRec} {s s' : State} {u : Unit}
    (h : (Inval.lhsInvalidateOld fuel br).run.run s = (.ok u, s'))
    (hnone : br.rhs = none → br.allNodesCreatedOnRhs = [])
    (hl : ∀ a, a ∈ br.allNodesCreatedOnRhs → Leaf s a) (hp : s.propagateInvalidity = []) :
    Mid s (fun m => m ∈ br.allNodesCreatedOnRhs) s' := by
  unfold Inval.lhsInvalidateOld at h
  cases hr : br.rhs with
  | none =>
    rw [hr] at h
    simp only [Option.isSome_none, Bool.false_eq_true, if_false] at h
    obtain ⟨-, e⟩ := pure_ok_inv h
    rw [e, hnone hr]
    exact (Mid.refl s).congr (fun m => ⟨fun hm => (by cases hm), fun hm => hm.elim⟩)
  | some o =>
    rw [hr] at h
    simp only [Option.isSome_some, if_true] at h
    obtain ⟨_, t, hloop, hprop⟩ := bind_ok_inv h
    have M := loop_mid br.allNodesCreatedOnRhs _ s t _ hl (Mid.refl s) hloop
    have e := propagateInvalidity_nil' hprop (by rw [M.pinv]; exact hp)
    rw [e]
    exact M.congr (fun m => ⟨Or.inr, fun hm => hm.elim (fun h => h.elim) id⟩)

end CI

end IncrVerif.Proofs.BindH
