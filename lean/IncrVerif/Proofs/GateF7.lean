import IncrVerif.Proofs.GateF6
/-!
# C06, combined fragment, part 7: the stamp frame `RR` for successful runs (continued) — node creation, variable writes, effects, per-key operators (port of `OnceF15`, `Pres (VR n) ↦ POk (RR ex)`)
-/
open IncrVerif.Engine IncrVerif.Proofs IncrVerif.Proofs.Step
namespace IncrVerif.Proofs.GateF

theorem POk.map {α β} {R : State → State → Prop} [PreOrd R] {x : M α} (f : α → β) (hx : POk R x) : POk R (f <$> x) := by
  rw [map_eq_pure_bind]; exact POk.bind hx (fun _ => POk.of_pres (Step.Pres.pure _))
macro_rules | `(tactic| okleaf) => `(tactic| with_reducible apply POk.map)
theorem POk.discard {α} {R : State → State → Prop} [PreOrd R] {x : M α} (hx : POk R x) : POk R (discard x) := by
  unfold Functor.discard
  rw [LawfulFunctor.map_const]
  exact POk.map _ hx
macro_rules | `(tactic| okleaf) => `(tactic| with_reducible apply POk.discard)
theorem POk.withVarHandle {R : State → State → Prop} [PreOrd R] (v) {act : M Unit} (h : POk R act) : POk R (withVarHandle v act) := by
  unfold Engine.withVarHandle; okpres; exact h; exact h
macro_rules | `(tactic| okleaf) => `(tactic| with_reducible apply POk.withVarHandle)

/-! ### node creation, var writes, effects -/
set_option maxHeartbeats 2000000 in
theorem POk.bumpCounter (ex : Nat → Prop) (f : Counters → Counters) : POk (RR ex) (bumpCounter f) := by
  unfold Engine.bumpCounter; okpres
o_leaf POk.bumpCounter
set_option maxHeartbeats 2000000 in
theorem POk.createNode (ex : Nat → Prop) (k sc c) : POk (RR ex) (createNode k sc c) := by
  unfold Engine.createNode; okpres
o_leaf POk.createNode
set_option maxHeartbeats 2000000 in
theorem POk.createVar (ex : Nat → Prop) (v sc) : POk (RR ex) (createVar v sc) := by unfold Engine.createVar; okpres
o_leaf POk.createVar
set_option maxHeartbeats 2000000 in
theorem POk.createBind (ex : Nat → Prop) (b l) : POk (RR ex) (createBind b l) := by unfold Engine.createBind; okpres
o_leaf POk.createBind
set_option maxHeartbeats 2000000 in
theorem POk.elabInstr (ex : Nat → Prop) (loc v i) : POk (RR ex) (elabInstr loc v i) := by
  cases i with
  | mapOp op => cases op <;> (simp only [Engine.elabInstr]; okpres)
  | _ => simp only [Engine.elabInstr]; okpres
o_leaf POk.elabInstr
set_option maxHeartbeats 2000000 in
theorem POk.elabTemplateBase (ex : Nat → Prop) (t v init) : POk (RR ex) (elabTemplateBase t v init) := by
  unfold Engine.elabTemplateBase; okpres
o_leaf POk.elabTemplateBase
set_option maxHeartbeats 2000000 in
theorem POk.memoCall (ex : Nat → Prop) (env m key) : POk (RR ex) (memoCall env m key) := by
  unfold Engine.memoCall; okpres
o_leaf POk.memoCall
set_option maxHeartbeats 2000000 in
theorem POk.elabInstrM (ex : Nat → Prop) (env loc v i) : POk (RR ex) (elabInstrM env loc v i) := by
  unfold Engine.elabInstrM; okpres
o_leaf POk.elabInstrM
set_option maxHeartbeats 2000000 in
theorem POk.elabTemplate (ex : Nat → Prop) (env t v) : POk (RR ex) (elabTemplate env t v) := by
  unfold Engine.elabTemplate; okpres
o_leaf POk.elabTemplate
set_option maxHeartbeats 2000000 in
theorem POk.didSetVarWhileNotStabilising (ex : Nat → Prop) (v) : POk (RR ex) (didSetVarWhileNotStabilising v) := by
  unfold Engine.didSetVarWhileNotStabilising; okpres
o_leaf POk.didSetVarWhileNotStabilising
set_option maxHeartbeats 2000000 in
theorem POk.writeVar (ex : Nat → Prop) (v f b) : POk (RR ex) (writeVar v f b) := by unfold Engine.writeVar; okpres
o_leaf POk.writeVar
set_option maxHeartbeats 2000000 in
theorem POk.disallowFutureUse (ex : Nat → Prop) (o) : POk (RR ex) (disallowFutureUse o) := by
  unfold Engine.disallowFutureUse; okpres
o_leaf POk.disallowFutureUse
set_option maxHeartbeats 2000000 in
theorem POk.dropVarHandle (ex : Nat → Prop) (v) : POk (RR ex) (dropVarHandle v) := by
  unfold Engine.dropVarHandle; okpres
o_leaf POk.dropVarHandle
set_option maxHeartbeats 2000000 in
theorem POk.runEffectBasic (ex : Nat → Prop) (env e) : POk (RR ex) (runEffectBasic env e) := by
  unfold Engine.runEffectBasic; okpres
o_leaf POk.runEffectBasic
set_option maxHeartbeats 2000000 in
theorem POk.runEffects (ex : Nat → Prop) (env fuel effs arg) : POk (RR ex) (runEffects env fuel effs arg) := by
  unfold Engine.runEffects; okpres
o_leaf POk.runEffects


/-! ### per-key operators, operator closures -/
set_option maxHeartbeats 2000000 in
theorem POk.expertValue (ex : Nat → Prop) (env e d sl) : POk (RR ex) (expertValue env e d sl) := by
  unfold Engine.expertValue; okpres
o_leaf POk.expertValue
set_option maxHeartbeats 2000000 in
theorem POk.withOldEvents (ex : Nat → Prop) (env g n σ old x new did) :
    POk (RR ex) (withOldEvents env g n σ old x new did) := by
  unfold Engine.withOldEvents; okpres
o_leaf POk.withOldEvents
set_option maxHeartbeats 2000000 in
theorem POk.perKeyDriver (ex : Nat → Prop) (env fuel op m) : POk (RR ex) (perKeyDriver env fuel op m) := by
  unfold Engine.perKeyDriver; okpres
o_leaf POk.perKeyDriver


end IncrVerif.Proofs.GateF
