import IncrVerif.Proofs.ExpertH40
/-!
# Expert fragment: the values after the drain (port of MapRef16)
-/
namespace IncrVerif.Proofs.ExpertH
open IncrVerif.Engine IncrVerif.Driver IncrVerif.Proofs IncrVerif.Proofs.Step IncrVerif.Proofs.Sched
open IncrVerif.Proofs.ExpertH.QR

/-- `evalX` only reads the kinds, the variables and — for expert kinds — the closure id and the dependency list of
the records -/
theorem evalX_congr {env : Env} {s s' : State} (hk : ∀ m, (s'.nodeD m).kind = (s.nodeD m).kind)
    (hv : s'.vars = s.vars)
    (hx : ∀ m e, (s.nodeD m).kind = .expert e →
      (xRec s'.experts e).f = (xRec s.experts e).f ∧ (xRec s'.experts e).children = (xRec s.experts e).children)
    (k n : Nat) : evalX env s' k n = evalX env s k n := by
  induction k generalizing n with
  | zero => rfl
  | succ k ih =>
    unfold evalX
    have hfun : (fun a => evalX env s' k a) = (fun a => evalX env s k a) := funext ih
    rw [hk n, hv, hfun]
    cases hkd : (s.nodeD n).kind with
    | expert e =>
      obtain ⟨h1, h2⟩ := hx n e hkd
      simp only [h1, h2]
    | _ => rfl

/-- the records read through `xRec` along the frame `XF` -/
theorem XF.xRec_core {s s' : State} (h : XF s s') (e : Nat) :
    (xRec s'.experts e).f = (xRec s.experts e).f ∧ (xRec s'.experts e).children = (xRec s.experts e).children := by
  cases he : s.experts[e]? with
  | none => rw [xRec_none he, xRec_none (h.xnone he)]; exact ⟨rfl, rfl⟩
  | some er =>
    obtain ⟨er', he', hf, -, hc, -⟩ := h.xrec he
    rw [xRec_some he, xRec_some he']; exact ⟨hf, hc⟩

theorem evalX_of_xf {env : Env} {s s' : State} (h : XF s s') (hv : s'.vars = s.vars) (k n : Nat) :
    evalX env s' k n = evalX env s k n :=
  evalX_congr h.kind hv (fun _ e _ => h.xRec_core e) k n

section
variable {env : Env} {s : State}

/-- **the values after the drain.** With the drain invariant and an empty recompute heap, every necessary node is
valid, is not stale, and what it reads is its from-scratch evaluation. -/
theorem drainedX_values (D : DInvX env s none) (he : s.rch.length = 0) (n : Nat)
    (hn : s.isNecessary n = true) (k : Nat) (hk : (s.nodeD n).height.toNat < k) :
    (s.nodeD n).valid = true ∧ s.isStale n = false ∧ s.value env n = evalX env s k n ∧
      (evalX env s k n).isSome = true := by
  have hnv : (virt s).isNecessary n = true := by rw [virt_isNecessary]; exact hn
  have hk' : ((virt s).nodeD n).height.toNat < k := by rw [virt_nodeD, virtNode_height]; exact hk
  have he' : (virt s).rch.length = 0 := he
  obtain ⟨h1, h2, -, h4, h5⟩ := drained_values D.inv he' n hnv k hk'
  rw [virt_nodeD, virtNode_valid] at h1
  rw [virt_isStale] at h2
  rw [eval_virt D.frag] at h4 h5
  rw [virt_value s env n D.frag.noMapRef] at h4
  exact ⟨h1, h2, h4, h5⟩

/-- after a successful `drainHeap` from the drain invariant: the drain invariant, an empty heap, the same variables,
and every necessary node reads its from-scratch value (in the final state) -/
theorem drainHeapX_values {fuel : Nat} {s' : State} (D : DInvX env s none)
    (h : (drainHeap env fuel).run.run s = (.ok (), s')) :
    DInvX env s' none ∧ s'.rch.length = 0 ∧ DStepX env s s' ∧ s'.vars = s.vars ∧
      ∀ n, s.isNecessary n = true → ∀ k, (s.nodeD n).height.toNat < k →
        s'.isNecessary n = true ∧ s'.isStale n = false ∧ s'.value env n = evalX env s' k n ∧
          (evalX env s' k n).isSome = true := by
  obtain ⟨D', he, f⟩ := drainHeapX_inv fuel s s' D h
  refine ⟨D', he, f, f.frame.vars, fun n hn k hk => ?_⟩
  have hn' : s'.isNecessary n = true := by
    have := f.frame.nec n; rw [virt_isNecessary, virt_isNecessary] at this; rw [this]; exact hn
  have hh : (s'.nodeD n).height = (s.nodeD n).height := by
    have := (f.frame.shape n).height
    rwa [virt_nodeD, virt_nodeD, virtNode_height, virtNode_height] at this
  obtain ⟨-, h2, h3, h4⟩ := drainedX_values D' he n hn' k (by rw [hh]; exact hk)
  exact ⟨hn', h2, h3, h4⟩

end
end IncrVerif.Proofs.ExpertH
