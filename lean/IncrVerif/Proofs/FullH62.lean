import IncrVerif.Proofs.FullH14
import IncrVerif.Proofs.NestH113
/-!
# C01 full fragment: NON-VACUITY, part 1 — the environment `fEnv`, the history `exHistF`, the static hypotheses

`fEnv` (on top of `exEnv`: `f0` = sum of the integer views):
* `fn fnZip [a, b] = pair a b`; projection 1 = first component of a pair, every other projection = second component;
* EVERY machine is the identity machine reporting a change iff its output differs from the previous one (`sp m v = v`);
* closure 1 (OUTER, lhs `n1`), on an EVEN lhs value:
  `%0 := mapRef 1 n0; %1 := mapRef 1 %0; %2 := mapWithOld 7 %1; %3 := map f0 [%2, n2]; %4 := bind 0 n2; %5 := map f0 [%3, %4]; ret %5`
  (a map_ref CHAIN into a map_with_old node, and a NESTED bind), on an odd one `lhsconst; ret %0`;
* closure 0 (INNER, lhs `n2`), on an EVEN lhs value: `%0 := mapRef 2 n0; %1 := mapWithOld 7 %0; ret %1`, on an odd one `lhsconst; ret %0`;
* every other closure id: the empty template returning `n0`.
-/
namespace IncrVerif.Proofs.FullH
open IncrVerif.Engine IncrVerif.Driver IncrVerif.Proofs IncrVerif.Proofs.Step IncrVerif.Proofs.Sched IncrVerif.Proofs.Quiet
open IncrVerif.Proofs.MapOldH (enc dec WId dec_enc MReach GoodMachine)
open IncrVerif.Proofs.BindH (OpndF1)

/-- first component of a pair (other values: themselves) -/
def fstV : Val → Val | .pair a _ => a | x => x
/-- second component of a pair (other values: themselves) -/
def sndV : Val → Val | .pair _ b => b | x => x

/-- the two variants of the outer closure -/
def tOuterEven : Template :=
  { instrs := [.mapRef 1 (.outer 0), .mapRef 1 (.loc 0), .mapWithOld 7 (.loc 1), .map 0 [.loc 2, .outer 2],
      .bind 0 (.outer 2), .map 0 [.loc 3, .loc 4]], ret := .loc 5 }
def tOdd : Template := { instrs := [.lhsConst], ret := .loc 0 }
/-- the even variant of the inner closure -/
def tInnerEven : Template := { instrs := [.mapRef 2 (.outer 0), .mapWithOld 7 (.loc 0)], ret := .loc 1 }
/-- undefined closure ids -/
def tDefault : Template := { instrs := [], ret := .outer 0 }

def fEnv : Env :=
  { exEnv with
    fn := fun f vals => if f = fnZip then (match vals with | [a, b] => .pair a b | _ => .unit) else exEnv.fn f vals
    proj := fun p v => if p = 1 then fstV v else sndV v
    withOld := fun _ σ old x => (σ, x, decide (old ≠ some x))
    body := fun b lhs =>
      if b = 1 then (if lhs.toInt % 2 = 0 then tOuterEven else tOdd)
      else if b = 0 then (if lhs.toInt % 2 = 0 then tInnerEven else tOdd)
      else tDefault }

/-- every machine of `fEnv` computes the identity -/
abbrev fSp : Nat → Val → Val := fun _ v => v

/-- the example history: three variables (`n0 = ((5, 6), 7)`, `n1 = 0`, `n2 = 4`), the bind, an observer; then
`c := 70` (ONLY the second component changes), `a := 9`, `n1 := 1` (lhs change), the observer is disallowed, writes while nothing is observed,
`n1 := 2`, a NEW observer, and finally `n2 := 6` (the INNER lhs changes back to even) -/
def exHistF : List Action :=
  [.create (.var (.pair (.pair (.int 5) (.int 6)) (.int 7))), .create (.var (.int 0)), .create (.var (.int 4)),
    .create (.bind 1 (.outer 1)), .observe (.outer 3), .stabilise,
    .set 0 (.pair (.pair (.int 5) (.int 6)) (.int 70)), .stabilise,
    .set 0 (.pair (.pair (.int 9) (.int 6)) (.int 70)), .stabilise,
    .set 1 (.int 1), .stabilise,
    .disallow 0, .stabilise,
    .set 0 (.pair (.pair (.int 2) (.int 6)) (.int 70)), .set 2 (.int 3), .set 1 (.int 2), .observe (.outer 3), .stabilise,
    .set 2 (.int 6), .stabilise]

namespace EX

theorem body1_even {v : Val} (h : v.toInt % 2 = 0) : fEnv.body 1 v = tOuterEven := by simp [fEnv, h]
theorem body1_odd {v : Val} (h : ¬ v.toInt % 2 = 0) : fEnv.body 1 v = tOdd := by simp [fEnv, h]
theorem body0_even {v : Val} (h : v.toInt % 2 = 0) : fEnv.body 0 v = tInnerEven := by simp [fEnv, h]
theorem body0_odd {v : Val} (h : ¬ v.toInt % 2 = 0) : fEnv.body 0 v = tOdd := by simp [fEnv, h]
theorem body_other {b : Nat} (h1 : b ≠ 1) (h0 : b ≠ 0) (v : Val) : fEnv.body b v = tDefault := by simp [fEnv, h1, h0]

theorem hf0 : (0 : Nat) < pBase ∧ ((0 : Nat) < fnZip → ∀ vals, fEnv.fnEff 0 vals = []) :=
  ⟨by decide, fun _ _ => rfl⟩

theorem wid7 : WId 7 := Or.inl (by decide)
theorem pid1 : PId 1 := by unfold PId; decide
theorem pid2 : PId 2 := by unfold PId; decide

end EX

/-- **every machine of `fEnv` satisfies the total machine contract** for the identity -/
theorem fEnv_good : ∀ m, Good fEnv fSp m := by
  intro m
  constructor
  · intro σ old _ x _; rfl
  · intro σ old _ x _ h
    right
    have h' : decide (old ≠ some x) = false := h
    simpa using h'

theorem fEnv_zip : NestH.ZipPair fEnv := by
  intro a b; rfl

/-- `fnFirst` (the function of `depend_on` nodes) is the first argument -/
theorem fEnv_first : FirstFn fEnv := by
  intro a b; rfl

/-- the four templates are simulated, their operands name handles or locals -/
theorem EX.templ_ok (t : Template) (h : t = tOuterEven ∨ t = tOdd ∨ t = tInnerEven ∨ t = tDefault) :
    (∀ i, i ∈ t.instrs → InstrS fEnv fSp i ∧ ∀ o, o ∈ InstrOpnds i → OpndS o) ∧ OpndS t.ret := by
  rcases h with rfl | rfl | rfl | rfl
  · refine ⟨?_, trivial⟩
    intro i hi
    simp only [tOuterEven, List.mem_cons, List.mem_nil_iff, or_false] at hi
    rcases hi with rfl | rfl | rfl | rfl | rfl | rfl
    · exact ⟨EX.pid1, by intro o ho; simp only [InstrOpnds, List.mem_cons, List.mem_nil_iff, or_false] at ho; subst ho; trivial⟩
    · exact ⟨EX.pid1, by intro o ho; simp only [InstrOpnds, List.mem_cons, List.mem_nil_iff, or_false] at ho; subst ho; trivial⟩
    · exact ⟨⟨EX.wid7, fEnv_good 7⟩,
        by intro o ho; simp only [InstrOpnds, List.mem_cons, List.mem_nil_iff, or_false] at ho; subst ho; trivial⟩
    · exact ⟨EX.hf0, by
        intro o ho; simp only [InstrOpnds, List.mem_cons, List.mem_nil_iff, or_false] at ho
        rcases ho with rfl | rfl <;> trivial⟩
    · exact ⟨trivial, by intro o ho; simp only [InstrOpnds, List.mem_cons, List.mem_nil_iff, or_false] at ho; subst ho; trivial⟩
    · exact ⟨EX.hf0, by
        intro o ho; simp only [InstrOpnds, List.mem_cons, List.mem_nil_iff, or_false] at ho
        rcases ho with rfl | rfl <;> trivial⟩
  · refine ⟨?_, trivial⟩
    intro i hi
    simp only [tOdd, List.mem_cons, List.mem_nil_iff, or_false] at hi
    subst hi
    exact ⟨trivial, fun o ho => (by cases ho)⟩
  · refine ⟨?_, trivial⟩
    intro i hi
    simp only [tInnerEven, List.mem_cons, List.mem_nil_iff, or_false] at hi
    rcases hi with rfl | rfl
    · exact ⟨EX.pid2, by intro o ho; simp only [InstrOpnds, List.mem_cons, List.mem_nil_iff, or_false] at ho; subst ho; trivial⟩
    · exact ⟨⟨EX.wid7, fEnv_good 7⟩,
        by intro o ho; simp only [InstrOpnds, List.mem_cons, List.mem_nil_iff, or_false] at ho; subst ho; trivial⟩
  · exact ⟨fun i hi => (by cases hi), trivial⟩

theorem EX.body_cases (b : Nat) (v : Val) :
    fEnv.body b v = tOuterEven ∨ fEnv.body b v = tOdd ∨ fEnv.body b v = tInnerEven ∨ fEnv.body b v = tDefault := by
  by_cases h1 : b = 1
  · subst h1
    by_cases h : v.toInt % 2 = 0
    · exact .inl (EX.body1_even h)
    · exact .inr (.inl (EX.body1_odd h))
  · by_cases h0 : b = 0
    · subst h0
      by_cases h : v.toInt % 2 = 0
      · exact .inr (.inr (.inl (EX.body0_even h)))
      · exact .inr (.inl (EX.body0_odd h))
    · exact .inr (.inr (.inr (EX.body_other h1 h0 v)))

/-- **every closure body of `fEnv` (every id, every lhs value) is of the fragment** -/
theorem fEnv_envS : EnvS fEnv fSp := fun b v => EX.templ_ok _ (EX.body_cases b v)

/-- the odd variant, as a closure of the full fragment -/
theorem EX.tOdd_full (P : Nat → Prop) :
    (∀ j i, tOdd.instrs[j]? = some i → InstrFullC fEnv fSp P 3 j i) ∧ OpndF1 3 tOdd.instrs.length tOdd.ret := by
  refine ⟨?_, show (0 : Nat) < 1 by decide⟩
  intro j i hj
  match j, hj with
  | 0, hj => cases hj; trivial
  | j + 1, hj => cases hj

/-- the inner closure is in the fragment (no nesting: fuel 1) for a naming table with three entries -/
theorem fEnv_body0 : BodyFull fEnv fSp 3 1 0 := by
  intro v
  by_cases h : v.toInt % 2 = 0
  · rw [EX.body0_even h]
    refine ⟨?_, show (1 : Nat) < 2 by decide⟩
    intro j i hj
    match j, hj with
    | 0, hj => cases hj; exact ⟨EX.pid2, show (0 : Nat) < 3 by decide⟩
    | 1, hj => cases hj; exact ⟨EX.wid7, fEnv_good 7, show (0 : Nat) < 1 by decide⟩
    | j + 2, hj => cases hj
  · rw [EX.body0_odd h]
    exact EX.tOdd_full _

/-- the outer closure is in the fragment (nesting depth 2) for a naming table with three entries -/
theorem fEnv_body1 : BodyFull fEnv fSp 3 2 1 := by
  intro v
  by_cases h : v.toInt % 2 = 0
  · rw [EX.body1_even h]
    refine ⟨?_, show (5 : Nat) < 6 by decide⟩
    intro j i hj
    match j, hj with
    | 0, hj => cases hj; exact ⟨EX.pid1, show (0 : Nat) < 3 by decide⟩
    | 1, hj => cases hj; exact ⟨EX.pid1, show (0 : Nat) < 1 by decide⟩
    | 2, hj => cases hj; exact ⟨EX.wid7, fEnv_good 7, show (1 : Nat) < 2 by decide⟩
    | 3, hj =>
      cases hj
      refine ⟨EX.hf0.1, EX.hf0.2, ?_⟩
      intro a ha
      simp only [List.mem_cons, List.mem_nil_iff, or_false] at ha
      rcases ha with ha | ha
      · rw [ha]; exact (show (2 : Nat) < 3 by decide)
      · rw [ha]; exact (show (2 : Nat) < 3 by decide)
    | 4, hj => cases hj; exact ⟨fEnv_body0, show (2 : Nat) < 3 by decide⟩
    | 5, hj =>
      cases hj
      refine ⟨EX.hf0.1, EX.hf0.2, ?_⟩
      intro a ha
      simp only [List.mem_cons, List.mem_nil_iff, or_false] at ha
      rcases ha with ha | ha
      · rw [ha]; exact (show (3 : Nat) < 5 by decide)
      · rw [ha]; exact (show (4 : Nat) < 5 by decide)
    | j + 6, hj => cases hj
  · rw [EX.body1_odd h]
    exact EX.tOdd_full _

/-- **the example is a history of the full fragment** -/
theorem exHistF_frag : HistFull fEnv fSp 0 exHistF := by
  simp only [exHistF, HistFull, ActionFull, InstrTopF, Quiet.OpndOK, and_true, true_and]
  exact ⟨⟨1, rfl⟩, 2, fEnv_body1⟩

end IncrVerif.Proofs.FullH
