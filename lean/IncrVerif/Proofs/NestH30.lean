import IncrVerif.Proofs.NestH29
/-!
# Nested binds (F2), `lhsRelink`, part 5: `lhsRelink` keeps the structural invariant — `relink_spec2 : RelinkSpec2 env`

Port of `BindH70` (`CR5`, `relink_spec1`).
-/
namespace IncrVerif.Proofs.NestH
open IncrVerif.Engine IncrVerif.Proofs IncrVerif.Proofs.Step IncrVerif.Proofs.Sched IncrVerif.Proofs.Quiet
open IncrVerif.Proofs.BindH

open NR in
/-- **`lhsRelink` keeps the structural invariant** (fragment F2, nested binds): the record of the bind gets the new right-hand side (a
top-level node of smaller rank than the change detector, or a node created by this run of the closure — possibly the main node of an inner
bind), the change detector gets the stamp of the round, the old right-hand side (a top-level node or a dying node of the scope, possibly the
main node of an inner bind) is unlinked from the bind's main node and the new one linked (with heights adjusted), the cone of the old
right-hand side becomes unnecessary if nothing else needs it, and everything is closed again; the main node is still necessary.  The
bind may itself be an INNER bind (its two nodes are nodes of an outer scope): the main node is assumed valid. -/
theorem relink_spec2 (env : Env) : RelinkSpec2 env := by
  intro fuel b n rhs rk s s' br br1 ex dy h I hex hah hb hr1 hm1 hl hvm hnecm hrs _ hrkd hrhs0 hold hdy hnf hpi hrm
  rw [← hm1] at hex hnecm hrm hvm ⊢
  have hrhs : RhsOK2 rk s b n rhs := ⟨hrkd, hrhs0⟩
  unfold Inval.lhsRelink at h
  rw [← hm1, ← hr1] at h
  replace hold : ∀ o, br1.rhs = some o → (∀ b', (s.nodeD o).kind ≠ .bindLhsChange b') ∧
      (((s.nodeD o).createdIn = .top ∧ rk o < rk n) ∨
       ((s.nodeD o).createdIn = .bind b ∧ o ∈ dy)) := by
    intro o ho; exact hold o (by rw [← hr1]; exact ho)
  obtain ⟨hnm, hms, hkn, hkm, hvn, hrknm, hcm⟩ := bind_facts I hb hl hvm
  have hn : n < s.nodes.size := by omega
  have hfP : ∀ m, ((BR.pre b n rhs s.stabNum s).nodeD m).forceNecessary = false := by
    intro m
    show ((BR.stamped n s.stabNum s).nodeD m).forceNecessary = false
    rw [BR.stamped_nodeD]; split
    · exact hnf m
    · exact hnf m
  have hmP : ∀ m, ((BR.pre b n rhs s.stabNum s).nodeD m).heightInAhh = (s.nodeD m).heightInAhh := by
    intro m
    show ((BR.stamped n s.stabNum s).nodeD m).heightInAhh = _
    rw [BR.stamped_nodeD]; split <;> rfl
  have hcP : ∀ m, ((BR.pre b n rhs s.stabNum s).nodeD m).createdIn = (s.nodeD m).createdIn :=
    fun m => CR.stamped_createdIn (s := s) (n := n) s.stabNum m
  have hhP : ∀ m, ((BR.pre b n rhs s.stabNum s).nodeD m).height = (s.nodeD m).height := by
    intro m
    show ((BR.stamped n s.stabNum s).nodeD m).height = _
    rw [BR.stamped_nodeD]; split <;> rfl
  have hnP : ∀ m, (BR.pre b n rhs s.stabNum s).isNecessary m = s.isNecessary m :=
    fun m => CR.stamped_nec (s := s) (n := n) s.stabNum m
  have EP : AhhEmpty (BR.pre b n rhs s.stabNum s) := BR.ahhEmpty_frame hah rfl hmP
  -- the change detector is necessary
  have hnecn : s.isNecessary n = true := by
    have hk0 : (s.children br1.main)[0]? = some n := by rw [BR.children_main hvm hkm hb]; rfl
    exact nec_of_mem_parents (I.conv br1.main 0 n hk0 ((wants_closed rfl).2 hnecm))
  -- the common end
  have finish : GInv2 env rk s' allClosed ex dy → AhhEmpty s' → BR.KRel (BR.pre b n rhs s.stabNum s) s' →
      s'.isNecessary br1.main = true →
      GInv2 env rk s' allClosed ex dy ∧ AhhEmpty s' ∧ RRelB b n rhs br1 s s' ∧ s'.propagateInvalidity = [] ∧
        (∀ m, (s'.nodeD m).forceNecessary = false) ∧ s'.isNecessary br1.main = true := by
    intro I' E' K hnec'
    refine ⟨I', E', BR.rrel_of_krel hb hn K (by rw [I'.frag.pc, I.frag.pc]), ?_, ?_, hnec'⟩
    · rw [K.pinv]; exact hpi
    · intro m; rw [K.force m]; exact hfP m
  unfold modBind at h
  obtain ⟨s1, hs1, h⟩ := bind_modify_inv h
  obtain ⟨s2, hs2, h⟩ := bind_modNode_inv h
  have e2 : s2 = BR.pre b n rhs s.stabNum s := by rw [hs2, hs1]; rfl
  rw [e2] at h
  unfold changeChildBindRhs at h
  obtain ⟨mn, hmn, h⟩ := bind_getNode_inv h
  have hmP' : (BR.pre b n rhs s.stabNum s).nodeD br1.main = s.nodeD br1.main := BR.stamped_main hnm _
  have hnP' : (BR.pre b n rhs s.stabNum s).nodeD n = { s.nodeD n with changedAt := s.stabNum } :=
    BR.stamped_self hn _
  have hkq : mn.kind? = some (.bindMain b n) := by
    have e : (BR.pre b n rhs s.stabNum s).nodeD br1.main = mn := nodeD_of_some hmn
    rw [← e, hmP']
    unfold Node.kind?
    rw [hvm, hkm]; rfl
  rw [hkq] at h
  dsimp only at h
  cases hr : br1.rhs with
  | none =>
    rw [hr] at h
    dsimp only at h
    have It := pre_inv_none I hex hb hr hl hnecm hrs hrhs hrm
    obtain ⟨I', E', K, hnec'⟩ := link_part h I It hex EP hb hl hnecm hpi hrm hmP' hnP' rfl
      (fun m b' br' hf => by rw [hfP m] at hf; cases hf)
      (fun m hmd => by rw [hcP]; exact hdy m hmd) hnf hhP (fun m hm => by rw [hnP]; exact hm)
    exact finish I' E' K hnec'
  | some o =>
    rw [hr] at h
    dsimp only at h
    have hon : o ≠ n := by
      intro e
      rw [e] at hr
      exact (hold n hr).1 b hkn
    by_cases hor : o = rhs
    · simp only [hor, beq_self_eq_true, if_true] at h
      obtain ⟨-, e⟩ := pure_ok_inv h
      refine finish (by rw [e]; exact pre_inv_same I hex hb (by rw [hr, hor]) hl hvm hrm)
        (by rw [e]; exact EP) (by rw [e]; exact BR.KRel.refl _) ?_
      rw [e]
      simp only [State.isNecessary, hmP']
      exact hnecm
    · have hbeq : (o == rhs) = false := by simpa using hor
      simp only [hbeq, Bool.false_eq_true, if_false] at h
      obtain ⟨_, s3, hrp, h⟩ := bind_ok_inv h
      obtain ⟨s4, hs4, h⟩ := bind_modNode_inv h
      obtain ⟨_, s7, hsap, h⟩ := bind_ok_inv h
      obtain ⟨s8, hs8, h⟩ := bind_modNode_inv h
      obtain ⟨nd, pi, hnd, hidx, e3⟩ := removeParent_ok_inv hrp
      have e4 : s4 = BR.pre4 b n rhs o pi s.stabNum s := by rw [hs4, e3]; rfl
      have e8 : s8 = BR.forced o false s7 := hs8
      rw [e4] at hsap
      rw [e8] at h
      have hoP : (BR.pre b n rhs s.stabNum s).nodeD o = s.nodeD o := BR.stamped_other hon _
      have hndD : s.nodeD o = nd := by rw [← nodeD_of_some hnd]; exact hoP.symm
      rw [← hndD] at hidx
      have ho : o < s.nodes.size := by
        have := lt_of_some hnd
        rw [show (BR.pre b n rhs s.stabNum s).nodes.size = s.nodes.size from Array.size_modify] at this
        exact this
      have It := pre_inv_some I hex hb hr hl hnecm hrs hrhs hon hrm hidx
      have hom : o ≠ br1.main := by
        have hk1 : (s.children br1.main)[1]? = some o := by
          rw [BR.children_main hvm hkm hb, hr]; rfl
        exact I.kid_ne hk1
      have E4 : AhhEmpty (BR.pre4 b n rhs o pi s.stabNum s) := by
        refine BR.ahhEmpty_frame hah rfl fun m => ?_
        rw [BR.pre4_nodeD]
        split
        · exact hmP m
        · exact hmP m
      have htm : (BR.pre4 b n rhs o pi s.stabNum s).nodeD br1.main = s.nodeD br1.main := by
        rw [BR.pre4_nodeD, if_neg (fun e => hom e.1)]; exact hmP'
      have htn : (BR.pre4 b n rhs o pi s.stabNum s).nodeD n = { s.nodeD n with changedAt := s.stabNum } := by
        rw [BR.pre4_nodeD, if_neg (fun e => hon e.1)]; exact hnP'
      -- the only forced node is `o`; if it is a node of the scope, the change detector is necessary and closed
      have hF4 : ∀ m b' br', ((BR.pre4 b n rhs o pi s.stabNum s).nodeD m).forceNecessary = true →
          ((BR.pre4 b n rhs o pi s.stabNum s).nodeD m).createdIn = .bind b' →
          (BR.pre4 b n rhs o pi s.stabNum s).binds[b']? = some br' →
          (BR.pre4 b n rhs o pi s.stabNum s).isNecessary br'.lhsChange = true ∧
            upd allClosed br1.main (.linking 1) br'.lhsChange = .closed := by
        intro m b' br' hf hc hb'
        have hmo : m = o := by
          apply Decidable.byContradiction
          intro e
          rw [BR.pre4_nodeD, if_neg (fun h => e h.1.symm)] at hf
          have := hfP m
          rw [show (BR.pre b n rhs s.stabNum s).nodeD m = (BR.stamped n s.stabNum s).nodeD m from rfl] at this
          rw [this] at hf; cases hf
        rw [hmo, CR.pre4_createdIn] at hc
        have hbb : b' = b := by
          rcases (hold o hr).2 with ⟨h1, -⟩ | ⟨h1, -⟩
          · rw [h1] at hc; cases hc
          · rw [h1] at hc; injection hc with hc; exact hc.symm
        rw [hbb] at hb'
        have hb4 : (BR.pre4 b n rhs o pi s.stabNum s).binds[b]? = some { br1 with rhs := some rhs } :=
          BR.pre_binds_self (n := n) (v := s.stabNum) hb
        rw [hb4] at hb'
        cases hb'
        show (BR.pre4 b n rhs o pi s.stabNum s).isNecessary br1.lhsChange = true ∧
          upd allClosed br1.main (.linking 1) br1.lhsChange = .closed
        rw [hl]
        refine ⟨?_, ?_⟩
        · simp only [State.isNecessary, htn]
          exact hnecn
        · rw [upd_other _ _ _ (by omega)]; rfl
      obtain ⟨I7, E7, K47, hnec7m⟩ := link_part hsap I It hex E4 hb hl hnecm hpi hrm htm htn rfl hF4
        (fun m hmd => by rw [CR.pre4_createdIn]; exact hdy m hmd) hnf
        (fun m => by
          rw [BR.pre4_nodeD]; split
          · exact hhP m
          · exact hhP m)
        (fun m hm => by
          by_cases e : m = o
          · rw [e, isNecessary_iff, BR.pre4_nodeD, if_pos ⟨rfl, ho⟩]
            exact Or.inr (Or.inr rfl)
          · have : (BR.pre4 b n rhs o pi s.stabNum s).nodeD m = (BR.pre b n rhs s.stabNum s).nodeD m := by
              rw [BR.pre4_nodeD, if_neg (fun h => e h.1.symm)]; rfl
            simp only [State.isNecessary, this]
            exact (hnP m).trans hm)
      have hnec7 : s7.isNecessary o = true := by
        rw [isNecessary_iff, K47.force o, BR.pre4_nodeD, if_pos ⟨rfl, ho⟩]
        exact Or.inr (Or.inr rfl)
      obtain ⟨I', E', K8, hab⟩ := unforce_part h I7 hnec7 E7
      refine finish I' E' (BR.krel_compose K47 K8 (hfP o)) ?_
      -- the main node has a higher rank than `o`: the last cascade did not touch it
      have hrk7 : rk o < rk br1.main := by
        rcases (hold o hr).2 with ⟨-, h2⟩ | ⟨h1, -⟩
        · omega
        · exact (I.frag.scope_rk ho h1 hb).2
      have hm8 : s'.nodeD br1.main = (BR.forced o false s7).nodeD br1.main :=
        hab br1.main hrk7
      have hm87 : (BR.forced o false s7).nodeD br1.main = s7.nodeD br1.main := by
        rw [BR.forced_nodeD, if_neg (fun e => hom e.1)]
      simp only [State.isNecessary, hm8, hm87]
      exact hnec7m

end IncrVerif.Proofs.NestH
