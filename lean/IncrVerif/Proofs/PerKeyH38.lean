import IncrVerif.Proofs.PerKeyH37
import IncrVerif.Proofs.PerKeyH14
/-!
# A run of a per-key change detector, part 5b (`.unequal` iteration): the invariants along the frame `UF`
-/
namespace IncrVerif.Proofs.PerKeyH
open IncrVerif.Engine IncrVerif.Driver IncrVerif.Proofs IncrVerif.Proofs.Step IncrVerif.Proofs.Sched
open IncrVerif.Proofs.ExpertH IncrVerif.Proofs.EffH IncrVerif.Proofs.DriverH IncrVerif.Proofs.ExpertH.QR

section
variable {e : Nat} {er : ExpertRec} {a b : State}

theorem UF.binds (U : UF e er a b) : b.binds = a.binds := by
  have := U.key
  simp only [eKey, Prod.mk.injEq] at this
  exact this.2.1

theorem UF.kind? (U : UF e er a b) (m : Nat) : (b.nodeD m).kind? = (a.nodeD m).kind? := by
  obtain ⟨h, e0⟩ := U.node m; rw [e0]; rfl

theorem UF.xnone (U : UF e er a b) {e' : Nat} (h : a.experts[e']? = none) : b.experts[e']? = none := by
  cases h2 : b.experts[e']? with
  | none => rfl
  | some er'' => obtain ⟨er', h3, -⟩ := U.bwd h2; rw [h] at h3; cases h3

theorem UF.children (U : UF e er a b) (m : Nat) : b.children m = a.children m := by
  unfold State.children; rw [U.kind?, U.binds]
  cases hk : (a.nodeD m).kind? with
  | none => rfl
  | some k =>
    cases k <;> try rfl
    rename_i e'
    simp only
    cases hx : a.experts[e']? with
    | none => rw [U.xnone hx]
    | some er' => obtain ⟨er'', h2, h3, -⟩ := U.fwd hx; rw [h2, h3]

theorem UF.recomputedAt (U : UF e er a b) (m : Nat) : (b.nodeD m).recomputedAt = (a.nodeD m).recomputedAt := by
  obtain ⟨h, e0⟩ := U.node m; rw [e0]

theorem UF.changedAt (U : UF e er a b) (m : Nat) : (b.nodeD m).changedAt = (a.nodeD m).changedAt := by
  obtain ⟨h, e0⟩ := U.node m; rw [e0]

/-- staleness only grows -/
theorem UF.isStale_mono (U : UF e er a b) (n : Nat) (h : a.isStale n = true) : b.isStale n = true := by
  unfold State.isStale at h ⊢
  simp only [U.kind?, U.recomputedAt, U.changedAt, U.children, U.vars] at h ⊢
  cases hk : (a.nodeD n).kind? with
  | none => rw [hk] at h; exact h
  | some k =>
    rw [hk] at h
    cases k <;> try exact h
    rename_i e'
    simp only at h ⊢
    cases hx : a.experts[e']? with
    | none =>
      rw [hx] at h; rw [U.xnone hx]; exact h
    | some er' =>
      obtain ⟨er'', h2, -, h4, -⟩ := U.fwd hx
      rw [hx] at h
      rw [h2]
      simp only [Bool.or_eq_true] at h ⊢
      rcases h with (h | h) | h
      · exact Or.inl (Or.inl (h4 h))
      · exact Or.inl (Or.inr h)
      · exact Or.inr h

theorem UF.value (U : UF e er a b) (env : Env) (n : Nat) : b.value env n = a.value env n := by
  refine value_congr env a b U.size (fun m => ?_) n
  obtain ⟨h, e0⟩ := U.node m; rw [e0]; rfl

/-! ## the fragment, the slots, the observers -/

theorem UF.frag {env : Env} (U : UF e er a b) (F : PFrag env a) : PFrag env b where
  pc := by rw [U.pc]; exact F.pc
  kind n hn := by rw [U.kind]; exact F.kind n (by rw [← U.size]; exact hn)
  valid n hn := by
    obtain ⟨h, e0⟩ := U.node n; rw [e0]; exact F.valid n (by rw [← U.size]; exact hn)
  cutoff n hn := by
    obtain ⟨h, e0⟩ := U.node n; rw [e0]; exact F.cutoff n (by rw [← U.size]; exact hn)
  top n hn := by
    obtain ⟨h, e0⟩ := U.node n; rw [e0]; exact F.top n (by rw [← U.size]; exact hn)
  force n hn := by
    obtain ⟨h, e0⟩ := U.node n; rw [e0]; exact F.force n (by rw [← U.size]; exact hn)
  xrec n e' hn hk := by
    rw [U.kind] at hk
    obtain ⟨er', h1, h2⟩ := F.xrec n e' (by rw [← U.size]; exact hn) hk
    obtain ⟨er'', h3, h4, -⟩ := U.fwd h1
    exact ⟨er'', h3, by rw [h4]; exact h2⟩
  xnode e' er'' h := by
    obtain ⟨er', h1, h2, -⟩ := U.bwd h
    obtain ⟨k1, k2⟩ := F.xnode e' er' h1
    rw [h2, U.size, U.kind]; exact ⟨k1, k2⟩
  xok e' er'' h := by
    obtain ⟨er', h1, h2, -⟩ := U.bwd h
    rw [h2]; exact F.xok e' er' h1
  scope := by rw [U.scope]; exact F.scope

theorem UF.slots {env : Env} (U : UF e er a b) (S : SlotInv env a) : SlotInv env b := by
  refine ⟨fun e' er'' h => ?_, fun n e' er'' hk h hw => ?_, fun n e' er'' hk h hw => ?_⟩
  · obtain ⟨er', h1, h2, -⟩ := U.bwd h
    rw [h2, U.nextDep]; exact S.deps e' er' h1
  · obtain ⟨er', h1, h2, -⟩ := U.bwd h
    rw [U.kind] at hk
    rw [U.isNecessary]
    exact S.flag n e' er' hk h1 (by rw [h2] at hw; exact hw)
  · obtain ⟨er', h1, h2, -⟩ := U.bwd h
    rw [U.kind] at hk
    have G : Good env a er' := by
      refine S.good n e' er' hk h1 ?_
      rcases hw with hw | hw
      · exact Or.inl (by rw [h2] at hw; exact hw)
      · refine Or.inr ?_
        cases hs : a.isStale n
        · rfl
        · rw [U.isStale_mono n hs] at hw; cases hw
    intro ed hed hcb
    rw [U.value]
    rw [h2] at hed ⊢
    exact G ed hed hcb

theorem UF.obs (U : UF e er a b) (O : ObsListed a) : ObsListed b := by
  intro m o ho
  rw [U.observers] at ho
  rw [U.stateObservers]
  exact O m o ho

/-! ## the bookkeeping -/

theorem UF.bf (U : UF e er a b) : BF (fun _ => False) a b := (U.lf _).bf

theorem UF.opcore {env : Env} (U : UF e er a b) {op : Nat} {pr : PerKeyRec} (C : OpCore env a op pr) :
    OpCore env b op pr := by
  refine ⟨C.cut, fun c x hc hx hp => ?_, fun x hp => by rw [U.observers]; exact C.noObs x hp,
    fun k x hk hp => C.privTop k x (by rw [← U.top]; exact hk) hp, C.templ, ?_, C.keys, C.deps, C.sorted⟩
  · rw [U.kidsX] at hx
    exact C.own c x (by rw [← U.size]; exact hc) hx hp
  obtain ⟨x, e0, er0, hN, he, hpk, hch, hent, hout⟩ := C.nodes
  obtain ⟨er0', he', heq, -⟩ := U.fwd he
  have hc : er0'.children = er0.children := by rw [heq]
  refine ⟨x, e0, er0', hN.bf U.bf rfl rfl, he', by rw [heq]; exact hpk, by rw [hc]; exact hch,
    fun key p d hm => ?_, fun k hk => by rw [U.top]; exact hout k hk⟩
  exact (hent key p d hm).bf_core U.bf (fun _ _ _ _ hd => hd) (fun ed hed => by rw [hc]; exact hed) rfl rfl rfl

theorem UF.pot (U : UF e er a b) {ψ : Nat → Nat} (P : Pot a ψ) : Pot b ψ := by
  refine ⟨fun n c hn hc => ?_, fun k n h => ?_, fun op pr h => ?_, fun n hn => ?_⟩
  · rw [U.kidsX] at hc; exact P.mono n c (by rw [← U.size]; exact hn) hc
  · rw [U.top] at h; exact P.top k n h
  · rw [U.perkeys] at h; exact P.op op pr h
  · exact P.le n (by rw [← U.size]; exact hn)

end

end IncrVerif.Proofs.PerKeyH
